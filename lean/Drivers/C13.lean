import PlinioVerif.Model.Proto
import PlinioVerif.Model.Quant
/-! Line driver for the C13 correspondence (quantizer models over exact rationals).

* `r x=[q,..]`                                   -> `[n,..]`                  round half to even
* `w bits=<p> w=[q,..]`                          -> `levels=[n,..] scale=<q>`  one output channel
* `a bits=<p> clip=<q> eps=<q> x=[q,..]`         -> `levels=[n,..] top=<n> scale=<q> step=<q>`
* `b sa=<q> sw=[q,..] b=[q,..]`                  -> `levels=[n,..]`            per-channel `sw`, `b`
-/
open PlinioVerif PlinioVerif.Proto PlinioVerif.Quant

def showInts (l : List Int) : String := showList toString l

def handle (line : String) : String :=
  let toks := tokens line
  match toks.head? with
  | some "r" =>
    match (field? toks "x").bind (parseList? parseRat?) with
    | some xs => showInts (xs.map rne)
    | none => "bad-request"
  | some "w" =>
    match (field? toks "bits").bind parseNat?, (field? toks "w").bind (parseList? parseRat?) with
    | some p, some w => s!"levels={showInts (mmLevels p w)} scale={showRat (mmScale p w)}"
    | _, _ => "bad-request"
  | some "a" =>
    match (field? toks "bits").bind parseNat?, (field? toks "clip").bind parseRat?,
          (field? toks "eps").bind parseRat?, (field? toks "x").bind (parseList? parseRat?) with
    | some p, some clip, some eps, some xs =>
      s!"levels={showInts (xs.map (pactLevelE eps p clip))} top={pactTopE eps p clip} " ++
      s!"scale={showRat (pactScale p clip)} step={showRat (pactStepE eps p clip)}"
    | _, _, _, _ => "bad-request"
  | some "b" =>
    match (field? toks "sa").bind parseRat?, (field? toks "sw").bind (parseList? parseRat?),
          (field? toks "b").bind (parseList? parseRat?) with
    | some sa, some sws, some bs =>
      if sws.length ≠ bs.length then "bad-request"
      else showInts ((bs.zip sws).map (fun (b, sw) => biasLevel b sa sw))
    | _, _, _ => "bad-request"
  | _ => "bad-request"

def main : IO Unit := runDriver handle
