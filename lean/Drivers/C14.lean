import PlinioVerif.Model.Proto
import PlinioVerif.Model.Quant
import PlinioVerif.Model.Integer
/-! Line driver for the C14 correspondence (integer backends).

* `bs div=<q> low=<n> high=<n> x=<q>`                         -> `<n>`
* `ia sb=<n> sp=<n> t=[q,..] b=[n,..]`                         -> `scale=[..] shift=<n> d=<q> alt=<n|-> altd=<q|->` or `none`
     (`alt` = the selection among the *other* shifts; used to recognise near-ties of the float run)
* `w bits=<p> w=[q,..]`                                        -> `[n,..]`   weight levels of one channel
* `b sa=<q> sw=[q,..] b=[q,..]`                                -> `[n,..]`   integer biases
* `stuff d=<n> w=[n,..]`                                       -> `[n,..]`
* `sb s=[n,..] nb=[n,..]`                                      -> `[n,..]`   scaled bias `int_bias * scale`
* `pad p0=<n> p1=<n> v=<n> x=[[n,..],..]`                      -> `[[n,..],..]`   MAUPITI padding of one channel
* `match p=<n> sh=<n> s=[n,..] nb=[n,..] acc=[[n,..],..]`      -> `[[n,..],..]`   one list per channel
* `maupiti pin=<n> pout=<n> sh=<n> s=[..] nb=[..] wsum=[..] acc=[[..],..]`
                                                               -> `zp=[..] out=[[..],..]`   (`acc` over offset inputs)
* `matchlast nb=[..] acc=[[..],..]`                            -> `[[n,..],..]`
* `maupitilast pin=<n> sh=<n> s=[..] nb=[..] wsum=[..] acc=[[..],..]` -> `zp=[..] out=[[q,..],..]`
* `fq eps=<q> p=<n> clip=<q> sx=<q> gx=<q> sw=[q,..] nb=[..] acc=[[..],..]` -> `top=<n> out=[[n,..],..]`
     integer image of the fake-quantized layer's output (`gx` = step the input quantizer used)
-/
open PlinioVerif PlinioVerif.Proto PlinioVerif.Quant PlinioVerif.Integer

def showInts (l : List Int) : String := showList toString l
def showNats (l : List Nat) : String := showList toString l
def showInts2 (l : List (List Int)) : String := showList showInts l

/-- per-channel map over `acc` with per-channel parameters -/
def perChan {α β} (ps : List α) (accs : List (List Int)) (f : α → Int → β) : List (List β) :=
  (ps.zip accs).map (fun pa => pa.2.map (f pa.1))

/-- the selection restricted to the shifts different from `skip` -/
def intApproxAlt (scaleBit shiftPos : Nat) (ts : List Rat) (bs : List Int) (skip : Nat) :
    Option (Rat × List Nat × Nat) :=
  ((List.range shiftPos).filter (· ≠ skip)).foldl (selStep (upperBound scaleBit) ts bs) none

def zip3 {α β γ} (a : List α) (b : List β) (c : List γ) : List (α × β × γ) :=
  (a.zip (b.zip c))

def handle (line : String) : String :=
  let toks := tokens line
  let nat (k : String) := (field? toks k).bind parseNat?
  let rat (k : String) := (field? toks k).bind parseRat?
  let ints (k : String) := (field? toks k).bind (parseList? parseInt?)
  let rats (k : String) := (field? toks k).bind (parseList? parseRat?)
  let ints2 (k : String) := (field? toks k).bind (parseList2? parseInt?)
  match toks.head? with
  | some "bs" =>
    match rat "div", nat "low", nat "high", rat "x" with
    | some d, some lo, some hi, some x => toString (bsearch d x lo hi)
    | _, _, _, _ => "bad-request"
  | some "ia" =>
    match nat "sb", nat "sp", rats "t", ints "b" with
    | some sb, some sp, some ts, some bs =>
      match intApprox sb sp ts bs with
      | none => "none"
      | some (ss, sh) =>
        let d := avgDiff sh ss ts
        match intApproxAlt sb sp ts bs sh with
        | none => s!"scale={showNats ss} shift={sh} d={showRat d} alt=- altd=-"
        | some (d2, _, sh2) => s!"scale={showNats ss} shift={sh} d={showRat d} alt={sh2} altd={showRat d2}"
    | _, _, _, _ => "bad-request"
  | some "w" =>
    match nat "bits", rats "w" with
    | some p, some w => showInts (mmLevels p w)
    | _, _ => "bad-request"
  | some "b" =>
    match rat "sa", rats "sw", rats "b" with
    | some sa, some sws, some bs =>
      if sws.length ≠ bs.length then "bad-request"
      else showInts ((bs.zip sws).map (fun (b, sw) => biasLevel b sa sw))
    | _, _, _ => "bad-request"
  | some "stuff" =>
    match nat "d", ints "w" with
    | some d, some w => showInts (stuff d w)
    | _, _ => "bad-request"
  | some "sb" =>
    match ints "s", ints "nb" with
    | some ss, some nbs => showInts ((nbs.zip ss).map (fun (nb, s) => nb * s))
    | _, _ => "bad-request"
  | some "pad" =>
    match nat "p0", nat "p1", (field? toks "v").bind parseInt?, ints2 "x" with
    | some p0, some p1, some v, some x => showInts2 (padGrid p0 p1 v x)
    | _, _, _, _ => "bad-request"
  | some "match" =>
    match nat "p", nat "sh", ints "s", ints "nb", ints2 "acc" with
    | some p, some sh, some ss, some nbs, some accs =>
      showInts2 (perChan (ss.zip nbs) accs (fun (s, nb) a => matchOut a s (nb * s) sh p))
    | _, _, _, _, _ => "bad-request"
  | some "maupiti" =>
    match nat "pin", nat "pout", nat "sh", ints "s", ints "nb", ints "wsum", ints2 "acc" with
    | some pin, some pout, some sh, some ss, some nbs, some ws, some accs =>
      let ps := (zip3 ss nbs ws).map (fun (s, nb, w) => (s, zeroPoint (nb * s) s w sh pin pout))
      s!"zp={showInts (ps.map (·.2))} out={showInts2 (perChan ps accs (fun (s, zp) a => maupitiOut a s zp sh pout))}"
    | _, _, _, _, _, _, _ => "bad-request"
  | some "matchlast" =>
    match ints "nb", ints2 "acc" with
    | some nbs, some accs => showInts2 (perChan nbs accs (fun nb a => matchLast a nb))
    | _, _ => "bad-request"
  | some "maupitilast" =>
    match nat "pin", nat "sh", ints "s", ints "nb", ints "wsum", ints2 "acc" with
    | some pin, some sh, some ss, some nbs, some ws, some accs =>
      let ps := (zip3 ss nbs ws).map (fun (s, nb, w) => (s, zeroPointLast (nb * s) s w pin))
      let out := perChan ps accs (fun (s, zp) a => maupitiLast a s zp sh)
      s!"zp={showInts (ps.map (·.2))} out={showList (showList showRat) out}"
    | _, _, _, _, _, _ => "bad-request"
  | some "fq" =>
    match rat "eps", nat "p", rat "clip", rat "sx", rat "gx", rats "sw", ints "nb", ints2 "acc" with
    | some eps, some p, some clip, some sx, some gx, some sws, some nbs, some accs =>
      let out := perChan (sws.zip nbs) accs (fun (sw, nb) a => fqLevel eps p clip a nb sw sx gx)
      s!"top={pactTopE eps p clip} out={showInts2 out}"
    | _, _, _, _, _, _, _, _ => "bad-request"
  | _ => "bad-request"

def main : IO Unit := runDriver handle
