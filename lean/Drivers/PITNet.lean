import PlinioVerif.Model.Proto
import PlinioVerif.Model.PIT.Net
import PlinioVerif.Model.PIT.Parse
/-! Line driver for the PIT network-level correspondence (C01, C04, C07, C08, C09).

request : `<op>;<op>;…|<n>=q,q,…;<n>=…|full=<0|1>`
   ops  : `input c` `conv s cout k bias osz` `dw s k bias osz` `lin s cout bias`
          `fixed s cout k bias osz lin?` `fixeddw s k bias osz` `chan s` `add a b` `cat a,b,…`
          `tcat a,b,…` `flat s mult` `reuse s layer lsrc cout k bias osz` `output s` (Model/PIT/Parse.lean)
   alpha: parameters of the masker of (the component of) searchable node n
answer  : `sup=<0|1> why=<add|dw|tcat joined by +> ws=<0|1> params=<n> ops=<n> xparams=<n> | <n>:out=…,in=…,frozen=…,grp=…,masker=<0|1>,okept=[..],ikept=[..],groups=… | …`
          or `err:labels`
-/
open PlinioVerif PlinioVerif.Proto PlinioVerif.PIT

/-- which kinds of op consume a tainted (concat- or flatten-derived) tensor -/
def unsupKinds (p : Prog) : List String :=
  let t := tainted p
  let ks := p.filterMap fun op => match op with
    | .add a b => if t.getD a false || t.getD b false then some "add" else none
    | .tcat ss => if ss.any (t.getD · false) then some "tcat" else none
    | .dw s _ => if t.getD s false then some "dw" else none
    | .fixedDw s _ => if t.getD s false then some "dw" else none
    | .reuse s _ ls _ _ => if t.getD s false || t.getD ls false then some "reuse" else none
    | .reuseDw s _ ls _ => if t.getD s false || t.getD ls false then some "reuse" else none
    | _ => none
  ks.eraseDups

def showMask (m : List Bool) : String := String.join (m.map fun b => if b then "1" else "0")

def handle (line : String) : String :=
  match line.trimAscii.toString.splitOn "|" with
  | [ps, as, fs] =>
    match (ps.splitOn ";").mapM (fun s => parseOp (tokens s)) with
    | none => "bad-request"
    | some p =>
    match computeLabels p with
    | none => "err:labels"
    | some labels =>
      let alphas : List (Nat × List Rat) := (as.splitOn ";").filterMap fun s =>
        match s.splitOn "=" with
        | [n, qs] => match n.toNat?, (qs.splitOn ",").mapM parseRat? with
          | some n, some q => some (n, q)
          | _, _ => none
        | _ => none
      let alphaOf := fun g => match alphas.find? (fun (n, _) => labels.getD n 0 == g) with
        | some (_, a) => a | none => []
      let full := fs.trimAscii.toString == "full=1"
      let ms := aliveMasks p labels alphaOf
      let plan := exportPlan p ms
      let rows := p.zipIdx.filterMap fun (op, n) =>
        if op.searchable then
          let g := groupOf p labels (labels.getD n 0)
          let pl := plan.find? (·.node = n)
          some (s!"{n}:out={showMask (ms.getD n [])},in={showMask (inMask p ms n)}," ++
            s!"frozen={showBool ((g.map (·.frozen)).getD false)},grp={labels.getD n 0},masker={showBool g.isSome}," ++
            s!"okept={showList toString ((pl.map (·.outKept)).getD [])},ikept={showList toString ((pl.map (·.inKept)).getD [])}," ++
            s!"groups={(pl.map (·.groups)).getD 0}")
        else none
      s!"sup={showBool (supported p)} why={"+".intercalate (unsupKinds p)} ws={showBool (wellShaped p)} params={costParams p ms full} ops={costOps p ms full} xparams={exportedParams p ms} | " ++
        " | ".intercalate rows
  | _ => "bad-request"

def main : IO Unit := runDriver handle
