import PlinioVerif.Model.Proto
import PlinioVerif.Model.PIT.TimeMask
/-! Line driver for the PIT masker / time-mask correspondence (C01, C04, C08, C12).

`alpha C=<n> v=[q,…]`                          -> `theta=[…] bin=[…] opt=<n> eff=<q>`
`tmask K=<n> d0=<n> beta=[…] gamma=[…]`        -> `L=… tb=[…] tg=[…] mask=[…] k=… d=… pad=… kept=[…] keffc=<q> aligned=<0|1>`
`conv K= d0= s= T= cout= beta=[…] gamma=[…] w=[[taps of (co,ci)],…] b=[…] x=[[samples of ci],…]`
                                               -> `masked=[[…],…] exported=[[…],…]` (the two sides of `conv1d_layer_masked_eq_exported`)
-/
open PlinioVerif PlinioVerif.Proto PlinioVerif.PIT

def handle (line : String) : String :=
  let toks := tokens line
  match toks.head? with
  | some "alpha" =>
    match (field? toks "C").bind parseNat?, (field? toks "v").bind (parseList? parseRat?) with
    | some C, some v =>
      if v.length ≠ C then "bad-request" else
      let α := ofList v
      let th := (List.range C).map (thetaAlpha C α)
      s!"theta={showList showRat th} bin={showList showBool (featuresMask C α)} opt={countTrue (featuresMask C α)} eff={showRat (outEff false C α)}"
    | _, _ => "bad-request"
  | some "tmask" =>
    match (field? toks "K").bind parseNat?, (field? toks "d0").bind parseNat?,
          (field? toks "beta").bind (parseList? parseRat?), (field? toks "gamma").bind (parseList? parseRat?) with
    | some K, some d0, some b, some g =>
      let L := gammaLen K
      if b.length ≠ K || g.length ≠ L || K = 0 then s!"bad-request L={L}" else
      let β := ofList b
      let γ := ofList g
      let m := timeMask K β γ
      let tb := (List.range K).map (thetaBeta K β)
      let tg := (List.range K).map (thetaGamma K L γ)
      s!"L={L} tb={showList showRat tb} tg={showList showRat tg} mask={showList showBool m} k={kernelSizeOpt K β γ} d={dilationOpt K d0 γ} pad={padOpt K d0 β γ} kept={showList toString (keptTaps m)} keffc={showRat (kEff false K β γ)} aligned={showBool (exportAligned K d0 β γ)}"
    | _, _, _, _ => "bad-request"
  | some "conv" =>
    match (field? toks "K").bind parseNat?, (field? toks "d0").bind parseNat?, (field? toks "s").bind parseNat?,
          (field? toks "T").bind parseNat?, (field? toks "cout").bind parseNat?,
          (field? toks "beta").bind (parseList? parseRat?), (field? toks "gamma").bind (parseList? parseRat?),
          (field? toks "w").bind (parseList2? parseInt?), (field? toks "b").bind (parseList? parseInt?),
          (field? toks "x").bind (parseList2? parseInt?) with
    | some K, some d0, some st, some T, some cout, some bt, some g, some w, some b, some x =>
      if bt.length ≠ K || g.length ≠ gammaLen K || K = 0 then "bad-request" else
      let β := ofList bt
      let γ := ofList g
      let cin := x.length
      let wf := fun co ci j => ((w.getD (co * cin + ci) []).getD j 0)
      let bf := fun co => b.getD co 0
      let sh := fun (r : List (List Int)) => showList (showList toString) r
      s!"masked={sh (convLayer (maskedConvAt K d0 β γ) cout wf bf x st T)} exported={sh (convLayer (exportedConvAt K d0 β γ) cout wf bf x st T)}"
    | _, _, _, _, _, _, _, _, _, _ => "bad-request"
  | _ => "bad-request"

def main : IO Unit := runDriver handle
