import PlinioVerif.Model.Proto
import PlinioVerif.Model.CostNum
import PlinioVerif.Model.CostHand
import PlinioVerif.Model.NE16
import PlinioVerif.Gen.Ste
import PlinioVerif.Gen.Cost
/-! Line driver for the C16 correspondence (value reading `CostNum Rat` of the generated models).

```
costfn <module> <function> ic= oc= if= of= g= wp= ip= ap= th= k=[..] osh=[..] bias=0|1 hasap=0|1
                                            -> ok:<q> | err | unknown      (absent fields: 0 / [])
fn     <module> <function|Class.forward> args=[q,…]   -> ok:<q> | err | unknown | arity
bwd    <module> <Class> args=[q,…] g=<q>              -> [q,none,…] | unknown
ne16   op=<str> kh=<q> kw=<q> dw=0|1 wbits=<q> layer=[h,w,ko,ki]   -> lat:<q> ops:<q>
ox     args=[ch_eff,ch_in,k_x,k_y]                    -> <q>
registry                                              -> spec/layer/constr/fn;…  (sorted by the harness)
```
-/
open PlinioVerif PlinioVerif.Proto

def ratField (toks : List String) (key : String) : Rat :=
  ((field? toks key).bind parseRat?).getD 0
def listField (toks : List String) (key : String) : List Rat :=
  ((field? toks key).bind (parseList? parseRat?)).getD []
def boolField (toks : List String) (key : String) : Bool :=
  ((field? toks key).bind parseBool?).getD false

def specOf (toks : List String) : LSpec Rat :=
  { in_channels := ratField toks "ic", out_channels := ratField toks "oc",
    in_features := ratField toks "if", out_features := ratField toks "of",
    groups := ratField toks "g", w_precision := ratField toks "wp", in_precision := ratField toks "ip",
    a_precision := ratField toks "ap", w_theta_alpha := ratField toks "th",
    kernel_size := listField toks "k", output_shape := listField toks "osh",
    hasBias := boolField toks "bias", has_a_precision := boolField toks "hasap" }

def showRes (r : Bool × Rat) : String := if r.1 then s!"ok:{showRat r.2}" else "err"

def showOpt (o : Option Rat) : String := match o with
  | some q => showRat q
  | none => "none"

def handle (line : String) : String :=
  let toks := tokens line
  match toks with
  | "costfn" :: m :: f :: rest =>
    match Gen.dispatchSpec m f with
    | some fn => showRes (fn (specOf rest))
    | none => "unknown"
  | "fn" :: m :: f :: rest =>
    match Gen.dispatchArgs m f with
    | some (n, fn) =>
      let args := listField rest "args"
      if args.length = n then showRes (fn args) else "arity"
    | none => "unknown"
  | "bwd" :: m :: c :: rest =>
    match Gen.dispatchBwd m c with
    | some fn => showList showOpt (fn (listField rest "args") (ratField rest "g"))
    | none => "unknown"
  | "ne16" :: rest =>
    let c : NE16.Cfg Rat := ⟨(field? rest "op").getD "", ratField rest "kh", ratField rest "kw",
      boolField rest "dw", ratField rest "wbits"⟩
    let l := listField rest "layer"
    let h := l.getD 0 0; let w := l.getD 1 0; let ko := l.getD 2 0; let ki := l.getD 3 0
    s!"lat:{showRat (NE16.latency c h w ko ki)} ops:{showRat (NE16.ops c h w ko ki)}"
  | "ox" :: rest => showRat (Hand.oxUnrollL (listField rest "args"))
  | ["registry"] =>
    ";".intercalate ((Gen.registry (α := Rat)).map fun e => s!"{e.spec}/{e.layer}/{e.constr}/{e.fn}")
  | _ => "bad-request"

def main : IO Unit := runDriver handle
