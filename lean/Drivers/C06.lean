import PlinioVerif.Model.Proto
import PlinioVerif.Model.SuperNet
/-! Line driver for the C06 correspondence.

`cost shared=<0|1> full=<0|1> alpha=[<combiner>|q|…,…] theta=[<combiner>|q|…,…] u=[q,…] nodes=[<node>,…]`
(`nodes` as in `Drivers/C03.lean`; `u` = unit cost of every node, i.e. what the metric's cost function
returns for the node's module at the node's own output shape, 0 for non-modules; `theta` = the
coefficients the combiners currently hold, `alpha` the raw ones) answers

`mix=<q> lo=<q> hi=<q> hard=<q> fixed=<q> export=<q|err> sameu=<0|1> selok=<0|1> names=<0|1> sites=<0|1>`

* `mix`    `SuperNet.get_cost` with the given `theta`
* `lo/hi`  the cost of the cheapest / most expensive selection (one-hot at the cheapest / most
           expensive branch of every block)
* `hard`   the cost with one-hot coefficients at arg-max alpha
* `fixed`  what `full_cost=True` adds (cost of the layers outside choice blocks)
* `export` the metric computed from scratch on the exported graph (model of `export_graph`)
* `sameu`  every call site of a leaf module charges the same unit cost
* `selok`  hypothesis `SelectionOk` of the C06 theorems holds for the arg-max selection
* `names`  hypothesis `NamesSane` of `hard_cost_eq_export_cost` holds (arg-max selection, model export)
* `sites`  hypothesis `SitesSane` holds (once per call site, same unit cost at every call site) -/
open PlinioVerif PlinioVerif.Proto PlinioVerif.SuperNet

def parseArgs? (s : String) : Option (List Nat) :=
  if s = "" then some [] else (s.splitOn "+").mapM (·.toNat?)

def parseNode? (t : String) : Option Node :=
  match t.splitOn "|" with
  | [k, tgt, as] => do
    let args ← parseArgs? as
    match k with
    | "in" => (tgt.toNat?).map fun n => Node.input n
    | "mod" => some (Node.leaf ⟨.module, tgt⟩ args)
    | "fn" => some (Node.leaf ⟨.function, tgt⟩ args)
    | "fni" => some (Node.leaf ⟨.impureFunction, tgt⟩ args)
    | "meth" => some (Node.leaf ⟨.method, tgt⟩ args)
    | "comb" => some (Node.combine tgt args)
    | "out" => some ⟨.output, args⟩
    | _ => none
  | _ => none

def parseCoef? (t : String) : Option (String × List Rat) :=
  match t.splitOn "|" with
  | c :: qs => (qs.mapM parseRat?).map fun l => (c, l)
  | _ => none

def onehotRat (n k : Nat) : List Rat := (List.range n).map fun i => if i = k then 1 else 0

def handle (line : String) : String :=
  let toks := tokens line
  match toks.head? with
  | some "cost" =>
    match (field? toks "shared").bind parseBool?, (field? toks "full").bind parseBool?,
          (field? toks "alpha").bind (parseList? parseCoef?),
          (field? toks "theta").bind (parseList? parseCoef?),
          (field? toks "u").bind (parseList? parseRat?),
          (field? toks "nodes").bind (parseList? parseNode?) with
    | some shared, some full, some alpha, some theta, some ul, some g =>
      let u : Nat → Rat := fun i => ul.getD i 0
      let names := combinerNames g
      let win := winners alpha
      let θ : String → List Rat := assoc theta []
      -- one-hot coefficient tables of a selection, computed once per request
      let sel := fun (w : String → Nat) =>
        assoc (names.map fun c => (c, onehotRat (nBranches g c) (w c))) []
      let mix := snCost shared full θ u g
      let lo := snCost shared full (sel (extremeSelection (· < ·) u g)) u g
      let hi := snCost shared full (sel (extremeSelection (· > ·) u g)) u g
      let hard := snCost shared full (sel win) u g
      let fixed := snCost shared true θ u g - snCost shared false θ u g
      let (ex, names) := match exportGraph win g with
        | some g' => (showRat (plainCost shared u g'), namesSaneB win g g')
        | none => ("err", false)
      s!"mix={showRat mix} lo={showRat lo} hi={showRat hi} hard={showRat hard} fixed={showRat fixed} export={ex} sameu={showBool (sameUnitCost u g)} selok={showBool (selectionOkB g win)} names={showBool names} sites={showBool (sitesSaneB win u g)}"
    | _, _, _, _, _, _ => "bad-request"
  | _ => "bad-request"

def main : IO Unit := runDriver handle
