import PlinioVerif.Model.Proto
import PlinioVerif.Model.Train
/-! Line driver for the C11 correspondence.

request  `trace method=<pit|mps|sn> [detach=<0|1>] ts=[..] layers=[..] qs=[..] ops=[..]`
  ts      one token per tensor, in index order: `a0|a1` features mask (1 = of a Frozen masker),
          `b0|b1` time-step mask, `g0|g1` dilation mask, `w` network parameter,
          `q<n>@<j>` coefficients of quantizer `j` (n alternatives), `x@<j>` other parameter of
          quantizer `j`, `c<n>@<j>` coefficients of combiner `j`
  layers  `<refs>:<fm>:<tm>:<dm>:<qs>` with `refs`,`qs` dot-separated index lists, `-` = none
  qs      `<alpha tensor>:<gumbel>:<hard>` (temperature 1, sampling enabled)
  ops     `nas net both F0 F1 R0 R1 D0 D1 C0 C1 T:<q> H:<b> G:<b> S:<b> fb`
answer   one observation for the initial state and one after every op, `;`-separated:
         `<requires_grad bits>|<nas ids>|<net ids>|<sampler~T~hard per quantizer>|<tf tr td dc bits>/<layer.discrete bits>|<grad pattern of this op or ->|<thetaGraph bits>/<gumbel bits>/<disable bits>`
         (the last field is the model's latent state, used only to tell abstract states apart)
         grad pattern: one of `N Z G P` per tensor (None / all-zero / non-zero / present), or `err`
-/
open PlinioVerif PlinioVerif.Proto PlinioVerif.Sampling PlinioVerif.Train

def parseIdxList? (s : String) : Option (List Nat) :=
  if s = "-" then some [] else (s.splitOn ".").mapM parseNat?

def parseOptIdx? (s : String) : Option (Option Nat) :=
  if s = "-" then some none else (parseNat? s).map some

def parseTensor? (t : String) : Option Tensor :=
  if t = "w" then some (mkTensor .weight false)
  else if t = "a0" then some (mkTensor .alpha false) else if t = "a1" then some (mkTensor .alpha true)
  else if t = "b0" then some (mkTensor .beta false) else if t = "b1" then some (mkTensor .beta true)
  else if t = "g0" then some (mkTensor .gamma false) else if t = "g1" then some (mkTensor .gamma true)
  else
    match t.splitOn "@" with
    | [k, j] => do
      let j ← parseNat? j
      if k = "x" then pure (mkTensor .qaux false j)
      else if k.startsWith "q" then do
        let n ← parseNat? (k.drop 1).toString
        pure (mkTensor (.qalpha n) false j)
      else if k.startsWith "c" then do
        let n ← parseNat? (k.drop 1).toString
        pure (mkTensor (.calpha n) false j)
      else none
    | _ => none

def parseLayer? (t : String) : Option Layer :=
  match t.splitOn ":" with
  | [r, f, tm, d, q] => do
    let refs ← parseIdxList? r
    let fm ← parseOptIdx? f
    let tm ← parseOptIdx? tm
    let dm ← parseOptIdx? d
    let qs ← parseIdxList? q
    pure { refs := refs, fm := fm, tm := tm, dm := dm, qs := qs }
  | _ => none

def parseQtz? (m : Method) (t : String) : Option Qtz :=
  match t.splitOn ":" with
  | [a, g, h] => do
    let a ← parseNat? a
    let g ← parseBool? g
    let h ← parseBool? h
    let o : Opts Rat := { training := true, hard := h, gumbel := g, disable := false, temperature := 1 }
    pure { o := o, sampler := (match m with | .sn => snChoose o | _ => mpsChoose o), alphaT := a }
  | _ => none

def parseOp? (t : String) : Option Train.Op :=
  if t = "nas" then some .nasOnly else if t = "net" then some .netOnly
  else if t = "both" then some .netAndNas else if t = "fb" then some .fwdbwd
  else if t = "F0" then some (.setFeatures false) else if t = "F1" then some (.setFeatures true)
  else if t = "R0" then some (.setRf false) else if t = "R1" then some (.setRf true)
  else if t = "D0" then some (.setDilation false) else if t = "D1" then some (.setDilation true)
  else if t = "C0" then some (.setDiscrete false) else if t = "C1" then some (.setDiscrete true)
  else
    match t.splitOn ":" with
    | ["T", v] => (parseRat? v).map fun q => .upd (some q) none none none
    | ["H", v] => (parseBool? v).map fun b => .upd none (some b) none none
    | ["G", v] => (parseBool? v).map fun b => .upd none none (some b) none
    | ["S", v] => (parseBool? v).map fun b => .upd none none none (some b)
    | _ => none

def bits (l : List Bool) : String := String.join (l.map showBool)
def dots (l : List Nat) : String := if l.isEmpty then "-" else ".".intercalate (l.map toString)

def showSampler : Sampler → String
  | .sm => "sm" | .gs => "gs" | .none => "none"

def showGrad : Grad → String
  | .none => "N" | .zero => "Z" | .nonzero => "G" | .present => "P"

def observe (s : State) (grad : String) : String :=
  "|".intercalate [
    bits (s.ts.map (·.rg)), dots (nasIds s), dots (netIds s),
    ",".intercalate (s.qs.map fun q => s!"{showSampler q.sampler}~{showRat q.o.temperature}~{showBool q.o.hard}"),
    bits [s.trainFeatures, s.trainRf, s.trainDilation, s.discreteCost] ++ "/" ++ bits (s.layers.map (·.discrete)),
    grad, bits (s.qs.map (·.thetaGraph)) ++ "/" ++ bits (s.qs.map (·.o.gumbel)) ++ "/" ++
      bits (s.qs.map (·.o.disable))]

def handle (line : String) : String :=
  let toks := tokens line
  match toks.head?, field? toks "method" with
  | some "trace", some ms =>
    let m? : Option Method :=
      if ms = "pit" then some .pit else if ms = "mps" then some .mps else if ms = "sn" then some .sn else none
    match m? with
    | none => "bad-request"
    | some m =>
      match (field? toks "ts").bind (parseList? parseTensor?),
            (field? toks "layers").bind (parseList? parseLayer?),
            (field? toks "qs").bind (parseList? (parseQtz? m)),
            (field? toks "ops").bind (parseList? parseOp?) with
      | some ts, some layers, some qs, some ops =>
        -- `detach=0` selects the tree before `sample_alpha_none` detached the coefficients it keeps
        let detach := ((field? toks "detach").bind parseBool?).getD true
        let s0 : State := { method := m, ts := ts, layers := layers, qs := qs, detachOnNone := detach }
        let (_, obs) := ops.foldl (fun (acc : State × Array String) op =>
            let s := acc.1
            let g := match op with
              | .fwdbwd => if bwdError s then "err" else String.join ((grads s).map showGrad)
              | _ => "-"
            let s' := step s op
            (s', acc.2.push (observe s' g))) (s0, #[observe s0 "-"])
        ";".intercalate obs.toList
      | _, _, _, _ => "bad-request"
  | _, _ => "bad-request"

def main : IO Unit := runDriver handle
