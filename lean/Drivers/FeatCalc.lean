import PlinioVerif.Model.Proto
import PlinioVerif.Model.PIT.FeatCalc
/-! Line driver for the features-calculator trees (C09).

request : a tree in prefix form, tokens separated by spaces:
          `c <n>` | `a <bits>` (`-` for the empty mask) | `f <k> <tree>` | `k <n> <tree>…<tree>` (n operands)
answer  : `feat=<n> width=<n> mask=<bits>` or `bad-request`
-/
open PlinioVerif PlinioVerif.Proto PlinioVerif.PIT

partial def parseFC : List String → Option (FC × List String)
  | "c" :: n :: rest => do pure (.const (← n.toNat?), rest)
  | "a" :: bits :: rest =>
      if bits = "-" then some (.attr [], rest)
      else if bits.toList.all (fun ch => ch = '0' || ch = '1') then some (.attr (bits.toList.map (· = '1')), rest)
      else none
  | "f" :: k :: rest => do
      let k ← k.toNat?
      let (p, rest') ← parseFC rest
      pure (.flat p k, rest')
  | "k" :: n :: rest => do
      let n ← n.toNat?
      let rec go (i : Nat) (acc : List FC) (r : List String) : Option (List FC × List String) :=
        if i = 0 then some (acc.reverse, r) else do
          let (c, r') ← parseFC r
          go (i - 1) (c :: acc) r'
      let (l, rest') ← go n [] rest
      pure (.cat l, rest')
  | _ => none

def showBits (m : List Bool) : String := String.join (m.map fun b => if b then "1" else "0")

def handle (line : String) : String :=
  match parseFC (tokens line) with
  | some (c, []) => s!"feat={c.features} width={c.width} mask={showBits c.mask}"
  | _ => "bad-request"

def main : IO Unit := runDriver handle
