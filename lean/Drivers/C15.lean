import PlinioVerif.Model.Proto
import PlinioVerif.Model.CostSpec
/-! Line driver for the C15 correspondence: `lookup entries=[U:0,DW:1,K3:2] match=[DW,K3]`
answers `ok:<fn>`, `default` or `conflict`.  `U` is the unconstrained pattern; any other tag is
a constraint that holds iff the tag is listed in `match`. -/
open PlinioVerif PlinioVerif.Proto PlinioVerif.CostSpec

def parseEntry? (t : String) : Option (Entry (List String) Nat) :=
  match t.splitOn ":" with
  | [tag, f] => do
    let fn ← f.toNat?
    if tag = "U" then pure ⟨none, fn⟩ else pure ⟨some (fun s => s.contains tag), fn⟩
  | _ => none

def handle (line : String) : String :=
  let toks := tokens line
  match toks.head? with
  | some "lookup" =>
    match (field? toks "entries").bind (parseList? parseEntry?),
          (field? toks "match").bind (parseList? some) with
    | some es, some m =>
      match lookup es m with
      | .ok f => s!"ok:{f}"
      | .dflt => "default"
      | .conflict => "conflict"
    | _, _ => "bad-request"
  | _ => "bad-request"

def main : IO Unit := runDriver handle
