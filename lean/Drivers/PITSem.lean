import PlinioVerif.Model.Proto
import PlinioVerif.Model.PIT.Parse
import PlinioVerif.Lemmas.PIT.NetSem
import PlinioVerif.Lemmas.PIT.OpenSeed
import Mathlib.Algebra.Group.Int.Defs
/-! Line driver that *executes* the abstract network semantics of `Lemmas/PIT/NetSem.lean`
(`pitStep` / `expStep`, the very definitions `net_export_equiv` is about) on integer-valued
channel-level networks (every kernel 1, every spatial size 1), so that they can be compared
exactly with the real `PIT.eval()(x)` and `export().eval()(x)`.

request : `<ops>|<alphas>|<weights>|<relu nodes>|<inputs>`   (ops / alphas as in PITNet.lean)
  weights : `<n>:<w>:<b>:<mu>:<gamma>:<beta>;…`  w = [[…],…] (rows = output channels; depthwise: one
            row), b = […] or `-`, BatchNorm kept as a sub-layer: mu/gamma/beta = […] or `-`
            (a standalone BatchNorm node carries only mu/gamma/beta)
  relu nodes : `[n,…]`   inputs : `<n>=[…];…`
answer  : `sup=<0|1> pit=[…] exp=[…] seed=[…]` (values of the output nodes under `pitStep`, `expStep`
          and the mask-free `seedStep`) or `err:…`
-/
open PlinioVerif PlinioVerif.Proto PlinioVerif.PIT

structure NodeW where
  w : List (List Int) := []
  b : Option (List Int) := none
  mu : Option (List Int) := none
  gamma : List Int := []
  beta : List Int := []

def optList (s : String) : Option (Option (List Int)) :=
  if s = "-" then some none else (parseList? parseInt? s).map some

def parseNodeW (s : String) : Option (Nat × NodeW) :=
  match s.splitOn ":" with
  | [n, w, b, mu, ga, be] => do
    let w ← parseList2? parseInt? w
    let b ← optList b
    let mu ← optList mu
    let ga ← optList ga
    let be ← optList be
    pure (← n.toNat?, { w := w, b := b, mu := mu, gamma := ga.getD [], beta := be.getD [] })
  | _ => none

def semOf (ws : List (Nat × NodeW)) (relu : List Nat) : Sem Int :=
  let W := fun n => ((ws.find? (·.1 == n)).map (·.2)).getD {}
  { L := fun n co ci v => (((W n).w.getD co []).getD ci 0) * v
    b := fun n co => (((W n).b.getD [])).getD co 0
    post := fun n co y => match (W n).mu with
      | some mu => (y - mu.getD co 0) * (W n).gamma.getD co 1 + (W n).beta.getD co 0
      | none => y
    D := fun n c v => (((W n).w.getD 0 []).getD c 0) * v
    g := fun n c v => match (W n).mu with
      | some mu => (v - mu.getD c 0) * (W n).gamma.getD c 1 + (W n).beta.getD c 0
      | none => if relu.contains n then max v 0 else v
    g2 := fun _ u v => u + v
    sp := fun _ _ v => v }

def handle (line : String) : String :=
  match line.trimAscii.toString.splitOn "|" with
  | [ps, as, wsS, reluS, inS] =>
    match (ps.splitOn ";").mapM (fun s => parseOp (tokens s)) with
    | none => "bad-request:ops"
    | some p =>
    match computeLabels p with
    | none => "err:labels"
    | some labels =>
      let alphas : List (Nat × List Rat) := (as.splitOn ";").filterMap fun s =>
        match s.splitOn "=" with
        | [n, qs] => match n.toNat?, (qs.splitOn ",").mapM parseRat? with
          | some n, some q => some (n, q)
          | _, _ => none
        | _ => none
      let alphaOf := fun g => match alphas.find? (fun (n, _) => labels.getD n 0 == g) with
        | some (_, a) => a | none => []
      match (wsS.splitOn ";").filter (· ≠ "") |>.mapM parseNodeW, parseList? parseNat? reluS.trimAscii.toString with
      | some ws, some relu =>
        let inputs : List (Nat × List Int) := (inS.splitOn ";").filterMap fun s =>
          match s.splitOn "=" with
          | [n, xs] => match n.trimAscii.toString.toNat?, parseList? parseInt? xs.trimAscii.toString with
            | some n, some x => some (n, x)
            | _, _ => none
          | _ => none
        let inp := fun n => ((inputs.find? (·.1 == n)).map (·.2)).getD []
        let ms := aliveMasks p labels alphaOf
        let r := runBoth (semOf ws relu) ms inp p.zipIdx
        -- what the network returns: the values of all its output nodes, concatenated in program order
        let outs := p.zipIdx.filterMap fun (op, n) => if op.isOutput then some n else none
        let ret := fun (vs : List (List Int)) => (outs.map (gv vs)).flatten
        let sd := runSeed (semOf ws relu) inp p.zipIdx
        s!"sup={showBool (supported p)} pit={showList toString (ret r.1)} exp={showList toString (ret r.2)} seed={showList toString (ret sd)}"
      | _, _ => "bad-request:weights"
  | _ => "bad-request"

def main : IO Unit := runDriver handle
