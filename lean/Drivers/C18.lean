import PlinioVerif.Model.Proto
import PlinioVerif.Model.Observers
/-! Line driver for the C18 correspondence.

`walk pinned=0 method=<pit|mps|sn> gumbel= hard= disable= full= fixed= add= bn= drop= train=<0|1> bnmode=<0|1>
      dropmode=<0|1> spec=<s0|s1|d0|d1> ops=[forward,export,exportnobn,summary,cost,getcost,getcostb,set:d1,...]`
(`train` = mode of the wrapper and of the sampling modules, `bnmode` / `dropmode` = mode of the BatchNorm /
Dropout sub-modules: mixed modes are legal starting states)

answers, for every call of the walk, `<components changed, comma separated, or ->:<output class>`
joined by single spaces.  Components: modes, theta, rng, state, attrs, spec, flags.  Output class:
`stepcase <same fields> ops=[observer calls]` answers `live=<0|1> same=<eq|ne>`: after `forward; ops`, is the
cost still a differentiable function of the architectural parameters, and does `forward; ops; step` reach
the observable state of `forward; step`.

`n<i>` / `s<i>` / `c<i>` = exported network / summary / cost value equal to the one first returned by
call `i` of this walk, `e` = AssertionError, `-` = nothing compared. -/
open PlinioVerif PlinioVerif.Proto PlinioVerif.Observers

def parseSpec? (s : String) : Option Spec :=
  if s = "s0" then some (.single 0) else if s = "s1" then some (.single 1)
  else if s = "d0" then some (.dict 0) else if s = "d1" then some (.dict 1) else none

def parseOp? (t : String) : Option Op :=
  if t = "forward" then some .forward else if t = "export" then some .exportNet
  else if t = "exportnobn" then some .exportNoBn else if t = "summary" then some .summary
  else if t = "cost" then some .cost else if t = "getcost" then some .getCost
  else if t = "getcostb" then some .getCostB
  else if t = "step" then some .optStep
  else if t = "exportraises" then some .exportRaises
  else if t.startsWith "set:" then (parseSpec? (t.drop 4).toString).map .setSpec
  else none

def parseMethod? (s : String) : Option Method :=
  if s = "pit" then some .pit else if s = "mps" then some .mps else if s = "sn" then some .sn else none

def outClass (prev : List Out) (o : Out) : String :=
  let i := (prev.findIdx? (· == o)).getD prev.length
  match o with
  | .net _ _ => s!"n{i}"
  | .summ _ => s!"s{i}"
  | .costv _ _ _ => s!"c{i}"
  | .err => "e"
  | .raised => "x"
  | _ => "-"

def walk (stp : Cfg → State → Op → State × Out) (c : Cfg) : State → List Out → List Op → List String
  | _, _, [] => []
  | s, prev, op :: ops =>
    let (s', o) := stp c s op
    let ch := changed s s'
    let a := (if ch.isEmpty then "-" else ",".intercalate ch) ++ ":" ++ outClass prev o
    a :: walk stp c s' (prev ++ [o]) ops

def handle (line : String) : String :=
  let toks := tokens line
  let b := fun k => (field? toks k).bind parseBool?
  match (if toks.head? = some "stepcase" then some "walk" else toks.head?) with
  | some "walk" =>
    match (field? toks "method").bind parseMethod?, b "gumbel", b "hard", b "disable", b "full", b "fixed",
          b "add", b "bn", b "drop", b "train", (field? toks "spec").bind parseSpec?,
          (field? toks "ops").bind (parseList? parseOp?), b "pinned", b "bnmode", b "dropmode" with
    | some m, some g, some h, some d, some f, some fx, some ad, some bn, some dr, some tr, some sp, some ops,
      some pinned, some bm, some dm =>
      let c : Cfg := ⟨m, g, h, d, f, fx, ad, bn, dr⟩
      let s0 : State := ⟨tr, tr, bm, dm, ⟨false, none, false⟩, 0, 0, 0, false, sp, 0⟩
      if toks.head? = some "stepcase" then
        -- forward, observers, then loss/backward/step  vs  the twin without the observers
        let stp := if pinned then stepPinned else step
        let runWith := fun (l : List Op) => l.foldl (fun st op => (stp c st op).1) s0
        let before := runWith (.forward :: ops)
        let a := runWith (.forward :: ops ++ [.optStep])
        let b := runWith [.forward, .optStep]
        s!"live={showBool (costLive c before)} same={if obsState a == obsState b then "eq" else "ne"}"
      else
      " ".intercalate (walk (if pinned then stepPinned else step) c s0 [] ops)
    | _, _, _, _, _, _, _, _, _, _, _, _, _, _, _ => "bad-request"
  | _ => "bad-request"

def main : IO Unit := runDriver handle
