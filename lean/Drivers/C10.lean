import PlinioVerif.Model.Proto
import PlinioVerif.Model.Sampling
/-! Line driver for the C10 correspondence.

request   `walk cls=<mpsL|mpsC|sn> prec=[2,4,8] cout=<n> init=<T>,<hard>,<gumbel>,<disable> ops=[..]`
          (`sn`: `prec` lists one dummy entry per branch; `disable` ignored)
ops       `T:<q>` `H:<0|1>` `G:<0|1>` `D:<0|1>` (single-option `update_softmax_options`),
          `U:<q|->:<0|1|->:<0|1|->:<0|1|->` (several options at once), `train`, `eval`, `fwd`,
          `A:[[col0],[col1],..]` (raw coefficients written in place, one list per column)
answer    one observation for the constructed object and one after every op, `;`-separated, then
          `#` and what export materialises (per-layer / combiner: index; per-channel: groups
          `<precision>:<ch>.<ch>..` in order).  observation =
          `<sampler>,<T>,<hard>,<training>|<column descriptions>|<arg-max of alpha per column>`
-/
open PlinioVerif PlinioVerif.Proto PlinioVerif.Sampling

def parseOptBool? (s : String) : Option (Option Bool) :=
  if s = "-" then some none else (parseBool? s).map some

def parseOptRat? (s : String) : Option (Option Rat) :=
  if s = "-" then some none else (parseRat? s).map some

def parseOp? (t : String) : Option (Op Rat) :=
  if t = "train" then some .train
  else if t = "eval" then some .eval
  else if t = "fwd" then some (.forward [])
  else if t.startsWith "A:" then
    (parseList2? parseRat? (t.drop 2).toString).map .setAlpha
  else
    match t.splitOn ":" with
    | ["T", v] => (parseRat? v).map fun q => .update (some q) none none none
    | ["H", v] => (parseBool? v).map fun b => .update none (some b) none none
    | ["G", v] => (parseBool? v).map fun b => .update none none (some b) none
    | ["D", v] => (parseBool? v).map fun b => .update none none none (some b)
    | ["U", a, b, c, d] => do
      let t ← parseOptRat? a
      let h ← parseOptBool? b
      let g ← parseOptBool? c
      let d ← parseOptBool? d
      pure (.update t h g d)
    | _ => none

def showSampler : Sampler → String
  | .sm => "sm" | .gs => "gs" | .none => "none"

def observe (s : State Rat) : String :=
  s!"{showSampler s.sampler},{showRat s.o.temperature},{showBool s.o.hard},{showBool s.o.training}|" ++
  ",".intercalate (s.theta.map (describeCol s.src)) ++ "|" ++
  ",".intercalate ((selectedIdx s.alpha).map toString)

def showGroups (gs : List (Int × List Nat)) : String :=
  ",".intercalate (gs.map fun (p, cs) => s!"{p}:" ++ ".".intercalate (cs.map toString))

def handle (line : String) : String :=
  let toks := tokens line
  match toks.head?, field? toks "cls", (field? toks "prec").bind (parseList? parseInt?),
        (field? toks "cout").bind parseNat?, field? toks "init",
        (field? toks "ops").bind (parseList? parseOp?) with
  | some "walk", some cls, some prec, some cout, some ini, some ops =>
    match ini.splitOn "," with
    | [t, h, g, d] =>
      match parseRat? t, parseBool? h, parseBool? g, parseBool? d with
      | some t, some h, some g, some d =>
        let mx : Int := prec.foldl max 1
        let col0 : List Rat := prec.map fun (p : Int) => Rat.ofInt p / Rat.ofInt mx
        let s0? : Option (State Rat) :=
          if cls = "mpsL" then
            some (initMps gq .mpsLayer { hard := h, gumbel := g, disable := d, temperature := t }
                    [col0] [])
          else if cls = "mpsC" then
            some (initMps gq .mpsChannel { hard := h, gumbel := g, disable := d, temperature := t }
                    (List.replicate cout col0) [])
          else if cls = "sn" then
            let n := prec.length
            some (initSn [List.replicate n ((1 : Rat) / (n : Rat))] g h)
          else none
        match s0? with
        | none => "bad-request"
        | some s0 =>
          let (sN, obs) := ops.foldl (fun (acc : State Rat × Array String) op =>
              let s' := step gq acc.1 op
              (s', acc.2.push (observe s'))) (s0, #[observe s0])
          let exp :=
            if cls = "mpsC" then showGroups (exportGroups prec sN.alpha)
            else ",".intercalate ((selectedIdx sN.alpha).map toString)
          ";".intercalate obs.toList ++ "#" ++ exp
      | _, _, _, _ => "bad-request"
    | _ => "bad-request"
  | _, _, _, _, _, _ => "bad-request"

def main : IO Unit := runDriver handle
