import PlinioVerif.Model.Reassign
import Mathlib.Data.List.Nodup
import Mathlib.Data.List.Perm.Subperm
import Mathlib.Data.List.Range
import Mathlib.Order.Basic
/-! Helper lemmas for C20: point-wise behaviour of the index assignment, the invariants of the
two greedy passes under the no-overlap hypothesis, the count-level search. -/
namespace PlinioVerif.Reassign

/-! ### generic list facts -/

theorem map_getD_range {β} (l : List β) (d : β) :
    (List.range l.length).map (fun i => l.getD i d) = l := by
  apply List.ext_getElem
  · simp
  · intro i h1 h2
    simp [List.getD_eq_getElem?_getD, List.getElem?_eq_getElem h2]

theorem countP_eq_range {β} (l : List β) (q : β → Bool) (d : β) :
    l.countP q = ((List.range l.length).filter fun i => q (l.getD i d)).length := by
  conv_lhs => rw [← map_getD_range l d]
  rw [List.countP_map, List.countP_eq_length_filter]
  rfl

theorem sum_getD_range (l : List Nat) :
    ((List.range l.length).map fun i => l.getD i 0).sum = l.sum := by
  rw [map_getD_range]

theorem getD_le_sum (l : List Nat) (i : Nat) : l.getD i 0 ≤ l.sum := by
  induction l generalizing i with
  | nil => simp
  | cons x xs ih =>
    cases i with
    | zero => simp
    | succ i => simp only [List.getD_cons_succ, List.sum_cons]; have := ih i; omega

theorem sum_indicator_range (n q : Nat) :
    ((List.range n).map fun p => if (some q : Option Nat) == some p then 1 else 0).sum =
      if q < n then 1 else 0 := by
  induction n with
  | zero => simp
  | succ n ih =>
    rw [List.range_succ, List.map_append, List.sum_append, ih]
    by_cases h1 : q < n
    · have : q ≠ n := Nat.ne_of_lt h1
      simp [h1, this, Nat.lt_succ_of_lt h1]
    · by_cases h2 : q = n
      · subst h2; simp
      · have : ¬ q < n + 1 := by omega
        simp [h1, h2, this]

theorem sum_map_zero {β} (l : List β) : (l.map fun _ => (0 : Nat)).sum = 0 := by
  induction l with
  | nil => rfl
  | cons x xs ih => simp only [List.map_cons, List.sum_cons, ih]

/-- a duplicate-free list of `n` numbers below `n` contains every number below `n` -/
theorem mem_of_nodup_lt_length {l : List Nat} {n : Nat} (hn : l.Nodup) (hlt : ∀ x ∈ l, x < n)
    (hlen : l.length = n) {c : Nat} (hc : c < n) : c ∈ l := by
  have hsub : l ⊆ List.range n := fun x hx => List.mem_range.mpr (hlt x hx)
  have hp : l.Perm (List.range n) :=
    (hn.subperm hsub).perm_of_length_le (by simp [hlen])
  exact hp.mem_iff.mpr (List.mem_range.mpr hc)

theorem nodupB_iff (l : List Nat) : nodupB l = true ↔ l.Nodup := by
  induction l with
  | nil => simp [nodupB]
  | cons x xs ih => simp [nodupB, ih]

/-! ### insertion sort is a permutation; identity on sorted input -/

theorem insertBy_perm (lt : Nat → Nat → Bool) (x : Nat) (l : List Nat) :
    (insertBy lt x l).Perm (x :: l) := by
  induction l with
  | nil => simp [insertBy]
  | cons y ys ih =>
    simp only [insertBy]
    split
    · exact ((List.Perm.cons y ih).trans (List.Perm.swap x y ys))
    · exact List.Perm.refl _

theorem isort_perm (lt : Nat → Nat → Bool) (l : List Nat) : (isort lt l).Perm l := by
  induction l with
  | nil => simp [isort]
  | cons x xs ih => exact (insertBy_perm lt x _).trans (List.Perm.cons x ih)

theorem argsortDesc_perm (row : List Int) : (argsortDesc row).Perm (List.range row.length) :=
  isort_perm _ _

theorem argsortAsc_perm (precs : List Nat) : (argsortAsc precs).Perm (List.range precs.length) :=
  isort_perm _ _

theorem isort_of_pairwise (lt : Nat → Nat → Bool) (l : List Nat)
    (h : l.Pairwise fun a b => lt b a = false) : isort lt l = l := by
  induction l with
  | nil => rfl
  | cons x xs ih =>
    rw [List.pairwise_cons] at h
    simp only [isort, ih h.2]
    cases xs with
    | nil => rfl
    | cons y ys => simp [insertBy, h.1 y (by simp)]

/-- ascending precisions: `torch.argsort(precision)` is the identity -/
theorem argsortAsc_of_ascending (precs : List Nat) (h : precs.Pairwise (· < ·)) :
    argsortAsc precs = List.range precs.length := by
  apply isort_of_pairwise
  rw [List.pairwise_iff_getElem]
  intro i j hi hj hij
  simp only [List.length_range] at hi hj
  simp only [List.getElem_range, decide_eq_false_iff_not, Nat.not_lt]
  rw [List.pairwise_iff_getElem] at h
  have := h i j hi hj hij
  simp only [List.getD_eq_getElem?_getD, List.getElem?_eq_getElem hi, List.getElem?_eq_getElem hj,
    Option.getD_some]
  omega

/-! ### `a[idxs] = v`, point-wise -/

@[simp] theorem length_setAll (a : Asg) (idxs : List Nat) (v : Option Nat) :
    (setAll a idxs v).length = a.length := by
  simp [setAll]

theorem getD_setAll (a : Asg) (idxs : List Nat) (v : Option Nat) {c : Nat} (hc : c < a.length) :
    (setAll a idxs v).getD c none = if c ∈ idxs then v else a.getD c none := by
  simp only [setAll, List.getD_eq_getElem?_getD, List.getElem?_map, List.getElem?_zipIdx,
    List.getElem?_eq_getElem hc, Option.map_some, Nat.zero_add, Option.getD_some, List.contains_eq_mem]
  by_cases h : c ∈ idxs <;> simp [h]

theorem getD_setAll_of_not_mem (a : Asg) (idxs : List Nat) (v : Option Nat) {c : Nat}
    (hc : c < a.length) (h : c ∉ idxs) : (setAll a idxs v).getD c none = a.getD c none := by
  rw [getD_setAll a idxs v hc, if_neg h]

theorem getD_setAll_of_mem (a : Asg) (idxs : List Nat) (v : Option Nat) {c : Nat}
    (hc : c < a.length) (h : c ∈ idxs) : (setAll a idxs v).getD c none = v := by
  rw [getD_setAll a idxs v hc, if_pos h]

theorem getD_some0_eq_none_iff (a : Asg) (c : Nat) :
    (a.getD c (some 0) == none) = true ↔ c < a.length ∧ a.getD c none = none := by
  by_cases hc : c < a.length
  · simp [List.getD_eq_getElem?_getD, hc]
  · simp [List.getD_eq_getElem?_getD, hc]

theorem countOf_eq (a : Asg) (p : Nat) :
    countOf a p = ((List.range a.length).filter fun c => a.getD c none == some p).length := by
  unfold countOf
  exact countP_eq_range a (· == some p) none

@[simp] theorem length_pass1Step (best current : List Nat) (sorted : List (List Nat)) (a : Asg)
    (p : Nat) : (pass1Step best current sorted a p).length = a.length := by
  unfold pass1Step
  simp only
  split <;> simp

@[simp] theorem length_pass2Step (best : List Nat) (sorted : List (List Nat)) (a : Asg) (p : Nat) :
    (pass2Step best sorted a p).length = a.length := by
  unfold pass2Step
  simp only
  split <;> simp

theorem length_foldl_pass1 (best current : List Nat) (sorted : List (List Nat)) (ps : List Nat)
    (a : Asg) : (ps.foldl (pass1Step best current sorted) a).length = a.length := by
  induction ps generalizing a with
  | nil => rfl
  | cons p ps ih => simp [ih]

theorem length_foldl_pass2 (best : List Nat) (sorted : List (List Nat)) (ps : List Nat) (a : Asg) :
    (ps.foldl (pass2Step best sorted) a).length = a.length := by
  induction ps generalizing a with
  | nil => rfl
  | cons p ps ih => simp [ih]

theorem length_reassignCore (best current : List Nat) (sorted : List (List Nat)) (nP : Nat) :
    (reassignCore best current sorted nP).length = current.length := by
  simp [reassignCore, length_foldl_pass1, length_foldl_pass2]

theorem length_reassign (best : List Nat) (scores : Mat) :
    (reassign best scores).length = nChannels scores := by
  simp [reassign, length_reassignCore, currentOf]

/-! ### every assigned value is a precision index -/

theorem argmaxAux_lt (xs : List Int) (i : Nat) (bv : Int) (bi : Nat) (h : bi < i) :
    argmaxAux xs i bv bi < i + xs.length := by
  induction xs generalizing i bv bi with
  | nil => simpa [argmaxAux] using h
  | cons x xs ih =>
    simp only [argmaxAux, List.length_cons]
    split
    · have := ih (i + 1) x i (Nat.lt_succ_self i); omega
    · have := ih (i + 1) bv bi (Nat.lt_succ_of_lt h); omega

theorem argmaxIdx_lt (l : List Int) (h : l ≠ []) : argmaxIdx l < l.length := by
  cases l with
  | nil => exact absurd rfl h
  | cons x xs =>
    simp only [argmaxIdx, List.length_cons]
    have := argmaxAux_lt xs 1 x 0 Nat.one_pos
    omega

/-- all entries of an assignment are `none` or `some p` with `p < nP` -/
def Valid (nP : Nat) (a : Asg) : Prop := ∀ x ∈ a, ∀ p, x = some p → p < nP

theorem valid_setAll {nP : Nat} {a : Asg} (h : Valid nP a) (idxs : List Nat) (v : Option Nat)
    (hv : ∀ p, v = some p → p < nP) : Valid nP (setAll a idxs v) := by
  intro x hx p hp
  simp only [setAll, List.mem_map] at hx
  obtain ⟨⟨y, i⟩, hy, rfl⟩ := hx
  have hy' : y ∈ a := (List.mem_zipIdx' hy).2 ▸ List.getElem_mem _
  simp only at hp
  split at hp
  · exact hv p hp
  · exact h y hy' p hp

theorem valid_pass1Step {nP : Nat} (best current : List Nat) (sorted : List (List Nat)) {a : Asg}
    (h : Valid nP a) {p : Nat} (hp : p < nP) : Valid nP (pass1Step best current sorted a p) := by
  unfold pass1Step
  simp only
  split
  · exact valid_setAll h _ _ (by simp)
  · exact valid_setAll (valid_setAll h _ _ (by intro q hq; cases hq; exact hp)) _ _ (by simp)

theorem valid_pass2Step {nP : Nat} (best : List Nat) (sorted : List (List Nat)) {a : Asg}
    (h : Valid nP a) {p : Nat} (hp : p < nP) : Valid nP (pass2Step best sorted a p) := by
  unfold pass2Step
  simp only
  split
  · exact valid_setAll h _ _ (by intro q hq; cases hq; exact hp)
  · exact h

theorem valid_foldl {nP : Nat} (f : Asg → Nat → Asg)
    (hf : ∀ a p, Valid nP a → p < nP → Valid nP (f a p)) (ps : List Nat) (hps : ∀ p ∈ ps, p < nP)
    (a : Asg) (h : Valid nP a) : Valid nP (ps.foldl f a) := by
  induction ps generalizing a with
  | nil => exact h
  | cons p ps ih =>
    simp only [List.foldl_cons]
    exact ih (fun q hq => hps q (List.mem_cons_of_mem _ hq)) _ (hf a p h (hps p (by simp)))

theorem valid_reassign (best : List Nat) (scores : Mat) :
    Valid scores.length (reassign best scores) := by
  unfold reassign reassignCore
  have hr : ∀ p ∈ List.range scores.length, p < scores.length := fun p hp => List.mem_range.mp hp
  apply valid_foldl _ (fun a p h hp => valid_pass2Step best _ h hp) _ hr
  apply valid_foldl _ (fun a p h hp => valid_pass1Step best _ _ h hp) _ hr
  intro x hx p hp
  simp only [currentOf, List.map_map, List.mem_map, List.mem_range, Function.comp] at hx
  obtain ⟨c, hc, rfl⟩ := hx
  cases hp
  have hne : col scores c ≠ [] := by
    intro h0
    have : scores = [] := by simpa [col] using h0
    simp [this, nChannels] at hc
  have := argmaxIdx_lt _ hne
  simpa [col] using this

/-! ### the two passes under the no-overlap hypothesis -/

/-- well-formed request, for arbitrary current assignment and channel orders: `P` targets that
sum to `C`, every `sorted[p]` a permutation of the channels -/
structure Shape (best current : List Nat) (sorted : List (List Nat)) (nC : Nat) : Prop where
  lenB : best.length = sorted.length
  lenC : current.length = nC
  perm : ∀ p < sorted.length, (sorted.getD p []).Perm (List.range nC)
  sum : best.sum = nC

/-- hypotheses of the partial theorems: well-formed, and the top-`target` lists pairwise
disjoint -/
structure Good (best current : List Nat) (sorted : List (List Nat)) (nC : Nat) : Prop
    extends Shape best current sorted nC where
  nodup : (tops best sorted).Nodup

/-- channel `c` is within the top-`target` of precision `p` -/
def Own (best : List Nat) (sorted : List (List Nat)) (c p : Nat) : Prop :=
  p < sorted.length ∧ c ∈ top best sorted p

variable {best current : List Nat} {sorted : List (List Nat)} {nC : Nat}

theorem Good.top_length (g : Good best current sorted nC) {p : Nat} (hp : p < sorted.length) :
    (top best sorted p).length = best.getD p 0 := by
  unfold top
  rw [List.length_take, (g.perm p hp).length_eq, List.length_range]
  have := getD_le_sum best p
  have := g.sum
  omega

theorem Good.top_nodup (g : Good best current sorted nC) {p : Nat} (hp : p < sorted.length) :
    (top best sorted p).Nodup := by
  unfold top
  exact ((g.perm p hp).nodup_iff.mpr List.nodup_range).sublist (List.take_sublist _ _)

theorem Good.top_lt (g : Good best current sorted nC) {p : Nat} (hp : p < sorted.length) {c : Nat}
    (hc : c ∈ top best sorted p) : c < nC := by
  unfold top at hc
  exact List.mem_range.mp ((g.perm p hp).mem_iff.mp (List.mem_of_mem_take hc))

theorem Good.own_unique (g : Good best current sorted nC) {c p q : Nat}
    (hp : Own best sorted c p) (hq : Own best sorted c q) : p = q := by
  by_contra hne
  have hpw := (List.nodup_flatMap.mp g.nodup).2
  have hsym : ∀ {x y : Nat}, x < sorted.length → y < sorted.length → x < y →
      c ∈ top best sorted x → c ∈ top best sorted y → False := by
    intro x y hx hy hxy hcx hcy
    rw [List.pairwise_iff_getElem] at hpw
    have := hpw x y (by simpa using hx) (by simpa using hy) hxy
    simp only [List.getElem_range, Function.onFun] at this
    exact this hcx hcy
  rcases Nat.lt_or_gt_of_ne hne with h | h
  · exact hsym hp.1 hq.1 h hp.2 hq.2
  · exact hsym hq.1 hp.1 h hq.2 hp.2

theorem Good.own_exists (g : Good best current sorted nC) {c : Nat} (hc : c < nC) :
    ∃ p, Own best sorted c p := by
  have hlen : (tops best sorted).length = nC := by
    unfold tops
    rw [List.length_flatMap]
    have h1 : (List.range sorted.length).map (fun a => (top best sorted a).length) =
        (List.range best.length).map (fun i => best.getD i 0) := by
      rw [g.lenB]
      apply List.map_congr_left
      intro p hp
      exact g.top_length (List.mem_range.mp hp)
    rw [h1, sum_getD_range, g.sum]
  have hlt : ∀ x ∈ tops best sorted, x < nC := by
    intro x hx
    simp only [tops, List.mem_flatMap, List.mem_range] at hx
    obtain ⟨p, hp, hx⟩ := hx
    exact g.top_lt hp hx
  have hmem := mem_of_nodup_lt_length g.nodup hlt hlen hc
  simp only [tops, List.mem_flatMap, List.mem_range] at hmem
  obtain ⟨p, hp, hx⟩ := hmem
  exact ⟨p, hp, hx⟩

/-- first pass, one step: a channel whose owner was already processed is at its owner or `-1` -/
theorem Good.pass1_step (g : Good best current sorted nC) {a : Asg} {m : Nat} (hm : m < sorted.length)
    (hlen : a.length = nC)
    (ih : ∀ c p, Own best sorted c p → p < m → a.getD c none = some p ∨ a.getD c none = none) :
    ∀ c p, Own best sorted c p → p < m + 1 →
      (pass1Step best current sorted a m).getD c none = some p ∨
      (pass1Step best current sorted a m).getD c none = none := by
  intro c p hown hp
  have hc : c < a.length := hlen ▸ g.top_lt hown.1 hown.2
  unfold pass1Step
  simp only
  rcases Nat.lt_succ_iff_lt_or_eq.mp hp with hlt | heq
  · -- owner processed earlier: this step leaves the channel alone or marks it `-1`
    have hnot : c ∉ top best sorted m := by
      intro hcm
      have := g.own_unique hown ⟨hm, hcm⟩
      omega
    split
    · rw [getD_setAll _ _ _ hc]
      split
      · exact Or.inr rfl
      · exact ih c p hown hlt
    · rw [getD_setAll _ _ _ (by simpa using hc)]
      split
      · exact Or.inr rfl
      · rw [getD_setAll_of_not_mem _ _ _ hc hnot]
        exact ih c p hown hlt
  · -- this is the owner's step
    subst heq
    have hpos : ¬ (best.getD p 0 == 0) = true := by
      intro h0
      have h0' : best.getD p 0 = 0 := by simpa using h0
      have := hown.2
      unfold top at this
      rw [h0'] at this
      simp at this
    rw [if_neg hpos]
    rw [getD_setAll _ _ _ (by simpa using hc)]
    split
    · exact Or.inr rfl
    · rw [getD_setAll_of_mem _ _ _ hc hown.2]
      exact Or.inl rfl

theorem Good.pass1 (g : Good best current sorted nC) (a0 : Asg) (h0 : a0.length = nC) (m : Nat)
    (hm : m ≤ sorted.length) :
    ∀ c p, Own best sorted c p → p < m →
      ((List.range m).foldl (pass1Step best current sorted) a0).getD c none = some p ∨
      ((List.range m).foldl (pass1Step best current sorted) a0).getD c none = none := by
  induction m with
  | zero => intro c p _ hp; omega
  | succ m ih =>
    rw [List.range_succ, List.foldl_append]
    simp only [List.foldl_cons, List.foldl_nil]
    exact g.pass1_step (Nat.lt_of_succ_le hm) (by rw [length_foldl_pass1, h0])
      (ih (Nat.le_of_succ_le hm))

/-- the channels of `top m` that are still `-1` -/
def pending (best : List Nat) (sorted : List (List Nat)) (a : Asg) (m : Nat) : List Nat :=
  (top best sorted m).filter fun c => a.getD c (some 0) == none

/-- second-pass invariant: every channel is at its owner, or still `-1` with its owner not yet
processed -/
def Inv2 (best : List Nat) (sorted : List (List Nat)) (nC : Nat) (m : Nat) (a : Asg) : Prop :=
  a.length = nC ∧ ∀ c p, Own best sorted c p →
    a.getD c none = some p ∨ (a.getD c none = none ∧ m ≤ p)

theorem Good.count_add_pending (g : Good best current sorted nC) {a : Asg} {m k : Nat}
    (hm : m < sorted.length) (inv : Inv2 best sorted nC k a) :
    countOf a m + (pending best sorted a m).length = best.getD m 0 := by
  have hsplit := List.length_eq_length_filter_add (l := top best sorted m)
    (fun c => a.getD c (some 0) == none)
  rw [← g.top_length hm]
  unfold pending
  have hperm : ((List.range a.length).filter fun c => a.getD c none == some m).Perm
      ((top best sorted m).filter fun c => !(a.getD c (some 0) == none)) := by
    rw [List.perm_ext_iff_of_nodup (List.nodup_range.filter _) ((g.top_nodup hm).filter _)]
    intro c
    simp only [List.mem_filter, List.mem_range, beq_iff_eq, Bool.not_eq_eq_eq_not, Bool.not_true]
    constructor
    · rintro ⟨hc, hcm⟩
      obtain ⟨p, hown⟩ := g.own_exists (inv.1 ▸ hc)
      have hp : p = m := by
        rcases inv.2 c p hown with h | ⟨h, _⟩
        · rw [hcm] at h; exact (Option.some.inj h).symm
        · rw [hcm] at h; cases h
      subst hp
      refine ⟨hown.2, ?_⟩
      cases hn : (a.getD c (some 0) == none)
      · rfl
      · have := ((getD_some0_eq_none_iff a c).mp hn).2
        rw [hcm] at this; cases this
    · rintro ⟨hcm, hn⟩
      have hc : c < a.length := inv.1 ▸ g.top_lt hm hcm
      refine ⟨hc, ?_⟩
      rcases inv.2 c m ⟨hm, hcm⟩ with h | ⟨h, _⟩
      · exact h
      · have : (a.getD c (some 0) == none) = true := (getD_some0_eq_none_iff a c).mpr ⟨hc, h⟩
        rw [this] at hn; cases hn
  rw [countOf_eq, hperm.length_eq]
  omega

theorem Good.pass2_step (g : Good best current sorted nC) {a : Asg} {m : Nat}
    (hm : m < sorted.length) (inv : Inv2 best sorted nC m a) :
    Inv2 best sorted nC (m + 1) (pass2Step best sorted a m) := by
  have hcnt := g.count_add_pending hm inv
  refine ⟨by rw [length_pass2Step]; exact inv.1, ?_⟩
  intro c p hown
  have hc : c < a.length := inv.1 ▸ g.top_lt hown.1 hown.2
  unfold pass2Step
  simp only
  split
  · -- deficit: exactly the pending channels of `top m` are taken
    rename_i hlt
    have htop : ((sorted.getD m []).filter fun c => a.getD c (some 0) == none).take
        (best.getD m 0 - countOf a m) = pending best sorted a m := by
      have hsplit : sorted.getD m [] = top best sorted m ++ (sorted.getD m []).drop (best.getD m 0) := by
        unfold top; exact (List.take_append_drop _ _).symm
      rw [hsplit, List.filter_append]
      apply List.take_left'
      have := hcnt
      unfold pending at this
      omega
    rw [htop, getD_setAll _ _ _ hc]
    split
    · rename_i hmem
      have hcm : c ∈ top best sorted m := (List.mem_filter.mp hmem).1
      have := g.own_unique hown ⟨hm, hcm⟩
      subst this
      exact Or.inl rfl
    · rename_i hnm
      rcases inv.2 c p hown with h | ⟨h, hmp⟩
      · exact Or.inl h
      · refine Or.inr ⟨h, ?_⟩
        rcases Nat.eq_or_lt_of_le hmp with heq | hlt'
        · subst heq
          exfalso; apply hnm
          exact List.mem_filter.mpr ⟨hown.2, (getD_some0_eq_none_iff a c).mpr ⟨hc, h⟩⟩
        · exact hlt'
  · -- no deficit: nothing of `top m` is pending
    rename_i hge
    have hpend : pending best sorted a m = [] := by
      apply List.eq_nil_of_length_eq_zero; omega
    rcases inv.2 c p hown with h | ⟨h, hmp⟩
    · exact Or.inl h
    · refine Or.inr ⟨h, ?_⟩
      rcases Nat.eq_or_lt_of_le hmp with heq | hlt'
      · subst heq
        exfalso
        have : c ∈ pending best sorted a m :=
          List.mem_filter.mpr ⟨hown.2, (getD_some0_eq_none_iff a c).mpr ⟨hc, h⟩⟩
        rw [hpend] at this; cases this
      · exact hlt'

theorem Good.pass2 (g : Good best current sorted nC) (a1 : Asg) (h1 : Inv2 best sorted nC 0 a1)
    (m : Nat) (hm : m ≤ sorted.length) :
    Inv2 best sorted nC m ((List.range m).foldl (pass2Step best sorted) a1) := by
  induction m with
  | zero => exact h1
  | succ m ih =>
    rw [List.range_succ, List.foldl_append]
    simp only [List.foldl_cons, List.foldl_nil]
    exact g.pass2_step (Nat.lt_of_succ_le hm) (ih (Nat.le_of_succ_le hm))

/-- **the result under no overlap**: every channel gets exactly the precision whose
top-`target` list contains it -/
theorem Good.reassignCore_eq_owner (g : Good best current sorted nC) {c p : Nat}
    (hown : Own best sorted c p) :
    (reassignCore best current sorted sorted.length).getD c none = some p := by
  unfold reassignCore
  have h1 : Inv2 best sorted nC 0
      ((List.range sorted.length).foldl (pass1Step best current sorted) (current.map some)) := by
    refine ⟨by rw [length_foldl_pass1]; simp [g.lenC], ?_⟩
    intro c p hown
    rcases g.pass1 (current.map some) (by simp [g.lenC]) sorted.length (Nat.le_refl _) c p hown hown.1
      with h | h
    · exact Or.inl h
    · exact Or.inr ⟨h, Nat.zero_le _⟩
  rcases (g.pass2 _ h1 sorted.length (Nat.le_refl _)).2 c p hown with h | ⟨_, h⟩
  · exact h
  · exact absurd hown.1 (Nat.not_lt.mpr h)

theorem Good.countOf_reassignCore (g : Good best current sorted nC) {p : Nat} (hp : p < sorted.length) :
    countOf (reassignCore best current sorted sorted.length) p = best.getD p 0 := by
  rw [countOf_eq, ← g.top_length hp, length_reassignCore, g.lenC]
  apply List.Perm.length_eq
  rw [List.perm_ext_iff_of_nodup (List.nodup_range.filter _) (g.top_nodup hp)]
  intro c
  simp only [List.mem_filter, List.mem_range, beq_iff_eq]
  constructor
  · rintro ⟨hc, h⟩
    obtain ⟨q, hown⟩ := g.own_exists hc
    rw [g.reassignCore_eq_owner hown] at h
    cases h
    exact hown.2
  · intro hcp
    exact ⟨g.top_lt hp hcp, g.reassignCore_eq_owner ⟨hp, hcp⟩⟩

theorem Good.all_isSome (g : Good best current sorted nC) :
    ∀ x ∈ reassignCore best current sorted sorted.length, x.isSome = true := by
  intro x hx
  obtain ⟨c, hc, rfl⟩ := List.getElem_of_mem hx
  have hc' : c < nC := by rw [length_reassignCore, g.lenC] at hc; exact hc
  obtain ⟨p, hown⟩ := g.own_exists hc'
  have := g.reassignCore_eq_owner hown
  rw [List.getD_eq_getElem?_getD, List.getElem?_eq_getElem hc] at this
  simp only [Option.getD_some] at this
  rw [this]; rfl

/-- the decidable well-formedness of a request gives `Shape` -/
theorem shape_of_wf {best : List Nat} {scores : Mat} (hwf : wf best scores = true) :
    Shape best (currentOf scores) (sortedOf scores) (nChannels scores) := by
  simp only [wf, Bool.and_eq_true, beq_iff_eq, List.all_eq_true] at hwf
  obtain ⟨⟨h1, h2⟩, h3⟩ := hwf
  refine ⟨by simpa [sortedOf] using h1, by simp [currentOf], ?_, h3⟩
  intro p hp
  simp only [sortedOf, List.length_map] at hp
  have hrow : (sortedOf scores).getD p [] = argsortDesc scores[p] := by
    simp [sortedOf, List.getD_eq_getElem?_getD, List.getElem?_eq_getElem hp]
  rw [hrow, ← h2 scores[p] (List.getElem_mem hp)]
  exact argsortDesc_perm _

/-- the decidable hypotheses on a score matrix give `Good` -/
theorem good_of_wf {best : List Nat} {scores : Mat} (hwf : wf best scores = true)
    (hno : noOverlap best scores = true) :
    Good best (currentOf scores) (sortedOf scores) (nChannels scores) :=
  ⟨shape_of_wf hwf, (nodupB_iff _).mp hno⟩

/-! ### no channel stays unassigned when the targets sum to the number of channels -/

theorem sum_map_add' (l : List Nat) (f g : Nat → Nat) :
    (l.map fun i => f i + g i).sum = (l.map f).sum + (l.map g).sum := by
  induction l with
  | nil => rfl
  | cons x xs ih => simp only [List.map_cons, List.sum_cons, ih]; omega

theorem sum_map_le (l : List Nat) (f g : Nat → Nat) (h : ∀ i ∈ l, f i ≤ g i) :
    (l.map f).sum ≤ (l.map g).sum := by
  induction l with
  | nil => exact Nat.le_refl _
  | cons x xs ih =>
    simp only [List.map_cons, List.sum_cons]
    have := h x (by simp)
    have := ih (fun i hi => h i (List.mem_cons_of_mem _ hi))
    omega

/-- `-1` entries plus the per-precision counts make up all channels -/
theorem count_total {nP : Nat} {a : Asg} (h : Valid nP a) :
    a.countP (· == none) + ((List.range nP).map (countOf a)).sum = a.length := by
  induction a with
  | nil =>
    have : (List.range nP).map (countOf []) = (List.range nP).map fun _ => 0 :=
      List.map_congr_left (fun p _ => rfl)
    rw [this, sum_map_zero]; rfl
  | cons x xs ih =>
    have hxs : Valid nP xs := fun y hy => h y (List.mem_cons_of_mem _ hy)
    have ih := ih hxs
    have hstep : ((List.range nP).map (countOf (x :: xs))).sum =
        ((List.range nP).map (countOf xs)).sum +
        ((List.range nP).map fun p => if x == some p then 1 else 0).sum := by
      rw [← sum_map_add']
      congr 1
      apply List.map_congr_left
      intro p _
      simp [countOf, List.countP_cons]
    rw [hstep, List.countP_cons, List.length_cons]
    cases x with
    | none =>
      have : ((List.range nP).map fun p => if (none : Option Nat) == some p then 1 else 0) =
          (List.range nP).map fun _ => 0 := List.map_congr_left (fun p _ => rfl)
      rw [this, sum_map_zero]
      have : ((none : Option Nat) == none) = true := rfl
      rw [if_pos this]; omega
    | some q =>
      have hq : q < nP := h (some q) (by simp) q rfl
      rw [sum_indicator_range nP q, if_pos hq]
      have : ¬ ((some q : Option Nat) == none) = true := by simp
      rw [if_neg this]; omega

/-- no `-1` entry -/
def NoneFree (a : Asg) : Prop := ∀ c < a.length, a.getD c none ≠ none

theorem noneFree_setAll_some {a : Asg} (h : NoneFree a) (T : List Nat) (p : Nat) :
    NoneFree (setAll a T (some p)) := by
  intro c hc
  rw [length_setAll] at hc
  rw [getD_setAll _ _ _ hc]
  split
  · simp
  · exact h c hc

/-- assigning `p` to duplicate-free, unassigned positions `T` raises the count of `p` by `|T|` -/
theorem countOf_setAll_self {a : Asg} {T : List Nat} (p : Nat) (hT : T.Nodup)
    (hun : ∀ c ∈ T, c < a.length ∧ a.getD c none = none) :
    countOf (setAll a T (some p)) p = countOf a p + T.length := by
  rw [countOf_eq, countOf_eq, length_setAll, ← List.length_append]
  apply List.Perm.length_eq
  have hnd : (((List.range a.length).filter fun c => a.getD c none == some p) ++ T).Nodup := by
    rw [List.nodup_append]
    refine ⟨List.nodup_range.filter _, hT, ?_⟩
    intro x hx y hy hxy
    subst hxy
    have h1 := (List.mem_filter.mp hx).2
    rw [(hun x hy).2] at h1
    simp at h1
  rw [List.perm_ext_iff_of_nodup (List.nodup_range.filter _) hnd]
  intro c
  simp only [List.mem_filter, List.mem_range, List.mem_append, beq_iff_eq]
  constructor
  · rintro ⟨hc, h⟩
    rw [getD_setAll _ _ _ hc] at h
    split at h
    · rename_i hm; exact Or.inr hm
    · exact Or.inl ⟨hc, h⟩
  · rintro (⟨hc, h⟩ | hm)
    · refine ⟨hc, ?_⟩
      rw [getD_setAll _ _ _ hc]
      split
      · rfl
      · exact h
    · exact ⟨(hun c hm).1, getD_setAll_of_mem _ _ _ (hun c hm).1 hm⟩

/-- … and leaves every other count alone -/
theorem countOf_setAll_other {a : Asg} {T : List Nat} {p q : Nat} (hpq : q ≠ p)
    (hun : ∀ c ∈ T, c < a.length ∧ a.getD c none = none) :
    countOf (setAll a T (some p)) q = countOf a q := by
  rw [countOf_eq, countOf_eq, length_setAll]
  congr 1
  apply List.filter_congr
  intro c hc
  have hc := List.mem_range.mp hc
  rw [getD_setAll _ _ _ hc]
  split
  · rename_i hm
    rw [(hun c hm).2]
    have : (some p == some q) = false := by simpa using fun h => hpq h.symm
    simp [this]
  · rfl

/-- second-pass invariant without any hypothesis on overlap: either nothing is unassigned any
more, or every precision processed so far has reached its target -/
def Inv2' (best : List Nat) (m : Nat) (a : Asg) : Prop :=
  NoneFree a ∨ ∀ q < m, best.getD q 0 ≤ countOf a q

theorem Shape.pass2_step' (g : Shape best current sorted nC) {a : Asg} {m : Nat}
    (hm : m < sorted.length) (hlen : a.length = nC) (inv : Inv2' best m a) :
    Inv2' best (m + 1) (pass2Step best sorted a m) := by
  unfold pass2Step
  simp only
  split
  · rename_i hlt
    -- the channels handed to `m`: best-scored unassigned ones
    have hF : ∀ c, c ∈ (sorted.getD m []).filter (fun c => a.getD c (some 0) == none) ↔
        c < a.length ∧ a.getD c none = none := by
      intro c
      rw [List.mem_filter, getD_some0_eq_none_iff, (g.perm m hm).mem_iff, List.mem_range, hlen]
      constructor
      · rintro ⟨_, h⟩; exact h
      · intro h; exact ⟨hlen ▸ h.1, h⟩
    have hFnd : ((sorted.getD m []).filter (fun c => a.getD c (some 0) == none)).Nodup :=
      ((g.perm m hm).nodup_iff.mpr List.nodup_range).filter _
    have hTsub := List.take_sublist (best.getD m 0 - countOf a m)
      ((sorted.getD m []).filter (fun c => a.getD c (some 0) == none))
    have hun : ∀ c ∈ ((sorted.getD m []).filter (fun c => a.getD c (some 0) == none)).take
        (best.getD m 0 - countOf a m), c < a.length ∧ a.getD c none = none :=
      fun c hc => (hF c).mp (hTsub.subset hc)
    rcases inv with hnf | hall
    · exact Or.inl (noneFree_setAll_some hnf _ _)
    · by_cases hneed : best.getD m 0 - countOf a m ≤
          ((sorted.getD m []).filter (fun c => a.getD c (some 0) == none)).length
      · -- enough unassigned channels: the target is reached
        right
        intro q hq
        rcases Nat.lt_succ_iff_lt_or_eq.mp hq with hq | rfl
        · rw [countOf_setAll_other (Nat.ne_of_lt hq) hun]; exact hall q hq
        · rw [countOf_setAll_self q (hFnd.sublist hTsub) hun, List.length_take]
          omega
      · -- not enough: all of them are taken, nothing stays unassigned
        left
        rw [List.take_of_length_le (Nat.le_of_lt (Nat.lt_of_not_le hneed))]
        intro c hc
        rw [length_setAll] at hc
        rw [getD_setAll _ _ _ hc]
        split
        · simp
        · rename_i hnm
          intro hnone
          exact hnm ((hF c).mpr ⟨hc, hnone⟩)
  · rename_i hge
    rcases inv with hnf | hall
    · exact Or.inl hnf
    · right
      intro q hq
      rcases Nat.lt_succ_iff_lt_or_eq.mp hq with hq | rfl
      · exact hall q hq
      · exact Nat.le_of_not_lt hge

theorem Shape.pass2' (g : Shape best current sorted nC) (a1 : Asg) (h1 : a1.length = nC) (m : Nat)
    (hm : m ≤ sorted.length) :
    Inv2' best m ((List.range m).foldl (pass2Step best sorted) a1) := by
  induction m with
  | zero => exact Or.inr (fun q hq => absurd hq (Nat.not_lt_zero q))
  | succ m ih =>
    rw [List.range_succ, List.foldl_append]
    simp only [List.foldl_cons, List.foldl_nil]
    exact g.pass2_step' (Nat.lt_of_succ_le hm) (by rw [length_foldl_pass2, h1])
      (ih (Nat.le_of_succ_le hm))

/-- **no channel is left unassigned** when the targets sum to the number of channels — for every
score matrix, overlapping or not -/
theorem Shape.noneFree (g : Shape best current sorted nC)
    (hv : Valid sorted.length (reassignCore best current sorted sorted.length)) :
    NoneFree (reassignCore best current sorted sorted.length) := by
  have hlen : (reassignCore best current sorted sorted.length).length = nC := by
    rw [length_reassignCore, g.lenC]
  have inv : Inv2' best sorted.length (reassignCore best current sorted sorted.length) := by
    unfold reassignCore
    exact g.pass2' _ (by rw [length_foldl_pass1]; simp [g.lenC]) _ (Nat.le_refl _)
  rcases inv with h | hall
  · exact h
  · intro c hc hnone
    have htot := count_total hv
    have hpos : 0 < (reassignCore best current sorted sorted.length).countP (· == none) := by
      rw [List.countP_pos_iff]
      refine ⟨_, List.getElem_mem hc, ?_⟩
      rw [List.getD_eq_getElem?_getD, List.getElem?_eq_getElem hc] at hnone
      simpa using hnone
    have hle := sum_map_le (List.range sorted.length) (fun q => best.getD q 0)
      (countOf (reassignCore best current sorted sorted.length))
      (fun q hq => hall q (List.mem_range.mp hq))
    have hsum : ((List.range sorted.length).map fun q => best.getD q 0).sum = nC := by
      rw [← g.lenB, sum_getD_range, g.sum]
    rw [hsum] at hle
    omega

/-! ### the binary matrix -/

theorem getD_toBinary_row (a : Asg) (p c : Nat) :
    (a.map fun x => if x == some p then 1 else 0).getD c 0 =
      if a.getD c none == some p then 1 else 0 := by
  by_cases hc : c < a.length
  · simp [List.getD_eq_getElem?_getD, hc]
  · simp [List.getD_eq_getElem?_getD, hc]

theorem colSum_toBinary (nP : Nat) (a : Asg) (c : Nat) :
    colSum (toBinary nP a) c =
      match a.getD c none with
      | some q => if q < nP then 1 else 0
      | none => 0 := by
  unfold colSum toBinary
  rw [List.map_map]
  have : ((fun x : List Nat => x.getD c 0) ∘ fun p => a.map fun x => if x == some p then 1 else 0) =
      fun p => if a.getD c none == some p then 1 else 0 := by
    funext p; exact getD_toBinary_row a p c
  rw [this]
  cases h : a.getD c none with
  | none => simp
  | some q => exact sum_indicator_range nP q

theorem rowSum_toBinary (nP : Nat) (a : Asg) {p : Nat} (hp : p < nP) :
    rowSum (toBinary nP a) p = countOf a p := by
  unfold rowSum toBinary countOf
  simp only [List.getD_eq_getElem?_getD, List.getElem?_map, List.getElem?_range hp, Option.map_some,
    Option.getD_some]
  induction a with
  | nil => rfl
  | cons x xs ih =>
    simp only [List.map_cons, List.sum_cons, List.countP_cons, ih]
    split <;> omega

/-! ### count vectors: moving channels up -/

/-- channels at the `k`-th smallest precision or above -/
def sufSum (v : List Nat) (k : Nat) : Nat := (v.drop k).sum

/-- `v` arises from `w` by moving channels to higher precisions only: same length, same number
of channels, and for every threshold at least as many channels at or above it -/
def MovesUp (w v : List Nat) : Prop :=
  v.length = w.length ∧ v.sum = w.sum ∧ ∀ k, sufSum w k ≤ sufSum v k

theorem MovesUp.refl (w : List Nat) : MovesUp w w := ⟨rfl, rfl, fun _ => Nat.le_refl _⟩

theorem MovesUp.trans {u v w : List Nat} (h1 : MovesUp u v) (h2 : MovesUp v w) : MovesUp u w :=
  ⟨h2.1.trans h1.1, h2.2.1.trans h1.2.1, fun k => Nat.le_trans (h1.2.2 k) (h2.2.2 k)⟩

theorem sum_set (l : List Nat) (i x : Nat) (h : i < l.length) :
    (l.set i x).sum + l.getD i 0 = l.sum + x := by
  induction l generalizing i with
  | nil => simp at h
  | cons y ys ih =>
    cases i with
    | zero => simp; omega
    | succ i =>
      simp only [List.set_cons_succ, List.sum_cons, List.getD_cons_succ]
      have := ih i (by simpa using h)
      omega

theorem sufSum_set (l : List Nat) (i x k : Nat) (h : i < l.length) :
    sufSum (l.set i x) k + (if k ≤ i then l.getD i 0 else 0) =
      sufSum l k + (if k ≤ i then x else 0) := by
  unfold sufSum
  rw [List.drop_set]
  by_cases hk : k ≤ i
  · have h1 : ¬ i < k := Nat.not_lt.mpr hk
    simp only [h1, if_false, hk, if_true]
    have hlen : i - k < (l.drop k).length := by simp; omega
    have := sum_set (l.drop k) (i - k) x hlen
    have hg : (l.drop k).getD (i - k) 0 = l.getD i 0 := by
      simp only [List.getD_eq_getElem?_getD, List.getElem?_drop]
      congr 2; omega
    rw [hg] at this
    exact this
  · have h1 : i < k := Nat.lt_of_not_le hk
    simp [h1, hk]

theorem getD_set_ne' (l : List Nat) {i j : Nat} (x : Nat) (h : i ≠ j) :
    (l.set i x).getD j 0 = l.getD j 0 := by
  simp [List.getD_eq_getElem?_getD, List.getElem?_set_ne h]

@[simp] theorem length_moveN (v : List Nat) (i j n : Nat) : (moveN v i j n).length = v.length := by
  simp [moveN]

theorem sufSum_moveN (v : List Nat) {i j n : Nat} (hij : i < j) (hj : j < v.length)
    (hn : n ≤ v.getD i 0) (k : Nat) :
    sufSum (moveN v i j n) k = sufSum v k + (if i < k ∧ k ≤ j then n else 0) := by
  unfold moveN
  have hi : i < v.length := Nat.lt_trans hij hj
  have h1 := sufSum_set v i (v.getD i 0 - n) k hi
  have h2 := sufSum_set (v.set i (v.getD i 0 - n)) j (v.getD j 0 + n) k (by simpa using hj)
  rw [getD_set_ne' v _ (Nat.ne_of_lt hij)] at h2
  by_cases hki : k ≤ i
  · have hkj : k ≤ j := Nat.le_trans hki (Nat.le_of_lt hij)
    have : ¬ (i < k ∧ k ≤ j) := by omega
    simp only [hki, hkj, if_true] at h1 h2
    simp only [this, if_false]
    omega
  · by_cases hkj : k ≤ j
    · have : i < k ∧ k ≤ j := ⟨Nat.lt_of_not_le hki, hkj⟩
      simp only [hki, hkj, if_true, if_false] at h1 h2
      simp only [this, and_self, if_true]
      omega
    · have : ¬ (i < k ∧ k ≤ j) := by omega
      simp only [hki, hkj, if_false] at h1 h2
      simp only [this, if_false]
      omega

theorem movesUp_moveN (v : List Nat) {i j n : Nat} (hij : i < j) (hj : j < v.length)
    (hn : n ≤ v.getD i 0) : MovesUp v (moveN v i j n) := by
  refine ⟨length_moveN _ _ _ _, ?_, fun k => ?_⟩
  · have := sufSum_moveN v hij hj hn 0
    simpa [sufSum] using this
  · rw [sufSum_moveN v hij hj hn k]; omega

theorem mem_pairs {sp : List Nat} {i j : Nat} (h : (i, j) ∈ pairs sp) :
    i < j ∧ j < sp.length ∧ sp.getD i 0 ≠ 0 := by
  simp only [pairs, List.mem_flatMap, List.mem_range] at h
  obtain ⟨i', hi', h⟩ := h
  split at h
  · cases h
  · rename_i hz
    simp only [List.mem_map, List.mem_range'_1, Prod.mk.injEq] at h
    obtain ⟨j', ⟨h1, h2⟩, rfl, rfl⟩ := h
    refine ⟨by omega, by omega, by simpa using hz⟩

theorem mem_drain {v u : List Nat} {i j : Nat} (h : u ∈ drain v i j) :
    ∃ n, n ≤ v.getD i 0 ∧ u = moveN v i j n := by
  simp only [drain, List.mem_map, List.mem_range] at h
  obtain ⟨t, ht, rfl⟩ := h
  exact ⟨t + 1, ht, rfl⟩

theorem case2_inv (sp ws : List Nat) (hlen : ws.length = sp.length) (ps : List (Nat × Nat))
    (hps : ∀ ij ∈ ps, ij.1 < ij.2 ∧ ij.2 < sp.length) (st : List Nat × List (List Nat))
    (h1 : MovesUp ws st.1) (h2 : ∀ u ∈ st.2, MovesUp ws u) :
    let r := ps.foldl (fun (st : List Nat × List (List Nat)) ij =>
      (drained st.1 ij.1 ij.2, st.2 ++ drain st.1 ij.1 ij.2)) st
    MovesUp ws r.1 ∧ ∀ u ∈ r.2, MovesUp ws u := by
  induction ps generalizing st with
  | nil => exact ⟨h1, h2⟩
  | cons ij ps ih =>
    simp only [List.foldl_cons]
    have hij := hps ij (by simp)
    have hj : ij.2 < st.1.length := by rw [h1.1, hlen]; exact hij.2
    apply ih (fun x hx => hps x (List.mem_cons_of_mem _ hx))
    · exact h1.trans (movesUp_moveN st.1 hij.1 hj (Nat.le_refl _))
    · intro u hu
      rcases List.mem_append.mp hu with hu | hu
      · exact h2 u hu
      · obtain ⟨n, hn, rfl⟩ := mem_drain hu
        exact h1.trans (movesUp_moveN st.1 hij.1 hj hn)

/-- every count vector the search evaluates arises from the layer's counts by upward moves -/
theorem proposals_movesUp (sp ws : List Nat) (hlen : ws.length = sp.length) :
    ∀ u ∈ proposals sp ws, MovesUp ws u := by
  intro u hu
  have hpairs : ∀ ij ∈ pairs sp, ij.1 < ij.2 ∧ ij.2 < sp.length := by
    rintro ⟨i, j⟩ h; exact ⟨(mem_pairs h).1, (mem_pairs h).2.1⟩
  rcases List.mem_append.mp hu with hu | hu
  · simp only [case1, List.mem_flatMap] at hu
    obtain ⟨ij, hij, hu⟩ := hu
    obtain ⟨n, hn, rfl⟩ := mem_drain hu
    exact movesUp_moveN ws (hpairs ij hij).1 (by rw [hlen]; exact (hpairs ij hij).2) hn
  · exact (case2_inv sp ws hlen (pairs sp) hpairs (ws, []) (MovesUp.refl ws)
      (by intro u hu; cases hu)).2 u hu

theorem getD_zero_moveN (v : List Nat) {i j : Nat} (n : Nat) (hi : i ≠ 0) (hj : j ≠ 0) :
    (moveN v i j n).getD 0 0 = v.getD 0 0 := by
  unfold moveN
  rw [getD_set_ne' _ _ hj, getD_set_ne' _ _ hi]

theorem case2_keeps_zero (x : Nat) (ps : List (Nat × Nat))
    (hps : ∀ ij ∈ ps, ij.1 ≠ 0 ∧ ij.2 ≠ 0) (st : List Nat × List (List Nat))
    (h1 : st.1.getD 0 0 = x) (h2 : ∀ u ∈ st.2, u.getD 0 0 = x) :
    let r := ps.foldl (fun (st : List Nat × List (List Nat)) ij =>
      (drained st.1 ij.1 ij.2, st.2 ++ drain st.1 ij.1 ij.2)) st
    r.1.getD 0 0 = x ∧ ∀ u ∈ r.2, u.getD 0 0 = x := by
  induction ps generalizing st with
  | nil => exact ⟨h1, h2⟩
  | cons ij ps ih =>
    simp only [List.foldl_cons]
    have hij := hps ij (by simp)
    apply ih (fun x hx => hps x (List.mem_cons_of_mem _ hx))
    · unfold drained; rw [getD_zero_moveN _ _ hij.1 hij.2]; exact h1
    · intro u hu
      rcases List.mem_append.mp hu with hu | hu
      · exact h2 u hu
      · obtain ⟨n, _, rfl⟩ := mem_drain hu
        rw [getD_zero_moveN _ _ hij.1 hij.2]; exact h1

/-- with the 0-bit option as smallest precision, no evaluated vector changes its count -/
theorem proposals_keep_zero_bit (sp ws : List Nat) (h0 : sp.getD 0 0 = 0) :
    ∀ u ∈ proposals sp ws, u.getD 0 0 = ws.getD 0 0 := by
  intro u hu
  have hpairs : ∀ ij ∈ pairs sp, ij.1 ≠ 0 ∧ ij.2 ≠ 0 := by
    rintro ⟨i, j⟩ h
    have := mem_pairs h
    refine ⟨?_, by omega⟩
    rintro rfl
    exact this.2.2 h0
  rcases List.mem_append.mp hu with hu | hu
  · simp only [case1, List.mem_flatMap] at hu
    obtain ⟨ij, hij, hu⟩ := hu
    obtain ⟨n, _, rfl⟩ := mem_drain hu
    exact getD_zero_moveN _ _ (hpairs ij hij).1 (hpairs ij hij).2
  · exact (case2_keeps_zero _ (pairs sp) hpairs (ws, []) rfl (by intro u hu; cases hu)).2 u hu

/-! ### best-so-far -/

section BestSoFar
variable {α : Type} [Preorder α] [DecidableLT α] (cost : List Nat → α)

theorem accept_cost_le (b : Best α) (v : List Nat) : (accept cost b v).cost ≤ b.cost := by
  unfold accept
  split
  · rename_i h; exact le_of_lt h
  · exact le_refl _

theorem foldl_accept_cost_le (props : List (List Nat)) (b : Best α) :
    (props.foldl (accept cost) b).cost ≤ b.cost := by
  induction props generalizing b with
  | nil => exact le_refl _
  | cons v vs ih => exact le_trans (ih _) (accept_cost_le cost b v)

theorem foldl_accept_consistent (props : List (List Nat)) (b : Best α) (hb : b.cost = cost b.vec) :
    (props.foldl (accept cost) b).cost = cost (props.foldl (accept cost) b).vec := by
  induction props generalizing b with
  | nil => exact hb
  | cons v vs ih =>
    apply ih
    unfold accept
    split
    · rfl
    · exact hb

theorem accept_of_lt {b : Best α} {v : List Nat} (h : cost v < b.cost) :
    accept cost b v = ⟨cost v, v⟩ := by simp [accept, h]

theorem accept_of_not_lt {b : Best α} {v : List Nat} (h : ¬ cost v < b.cost) :
    accept cost b v = b := by simp [accept, h]

theorem foldl_accept_vec_mem (props : List (List Nat)) (b : Best α) :
    (props.foldl (accept cost) b).vec = b.vec ∨ (props.foldl (accept cost) b).vec ∈ props := by
  induction props generalizing b with
  | nil => exact Or.inl rfl
  | cons v vs ih =>
    simp only [List.foldl_cons]
    rcases ih (accept cost b v) with h | h
    · by_cases hlt : cost v < b.cost
      · rw [accept_of_lt cost hlt] at h ⊢
        exact Or.inr (by rw [h]; simp)
      · rw [accept_of_not_lt cost hlt] at h ⊢
        exact Or.inl h
    · exact Or.inr (List.mem_cons_of_mem _ h)

end BestSoFar

/-- on a linear order the best-so-far is a minimum over everything evaluated -/
theorem foldl_accept_le_all {α : Type} [LinearOrder α] (cost : List Nat → α)
    (props : List (List Nat)) (b : Best α) :
    ∀ v ∈ props, (props.foldl (accept cost) b).cost ≤ cost v := by
  induction props generalizing b with
  | nil => intro v hv; cases hv
  | cons u us ih =>
    intro v hv
    simp only [List.foldl_cons]
    rcases List.mem_cons.mp hv with rfl | hv
    · refine le_trans (foldl_accept_cost_le cost us _) ?_
      unfold accept
      split
      · exact le_refl _
      · rename_i h; exact not_lt.mp h
    · exact ih _ v hv

theorem gather_range (x : List Nat) : gather (List.range x.length) x = x := map_getD_range x 0

theorem length_gather (idx x : List Nat) : (gather idx x).length = idx.length := by simp [gather]

/-! ### sorting the precisions and un-sorting the counts -/

theorem length_scatter (idx x : List Nat) : (scatter idx x).length = idx.length := by
  simp [scatter]

/-- `scatter idx` undoes `gather idx` (the code's `inverse_indexes`) -/
theorem scatter_gather {idx : List Nat} {n : Nat} (hp : idx.Perm (List.range n)) (w : List Nat)
    (hw : w.length = n) : scatter idx (gather idx w) = w := by
  have hlen : idx.length = n := by rw [hp.length_eq, List.length_range]
  apply List.ext_getElem
  · rw [length_scatter, hlen, hw]
  · intro o h1 h2
    have ho : o < n := hw ▸ h2
    have hmem : o ∈ idx := hp.mem_iff.mpr (List.mem_range.mpr ho)
    have hi : idx.idxOf o < idx.length := List.idxOf_lt_length_iff.mpr hmem
    simp only [scatter, gather, List.getElem_map, List.getElem_range, List.getD_eq_getElem?_getD,
      List.getElem?_map, List.getElem?_eq_getElem hi, Option.map_some, Option.getD_some,
      List.getElem_idxOf hi, List.getElem?_eq_getElem h2]

/-- `gather idx` undoes `scatter idx` -/
theorem gather_scatter {idx : List Nat} {n : Nat} (hp : idx.Perm (List.range n)) (u : List Nat)
    (hu : u.length = n) : gather idx (scatter idx u) = u := by
  have hlen : idx.length = n := by rw [hp.length_eq, List.length_range]
  have hnd : idx.Nodup := hp.nodup_iff.mpr List.nodup_range
  apply List.ext_getElem
  · rw [length_gather, hlen, hu]
  · intro k h1 h2
    have hk : k < idx.length := by rw [hlen, ← hu]; exact h2
    have hlt : idx[k] < idx.length := by
      rw [hlen]; exact List.mem_range.mp (hp.mem_iff.mp (List.getElem_mem hk))
    simp only [gather, scatter, List.getElem_map, List.getD_eq_getElem?_getD, List.getElem?_map,
      List.getElem?_range hlt, Option.map_some, Option.getD_some, hnd.idxOf_getElem k hk,
      List.getElem?_eq_getElem h2]

/-! ### the fields of `refineLayer` -/

section Fields
variable {α : Type} [LT α] [DecidableLT α] (cost : List Nat → α) (precs w : List Nat)

theorem refineLayer_passed :
    (refineLayer cost precs w).passed =
      (proposals (gather (argsortAsc precs) precs) (gather (argsortAsc precs) w)).map
        (scatter (argsortAsc precs)) := rfl

theorem refineLayer_best :
    (refineLayer cost precs w).best =
      (proposals (gather (argsortAsc precs) precs) (gather (argsortAsc precs) w)).foldl
        (accept (cost ∘ scatter (argsortAsc precs))) ⟨cost w, gather (argsortAsc precs) w⟩ := rfl

theorem refineLayer_applied :
    (refineLayer cost precs w).applied =
      scatter (argsortAsc precs) (refineLayer cost precs w).best.vec := rfl

end Fields

end PlinioVerif.Reassign
