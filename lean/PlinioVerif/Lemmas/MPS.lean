import PlinioVerif.Model.MPS
import Mathlib.Algebra.BigOperators.Group.List.Basic
import Mathlib.Algebra.Module.Defs
import Mathlib.Algebra.Order.Field.Basic
import Mathlib.Tactic.Ring
import Mathlib.Tactic.Linarith
import Mathlib.Tactic.FieldSimp
/-! Helper lemmas for C02 / C05 (model: `PlinioVerif/Model/MPS.lean`). -/
namespace PlinioVerif.MPS

/-! ### lists -/

theorem getD_append_lt {α : Type} (l : List α) (x d : α) (n : Nat) (h : n < l.length) :
    (l ++ [x]).getD n d = l.getD n d := by
  simp [List.getD, List.getElem?_append_left h]

theorem getD_append_len {α : Type} (l : List α) (x d : α) : (l ++ [x]).getD l.length d = x := by
  simp [List.getD]

theorem getD_take_lt {α : Type} (l : List α) (d : α) (a j : Nat) (h : a < j) :
    (l.take j).getD a d = l.getD a d := by
  simp [List.getD, h]

theorem getD_map_lt {α β : Type} (f : α → β) (l : List α) (d : α) (d' : β) (n : Nat) (h : n < l.length) :
    (l.map f).getD n d' = f (l.getD n d) := by
  simp [List.getD, List.getElem?_eq_getElem h]

/-- the decidable well-formedness check of the driver implies `WF` -/
theorem wf_of_wfB (p : Prog) (h : wfB p = true) : WF p := by
  intro i hi hne
  unfold wfB at h
  rw [List.all_eq_true] at h
  have := h i (List.mem_range.mpr hi)
  simp only [Bool.or_eq_true, decide_eq_true_eq, Bool.and_eq_true] at this
  rcases this with h1 | h2
  · exact absurd h1 hne
  · exact h2

/-! ### `scan` -/

section scan
variable {α β : Type}

theorem scanAux_length (g : List β → α → β) (l : List α) (init : List β) :
    (l.foldl (fun acc x => acc ++ [g acc x]) init).length = init.length + l.length := by
  induction l generalizing init with
  | nil => simp
  | cons x xs ih => simp only [List.foldl_cons, ih, List.length_append, List.length_cons, List.length_nil]; omega

theorem scan_length (g : List β → α → β) (l : List α) : (scan g l).length = l.length := by
  simp [scan, scanAux_length]

theorem scan_append_one (g : List β → α → β) (l : List α) (x : α) :
    scan g (l ++ [x]) = scan g l ++ [g (scan g l) x] := by
  simp [scan, List.foldl_append]

theorem scanAux_prefix (g : List β → α → β) (l : List α) (init : List β) :
    (l.foldl (fun acc x => acc ++ [g acc x]) init).take init.length = init := by
  induction l generalizing init with
  | nil => simp
  | cons x xs ih =>
    simp only [List.foldl_cons]
    have h := ih (init ++ [g init x])
    have h2 : ∀ (L : List β) (n : Nat), (L.take (n + 1)).take n = L.take n := by
      intro L n; rw [List.take_take]; simp
    rw [← h2, show init.length + 1 = (init ++ [g init x]).length by simp, h]
    simp

theorem scanAux_take (g : List β → α → β) (l : List α) (init : List β) (i : Nat) :
    (l.foldl (fun acc x => acc ++ [g acc x]) init).take (init.length + i)
      = (l.take i).foldl (fun acc x => acc ++ [g acc x]) init := by
  induction l generalizing init i with
  | nil => simp
  | cons x xs ih =>
    cases i with
    | zero =>
      simp only [Nat.add_zero, List.take_zero, List.foldl_nil]
      exact scanAux_prefix g (x :: xs) init
    | succ i =>
      simp only [List.foldl_cons, List.take_succ_cons]
      have := ih (init ++ [g init x]) i
      rw [← this]
      congr 1
      simp; omega

/-- the values of a prefix of the program are the prefix of the values -/
theorem scan_take (g : List β → α → β) (l : List α) (i : Nat) :
    (scan g l).take i = scan g (l.take i) := by
  have := scanAux_take g l [] i
  simpa [scan] using this

/-- value of node `i` = node function applied to the values of the nodes before it -/
theorem scan_getD (g : List β → α → β) (l : List α) (i : Nat) (h : i < l.length) (d : β) (a0 : α) :
    (scan g l).getD i d = g ((scan g l).take i) (l.getD i a0) := by
  have hsplit : l.take (i + 1) = l.take i ++ [l.getD i a0] := by
    rw [List.take_succ_eq_append_getElem h]
    simp [List.getD, List.getElem?_eq_getElem h]
  have h1 : (scan g l).getD i d = ((scan g l).take (i + 1)).getD i d := by
    rw [getD_take_lt _ _ _ _ (Nat.lt_succ_self i)]
  rw [h1, scan_take, hsplit, scan_append_one, ← scan_take]
  have hl : ((scan g l).take i).length = i := by
    rw [List.length_take, scan_length]; omega
  have := getD_append_len ((scan g l).take i) (g ((scan g l).take i) (l.getD i a0)) d
  rw [hl] at this
  exact this

end scan

/-! ### a one-hot weighted mix is the selected alternative -/

section mix
variable {R M : Type} [Semiring R] [AddCommMonoid M] [Module R M]

theorem mix_onehot_aux (k : ℕ) : ∀ (ys : List M) (off : ℕ),
    mix ((List.range' off ys.length).map fun i => if i = k then (1 : R) else 0) ys
      = if off ≤ k ∧ k < off + ys.length then ys.getD (k - off) 0 else 0 := by
  intro ys
  induction ys with
  | nil => intro off; simp [mix]
  | cons y ys ih =>
    intro off
    simp only [List.length_cons, List.range'_succ, List.map_cons, mix]
    rw [ih (off + 1)]
    by_cases h : off = k
    · subst h; simp
    · by_cases h2 : off + 1 ≤ k ∧ k < off + 1 + ys.length
      · have h3 : off ≤ k ∧ k < off + (ys.length + 1) := by omega
        simp only [h, if_false, zero_smul, zero_add, h2, and_self, if_true, h3]
        have : k - off = (k - (off + 1)) + 1 := by omega
        rw [this]; simp [List.getD]
      · have h3 : ¬ (off ≤ k ∧ k < off + (ys.length + 1)) := by omega
        simp [h, h2, h3]

theorem mix_onehot (ys : List M) (k : ℕ) (hk : k < ys.length) :
    mix (onehot (R := R) ys.length k) ys = ys.getD k 0 := by
  have := mix_onehot_aux (R := R) k ys 0
  simp only [List.range_eq_range', onehot] at *
  rw [this]; simp [hk]

/-- `mixQ` with one-hot coefficients evaluates the selected candidate only -/
theorem mixQ_onehot (n k : ℕ) (hk : k < n) (f : ℕ → M) :
    mixQ (onehot (R := R) n k) n f = f k := by
  have h := mix_onehot (R := R) ((List.range n).map f) k (by simpa using hk)
  simp only [List.length_map, List.length_range] at h
  unfold mixQ
  rw [h]
  simp [List.getD, hk]

end mix

/-! ### arg-max -/

theorem argmaxAux_bound (xs : List Rat) (i best : Nat) (bv : Rat) (hb : best < i) :
    argmaxAux xs i best bv < i + xs.length := by
  induction xs generalizing i best bv with
  | nil => simpa [argmaxAux] using hb
  | cons x xs ih =>
    simp only [argmaxAux, List.length_cons]
    split
    · have := ih (i + 1) i x (Nat.lt_succ_self i); omega
    · have := ih (i + 1) best bv (by omega); omega

theorem argmax_lt (l : List Rat) (h : l ≠ []) : argmax l < l.length := by
  cases l with
  | nil => exact absurd rfl h
  | cons x xs =>
    simp only [argmax, List.length_cons]
    have := argmaxAux_bound xs 1 0 x (by omega)
    omega

/-- invariant of the scan: the running best is a maximum of what was seen, and the first one -/
theorem argmaxAux_spec (l : List Rat) :
    ∀ (xs : List Rat) (i best : Nat) (bv : Rat),
      i + xs.length = l.length → best < i → l.getD best 0 = bv →
      (∀ j, j < xs.length → l.getD (i + j) 0 = xs.getD j 0) →
      (∀ j, j < i → l.getD j 0 ≤ bv) → (∀ j, j < best → l.getD j 0 < bv) →
      let r := argmaxAux xs i best bv
      (∀ j, j < l.length → l.getD j 0 ≤ l.getD r 0) ∧ (∀ j, j < r → l.getD j 0 < l.getD r 0) := by
  intro xs
  induction xs with
  | nil =>
    intro i best bv hlen hb hbv _ hmax hfirst
    simp only [argmaxAux]
    simp only [List.length_nil, Nat.add_zero] at hlen
    rw [hbv]
    exact ⟨fun j hj => hmax j (by omega), hfirst⟩
  | cons x xs ih =>
    intro i best bv hlen hb hbv hxs hmax hfirst
    simp only [List.length_cons] at hlen
    have hx : l.getD i 0 = x := by simpa using hxs 0 (by simp)
    have hxs' : ∀ j, j < xs.length → l.getD (i + 1 + j) 0 = xs.getD j 0 := by
      intro j hj
      have := hxs (j + 1) (by simp; omega)
      simpa [Nat.add_assoc, Nat.add_comm 1 j] using this
    simp only [argmaxAux]
    split
    · rename_i hlt
      refine ih (i + 1) i x (by omega) (Nat.lt_succ_self i) hx hxs' ?_ ?_
      · intro j hj
        by_cases hji : j = i
        · subst hji; rw [hx]
        · exact le_of_lt (lt_of_le_of_lt (hmax j (by omega)) hlt)
      · intro j hj; exact lt_of_le_of_lt (hmax j hj) hlt
    · rename_i hnlt
      refine ih (i + 1) best bv (by omega) (by omega) hbv hxs' ?_ hfirst
      intro j hj
      by_cases hji : j = i
      · subst hji; rw [hx]; exact not_lt.mp hnlt
      · exact hmax j (by omega)

/-- `argmax` returns the first maximal coefficient -/
theorem argmax_spec (l : List Rat) (h : l ≠ []) :
    (∀ j, j < l.length → l.getD j 0 ≤ l.getD (argmax l) 0) ∧
    (∀ j, j < argmax l → l.getD j 0 < l.getD (argmax l) 0) := by
  cases l with
  | nil => exact absurd rfl h
  | cons x xs =>
    have h1 : ∀ j, j < xs.length → (x :: xs).getD (1 + j) 0 = xs.getD j 0 := by
      intro j hj; simp [Nat.add_comm 1 j]
    have h2 : ∀ j, j < 1 → (x :: xs).getD j 0 ≤ x := by
      intro j hj
      have hj0 : j = 0 := by omega
      subst hj0; simp
    have h3 : ∀ j, j < 0 → (x :: xs).getD j 0 < x := by
      intro j hj; omega
    have := argmaxAux_spec (x :: xs) xs 1 0 x (by simp; omega) (by omega) (by simp) h1 h2 h3
    simpa [argmax] using this

theorem argmaxAux_map (g : Rat → Rat) (hg : StrictMono g) (xs : List Rat) (i best : Nat) (bv : Rat) :
    argmaxAux (xs.map g) i best (g bv) = argmaxAux xs i best bv := by
  induction xs generalizing i best bv with
  | nil => rfl
  | cons x xs ih =>
    simp only [List.map_cons, argmaxAux, hg.lt_iff_lt]
    split <;> exact ih _ _ _

/-- the selection is invariant under every strictly increasing re-scaling of the coefficients -/
theorem argmax_map (g : Rat → Rat) (hg : StrictMono g) (l : List Rat) : argmax (l.map g) = argmax l := by
  cases l with
  | nil => rfl
  | cons x xs => simpa [argmax] using argmaxAux_map g hg xs 1 0 x

/-! ### the searchable network in eval / hard mode against the exported one -/

section net
variable {R V : Type} [Semiring R] [AddCommMonoid V] [Module R V]

theorem mixQ_sampleHard (α : List Rat) (hα : α ≠ []) (f : ℕ → V) :
    mixQ (sampleHard (R := R) α) α.length f = f (argmax α) :=
  mixQ_onehot _ _ (argmax_lt _ hα) f

theorem nodeMPS_eq_nodeExport (p : Prog) (c : Cfg) (S : Sem V) (α : QId → List Rat)
    (hα : ∀ q, α q ≠ []) (vals : List V) (nd : Node) :
    nodeMPS (R := R) p S (fun q => sampleHard (α q)) (fun q => (α q).length) vals nd
      = nodeExport S (planOf p c α) vals nd := by
  have key : ∀ (q : QId) (f : ℕ → V),
      mixQ (sampleHard (R := R) (α q)) (α q).length f = f (argmax (α q)) :=
    fun q f => mixQ_sampleHard (α q) (hα q) f
  unfold nodeMPS nodeExport
  cases nd.kind <;> simp [key, planOf, selOf, outQ]

theorem scan_congr {α β : Type} (g g' : List β → α → β) (h : ∀ acc x, g acc x = g' acc x) (l : List α) :
    scan g l = scan g' l := by
  have : g = g' := by funext acc x; exact h acc x
  rw [this]

end net

/-! ### which quantizer a layer receives -/

theorem tags_length (p : Prog) : (tags p).length = p.length := scan_length _ _

theorem tags_getD (p : Prog) (j : Nat) (h : j < p.length) :
    (tags p).getD j .dflt = nodeTag p ((tags p).take j) (p.nd j) := by
  unfold tags Prog.nd
  exact scan_getD (nodeTag p) p j h .dflt {}

/-- the tag carried along the evaluation is the out-quantizer of the module the walk of
`register_in_mps_quantizers` stops at -/
theorem tag_eq_walk (p : Prog) (hwf : WF p) :
    ∀ (j : Nat), j < p.length → ∀ (f : Nat), j < f →
      (tags p).getD j .dflt = match walkProd p f j with
                              | some s => outQ p s
                              | none => .dflt := by
  intro j
  induction j using Nat.strong_induction_on with
  | _ j ih =>
    intro hj f hf
    obtain ⟨f, rfl⟩ : ∃ f', f = f' + 1 := ⟨f - 1, by omega⟩
    have hlen : ((tags p).take j).length = j := by
      rw [List.length_take, tags_length]; omega
    rw [tags_getD p j hj]
    unfold nodeTag walkProd
    rw [hlen]
    cases hk : (p.nd j).kind <;> simp only [outQ]
    all_goals
      have hne : (p.nd j).kind ≠ .input := by rw [hk]; decide
      have ha := (hwf j hj hne).1
      rw [getD_take_lt _ _ _ _ ha]
      exact ih _ ha (by omega) f (by omega)

/-! ### sharing: the labelling is constant along every kept edge -/

/-- node `v` has the label of its first input unless it is features-defining, and an add has the
label of both operands -/
def LabelSoundAt (p : Prog) (ls : List Nat) (v : Nat) : Prop :=
  ((p.nd v).kind.defining = false → ls.getD v 0 = ls.getD (p.nd v).a 0) ∧
  ((p.nd v).kind = .add → ls.getD v 0 = ls.getD (p.nd v).b 0)

/-- `stepLabel` only ever renames labels of the earlier nodes -/
theorem tieLabels_eq_map (ls : List Nat) (nd : Node) : ∃ g : Nat → Nat, tieLabels ls nd = ls.map g := by
  unfold tieLabels relabel
  split
  · exact ⟨_, rfl⟩
  · exact ⟨id, by simp⟩

theorem sound_preserved (p : Prog) (f : Nat → Nat) (ls : List Nat) (x v : Nat) (hv : v < ls.length)
    (hab : (p.nd v).kind ≠ .input → (p.nd v).a < ls.length ∧ (p.nd v).b < ls.length)
    (h : LabelSoundAt p ls v) : LabelSoundAt p (ls.map f ++ [x]) v := by
  by_cases hin : (p.nd v).kind = .input
  · constructor
    · intro hd; rw [hin] at hd; simp [Kind.defining] at hd
    · intro hadd; rw [hin] at hadd; cases hadd
  · obtain ⟨ha, hb⟩ := hab hin
    have hlen : (ls.map f).length = ls.length := by simp
    constructor
    · intro hd
      rw [getD_append_lt _ _ _ _ (by rw [hlen]; exact hv), getD_append_lt _ _ _ _ (by rw [hlen]; exact ha),
          getD_map_lt f ls 0 0 v hv, getD_map_lt f ls 0 0 _ ha, h.1 hd]
    · intro hadd
      rw [getD_append_lt _ _ _ _ (by rw [hlen]; exact hv), getD_append_lt _ _ _ _ (by rw [hlen]; exact hb),
          getD_map_lt f ls 0 0 v hv, getD_map_lt f ls 0 0 _ hb, h.2 hadd]

theorem take_succ_nd (p : Prog) (k : Nat) (hk : k < p.length) : p.take (k + 1) = p.take k ++ [p.nd k] := by
  rw [List.take_succ_eq_append_getElem hk]
  simp [Prog.nd, List.getD, List.getElem?_eq_getElem hk]

theorem labels_inv (p : Prog) (hwf : WF p) : ∀ (k : Nat), k ≤ p.length →
    ((p.take k).foldl stepLabel []).length = k ∧
    ∀ v, v < k → LabelSoundAt p ((p.take k).foldl stepLabel []) v := by
  intro k
  induction k with
  | zero => intro _; exact ⟨by simp, fun v hv => by omega⟩
  | succ k ih =>
    intro hk
    have hk' : k < p.length := by omega
    obtain ⟨hlen, hs⟩ := ih (by omega)
    rw [take_succ_nd p k hk', List.foldl_append]
    simp only [List.foldl_cons, List.foldl_nil]
    generalize hls : (p.take k).foldl stepLabel [] = ls at hlen hs
    have hwfv : ∀ v, v < k → (p.nd v).kind ≠ .input → (p.nd v).a < ls.length ∧ (p.nd v).b < ls.length := by
      intro v hv hne
      have := hwf v (by omega) hne
      rw [hlen]; omega
    -- old nodes stay sound under any step of the form `ls.map f ++ [x]`
    have hold : ∀ (f : Nat → Nat) (x : Nat) v, v < k → LabelSoundAt p (ls.map f ++ [x]) v := by
      intro f x v hv
      exact sound_preserved p f ls x v (by rw [hlen]; exact hv) (hwfv v hv) (hs v hv)
    have hid : ls.map id = ls := by simp
    by_cases hin : (p.nd k).kind = .input
    · -- placeholder: fresh label
      have hstep : stepLabel ls (p.nd k) = ls.map id ++ [ls.length] := by simp [stepLabel, hin]
      rw [hstep]
      refine ⟨by simp [hlen], fun v hv => ?_⟩
      by_cases hvk : v < k
      · exact hold id _ v hvk
      · have : v = k := by omega
        subst this
        constructor
        · intro hd; rw [hin] at hd; simp [Kind.defining] at hd
        · intro hadd; rw [hin] at hadd; cases hadd
    · obtain ⟨hak, hbk⟩ := hwf k hk' hin
      have hak' : (p.nd k).a < ls.length := by rw [hlen]; exact hak
      have hbk' : (p.nd k).b < ls.length := by rw [hlen]; exact hbk
      cases hkind : (p.nd k).kind with
      | input => exact absurd hkind hin
      | conv =>
        obtain ⟨g, hg⟩ := tieLabels_eq_map ls (p.nd k)
        have hstep : stepLabel ls (p.nd k) = ls.map g ++ [siteLabel ls (p.nd k)] := by simp [stepLabel, hkind, hg]
        rw [hstep]
        refine ⟨by simp [hlen], fun v hv => ?_⟩
        by_cases hvk : v < k
        · exact hold g _ v hvk
        · have : v = k := by omega
          subst this
          exact ⟨fun hd => by rw [hkind] at hd; simp [Kind.defining] at hd,
                 fun hadd => by rw [hkind] at hadd; cases hadd⟩
      | linear =>
        obtain ⟨g, hg⟩ := tieLabels_eq_map ls (p.nd k)
        have hstep : stepLabel ls (p.nd k) = ls.map g ++ [siteLabel ls (p.nd k)] := by simp [stepLabel, hkind, hg]
        rw [hstep]
        refine ⟨by simp [hlen], fun v hv => ?_⟩
        by_cases hvk : v < k
        · exact hold g _ v hvk
        · have : v = k := by omega
          subst this
          exact ⟨fun hd => by rw [hkind] at hd; simp [Kind.defining] at hd,
                 fun hadd => by rw [hkind] at hadd; cases hadd⟩
      | add =>
        have hstep : stepLabel ls (p.nd k) =
            ls.map (fun x => if x = ls.getD (p.nd k).b 0 then ls.getD (p.nd k).a 0 else x)
              ++ [ls.getD (p.nd k).a 0] := by simp [stepLabel, hkind, relabel]
        rw [hstep]
        refine ⟨by simp [hlen], fun v hv => ?_⟩
        by_cases hvk : v < k
        · exact hold _ _ v hvk
        · have : v = k := by omega
          subst this
          have hl2 : (ls.map (fun x => if x = ls.getD (p.nd v).b 0 then ls.getD (p.nd v).a 0 else x)).length
              = v := by simp [hlen]
          have hnew : ∀ x, (ls.map (fun x => if x = ls.getD (p.nd v).b 0 then ls.getD (p.nd v).a 0 else x)
              ++ [x]).getD v 0 = x := by
            intro x
            have := getD_append_len (ls.map (fun x => if x = ls.getD (p.nd v).b 0 then ls.getD (p.nd v).a 0 else x)) x 0
            rw [hl2] at this; exact this
          constructor
          · intro _
            rw [hnew, getD_append_lt _ _ _ _ (by rw [hl2]; exact hak), getD_map_lt _ ls 0 0 _ hak']
            split <;> rfl
          · intro _
            rw [hnew, getD_append_lt _ _ _ _ (by rw [hl2]; exact hbk), getD_map_lt _ ls 0 0 _ hbk']
            simp
      | dw =>
        obtain ⟨g, hg⟩ := tieLabels_eq_map ls (p.nd k)
        have hstep : stepLabel ls (p.nd k) = ls.map g ++ [(ls.map g).getD (p.nd k).a 0] := by
          simp [stepLabel, hkind, hg]
        rw [hstep]
        refine ⟨by simp [hlen], fun v hv => ?_⟩
        by_cases hvk : v < k
        · exact hold g _ v hvk
        · have : v = k := by omega
          subst this
          have hl2 : (ls.map g).length = v := by simp [hlen]
          have hnew : (ls.map g ++ [(ls.map g).getD (p.nd v).a 0]).getD v 0 = (ls.map g).getD (p.nd v).a 0 := by
            have := getD_append_len (ls.map g) ((ls.map g).getD (p.nd v).a 0) 0
            rw [hl2] at this; exact this
          constructor
          · intro _
            rw [hnew, getD_append_lt _ _ _ _ (by rw [hl2]; exact hak)]
          · intro hadd; rw [hkind] at hadd; cases hadd
      | pass | flatten | output =>
        have hstep : stepLabel ls (p.nd k) = ls.map id ++ [ls.getD (p.nd k).a 0] := by
          simp [stepLabel, hkind]
        rw [hstep]
        refine ⟨by simp [hlen], fun v hv => ?_⟩
        by_cases hvk : v < k
        · exact hold id _ v hvk
        · have : v = k := by omega
          subst this
          have hl2 : (ls.map id).length = v := by simp [hlen]
          have hnew : (ls.map id ++ [ls.getD (p.nd v).a 0]).getD v 0 = ls.getD (p.nd v).a 0 := by
            have := getD_append_len (ls.map id) (ls.getD (p.nd v).a 0) 0
            rw [hl2] at this; exact this
          constructor
          · intro _
            rw [hnew, getD_append_lt _ _ _ _ (by rw [hl2]; exact hak), getD_map_lt id ls 0 0 _ hak']
            rfl
          · intro hadd; rw [hkind] at hadd; cases hadd

/-- **sharing is sound**: along every edge kept by `build_shared_mps_qtz_map` (into a node that is
not features-defining; both operands of an add) the two ends are in the same component -/
theorem labels_sound (p : Prog) (hwf : WF p) (v : Nat) (hv : v < p.length) :
    ((p.nd v).kind.defining = false → p.lab v = p.lab (p.nd v).a) ∧
    ((p.nd v).kind = .add → p.lab v = p.lab (p.nd v).b) := by
  have := (labels_inv p hwf p.length (le_refl _)).2 v hv
  simpa [LabelSoundAt, Prog.lab, labels] using this

/-! ### tie edge: the tensors fed to the call sites of one layer module share a component -/

def TieAt (p : Prog) (ls : List Nat) (v : Nat) : Prop :=
  (p.nd v).dup = true → (p.nd v).kind.isLayer = true → (p.nd v).ta < v →
    ls.getD (p.nd v).a 0 = ls.getD (p.nd v).ta 0

theorem stepLabel_shape (ls : List Nat) (nd : Node) : ∃ (f : Nat → Nat) (x : Nat), stepLabel ls nd = ls.map f ++ [x] := by
  obtain ⟨g, hg⟩ := tieLabels_eq_map ls nd
  unfold stepLabel
  cases nd.kind <;> simp only [hg]
  case add => exact ⟨_, _, rfl⟩
  case conv => exact ⟨g, _, rfl⟩
  case linear => exact ⟨g, _, rfl⟩
  case dw => exact ⟨g, _, rfl⟩
  case input => exact ⟨id, ls.length, by simp⟩
  all_goals exact ⟨id, ls.getD nd.a 0, by simp⟩

theorem tie_preserved (p : Prog) (f : Nat → Nat) (ls : List Nat) (x v : Nat) (hv : v < ls.length)
    (ha : (p.nd v).a < ls.length) (h : TieAt p ls v) : TieAt p (ls.map f ++ [x]) v := by
  intro d l t
  have ht : (p.nd v).ta < ls.length := by omega
  have hlen : (ls.map f).length = ls.length := by simp
  rw [getD_append_lt _ _ _ _ (by rw [hlen]; exact ha), getD_append_lt _ _ _ _ (by rw [hlen]; exact ht),
      getD_map_lt f ls 0 0 _ ha, getD_map_lt f ls 0 0 _ ht, h d l t]

theorem labels_tie_inv (p : Prog) (hwf : WF p) : ∀ (k : Nat), k ≤ p.length →
    ∀ v, v < k → TieAt p ((p.take k).foldl stepLabel []) v := by
  intro k
  induction k with
  | zero => intro _ v hv; omega
  | succ k ih =>
    intro hk v hv
    have hk' : k < p.length := by omega
    have hlen := (labels_inv p hwf k (by omega)).1
    rw [take_succ_nd p k hk', List.foldl_append]
    simp only [List.foldl_cons, List.foldl_nil]
    generalize hls : (p.take k).foldl stepLabel [] = ls at hlen
    have ih' := ih (by omega)
    rw [hls] at ih'
    by_cases hvk : v < k
    · obtain ⟨f, x, hfx⟩ := stepLabel_shape ls (p.nd k)
      rw [hfx]
      by_cases hin : (p.nd v).kind = .input
      · intro _ l _; rw [hin] at l; simp [Kind.isLayer] at l
      · have hav := (hwf v (by omega) hin).1
        exact tie_preserved p f ls x v (by omega) (by omega) (ih' v hvk)
    · have : v = k := by omega
      subst this
      intro d l t
      have hne : (p.nd v).kind ≠ .input := by intro h; rw [h] at l; simp [Kind.isLayer] at l
      have hav : (p.nd v).a < ls.length := by rw [hlen]; exact (hwf v hk' hne).1
      have htv : (p.nd v).ta < ls.length := by rw [hlen]; exact t
      have key : ∀ x, (relabel (ls.getD (p.nd v).a 0) (ls.getD (p.nd v).ta 0) ls ++ [x]).getD (p.nd v).a 0
          = (relabel (ls.getD (p.nd v).a 0) (ls.getD (p.nd v).ta 0) ls ++ [x]).getD (p.nd v).ta 0 := by
        intro x
        have hl2 : (relabel (ls.getD (p.nd v).a 0) (ls.getD (p.nd v).ta 0) ls).length = ls.length := by
          simp [relabel]
        rw [getD_append_lt _ _ _ _ (by rw [hl2]; exact hav), getD_append_lt _ _ _ _ (by rw [hl2]; exact htv)]
        unfold relabel
        rw [getD_map_lt _ ls 0 0 _ hav, getD_map_lt _ ls 0 0 _ htv]
        simp only [if_true]
        split <;> rfl
      cases hk2 : (p.nd v).kind <;> simp [hk2, Kind.isLayer] at l <;>
        simp only [stepLabel, hk2, tieLabels, d, if_true] <;> exact key _

/-- **call sites of one layer module read tensors of one sharing component** (after 3725f20) -/
theorem labels_tie (p : Prog) (hwf : WF p) (v : Nat) (hv : v < p.length) (hd : (p.nd v).dup = true)
    (hl : (p.nd v).kind.isLayer = true) (ht : (p.nd v).ta < v) :
    p.lab (p.nd v).a = p.lab (p.nd v).ta := by
  have := labels_tie_inv p hwf p.length (le_refl _) v hv hd hl ht
  simpa [Prog.lab, labels] using this

/-! ### the call sites of one layer module share a component -/

def SiteAt (p : Prog) (ls : List Nat) (v : Nat) : Prop :=
  (p.nd v).dup = true → ((p.nd v).kind = .conv ∨ (p.nd v).kind = .linear) → (p.nd v).tf < v →
    ls.getD v 0 = ls.getD (p.nd v).tf 0

theorem site_preserved (p : Prog) (f : Nat → Nat) (ls : List Nat) (x v : Nat) (hv : v < ls.length)
    (h : SiteAt p ls v) : SiteAt p (ls.map f ++ [x]) v := by
  intro d l t
  have ht : (p.nd v).tf < ls.length := by omega
  have hlen : (ls.map f).length = ls.length := by simp
  rw [getD_append_lt _ _ _ _ (by rw [hlen]; exact hv), getD_append_lt _ _ _ _ (by rw [hlen]; exact ht),
      getD_map_lt f ls 0 0 _ hv, getD_map_lt f ls 0 0 _ ht, h d l t]

theorem labels_site_inv (p : Prog) (hwf : WF p) : ∀ (k : Nat), k ≤ p.length →
    ∀ v, v < k → SiteAt p ((p.take k).foldl stepLabel []) v := by
  intro k
  induction k with
  | zero => intro _ v hv; omega
  | succ k ih =>
    intro hk v hv
    have hk' : k < p.length := by omega
    have hlen := (labels_inv p hwf k (by omega)).1
    rw [take_succ_nd p k hk', List.foldl_append]
    simp only [List.foldl_cons, List.foldl_nil]
    generalize hls : (p.take k).foldl stepLabel [] = ls at hlen
    have ih' := ih (by omega)
    rw [hls] at ih'
    by_cases hvk : v < k
    · obtain ⟨f, x, hfx⟩ := stepLabel_shape ls (p.nd k)
      rw [hfx]
      exact site_preserved p f ls x v (by omega) (ih' v hvk)
    · have : v = k := by omega
      subst this
      intro d l t
      obtain ⟨g, hg⟩ := tieLabels_eq_map ls (p.nd v)
      have htv : (p.nd v).tf < ls.length := by rw [hlen]; exact t
      have hstep : stepLabel ls (p.nd v) = ls.map g ++ [(ls.map g).getD (p.nd v).tf 0] := by
        rcases l with l | l <;> simp [stepLabel, l, siteLabel, d, hg]
      rw [hstep]
      have hl2 : (ls.map g).length = v := by simp [hlen]
      have hnew := getD_append_len (ls.map g) ((ls.map g).getD (p.nd v).tf 0) 0
      rw [hl2] at hnew
      rw [hnew, getD_append_lt _ _ _ _ (by rw [hl2]; exact t)]

/-- **the call sites of one layer module sit in one sharing component** (one output and one weight
quantizer object for the module, whatever is summed with either call site included) -/
theorem labels_site (p : Prog) (hwf : WF p) (v : Nat) (hv : v < p.length) (hd : (p.nd v).dup = true)
    (hl : (p.nd v).kind = .conv ∨ (p.nd v).kind = .linear) (ht : (p.nd v).tf < v) :
    p.lab v = p.lab (p.nd v).tf := by
  have := labels_site_inv p hwf p.length (le_refl _) v hv hd hl ht
  simpa [Prog.lab, labels] using this

/-- a tensor was last quantized either by the activation quantizer of its own sharing component or
by a network-input quantizer -/
theorem tags_cases (p : Prog) (hwf : WF p) :
    ∀ (j : Nat), j < p.length →
      (tags p).getD j .dflt = .act (p.lab j) ∨ ∃ x, (tags p).getD j .dflt = .inp x := by
  intro j
  induction j using Nat.strong_induction_on with
  | _ j ih =>
    intro hj
    have hlen : ((tags p).take j).length = j := by
      rw [List.length_take, tags_length]; omega
    rw [tags_getD p j hj]
    unfold nodeTag
    rw [hlen]
    cases hk : (p.nd j).kind <;> simp only
    case input => exact Or.inr ⟨j, rfl⟩
    case conv => exact Or.inl trivial
    case dw => exact Or.inl trivial
    case linear => exact Or.inl trivial
    case add => exact Or.inl trivial
    all_goals
      have hne : (p.nd j).kind ≠ .input := by rw [hk]; decide
      have ha := (hwf j hj hne).1
      rw [getD_take_lt _ _ _ _ ha]
      have hlab : p.lab j = p.lab (p.nd j).a :=
        (labels_sound p hwf j hj).1 (by rw [hk]; rfl)
      rw [hlab]
      exact ih _ ha (by omega)

/-! ## cost (C05) -/

theorem foldl_add_init (xs : List Rat) (a : Rat) : xs.foldl (· + ·) a = a + xs.foldl (· + ·) 0 := by
  induction xs generalizing a with
  | nil => simp
  | cons x xs ih => simp only [List.foldl_cons]; rw [ih (a + x), ih (0 + x)]; ring

theorem ratSum_nil : ratSum [] = 0 := rfl

theorem ratSum_cons (x : Rat) (xs : List Rat) : ratSum (x :: xs) = x + ratSum xs := by
  unfold ratSum
  simp only [List.foldl_cons]
  rw [foldl_add_init]; ring

theorem ratSum_map_add {α : Type} (f g : α → Rat) (l : List α) :
    ratSum (l.map fun x => f x + g x) = ratSum (l.map f) + ratSum (l.map g) := by
  induction l with
  | nil => simp [ratSum_nil]
  | cons x xs ih => simp only [List.map_cons, ratSum_cons, ih]; ring

theorem ratSum_map_mul_left {α : Type} (a : Rat) (f : α → Rat) (l : List α) :
    ratSum (l.map fun x => a * f x) = a * ratSum (l.map f) := by
  induction l with
  | nil => simp [ratSum_nil]
  | cons x xs ih => simp only [List.map_cons, ratSum_cons, ih]; ring

theorem ratSum_map_zero {α : Type} (l : List α) : ratSum (l.map fun _ => (0 : Rat)) = 0 := by
  induction l with
  | nil => rfl
  | cons x xs ih => simp only [List.map_cons, ratSum_cons, ih]; ring

/-- a sum weighted by one-hot coefficients picks the selected term (the term may depend on its own
coefficient, as `w_theta_alpha` is part of the spec) -/
theorem ratSum_zip_onehot_aux {α : Type} (F : Rat → α → Rat) (k : ℕ) (d : α) : ∀ (ps : List α) (off : ℕ),
    ratSum ((List.zip ((List.range' off ps.length).map fun i => if i = k then (1 : Rat) else 0) ps).map
        fun tp => tp.1 * F tp.1 tp.2)
      = if off ≤ k ∧ k < off + ps.length then F 1 (ps.getD (k - off) d) else 0 := by
  intro ps
  induction ps with
  | nil => intro off; simp [ratSum_nil]
  | cons y ys ih =>
    intro off
    simp only [List.length_cons, List.range'_succ, List.map_cons, List.zip_cons_cons, ratSum_cons]
    rw [ih (off + 1)]
    by_cases h : off = k
    · subst h; simp
    · by_cases h2 : off + 1 ≤ k ∧ k < off + 1 + ys.length
      · have h3 : off ≤ k ∧ k < off + (ys.length + 1) := by omega
        simp only [h, if_false, zero_mul, zero_add, h2, and_self, if_true, h3]
        have : k - off = (k - (off + 1)) + 1 := by omega
        rw [this]; simp [List.getD]
      · have h3 : ¬ (off ≤ k ∧ k < off + (ys.length + 1)) := by omega
        simp [h, h2, h3]

theorem ratSum_zip_onehot {α : Type} (F : Rat → α → Rat) (k : ℕ) (d : α) (ps : List α) (hk : k < ps.length) :
    ratSum ((List.zip (onehot (R := Rat) ps.length k) ps).map fun tp => tp.1 * F tp.1 tp.2)
      = F 1 (ps.getD k d) := by
  have := ratSum_zip_onehot_aux F k d ps 0
  simp only [List.range_eq_range', onehot] at *
  rw [this]; simp [hk]

/-- **hard mode, one layer**: with one-hot input and weight coefficients the reduced cost matrix is
the cost function on the selected pair of precisions (shown with `w_theta_alpha = 1`) -/
theorem layerCost_onehot (f : Spec → Rat) (base : Spec) (pin pw : List Int) (ki kw : ℕ)
    (hki : ki < pin.length) (hkw : kw < pw.length) :
    layerCost f base (onehot pin.length ki) pin (onehot pw.length kw) pw
      = f (shownSpec base (pin.getD ki 0) (pw.getD kw 0) 1) := by
  unfold layerCost reduceSum costMatrix
  simp only [List.map_map]
  have hrow : ∀ (tp : Rat × Int),
      ((fun row => ratSum row) ∘ fun (x : Rat × Int) =>
        (List.zip (onehot (R := Rat) pw.length kw) pw).map fun (y : Rat × Int) =>
          x.1 * y.1 * f (shownSpec base x.2 y.2 y.1)) tp
      = tp.1 * f (shownSpec base tp.2 (pw.getD kw 0) 1) := by
    intro tp
    simp only [Function.comp]
    have h := ratSum_zip_onehot (fun tw (pj : Int) => tp.1 * f (shownSpec base tp.2 pj tw)) kw 0 pw hkw
    have hm : (List.zip (onehot (R := Rat) pw.length kw) pw).map
          (fun (y : Rat × Int) => tp.1 * y.1 * f (shownSpec base tp.2 y.2 y.1))
        = (List.zip (onehot (R := Rat) pw.length kw) pw).map
          (fun (y : Rat × Int) => y.1 * (tp.1 * f (shownSpec base tp.2 y.2 y.1))) := by
      apply List.map_congr_left; intro y _; ring
    rw [hm, h]
  rw [List.map_congr_left (fun tp _ => hrow tp)]
  exact ratSum_zip_onehot (fun _ (pi : Int) => f (shownSpec base pi (pw.getD kw 0) 1)) ki 0 pin hki

/-- hard input coefficients, arbitrary weight coefficients (per-channel search): only the row of the
selected input precision survives -/
theorem layerCost_onehot_in (f : Spec → Rat) (base : Spec) (pin pw : List Int) (θw : List Rat) (ki : ℕ)
    (hki : ki < pin.length) :
    layerCost f base (onehot pin.length ki) pin θw pw
      = ratSum ((List.zip θw pw).map fun tp => tp.1 * f (shownSpec base (pin.getD ki 0) tp.2 tp.1)) := by
  unfold layerCost reduceSum costMatrix
  simp only [List.map_map]
  have hrow : ∀ (tp : Rat × Int),
      ((fun row => ratSum row) ∘ fun (x : Rat × Int) =>
        (List.zip θw pw).map fun (y : Rat × Int) => x.1 * y.1 * f (shownSpec base x.2 y.2 y.1)) tp
      = tp.1 * ratSum ((List.zip θw pw).map fun (y : Rat × Int) => y.1 * f (shownSpec base tp.2 y.2 y.1)) := by
    intro tp
    simp only [Function.comp]
    rw [← ratSum_map_mul_left]
    congr 1
    apply List.map_congr_left; intro y _; ring
  rw [List.map_congr_left (fun tp _ => hrow tp)]
  exact ratSum_zip_onehot
    (fun _ (pi : Int) => ratSum ((List.zip θw pw).map fun (y : Rat × Int) => y.1 * f (shownSpec base pi y.2 y.1)))
    ki 0 pin hki

/-! ### per-channel search: shares of the precisions -/

/-- precision index selected for every channel (column-wise arg-max) -/
def selCols (α : List (List Rat)) : List Nat := (List.range (nCols α)).map fun c => argmax (column α c)

theorem selCols_length (α : List (List Rat)) : (selCols α).length = nCols α := by simp [selCols]

theorem sampleHardM_eq (α : List (List Rat)) :
    sampleHardM α = (List.range α.length).map fun r => (selCols α).map fun s => if s = r then (1 : Rat) else 0 := by
  simp [sampleHardM, selCols, List.map_map, Function.comp]

theorem ratSum_append (l l' : List Rat) : ratSum (l ++ l') = ratSum l + ratSum l' := by
  induction l with
  | nil => simp [ratSum_nil]
  | cons x xs ih => simp only [List.cons_append, ratSum_cons, ih]; ring

theorem ratSum_range_indicator (g : ℕ → Rat) (s n : ℕ) :
    ratSum ((List.range n).map fun r => (if s = r then (1 : Rat) else 0) * g r) = if s < n then g s else 0 := by
  induction n with
  | zero => simp [ratSum_nil]
  | succ n ih =>
    rw [List.range_succ, List.map_append, ratSum_append, ih]
    simp only [List.map_cons, List.map_nil, ratSum_cons, ratSum_nil]
    by_cases h1 : s < n
    · have : s ≠ n := by omega
      have h2 : s < n + 1 := by omega
      simp [h1, this, h2]
    · by_cases h2 : s = n
      · subst h2; simp
      · have h3 : ¬ s < n + 1 := by omega
        simp [h1, h2, h3]

/-- regrouping channels by selected precision: `Σ_r #{c | sel c = r} · g r = Σ_c g (sel c)` -/
theorem ratSum_counts (g : ℕ → Rat) (nr : ℕ) : ∀ (sels : List ℕ), (∀ s ∈ sels, s < nr) →
    ratSum ((List.range nr).map fun r => ratSum (sels.map fun s => if s = r then (1 : Rat) else 0) * g r)
      = ratSum (sels.map g) := by
  intro sels
  induction sels with
  | nil =>
    intro _
    simp only [List.map_nil, ratSum_nil, zero_mul]
    exact ratSum_map_zero _
  | cons s rest ih =>
    intro hs
    have hs0 : s < nr := hs s (by simp)
    have hrest : ∀ s' ∈ rest, s' < nr := fun s' h' => hs s' (by simp [h'])
    have : ∀ r, ratSum ((s :: rest).map fun s => if s = r then (1 : Rat) else 0) * g r
        = (if s = r then (1 : Rat) else 0) * g r
          + ratSum (rest.map fun s => if s = r then (1 : Rat) else 0) * g r := by
      intro r; simp only [List.map_cons, ratSum_cons]; ring
    simp only [this]
    rw [ratSum_map_add, ratSum_range_indicator, ih hrest]
    simp [hs0, ratSum_cons]

theorem ratSum_indicator_count (sels : List ℕ) (r : ℕ) :
    ratSum (sels.map fun s => if s = r then (1 : Rat) else 0) = ((sels.filter (· = r)).length : Rat) := by
  induction sels with
  | nil => simp [ratSum_nil]
  | cons s rest ih =>
    simp only [List.map_cons, ratSum_cons, ih, List.filter_cons]
    by_cases h : s = r
    · simp [h]; ring
    · simp [h]

theorem zip_map_range'_aux {β : Type} (h : ℕ → β) (d : Int) : ∀ (pw : List Int) (off : ℕ),
    List.zip ((List.range' off pw.length).map h) pw
      = (List.range' off pw.length).map fun r => (h r, pw.getD (r - off) d) := by
  intro pw
  induction pw with
  | nil => intro off; simp
  | cons p ps ih =>
    intro off
    simp only [List.length_cons, List.range'_succ, List.map_cons, List.zip_cons_cons, Nat.sub_self,
      List.getD_cons_zero]
    rw [ih (off + 1)]
    congr 1
    apply List.map_congr_left
    intro r hr
    have hr' : off + 1 ≤ r := by
      have := List.mem_range'.mp hr
      obtain ⟨i, _, rfl⟩ := this; omega
    have : r - off = (r - (off + 1)) + 1 := by omega
    rw [this]; simp [List.getD]

theorem zip_map_range {β : Type} (h : ℕ → β) (pw : List Int) :
    List.zip ((List.range pw.length).map h) pw = (List.range pw.length).map fun r => (h r, pw.getD r 0) := by
  have := zip_map_range'_aux h 0 pw 0
  simpa [List.range_eq_range'] using this

theorem argmax_column_lt (α : List (List Rat)) (hα : α ≠ []) (c : ℕ) : argmax (column α c) < α.length := by
  have h := argmax_lt (column α c) (by simp [column, hα])
  simpa [column] using h

/-- **per-channel shares**: with one-hot columns the share of precision `r` is `n_r / C`; weighting a
per-layer cost `A · g(p_r)` by the shares gives `(A / C) · Σ_channels g(p_sel(c))` -/
theorem perChannel_sum (α : List (List Rat)) (pw : List Int) (hlen : pw.length = α.length) (hα : α ≠ [])
    (hC : 0 < nCols α) (A : Rat) (g : Int → Rat) :
    ratSum ((List.zip (rowMean (sampleHardM α)) pw).map fun tp => tp.1 * (A * g tp.2))
      = A / (nCols α : Rat) * ratSum ((selCols α).map fun s => g (pw.getD s 0)) := by
  have hC' : ((nCols α : ℕ) : Rat) ≠ 0 := by exact_mod_cast (Nat.pos_iff_ne_zero.mp hC)
  rw [sampleHardM_eq]
  unfold rowMean
  simp only [List.map_map]
  rw [← hlen, zip_map_range]
  simp only [List.map_map, Function.comp, List.length_map, selCols_length]
  have hterm : ∀ r,
      ratSum ((selCols α).map fun s => if s = r then (1 : Rat) else 0) / (nCols α : Rat) * (A * g (pw.getD r 0))
      = A / (nCols α : Rat) * (ratSum ((selCols α).map fun s => if s = r then (1 : Rat) else 0) * g (pw.getD r 0)) := by
    intro r; field_simp
  simp only [Function.comp_def, hterm]
  rw [ratSum_map_mul_left]
  congr 1
  rw [hlen]
  exact ratSum_counts (fun r => g (pw.getD r 0)) α.length (selCols α)
    (by intro s hs
        simp only [selCols, List.mem_map, List.mem_range] at hs
        obtain ⟨c, _, rfl⟩ := hs
        exact argmax_column_lt α hα c)

/-! ### the bit-cost functions on the spec a layer shows -/

/-- kind and layer type of a searchable layer fit together -/
def LayerOK (nd : Node) : Prop :=
  nd.kind.isLayer = true ∧ (nd.kind = .linear ↔ nd.lt = .linear)

theorem paramsBit_shown (nd : Node) (h : LayerOK nd) (e o a b c : Rat) :
    paramsBit nd (shownSpec (modifiedVars modKeys nd e o) a b c) = o * (weightsPerChannel nd e * b) := by
  obtain ⟨hl, hlin⟩ := h
  cases hk : nd.kind <;> cases hlt : nd.lt <;> simp [hk, hlt, Kind.isLayer] at hl hlin <;>
    (simp [paramsBit, weightsPerChannel, Node.isDW, shownSpec, modifiedVars, modKeys, staticVars,
      torchKeys, Spec.val, Spec.get?, Spec.set, List.lookup, hk, hlt, -mul_eq_mul_right_iff,
      -mul_eq_mul_left_iff]; try ring)

theorem opsBit_shown (nd : Node) (h : LayerOK nd) (e o a b c : Rat) :
    opsBit nd (shownSpec (modifiedVars modKeys nd e o) a b c)
      = o * (weightsPerChannel nd e * positions nd * b * a) := by
  obtain ⟨hl, hlin⟩ := h
  cases hk : nd.kind <;> cases hlt : nd.lt <;> simp [hk, hlt, Kind.isLayer] at hl hlin <;>
    (simp [opsBit, weightsPerChannel, positions, Node.isDW, shownSpec, modifiedVars, modKeys, staticVars,
      torchKeys, Spec.val, Spec.get?, Spec.set, List.lookup, hk, hlt, -mul_eq_mul_right_iff,
      -mul_eq_mul_left_iff]; try ring)

theorem numWeights_eq (nd : Node) : ∀ e, numWeights nd e = nd.cout * weightsPerChannel nd e := by
  intro e
  cases hk : nd.kind <;> cases hlt : nd.lt <;> simp [numWeights, weightsPerChannel, hk, hlt] <;> ring

/-- MACs per output channel as `ops` counts them (one more per position for a bias) -/
def macsPerChannel (nd : Node) (e : Rat) : Rat :=
  (weightsPerChannel nd e + (if nd.bias then 1 else 0)) * positions nd

/-- `mpic_latency` of a layer that is not depthwise: linear in its own output width -/
theorem mpic_shown_generic (nd : Node) (h : LayerOK nd) (hdw : nd.kind ≠ .dw) (e o a b c : Rat) :
    mpicLatency nd (shownSpec (modifiedVars modKeys nd e o) a b c)
      = o * (macsPerChannel nd e * mpicLut a b) := by
  obtain ⟨hl, hlin⟩ := h
  cases hk : nd.kind <;> cases hlt : nd.lt <;> simp [hk, hlt, Kind.isLayer] at hl hlin hdw <;>
    (simp [mpicLatency, macs, macsPerChannel, weightsPerChannel, positions, Node.isDW, shownSpec, modifiedVars,
      modKeys, staticVars, torchKeys, Spec.val, Spec.get?, Spec.set, List.lookup, hk, hlt,
      -mul_eq_mul_right_iff, -mul_eq_mul_left_iff]; try ring)

/-- `mpic_latency` of a depthwise layer: MACs are counted on the *input* width `e` it is shown -/
theorem mpic_shown_dw (nd : Node) (h : LayerOK nd) (hdw : nd.kind = .dw) (e o a b c : Rat) :
    mpicLatency nd (shownSpec (modifiedVars modKeys nd e o) a b c)
      = e * (macsPerChannel nd e * mpicLut a b) := by
  obtain ⟨hl, hlin⟩ := h
  cases hlt : nd.lt <;> simp [hdw, hlt, Kind.isLayer] at hl hlin <;>
    (simp [mpicLatency, macs, macsPerChannel, weightsPerChannel, positions, Node.isDW, shownSpec, modifiedVars,
      modKeys, staticVars, torchKeys, Spec.val, Spec.get?, Spec.set, List.lookup, hdw, hlt,
      -mul_eq_mul_right_iff, -mul_eq_mul_left_iff]; try ring)

/-! ### hard mode over a list of call sites -/

theorem paramsBit_on_exact (idxs : List Nat) (p : Prog) (c : Cfg) (α : QId → List Rat)
    (hl : ∀ i ∈ idxs, LayerOK (p.nd i))
    (hn : ∀ q, (α q).length = (precOf p c q).length ∧ α q ≠ []) :
    netCostOn idxs paramsBit p c (hardSampled α)
      = ratSum (idxs.map fun i =>
          numWeights (p.nd i) (effIn p (outEffOf p c (hardSampled α)) i)
            * ((planOf p c α (.layer i)).wS.getD default).bits) := by
  unfold netCostOn
  congr 1
  apply List.map_congr_left
  intro i hi
  have hq := hn (inQ p (.layer i))
  have hw := hn (wQ p i)
  have hki : argmax (α (inQ p (.layer i))) < (precOf p c (inQ p (.layer i))).length := by
    rw [← hq.1]; exact argmax_lt _ hq.2
  have hkw : argmax (α (wQ p i)) < (precOf p c (wQ p i)).length := by
    rw [← hw.1]; exact argmax_lt _ hw.2
  have := layerCost_onehot (paramsBit (p.nd i))
    (modifiedVars modKeys (p.nd i) (effIn p (outEffOf p c (hardSampled α)) i) (p.nd i).cout)
    (precOf p c (inQ p (.layer i))) (precOf p c (wQ p i)) _ _ hki hkw
  rw [paramsBit_shown (p.nd i) (hl i hi), ← mul_assoc, ← numWeights_eq] at this
  simp only [layerCostOf, baseSpec, hardSampled, wShares, sampleHard, hq.1, hw.1, planOf, selOf,
    Option.getD_some] at this ⊢
  exact this

theorem opsBit_on_exact (idxs : List Nat) (p : Prog) (c : Cfg) (α : QId → List Rat)
    (hl : ∀ i ∈ idxs, LayerOK (p.nd i))
    (hn : ∀ q, (α q).length = (precOf p c q).length ∧ α q ≠ []) :
    netCostOn idxs opsBit p c (hardSampled α)
      = ratSum (idxs.map fun i =>
          numWeights (p.nd i) (effIn p (outEffOf p c (hardSampled α)) i) * positions (p.nd i)
            * ((planOf p c α (.layer i)).wS.getD default).bits
            * (planOf p c α (.layer i)).inS.bits) := by
  unfold netCostOn
  congr 1
  apply List.map_congr_left
  intro i hi
  have hq := hn (inQ p (.layer i))
  have hw := hn (wQ p i)
  have hki : argmax (α (inQ p (.layer i))) < (precOf p c (inQ p (.layer i))).length := by
    rw [← hq.1]; exact argmax_lt _ hq.2
  have hkw : argmax (α (wQ p i)) < (precOf p c (wQ p i)).length := by
    rw [← hw.1]; exact argmax_lt _ hw.2
  have := layerCost_onehot (opsBit (p.nd i))
    (modifiedVars modKeys (p.nd i) (effIn p (outEffOf p c (hardSampled α)) i) (p.nd i).cout)
    (precOf p c (inQ p (.layer i))) (precOf p c (wQ p i)) _ _ hki hkw
  rw [opsBit_shown (p.nd i) (hl i hi)] at this
  have h2 := this.trans (show _ = numWeights (p.nd i) (effIn p (outEffOf p c (hardSampled α)) i)
      * positions (p.nd i) * ((precOf p c (wQ p i)).getD (argmax (α (wQ p i))) 0 : Rat)
      * ((precOf p c (inQ p (.layer i))).getD (argmax (α (inQ p (.layer i)))) 0 : Rat) by
    rw [numWeights_eq]; ring)
  simp only [layerCostOf, baseSpec, hardSampled, wShares, sampleHard, hq.1, hw.1, planOf, selOf,
    Option.getD_some] at h2 ⊢
  exact h2

/-! ### effective input features through the calculators -/

def Ref.idx : Ref → Nat
  | .src j | .inq j | .addq j => j

theorem effIn_eq (p : Prog) (oe : Nat → Rat) (i : Nat) :
    effIn p oe i = (feats p oe).getD ((setBy p).getD i (.src 0)).idx 0 := by
  unfold effIn
  cases (setBy p).getD i (.src 0) <;> rfl

theorem setBy_length (p : Prog) : (setBy p).length = p.length := scan_length _ _
theorem feats_length (p : Prog) (oe : Nat → Rat) : (feats p oe).length = p.length := scan_length _ _

theorem setBy_getD (p : Prog) (j : Nat) (h : j < p.length) :
    (setBy p).getD j (.src 0) = nodeSetBy p ((setBy p).take j) (p.nd j) := by
  unfold setBy Prog.nd
  exact scan_getD (nodeSetBy p) p j h (.src 0) {}

theorem feats_getD (p : Prog) (oe : Nat → Rat) (j : Nat) (h : j < p.length) :
    (feats p oe).getD j 0 = nodeFeat (setBy p) oe ((feats p oe).take j) (p.nd j) := by
  unfold feats Prog.nd
  exact scan_getD (nodeFeat (setBy p) oe) p j h 0 {}

/-- `input_features_set_by` of a consumer of tensor node `y` -/
def setByOf (p : Prog) (y : Nat) : Ref :=
  match (p.nd y).kind with
  | .input => .inq y
  | .conv | .linear | .flatten => .src y
  | _ => (setBy p).getD y (.src 0)

theorem setBy_consumer (p : Prog) (hwf : WF p) (i : Nat) (hi : i < p.length) (hne : (p.nd i).kind ≠ .input) :
    (setBy p).getD i (.src 0) = setByOf p (p.nd i).a := by
  have ha := (hwf i hi hne).1
  rw [setBy_getD p i hi]
  unfold nodeSetBy setByOf
  cases hk : (p.nd i).kind
  case input => exact absurd hk hne
  all_goals
    simp only
    cases (p.nd (p.nd i).a).kind <;> simp only [getD_take_lt _ _ _ _ ha]

/-- the consumer reads layer `j` through element-wise ops and flattens only; `m` = product of the
flatten multipliers on the way -/
inductive Reaches (p : Prog) : Nat → Nat → Rat → Prop
  | here (j : Nat) (h : (p.nd j).kind = .conv ∨ (p.nd j).kind = .linear) : Reaches p j j 1
  | pass (a j : Nat) (m : Rat) (h : (p.nd a).kind = .pass ∨ (p.nd a).kind = .output)
      (r : Reaches p (p.nd a).a j m) : Reaches p a j m
  | flat (a j : Nat) (m : Rat) (h : (p.nd a).kind = .flatten)
      (r : Reaches p (p.nd a).a j m) : Reaches p a j ((p.nd a).mult * m)

theorem feats_of_reaches (p : Prog) (hwf : WF p) (oe : Nat → Rat) (a j : Nat) (m : Rat)
    (r : Reaches p a j m) (ha : a < p.length) :
    (feats p oe).getD a 0 = m * oe j ∧ (feats p oe).getD (setByOf p a).idx 0 = m * oe j := by
  induction r with
  | here j h =>
    have hlen : ((feats p oe).take j).length = j := by
      rw [List.length_take, feats_length]; omega
    have hF : (feats p oe).getD j 0 = 1 * oe j := by
      rw [feats_getD p oe j ha]
      unfold nodeFeat
      rcases h with h | h <;> simp [h, hlen]
    refine ⟨hF, ?_⟩
    unfold setByOf
    rcases h with h | h <;> simp only [h, Ref.idx] <;> exact hF
  | pass a j m h r ih =>
    have hne : (p.nd a).kind ≠ .input := by rcases h with h | h <;> rw [h] <;> decide
    have haa := (hwf a ha hne).1
    obtain ⟨ihF, ihG⟩ := ih (by omega)
    have hF : (feats p oe).getD a 0 = m * oe j := by
      rw [feats_getD p oe a ha]
      unfold nodeFeat
      rcases h with h | h <;> simp only [h] <;> rw [getD_take_lt _ _ _ _ haa] <;> exact ihF
    refine ⟨hF, ?_⟩
    have : setByOf p a = setByOf p (p.nd a).a := by
      have h1 := setBy_consumer p hwf a ha hne
      unfold setByOf at h1 ⊢
      rcases h with h | h <;> simp only [h] <;> exact h1
    rw [this]; exact ihG
  | flat a j m h r ih =>
    have hne : (p.nd a).kind ≠ .input := by rw [h]; decide
    have haa := (hwf a ha hne).1
    obtain ⟨ihF, _⟩ := ih (by omega)
    have hF : (feats p oe).getD a 0 = (p.nd a).mult * m * oe j := by
      rw [feats_getD p oe a ha]
      unfold nodeFeat
      simp only [h]
      rw [getD_take_lt _ _ _ _ haa, ihF]; ring
    refine ⟨hF, ?_⟩
    unfold setByOf
    simp only [h, Ref.idx]
    exact hF

/-- **the calculators deliver the producer's alive width**: a layer that reads layer `j` through
element-wise ops and flattens is shown `m · out_features_eff(j)` input features -/
theorem effIn_of_reaches (p : Prog) (hwf : WF p) (oe : Nat → Rat) (i j : Nat) (m : Rat) (hi : i < p.length)
    (hne : (p.nd i).kind ≠ .input) (r : Reaches p (p.nd i).a j m) :
    effIn p oe i = m * oe j := by
  have ha := (hwf i hi hne).1
  rw [effIn_eq, setBy_consumer p hwf i hi hne]
  exact (feats_of_reaches p hwf oe _ j m r (by omega)).2

/-! ### per-layer search: nothing is pruned, the calculators deliver the static widths -/

/-- static width of the tensor a consumer of the node reads -/
def nodeWidth (ws : List Nat) (nd : Node) : Nat :=
  match nd.kind with
  | .input => nd.cin
  | .conv | .dw | .linear => nd.cout
  | .flatten => nd.mult * ws.getD nd.a 0
  | _ => ws.getD nd.a 0

def widths (p : Prog) : List Nat := scan nodeWidth p

/-- shape consistency of the layers: `in_channels / in_features` is the width of the tensor consumed;
a depthwise layer keeps the width -/
def Typed (p : Prog) : Prop :=
  ∀ i, i < p.length →
    ((p.nd i).kind.isLayer = true → (p.nd i).cin = (widths p).getD (p.nd i).a 0) ∧
    ((p.nd i).kind = .dw → (p.nd i).cout = (p.nd i).cin)

theorem widths_length (p : Prog) : (widths p).length = p.length := scan_length _ _

theorem widths_getD (p : Prog) (j : Nat) (h : j < p.length) :
    (widths p).getD j 0 = nodeWidth ((widths p).take j) (p.nd j) := by
  unfold widths Prog.nd
  exact scan_getD nodeWidth p j h 0 {}

theorem setByOf_idx_le (p : Prog) (hwf : WF p) : ∀ (y : Nat), y < p.length → (setByOf p y).idx ≤ y := by
  intro y
  induction y using Nat.strong_induction_on with
  | _ y ih =>
    intro hy
    unfold setByOf
    cases hk : (p.nd y).kind <;> simp only [Ref.idx, le_refl]
    all_goals
      have hne : (p.nd y).kind ≠ .input := by rw [hk]; decide
      have ha := (hwf y hy hne).1
      rw [setBy_consumer p hwf y hy hne]
      exact le_trans (ih _ ha (by omega)) (le_of_lt ha)

theorem feats_static (p : Prog) (hwf : WF p) (ht : Typed p) :
    ∀ (y : Nat), y < p.length →
      (feats p (fun j => ((p.nd j).cout : Rat))).getD y 0 = ((widths p).getD y 0 : Rat) ∧
      (feats p (fun j => ((p.nd j).cout : Rat))).getD (setByOf p y).idx 0 = ((widths p).getD y 0 : Rat) := by
  intro y
  induction y using Nat.strong_induction_on with
  | _ y ih =>
    intro hy
    have hlenF : ((feats p (fun j => ((p.nd j).cout : Rat))).take y).length = y := by
      rw [List.length_take, feats_length]; omega
    have hlenW : ((widths p).take y).length = y := by
      rw [List.length_take, widths_length]; omega
    -- facts about the first input of a node that has one
    have harg : (p.nd y).kind ≠ .input → (p.nd y).a < y ∧
        (feats p (fun j => ((p.nd j).cout : Rat))).getD (p.nd y).a 0 = ((widths p).getD (p.nd y).a 0 : Rat) ∧
        (feats p (fun j => ((p.nd j).cout : Rat))).getD (setByOf p (p.nd y).a).idx 0
          = ((widths p).getD (p.nd y).a 0 : Rat) ∧
        (setBy p).getD y (.src 0) = setByOf p (p.nd y).a := by
      intro hne
      have ha := (hwf y hy hne).1
      obtain ⟨h1, h2⟩ := ih _ ha (by omega)
      exact ⟨ha, h1, h2, setBy_consumer p hwf y hy hne⟩
    cases hk : (p.nd y).kind
    case input =>
      have hF : (feats p (fun j => ((p.nd j).cout : Rat))).getD y 0 = ((widths p).getD y 0 : Rat) := by
        rw [feats_getD p _ y hy, widths_getD p y hy]; simp [nodeFeat, nodeWidth, hk]
      refine ⟨hF, ?_⟩
      simp only [setByOf, hk, Ref.idx]; exact hF
    case conv =>
      have hF : (feats p (fun j => ((p.nd j).cout : Rat))).getD y 0 = ((widths p).getD y 0 : Rat) := by
        rw [feats_getD p _ y hy, widths_getD p y hy]; simp [nodeFeat, nodeWidth, hk, hlenF]
      refine ⟨hF, ?_⟩
      simp only [setByOf, hk, Ref.idx]; exact hF
    case linear =>
      have hF : (feats p (fun j => ((p.nd j).cout : Rat))).getD y 0 = ((widths p).getD y 0 : Rat) := by
        rw [feats_getD p _ y hy, widths_getD p y hy]; simp [nodeFeat, nodeWidth, hk, hlenF]
      refine ⟨hF, ?_⟩
      simp only [setByOf, hk, Ref.idx]; exact hF
    case dw =>
      obtain ⟨ha, _, hG, hsb⟩ := harg (by rw [hk]; decide)
      have hW : (widths p).getD y 0 = (p.nd y).cout := by
        rw [widths_getD p y hy]; simp [nodeWidth, hk]
      have hF : (feats p (fun j => ((p.nd j).cout : Rat))).getD y 0 = ((widths p).getD y 0 : Rat) := by
        rw [feats_getD p _ y hy, hW]; simp [nodeFeat, hk, hlenF]
      refine ⟨hF, ?_⟩
      have hs : setByOf p y = setByOf p (p.nd y).a := by
        rw [← hsb]; simp only [setByOf, hk]
      obtain ⟨t1, t2⟩ := ht y hy
      rw [hs, hG, hW, t2 hk, t1 (by rw [hk]; rfl)]
    case flatten =>
      obtain ⟨ha, hFa, _, _⟩ := harg (by rw [hk]; decide)
      have hF : (feats p (fun j => ((p.nd j).cout : Rat))).getD y 0 = ((widths p).getD y 0 : Rat) := by
        rw [feats_getD p _ y hy, widths_getD p y hy]
        simp only [nodeFeat, nodeWidth, hk]
        rw [getD_take_lt _ _ _ _ ha, getD_take_lt _ _ _ _ ha, hFa]; push_cast; ring
      refine ⟨hF, ?_⟩
      simp only [setByOf, hk, Ref.idx]; exact hF
    case add =>
      obtain ⟨ha, _, hG, hsb⟩ := harg (by rw [hk]; decide)
      have hW : (widths p).getD y 0 = (widths p).getD (p.nd y).a 0 := by
        rw [widths_getD p y hy]; simp only [nodeWidth, hk]; rw [getD_take_lt _ _ _ _ ha]
      have hidx : (setByOf p (p.nd y).a).idx < y :=
        lt_of_le_of_lt (setByOf_idx_le p hwf _ (by omega)) ha
      have hF : (feats p (fun j => ((p.nd j).cout : Rat))).getD y 0 = ((widths p).getD y 0 : Rat) := by
        rw [feats_getD p _ y hy, hW, ← hG]
        simp only [nodeFeat, hk, hlenF]
        rw [hsb]
        cases hr : setByOf p (p.nd y).a <;> simp only [hr, Ref.idx] at hidx ⊢ <;>
          rw [getD_take_lt _ _ _ _ hidx]
      refine ⟨hF, ?_⟩
      have hs : setByOf p y = setByOf p (p.nd y).a := by
        rw [← hsb]; simp only [setByOf, hk]
      rw [hs, hG, hW]
    case pass =>
      obtain ⟨ha, hFa, hG, hsb⟩ := harg (by rw [hk]; decide)
      have hW : (widths p).getD y 0 = (widths p).getD (p.nd y).a 0 := by
        rw [widths_getD p y hy]; simp only [nodeWidth, hk]; rw [getD_take_lt _ _ _ _ ha]
      have hF : (feats p (fun j => ((p.nd j).cout : Rat))).getD y 0 = ((widths p).getD y 0 : Rat) := by
        rw [feats_getD p _ y hy, hW, ← hFa]
        simp only [nodeFeat, hk]; rw [getD_take_lt _ _ _ _ ha]
      refine ⟨hF, ?_⟩
      have hs : setByOf p y = setByOf p (p.nd y).a := by
        rw [← hsb]; simp only [setByOf, hk]
      rw [hs, hG, hW]
    case output =>
      obtain ⟨ha, hFa, hG, hsb⟩ := harg (by rw [hk]; decide)
      have hW : (widths p).getD y 0 = (widths p).getD (p.nd y).a 0 := by
        rw [widths_getD p y hy]; simp only [nodeWidth, hk]; rw [getD_take_lt _ _ _ _ ha]
      have hF : (feats p (fun j => ((p.nd j).cout : Rat))).getD y 0 = ((widths p).getD y 0 : Rat) := by
        rw [feats_getD p _ y hy, hW, ← hFa]
        simp only [nodeFeat, hk]; rw [getD_take_lt _ _ _ _ ha]
      refine ⟨hF, ?_⟩
      have hs : setByOf p y = setByOf p (p.nd y).a := by
        rw [← hsb]; simp only [setByOf, hk]
      rw [hs, hG, hW]

/-- per-layer search: a layer is shown its static `in_channels / in_features` -/
theorem effIn_static (p : Prog) (hwf : WF p) (ht : Typed p) (i : Nat) (hi : i < p.length)
    (hl : (p.nd i).kind.isLayer = true) :
    effIn p (fun j => ((p.nd j).cout : Rat)) i = ((p.nd i).cin : Rat) := by
  have hne : (p.nd i).kind ≠ .input := by
    intro h; rw [h] at hl; simp [Kind.isLayer] at hl
  have ha := (hwf i hi hne).1
  rw [effIn_eq, setBy_consumer p hwf i hi hne, (feats_static p hwf ht _ (by omega)).2, (ht i hi).1 hl]

end PlinioVerif.MPS
