import PlinioVerif.Lemmas.CostNum
import PlinioVerif.Model.RegSpecs
import PlinioVerif.Gen.Reg
import PlinioVerif.Model.RegInstance
import Mathlib.Algebra.BigOperators.Group.List.Basic
import Mathlib.Algebra.Order.BigOperators.Group.List
/-!
# Lemmas about the regularizer closed forms (C19)
-/
namespace PlinioVerif.RegSpec

theorem eff_eq_min (s e n : ℚ) : eff s e n = min (ramp s e n) s := by
  unfold eff; rw [min_def]
theorem excess_eq_max (c t : ℚ) : excess c t = max 0 (c - t) := by
  unfold excess; rw [max_def]

theorem excess_nonneg (c t : ℚ) : 0 ≤ excess c t := by rw [excess_eq_max]; exact le_max_left _ _
theorem excess_eq_zero_iff (c t : ℚ) : excess c t = 0 ↔ c ≤ t := by
  rw [excess_eq_max]
  constructor
  · intro h
    have := le_max_right 0 (c - t)
    rw [h] at this; linarith
  · intro h; exact max_eq_left (by linarith)
theorem excess_pos_iff (c t : ℚ) : 0 < excess c t ↔ t < c := by
  rw [lt_iff_le_and_ne, ne_comm, Ne, excess_eq_zero_iff]
  simp [excess_nonneg]
theorem excess_mono {c c' : ℚ} (t : ℚ) (h : c ≤ c') : excess c t ≤ excess c' t := by
  rw [excess_eq_max, excess_eq_max]; exact max_le_max le_rfl (by linarith)
theorem excess_strict_mono {c c' : ℚ} (t : ℚ) (h : c < c') (ht : t < c') : excess c t < excess c' t := by
  rw [excess_eq_max, excess_eq_max, max_eq_right (by linarith : 0 ≤ c' - t)]
  exact max_lt (by linarith) (by linarith)

theorem ramp_mono {s n e e' : ℚ} (hs : 0 ≤ s) (hn : 0 < n) (h : e ≤ e') : ramp s e n ≤ ramp s e' n := by
  unfold ramp
  have : (0 : ℚ) < n / 2 := by positivity
  gcongr

theorem eff_le (s e n : ℚ) : eff s e n ≤ s := by rw [eff_eq_min]; exact min_le_right _ _
theorem eff_start {s : ℚ} (hs : 0 ≤ s) (n : ℚ) : eff s 0 n = s / 100 := by
  rw [eff_eq_min]; unfold ramp
  rw [zero_mul, zero_div, add_zero]
  exact min_eq_left (by linarith)
theorem eff_mono {s n e e' : ℚ} (hs : 0 ≤ s) (hn : 0 < n) (h : e ≤ e') : eff s e n ≤ eff s e' n := by
  rw [eff_eq_min, eff_eq_min]; exact min_le_min (ramp_mono hs hn h) le_rfl
theorem eff_half {s n e : ℚ} (hs : 0 ≤ s) (hn : 0 < n) (h : n ≤ 2 * e) : eff s e n = s := by
  rw [eff_eq_min]
  apply min_eq_right
  unfold ramp
  have : (1 : ℚ) ≤ e / (n / 2) := by
    rw [le_div_iff₀ (by positivity)]; linarith
  calc s = s / 100 + 1 * (s * 99 / 100) := by ring
    _ ≤ s / 100 + (e / (n / 2)) * (s * 99 / 100) := by gcongr
    _ = s / 100 + e * (s * 99 / 100) / (n / 2) := by ring
theorem eff_ge_start {s n e : ℚ} (hs : 0 ≤ s) (hn : 0 < n) (he : 0 ≤ e) : s / 100 ≤ eff s e n := by
  rw [← eff_start hs n]; exact eff_mono hs hn he
theorem eff_pos {s n e : ℚ} (hs : 0 < s) (hn : 0 < n) (he : 0 ≤ e) : 0 < eff s e n :=
  lt_of_lt_of_le (by positivity) (eff_ge_start hs.le hn he)
theorem eff_nonneg {s n e : ℚ} (hs : 0 ≤ s) (hn : 0 < n) (he : 0 ≤ e) : 0 ≤ eff s e n :=
  le_trans (by positivity) (eff_ge_start hs hn he)
/-- before half of the schedule the strength is strictly below the final one (so "reaches it at
half the schedule" is sharp) -/
theorem eff_lt_of_lt_half {s n e : ℚ} (hs : 0 < s) (hn : 0 < n) (h : 2 * e < n) : eff s e n < s := by
  rw [eff_eq_min]
  apply lt_of_le_of_lt (min_le_left _ _)
  unfold ramp
  have h1 : e / (n / 2) < 1 := by rw [div_lt_one (by positivity)]; linarith
  have : s / 100 + e * (s * 99 / 100) / (n / 2) = s / 100 + (e / (n / 2)) * (s * 99 / 100) := by ring
  rw [this]
  have : e / (n / 2) * (s * 99 / 100) < 1 * (s * 99 / 100) := by
    apply mul_lt_mul_of_pos_right h1; positivity
  linarith

theorem foldl_add (l : List ℚ) (a : ℚ) : l.foldl (· + ·) a = a + l.sum := by
  induction l generalizing a with
  | nil => simp
  | cons x xs ih => simp only [List.foldl_cons, List.sum_cons, ih]; ring

theorem duccio_eq_sum (ms : List Metric) (e n : ℚ) : duccio ms e n = (ms.map fun m => term m e n).sum := by
  unfold duccio; rw [foldl_add, zero_add]

theorem term_nonneg {m : Metric} {e n : ℚ} (hs : 0 ≤ m.2.2) (hn : 0 < n) (he : 0 ≤ e) : 0 ≤ term m e n :=
  mul_nonneg (eff_nonneg hs hn he) (excess_nonneg _ _)

theorem duccio_nonneg {ms : List Metric} {e n : ℚ} (hs : ∀ m ∈ ms, 0 ≤ m.2.2) (hn : 0 < n) (he : 0 ≤ e) :
    0 ≤ duccio ms e n := by
  rw [duccio_eq_sum]
  apply List.sum_nonneg
  intro x hx
  obtain ⟨m, hm, rfl⟩ := List.mem_map.mp hx
  exact term_nonneg (hs m hm) hn he

theorem duccio_zero_iff {ms : List Metric} {e n : ℚ} (hs : ∀ m ∈ ms, 0 < m.2.2) (hn : 0 < n) (he : 0 ≤ e) :
    duccio ms e n = 0 ↔ ∀ m ∈ ms, m.1 ≤ m.2.1 := by
  rw [duccio_eq_sum]
  induction ms with
  | nil => simp
  | cons m ms ih =>
    have hm := hs m (List.mem_cons_self ..)
    have hrest : ∀ m' ∈ ms, 0 < m'.2.2 := fun m' h' => hs m' (List.mem_cons_of_mem _ h')
    have h1 : 0 ≤ term m e n := term_nonneg hm.le hn he
    have h2 : 0 ≤ (ms.map fun m => term m e n).sum := by
      rw [← duccio_eq_sum]; exact duccio_nonneg (fun m' h' => (hrest m' h').le) hn he
    simp only [List.map_cons, List.sum_cons, List.forall_mem_cons]
    rw [← ih hrest]
    constructor
    · intro h
      have t0 : term m e n = 0 := by linarith
      have s0 : (ms.map fun m => term m e n).sum = 0 := by linarith
      refine ⟨?_, s0⟩
      unfold term at t0
      rcases mul_eq_zero.mp t0 with h | h
      · exact absurd h (ne_of_gt (eff_pos hm hn he))
      · exact (excess_eq_zero_iff _ _).mp h
    · rintro ⟨hc, s0⟩
      have : term m e n = 0 := by unfold term; rw [(excess_eq_zero_iff _ _).mpr hc, mul_zero]
      linarith

/-- the same constraints with costs `c ≤ c'`: quadruples `(c, c', target, strength)` -/
abbrev Pair := ℚ × ℚ × ℚ × ℚ
def Pair.lo (q : Pair) : Metric := (q.1, q.2.2.1, q.2.2.2)
def Pair.hi (q : Pair) : Metric := (q.2.1, q.2.2.1, q.2.2.2)

theorem duccio_mono_excess {qs : List Pair} {e n : ℚ} (hs : ∀ q ∈ qs, 0 ≤ q.2.2.2) (hn : 0 < n) (he : 0 ≤ e)
    (h : ∀ q ∈ qs, q.1 ≤ q.2.1) : duccio (qs.map Pair.lo) e n ≤ duccio (qs.map Pair.hi) e n := by
  rw [duccio_eq_sum, duccio_eq_sum, List.map_map, List.map_map]
  apply List.sum_le_sum
  intro q hq
  show eff _ e n * excess _ _ ≤ eff _ e n * excess _ _
  exact mul_le_mul_of_nonneg_left (excess_mono _ (h q hq)) (eff_nonneg (hs q hq) hn he)

theorem duccio_strict_mono_excess {qs : List Pair} {e n : ℚ} (hs : ∀ q ∈ qs, 0 < q.2.2.2) (hn : 0 < n)
    (he : 0 ≤ e) (h : ∀ q ∈ qs, q.1 ≤ q.2.1) (hex : ∃ q ∈ qs, q.1 < q.2.1 ∧ q.2.2.1 < q.2.1) :
    duccio (qs.map Pair.lo) e n < duccio (qs.map Pair.hi) e n := by
  rw [duccio_eq_sum, duccio_eq_sum, List.map_map, List.map_map]
  apply List.sum_lt_sum
  · intro q hq
    show eff _ e n * excess _ _ ≤ eff _ e n * excess _ _
    exact mul_le_mul_of_nonneg_left (excess_mono _ (h q hq)) (eff_nonneg (hs q hq).le hn he)
  · obtain ⟨q, hq, h1, h2⟩ := hex
    refine ⟨q, hq, ?_⟩
    show eff _ e n * excess _ _ < eff _ e n * excess _ _
    exact mul_lt_mul_of_pos_left (excess_strict_mono _ h1 h2) (eff_pos (hs q hq) hn he)

theorem derived_eq_max (loss c0 t : ℚ) : derived loss c0 t = max 0 (loss / (c0 - t)) := by
  unfold derived; rw [max_def]
theorem derived_nonneg (loss c0 t : ℚ) : 0 ≤ derived loss c0 t := by
  rw [derived_eq_max]; exact le_max_left _ _
theorem derived_pos_iff {loss : ℚ} (hl : 0 < loss) (c0 t : ℚ) : 0 < derived loss c0 t ↔ t < c0 := by
  rw [derived_eq_max, lt_max_iff]
  simp only [lt_irrefl, false_or]
  rw [div_pos_iff]
  constructor
  · rintro (⟨_, h⟩ | ⟨h, _⟩)
    · linarith
    · linarith
  · intro h; exact Or.inl ⟨hl, by linarith⟩
theorem derived_of_above {loss c0 t : ℚ} (hl : 0 ≤ loss) (h : t < c0) : derived loss c0 t = loss / (c0 - t) := by
  rw [derived_eq_max]; exact max_eq_right (div_nonneg hl (by linarith))
theorem derived_of_below {loss c0 t : ℚ} (hl : 0 ≤ loss) (h : c0 ≤ t) : derived loss c0 t = 0 := by
  rw [derived_eq_max]; exact max_eq_left (div_nonpos_of_nonneg_of_nonpos hl (by linarith))

end PlinioVerif.RegSpec

namespace PlinioVerif.RegInst

theorem call_targets (i : Instance) (c : Call) : (i.call c).1.targets = i.targets := rfl
theorem call_strengths (i : Instance) (c : Call) :
    (i.call c).1.finalStrengths = some (i.strengthsFor c.costs) := rfl

/-- once the strengths are stored, every call is a function of its own arguments -/
theorem run_of_some (i : Instance) (ss : List ℚ) (h : i.finalStrengths = some ss) (cs : List Call) :
    i.run cs = cs.map (i.value ss) := by
  induction cs generalizing i with
  | nil => rfl
  | cons c cs ih =>
    have hs : i.strengthsFor c.costs = ss := by unfold Instance.strengthsFor; rw [h]
    have h' : (i.call c).1.finalStrengths = some ss := by rw [call_strengths, hs]
    simp only [Instance.run, List.map_cons]
    rw [ih (i.call c).1 h']
    have hv : (i.call c).2 = i.value ss c := by unfold Instance.call; simp only [hs]
    rw [hv]
    congr 1

end PlinioVerif.RegInst

