import PlinioVerif.Model.Train
import Mathlib.Data.List.Perm.Basic
import Mathlib.Data.List.Nodup
/-!
Helper lemmas for C11: the de-duplicating scan of `named_nas_parameters`, the parameter lists and
their invariance under every call, `requires_grad` after the `train_*` loops, and the one-step /
all-sequences invariants (frozen masks, sampler = function of the stored flags).
-/
namespace PlinioVerif.Train
open PlinioVerif.Sampling

/-! ### the `included` scan -/

theorem mem_dedup (x : Nat) : ∀ l : List Nat, x ∈ dedup l ↔ x ∈ l
  | [] => by simp [dedup]
  | y :: ys => by
    simp only [dedup, List.mem_cons, List.mem_filter, mem_dedup x ys]
    by_cases h : x = y
    · simp [h]
    · simp [h]

theorem dedup_nodup : ∀ l : List Nat, (dedup l).Nodup
  | [] => by simp [dedup]
  | y :: ys => by
    simp only [dedup, List.nodup_cons, List.mem_filter]
    exact ⟨by simp, (dedup_nodup ys).filter _⟩

/-! ### parameter lists -/

theorem isParamAt_lt {ts : List Tensor} {i : Nat} (h : isParamAt ts i = true) : i < ts.length := by
  unfold isParamAt at h
  by_contra hn
  rw [List.getElem?_eq_none (by omega)] at h
  simp at h

theorem mem_paramIds {s : State} {i : Nat} : i ∈ paramIds s ↔ isParamAt s.ts i = true := by
  unfold paramIds
  simp only [List.mem_filter, List.mem_range]
  exact ⟨fun h => h.2, fun h => ⟨isParamAt_lt h, h⟩⟩

theorem paramIds_nodup (s : State) : (paramIds s).Nodup :=
  List.nodup_range.filter _

theorem mem_nasIds {s : State} {i : Nat} :
    i ∈ nasIds s ↔ i ∈ s.layers.flatMap (·.refs) ∧ isParamAt s.ts i = true := by
  unfold nasIds
  rw [mem_dedup, List.mem_filter]

theorem nasIds_nodup (s : State) : (nasIds s).Nodup := dedup_nodup _

theorem nasIds_sub {s : State} {i : Nat} (h : i ∈ nasIds s) : i ∈ paramIds s :=
  mem_paramIds.mpr (mem_nasIds.mp h).2

theorem mem_netIds {s : State} {i : Nat} :
    i ∈ netIds s ↔ isParamAt s.ts i = true ∧ i ∉ nasIds s := by
  unfold netIds
  simp only [List.mem_filter, mem_paramIds, Bool.not_eq_true', List.contains_eq_mem,
    decide_eq_false_iff_not]

theorem netIds_nodup (s : State) : (netIds s).Nodup := (paramIds_nodup s).filter _

/-! ### `requires_grad` writes -/

theorem setRg_length (ids : List Nat) (b : Bool) (ts : List Tensor) :
    (setRg ids b ts).length = ts.length := by simp [setRg]

theorem setTrainable_length (ids : List Nat) (b : Bool) (ts : List Tensor) :
    (setTrainable ids b ts).length = ts.length := by simp [setTrainable]

theorem setRg_getElem? (ids : List Nat) (b : Bool) (ts : List Tensor) (i : Nat) :
    (setRg ids b ts)[i]? = ts[i]?.map fun t => if ids.contains i then { t with rg := b } else t := by
  simp [setRg, List.getElem?_mapIdx]

theorem setTrainable_getElem? (ids : List Nat) (b : Bool) (ts : List Tensor) (i : Nat) :
    (setTrainable ids b ts)[i]? =
      ts[i]?.map fun t => if ids.contains i && !t.frozen then { t with rg := b } else t := by
  simp [setTrainable, List.getElem?_mapIdx]

theorem isParamAt_setRg (ids : List Nat) (b : Bool) (ts : List Tensor) :
    isParamAt (setRg ids b ts) = isParamAt ts := by
  funext i
  simp only [isParamAt, setRg_getElem?]
  cases ts[i]? with
  | none => rfl
  | some t => simp only [Option.map_some]; split <;> rfl

theorem isParamAt_setTrainable (ids : List Nat) (b : Bool) (ts : List Tensor) :
    isParamAt (setTrainable ids b ts) = isParamAt ts := by
  funext i
  simp only [isParamAt, setTrainable_getElem?]
  cases ts[i]? with
  | none => rfl
  | some t => simp only [Option.map_some]; split <;> rfl

theorem rgAt_setRg (ids : List Nat) (b : Bool) (ts : List Tensor) (i : Nat) :
    rgAt (setRg ids b ts) i = if ids.contains i ∧ i < ts.length then b else rgAt ts i := by
  simp only [rgAt, setRg_getElem?]
  by_cases hi : i < ts.length
  · rw [List.getElem?_eq_getElem hi]
    by_cases hc : i ∈ ids
    · simp [hc, hi]
    · simp [hc]
  · rw [List.getElem?_eq_none (by omega)]
    simp [hi]

/-- the tensor-level invariant the classes establish: a frozen mask is a buffer that does not
require grad -/
def FrozenOK (s : State) : Prop :=
  ∀ t ∈ s.ts, t.frozen = true → t.isParam = false ∧ t.rg = false

/-- the sampler the stored flags select (`SuperNetCombiner`: chosen from `gumbel_softmax` at
construction; MPS quantizers: `disable_sampling`, then `gumbel_softmax`) -/
def chooseFor (m : Method) (o : Opts Rat) : Sampler :=
  match m with | .sn => snChoose o | _ => mpsChoose o

/-- every quantizer's bound sampler is the function of its stored flags -/
def QtzOK (s : State) : Prop := ∀ q ∈ s.qs, q.sampler = chooseFor s.method q.o

/-- all tensors were built by the classes' constructors (`mkTensor`) -/
def BuiltOK (s : State) : Prop := ∀ t ∈ s.ts, ∃ r f o, t = mkTensor r f o

theorem builtOK_frozenOK {s : State} (h : BuiltOK s) : FrozenOK s := by
  intro t ht hf
  obtain ⟨r, f, o, rfl⟩ := h t ht
  simp only [mkTensor] at hf ⊢
  subst hf
  exact ⟨rfl, rfl⟩

/-! ### what a call leaves alone -/

theorem step_isParamAt (s : State) (op : Op) : isParamAt (step s op).ts = isParamAt s.ts := by
  cases op <;> simp only [step, isParamAt_setRg, isParamAt_setTrainable]

theorem step_ts_length (s : State) (op : Op) : (step s op).ts.length = s.ts.length := by
  cases op <;> simp only [step, setRg_length, setTrainable_length]

theorem step_refs (s : State) (op : Op) :
    (step s op).layers.flatMap (·.refs) = s.layers.flatMap (·.refs) := by
  cases op <;> try rfl
  simp only [step, List.flatMap_map]
  congr 1
  funext l
  split <;> rfl

theorem step_paramIds (s : State) (op : Op) : paramIds (step s op) = paramIds s := by
  unfold paramIds
  rw [step_isParamAt, step_ts_length]

theorem step_nasIds (s : State) (op : Op) : nasIds (step s op) = nasIds s := by
  unfold nasIds
  rw [step_isParamAt, step_refs]

theorem step_netIds (s : State) (op : Op) : netIds (step s op) = netIds s := by
  unfold netIds
  rw [step_paramIds, step_nasIds]

theorem run_lists (ops : List Op) : ∀ s : State,
    paramIds (run s ops) = paramIds s ∧ nasIds (run s ops) = nasIds s ∧
      netIds (run s ops) = netIds s := by
  induction ops with
  | nil => intro s; exact ⟨rfl, rfl, rfl⟩
  | cons op ops ih =>
    intro s
    obtain ⟨h1, h2, h3⟩ := ih (step s op)
    exact ⟨h1.trans (step_paramIds s op), h2.trans (step_nasIds s op), h3.trans (step_netIds s op)⟩

theorem step_method (s : State) (op : Op) : (step s op).method = s.method := by
  cases op <;> rfl

/-! ### frozen masks -/

theorem setRg_frozen (ids : List Nat) (b : Bool) (ts : List Tensor)
    (hids : ∀ i ∈ ids, isParamAt ts i = true)
    (h : ∀ t ∈ ts, t.frozen = true → t.isParam = false ∧ t.rg = false) :
    ∀ t ∈ setRg ids b ts, t.frozen = true → t.isParam = false ∧ t.rg = false := by
  intro t ht hf
  obtain ⟨i, hi⟩ := List.getElem?_of_mem ht
  rw [setRg_getElem?] at hi
  cases h0 : ts[i]? with
  | none => simp [h0] at hi
  | some t0 =>
    simp only [h0, Option.map_some, Option.some.injEq] at hi
    have hm : t0 ∈ ts := List.mem_of_getElem? h0
    by_cases hc : ids.contains i = true
    · simp only [hc, if_true] at hi
      subst hi
      have hp := hids i (by simpa using hc)
      simp only [isParamAt, h0, Option.map_some, Option.getD_some] at hp
      have := (h t0 hm hf).1
      rw [hp] at this
      cases this
    · simp only [hc] at hi
      subst hi
      exact h _ hm hf

theorem setTrainable_frozen (ids : List Nat) (b : Bool) (ts : List Tensor)
    (h : ∀ t ∈ ts, t.frozen = true → t.isParam = false ∧ t.rg = false) :
    ∀ t ∈ setTrainable ids b ts, t.frozen = true → t.isParam = false ∧ t.rg = false := by
  intro t ht hf
  obtain ⟨i, hi⟩ := List.getElem?_of_mem ht
  rw [setTrainable_getElem?] at hi
  cases h0 : ts[i]? with
  | none => simp [h0] at hi
  | some t0 =>
    simp only [h0, Option.map_some, Option.some.injEq] at hi
    have hm : t0 ∈ ts := List.mem_of_getElem? h0
    by_cases hc : (ids.contains i && !t0.frozen) = true
    · simp only [hc, if_true] at hi
      subst hi
      simp only [Bool.and_eq_true, Bool.not_eq_true'] at hc
      simp only at hf
      rw [hc.2] at hf
      cases hf
    · simp only [hc] at hi
      subst hi
      exact h _ hm hf

theorem step_frozenOK (s : State) (op : Op) (h : FrozenOK s) : FrozenOK (step s op) := by
  have hnas : ∀ i ∈ nasIds s, isParamAt s.ts i = true := fun i hi => (mem_nasIds.mp hi).2
  have hnet : ∀ i ∈ netIds s, isParamAt s.ts i = true := fun i hi => (mem_netIds.mp hi).1
  unfold FrozenOK at *
  cases op with
  | nasOnly =>
    exact setRg_frozen _ _ _ (by rw [isParamAt_setRg]; exact hnet) (setRg_frozen _ _ _ hnas h)
  | netOnly =>
    exact setRg_frozen _ _ _ (by rw [isParamAt_setRg]; exact hnet) (setRg_frozen _ _ _ hnas h)
  | netAndNas =>
    exact setRg_frozen _ _ _ (by rw [isParamAt_setRg]; exact hnet) (setRg_frozen _ _ _ hnas h)
  | setFeatures b => exact setTrainable_frozen _ _ _ h
  | setRf b => exact setTrainable_frozen _ _ _ h
  | setDilation b => exact setTrainable_frozen _ _ _ h
  | setDiscrete b => exact h
  | upd t hh g d => exact h
  | fwdbwd => exact h

theorem run_frozenOK (ops : List Op) : ∀ s : State, FrozenOK s → FrozenOK (run s ops) := by
  induction ops with
  | nil => intro s h; exact h
  | cons op ops ih => intro s h; exact ih _ (step_frozenOK s op h)

/-! ### samplers -/

theorem updQ_ok (m : Method) (q : Qtz) (t : Option Rat) (h g d : Option Bool)
    (hq : q.sampler = chooseFor m q.o) :
    (updQ m q t h g d).sampler = chooseFor m (updQ m q t h g d).o := by
  cases m <;> simp_all [updQ, snChoose, chooseFor]

theorem step_qtzOK (s : State) (op : Op) (h : QtzOK s) : QtzOK (step s op) := by
  unfold QtzOK at *
  cases op with
  | upd t hh g d =>
    intro q hq
    simp only [step] at hq
    obtain ⟨j, hj⟩ := List.getElem?_of_mem hq
    rw [List.getElem?_mapIdx] at hj
    cases h0 : s.qs[j]? with
    | none => simp [h0] at hj
    | some q0 =>
      simp only [h0, Option.map_some, Option.some.injEq] at hj
      have hm : q0 ∈ s.qs := List.mem_of_getElem? h0
      split at hj
      · subst hj
        rw [step_method]
        exact updQ_ok s.method q0 t hh g d (h q0 hm)
      · subst hj
        exact h _ hm
  | fwdbwd =>
    intro q hq
    simp only [step] at hq
    obtain ⟨j, hj⟩ := List.getElem?_of_mem hq
    rw [List.getElem?_mapIdx] at hj
    cases h0 : s.qs[j]? with
    | none => simp [h0] at hj
    | some q0 =>
      simp only [h0, Option.map_some, Option.some.injEq] at hj
      have hm : q0 ∈ s.qs := List.mem_of_getElem? h0
      split at hj
      · subst hj
        exact h q0 hm
      · split at hj
        · subst hj
          exact h q0 hm
        · subst hj
          exact h _ hm
  | _ => exact h

theorem run_qtzOK (ops : List Op) : ∀ s : State, QtzOK s → QtzOK (run s ops) := by
  induction ops with
  | nil => intro s h; exact h
  | cons op ops ih => intro s h; exact ih _ (step_qtzOK s op h)

/-! ### closed form of `requires_grad` for parameters no PIT setter refers to -/

/-- what a call writes on the `requires_grad` flag of such a parameter (`isNas`: is it a NAS
parameter) -/
def lastWriter (isNas : Bool) (r : Bool) : Op → Bool
  | .nasOnly => isNas
  | .netOnly => !isNas
  | .netAndNas => true
  | _ => r

/-- no layer exposes position `i` through `train_features / train_rf / train_dilation` -/
def NoSetter (s : State) (i : Nat) : Prop :=
  (s.layers.filterMap (·.fm)).contains i = false ∧ (s.layers.filterMap (·.tm)).contains i = false ∧
  (s.layers.filterMap (·.dm)).contains i = false

theorem rgAt_setTrainable_not_mem (ids : List Nat) (b : Bool) (ts : List Tensor) (i : Nat)
    (h : ids.contains i = false) : rgAt (setTrainable ids b ts) i = rgAt ts i := by
  simp only [rgAt, setTrainable_getElem?, h, Bool.false_and]
  cases ts[i]? <;> simp

theorem step_setterIds (s : State) (op : Op) :
    (step s op).layers.filterMap (·.fm) = s.layers.filterMap (·.fm) ∧
    (step s op).layers.filterMap (·.tm) = s.layers.filterMap (·.tm) ∧
    (step s op).layers.filterMap (·.dm) = s.layers.filterMap (·.dm) := by
  cases op <;> try exact ⟨rfl, rfl, rfl⟩
  simp only [step, List.filterMap_map]
  refine ⟨?_, ?_, ?_⟩ <;> (congr 1; funext l; simp only [Function.comp]; split <;> rfl)

theorem step_noSetter (s : State) (op : Op) (i : Nat) (h : NoSetter s i) :
    NoSetter (step s op) i := by
  obtain ⟨h1, h2, h3⟩ := step_setterIds s op
  unfold NoSetter
  rw [h1, h2, h3]
  exact h

theorem step_rgAt_noSetter (s : State) (op : Op) (i : Nat) (hp : isParamAt s.ts i = true)
    (hn : NoSetter s i) :
    rgAt (step s op).ts i = lastWriter ((nasIds s).contains i) (rgAt s.ts i) op := by
  have hi := isParamAt_lt hp
  have hnet : (netIds s).contains i = !(nasIds s).contains i := by
    rw [Bool.eq_iff_iff]
    simp only [List.contains_eq_mem, decide_eq_true_eq, Bool.not_eq_true', decide_eq_false_iff_not]
    exact ⟨fun h => (mem_netIds.mp h).2, fun h => mem_netIds.mpr ⟨hp, h⟩⟩
  cases op with
  | nasOnly =>
    simp only [step, rgAt_setRg, setRg_length, hnet, hi, and_true, lastWriter]
    cases (nasIds s).contains i <;> simp
  | netOnly =>
    simp only [step, rgAt_setRg, setRg_length, hnet, hi, and_true, lastWriter]
    cases (nasIds s).contains i <;> simp
  | netAndNas =>
    simp only [step, rgAt_setRg, setRg_length, hnet, hi, and_true, lastWriter]
    cases (nasIds s).contains i <;> simp
  | setFeatures b => exact rgAt_setTrainable_not_mem _ _ _ _ hn.1
  | setRf b => exact rgAt_setTrainable_not_mem _ _ _ _ hn.2.1
  | setDilation b => exact rgAt_setTrainable_not_mem _ _ _ _ hn.2.2
  | setDiscrete b => rfl
  | upd t h g d => rfl
  | fwdbwd => rfl

theorem run_rgAt_noSetter (ops : List Op) : ∀ (s : State) (i : Nat), isParamAt s.ts i = true →
    NoSetter s i →
    rgAt (run s ops).ts i = ops.foldl (lastWriter ((nasIds s).contains i)) (rgAt s.ts i) := by
  induction ops with
  | nil => intro s i _ _; rfl
  | cons op ops ih =>
    intro s i hp hn
    show rgAt (run (step s op) ops).ts i = _
    rw [ih (step s op) i (by rw [step_isParamAt]; exact hp) (step_noSetter s op i hn),
      step_nasIds, step_rgAt_noSetter s op i hp hn]
    rfl

/-! ### when `backward()` raises -/

theorem bwdError_iff (s : State) :
    bwdError s = true ↔ s.detachOnNone = false ∧ ∃ j q, s.qs[j]? = some q ∧
      (reached s).contains j = true ∧ q.sampler = .none ∧ q.thetaGraph = true := by
  unfold bwdError
  simp only [Bool.and_eq_true, Bool.not_eq_true', List.any_eq_true, List.mem_range]
  constructor
  · rintro ⟨hd, j, hj, hst⟩
    refine ⟨hd, ?_⟩
    unfold staleGraph at hst
    cases hq : s.qs[j]? with
    | none => simp [hq] at hst
    | some q =>
      simp only [hq, Bool.and_eq_true, beq_iff_eq] at hst
      exact ⟨j, q, hq, hst.1.1, hst.1.2, hst.2⟩
  · rintro ⟨hd, j, q, hq, h1, h2, h3⟩
    have hj : j < s.qs.length := by
      by_contra hn
      rw [List.getElem?_eq_none (by omega)] at hq
      cases hq
    refine ⟨hd, j, hj, ?_⟩
    have h1' : j ∈ reached s := by simpa using h1
    simp [staleGraph, hq, h1', h2, h3]

theorem step_detach (s : State) (op : Op) : (step s op).detachOnNone = s.detachOnNone := by
  cases op <;> rfl

theorem run_detach (ops : List Op) : ∀ s : State, (run s ops).detachOnNone = s.detachOnNone := by
  induction ops with
  | nil => intro s; rfl
  | cons op ops ih => intro s; exact (ih _).trans (step_detach s op)

end PlinioVerif.Train
