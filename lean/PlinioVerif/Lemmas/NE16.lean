import PlinioVerif.Lemmas.CostLaws
/-!
# NE16: the hand-written class model in closed form, and its laws (C16)

`NE16.latency` (the model of `Ne16PerfModel.latency`, `Model/NE16.lean`) is
`spatial tiles × ragged (per-tile latency) (tile size) (output channels)`; from the ragged-tile
lemma it is monotone in every size, in the weight bit-width, non-negative and positive.
-/
namespace PlinioVerif.Spec
open NE16

/-! ### the translated rounding helpers are the closed forms -/

theorem ne16_divAndCeil (a b : ℚ) : NE16.divAndCeil a b = divAndCeil a b := by
  simp only [NE16.divAndCeil, CostNum.ste_rat, Gen.ne16_latency.DivAndCeilSTE.fwdL,
    Gen.ne16_latency.DivAndCeilSTE.forward.val, List.getD_cons_zero, List.getD_cons_succ,
    CostNum.add_rat, CostNum.sub_rat, CostNum.floordiv_rat, CostNum.ofRat_rat, divAndCeil]
theorem ne16_floorDivide (a b : ℚ) : NE16.floorDivide a b = floorDiv a b := by
  simp only [NE16.floorDivide, CostNum.ste_rat, Gen.ne16_latency.FloorDivideSTE.fwdL,
    Gen.ne16_latency.FloorDivideSTE.forward.val, List.getD_cons_zero, List.getD_cons_succ,
    CostNum.floordiv_rat, floorDiv]
theorem ne16_modulo (a b : ℚ) : NE16.modulo a b = pmod a b := by
  simp only [NE16.modulo, CostNum.ste_rat, Gen.ne16_latency.ModuloSTE.fwdL,
    Gen.ne16_latency.ModuloSTE.forward.val, List.getD_cons_zero, List.getD_cons_succ,
    CostNum.pymod_rat, pmod]

theorem dac_128_256 : divAndCeil 128 256 = 1 := by decide +kernel
theorem dac_256_256 : divAndCeil 256 256 = 1 := by decide +kernel
theorem fd_32_8 : floorDiv 32 8 = 4 := by decide +kernel
theorem fd_3_3 : floorDiv 3 3 = 1 := by decide +kernel
theorem fd_1_3 : floorDiv 1 3 = 0 := by decide +kernel
theorem pm_3_3 : pmod 3 3 = 0 := by decide +kernel
theorem pm_1_3 : pmod 1 3 = 1 := by decide +kernel

/-- configurations PLiNIO instantiates -/
def c3 (wb : ℚ) : Cfg ℚ := ⟨"conv", 3, 3, false, wb⟩
def c1 (wb : ℚ) : Cfg ℚ := ⟨"conv", 1, 1, false, wb⟩
def cdw (wb : ℚ) : Cfg ℚ := ⟨"conv", 3, 3, true, wb⟩

theorem c3_flags (wb : ℚ) : (c3 wb).is3x3 = true ∧ (c3 wb).is1x1 = false ∧ (c3 wb).isDw = false := by
  refine ⟨?_, ?_, ?_⟩ <;> simp [c3, Cfg.is3x3, Cfg.is1x1, Cfg.isDw]
theorem c1_flags (wb : ℚ) : (c1 wb).is3x3 = false ∧ (c1 wb).is1x1 = true ∧ (c1 wb).isDw = false := by
  refine ⟨?_, ?_, ?_⟩ <;> simp [c1, Cfg.is3x3, Cfg.is1x1, Cfg.isDw]
theorem cdw_flags (wb : ℚ) : (cdw wb).is3x3 = false ∧ (cdw wb).is1x1 = false ∧ (cdw wb).isDw = true := by
  refine ⟨?_, ?_, ?_⟩ <;> simp [cdw, Cfg.is3x3, Cfg.is1x1, Cfg.isDw]

macro "ne16_unfold" : tactic => `(tactic| (
  simp only [NE16.latency, NE16.iterationLatency, NE16.loadLatency, NE16.weightOffsetLatency,
    NE16.matrixvecLatency, NE16.updateIdxLatency, NE16.normquantLatency, NE16.streamoutLatency,
    NE16.nIn, NE16.kOutBody, ne16_divAndCeil, ne16_floorDivide, ne16_modulo,
    NE16.inBufH, NE16.inBufW, NE16.inBufK, NE16.outBufH, NE16.outBufW, NE16.outBufK, NE16.fifoLatency,
    NE16.multiplierCount, NE16.memoryThroughput, NE16.inputBitwidth, NE16.outputBitwidth, NE16.nqBits,
    CostNum.add_rat, CostNum.sub_rat, CostNum.mul_rat, CostNum.div_rat, CostNum.ofRat_rat,
    CostNum.nev_rat]))

theorem latency_3x3 (wb h w ko ki : ℚ) : NE16.latency (c3 wb) h w ko ki = ne16Lat3x3 wb h w ko ki := by
  obtain ⟨f1, f2, f3⟩ := c3_flags wb
  ne16_unfold
  simp only [f1, f2, f3]
  norm_num [dac_128_256, dac_256_256, fd_32_8]
  simp only [ne16Lat3x3, ne16Spatial, ragged, ne16It3x3, c3]
  split_ifs <;> ring_nf

theorem latency_1x1 (wb h w ko ki : ℚ) : NE16.latency (c1 wb) h w ko ki = ne16Lat1x1 h w ko ki := by
  obtain ⟨f1, f2, f3⟩ := c1_flags wb
  ne16_unfold
  simp only [f1, f2, f3]
  norm_num [dac_128_256, dac_256_256, fd_32_8]
  simp only [ne16Lat1x1, ne16Spatial, ragged, ne16It1x1, c1]
  split_ifs <;> ring_nf

theorem latency_dw (wb h w ko ki : ℚ) : NE16.latency (cdw wb) h w ko ki = ne16LatDw wb h w ko := by
  obtain ⟨f1, f2, f3⟩ := cdw_flags wb
  ne16_unfold
  simp only [f1, f2, f3]
  norm_num [dac_128_256, dac_256_256, fd_32_8]
  simp only [ne16LatDw, ne16Spatial, ragged, ne16ItDw, cdw]
  split_ifs <;> ring_nf

/-! ### the wrappers on supported kernels -/

theorem totals_k3 (ks : List ℚ) (dw : Bool) (wp h w ko ki : ℚ) (h0 : ks.getD 0 0 = 3) (h1 : ks.getD 1 0 = 3) :
    (NE16.totals "conv" ks dw wp [h, w, ko, ki]).1 = NE16.latency ⟨"conv", 3, 3, dw, wp⟩ h w ko ki := by
  simp only [NE16.totals, NE16.n3x3, NE16.n1x1, ne16_floorDivide, ne16_modulo, CostNum.idx_rat, h0, h1,
    CostNum.ofRat_rat, CostNum.mul_rat, CostNum.add_rat, CostNum.sub_rat, CostNum.ltv_rat,
    fd_3_3, pm_3_3, List.getD_cons_zero, List.getD_cons_succ]
  norm_num

theorem totals_k1 (ks : List ℚ) (dw : Bool) (wp h w ko ki : ℚ) (h0 : ks.getD 0 0 = 1) (h1 : ks.getD 1 0 = 1) :
    (NE16.totals "conv" ks dw wp [h, w, ko, ki]).1 = NE16.latency ⟨"conv", 1, 1, dw, wp⟩ h w ko ki := by
  simp only [NE16.totals, NE16.n3x3, NE16.n1x1, ne16_floorDivide, ne16_modulo, CostNum.idx_rat, h0, h1,
    CostNum.ofRat_rat, CostNum.mul_rat, CostNum.add_rat, CostNum.sub_rat, CostNum.ltv_rat,
    fd_1_3, pm_1_3, List.getD_cons_zero, List.getD_cons_succ]
  norm_num

/-! ### per-tile latencies: monotone, positive -/

theorem it3x3_mono {w w' cin cin' k k' : ℚ} (hw : 0 ≤ w) (hww : w ≤ w') (hc : 0 ≤ cin) (hcc : cin ≤ cin')
    (hk : 0 ≤ k) (hkk : k ≤ k') : ne16It3x3 w cin k ≤ ne16It3x3 w' cin' k' := by
  unfold ne16It3x3
  have := divAndCeil_nonneg (n := 16) (by norm_num) hc
  have := divAndCeil_nonneg (n := 16) (by norm_num) (le_trans hc hcc)
  have := le_trans hk hkk
  gcongr
theorem it3x3_pos {w cin k : ℚ} (hw : 0 ≤ w) (hc : 0 ≤ cin) (hk : 0 ≤ k) : 0 < ne16It3x3 w cin k := by
  unfold ne16It3x3
  have := divAndCeil_nonneg (n := 16) (by norm_num) hc
  have := divAndCeil_nonneg (a := k * 4) (n := 4) (by norm_num) (by positivity)
  positivity
theorem it1x1_mono {cin cin' k k' : ℚ} (hc : 0 ≤ cin) (hcc : cin ≤ cin')
    (hk : 0 ≤ k) (hkk : k ≤ k') : ne16It1x1 cin k ≤ ne16It1x1 cin' k' := by
  unfold ne16It1x1
  have := divAndCeil_nonneg (n := 16) (by norm_num) hc
  have := divAndCeil_nonneg (n := 16) (by norm_num) (le_trans hc hcc)
  gcongr
theorem it1x1_pos {cin k : ℚ} (hc : 0 ≤ cin) (hk : 0 ≤ k) : 0 < ne16It1x1 cin k := by
  unfold ne16It1x1
  have := divAndCeil_nonneg (n := 16) (by norm_num) hc
  have := divAndCeil_nonneg (a := k * 4) (n := 4) (by norm_num) (by positivity)
  positivity
theorem itDw_mono {w w' k k' : ℚ} (hw : 0 ≤ w) (hww : w ≤ w') (hk : 0 ≤ k) (hkk : k ≤ k') :
    ne16ItDw w k ≤ ne16ItDw w' k' := by
  unfold ne16ItDw
  have := le_trans hk hkk
  gcongr
theorem itDw_pos {w k : ℚ} (hw : 0 ≤ w) (hk : 0 ≤ k) : 0 < ne16ItDw w k := by
  unfold ne16ItDw
  have := divAndCeil_nonneg (a := k * 4) (n := 4) (by norm_num) (by positivity)
  positivity
/-- a pointwise tile costs no more than a 3×3 tile as soon as the weights have at least one bit -/
theorem it1x1_le_it3x3 {w cin k : ℚ} (hw : 1 ≤ w) (hc : 0 ≤ cin) (hk : 0 ≤ k) :
    ne16It1x1 cin k ≤ ne16It3x3 w cin k := by
  unfold ne16It1x1 ne16It3x3
  have := divAndCeil_nonneg (n := 16) (by norm_num) hc
  have : k ≤ k * w := by nlinarith
  gcongr
  norm_num

theorem ragged_pos {it : ℚ → ℚ} (hp : ∀ k, 0 ≤ k → 0 < it k) {K c : ℚ} (hK : 0 < K) (hc : 0 < c) :
    0 < ragged it K c := by
  unfold ragged
  have hq := floorDiv_nonneg hK.le hc.le
  have hK' := hp K hK.le
  by_cases h0 : pmod c K = 0
  · rw [if_pos h0]
    have := floorDiv_add_pmod c K
    rw [h0] at this
    have : 0 < floorDiv c K := by
      rcases hq.lt_or_eq with h | h
      · exact h
      · rw [← h] at this; linarith
    positivity
  · rw [if_neg h0]
    have := hp _ (pmod_nonneg (a := c) hK)
    positivity

theorem spatial_nonneg {h w : ℚ} (hh : 0 ≤ h) (hw : 0 ≤ w) : 0 ≤ ne16Spatial h w := by
  unfold ne16Spatial
  have := divAndCeil_nonneg (n := 3) (by norm_num) hh
  have := divAndCeil_nonneg (n := 3) (by norm_num) hw
  positivity
theorem spatial_pos {h w : ℚ} (hh : 1 ≤ h) (hw : 1 ≤ w) : 0 < ne16Spatial h w := by
  unfold ne16Spatial
  have := divAndCeil_pos (n := 3) (by norm_num) hh
  have := divAndCeil_pos (n := 3) (by norm_num) hw
  have : 0 < divAndCeil h 3 := by linarith
  have : 0 < divAndCeil w 3 := by linarith
  positivity
theorem spatial_mono {h h' w w' : ℚ} (hh : 0 ≤ h) (hhh : h ≤ h') (hw : 0 ≤ w) (hww : w ≤ w') :
    ne16Spatial h w ≤ ne16Spatial h' w' := by
  unfold ne16Spatial
  have := divAndCeil_nonneg (n := 3) (by norm_num) hh
  have := divAndCeil_nonneg (n := 3) (by norm_num) hw
  have := divAndCeil_nonneg (n := 3) (by norm_num) (le_trans hh hhh)
  have := divAndCeil_nonneg (n := 3) (by norm_num) (le_trans hw hww)
  gcongr

/-! ### layer latencies: monotone in every argument, non-negative, positive -/

theorem lat3x3_mono {wb wb' h h' w w' ko ko' ki ki' : ℚ} (hwb : 0 ≤ wb) (hwbb : wb ≤ wb') (hh : 0 ≤ h)
    (hhh : h ≤ h') (hw : 0 ≤ w) (hww : w ≤ w') (hko : 0 ≤ ko) (hkoo : ko ≤ ko') (hki : 0 ≤ ki)
    (hkii : ki ≤ ki') : ne16Lat3x3 wb h w ko ki ≤ ne16Lat3x3 wb' h' w' ko' ki' := by
  unfold ne16Lat3x3
  have h1 : ragged (ne16It3x3 wb ki) 32 ko ≤ ragged (ne16It3x3 wb ki) 32 ko' :=
    ragged_mono_c (fun k k' hk hkk => it3x3_mono hwb le_rfl hki le_rfl hk hkk)
      (fun k hk => (it3x3_pos hwb hki hk).le) (by norm_num) hko hkoo
  have h2 : ragged (ne16It3x3 wb ki) 32 ko' ≤ ragged (ne16It3x3 wb' ki') 32 ko' :=
    ragged_mono_it (fun k hk => it3x3_mono hwb hwbb hki hkii hk le_rfl) (by norm_num) (le_trans hko hkoo)
  have h3 : 0 ≤ ragged (ne16It3x3 wb ki) 32 ko :=
    ragged_nonneg (fun k hk => (it3x3_pos hwb hki hk).le) (by norm_num) hko
  have h4 := spatial_mono hh hhh hw hww
  have h5 := spatial_nonneg (le_trans hh hhh) (le_trans hw hww)
  calc ne16Spatial h w * ragged (ne16It3x3 wb ki) 32 ko
      ≤ ne16Spatial h' w' * ragged (ne16It3x3 wb ki) 32 ko := by gcongr
    _ ≤ ne16Spatial h' w' * ragged (ne16It3x3 wb' ki') 32 ko' := by gcongr; exact le_trans h1 h2

theorem lat1x1_mono {h h' w w' ko ko' ki ki' : ℚ} (hh : 0 ≤ h)
    (hhh : h ≤ h') (hw : 0 ≤ w) (hww : w ≤ w') (hko : 0 ≤ ko) (hkoo : ko ≤ ko') (hki : 0 ≤ ki)
    (hkii : ki ≤ ki') : ne16Lat1x1 h w ko ki ≤ ne16Lat1x1 h' w' ko' ki' := by
  unfold ne16Lat1x1
  have h1 : ragged (ne16It1x1 ki) 32 ko ≤ ragged (ne16It1x1 ki) 32 ko' :=
    ragged_mono_c (fun k k' hk hkk => it1x1_mono hki le_rfl hk hkk)
      (fun k hk => (it1x1_pos hki hk).le) (by norm_num) hko hkoo
  have h2 : ragged (ne16It1x1 ki) 32 ko' ≤ ragged (ne16It1x1 ki') 32 ko' :=
    ragged_mono_it (fun k hk => it1x1_mono hki hkii hk le_rfl) (by norm_num) (le_trans hko hkoo)
  have h3 : 0 ≤ ragged (ne16It1x1 ki) 32 ko :=
    ragged_nonneg (fun k hk => (it1x1_pos hki hk).le) (by norm_num) hko
  have h4 := spatial_mono hh hhh hw hww
  have h5 := spatial_nonneg (le_trans hh hhh) (le_trans hw hww)
  calc ne16Spatial h w * ragged (ne16It1x1 ki) 32 ko
      ≤ ne16Spatial h' w' * ragged (ne16It1x1 ki) 32 ko := by gcongr
    _ ≤ ne16Spatial h' w' * ragged (ne16It1x1 ki') 32 ko' := by gcongr; exact le_trans h1 h2

theorem latDw_mono {wb wb' h h' w w' ko ko' : ℚ} (hwb : 0 ≤ wb) (hwbb : wb ≤ wb') (hh : 0 ≤ h)
    (hhh : h ≤ h') (hw : 0 ≤ w) (hww : w ≤ w') (hko : 0 ≤ ko) (hkoo : ko ≤ ko') :
    ne16LatDw wb h w ko ≤ ne16LatDw wb' h' w' ko' := by
  unfold ne16LatDw
  have h1 : ragged (ne16ItDw wb) 16 ko ≤ ragged (ne16ItDw wb) 16 ko' :=
    ragged_mono_c (fun k k' hk hkk => itDw_mono hwb le_rfl hk hkk)
      (fun k hk => (itDw_pos hwb hk).le) (by norm_num) hko hkoo
  have h2 : ragged (ne16ItDw wb) 16 ko' ≤ ragged (ne16ItDw wb') 16 ko' :=
    ragged_mono_it (fun k hk => itDw_mono hwb hwbb hk le_rfl) (by norm_num) (le_trans hko hkoo)
  have h3 : 0 ≤ ragged (ne16ItDw wb) 16 ko :=
    ragged_nonneg (fun k hk => (itDw_pos hwb hk).le) (by norm_num) hko
  have h4 := spatial_mono hh hhh hw hww
  have h5 := spatial_nonneg (le_trans hh hhh) (le_trans hw hww)
  calc ne16Spatial h w * ragged (ne16ItDw wb) 16 ko
      ≤ ne16Spatial h' w' * ragged (ne16ItDw wb) 16 ko := by gcongr
    _ ≤ ne16Spatial h' w' * ragged (ne16ItDw wb') 16 ko' := by gcongr; exact le_trans h1 h2

/-- a pointwise layer costs no more than the 3×3 layer of the same shape (weights ≥ 1 bit) -/
theorem lat1x1_le_lat3x3 {wb h w ko ki : ℚ} (hwb : 1 ≤ wb) (hh : 0 ≤ h) (hw : 0 ≤ w) (hko : 0 ≤ ko)
    (hki : 0 ≤ ki) : ne16Lat1x1 h w ko ki ≤ ne16Lat3x3 wb h w ko ki := by
  unfold ne16Lat1x1 ne16Lat3x3
  have := spatial_nonneg hh hw
  have := ragged_mono_it (it := ne16It1x1 ki) (it' := ne16It3x3 wb ki)
    (fun k hk => it1x1_le_it3x3 hwb hki hk) (K := 32) (by norm_num) hko
  gcongr

theorem lat3x3_nonneg {wb h w ko ki : ℚ} (hwb : 0 ≤ wb) (hh : 0 ≤ h) (hw : 0 ≤ w) (hko : 0 ≤ ko)
    (hki : 0 ≤ ki) : 0 ≤ ne16Lat3x3 wb h w ko ki := by
  unfold ne16Lat3x3
  have := spatial_nonneg hh hw
  have := ragged_nonneg (it := ne16It3x3 wb ki) (fun k hk => (it3x3_pos hwb hki hk).le) (K := 32)
    (by norm_num) hko
  positivity
theorem lat1x1_nonneg {h w ko ki : ℚ} (hh : 0 ≤ h) (hw : 0 ≤ w) (hko : 0 ≤ ko)
    (hki : 0 ≤ ki) : 0 ≤ ne16Lat1x1 h w ko ki := by
  unfold ne16Lat1x1
  have := spatial_nonneg hh hw
  have := ragged_nonneg (it := ne16It1x1 ki) (fun k hk => (it1x1_pos hki hk).le) (K := 32)
    (by norm_num) hko
  positivity
theorem latDw_nonneg {wb h w ko : ℚ} (hwb : 0 ≤ wb) (hh : 0 ≤ h) (hw : 0 ≤ w) (hko : 0 ≤ ko) :
    0 ≤ ne16LatDw wb h w ko := by
  unfold ne16LatDw
  have := spatial_nonneg hh hw
  have := ragged_nonneg (it := ne16ItDw wb) (fun k hk => (itDw_pos hwb hk).le) (K := 16)
    (by norm_num) hko
  positivity
theorem lat3x3_pos {wb h w ko ki : ℚ} (hwb : 0 ≤ wb) (hh : 1 ≤ h) (hw : 1 ≤ w) (hko : 0 < ko)
    (hki : 0 ≤ ki) : 0 < ne16Lat3x3 wb h w ko ki := by
  unfold ne16Lat3x3
  have := spatial_pos hh hw
  have := ragged_pos (it := ne16It3x3 wb ki) (fun k hk => it3x3_pos hwb hki hk) (K := 32) (by norm_num) hko
  positivity
theorem lat1x1_pos {h w ko ki : ℚ} (hh : 1 ≤ h) (hw : 1 ≤ w) (hko : 0 < ko)
    (hki : 0 ≤ ki) : 0 < ne16Lat1x1 h w ko ki := by
  unfold ne16Lat1x1
  have := spatial_pos hh hw
  have := ragged_pos (it := ne16It1x1 ki) (fun k hk => it1x1_pos hki hk) (K := 32) (by norm_num) hko
  positivity
theorem latDw_pos {wb h w ko : ℚ} (hwb : 0 ≤ wb) (hh : 1 ≤ h) (hw : 1 ≤ w) (hko : 0 < ko) :
    0 < ne16LatDw wb h w ko := by
  unfold ne16LatDw
  have := spatial_pos hh hw
  have := ragged_pos (it := ne16ItDw wb) (fun k hk => itDw_pos hwb hk) (K := 16) (by norm_num) hko
  positivity

/-! ### the registered wrappers -/

theorem ne16Conv2d_zero {s : S} (h : s.w_precision = 0 ∨ s.w_theta_alpha = 0) : ne16Conv2d s = 0 := by
  unfold ne16Conv2d; rw [if_pos h]
theorem ne16Conv2d_k3 {s : S} (h : ¬ (s.w_precision = 0 ∨ s.w_theta_alpha = 0)) (hk : isK s 3) :
    ne16Conv2d s = ne16Lat3x3 s.w_precision (o s 2) (o s 3) (s.w_theta_alpha * s.out_channels) s.in_channels
      / s.w_theta_alpha := by
  unfold ne16Conv2d; rw [if_neg h, totals_k3 _ _ _ _ _ _ _ hk.1 hk.2]; exact congrArg (· / _) (latency_3x3 ..)
theorem ne16Conv2d_k1 {s : S} (h : ¬ (s.w_precision = 0 ∨ s.w_theta_alpha = 0)) (hk : isK s 1) :
    ne16Conv2d s = ne16Lat1x1 (o s 2) (o s 3) (s.w_theta_alpha * s.out_channels) s.in_channels
      / s.w_theta_alpha := by
  unfold ne16Conv2d; rw [if_neg h, totals_k1 _ _ _ _ _ _ _ hk.1 hk.2]; exact congrArg (· / _) (latency_1x1 ..)
theorem ne16Conv2dDw_zero {s : S} (h : s.w_precision = 0 ∨ s.w_theta_alpha = 0) : ne16Conv2dDw s = 0 := by
  unfold ne16Conv2dDw; rw [if_pos h]
theorem ne16Conv2dDw_k3 {s : S} (h : ¬ (s.w_precision = 0 ∨ s.w_theta_alpha = 0)) (hk : isK s 3) :
    ne16Conv2dDw s = ne16LatDw s.w_precision (o s 2) (o s 3) (s.w_theta_alpha * s.out_channels)
      / s.w_theta_alpha := by
  unfold ne16Conv2dDw; rw [if_neg h, totals_k3 _ _ _ _ _ _ _ hk.1 hk.2]
  exact congrArg (· / _) (latency_dw _ _ _ _ s.in_channels)
theorem ne16Linear_zero {s : S} (h : s.w_precision = 0 ∨ s.w_theta_alpha = 0) : ne16Linear s = 0 := by
  unfold ne16Linear; rw [if_pos h]
theorem ne16Linear_eq {s : S} (h : ¬ (s.w_precision = 0 ∨ s.w_theta_alpha = 0)) :
    ne16Linear s = ne16Lat1x1 1 1 (s.w_theta_alpha * s.out_features) s.in_features / s.w_theta_alpha := by
  unfold ne16Linear; rw [if_neg h, totals_k1 _ _ _ _ _ _ _ rfl rfl]; exact congrArg (· / _) (latency_1x1 ..)

theorem supported_ne16_conv {s : S} (h : Supported "ne16_latency" "" "Conv2d" s)
    (h0 : ¬ (s.w_precision = 0 ∨ s.w_theta_alpha = 0)) : s.in_precision = 8 ∧ (isK s 3 ∨ isK s 1) := by
  simp only [Supported, String.reduceEq, false_or, if_false, if_true, true_and] at h
  rcases h with h | h | h
  · exact absurd (Or.inl h) h0
  · exact absurd (Or.inr h) h0
  · exact h
theorem supported_ne16_dw {s : S} (h : Supported "ne16_latency" "conv_dw_constraint" "Conv2d" s)
    (h0 : ¬ (s.w_precision = 0 ∨ s.w_theta_alpha = 0)) : s.in_precision = 8 ∧ isK s 3 := by
  simp only [Supported, String.reduceEq, false_or, if_false, if_true, false_and, or_false] at h
  rcases h with h | h | h
  · exact absurd (Or.inl h) h0
  · exact absurd (Or.inr h) h0
  · exact h

theorem isK_bits {s s' : S} (h : BitsLe s s') (n : ℚ) (hk : isK s n) : isK s' n := by
  unfold isK k at *; rw [← h.kernel_size]; exact hk
theorem o_bits {s s' : S} (h : BitsLe s s') (i : ℕ) : o s i = o s' i := by
  unfold o; rw [h.output_shape]

set_option hygiene false in
macro "ne16_cases" : tactic => `(tactic| (
  have vwp : 0 ≤ s.w_precision := by rcases hv.w_precision with h0 | h0 <;> linarith
  have vth := hv.w_theta_alpha
  have vo2 := hv.output_shape 2; have vo3 := hv.output_shape 3
  have vic := hv.in_channels; have voc := hv.out_channels
  have vif := hv.in_features; have vof := hv.out_features
  have vko : 0 ≤ s.w_theta_alpha * s.out_channels := by positivity
  have vko' : 0 ≤ s.w_theta_alpha * s.out_features := by positivity))

instance : Laws "ne16_latency" "Conv2d" "" ne16Conv2d := by
  refine ⟨?_, ?_, ?_⟩
  · intro s hv hs
    ne16_cases
    by_cases h0 : s.w_precision = 0 ∨ s.w_theta_alpha = 0
    · rw [ne16Conv2d_zero h0]
    · obtain ⟨_, hk | hk⟩ := supported_ne16_conv hs h0
      · rw [ne16Conv2d_k3 h0 hk]; exact div_nonneg (lat3x3_nonneg vwp vo2 vo3 vko vic) vth
      · rw [ne16Conv2d_k1 h0 hk]; exact div_nonneg (lat1x1_nonneg vo2 vo3 vko vic) vth
  · intro s hn hwf hs
    intro_nonempty2
    have h0 : ¬ (s.w_precision = 0 ∨ s.w_theta_alpha = 0) := by
      rintro (h | h) <;> linarith
    have pko : 0 < s.w_theta_alpha * s.out_channels := by positivity
    obtain ⟨_, hk | hk⟩ := supported_ne16_conv hs h0
    · rw [ne16Conv2d_k3 h0 hk]; exact div_pos (lat3x3_pos pwp.le no2 no3 pko pic.le) pth
    · rw [ne16Conv2d_k1 h0 hk]; exact div_pos (lat1x1_pos no2 no3 pko pic.le) pth
  · intro s s' hv h _ hs hs'
    ne16_cases
    have hko : s.w_theta_alpha * s.out_channels ≤ s.w_theta_alpha * s'.out_channels :=
      mul_le_mul_of_nonneg_left h.out_channels vth
    by_cases h0 : s.w_precision = 0 ∨ s.w_theta_alpha = 0
    · have h0' : s'.w_precision = 0 ∨ s'.w_theta_alpha = 0 := by
        rw [← h.w_precision, ← h.w_theta_alpha]; exact h0
      rw [ne16Conv2d_zero h0, ne16Conv2d_zero h0']
    · have h0' : ¬ (s'.w_precision = 0 ∨ s'.w_theta_alpha = 0) := by
        rw [← h.w_precision, ← h.w_theta_alpha]; exact h0
      have hwp1 : 1 ≤ s.w_precision := by
        rcases hv.w_precision with hz | hz
        · exact absurd (Or.inl hz) h0
        · exact hz
      obtain ⟨_, hk | hk⟩ := supported_ne16_conv hs h0 <;> obtain ⟨_, hk' | hk'⟩ := supported_ne16_conv hs' h0'
      · rw [ne16Conv2d_k3 h0 hk, ne16Conv2d_k3 h0' hk', ← h.w_theta_alpha, ← h.w_precision]
        exact div_le_div_of_nonneg_right (lat3x3_mono vwp le_rfl vo2 (h.output_shape 2) vo3 (h.output_shape 3)
          vko hko vic h.in_channels) vth
      · have := h.kernel_size 0; rw [hk.1, hk'.1] at this; norm_num at this
      · rw [ne16Conv2d_k1 h0 hk, ne16Conv2d_k3 h0' hk', ← h.w_theta_alpha, ← h.w_precision]
        refine div_le_div_of_nonneg_right (le_trans (lat1x1_mono vo2 (h.output_shape 2) vo3 (h.output_shape 3)
          vko hko vic h.in_channels) ?_) vth
        exact lat1x1_le_lat3x3 hwp1 (le_trans vo2 (h.output_shape 2)) (le_trans vo3 (h.output_shape 3))
          (le_trans vko hko) (le_trans vic h.in_channels)
      · rw [ne16Conv2d_k1 h0 hk, ne16Conv2d_k1 h0' hk', ← h.w_theta_alpha]
        exact div_le_div_of_nonneg_right (lat1x1_mono vo2 (h.output_shape 2) vo3 (h.output_shape 3)
          vko hko vic h.in_channels) vth

instance : Laws "ne16_latency" "Conv2d" "conv_dw_constraint" ne16Conv2dDw := by
  refine ⟨?_, ?_, ?_⟩
  · intro s hv hs
    ne16_cases
    by_cases h0 : s.w_precision = 0 ∨ s.w_theta_alpha = 0
    · rw [ne16Conv2dDw_zero h0]
    · obtain ⟨_, hk⟩ := supported_ne16_dw hs h0
      rw [ne16Conv2dDw_k3 h0 hk]; exact div_nonneg (latDw_nonneg vwp vo2 vo3 vko) vth
  · intro s hn hwf hs
    intro_nonempty2
    have h0 : ¬ (s.w_precision = 0 ∨ s.w_theta_alpha = 0) := by
      rintro (h | h) <;> linarith
    have pko : 0 < s.w_theta_alpha * s.out_channels := by positivity
    obtain ⟨_, hk⟩ := supported_ne16_dw hs h0
    rw [ne16Conv2dDw_k3 h0 hk]; exact div_pos (latDw_pos pwp.le no2 no3 pko) pth
  · intro s s' hv h _ hs hs'
    ne16_cases
    have hko : s.w_theta_alpha * s.out_channels ≤ s.w_theta_alpha * s'.out_channels :=
      mul_le_mul_of_nonneg_left h.out_channels vth
    by_cases h0 : s.w_precision = 0 ∨ s.w_theta_alpha = 0
    · have h0' : s'.w_precision = 0 ∨ s'.w_theta_alpha = 0 := by
        rw [← h.w_precision, ← h.w_theta_alpha]; exact h0
      rw [ne16Conv2dDw_zero h0, ne16Conv2dDw_zero h0']
    · have h0' : ¬ (s'.w_precision = 0 ∨ s'.w_theta_alpha = 0) := by
        rw [← h.w_precision, ← h.w_theta_alpha]; exact h0
      obtain ⟨_, hk⟩ := supported_ne16_dw hs h0
      obtain ⟨_, hk'⟩ := supported_ne16_dw hs' h0'
      rw [ne16Conv2dDw_k3 h0 hk, ne16Conv2dDw_k3 h0' hk', ← h.w_theta_alpha, ← h.w_precision]
      exact div_le_div_of_nonneg_right (latDw_mono vwp le_rfl vo2 (h.output_shape 2) vo3 (h.output_shape 3)
        vko hko) vth

instance : Laws "ne16_latency" "Linear" "" ne16Linear := by
  refine ⟨?_, ?_, ?_⟩
  · intro s hv hs
    ne16_cases
    by_cases h0 : s.w_precision = 0 ∨ s.w_theta_alpha = 0
    · rw [ne16Linear_zero h0]
    · rw [ne16Linear_eq h0]; exact div_nonneg (lat1x1_nonneg zero_le_one zero_le_one vko' vif) vth
  · intro s hn hwf hs
    intro_nonempty
    have h0 : ¬ (s.w_precision = 0 ∨ s.w_theta_alpha = 0) := by
      rintro (h | h) <;> linarith
    have pko : 0 < s.w_theta_alpha * s.out_features := by positivity
    rw [ne16Linear_eq h0]; exact div_pos (lat1x1_pos le_rfl le_rfl pko pif.le) pth
  · intro s s' hv h _ hs hs'
    ne16_cases
    have hko : s.w_theta_alpha * s.out_features ≤ s.w_theta_alpha * s'.out_features :=
      mul_le_mul_of_nonneg_left h.out_features vth
    by_cases h0 : s.w_precision = 0 ∨ s.w_theta_alpha = 0
    · have h0' : s'.w_precision = 0 ∨ s'.w_theta_alpha = 0 := by
        rw [← h.w_precision, ← h.w_theta_alpha]; exact h0
      rw [ne16Linear_zero h0, ne16Linear_zero h0']
    · have h0' : ¬ (s'.w_precision = 0 ∨ s'.w_theta_alpha = 0) := by
        rw [← h.w_precision, ← h.w_theta_alpha]; exact h0
      rw [ne16Linear_eq h0, ne16Linear_eq h0', ← h.w_theta_alpha]
      exact div_le_div_of_nonneg_right (lat1x1_mono zero_le_one le_rfl zero_le_one le_rfl
        vko' hko vif h.in_features) vth

/-! ### bit-widths -/

theorem nonzero_bits {s s' : S} (hv : Valid s) (h : BitsLe s s')
    (h0 : ¬ (s.w_precision = 0 ∨ s.w_theta_alpha = 0)) : ¬ (s'.w_precision = 0 ∨ s'.w_theta_alpha = 0) := by
  rw [← h.w_theta_alpha]
  rintro (hz | hz)
  · rcases hv.w_precision with hw | hw
    · exact h0 (Or.inl hw)
    · have := h.w_precision; linarith
  · exact h0 (Or.inr hz)

instance : BitLaws "ne16_latency" "Conv2d" "" ne16Conv2d := by
  refine ⟨?_⟩
  intro s s' hv hv' h hs hs'
  ne16_cases
  by_cases h0 : s.w_precision = 0 ∨ s.w_theta_alpha = 0
  · rw [ne16Conv2d_zero h0]; exact Laws.nonneg (spec := "ne16_latency") (layer := "Conv2d") (constr := "") s' hv' hs'
  · have h0' := nonzero_bits hv h h0
    obtain ⟨_, hk | hk⟩ := supported_ne16_conv hs h0
    · rw [ne16Conv2d_k3 h0 hk, ne16Conv2d_k3 h0' (isK_bits h 3 hk), ← h.w_theta_alpha, ← h.out_channels,
        ← h.in_channels, ← o_bits h, ← o_bits h]
      exact div_le_div_of_nonneg_right (lat3x3_mono vwp h.w_precision vo2 le_rfl vo3 le_rfl vko le_rfl vic le_rfl) vth
    · rw [ne16Conv2d_k1 h0 hk, ne16Conv2d_k1 h0' (isK_bits h 1 hk), ← h.w_theta_alpha, ← h.out_channels,
        ← h.in_channels, ← o_bits h, ← o_bits h]

instance : BitLaws "ne16_latency" "Conv2d" "conv_dw_constraint" ne16Conv2dDw := by
  refine ⟨?_⟩
  intro s s' hv hv' h hs hs'
  ne16_cases
  by_cases h0 : s.w_precision = 0 ∨ s.w_theta_alpha = 0
  · rw [ne16Conv2dDw_zero h0]
    exact Laws.nonneg (spec := "ne16_latency") (layer := "Conv2d") (constr := "conv_dw_constraint") s' hv' hs'
  · have h0' := nonzero_bits hv h h0
    obtain ⟨_, hk⟩ := supported_ne16_dw hs h0
    rw [ne16Conv2dDw_k3 h0 hk, ne16Conv2dDw_k3 h0' (isK_bits h 3 hk), ← h.w_theta_alpha, ← h.out_channels,
      ← o_bits h, ← o_bits h]
    exact div_le_div_of_nonneg_right (latDw_mono vwp h.w_precision vo2 le_rfl vo3 le_rfl vko le_rfl) vth

instance : BitLaws "ne16_latency" "Linear" "" ne16Linear := by
  refine ⟨?_⟩
  intro s s' hv hv' h hs hs'
  ne16_cases
  by_cases h0 : s.w_precision = 0 ∨ s.w_theta_alpha = 0
  · rw [ne16Linear_zero h0]; exact Laws.nonneg (spec := "ne16_latency") (layer := "Linear") (constr := "") s' hv' hs'
  · have h0' := nonzero_bits hv h h0
    rw [ne16Linear_eq h0, ne16Linear_eq h0', ← h.w_theta_alpha, ← h.out_features, ← h.in_features]

end PlinioVerif.Spec
