import PlinioVerif.Lemmas.CostNum
import PlinioVerif.Model.CostSpecs
import Mathlib.Order.Monotone.Basic
/-!
# Rounding helpers of the cost models: exactness on ℕ, bounds and monotonicity on ℚ (C16)

`ceilDiv ch n = ⌊(ch+n-1)/n⌋` (`FloorSTE`, `_floor`), `divAndCeil a b = ⌊(a-1)/b⌋+1`
(`DivAndCeilSTE`), `floorDiv` (`FloorDivideSTE`), `pmod` (`ModuloSTE`), `gate` (`GateSTE`), and the
NE16 ragged-tile sum.
-/
namespace PlinioVerif.Spec

@[gcongr] theorem ratFloor_le_ratFloor {a b : ℚ} (h : a ≤ b) : ratFloor a ≤ ratFloor b := ratFloor_mono h

/-! ### `ceilDiv` -/

@[gcongr] theorem ceilDiv_mono {a b n : ℚ} (hn : 0 < n) (h : a ≤ b) : ceilDiv a n ≤ ceilDiv b n := by
  unfold ceilDiv; gcongr
theorem ceilDiv_nonneg {a n : ℚ} (hn : 1 ≤ n) (h : 0 ≤ a) : 0 ≤ ceilDiv a n := by
  unfold ceilDiv; apply ratFloor_nonneg; apply div_nonneg <;> linarith
theorem ceilDiv_pos {a n : ℚ} (hn : 1 ≤ n) (h : 1 ≤ a) : 1 ≤ ceilDiv a n := by
  unfold ceilDiv; apply ratFloor_pos
  rw [le_div_iff₀ (by linarith)]; linarith
theorem ceilDiv_isInt (a n : ℚ) : ∃ z : ℤ, ceilDiv a n = z := ratFloor_isInt _
/-- on natural numbers `ceilDiv` is the ceiling division `(ch + N - 1) / N` … -/
theorem ceilDiv_nat (ch N : ℕ) (hN : 0 < N) : ceilDiv (ch : ℚ) (N : ℚ) = ((ch + N - 1) / N : ℕ) := by
  unfold ceilDiv
  have h1 : ((ch : ℚ) + N - 1) = ((ch + N - 1 : ℕ) : ℚ) := by
    rw [Nat.cast_sub (by omega)]; push_cast; ring
  rw [h1, ratFloor_eq, Rat.floor_natCast_div_natCast]
  norm_cast
/-- … which is `⌈ch / N⌉` -/
theorem ceilDiv_nat_eq_ceil (ch N : ℕ) (hN : 0 < N) : ceilDiv (ch : ℚ) (N : ℚ) = (⌈(ch : ℚ) / N⌉ : ℚ) := by
  rw [ceilDiv_nat ch N hN]
  have hN' : (0 : ℚ) < N := by exact_mod_cast hN
  have : ⌈(ch : ℚ) / N⌉ = (((ch + N - 1) / N : ℕ) : ℤ) := by
    rw [Int.ceil_eq_iff]
    have hdm := Nat.div_add_mod (ch + N - 1) N
    have hlt := Nat.mod_lt (ch + N - 1) hN
    set q := (ch + N - 1) / N
    set r := (ch + N - 1) % N
    have hq : (ch : ℚ) + N - 1 = N * q + r := by
      have : ((ch + N - 1 : ℕ) : ℚ) = (N * q + r : ℕ) := by rw [hdm]
      rw [Nat.cast_sub (by omega)] at this; push_cast at this; linarith
    have hr : (r : ℚ) ≤ N - 1 := by
      have : r + 1 ≤ N := hlt
      have : ((r + 1 : ℕ) : ℚ) ≤ N := by exact_mod_cast this
      push_cast at this; linarith
    have hr0 : (0 : ℚ) ≤ r := by positivity
    constructor
    · rw [lt_div_iff₀ hN']; push_cast; nlinarith
    · rw [div_le_iff₀ hN']; push_cast; nlinarith
  rw [this]; norm_cast
/-- on relaxed (fractional) counts `ceilDiv` stays between floor and ceiling of the quotient -/
theorem floor_le_ceilDiv {a n : ℚ} (hn : 1 ≤ n) : (⌊a / n⌋ : ℚ) ≤ ceilDiv a n := by
  unfold ceilDiv; rw [ratFloor_eq]
  have : a / n ≤ (a + n - 1) / n := by gcongr; linarith
  exact_mod_cast Int.floor_mono this
theorem ceilDiv_le_ceil {a n : ℚ} (hn : 1 ≤ n) : ceilDiv a n ≤ (⌈a / n⌉ : ℚ) := by
  unfold ceilDiv; rw [ratFloor_eq]
  have hn0 : (0 : ℚ) < n := by linarith
  have h1 : (a + n - 1) / n < a / n + 1 := by
    rw [div_add_one (ne_of_gt hn0), div_lt_div_iff_of_pos_right hn0]; linarith
  have h2 : (⌊(a + n - 1) / n⌋ : ℤ) ≤ ⌈a / n⌉ := by
    rw [Int.floor_le_iff]
    have := Int.le_ceil (a / n)
    linarith
  exact_mod_cast h2

/-! ### `divAndCeil` -/

@[gcongr] theorem divAndCeil_mono {a b n : ℚ} (hn : 0 < n) (h : a ≤ b) : divAndCeil a n ≤ divAndCeil b n := by
  unfold divAndCeil; gcongr
theorem divAndCeil_nonneg {a n : ℚ} (hn : 1 ≤ n) (h : 0 ≤ a) : 0 ≤ divAndCeil a n := by
  unfold divAndCeil; rw [ratFloor_eq]
  have hn0 : (0 : ℚ) < n := by linarith
  have : (-1 : ℤ) ≤ ⌊(a - 1) / n⌋ := by
    rw [Int.le_floor]; push_cast; rw [le_div_iff₀ hn0]; linarith
  have : (-1 : ℚ) ≤ (⌊(a - 1) / n⌋ : ℚ) := by exact_mod_cast this
  linarith
theorem divAndCeil_pos {a n : ℚ} (hn : 0 < n) (h : 1 ≤ a) : 1 ≤ divAndCeil a n := by
  unfold divAndCeil
  have : 0 ≤ ratFloor ((a - 1) / n) := ratFloor_nonneg (div_nonneg (by linarith) hn.le)
  linarith
theorem divAndCeil_isInt (a n : ℚ) : ∃ z : ℤ, divAndCeil a n = z := by
  obtain ⟨z, hz⟩ := ratFloor_isInt ((a - 1) / n)
  exact ⟨z + 1, by unfold divAndCeil; rw [hz]; push_cast; ring⟩
theorem floor_le_divAndCeil {a n : ℚ} (hn : 1 ≤ n) : (⌊a / n⌋ : ℚ) ≤ divAndCeil a n := by
  unfold divAndCeil; rw [ratFloor_eq]
  have hn0 : (0 : ℚ) < n := by linarith
  have h : (⌊a / n⌋ : ℤ) - 1 ≤ ⌊(a - 1) / n⌋ := by
    rw [Int.le_floor]; push_cast
    have h1 := Int.floor_le (a / n)
    have h2 : a / n - 1 ≤ (a - 1) / n := by
      rw [sub_div]; have : 1 / n ≤ 1 := by rw [div_le_one hn0]; exact hn
      linarith
    linarith
  have : ((⌊a / n⌋ : ℤ) : ℚ) - 1 ≤ (⌊(a - 1) / n⌋ : ℚ) := by exact_mod_cast h
  linarith
theorem divAndCeil_le_ceil {a n : ℚ} (hn : 0 < n) : divAndCeil a n ≤ (⌈a / n⌉ : ℚ) := by
  unfold divAndCeil; rw [ratFloor_eq]
  have h : (⌊(a - 1) / n⌋ : ℤ) ≤ ⌈a / n⌉ - 1 := by
    rw [Int.floor_le_iff]; push_cast
    have h1 := Int.le_ceil (a / n)
    have h2 : (a - 1) / n < a / n := by
      rw [div_lt_div_iff_of_pos_right hn]; linarith
    linarith
  have : (⌊(a - 1) / n⌋ : ℚ) ≤ ((⌈a / n⌉ : ℤ) : ℚ) - 1 := by exact_mod_cast h
  linarith
/-- on natural numbers `divAndCeil` is `⌈a / b⌉` -/
theorem divAndCeil_nat (a b : ℕ) (hb : 0 < b) : divAndCeil (a : ℚ) (b : ℚ) = (⌈(a : ℚ) / b⌉ : ℚ) := by
  have hb' : (1 : ℚ) ≤ b := by exact_mod_cast hb
  apply le_antisymm (divAndCeil_le_ceil (by linarith))
  -- ⌈a/b⌉ ≤ ⌊(a-1)/b⌋ + 1 : with a = b q + r, r < b
  unfold divAndCeil; rw [ratFloor_eq]
  have hb0 : (0 : ℚ) < b := by linarith
  have h : (⌈(a : ℚ) / b⌉ : ℤ) ≤ ⌊((a : ℚ) - 1) / b⌋ + 1 := by
    rw [Int.ceil_le]; push_cast
    -- a / b ≤ ⌊(a-1)/b⌋ + 1 ⇐ (a-1)/b < ⌊(a-1)/b⌋ + 1 and both sides multiples of 1/b
    have hz : ∃ z : ℤ, ⌊((a : ℚ) - 1) / b⌋ = z := ⟨_, rfl⟩
    obtain ⟨z, hz⟩ := hz
    rw [hz]
    have h1 : ((a : ℚ) - 1) / b < z + 1 := by rw [← hz]; exact Int.lt_floor_add_one _
    rw [div_lt_iff₀ hb0] at h1
    rw [div_le_iff₀ hb0]
    have h2 : ((a : ℤ) - 1 : ℚ) < ((z + 1) * b : ℤ) := by push_cast; linarith
    have h3 : (a : ℤ) - 1 < (z + 1) * b := by exact_mod_cast h2
    have h4 : (a : ℤ) ≤ (z + 1) * b := by omega
    have : ((a : ℤ) : ℚ) ≤ (((z + 1) * b : ℤ) : ℚ) := by exact_mod_cast h4
    push_cast at this; linarith
  have : ((⌈(a : ℚ) / b⌉ : ℤ) : ℚ) ≤ ((⌊((a : ℚ) - 1) / b⌋ + 1 : ℤ) : ℚ) := by exact_mod_cast h
  push_cast at this; linarith

/-! ### `floorDiv`, `pmod` -/

@[gcongr] theorem floorDiv_mono {a b n : ℚ} (hn : 0 < n) (h : a ≤ b) : floorDiv a n ≤ floorDiv b n := by
  unfold floorDiv; gcongr
theorem floorDiv_nonneg {a n : ℚ} (hn : 0 ≤ n) (h : 0 ≤ a) : 0 ≤ floorDiv a n :=
  ratFloor_nonneg (div_nonneg h hn)
theorem floorDiv_isInt (a n : ℚ) : ∃ z : ℤ, floorDiv a n = z := ratFloor_isInt _
/-- on natural numbers `floorDiv` is the integer quotient -/
theorem floorDiv_nat (a b : ℕ) : floorDiv (a : ℚ) (b : ℚ) = (a / b : ℕ) := by
  unfold floorDiv; rw [ratFloor_eq, Rat.floor_natCast_div_natCast]; norm_cast
theorem floorDiv_eq_floor (a b : ℚ) : floorDiv a b = (⌊a / b⌋ : ℚ) := rfl
/-- on natural numbers `pmod` is the remainder -/
theorem pmod_nat (a b : ℕ) : pmod (a : ℚ) (b : ℚ) = (a % b : ℕ) := by
  unfold pmod; rw [ratFloor_eq, Rat.floor_natCast_div_natCast]
  have := Nat.div_add_mod a b
  have h : (a : ℚ) = b * (a / b : ℕ) + (a % b : ℕ) := by exact_mod_cast this.symm
  have e : ((((a : ℤ) / (b : ℤ) : ℤ)) : ℚ) = ((a / b : ℕ) : ℚ) := by norm_cast
  rw [e]; linarith
theorem pmod_nonneg {a n : ℚ} (hn : 0 < n) : 0 ≤ pmod a n := by
  unfold pmod
  have := ratFloor_le (a / n)
  have h2 : n * ratFloor (a / n) ≤ n * (a / n) := by gcongr
  rw [mul_div_cancel₀ a (ne_of_gt hn)] at h2; linarith
theorem pmod_lt {a n : ℚ} (hn : 0 < n) : pmod a n < n := by
  unfold pmod
  have := lt_ratFloor_add_one (a / n)
  have h2 : n * (a / n) < n * (ratFloor (a / n) + 1) := by gcongr
  rw [mul_div_cancel₀ a (ne_of_gt hn)] at h2; linarith
/-- division with remainder -/
theorem floorDiv_add_pmod (a n : ℚ) : n * floorDiv a n + pmod a n = a := by
  unfold floorDiv pmod; ring

/-! ### `gate` -/

theorem gate_nonneg (c t : ℚ) : 0 ≤ gate c t := by unfold gate; split_ifs <;> norm_num
theorem gate_le_one (c t : ℚ) : gate c t ≤ 1 := by unfold gate; split_ifs <;> norm_num
@[gcongr] theorem gate_mono {c c' t : ℚ} (h : c ≤ c') : gate c t ≤ gate c' t := by
  unfold gate; split_ifs with h1 h2 <;> norm_num
  exact h2 (le_trans h1 h)
theorem gate_of_le {c t : ℚ} (h : t ≤ c) : gate c t = 1 := by unfold gate; rw [if_pos h]

/-! ### NE16 ragged tiles -/

theorem ragged_tail_nonneg {it : ℚ → ℚ} (hp : ∀ k, 0 ≤ k → 0 ≤ it k) {K c : ℚ} (hK : 0 < K) :
    0 ≤ (if pmod c K = 0 then 0 else it (pmod c K)) := by
  split_ifs
  · exact le_rfl
  · exact hp _ (pmod_nonneg hK)

theorem ragged_nonneg {it : ℚ → ℚ} (hp : ∀ k, 0 ≤ k → 0 ≤ it k) {K c : ℚ} (hK : 0 < K) (hc : 0 ≤ c) :
    0 ≤ ragged it K c := by
  unfold ragged
  have := ragged_tail_nonneg hp (c := c) hK
  have := floorDiv_nonneg hK.le hc
  have := hp K hK.le
  positivity

/-- `ragged` is monotone in the channel count: `c ↦ ⌊c/K⌋·it K + [c mod K ≠ 0]·it (c mod K)` for a
monotone non-negative per-tile latency `it` — a partial tile is never cheaper than no tile and
never dearer than a full one.  For every rational (relaxed) channel count. -/
theorem ragged_mono_c {it : ℚ → ℚ} (hm : ∀ k k', 0 ≤ k → k ≤ k' → it k ≤ it k')
    (hp : ∀ k, 0 ≤ k → 0 ≤ it k) {K : ℚ} (hK : 0 < K) {c c' : ℚ} (hc : 0 ≤ c) (h : c ≤ c') :
    ragged it K c ≤ ragged it K c' := by
  unfold ragged
  have hr := pmod_nonneg (a := c) hK
  have hr' := pmod_nonneg (a := c') hK
  have hlt := pmod_lt (a := c) hK
  have hdm := floorDiv_add_pmod c K
  have hdm' := floorDiv_add_pmod c' K
  have hq0 : 0 ≤ floorDiv c K := floorDiv_nonneg hK.le hc
  have hitK : 0 ≤ it K := hp K hK.le
  have tail_le : (if pmod c K = 0 then 0 else it (pmod c K)) ≤ it K := by
    split_ifs
    · exact hitK
    · exact hm _ K hr hlt.le
  have tail' := ragged_tail_nonneg hp (c := c') hK
  rcases (Int.floor_mono (div_le_div_of_nonneg_right h hK.le)).lt_or_eq with hlt' | heq
  · -- at least one more full tile
    have h1 : (⌊c / K⌋ : ℤ) + 1 ≤ ⌊c' / K⌋ := hlt'
    have h2 : floorDiv c K + 1 ≤ floorDiv c' K := by
      rw [floorDiv_eq_floor, floorDiv_eq_floor]; exact_mod_cast h1
    calc floorDiv c K * it K + (if pmod c K = 0 then 0 else it (pmod c K))
        ≤ floorDiv c K * it K + it K := by linarith
      _ = (floorDiv c K + 1) * it K := by ring
      _ ≤ floorDiv c' K * it K := by gcongr
      _ ≤ floorDiv c' K * it K + (if pmod c' K = 0 then 0 else it (pmod c' K)) := by linarith
  · -- same number of full tiles: the partial tile grows
    have hq : floorDiv c K = floorDiv c' K := by
      rw [floorDiv_eq_floor, floorDiv_eq_floor, heq]
    have hrr : pmod c K ≤ pmod c' K := by
      have e1 : pmod c K = c - K * floorDiv c K := by linarith
      have e2 : pmod c' K = c' - K * floorDiv c' K := by linarith
      rw [e1, e2, hq]; linarith
    rw [hq]
    have : (if pmod c K = 0 then 0 else it (pmod c K)) ≤ (if pmod c' K = 0 then 0 else it (pmod c' K)) := by
      by_cases h0 : pmod c K = 0
      · rw [if_pos h0]; exact tail'
      · have hpos : 0 < pmod c K := lt_of_le_of_ne hr (Ne.symm h0)
        have h0' : pmod c' K ≠ 0 := ne_of_gt (lt_of_lt_of_le hpos hrr)
        rw [if_neg h0, if_neg h0']; exact hm _ _ hr hrr
    linarith

/-- `ragged` is monotone in the per-tile latency -/
theorem ragged_mono_it {it it' : ℚ → ℚ} (hle : ∀ k, 0 ≤ k → it k ≤ it' k) {K c : ℚ} (hK : 0 < K)
    (hc : 0 ≤ c) : ragged it K c ≤ ragged it' K c := by
  unfold ragged
  have hq0 : 0 ≤ floorDiv c K := floorDiv_nonneg hK.le hc
  have h1 := hle K hK.le
  have h2 : (if pmod c K = 0 then 0 else it (pmod c K)) ≤ (if pmod c K = 0 then 0 else it' (pmod c K)) := by
    split_ifs
    · exact le_rfl
    · exact hle _ (pmod_nonneg hK)
  have : floorDiv c K * it K ≤ floorDiv c K * it' K := by gcongr
  linarith

/-- on natural channel counts `ragged` is `(c / K)·it K + [c % K ≠ 0]·it (c % K)` -/
theorem ragged_nat (it : ℚ → ℚ) (K c : ℕ) :
    ragged it (K : ℚ) (c : ℚ) = (c / K : ℕ) * it K + if c % K = 0 then 0 else it ((c % K : ℕ) : ℚ) := by
  unfold ragged
  rw [floorDiv_nat, pmod_nat]
  simp only [Nat.cast_eq_zero]

end PlinioVerif.Spec
