import PlinioVerif.Model.SuperNet
import Mathlib.Data.List.Basic
import Mathlib.Tactic.Linarith
import Mathlib.Algebra.Module.Defs
import Mathlib.Algebra.BigOperators.Group.List.Basic
import Mathlib.Algebra.Order.Field.Basic
import Mathlib.Algebra.BigOperators.Group.Finset.Basic
import Mathlib.Algebra.Order.BigOperators.Group.Finset
import Mathlib.Algebra.Order.BigOperators.Group.List
import Mathlib.Algebra.BigOperators.Ring.Finset
/-!
# Lemmas about the SuperNet model (C03, C06)
-/
namespace PlinioVerif.SuperNet
open Node

theorem getD_ge {α} (l : List α) (n : Nat) (d : α) (h : l.length ≤ n) : l.getD n d = d := by
  rw [List.getD_eq_getElem?_getD, List.getElem?_eq_none h]; rfl

theorem getD_lt {α} (l : List α) (n : Nat) (d : α) (h : n < l.length) : l.getD n d = l[n] := by
  rw [List.getD_eq_getElem?_getD, List.getElem?_eq_getElem h]; rfl

/-! ## the forward scan -/
section scan
variable {β : Type} (step : List β → Node → β)

theorem scanFrom_append (acc : List β) (g1 g2 : List Node) :
    scanFrom step acc (g1 ++ g2) = scanFrom step (scanFrom step acc g1) g2 := by
  induction g1 generalizing acc with
  | nil => rfl
  | cons nd g1 ih => simp only [List.cons_append, scanFrom, ih]

theorem scanFrom_prefix (acc : List β) (g : List Node) :
    ∃ t, scanFrom step acc g = acc ++ t ∧ t.length = g.length := by
  induction g generalizing acc with
  | nil => exact ⟨[], by simp [scanFrom]⟩
  | cons nd g ih =>
    obtain ⟨t, ht, hl⟩ := ih (acc ++ [step acc nd])
    exact ⟨step acc nd :: t, by simp [scanFrom, ht], by simp [hl]⟩

theorem length_scanFrom (acc : List β) (g : List Node) :
    (scanFrom step acc g).length = acc.length + g.length := by
  obtain ⟨t, ht, hl⟩ := scanFrom_prefix step acc g
  simp [ht, hl]

theorem getD_scanFrom_lt (acc : List β) (g : List Node) (i : Nat) (d : β) (h : i < acc.length) :
    (scanFrom step acc g).getD i d = acc.getD i d := by
  obtain ⟨t, ht, -⟩ := scanFrom_prefix step acc g
  rw [ht]; simp [List.getD, List.getElem?_append_left h]

theorem getD_scanFrom_mid (g1 g2 : List Node) (nd : Node) (d : β) :
    (scanFrom step [] (g1 ++ nd :: g2)).getD g1.length d = step (scanFrom step [] g1) nd := by
  have hl : (scanFrom step [] g1).length = g1.length := by rw [length_scanFrom]; simp
  rw [scanFrom_append]
  simp only [scanFrom]
  rw [getD_scanFrom_lt _ _ _ _ _ (by simp [hl])]
  simp [List.getD, ← hl]

theorem getD_scanFrom_pre (g1 g2 : List Node) (a : Nat) (d : β) (h : a < g1.length) :
    (scanFrom step [] (g1 ++ g2)).getD a d = (scanFrom step [] g1).getD a d := by
  rw [scanFrom_append, getD_scanFrom_lt]
  rw [length_scanFrom]; simpa using h

/-- slot `i` of the scan is `step` applied to the scan of the first `i` nodes -/
theorem getD_scanFrom (g : List Node) (i : Nat) (d : β) (h : i < g.length) :
    (scanFrom step [] g).getD i d = step (scanFrom step [] (g.take i)) (g.getD i Node.E) := by
  have h1 := getD_scanFrom_mid step (g.take i) (g.drop (i + 1)) (g.getD i Node.E) d
  have hg : g.take i ++ (g.getD i Node.E :: g.drop (i + 1)) = g := by
    have : g.getD i Node.E = g[i] := by simp [List.getD, h]
    rw [this]; simp
  rw [hg] at h1
  rw [← h1]; congr 1; simp; omega

/-- the scan of a prefix is a prefix of the scan -/
theorem getD_scanFrom_take (g : List Node) (i a : Nat) (d : β) (h : a < i) (hi : i ≤ g.length) :
    (scanFrom step [] (g.take i)).getD a d = (scanFrom step [] g).getD a d := by
  have h1 := getD_scanFrom_pre step (g.take i) (g.drop i) a d (by simp; omega)
  rw [List.take_append_drop] at h1
  exact h1.symm

end scan

/-! ## nodes of a graph -/

theorem nd_of_ge (g : Graph) (i : Nat) (h : g.length ≤ i) : g.nd i = Node.E := by
  simp [Graph.nd, List.getD, List.getElem?_eq_none h]

theorem nd_set (g : Graph) (i j : Nat) (x : Node) :
    Graph.nd (g.set i x) j = if i = j ∧ j < g.length then x else g.nd j := by
  unfold Graph.nd
  by_cases h : i = j
  · subst h
    by_cases hl : i < g.length
    · simp [List.getD, hl]
    · simp [List.getD, hl]
  · simp [List.getD, h, List.getElem?_set_ne h]

theorem nd_set_E (g : Graph) (i j : Nat) :
    Graph.nd (g.set i Node.E) j = if i = j then Node.E else g.nd j := by
  rw [nd_set]
  by_cases h : i = j
  · subst h
    by_cases hl : i < g.length
    · simp [hl]
    · simp [hl, nd_of_ge g i (by omega)]
  · simp [h]

theorem nd_replaceUses (n b : Nat) (g : Graph) (i : Nat) :
    Graph.nd (replaceUses n b g) i = ⟨(g.nd i).op, (g.nd i).args.map (substId n b)⟩ := by
  unfold replaceUses Graph.nd
  by_cases h : i < g.length
  · simp [List.getD, h]
  · simp [List.getD, h, Node.E]

@[simp] theorem length_replaceUses (n b : Nat) (g : Graph) : (replaceUses n b g).length = g.length := by
  simp [replaceUses]

theorem hasUsers_iff (g : Graph) (i : Nat) : hasUsers g i = true ↔ ∃ j, i ∈ (g.nd j).args := by
  unfold hasUsers
  simp only [List.any_eq_true, List.contains_iff_mem]
  constructor
  · rintro ⟨nd, hnd, hi⟩
    obtain ⟨j, hj, rfl⟩ := List.getElem_of_mem hnd
    exact ⟨j, by simpa [Graph.nd, List.getD, hj] using hi⟩
  · rintro ⟨j, hj⟩
    by_cases hl : j < g.length
    · exact ⟨g[j], List.getElem_mem hl, by simpa [Graph.nd, List.getD, hl] using hj⟩
    · rw [nd_of_ge g j (by omega)] at hj; simp [Node.E] at hj

theorem live_iff (nd : Node) : nd.live = true ↔ nd.op ≠ .erased := by
  simp [Node.live]

theorem E_not_live : Node.E.live = false := by simp [Node.live, Node.E]

theorem live_lt (g : Graph) (i : Nat) (h : (g.nd i).live = true) : i < g.length := by
  by_contra hc
  rw [nd_of_ge g i (by omega), E_not_live] at h; cases h

/-! ## hard evaluation: the value of a node is a function of the values of its arguments -/
section eval
variable {V : Type} (En : Env V) (win : String → Nat)

theorem evalNode_congr {v v' : Nat → V} {nd nd' : Node} (hop : nd.op = nd'.op)
    (hargs : nd.args.map v = nd'.args.map v') : evalNode En win v nd = evalNode En win v' nd' := by
  unfold evalNode
  rw [← hop, hargs]

/-- graphs in SSA form: arguments are earlier nodes -/
def SSA (g : Graph) : Prop := ∀ i, ∀ a ∈ (g.nd i).args, a < i

/-- well-formed traced graphs: SSA, no erased slot -/
def WF (g : Graph) : Prop := SSA g ∧ ∀ i, i < g.length → (g.nd i).live = true

theorem valAt_eq {g : Graph} (hs : SSA g) (i : Nat) (h : i < g.length) :
    valAt En win g i = evalNode En win (valAt En win g) (g.nd i) := by
  unfold valAt hardEval
  rw [getD_scanFrom _ g i En.d h]
  apply evalNode_congr _ _ rfl
  apply List.map_congr_left
  intro a ha
  exact getD_scanFrom_take _ g i a En.d (hs i a ha) (by omega)

theorem valAt_of_ge (g : Graph) (i : Nat) (h : g.length ≤ i) : valAt En win g i = En.d := by
  unfold valAt hardEval
  apply getD_ge
  rw [length_scanFrom]; simpa using h

end eval


/-! ## resolving choices: the node that replaces `a` after export -/

/-- follow winners: a combiner stands for the (resolved) output of its winning branch -/
def res (win : String → Nat) (g : Graph) (a : Nat) : Nat :=
  match (g.nd a).op with
  | .combine c =>
    match (g.nd a).args[win c]? with
    | some b => if _h : b < a then res win g b else a
    | none => a
  | _ => a
termination_by a

theorem res_le (win : String → Nat) (g : Graph) (a : Nat) : res win g a ≤ a := by
  induction a using Nat.strong_induction_on with
  | _ a ih =>
    rw [res]
    split
    · split
      · split
        · rename_i b _ hb; exact Nat.le_trans (ih b hb) (Nat.le_of_lt hb)
        · exact Nat.le_refl _
      · exact Nat.le_refl _
    · exact Nat.le_refl _

theorem res_of_not_combine (win : String → Nat) (g : Graph) (a : Nat)
    (h : (g.nd a).isCombine = false) : res win g a = a := by
  rw [res]
  split
  · rename_i c hc; simp [Node.isCombine, hc] at h
  · rfl

theorem res_combine (win : String → Nat) (g : Graph) (a b : Nat) (c : String)
    (hc : (g.nd a).op = .combine c) (hb : (g.nd a).args[win c]? = some b) (hlt : b < a) :
    res win g a = res win g b := by
  rw [res]
  simp only [hc, hb, hlt, dite_true]

section evalres
variable {V : Type} (En : Env V) (win : String → Nat)

/-- under hard selection a node and its resolution have the same value -/
theorem valAt_res {g : Graph} (hs : SSA g) (a : Nat) :
    valAt En win g (res win g a) = valAt En win g a := by
  induction a using Nat.strong_induction_on with
  | _ a ih =>
    by_cases hlen : a < g.length
    · cases hop : (g.nd a).op with
      | combine c =>
        cases hb : (g.nd a).args[win c]? with
        | none => rw [res]; simp only [hop, hb]
        | some b =>
          have hmem : b ∈ (g.nd a).args := List.mem_of_getElem? hb
          have hlt : b < a := hs a b hmem
          rw [res_combine win g a b c hop hb hlt, ih b hlt, valAt_eq En win hs a hlen]
          unfold evalNode
          simp only [hop]
          rw [List.getD_eq_getElem?_getD, List.getElem?_map, hb]; rfl
      | input k => rw [res_of_not_combine]; simp [Node.isCombine, hop]
      | leaf t => rw [res_of_not_combine]; simp [Node.isCombine, hop]
      | output => rw [res_of_not_combine]; simp [Node.isCombine, hop]
      | erased => rw [res_of_not_combine]; simp [Node.isCombine, hop]
    · rw [res_of_not_combine]
      rw [nd_of_ge g a (by omega)]; rfl

end evalres


/-! ## the invariant of the export loop -/

/-- after the nodes `< k` have been visited, argument `a` has become `rho k a` -/
def rho (win : String → Nat) (g0 : Graph) (k a : Nat) : Nat := if a < k then res win g0 a else a

theorem rho_le (win : String → Nat) (g0 : Graph) (k a : Nat) : rho win g0 k a ≤ a := by
  unfold rho; split
  · exact res_le win g0 a
  · exact Nat.le_refl _

/-- what every stage of the surgery preserves: slots are either erased or the original node
with resolved arguments; arguments of surviving nodes survive -/
structure Core (win : String → Nat) (g0 : Graph) (k : Nat) (g : Graph) : Prop where
  len : g.length = g0.length
  shape : ∀ i, g.nd i = Node.E ∨ g.nd i = ⟨(g0.nd i).op, (g0.nd i).args.map (rho win g0 k)⟩
  closed : ∀ i, (g.nd i).live = true → ∀ a ∈ (g.nd i).args, (g.nd a).live = true

theorem Core.ssa {win : String → Nat} {g0 g : Graph} {k : Nat} (h : Core win g0 k g) (hs : SSA g0) :
    SSA g := by
  intro i a ha
  rcases h.shape i with hE | hsh
  · rw [hE] at ha; simp [Node.E] at ha
  · rw [hsh] at ha
    simp only [List.mem_map] at ha
    obtain ⟨a0, ha0, rfl⟩ := ha
    exact Nat.lt_of_le_of_lt (rho_le win g0 k a0) (hs i a0 ha0)

theorem Core.op_eq {win : String → Nat} {g0 g : Graph} {k : Nat} (h : Core win g0 k g) (i : Nat)
    (hl : (g.nd i).live = true) : (g.nd i).op = (g0.nd i).op ∧
      (g.nd i).args = (g0.nd i).args.map (rho win g0 k) := by
  rcases h.shape i with hE | hsh
  · rw [hE, E_not_live] at hl; cases hl
  · rw [hsh]; exact ⟨rfl, rfl⟩

theorem Core.init {win : String → Nat} {g0 : Graph} (h : WF g0) : Core win g0 0 g0 := by
  refine ⟨rfl, fun i => Or.inr ?_, ?_⟩
  · have : rho win g0 0 = id := by funext a; simp [rho]
    rw [this, List.map_id]
  · intro i hi a ha
    exact h.2 a (Nat.lt_trans (h.1 i a ha) (live_lt g0 i hi))

theorem eraseNode_eq_some {g g' : Graph} {i : Nat} (h : eraseNode g i = some g') :
    hasUsers g i = false ∧ g' = g.set i Node.E := by
  unfold eraseNode at h
  split at h
  · cases h
  · rename_i hu; exact ⟨by simpa using hu, by injection h with h; exact h.symm⟩

theorem Core.erase {win : String → Nat} {g0 g g' : Graph} {k i : Nat} (h : Core win g0 k g)
    (he : eraseNode g i = some g') : Core win g0 k g' := by
  obtain ⟨hu, rfl⟩ := eraseNode_eq_some he
  have hno : ∀ j, i ∉ (g.nd j).args := by
    intro j hj
    have : hasUsers g i = true := (hasUsers_iff g i).2 ⟨j, hj⟩
    rw [hu] at this; cases this
  refine ⟨by simp [h.len], ?_, ?_⟩
  · intro j
    rw [nd_set_E]
    split
    · exact Or.inl rfl
    · exact h.shape j
  · intro j hj a ha
    rw [nd_set_E] at hj ha
    by_cases hij : i = j
    · rw [if_pos hij, E_not_live] at hj; cases hj
    · rw [if_neg hij] at hj ha
      rw [nd_set_E]
      by_cases hia : i = a
      · subst hia; exact absurd ha (hno j)
      · rw [if_neg hia]; exact h.closed j hj a ha

/-- erasing only ever turns slots into `erased` -/
theorem eraseNode_nd {g g' : Graph} {i : Nat} (he : eraseNode g i = some g') (j : Nat) :
    Graph.nd g' j = if i = j then Node.E else g.nd j := by
  obtain ⟨-, rfl⟩ := eraseNode_eq_some he
  exact nd_set_E g i j

theorem Core.eraseAll {win : String → Nat} {g0 : Graph} {k : Nat} :
    ∀ (is : List Nat) {g g' : Graph}, Core win g0 k g → eraseAll is g = some g' → Core win g0 k g'
  | [], g, g', h, he => by simp [PlinioVerif.SuperNet.eraseAll] at he; subst he; exact h
  | i :: is, g, g', h, he => by
    simp only [PlinioVerif.SuperNet.eraseAll, Option.bind_eq_some_iff] at he
    obtain ⟨g1, h1, h2⟩ := he
    exact Core.eraseAll is (h.erase h1) h2

theorem eraseAll_nd : ∀ (is : List Nat) {g g' : Graph}, eraseAll is g = some g' →
    ∀ j, Graph.nd g' j = if j ∈ is then Node.E else g.nd j
  | [], g, g', he, j => by simp [eraseAll] at he; subst he; simp
  | i :: is, g, g', he, j => by
    simp only [eraseAll, Option.bind_eq_some_iff] at he
    obtain ⟨g1, h1, h2⟩ := he
    rw [eraseAll_nd is h2 j, eraseNode_nd h1 j]
    by_cases hj : j ∈ is
    · simp [hj]
    · by_cases hij : i = j
      · subst hij; simp
      · have : j ≠ i := fun h => hij h.symm
        simp [hj, hij, this]


theorem substId_rho (win : String → Nat) (g0 : Graph) (k best : Nat) (hres : res win g0 k = best)
    (a : Nat) : substId k best (rho win g0 k a) = rho win g0 (k + 1) a := by
  unfold substId rho
  by_cases h1 : a < k
  · have : res win g0 a ≠ k := by have := res_le win g0 a; omega
    simp [h1, this, Nat.lt_succ_of_lt h1]
  · by_cases h2 : a = k
    · subst h2; simp [hres]
    · have h3 : ¬ a < k + 1 := by omega
      simp [h1, h2, h3]

/-- the winner a live combiner node currently points to is the resolution of the node -/
theorem Core.res_eq {win : String → Nat} {g0 g : Graph} {k : Nat} (h : Core win g0 k g) (hs : SSA g0)
    {c : String} {best : Nat} (hop : (g.nd k).op = .combine c)
    (hb : (g.nd k).args[win c]? = some best) : res win g0 k = best := by
  have hl : (g.nd k).live = true := by simp [Node.live, hop]
  obtain ⟨ho, ha⟩ := h.op_eq k hl
  rw [ha, List.getElem?_map] at hb
  cases hb0 : (g0.nd k).args[win c]? with
  | none => rw [hb0] at hb; cases hb
  | some b0 =>
    rw [hb0] at hb
    simp only [Option.map_some, Option.some.injEq] at hb
    have hlt : b0 < k := hs k b0 (List.mem_of_getElem? hb0)
    rw [res_combine win g0 k b0 c (ho ▸ hop) hb0 hlt, ← hb]
    simp [rho, hlt]

theorem Core.replace {win : String → Nat} {g0 g : Graph} {k : Nat} (h : Core win g0 k g) (hs : SSA g0)
    {c : String} {best : Nat} (hop : (g.nd k).op = .combine c)
    (hb : (g.nd k).args[win c]? = some best) : Core win g0 (k + 1) (replaceUses k best g) := by
  have hres := h.res_eq hs hop hb
  have hl : (g.nd k).live = true := by simp [Node.live, hop]
  refine ⟨by simp [h.len], ?_, ?_⟩
  · intro i
    rw [nd_replaceUses]
    rcases h.shape i with hE | hsh
    · left; rw [hE]; rfl
    · right; rw [hsh]
      simp only [List.map_map]
      congr 1
      apply List.map_congr_left
      intro a _
      exact substId_rho win g0 k best hres a
  · intro i hi a ha
    rw [nd_replaceUses] at hi ha
    have hi' : (g.nd i).live = true := by simpa [Node.live] using hi
    simp only [List.mem_map] at ha
    obtain ⟨a0, ha0, rfl⟩ := ha
    rw [nd_replaceUses]
    have : (g.nd (substId k best a0)).live = true := by
      unfold substId
      split
      · exact h.closed k hl best (List.mem_of_getElem? hb)
      · exact h.closed i hi' a0 ha0
    simpa [Node.live] using this

/-- after `replace_all_uses_with(best)` nobody uses the combiner any more -/
theorem no_users_after_replace {g : Graph} (hs : SSA g) {k best : Nat} (hbk : best < k) :
    hasUsers (replaceUses k best g) k = false := by
  by_contra hc
  have hc' : hasUsers (replaceUses k best g) k = true := by simpa using hc
  obtain ⟨j, hj⟩ := (hasUsers_iff _ _).1 hc'
  rw [nd_replaceUses] at hj
  simp only [List.mem_map] at hj
  obtain ⟨a, -, ha⟩ := hj
  unfold substId at ha
  split at ha <;> omega

theorem isCombine_iff (nd : Node) : nd.isCombine = true ↔ ∃ c, nd.op = .combine c := by
  unfold Node.isCombine
  split
  · rename_i c h; simp [h]
  · rename_i h; simp; intro c hc; exact h c hc

theorem isCombine_E : Node.E.isCombine = false := rfl

/-! ## the nodes of the discarded branches -/

theorem length_backMarks (ok seed : Nat → Bool) : ∀ (rest : List Node) (i : Nat),
    (backMarks ok seed rest i).length = rest.length
  | [], _ => rfl
  | _ :: rest, i => by simp [backMarks, length_backMarks ok seed rest (i + 1)]

/-- the marks computed for a suffix are the suffix of the marks -/
theorem backMarks_drop (ok seed : Nat → Bool) : ∀ (rest : List Node) (i k : Nat),
    (backMarks ok seed rest i).drop k = backMarks ok seed (rest.drop k) (i + k)
  | rest, i, 0 => by simp
  | [], i, k + 1 => by simp [backMarks]
  | _ :: rest, i, k + 1 => by
    simp only [backMarks, List.drop_succ_cons]
    rw [backMarks_drop ok seed rest (i + 1) k]
    congr 1; omega

/-- mark of node `i` -/
def bmark (g : Graph) (ok seed : Nat → Bool) (i : Nat) : Bool := (backMarks ok seed g 0).getD i false

theorem getD_drop' {α} (l : List α) (k j : Nat) (d : α) : (l.drop k).getD j d = l.getD (k + j) d := by
  simp [List.getD, List.getElem?_drop]

theorem any_zip_eq (q : Node → Bool) : ∀ (m : List Bool) (rest : List Node), m.length = rest.length →
    ((m.zip rest).any fun p => p.1 && q p.2) =
      (List.range rest.length).any fun j => m.getD j false && q (rest.getD j Node.E)
  | [], [], _ => rfl
  | [], _ :: _, h => by simp at h
  | _ :: _, [], h => by simp at h
  | b :: m, nd :: rest, h => by
    have ih := any_zip_eq q m rest (by simpa using h)
    simp only [List.zip_cons_cons, List.any_cons, ih, List.length_cons, List.range_succ_eq_map,
      List.any_map]
    congr 1

/-- characterisation of the backward marking -/
theorem bmark_eq (g : Graph) (ok seed : Nat → Bool) (i : Nat) (hi : i < g.length) :
    bmark g ok seed i = (ok i && (seed i ||
      (List.range (g.length - (i + 1))).any fun j =>
        bmark g ok seed (i + 1 + j) && (g.nd (i + 1 + j)).args.contains i)) := by
  unfold bmark
  have h1 := backMarks_drop ok seed g 0 i
  have h2 := backMarks_drop ok seed g 0 (i + 1)
  simp only [Nat.zero_add] at h1 h2
  have hd : g.drop i = g[i] :: g.drop (i + 1) := by simp
  have : (backMarks ok seed g 0).getD i false = ((backMarks ok seed g 0).drop i).getD 0 false := by
    rw [getD_drop']; simp
  rw [this, h1, hd]
  simp only [backMarks]
  rw [← h2]
  simp only [List.getD_cons_zero]
  rw [any_zip_eq (fun nd => nd.args.contains i) _ _ (by rw [List.length_drop, List.length_drop, length_backMarks])]
  simp only [List.length_drop]
  congr 3
  funext j
  rw [getD_drop']
  unfold Graph.nd
  rw [getD_drop']

/-- marked ⇒ `ok` -/
theorem bmark_ok {g : Graph} {ok seed : Nat → Bool} {i : Nat} (h : bmark g ok seed i = true) : ok i = true := by
  by_cases hi : i < g.length
  · rw [bmark_eq g ok seed i hi] at h
    simp only [Bool.and_eq_true] at h; exact h.1
  · unfold bmark at h
    rw [List.getD_eq_getElem?_getD, List.getElem?_eq_none (by rw [length_backMarks]; omega)] at h
    cases h

theorem bmark_lt {g : Graph} {ok seed : Nat → Bool} {i : Nat} (h : bmark g ok seed i = true) : i < g.length := by
  by_contra hi
  unfold bmark at h
  rw [List.getD_eq_getElem?_getD, List.getElem?_eq_none (by rw [length_backMarks]; omega)] at h
  cases h

/-- a seed that is `ok` is marked -/
theorem bmark_seed {g : Graph} {ok seed : Nat → Bool} {i : Nat} (hi : i < g.length) (hok : ok i = true)
    (hs : seed i = true) : bmark g ok seed i = true := by
  rw [bmark_eq g ok seed i hi]; simp [hok, hs]

/-- marks propagate from a node to its (earlier, `ok`) arguments -/
theorem bmark_arg {g : Graph} {ok seed : Nat → Bool} {a u : Nat} (hu : bmark g ok seed u = true)
    (ha : a ∈ (g.nd u).args) (hau : a < u) (hok : ok a = true) : bmark g ok seed a = true := by
  have hul := bmark_lt hu
  rw [bmark_eq g ok seed a (by omega)]
  simp only [hok, Bool.true_and, Bool.or_eq_true, List.any_eq_true, List.mem_range, Bool.and_eq_true,
    List.contains_iff_mem]
  right
  refine ⟨u - (a + 1), by omega, ?_, ?_⟩
  · rw [show a + 1 + (u - (a + 1)) = u by omega]; exact hu
  · rw [show a + 1 + (u - (a + 1)) = u by omega]; exact ha

/-- conversely a marked node is a seed or an argument of a marked later node -/
theorem bmark_cases {g : Graph} {ok seed : Nat → Bool} {i : Nat} (h : bmark g ok seed i = true) :
    seed i = true ∨ ∃ u, i < u ∧ bmark g ok seed u = true ∧ i ∈ (g.nd u).args := by
  have hi := bmark_lt h
  rw [bmark_eq g ok seed i hi] at h
  simp only [Bool.and_eq_true, Bool.or_eq_true, List.any_eq_true, List.mem_range,
    List.contains_iff_mem] at h
  rcases h.2 with h1 | ⟨j, _, h2, h3⟩
  · exact Or.inl h1
  · exact Or.inr ⟨i + 1 + j, by omega, h2, h3⟩


/-- `i` reaches an output -/
def alive (g : Graph) (i : Nat) : Bool := (aliveMarks g).getD i false

theorem alive_eq_bmark (g : Graph) (i : Nat) :
    alive g i = bmark g (fun _ => true) (fun i => (g.nd i).op == .output) i := rfl

theorem alive_output {g : Graph} {i : Nat} (hi : i < g.length) (h : (g.nd i).op = .output) :
    alive g i = true := by
  rw [alive_eq_bmark]; exact bmark_seed hi rfl (by simp [h])

theorem alive_arg {g : Graph} (hs : SSA g) {a u : Nat} (hu : alive g u = true) (ha : a ∈ (g.nd u).args) :
    alive g a = true := by
  rw [alive_eq_bmark] at hu ⊢; exact bmark_arg hu ha (hs u a ha) rfl

/-- a node without users that is not an output does not reach one -/
theorem not_alive_of_unused {g : Graph} {i : Nat} (hu : hasUsers g i = false) (ho : (g.nd i).op ≠ .output) :
    alive g i = false := by
  by_contra hc
  have hc' : alive g i = true := by simpa using hc
  rw [alive_eq_bmark] at hc'
  rcases bmark_cases hc' with h | ⟨u, _, _, hmem⟩
  · simp at h; exact ho h
  · have : hasUsers g i = true := (hasUsers_iff g i).2 ⟨u, hmem⟩
    rw [hu] at this; cases this

/-- ancestor of a discarded output that does not reach an output -/
def anc (g : Graph) (disc : List Nat) (i : Nat) : Bool := (ancMarks g disc).getD i false

theorem anc_eq_bmark (g : Graph) (disc : List Nat) (i : Nat) :
    anc g disc i = bmark g (fun i => !(alive g i) && !(isInput (g.nd i))) (fun i => disc.contains i) i := rfl

theorem anc_not_alive {g : Graph} {disc : List Nat} {i : Nat} (h : anc g disc i = true) : alive g i = false := by
  rw [anc_eq_bmark] at h
  have := bmark_ok h
  simp only [Bool.and_eq_true, Bool.not_eq_true'] at this
  exact this.1

theorem anc_of_discarded {g : Graph} {disc : List Nat} {i : Nat} (hi : i < g.length) (hd : i ∈ disc)
    (hna : alive g i = false) (hni : isInput (g.nd i) = false) : anc g disc i = true := by
  rw [anc_eq_bmark]
  exact bmark_seed hi (by simp [hna, hni]) (by simpa using hd)

/-- member of a discarded branch -/
def inRegion (g : Graph) (disc : List Nat) (i : Nat) : Bool := (regionMarks g disc).getD i false

theorem inRegion_eq {g : Graph} (hs : SSA g) (disc : List Nat) (i : Nat) (hi : i < g.length) :
    inRegion g disc i = (anc g disc i ||
      ((g.nd i).op != .output && (g.nd i).args.any fun a => inRegion g disc a)) := by
  unfold inRegion regionMarks
  rw [getD_scanFrom _ g i false hi]
  have hl : (scanFrom (fun acc nd => (ancMarks g disc).getD acc.length false ||
      (nd.op != .output && nd.args.any fun a => acc.getD a false)) [] (g.take i)).length = i := by
    rw [length_scanFrom]; simp; omega
  simp only [hl]
  have hany : ((g.nd i).args.any fun a => (scanFrom (fun acc nd => (ancMarks g disc).getD acc.length false ||
      (nd.op != .output && nd.args.any fun a => acc.getD a false)) [] (g.take i)).getD a false) =
      ((g.nd i).args.any fun a => (scanFrom (fun acc nd => (ancMarks g disc).getD acc.length false ||
      (nd.op != .output && nd.args.any fun a => acc.getD a false)) [] g).getD a false) := by
    rw [Bool.eq_iff_iff]
    simp only [List.any_eq_true]
    constructor
    · rintro ⟨a, ha, h⟩
      exact ⟨a, ha, by rw [← getD_scanFrom_take _ g i a false (hs i a ha) (by omega)]; exact h⟩
    · rintro ⟨a, ha, h⟩
      exact ⟨a, ha, by rw [getD_scanFrom_take _ g i a false (hs i a ha) (by omega)]; exact h⟩
  have hnd : g.getD i Node.E = g.nd i := rfl
  rw [hnd, hany]
  rfl


theorem inRegion_lt {g : Graph} {disc : List Nat} {i : Nat} (h : inRegion g disc i = true) : i < g.length := by
  by_contra hi
  unfold inRegion regionMarks at h
  rw [getD_ge _ _ _ (by rw [length_scanFrom]; simp; omega)] at h
  cases h

theorem args_of_ge (g : Graph) (i : Nat) (h : g.length ≤ i) : (g.nd i).args = [] := by
  rw [nd_of_ge g i h]; rfl

/-- the members of the discarded branches do not reach an output -/
theorem inRegion_not_alive {g : Graph} (hs : SSA g) (disc : List Nat) (i : Nat)
    (h : inRegion g disc i = true) : alive g i = false := by
  induction i using Nat.strong_induction_on with
  | _ i ih =>
    have hi := inRegion_lt h
    rw [inRegion_eq hs disc i hi] at h
    simp only [Bool.or_eq_true, Bool.and_eq_true, List.any_eq_true] at h
    rcases h with h | ⟨_, a, ha, hra⟩
    · exact anc_not_alive h
    · by_contra hc
      have hal : alive g i = true := by simpa using hc
      have := ih a (hs i a ha) hra
      rw [alive_arg hs hal ha] at this; cases this

theorem inRegion_not_output {g : Graph} (hs : SSA g) (disc : List Nat) (i : Nat)
    (h : inRegion g disc i = true) : (g.nd i).op ≠ .output := by
  intro ho
  have := inRegion_not_alive hs disc i h
  rw [alive_output (inRegion_lt h) ho] at this; cases this

/-- whatever uses a member of a discarded branch is a member too -/
theorem inRegion_user {g : Graph} (hs : SSA g) (disc : List Nat) {a u : Nat} (ha : a ∈ (g.nd u).args)
    (hra : inRegion g disc a = true) : inRegion g disc u = true := by
  have hu : u < g.length := by
    by_contra hc; rw [args_of_ge g u (by omega)] at ha; cases ha
  rw [inRegion_eq hs disc u hu]
  simp only [Bool.or_eq_true, Bool.and_eq_true, List.any_eq_true, bne_iff_ne, ne_eq]
  right
  refine ⟨?_, a, ha, hra⟩
  intro ho
  have h1 := alive_arg hs (alive_output hu ho) ha
  rw [inRegion_not_alive hs disc a hra] at h1; cases h1

theorem mem_regionDesc {g : Graph} {disc : List Nat} {i : Nat} :
    i ∈ regionDesc g disc ↔ inRegion g disc i = true := by
  unfold regionDesc
  simp only [List.mem_reverse, List.mem_filter, List.mem_range]
  constructor
  · intro h; exact h.2
  · intro h; exact ⟨inRegion_lt h, h⟩

theorem regionDesc_sorted (g : Graph) (disc : List Nat) : (regionDesc g disc).Pairwise (· > ·) := by
  unfold regionDesc
  rw [List.pairwise_reverse]
  exact List.Pairwise.filter _ List.pairwise_lt_range

/-- erasing a set of nodes that contains all the users of its members, last node first, never
finds a node that still has users -/
theorem eraseAll_sweep : ∀ (L : List Nat) (g : Graph), SSA g → L.Pairwise (· > ·) →
    (∀ i ∈ L, ∀ u, i ∈ (g.nd u).args → u ∈ L) → ∃ g', eraseAll L g = some g'
  | [], g, _, _, _ => ⟨g, rfl⟩
  | i :: rest, g, hs, hp, hcl => by
    have hnu : hasUsers g i = false := by
      by_contra hc
      have hc' : hasUsers g i = true := by simpa using hc
      obtain ⟨u, hu⟩ := (hasUsers_iff g i).1 hc'
      have hiu : i < u := hs u i hu
      rcases List.mem_cons.1 (hcl i (List.mem_cons_self ..) u hu) with h | h
      · omega
      · have := (List.pairwise_cons.1 hp).1 u h; omega
    have hs' : SSA (g.set i Node.E) := by
      intro j a ha
      rw [nd_set_E] at ha
      split at ha
      · simp [Node.E] at ha
      · exact hs j a ha
    obtain ⟨g', hg'⟩ := eraseAll_sweep rest (g.set i Node.E) hs' (List.pairwise_cons.1 hp).2 (by
      intro j hj u hu
      rw [nd_set_E] at hu
      split at hu
      · simp [Node.E] at hu
      · rename_i hne
        rcases List.mem_cons.1 (hcl j (List.mem_cons_of_mem _ hj) u hu) with h | h
        · exact absurd h.symm hne
        · exact h)
    exact ⟨g', by simp [eraseAll, eraseNode, hnu, hg']⟩

/-- erasing the discarded branches never raises -/
theorem erase_region_isSome {g : Graph} (hs : SSA g) (disc : List Nat) :
    ∃ g', eraseAll (regionDesc g disc) g = some g' :=
  eraseAll_sweep _ g hs (regionDesc_sorted g disc) (fun i hi u hu =>
    mem_regionDesc.2 (inRegion_user hs disc hu (mem_regionDesc.1 hi)))


/-! ## the invariant of the export loop -/

/-- the loop invariant proper: `Core`, every visited combiner is gone, outputs are never erased -/
structure ExpInv (win : String → Nat) (g0 : Graph) (k : Nat) (g : Graph) : Prop
    extends Core win g0 k g where
  done : ∀ i, i < k → (g.nd i).isCombine = false
  outLive : ∀ i, i < g0.length → (g0.nd i).op = .output → (g.nd i).live = true

theorem ExpInv.init {win : String → Nat} {g0 : Graph} (h : WF g0) : ExpInv win g0 0 g0 :=
  { Core.init h with
    done := fun i hi => absurd hi (Nat.not_lt_zero i)
    outLive := fun i hi _ => h.2 i hi }

/-- visiting a node that is not a (live) combiner changes nothing -/
theorem Core.bump {win : String → Nat} {g0 g : Graph} {k : Nat} (h : Core win g0 k g) (hwf : WF g0)
    (hk : (g.nd k).isCombine = false) : Core win g0 (k + 1) g := by
  refine ⟨h.len, ?_, h.closed⟩
  intro i
  rcases h.shape i with hE | hsh
  · exact Or.inl hE
  · right
    rw [hsh]
    congr 1
    apply List.map_congr_left
    intro a ha
    unfold rho
    by_cases h1 : a < k
    · simp [h1, Nat.lt_succ_of_lt h1]
    · by_cases h2 : a = k
      · subst h2
        -- `a` is an argument of a live node, hence live, hence not a combiner of the SuperNet
        have hil : i < g0.length := by
          by_contra hc; rw [args_of_ge g0 i (by omega)] at ha; cases ha
        have hli : (g.nd i).live = true := by
          rw [hsh]; have := hwf.2 i hil; simpa [Node.live] using this
        have hmem : a ∈ (g.nd i).args := by
          rw [hsh]; exact List.mem_map.2 ⟨a, ha, by simp [rho]⟩
        have hla := h.closed i hli a hmem
        have hop := (h.op_eq a hla).1
        have : (g0.nd a).isCombine = false := by
          simpa [Node.isCombine, ← hop] using hk
        simp [res_of_not_combine win g0 a this]
      · have : ¬ a < k + 1 := by omega
        simp [h1, this]

theorem ExpInv.step {win : String → Nat} {g0 g g' : Graph} {k : Nat} (h : ExpInv win g0 k g)
    (hwf : WF g0) (he : exportCombiner win g k = some g') : ExpInv win g0 (k + 1) g' := by
  have hs := hwf.1
  have hssa : SSA g := h.toCore.ssa hs
  by_cases hcomb : (g.nd k).isCombine = true
  · obtain ⟨c, hop⟩ := (isCombine_iff _).1 hcomb
    have hlive : (g.nd k).live = true := by simp [Node.live, hop]
    unfold exportCombiner at he
    simp only [hop] at he
    cases hb : (g.nd k).args[win c]? with
    | none => simp [hb] at he
    | some best =>
      simp only [hb, Option.bind_eq_some_iff] at he
      obtain ⟨g2, he2, he3⟩ := he
      have hc1 := h.toCore.replace hs hop hb
      have hc2 := hc1.erase he2
      have hc3 := Core.eraseAll _ hc2 he3
      have hssa2 : SSA g2 := hc2.ssa hs
      have hnd2 : ∀ j, Graph.nd g2 j = if k = j then Node.E else
          ⟨(g.nd j).op, (g.nd j).args.map (substId k best)⟩ := by
        intro j; rw [eraseNode_nd he2 j, nd_replaceUses]
      refine { hc3 with done := ?done, outLive := ?outLive }
      case done =>
        intro i hi
        rw [eraseAll_nd _ he3 i]
        split
        · exact isCombine_E
        · rw [hnd2 i]
          split
          · exact isCombine_E
          · have : i < k := by omega
            simpa [Node.isCombine] using h.done i this
      case outLive =>
        intro i hi ho
        have hli := h.outLive i hi ho
        have hopi : (g.nd i).op = .output := by rw [(h.toCore.op_eq i hli).1]; exact ho
        have hki : k ≠ i := by intro hki; subst hki; rw [hop] at hopi; cases hopi
        have h2 : (Graph.nd g2 i).op = .output := by rw [hnd2 i, if_neg hki]; exact hopi
        rw [eraseAll_nd _ he3 i]
        have hnot : i ∉ regionDesc g2 ((g.nd k).args.eraseDups.filter (· != best)) := by
          intro hmem
          exact inRegion_not_output hssa2 _ i (mem_regionDesc.1 hmem) h2
        rw [if_neg hnot]
        simp [Node.live, h2]
  · have hcomb' : (g.nd k).isCombine = false := by simpa using hcomb
    have hg : g' = g := by
      unfold exportCombiner at he
      split at he
      · rename_i c hop; simp [Node.isCombine, hop] at hcomb'
      · injection he with he; exact he.symm
    subst hg
    refine { h.toCore.bump hwf hcomb' with done := ?_, outLive := h.outLive }
    intro i hi
    by_cases hik : i = k
    · subst hik; exact hcomb'
    · exact h.done i (by omega)

theorem ExpInv.loop {win : String → Nat} {g0 : Graph} (hwf : WF g0) :
    ∀ (t k : Nat) {g g' : Graph}, ExpInv win g0 k g → k + t = g0.length →
      exportLoop win t k g = some g' → ExpInv win g0 g0.length g'
  | 0, k, g, g', h, hk, he => by
    simp only [exportLoop, Option.some.injEq] at he
    subst he
    have : k = g0.length := by omega
    subst this; exact h
  | t + 1, k, g, g', h, hk, he => by
    simp only [exportLoop, Option.bind_eq_some_iff] at he
    obtain ⟨g1, h1, h2⟩ := he
    exact ExpInv.loop hwf t (k + 1) (h.step hwf h1) (by omega) h2

/-! ## what `exportGraph` guarantees -/

theorem rho_length (win : String → Nat) (g0 : Graph) : rho win g0 g0.length = res win g0 := by
  funext a
  unfold rho
  split
  · rfl
  · rw [res_of_not_combine]
    rw [nd_of_ge g0 a (by omega)]; rfl

/-- the specification of the exported node list, in terms of the traced SuperNet `g0` -/
structure ExportSpec (win : String → Nat) (g0 g : Graph) : Prop where
  len : g.length = g0.length
  /-- every slot is erased or the original node with every choice among its arguments resolved -/
  shape : ∀ i, g.nd i = Node.E ∨ g.nd i = ⟨(g0.nd i).op, (g0.nd i).args.map (res win g0)⟩
  /-- arguments of surviving nodes survive -/
  closed : ∀ i, (g.nd i).live = true → ∀ a ∈ (g.nd i).args, (g.nd a).live = true
  /-- no choice node is left -/
  plain : ∀ i, (g.nd i).isCombine = false
  /-- a node that has arguments is there -/
  userLive : ∀ i j, i ∈ (g.nd j).args → (g.nd j).live = true
  /-- a slot that is not live is the erased slot -/
  deadE : ∀ i, (g.nd i).live = false → g.nd i = Node.E
  /-- the outputs are there -/
  outLive : ∀ i, i < g0.length → (g0.nd i).op = .output → (g.nd i).live = true

theorem exportGraph_spec {win : String → Nat} {g0 g : Graph} (hwf : WF g0)
    (he : exportGraph win g0 = some g) : ExportSpec win g0 g := by
  unfold exportGraph at he
  have hinv : ExpInv win g0 g0.length g :=
    ExpInv.loop hwf g0.length 0 (ExpInv.init hwf) (by simp) he
  have hcore := hinv.toCore
  refine { len := hcore.len, shape := ?shape, closed := hcore.closed, plain := ?plain,
           userLive := ?userLive, deadE := ?deadE, outLive := hinv.outLive }
  case shape => have := hcore.shape; rw [rho_length] at this; exact this
  case plain =>
    intro i
    by_cases hi : i < g0.length
    · exact hinv.done i hi
    · rw [nd_of_ge g i (by rw [hinv.len]; omega)]; rfl
  case userLive =>
    intro i j hij
    by_contra hc
    have hjl : j < g0.length := by
      by_contra hcc
      rw [nd_of_ge _ j (by rw [hcore.len]; omega)] at hij; simp [Node.E] at hij
    rcases hcore.shape j with hE | hsh
    · rw [hE] at hij; simp [Node.E] at hij
    · rw [hsh] at hc
      have := hwf.2 j hjl
      simp [Node.live] at hc this
      exact this hc
  case deadE =>
    intro i hd
    rcases hcore.shape i with hE | hsh
    · exact hE
    · by_cases hi : i < g0.length
      · rw [hsh] at hd
        have := hwf.2 i hi
        simp [Node.live] at hd this
        exact absurd hd this
      · exact nd_of_ge _ i (by rw [hcore.len]; omega)

theorem ExportSpec.ssa {win : String → Nat} {g0 g : Graph} (h : ExportSpec win g0 g) (hs : SSA g0) :
    SSA g := by
  intro i a ha
  rcases h.shape i with hE | hsh
  · rw [hE] at ha; simp [Node.E] at ha
  · rw [hsh] at ha
    simp only [List.mem_map] at ha
    obtain ⟨a0, ha0, rfl⟩ := ha
    exact Nat.lt_of_le_of_lt (res_le win g0 a0) (hs i a0 ha0)

theorem ExportSpec.node_eq {win : String → Nat} {g0 g : Graph} (h : ExportSpec win g0 g) (i : Nat)
    (hl : (g.nd i).live = true) : g.nd i = ⟨(g0.nd i).op, (g0.nd i).args.map (res win g0)⟩ := by
  rcases h.shape i with hE | hsh
  · rw [hE, E_not_live] at hl; cases hl
  · exact hsh

section sim
variable {V : Type} (En : Env V)

theorem evalNode_congr' {win win' : String → Nat} {v v' : Nat → V} {nd nd' : Node} (hop : nd.op = nd'.op)
    (hargs : nd.args.map v = nd'.args.map v') (hc : nd.isCombine = false) :
    evalNode En win v nd = evalNode En win' v' nd' := by
  unfold evalNode
  rw [← hop, hargs]
  split <;> first | rfl | (rename_i c hcc; simp [Node.isCombine, hcc] at hc)

/-- **simulation**: every node of the exported graph computes what it computes in the SuperNet
under hard selection — whatever the (now irrelevant) selection used to run the exported graph -/
theorem ExportSpec.sim {win : String → Nat} {g0 g : Graph} (h : ExportSpec win g0 g) (hs : SSA g0)
    (win' : String → Nat) (i : Nat) (hl : (g.nd i).live = true) :
    valAt En win' g i = valAt En win g0 i := by
  induction i using Nat.strong_induction_on with
  | _ i ih =>
    have hig : i < g.length := live_lt g i hl
    have hig0 : i < g0.length := by rw [← h.len]; exact hig
    rw [valAt_eq En win' (h.ssa hs) i hig, valAt_eq En win hs i hig0]
    have hnode := h.node_eq i hl
    have hplain := h.plain i
    apply evalNode_congr' En (by rw [hnode]) _ hplain
    rw [hnode]
    simp only [List.map_map]
    apply List.map_congr_left
    intro a ha
    have hai : a < i := hs i a ha
    have hra : res win g0 a < i := Nat.lt_of_le_of_lt (res_le win g0 a) hai
    have hlive : (g.nd (res win g0 a)).live = true := by
      apply h.closed i hl
      rw [hnode]; exact List.mem_map_of_mem ha
    simp only [Function.comp]
    rw [ih _ hra hlive, valAt_res En win hs a]

end sim


/-! ## a one-hot weighted mix is the selected alternative -/
section onehot
variable {R M : Type} [Semiring R] [AddCommMonoid M] [Module R M]

theorem wsum_onehot_aux (k : Nat) : ∀ (ys : List M) (off : Nat),
    wsum ((List.range' off ys.length).map fun i => if i = k then (1 : R) else 0) ys
      = if off ≤ k ∧ k < off + ys.length then ys.getD (k - off) 0 else 0 := by
  intro ys
  induction ys with
  | nil => intro off; simp [wsum]
  | cons y ys ih =>
    intro off
    simp only [List.length_cons, List.range'_succ, List.map_cons, wsum]
    rw [ih (off + 1)]
    by_cases h : off = k
    · subst h; simp
    · by_cases h2 : off + 1 ≤ k ∧ k < off + 1 + ys.length
      · have h3 : off ≤ k ∧ k < off + (ys.length + 1) := by omega
        simp only [h, if_false, zero_smul, zero_add, h2, and_self, if_true, h3]
        have : k - off = (k - (off + 1)) + 1 := by omega
        rw [this]; simp [List.getD]
      · have h3 : ¬ (off ≤ k ∧ k < off + (ys.length + 1)) := by omega
        simp [h, h2, h3]

/-- `SuperNetCombiner.forward` with one-hot coefficients returns the winner's output -/
theorem wsum_onehot (ys : List M) (k : Nat) (hk : k < ys.length) :
    wsum (onehot (R := R) ys.length k) ys = ys.getD k 0 := by
  have := wsum_onehot_aux (R := R) k ys 0
  simp only [List.range_eq_range', onehot] at *
  rw [this]; simp [hk]

theorem getD_irrel {α : Type} (l : List α) (k : Nat) (d d' : α) (hk : k < l.length) :
    l.getD k d = l.getD k d' := by
  rw [getD_lt l k d hk, getD_lt l k d' hk]

theorem scanFrom_congr {β : Type} (step step' : List β → Node → β) :
    ∀ (g : List Node) (acc : List β), (∀ acc nd, nd ∈ g → step acc nd = step' acc nd) →
      scanFrom step acc g = scanFrom step' acc g
  | [], _, _ => rfl
  | nd :: g, acc, h => by
    simp only [scanFrom]
    rw [h acc nd (List.mem_cons_self ..)]
    exact scanFrom_congr step step' g _ (fun acc nd' hn => h acc nd' (List.mem_cons_of_mem _ hn))

/-- **hard selection**: evaluating the SuperNet with every combiner's coefficients set to the
one-hot of its winner (what `sample_alpha_sm` produces with `hard_softmax`) is `hardEval` -/
theorem softEval_onehot (En : Env M) (win : String → Nat) (θ : String → List R) (g : Graph)
    (hθ : ∀ nd ∈ g, ∀ c, nd.op = .combine c →
      θ c = onehot nd.args.length (win c) ∧ win c < nd.args.length) :
    softEval En θ g = hardEval En win g := by
  unfold softEval hardEval
  apply scanFrom_congr
  intro acc nd hnd
  unfold softNode evalNode
  split <;> try rfl
  rename_i c hc
  obtain ⟨h1, h2⟩ := hθ nd hnd c hc
  have hlen : (nd.args.map fun i => acc.getD i En.d).length = nd.args.length := by simp
  rw [h1, ← hlen, wsum_onehot _ _ (by rw [hlen]; exact h2)]
  exact getD_irrel _ _ _ _ (by rw [hlen]; exact h2)

end onehot




/-! ## export does not raise -/

/-- the winner index of every combiner is one of its branches -/
def WinInRange (win : String → Nat) (g0 : Graph) : Prop :=
  ∀ n c, (g0.nd n).op = .combine c → win c < (g0.nd n).args.length

theorem ExpInv.progress {win : String → Nat} {g0 g : Graph} {k : Nat} (h : ExpInv win g0 k g)
    (hs : SSA g0) (hr : WinInRange win g0) : ∃ g', exportCombiner win g k = some g' := by
  have hssa : SSA g := h.toCore.ssa hs
  cases hop : (g.nd k).op with
  | combine c =>
    have hlive : (g.nd k).live = true := by simp [Node.live, hop]
    obtain ⟨hop0, hargs0⟩ := h.toCore.op_eq k hlive
    have hlen : win c < (g.nd k).args.length := by
      rw [hargs0, List.length_map]; exact hr k c (by rw [← hop0]; exact hop)
    have hb : (g.nd k).args[win c]? = some (g.nd k).args[win c] := by simp [hlen]
    have hbk : (g.nd k).args[win c] < k := hssa k _ (List.mem_of_getElem? hb)
    unfold exportCombiner
    simp only [hop, hb]
    have hnu := no_users_after_replace hssa hbk
    have he2 : eraseNode (replaceUses k (g.nd k).args[win c] g) k =
        some ((replaceUses k (g.nd k).args[win c] g).set k Node.E) := by
      simp [eraseNode, hnu]
    rw [he2]
    simp only [Option.bind_some]
    exact erase_region_isSome (((h.toCore.replace hs hop hb).erase he2).ssa hs) _
  | input _ => exact ⟨g, by simp [exportCombiner, hop]⟩
  | leaf _ => exact ⟨g, by simp [exportCombiner, hop]⟩
  | output => exact ⟨g, by simp [exportCombiner, hop]⟩
  | erased => exact ⟨g, by simp [exportCombiner, hop]⟩

theorem ExpInv.loop_isSome {win : String → Nat} {g0 : Graph} (hwf : WF g0) (hr : WinInRange win g0) :
    ∀ (t k : Nat) {g : Graph}, ExpInv win g0 k g → k + t = g0.length →
      ∃ g', exportLoop win t k g = some g'
  | 0, _, g, _, _ => ⟨g, rfl⟩
  | t + 1, k, g, h, hk => by
    obtain ⟨g1, h1⟩ := h.progress hwf.1 hr
    obtain ⟨g', h2⟩ := ExpInv.loop_isSome hwf hr t (k + 1) (h.step hwf h1) (by omega)
    exact ⟨g', by simp [exportLoop, h1, h2]⟩

/-- export raises only on an out-of-range winner index -/
theorem exportGraph_isSome {win : String → Nat} {g0 : Graph} (hwf : WF g0) (hr : WinInRange win g0) :
    ∃ g, exportGraph win g0 = some g :=
  ExpInv.loop_isSome hwf hr g0.length 0 (ExpInv.init hwf) (by simp)

/-! ## the discarded branches are gone -/

/-- what fx guarantees about placeholders and outputs -/
structure IOSane (g0 : Graph) : Prop where
  inputNoArgs : ∀ j k, (g0.nd j).op = .input k → (g0.nd j).args = []
  outputUnused : ∀ i j, (g0.nd i).op = .output → i ∉ (g0.nd j).args

/-- one visit of the loop: the output node of a discarded branch that fed this combiner only (and is
neither a placeholder nor an output) is erased — together with its whole branch, see
`inRegion_user` — whatever the branch contains -/
theorem exportCombiner_drops_discarded {win : String → Nat} {g g' : Graph} {k : Nat} {c : String}
    {best o : Nat} (hs : SSA g) (hop : (g.nd k).op = .combine c)
    (hb : (g.nd k).args[win c]? = some best) (ho : o ∈ (g.nd k).args) (hne : o ≠ best)
    (hown : ∀ j, o ∈ (g.nd j).args → j = k) (hnin : isInput (g.nd o) = false)
    (hnout : (g.nd o).op ≠ .output) (he : exportCombiner win g k = some g') :
    (Graph.nd g' o).live = false := by
  unfold exportCombiner at he
  simp only [hop, hb, Option.bind_eq_some_iff] at he
  obtain ⟨g2, he2, he3⟩ := he
  have hbk : best < k := hs k best (List.mem_of_getElem? hb)
  have hok : o < k := hs k o ho
  have hnd2 : ∀ j, Graph.nd g2 j = if k = j then Node.E else
      ⟨(g.nd j).op, (g.nd j).args.map (substId k best)⟩ := by
    intro j; rw [eraseNode_nd he2 j, nd_replaceUses]
  have hssa2 : SSA g2 := by
    intro j a ha
    rw [hnd2 j] at ha
    split at ha
    · simp [Node.E] at ha
    · simp only [List.mem_map] at ha
      obtain ⟨a0, ha0, rfl⟩ := ha
      have := hs j a0 ha0
      unfold substId; split <;> omega
  have hnu : hasUsers g2 o = false := by
    by_contra hc
    have hc' : hasUsers g2 o = true := by simpa using hc
    obtain ⟨j, hj⟩ := (hasUsers_iff _ _).1 hc'
    rw [hnd2 j] at hj
    split at hj
    · simp [Node.E] at hj
    · rename_i hkj
      simp only [List.mem_map] at hj
      obtain ⟨a, ha, hao⟩ := hj
      unfold substId at hao
      split at hao
      · exact hne hao.symm
      · subst hao; exact hkj (hown j ha).symm
  have hopo : (Graph.nd g2 o).op = (g.nd o).op := by rw [hnd2 o, if_neg (by omega)]
  have hlt2 : o < g2.length := by
    have h1 : g2.length = g.length := by
      obtain ⟨-, rfl⟩ := eraseNode_eq_some he2; simp
    have : k < g.length := live_lt g k (by simp [Node.live, hop])
    omega
  have hmem : o ∈ ((g.nd k).args.eraseDups.filter (· != best)) := by
    rw [List.mem_filter, List.mem_eraseDups]
    exact ⟨ho, by simpa using hne⟩
  have hanc := anc_of_discarded hlt2 hmem
    (not_alive_of_unused hnu (by rw [hopo]; exact hnout)) (by unfold isInput at hnin ⊢; rw [hopo]; exact hnin)
  have hreg : inRegion g2 ((g.nd k).args.eraseDups.filter (· != best)) o = true := by
    rw [inRegion_eq hssa2 _ o hlt2, hanc]; rfl
  rw [eraseAll_nd _ he3 o, if_pos (mem_regionDesc.2 hreg)]
  exact E_not_live

/-- what a visit has erased stays erased -/
theorem exportCombiner_mono {win : String → Nat} {g g' : Graph} {k i : Nat}
    (he : exportCombiner win g k = some g') (hd : (g.nd i).live = false) : (Graph.nd g' i).live = false := by
  by_cases hcomb : (g.nd k).isCombine = true
  · obtain ⟨c, hop⟩ := (isCombine_iff _).1 hcomb
    unfold exportCombiner at he
    simp only [hop] at he
    cases hb : (g.nd k).args[win c]? with
    | none => simp [hb] at he
    | some best =>
      simp only [hb, Option.bind_eq_some_iff] at he
      obtain ⟨g2, he2, he3⟩ := he
      rw [eraseAll_nd _ he3 i]
      split
      · exact E_not_live
      · rw [eraseNode_nd he2 i, nd_replaceUses]
        split
        · exact E_not_live
        · simpa [Node.live] using hd
  · have hcomb' : (g.nd k).isCombine = false := by simpa using hcomb
    have hg : g' = g := by
      unfold exportCombiner at he
      split at he
      · rename_i c hop; simp [Node.isCombine, hop] at hcomb'
      · injection he with he; exact he.symm
    subst hg; exact hd

theorem exportLoop_mono {win : String → Nat} : ∀ (t k : Nat) {g g' : Graph} {i : Nat},
    exportLoop win t k g = some g' → (g.nd i).live = false → (Graph.nd g' i).live = false
  | 0, _, g, g', i, he, hd => by simp [exportLoop] at he; subst he; exact hd
  | t + 1, k, g, g', i, he, hd => by
    simp only [exportLoop, Option.bind_eq_some_iff] at he
    obtain ⟨g1, h1, h2⟩ := he
    exact exportLoop_mono t (k + 1) h2 (exportCombiner_mono h1 hd)

/-! ## which nodes are kept -/

/-- the nodes export keeps, read off the traced SuperNet: outputs, and the resolved arguments of
kept nodes -/
inductive Keeps (win : String → Nat) (g0 : Graph) : Nat → Prop
  | out (i : Nat) : (g0.nd i).op = .output → Keeps win g0 i
  | step (a j : Nat) : Keeps win g0 j → a ∈ (g0.nd j).args → Keeps win g0 (res win g0 a)

theorem res_eq_cases (win : String → Nat) (g0 : Graph) (hs : SSA g0) (a i : Nat)
    (h : res win g0 a = i) : a = i ∨ ∃ n, (g0.nd n).isCombine = true ∧ i ∈ (g0.nd n).args := by
  induction a using Nat.strong_induction_on with
  | _ a ih =>
    by_cases hc : (g0.nd a).isCombine = true
    · obtain ⟨c, hop⟩ := (isCombine_iff _).1 hc
      cases hb : (g0.nd a).args[win c]? with
      | none =>
        rw [res] at h; simp only [hop, hb] at h; exact Or.inl h
      | some b =>
        have hmem := List.mem_of_getElem? hb
        have hlt : b < a := hs a b hmem
        rw [res_combine win g0 a b c hop hb hlt] at h
        rcases ih b hlt h with h1 | h1
        · right; exact ⟨a, hc, h1 ▸ hmem⟩
        · exact Or.inr h1
    · rw [res_of_not_combine win g0 a (by simpa using hc)] at h; exact Or.inl h

theorem ExportSpec.keeps_live_aux : True := trivial

theorem ExportSpec.keeps_live {win : String → Nat} {g0 g : Graph} (h : ExportSpec win g0 g)
    (i : Nat) (hk : Keeps win g0 i) (hi : i < g0.length) :
    (g.nd i).live = true := by
  induction hk with
  | out i hop => exact h.outLive i hi hop
  | step a j _ ha ih =>
    have hj : j < g0.length := by
      by_contra hc
      rw [nd_of_ge g0 j (by omega)] at ha; simp [Node.E] at ha
    have hjl := ih hj
    apply h.closed j hjl
    rw [h.node_eq j hjl]
    exact List.mem_map_of_mem ha


/-! ## the executable hypothesis checks are sound -/

theorem wfB_sound {g : Graph} (h : wfB g = true) : WF g := by
  unfold wfB at h
  simp only [Bool.and_eq_true, List.all_eq_true, List.mem_range, decide_eq_true_eq] at h
  obtain ⟨h1, h2⟩ := h
  constructor
  · intro i a ha
    by_cases hi : i < g.length
    · exact h1 i hi a ha
    · rw [args_of_ge g i (by omega)] at ha; cases ha
  · intro i hi
    apply h2
    unfold Graph.nd
    rw [getD_lt g i _ hi]; exact List.getElem_mem hi

theorem ioSaneB_sound {g : Graph} (h : ioSaneB g = true) : IOSane g := by
  unfold ioSaneB at h
  simp only [Bool.and_eq_true, List.all_eq_true, List.mem_range, Bool.or_eq_true,
    Bool.not_eq_true', bne_iff_ne, ne_eq] at h
  obtain ⟨h1, h2⟩ := h
  constructor
  · intro j k hop
    by_cases hj : j < g.length
    · have := h1 (g.nd j) (by unfold Graph.nd; rw [getD_lt g j _ hj]; exact List.getElem_mem hj)
      rw [hop] at this; simpa using this
    · exact args_of_ge g j (by omega)
  · intro i j hop hij
    have hi : i < g.length := by
      by_contra hc; rw [nd_of_ge g i (by omega)] at hop; cases hop
    rcases h2 i hi with h3 | h3
    · exact h3 hop
    · have : hasUsers g i = true := (hasUsers_iff g i).2 ⟨j, hij⟩
      rw [h3] at this; cases this


theorem winInRangeB_sound {win : String → Nat} {g : Graph} (h : winInRangeB win g = true) :
    WinInRange win g := by
  unfold winInRangeB at h
  simp only [List.all_eq_true] at h
  intro n c hop
  have hn : n < g.length := by
    by_contra hc; rw [nd_of_ge g n (by omega)] at hop; cases hop
  have := h (g.nd n) (by unfold Graph.nd; rw [getD_lt g n _ hn]; exact List.getElem_mem hn)
  simpa [hop] using this

/-! # cost (C06) -/
section costsum
open Finset
variable {K : Type} [CommSemiring K]

theorem foldl_add_eq_sum {α : Type} (f : α → K) (l : List α) (a : K) :
    l.foldl (fun acc x => acc + f x) a = a + (l.map f).sum := by
  induction l generalizing a with
  | nil => simp
  | cons x l ih => simp [ih, add_assoc]

theorem foldl_range_eq_sum (f : Nat → K) (n : Nat) :
    (List.range n).foldl (fun acc i => acc + f i) 0 = ∑ i ∈ range n, f i := by
  rw [foldl_add_eq_sum, zero_add]
  induction n with
  | zero => simp
  | succ n ih => rw [List.range_succ, List.map_append, List.sum_append, ih, Finset.sum_range_succ]; simp

/-- the coefficient-weighted mix of the branch costs of one block: `Σᵢ cᵢ·θᵢ` -/
def blockMix (θ : List K) (B : Nat → K) (n : Nat) : K := ∑ i ∈ range n, B i * θ.getD i 0

theorem combinerCost_eq (θ : List K) (u : Nat → K) (ls : List Leaf) (parent : List (List Char)) (nb : Nat) :
    combinerCost θ u ls parent nb = blockMix θ (branchCost u ls parent) nb := by
  unfold combinerCost blockMix
  exact foldl_range_eq_sum _ nb

/-- what one entry of the target list contributes to the cost: a combiner its block's mix, a
layer outside choice blocks its own cost if `full_cost`, a layer inside a branch nothing (it is
charged through its combiner) -/
def contrib (full : Bool) (θ : String → List K) (u : Nat → K) (ls : List Leaf) (l : Leaf) : K :=
  if l.isComb then blockMix (θ l.name) (branchCost u ls (parentOf l.name)) l.nargs
  else if full && !l.inBranch then u l.node else 0

theorem costStep_eq (full : Bool) (θ : String → List K) (u : Nat → K) (ls : List Leaf) (acc : K) (l : Leaf) :
    costStep full θ u ls acc l = acc + contrib full θ u ls l := by
  unfold costStep contrib
  split
  · rw [combinerCost_eq]
  · split <;> simp

theorem snCost_eq_sum (shared full : Bool) (θ : String → List K) (u : Nat → K) (g : Graph) :
    snCost shared full θ u g = ((targetList shared g).map (contrib full θ u (leafModules g))).sum := by
  unfold snCost
  have : costStep full θ u (leafModules g) = fun acc l => acc + contrib full θ u (leafModules g) l := by
    funext acc l; exact costStep_eq full θ u _ acc l
  rw [this, foldl_add_eq_sum, zero_add]

theorem plainCost_eq_sum (shared : Bool) (u : Nat → K) (g : Graph) :
    plainCost shared u g = ((targetList shared g).map fun l => u l.node).sum := by
  unfold plainCost
  rw [foldl_add_eq_sum, zero_add]

theorem getD_onehot (n k i : Nat) (hi : i < n) :
    (onehot (R := K) n k).getD i 0 = if i = k then 1 else 0 := by
  unfold onehot
  rw [getD_lt _ _ _ (by simpa using hi)]
  simp

/-- a one-hot mix is the selected branch's cost -/
theorem blockMix_onehot (B : Nat → K) (n k : Nat) (hk : k < n) :
    blockMix (onehot n k) B n = B k := by
  unfold blockMix
  have : ∀ i ∈ range n, B i * (onehot (R := K) n k).getD i 0 = if i = k then B i else 0 := by
    intro i hi
    rw [getD_onehot n k i (Finset.mem_range.1 hi)]
    split <;> simp
  rw [Finset.sum_congr rfl this, Finset.sum_ite_eq' (range n) k B]
  simp [hk]

/-- contribution of an entry under hard selection `w` -/
def contribHard (full : Bool) (w : String → Nat) (u : Nat → K) (ls : List Leaf) (l : Leaf) : K :=
  if l.isComb then branchCost u ls (parentOf l.name) (w l.name)
  else if full && !l.inBranch then u l.node else 0

/-- the selection is usable: same number of branches at every call site, winner in range -/
def SelectionOk (g : Graph) (w : String → Nat) : Prop :=
  ∀ l ∈ leafModules g, l.isComb = true → l.nargs = nBranches g l.name ∧ w l.name < l.nargs

theorem selectionOkB_sound {g : Graph} {w : String → Nat} (h : selectionOkB g w = true) :
    SelectionOk g w := by
  unfold selectionOkB at h
  simp only [List.all_eq_true, Bool.or_eq_true, Bool.not_eq_true', Bool.and_eq_true, beq_iff_eq,
    decide_eq_true_eq] at h
  intro l hl hc
  rcases h l hl with h1 | h1
  · rw [hc] at h1; cases h1
  · exact h1

theorem contrib_hard {g : Graph} {w : String → Nat} (hw : SelectionOk g w) (full : Bool) (u : Nat → K)
    (l : Leaf) (hl : l ∈ leafModules g) :
    contrib full (hardTheta g w) u (leafModules g) l = contribHard full w u (leafModules g) l := by
  unfold contrib contribHard
  split
  · rename_i hc
    obtain ⟨h1, h2⟩ := hw l hl hc
    unfold hardTheta
    rw [← h1, blockMix_onehot _ _ _ h2]
  · rfl

end costsum

section bounds
open Finset
variable {K : Type} [Field K] [LinearOrder K] [IsStrictOrderedRing K]

/-- a convex combination lies between its smallest and its largest term, and both bounds are
attained by a term -/
theorem convex_between (n : Nat) (θ c : Nat → K) (hθ : ∀ i < n, 0 ≤ θ i)
    (hsum : ∑ i ∈ range n, θ i = 1) :
    (∃ i < n, c i ≤ ∑ k ∈ range n, c k * θ k) ∧ (∃ j < n, ∑ k ∈ range n, c k * θ k ≤ c j) := by
  have hne : (range n).Nonempty := by
    by_contra h
    rw [Finset.not_nonempty_iff_eq_empty] at h
    rw [h] at hsum; simp at hsum
  obtain ⟨i, hi, hmin⟩ := Finset.exists_min_image (range n) c hne
  obtain ⟨j, hj, hmax⟩ := Finset.exists_max_image (range n) c hne
  have hci : ∑ k ∈ range n, c i * θ k = c i := by rw [← Finset.mul_sum, hsum, mul_one]
  have hcj : ∑ k ∈ range n, c j * θ k = c j := by rw [← Finset.mul_sum, hsum, mul_one]
  refine ⟨⟨i, Finset.mem_range.1 hi, ?_⟩, ⟨j, Finset.mem_range.1 hj, ?_⟩⟩
  · rw [← hci]
    apply Finset.sum_le_sum
    intro k hk
    exact mul_le_mul_of_nonneg_right (hmin k hk) (hθ k (Finset.mem_range.1 hk))
  · rw [← hcj]
    apply Finset.sum_le_sum
    intro k hk
    exact mul_le_mul_of_nonneg_right (hmax k hk) (hθ k (Finset.mem_range.1 hk))

end bounds


/-! ## `uniquify_leaf_modules` -/

theorem mem_uniqFrom : ∀ (L : List Leaf) (seen : List String) (l : Leaf), l ∈ uniqFrom seen L → l ∈ L
  | [], _, _, h => by simp [uniqFrom] at h
  | x :: L, seen, l, h => by
    unfold uniqFrom at h
    split at h
    · exact List.mem_cons_of_mem _ (mem_uniqFrom L seen l h)
    · rcases List.mem_cons.1 h with h1 | h1
      · rw [h1]; exact List.mem_cons_self ..
      · exact List.mem_cons_of_mem _ (mem_uniqFrom L _ l h1)

theorem mem_uniq {L : List Leaf} {l : Leaf} (h : l ∈ uniq L) : l ∈ L := mem_uniqFrom L [] l h

theorem mem_targetList {shared : Bool} {g : Graph} {l : Leaf} (h : l ∈ targetList shared g) :
    l ∈ leafModules g := by
  unfold targetList at h
  split at h
  · exact mem_uniq h
  · exact h


section exportcost
open Finset
/-! ## leaf modules of a graph, by node number -/

theorem zipIdx_eq_range (g : Graph) :
    g.zipIdx = (List.range g.length).map fun i => (g.nd i, i) := by
  apply List.ext_getElem
  · simp
  · intro i h1 h2
    simp only [List.getElem_zipIdx, List.getElem_map, List.getElem_range, Nat.zero_add]
    have hi : i < g.length := by simpa using h1
    unfold Graph.nd
    rw [getD_lt g i _ hi]

theorem leafModules_eq_range (g : Graph) :
    leafModules g = (List.range g.length).filterMap fun i => leafOf (g.nd i, i) := by
  unfold leafModules
  rw [zipIdx_eq_range, List.filterMap_map]
  rfl

theorem leafOf_node {nd : Node} {i : Nat} {l : Leaf} (h : leafOf (nd, i) = some l) : l.node = i := by
  unfold leafOf at h
  split at h <;> first | (injection h with h; rw [← h]) | cases h

theorem mem_leafModules {g : Graph} {l : Leaf} (h : l ∈ leafModules g) :
    leafOf (g.nd l.node, l.node) = some l := by
  rw [leafModules_eq_range] at h
  simp only [List.mem_filterMap, List.mem_range] at h
  obtain ⟨i, -, hi⟩ := h
  have := leafOf_node hi
  rw [this]; exact hi

/-- the leaf modules of the exported graph are the leaf modules of the SuperNet whose node survived -/
theorem leafModules_export {win : String → Nat} {g0 g : Graph} (sp : ExportSpec win g0 g) :
    leafModules g = (leafModules g0).filter fun l => (g.nd l.node).live := by
  rw [leafModules_eq_range, leafModules_eq_range, List.filter_filterMap, sp.len]
  apply List.filterMap_congr
  intro i _
  by_cases hl : (g.nd i).live = true
  · have hnode := sp.node_eq i hl
    have hplain := sp.plain i
    rw [hnode] at hplain ⊢
    cases hop : (g0.nd i).op with
    | leaf t =>
      cases t with
      | mk k tgt =>
        cases k <;> simp [leafOf, hop, Option.filter, hnode] <;> rw [hnode] at hl <;> simpa [hop] using hl
    | combine c => simp [Node.isCombine, hop] at hplain
    | input k => simp [leafOf, hop]
    | output => simp [leafOf, hop]
    | erased => simp [leafOf, hop]
  · have hd : (g.nd i).live = false := by simpa using hl
    rw [sp.deadE i hd]
    have hE : leafOf (Node.E, i) = none := rfl
    rw [hE]
    cases h0 : leafOf (g0.nd i, i) with
    | none => rfl
    | some l =>
      have := leafOf_node h0
      simp [Option.filter, this, hd]

/-! ## sums over lists -/
section sums
variable {K : Type} [CommSemiring K]

theorem sum_filter_eq_sum_ite {α : Type} (p : α → Bool) (f : α → K) (l : List α) :
    ((l.filter p).map f).sum = (l.map fun x => if p x then f x else 0).sum := by
  induction l with
  | nil => rfl
  | cons x l ih =>
    simp only [List.filter_cons, List.map_cons, List.sum_cons]
    split <;> simp [ih]

theorem sum_map_add' {α : Type} (f g : α → K) (l : List α) :
    (l.map fun x => f x + g x).sum = (l.map f).sum + (l.map g).sum := by
  induction l with
  | nil => simp
  | cons x l ih => simp only [List.map_cons, List.sum_cons, ih]; exact add_add_add_comm _ _ _ _

/-- regrouping a filtered sum by a key: every element selected by at most one key of `S` -/
theorem sum_fiberwise {α κ : Type} [DecidableEq κ] (S : Finset κ) (W : κ → α → Bool) (f : α → K)
    (l : List α) (huniq : ∀ x ∈ l, ∀ n ∈ S, ∀ m ∈ S, W n x = true → W m x = true → n = m) :
    (l.map fun x => if (∃ n ∈ S, W n x = true) then f x else 0).sum =
      ∑ n ∈ S, ((l.filter (W n)).map f).sum := by
  induction l with
  | nil => simp
  | cons x l ih =>
    have ih' := ih (fun y hy => huniq y (List.mem_cons_of_mem _ hy))
    simp only [List.map_cons, List.sum_cons, ih', List.filter_cons]
    have hsplit : ∀ n, (List.map f (if W n x = true then x :: l.filter (W n) else l.filter (W n))).sum =
        (if W n x = true then f x else 0) + ((l.filter (W n)).map f).sum := by
      intro n; split <;> simp
    rw [Finset.sum_congr rfl (fun n _ => hsplit n), Finset.sum_add_distrib]
    congr 1
    by_cases hex : ∃ n ∈ S, W n x = true
    · obtain ⟨n0, hn0, hw0⟩ := hex
      rw [if_pos ⟨n0, hn0, hw0⟩]
      rw [Finset.sum_eq_single n0]
      · simp [hw0]
      · intro m hm hne
        by_cases hwm : W m x = true
        · exact absurd (huniq x (List.mem_cons_self ..) m hm n0 hn0 hwm hw0) hne
        · simp [hwm]
      · intro h; exact absurd hn0 h
    · rw [if_neg hex]
      symm
      apply Finset.sum_eq_zero
      intro n hn
      have : ¬ W n x = true := fun h => hex ⟨n, hn, h⟩
      simp [this]

end sums


/-! ## more about `uniquify_leaf_modules` -/

theorem uniqFrom_not_seen : ∀ (L : List Leaf) (seen : List String) (l : Leaf),
    l ∈ uniqFrom seen L → l.name ∉ seen
  | [], _, _, h => by simp [uniqFrom] at h
  | x :: L, seen, l, h => by
    unfold uniqFrom at h
    split at h
    · exact uniqFrom_not_seen L seen l h
    · rename_i hx
      rcases List.mem_cons.1 h with h1 | h1
      · rw [h1]; simpa using hx
      · have := uniqFrom_not_seen L _ l h1
        intro hc; exact this (List.mem_cons_of_mem _ hc)

theorem nodup_uniqFrom : ∀ (L : List Leaf) (seen : List String),
    ((uniqFrom seen L).map (·.name)).Nodup
  | [], _ => by simp [uniqFrom]
  | x :: L, seen => by
    unfold uniqFrom
    split
    · exact nodup_uniqFrom L seen
    · rw [List.map_cons, List.nodup_cons]
      refine ⟨?_, nodup_uniqFrom L _⟩
      intro hmem
      obtain ⟨l, hl, hname⟩ := List.mem_map.1 hmem
      have := uniqFrom_not_seen L _ l hl
      exact this (by rw [hname]; exact List.mem_cons_self ..)

theorem name_mem_uniqFrom : ∀ (L : List Leaf) (seen : List String) (l : Leaf),
    l ∈ L → l.name ∉ seen → l.name ∈ (uniqFrom seen L).map (·.name)
  | [], _, _, h, _ => by cases h
  | x :: L, seen, l, h, hs => by
    unfold uniqFrom
    split
    · rename_i hx
      have hx' : x.name ∈ seen := by simpa using hx
      rcases List.mem_cons.1 h with h1 | h1
      · rw [h1] at hs; exact absurd hx' hs
      · exact name_mem_uniqFrom L seen l h1 hs
    · rw [List.map_cons]
      by_cases hn : l.name = x.name
      · rw [hn]; exact List.mem_cons_self ..
      · rcases List.mem_cons.1 h with h1 | h1
        · rw [h1] at hn; exact absurd rfl hn
        · apply List.mem_cons_of_mem
          apply name_mem_uniqFrom L _ l h1
          intro hc
          rcases List.mem_cons.1 hc with h2 | h2
          · exact hn h2
          · exact hs h2

theorem toFinset_names_uniq (L : List Leaf) :
    ((uniq L).map (·.name)).toFinset = (L.map (·.name)).toFinset := by
  ext t
  simp only [List.mem_toFinset, List.mem_map]
  constructor
  · rintro ⟨l, hl, rfl⟩; exact ⟨l, mem_uniq hl, rfl⟩
  · rintro ⟨l, hl, rfl⟩
    exact List.mem_map.1 (name_mem_uniqFrom L [] l hl (by simp))

section counting
variable {K : Type} [CommSemiring K]

/-- a sum of a name-invariant quantity over call sites, every name occurring `k` times, is `k` times
the sum over unique names -/
theorem sum_eq_count_smul_uniq (L : List Leaf) (f : Leaf → K) (k : Nat)
    (hinv : ∀ l ∈ L, ∀ l' ∈ L, l.name = l'.name → f l = f l')
    (hcount : ∀ l ∈ L, (L.map (·.name)).count l.name = k) :
    (L.map f).sum = k • ((uniq L).map f).sum := by
  classical
  let F : String → K := fun t =>
    match L.find? (fun l => l.name == t) with
    | some l => f l
    | none => 0
  have hF : ∀ l ∈ L, f l = F l.name := by
    intro l hl
    simp only [F]
    cases hfind : L.find? (fun l' => l'.name == l.name) with
    | none =>
      have := List.find?_eq_none.1 hfind l hl
      simp at this
    | some l0 =>
      have h1 := List.find?_some hfind
      have h2 := List.mem_of_find?_eq_some hfind
      simp only [beq_iff_eq] at h1
      exact (hinv l0 h2 l hl h1).symm
  have e1 : (L.map f).sum = ((L.map (·.name)).map F).sum := by
    rw [List.map_map]; congr 1; apply List.map_congr_left; intro l hl; exact hF l hl
  have e2 : ((uniq L).map f).sum = (((uniq L).map (·.name)).map F).sum := by
    rw [List.map_map]; congr 1; apply List.map_congr_left; intro l hl; exact hF l (mem_uniq hl)
  have hnd : ((uniq L).map (·.name)).Nodup := nodup_uniqFrom L []
  rw [e1, e2, Finset.sum_list_map_count, ← List.sum_toFinset F hnd,
    toFinset_names_uniq, ← Finset.sum_nsmul]
  apply Finset.sum_congr rfl
  intro t ht
  obtain ⟨l, hl, rfl⟩ := List.mem_map.1 (List.mem_toFinset.1 ht)
  rw [hcount l hl]

end counting


theorem uniqFrom_congr_seen : ∀ (M : List Leaf) (seen seen' : List String),
    (∀ l ∈ M, l.name ∈ seen ↔ l.name ∈ seen') → uniqFrom seen M = uniqFrom seen' M
  | [], _, _, _ => rfl
  | y :: M, seen, seen', h => by
    unfold uniqFrom
    have hy := h y (List.mem_cons_self ..)
    have hM : ∀ l ∈ M, l.name ∈ seen ↔ l.name ∈ seen' := fun l hl => h l (List.mem_cons_of_mem _ hl)
    by_cases hs : y.name ∈ seen
    · have hs' := hy.1 hs
      simp only [List.contains_iff_mem, hs, hs', if_true]
      exact uniqFrom_congr_seen M seen seen' hM
    · have hs' : y.name ∉ seen' := fun hc => hs (hy.2 hc)
      simp only [List.contains_iff_mem, hs, hs', if_false]
      congr 1
      apply uniqFrom_congr_seen
      intro l hl
      simp only [List.mem_cons]
      rw [hM l hl]

theorem uniqFrom_cons (seen : List String) (x : Leaf) (L : List Leaf) :
    uniqFrom seen (x :: L) =
      if seen.contains x.name then uniqFrom seen L else x :: uniqFrom (x.name :: seen) L := by
  rw [uniqFrom]

/-- uniquifying commutes with a filter that only looks at names -/
theorem uniqFrom_filter (P : Leaf → Bool) : ∀ (L : List Leaf) (seen : List String),
    (∀ l ∈ L, ∀ l' ∈ L, l.name = l'.name → P l = P l') →
    uniqFrom seen (L.filter P) = (uniqFrom seen L).filter P
  | [], _, _ => rfl
  | x :: L, seen, hinv => by
    have hinv' : ∀ l ∈ L, ∀ l' ∈ L, l.name = l'.name → P l = P l' :=
      fun l hl l' hl' => hinv l (List.mem_cons_of_mem _ hl) l' (List.mem_cons_of_mem _ hl')
    by_cases hP : P x = true
    · rw [List.filter_cons_of_pos hP, uniqFrom_cons, uniqFrom_cons]
      split
      · exact uniqFrom_filter P L seen hinv'
      · rw [List.filter_cons_of_pos hP, uniqFrom_filter P L _ hinv']
    · rw [List.filter_cons_of_neg hP, uniqFrom_cons]
      split
      · exact uniqFrom_filter P L seen hinv'
      · rw [List.filter_cons_of_neg hP, ← uniqFrom_filter P L _ hinv']
        apply uniqFrom_congr_seen
        intro l hl
        obtain ⟨hlL, hPl⟩ := List.mem_filter.1 hl
        have hne : l.name ≠ x.name := by
          intro hn
          have := hinv l (List.mem_cons_of_mem _ hlL) x (List.mem_cons_self ..) hn
          rw [hPl] at this; exact hP this.symm
        simp [hne]

theorem uniq_filter (P : Leaf → Bool) (L : List Leaf)
    (hinv : ∀ l ∈ L, ∀ l' ∈ L, l.name = l'.name → P l = P l') :
    uniq (L.filter P) = (uniq L).filter P := uniqFrom_filter P L [] hinv

/-! ## hard cost = cost of the exported network -/

/-- what the cost code reads off a leaf's name is a function of the name -/
theorem leaf_fields {g : Graph} {l : Leaf} (h : l ∈ leafModules g) :
    l.inBranch = hasSub l.name "sn_branches" ∧ l.br = if l.isComb then none else branchOf l.name := by
  have := mem_leafModules h
  unfold leafOf at this
  split at this
  · injection this with this; rw [← this]; exact ⟨rfl, rfl⟩
  · injection this with this; rw [← this]; exact ⟨rfl, rfl⟩
  · cases this




/-- hypotheses of "hard cost = cost of the exported network" that concern names only -/
structure NamesSane (w : String → Nat) (g0 g : Graph) : Prop where
  /-- export keeps, by name, the layers outside choice blocks and the winners' layers (what C03
  establishes and `export_keeps_exactly` characterises) -/
  kept : ∀ l ∈ leafModules g0, (g.nd l.node).live = keptByName w (leafModules g0) l
  /-- a module is not called both as a combiner and as a layer -/
  nameKind : ∀ l ∈ leafModules g0, ∀ l' ∈ leafModules g0, l.name = l'.name → l.isComb = l'.isComb
  /-- a leaf with a branch tag has `sn_branches` in its name -/
  brIn : ∀ l ∈ leafModules g0, l.br ≠ none → l.inBranch = true
  /-- different `SuperNetModule`s have different names -/
  parents : ∀ c ∈ leafModules g0, c.isComb = true → ∀ c' ∈ leafModules g0, c'.isComb = true →
    parentOf c.name = parentOf c'.name → c.name = c'.name

/-- … and, for per-invocation metrics, call sites -/
structure SitesSane {K : Type} (w : String → Nat) (u : Nat → K) (g0 : Graph) : Prop where
  /-- every layer of a winning branch is called once per call site of its block -/
  sites : ∀ c ∈ leafModules g0, c.isComb = true → ∀ l ∈ leafModules g0,
    winnerLeaf w c.name l = true → callSites (leafModules g0) l.name = callSites (leafModules g0) c.name
  /-- **all call sites of a module have the same output shape** (as far as the metric can tell) -/
  sameShape : ∀ l ∈ leafModules g0, ∀ l' ∈ leafModules g0, l.name = l'.name → u l.node = u l'.node

theorem count_filter_names (ls : List Leaf) (P : Leaf → Bool)
    (hinv : ∀ l ∈ ls, ∀ l' ∈ ls, l.name = l'.name → P l = P l') (l : Leaf) (hl : l ∈ ls) (hP : P l = true) :
    ((ls.filter P).map (·.name)).count l.name = (ls.map (·.name)).count l.name := by
  rw [List.count_eq_countP, List.count_eq_countP, List.countP_map, List.countP_map, List.countP_filter]
  apply List.countP_congr
  intro x hx
  simp only [Function.comp, Bool.and_eq_true, beq_iff_eq]
  constructor
  · intro h; exact h.1
  · intro h; exact ⟨h, by rw [hinv x hx l hl h]; exact hP⟩


theorem winnerLeaf_name_inv {w : String → Nat} {g0 g : Graph} (hs : NamesSane w g0 g) (n : String) :
    ∀ l ∈ leafModules g0, ∀ l' ∈ leafModules g0, l.name = l'.name →
      winnerLeaf w n l = winnerLeaf w n l' := by
  intro l hl l' hl' hn
  unfold winnerLeaf
  rw [(leaf_fields hl).2, (leaf_fields hl').2, hs.nameKind l hl l' hl' hn, hn]

theorem keptByName_name_inv {w : String → Nat} {g0 g : Graph} (hs : NamesSane w g0 g) :
    ∀ l ∈ leafModules g0, ∀ l' ∈ leafModules g0, l.name = l'.name →
      keptByName w (leafModules g0) l = keptByName w (leafModules g0) l' := by
  intro l hl l' hl' hn
  unfold keptByName
  rw [(leaf_fields hl).2, (leaf_fields hl').2, (leaf_fields hl).1, (leaf_fields hl').1,
    hs.nameKind l hl l' hl' hn, hn]

theorem count_combSites {w : String → Nat} {g0 g : Graph} (hs : NamesSane w g0 g)
    (c : Leaf) (hc : c ∈ leafModules g0) (hcc : c.isComb = true) :
    (combSites (leafModules g0)).count c.name = callSites (leafModules g0) c.name := by
  unfold combSites callSites
  exact count_filter_names _ _ (fun l hl l' hl' hn => hs.nameKind l hl l' hl' hn) c hc hcc

section main
variable {K : Type} [CommSemiring K]

theorem branchCost_eq_sum (u : Nat → K) (ls : List Leaf) (parent : List (List Char)) (i : Nat) :
    branchCost u ls parent i = ((branchLeaves ls parent i).map fun l => u l.node).sum := by
  unfold branchCost
  rw [foldl_add_eq_sum, zero_add]

/-- the winners' layers cost, over all call sites, what the combiners charge under hard selection -/
theorem winners_cost {w : String → Nat} {u : Nat → K} {g0 g : Graph} (hs : NamesSane w g0 g)
    (hu : SitesSane w u g0) (c : Leaf) (hc : c ∈ leafModules g0) (hcc : c.isComb = true) :
    (((leafModules g0).filter (winnerLeaf w c.name)).map fun l => u l.node).sum =
      callSites (leafModules g0) c.name • branchCost u (leafModules g0) (parentOf c.name) (w c.name) := by
  rw [branchCost_eq_sum]
  have hL : ∀ l ∈ (leafModules g0).filter (winnerLeaf w c.name), l ∈ leafModules g0 ∧
      winnerLeaf w c.name l = true := fun l hl => List.mem_filter.1 hl
  exact sum_eq_count_smul_uniq _ (fun l => u l.node) _
    (fun l hl l' hl' hn => hu.sameShape l (hL l hl).1 l' (hL l' hl').1 hn)
    (fun l hl => by
      rw [count_filter_names _ _ (winnerLeaf_name_inv hs c.name) l (hL l hl).1 (hL l hl).2]
      exact hu.sites c hc hcc l (hL l hl).1 (hL l hl).2)

/-- fixed part / block part of one entry -/
def fixedPart (u : Nat → K) (l : Leaf) : K := if (!l.isComb && !l.inBranch) = true then u l.node else 0
def blockPart (w : String → Nat) (u : Nat → K) (ls : List Leaf) (l : Leaf) : K :=
  if l.isComb = true then branchCost u ls (parentOf l.name) (w l.name) else 0
def winnerPart (w : String → Nat) (u : Nat → K) (ls : List Leaf) (l : Leaf) : K :=
  if (∃ n ∈ (combSites ls).toFinset, (winnerLeaf w n l && l.inBranch) = true) then u l.node else 0

theorem contribHard_split (w : String → Nat) (u : Nat → K) (ls : List Leaf) (l : Leaf) :
    contribHard true w u ls l = fixedPart u l + blockPart w u ls l := by
  simp only [contribHard, fixedPart, blockPart]
  cases l.isComb <;> cases l.inBranch <;> simp

theorem kept_split (w : String → Nat) (u : Nat → K) (ls : List Leaf) (l : Leaf) :
    (if keptByName w ls l = true then u l.node else 0) = fixedPart u l + winnerPart w u ls l := by
  classical
  simp only [fixedPart, winnerPart, keptByName]
  have hex : (∃ n ∈ (combSites ls).toFinset, (winnerLeaf w n l && l.inBranch) = true) ↔
      (l.isComb = false ∧ l.inBranch = true ∧
        (ls.any fun c => c.isComb && l.br == some (parentOf c.name, w c.name)) = true) := by
    simp only [combSites, List.mem_toFinset, List.mem_map, List.mem_filter, winnerLeaf,
      Bool.and_eq_true, Bool.not_eq_true', beq_iff_eq, List.any_eq_true]
    constructor
    · rintro ⟨n, ⟨c, ⟨hc, hcc⟩, rfl⟩, ⟨h3, h4⟩, h5⟩
      exact ⟨h3, h5, c, hc, hcc, h4⟩
    · rintro ⟨h3, h5, c, hc, hcc, h4⟩
      exact ⟨c.name, ⟨c, ⟨hc, hcc⟩, rfl⟩, ⟨h3, h4⟩, h5⟩
  by_cases hc : l.isComb = true
  · have : ¬ (∃ n ∈ (combSites ls).toFinset, (winnerLeaf w n l && l.inBranch) = true) := by
      rw [hex]; intro h; rw [h.1] at hc; cases hc
    simp only [if_neg this]
    simp [hc]
  · have hc' : l.isComb = false := by simpa using hc
    by_cases hb : l.inBranch = true
    · by_cases hany : (ls.any fun c => c.isComb && l.br == some (parentOf c.name, w c.name)) = true
      · have := hex.2 ⟨hc', hb, hany⟩
        simp only [if_pos this]
        simp [hc', hb, hany]
      · have : ¬ (∃ n ∈ (combSites ls).toFinset, (winnerLeaf w n l && l.inBranch) = true) := by
          rw [hex]; intro h; exact hany h.2.2
        simp only [if_neg this]
        simp [hc', hb, hany]
    · have hb' : l.inBranch = false := by simpa using hb
      have : ¬ (∃ n ∈ (combSites ls).toFinset, (winnerLeaf w n l && l.inBranch) = true) := by
        rw [hex]; intro h; rw [h.2.1] at hb'; cases hb'
      simp only [if_neg this]
      simp [hc', hb']

/-- regrouping the winners' part by combiner, over any sub-list of the leaves -/
theorem winnerPart_sum {w : String → Nat} {g0 g : Graph} (hs : NamesSane w g0 g) (u : Nat → K)
    (L : List Leaf) :
    (L.map (winnerPart w u (leafModules g0))).sum =
      ∑ n ∈ (combSites (leafModules g0)).toFinset,
        ((L.filter fun l => winnerLeaf w n l && l.inBranch).map fun l => u l.node).sum := by
  classical
  unfold winnerPart
  apply sum_fiberwise
  intro l _ n hn m hm hwn hwm
  simp only [combSites, List.mem_toFinset, List.mem_map, List.mem_filter] at hn hm
  obtain ⟨c, ⟨hc, hcc⟩, rfl⟩ := hn
  obtain ⟨c', ⟨hc', hcc'⟩, rfl⟩ := hm
  simp only [winnerLeaf, Bool.and_eq_true, Bool.not_eq_true', beq_iff_eq] at hwn hwm
  have : some (parentOf c.name, w c.name) = some (parentOf c'.name, w c'.name) := by
    rw [← hwn.1.2, ← hwm.1.2]
  injection this with this
  injection this with hp _
  exact hs.parents c hc hcc c' hc' hcc' hp

theorem filter_winner_inBranch {w : String → Nat} {g0 g : Graph} (hs : NamesSane w g0 g) (n : String)
    (L : List Leaf) (hL : ∀ l ∈ L, l ∈ leafModules g0) :
    (L.filter fun l => winnerLeaf w n l && l.inBranch) = L.filter (winnerLeaf w n) := by
  apply List.filter_congr
  intro l hl
  by_cases hwl : winnerLeaf w n l = true
  · have : l.br ≠ none := by
      simp only [winnerLeaf, Bool.and_eq_true, beq_iff_eq] at hwl
      rw [hwl.2]; simp
    simp [hwl, hs.brIn l (hL l hl) this]
  · simp [hwl]

/-- **hard cost = cost of the exported network, per-invocation metric** -/
theorem hard_eq_export_per_invocation {w : String → Nat} {u : Nat → K} {g0 g : Graph}
    (sp : ExportSpec w g0 g)
    (hsel : SelectionOk g0 w) (hs : NamesSane w g0 g) (hu : SitesSane w u g0) :
    snCost false true (hardTheta g0 w) u g0 = plainCost false u g := by
  classical
  set ls := leafModules g0 with hls
  rw [snCost_eq_sum, plainCost_eq_sum]
  have htl : ∀ g', targetList false g' = leafModules g' := fun g' => by simp [targetList]
  rw [htl, htl, leafModules_export sp, ← hls]
  have hfilter : ls.filter (fun l => (g.nd l.node).live) = ls.filter (keptByName w ls) := by
    apply List.filter_congr
    intro l hl; exact hs.kept l hl
  rw [hfilter, sum_filter_eq_sum_ite]
  have hL : (ls.map (contrib true (hardTheta g0 w) u ls)).sum =
      (ls.map fun l => fixedPart u l + blockPart w u ls l).sum := by
    congr 1; apply List.map_congr_left; intro l hl
    rw [contrib_hard hsel true u l hl, contribHard_split]
  have hR : (ls.map fun l => if keptByName w ls l = true then u l.node else 0).sum =
      (ls.map fun l => fixedPart u l + winnerPart w u ls l).sum := by
    congr 1; apply List.map_congr_left; intro l _; exact kept_split w u ls l
  rw [hL, hR, sum_map_add', sum_map_add']
  congr 1
  have hB : (ls.map (blockPart w u ls)).sum =
      ((combSites ls).map fun n => branchCost u ls (parentOf n) (w n)).sum := by
    unfold combSites blockPart
    rw [List.map_map, ← sum_filter_eq_sum_ite]
    rfl
  rw [hB, Finset.sum_list_map_count, winnerPart_sum hs u ls]
  apply Finset.sum_congr rfl
  intro n hn
  simp only [combSites, List.mem_toFinset, List.mem_map, List.mem_filter] at hn
  obtain ⟨c, ⟨hc, hcc⟩, rfl⟩ := hn
  rw [filter_winner_inBranch hs c.name ls (fun l hl => hl), winners_cost hs hu c hc hcc,
    count_combSites hs c hc hcc]

/-- **hard cost = cost of the exported network, shared metric** (no hypothesis on shapes or call
sites: every module is charged once, at its first call site, on both sides) -/
theorem hard_eq_export_shared {w : String → Nat} {u : Nat → K} {g0 g : Graph}
    (sp : ExportSpec w g0 g)
    (hsel : SelectionOk g0 w) (hs : NamesSane w g0 g) :
    snCost true true (hardTheta g0 w) u g0 = plainCost true u g := by
  classical
  set ls := leafModules g0 with hls
  rw [snCost_eq_sum, plainCost_eq_sum]
  have htl : ∀ g', targetList true g' = uniq (leafModules g') := fun g' => by simp [targetList]
  rw [htl, htl, leafModules_export sp, ← hls]
  have hfilter : ls.filter (fun l => (g.nd l.node).live) = ls.filter (keptByName w ls) := by
    apply List.filter_congr
    intro l hl; exact hs.kept l hl
  rw [hfilter, uniq_filter _ ls (keptByName_name_inv hs), sum_filter_eq_sum_ite]
  have hL : ((uniq ls).map (contrib true (hardTheta g0 w) u ls)).sum =
      ((uniq ls).map fun l => fixedPart u l + blockPart w u ls l).sum := by
    congr 1; apply List.map_congr_left; intro l hl
    rw [contrib_hard hsel true u l (mem_uniq hl), contribHard_split]
  have hR : ((uniq ls).map fun l => if keptByName w ls l = true then u l.node else 0).sum =
      ((uniq ls).map fun l => fixedPart u l + winnerPart w u ls l).sum := by
    congr 1; apply List.map_congr_left; intro l _; exact kept_split w u ls l
  rw [hL, hR, sum_map_add', sum_map_add']
  congr 1
  -- combiners, once each
  have hcomb : (uniq ls).filter (·.isComb) = uniq (ls.filter (·.isComb)) :=
    (uniq_filter _ ls (fun l hl l' hl' hn => hs.nameKind l hl l' hl' hn)).symm
  have hB : ((uniq ls).map (blockPart w u ls)).sum =
      ((((uniq ls).filter (·.isComb)).map (·.name)).map fun n => branchCost u ls (parentOf n) (w n)).sum := by
    unfold blockPart
    rw [List.map_map, ← sum_filter_eq_sum_ite]
    rfl
  have hnd : (((uniq ls).filter (·.isComb)).map (·.name)).Nodup := by
    rw [hcomb]; exact nodup_uniqFrom _ []
  have hset : (((uniq ls).filter (·.isComb)).map (·.name)).toFinset = (combSites ls).toFinset := by
    rw [hcomb, toFinset_names_uniq]; rfl
  rw [hB, ← List.sum_toFinset _ hnd, hset, winnerPart_sum hs u (uniq ls)]
  apply Finset.sum_congr rfl
  intro n hn
  simp only [combSites, List.mem_toFinset, List.mem_map, List.mem_filter] at hn
  obtain ⟨c, ⟨hc, hcc⟩, rfl⟩ := hn
  rw [filter_winner_inBranch hs c.name (uniq ls) (fun l hl => mem_uniq hl),
    ← uniq_filter _ ls (winnerLeaf_name_inv hs c.name), branchCost_eq_sum]
  rfl

end main


end exportcost

/-! ## the executable versions of `NamesSane` / `SitesSane` are sound -/

theorem namesSaneB_sound {w : String → Nat} {g0 g : Graph} (h : namesSaneB w g0 g = true) :
    NamesSane w g0 g := by
  unfold namesSaneB at h
  simp only [Bool.and_eq_true, List.all_eq_true, beq_iff_eq, Bool.or_eq_true, bne_iff_ne, ne_eq,
    Bool.not_eq_true'] at h
  obtain ⟨⟨⟨h1, h2⟩, h3⟩, h4⟩ := h
  refine ⟨h1, ?_, ?_, ?_⟩
  · intro l hl l' hl' hn
    rcases h2 l hl l' hl' with h | h
    · exact absurd hn h
    · exact h
  · intro l hl hbr
    rcases h3 l hl with h | h
    · exact absurd h hbr
    · exact h
  · intro c hc hcc c' hc' hcc' hp
    rcases h4 c hc with h | h
    · rw [hcc] at h; cases h
    · rcases h c' hc' with h | h
      · rcases h with h | h
        · rw [hcc'] at h; cases h
        · exact absurd hp h
      · exact h

theorem sitesSaneB_sound {K : Type} [BEq K] [LawfulBEq K] {w : String → Nat} {u : Nat → K} {g0 : Graph}
    (h : sitesSaneB w u g0 = true) : SitesSane w u g0 := by
  unfold sitesSaneB sameUnitCost at h
  simp only [Bool.and_eq_true, List.all_eq_true, beq_iff_eq, Bool.or_eq_true, bne_iff_ne, ne_eq,
    Bool.not_eq_true'] at h
  obtain ⟨h1, h2⟩ := h
  refine ⟨?_, ?_⟩
  · intro c hc hcc l hl hw
    rcases h1 c hc with h | h
    · rw [hcc] at h; cases h
    · rcases h l hl with h | h
      · rw [hw] at h; cases h
      · exact h
  · intro l hl l' hl' hn
    rcases h2 l hl l' hl' with h | h
    · exact absurd hn h
    · exact h

/-! ## histories (C03): only writes of `alpha` change what export selects -/

theorem alphaOf_histStep (st : HistSt) (op : HistOp) (h : op.isWrite = false) :
    alphaOf (histStep st op) = alphaOf st := by
  unfold alphaOf histStep
  rw [List.map_map]
  apply List.map_congr_left
  intro p _
  cases op with
  | setAlpha c a => cases h
  | setHard h => rfl
  | setTemp => rfl
  | forward t => rfl
  | exported => rfl

theorem alphaOf_runHist (ops : List HistOp) : ∀ (st : HistSt), (∀ op ∈ ops, op.isWrite = false) →
    alphaOf (runHist st ops) = alphaOf st := by
  induction ops with
  | nil => intro st _; rfl
  | cons op ops ih =>
    intro st h
    unfold runHist
    rw [List.foldl_cons]
    have := ih (histStep st op) (fun o ho => h o (List.mem_cons_of_mem _ ho))
    unfold runHist at this
    rw [this, alphaOf_histStep st op (h op (List.mem_cons_self ..))]

theorem assoc_alphaOf_write (st : HistSt) (c : String) (a : List Rat) (hc : c ∈ st.map (·.1)) :
    assoc (alphaOf (histStep st (.setAlpha c a))) [] c = a := by
  unfold assoc alphaOf histStep
  induction st with
  | nil => cases hc
  | cons p st ih =>
    simp only [List.map_cons, List.find?_cons]
    by_cases hp : p.1 = c
    · simp [hp, stepComb]
    · have hne : (p.1 == c) = false := by simpa using hp
      simp only [hne]
      apply ih
      rcases List.mem_cons.1 hc with h | h
      · exact absurd h.symm hp
      · exact h

theorem histStep_export (st : HistSt) : histStep st .exported = st := by
  unfold histStep
  conv_rhs => rw [← List.map_id st]
  apply List.map_congr_left
  intro p _; rfl

theorem runHist_filter_export (ops : List HistOp) : ∀ (st : HistSt),
    runHist st ops = runHist st (ops.filter fun op => !op.isExport) := by
  induction ops with
  | nil => intro st; rfl
  | cons op ops ih =>
    intro st
    cases op with
    | exported =>
      have : runHist st (HistOp.exported :: ops) = runHist st ops := by
        unfold runHist; rw [List.foldl_cons, histStep_export]
      rw [this, ih st]; rfl
    | setAlpha c a => unfold runHist at ih ⊢; simp [HistOp.isExport, List.foldl_cons, ih]
    | setHard h => unfold runHist at ih ⊢; simp [HistOp.isExport, List.foldl_cons, ih]
    | setTemp => unfold runHist at ih ⊢; simp [HistOp.isExport, List.foldl_cons, ih]
    | forward t => unfold runHist at ih ⊢; simp [HistOp.isExport, List.foldl_cons, ih]

end PlinioVerif.SuperNet
