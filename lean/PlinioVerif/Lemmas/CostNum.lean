import PlinioVerif.Model.CostNum
import Mathlib.Data.Rat.Floor
import Mathlib.Algebra.Order.Floor.Ring
import Mathlib.Algebra.Order.Field.Basic
import Mathlib.Tactic.Ring
import Mathlib.Tactic.Linarith
import Mathlib.Tactic.Positivity
import Mathlib.Tactic.GCongr
import Mathlib.Tactic.SplitIfs
import Mathlib.Tactic.NormNum
/-!
# The value reading `CostNum ℚ` in Mathlib terms

`rfl`-lemmas turning every `CostNum` operation on `ℚ` into the ordinary operation, so that the
equivalence lemmas `Gen.f = Spec.f` can be closed by `ring_nf`; floor/ceiling-division lemmas used
by the monotonicity proofs.
-/
namespace PlinioVerif
open CostNum

/-- `ratFloor` is Mathlib's floor -/
theorem ratFloor_eq (x : ℚ) : ratFloor x = (⌊x⌋ : ℚ) := rfl

namespace CostNum
variable (a b : ℚ)
theorem add_rat : CostNum.add a b = a + b := rfl
theorem sub_rat : CostNum.sub a b = a - b := rfl
theorem mul_rat : CostNum.mul a b = a * b := rfl
theorem div_rat : CostNum.div a b = a / b := rfl
theorem ofRat_rat (q : ℚ) : (CostNum.ofRat q : ℚ) = q := rfl
theorem valOf_rat : CostNum.valOf a = a := rfl
theorem floor_rat : CostNum.floor a = ratFloor a := rfl
theorem abs_rat : CostNum.abs a = |a| := by
  show (if a < 0 then -a else a) = |a|
  split_ifs with h
  · exact (abs_of_neg h).symm
  · exact (abs_of_nonneg (not_lt.mp h)).symm
theorem min_rat : CostNum.min a b = Min.min a b := by
  show (if a ≤ b then a else b) = Min.min a b
  rw [min_def]
theorem max_rat : CostNum.max a b = Max.max a b := by
  show (if a ≤ b then b else a) = Max.max a b
  rw [max_def]
theorem ste_rat (n : String) (f : List ℚ → ℚ) (g : List ℚ → ℚ → List (Option ℚ)) (l : List ℚ) :
    CostNum.ste n f g l = f l := rfl
theorem floordiv_rat : CostNum.floordiv a b = ratFloor (a / b) := rfl
theorem pymod_rat : CostNum.pymod a b = a - b * ratFloor (a / b) := rfl
theorem neg_rat : CostNum.neg a = -a := by show (0 : ℚ) - a = -a; ring
theorem ofBool_rat (c : Bool) : (CostNum.ofBool c : ℚ) = if c then 1 else 0 := rfl
theorem idx_rat (l : List ℚ) (i : ℕ) : CostNum.idx l i = l.getD i 0 := rfl
theorem eqv_rat : CostNum.eqv a b = decide (a = b) := rfl
theorem nev_rat : CostNum.nev a b = !decide (a = b) := rfl
theorem ltv_rat : CostNum.ltv a b = decide (a < b) := rfl
theorem lev_rat : CostNum.lev a b = decide (a ≤ b) := rfl
theorem nz_rat : CostNum.nz a = !decide (a = 0) := rfl
theorem memRat_rat (l : List ℚ) : CostNum.memRat a l = l.contains a := rfl
theorem lut2_rat (t : List (ℚ × List (ℚ × ℚ))) : CostNum.lut2 t a b = (lut2? t a b).getD 0 := rfl
theorem lut2ok_rat (t : List (ℚ × List (ℚ × ℚ))) : CostNum.lut2ok t a b = (lut2? t a b).isSome := rfl
end CostNum

/-- rewrite every `CostNum` operation on `ℚ` into the ordinary one -/
macro "costnum_simp" : tactic => `(tactic| simp only [CostNum.add_rat, CostNum.sub_rat, CostNum.mul_rat,
  CostNum.div_rat, CostNum.ofRat_rat, CostNum.valOf_rat, CostNum.floor_rat, CostNum.abs_rat,
  CostNum.min_rat, CostNum.max_rat, CostNum.ste_rat, CostNum.floordiv_rat, CostNum.pymod_rat,
  CostNum.neg_rat, CostNum.ofBool_rat, CostNum.idx_rat, CostNum.eqv_rat, CostNum.nev_rat,
  CostNum.ltv_rat, CostNum.lev_rat, CostNum.nz_rat, CostNum.memRat_rat, CostNum.lut2_rat,
  CostNum.lut2ok_rat, List.getD_cons_zero, List.getD_cons_succ])

theorem getD_drop (l : List ℚ) (n i : ℕ) : (l.drop n).getD i 0 = l.getD (n + i) 0 := by
  simp [List.getD_eq_getElem?_getD, List.getElem?_drop]

open Lean.Parser.Tactic in
/-- `gen_eq [defs]`: close `Gen.f … = Spec.f …` after unfolding `defs`: turn the `CostNum` operations
into ordinary ones, split the conditionals, normalise both sides as commutative-ring expressions
(also inside `floor`).  Tolerates algebraic rewrites of the Python; a changed constant, factor,
term or rounding leaves an unsolved goal. -/
macro "gen_eq" "[" ls:simpLemma,* "]" : tactic => `(tactic| (
  simp only [$ls,*, CostNum.add_rat, CostNum.sub_rat, CostNum.mul_rat,
  CostNum.div_rat, CostNum.ofRat_rat, CostNum.valOf_rat, CostNum.floor_rat, CostNum.abs_rat,
  CostNum.min_rat, CostNum.max_rat, CostNum.ste_rat, CostNum.floordiv_rat, CostNum.pymod_rat,
  CostNum.neg_rat, CostNum.ofBool_rat, CostNum.idx_rat, CostNum.eqv_rat, CostNum.nev_rat,
  CostNum.ltv_rat, CostNum.lev_rat, CostNum.nz_rat, CostNum.memRat_rat, CostNum.lut2_rat,
  CostNum.lut2ok_rat, List.getD_cons_zero, List.getD_cons_succ, getD_drop, Bool.and_eq_true,
  Bool.or_eq_true, decide_eq_true_eq, Bool.not_eq_true', decide_eq_false_iff_not]
  try split_ifs
  all_goals (try ring_nf)
  all_goals (try simp_all)))

/-! ### floor -/

theorem ratFloor_mono {a b : ℚ} (h : a ≤ b) : ratFloor a ≤ ratFloor b := by
  rw [ratFloor_eq, ratFloor_eq]; exact_mod_cast Int.floor_mono h
theorem ratFloor_nonneg {a : ℚ} (h : 0 ≤ a) : 0 ≤ ratFloor a := by
  rw [ratFloor_eq]; exact_mod_cast Int.floor_nonneg.mpr h
theorem ratFloor_le (a : ℚ) : ratFloor a ≤ a := by rw [ratFloor_eq]; exact Int.floor_le a
theorem lt_ratFloor_add_one (a : ℚ) : a < ratFloor a + 1 := by
  rw [ratFloor_eq]; exact Int.lt_floor_add_one a
theorem ratFloor_pos {a : ℚ} (h : 1 ≤ a) : 1 ≤ ratFloor a := by
  rw [ratFloor_eq]
  have : (1 : ℤ) ≤ ⌊a⌋ := Int.le_floor.mpr (by exact_mod_cast h)
  exact_mod_cast this
theorem ratFloor_intCast (z : ℤ) : ratFloor (z : ℚ) = z := by rw [ratFloor_eq, Int.floor_intCast]
theorem ratFloor_natCast (n : ℕ) : ratFloor (n : ℚ) = n := by rw [ratFloor_eq, Int.floor_natCast]; simp
/-- `ratFloor` is integer valued -/
theorem ratFloor_isInt (a : ℚ) : ∃ z : ℤ, ratFloor a = z := ⟨⌊a⌋, rfl⟩

end PlinioVerif
