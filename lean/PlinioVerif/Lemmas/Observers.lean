import PlinioVerif.Model.Observers
/-! Helper lemmas for C18 (observers).  Core tactics only. -/
set_option linter.unusedSimpArgs false
namespace PlinioVerif.Observers

/-- everything but the RNG position and the incidental attributes -/
def core (s : State) : Bool × Bool × Bool × Bool × Theta × Nat × Nat × Spec × Nat := obsStateExact s

/-- an observer call leaves everything but `rng` and `attrs` alone -/
theorem step_observer_core (c : Cfg) (s : State) (op : Op) (h : op.isObserver = true) :
    core (step c s op).1 = core s := by
  cases op with
  | exportNet => simp [step, exportStep, core, obsStateExact]
  | exportNoBn => simp [step, exportStep, core, obsStateExact]
  | summary => rfl
  | cost => simp only [step, costStep]; split <;> rfl
  | getCost => simp only [step, costStep]; split <;> rfl
  | getCostB => simp only [step, costStep]; split <;> rfl
  | setSpec k => simp [Op.isObserver] at h
  | forward => simp [Op.isObserver] at h
  | optStep => simp [Op.isObserver] at h
  | exportRaises => simp [step, core, obsStateExact]

theorem run_cons (c : Cfg) (s : State) (op : Op) (ops : List Op) :
    run c s (op :: ops) = run c (step c s op).1 ops := rfl

theorem run_append (c : Cfg) (s : State) (a b : List Op) : run c s (a ++ b) = run c (run c s a) b := by
  simp [run, List.foldl_append]

theorem run_observers_core (c : Cfg) (ops : List Op) (h : ∀ op ∈ ops, op.isObserver = true) :
    ∀ s, core (run c s ops) = core s := by
  induction ops with
  | nil => intro s; rfl
  | cons op ops ih =>
    intro s
    rw [run_cons, ih (fun o ho => h o (List.mem_cons_of_mem _ ho)),
        step_observer_core c s op (h op List.mem_cons_self)]

/-- the value an observer returns depends on the core only -/
theorem observer_out_of_core (c : Cfg) (a b : State) (op : Op) (h : op.isObserver = true)
    (hab : core a = core b) : (step c a op).2 = (step c b op).2 := by
  simp only [core, obsStateExact, Prod.mk.injEq] at hab
  obtain ⟨_, _, _, _, ht, ha, hp, hs, _⟩ := hab
  cases op with
  | exportNet => simp [step, exportStep, exportedStats, ha, hp]
  | exportNoBn => simp [step, exportStep, exportedStats, ha, hp]
  | summary => simp [step, ha]
  | cost => simp only [step, costStep, hs, ht, ha]; split <;> rfl
  | getCost => simp only [step, costStep, hs, ht, ha]; split <;> rfl
  | getCostB => simp only [step, costStep, hs, ht, ha]; split <;> rfl
  | setSpec k => simp [Op.isObserver] at h
  | forward => simp [Op.isObserver] at h
  | optStep => simp [Op.isObserver] at h
  | exportRaises => simp [step]

/-- the sample a forward takes is the same up to the identity of the Gumbel draw -/
theorem sample_obs (c : Cfg) (tr : Bool) (r r' : Nat) (a b : Theta)
    (hh : a.hardened = b.hardened) (hn : a.noise.isSome = b.noise.isSome) (hl : a.live = b.live) :
    (sample c tr r a).hardened = (sample c tr r' b).hardened ∧
    (sample c tr r a).noise.isSome = (sample c tr r' b).noise.isSome ∧
    (sample c tr r a).live = (sample c tr r' b).live := by
  unfold sample
  cases c.method with
  | pit => exact ⟨hh, hn, hl⟩
  | mps =>
    simp only
    split
    · exact ⟨hh, hn, hl⟩
    · split <;> simp
  | sn => simp only; split <;> simp

/-- one step of the full alphabet on two states that look the same to the statement's observables:
the left one takes the step, the right one skips it when it is an observer -/
theorem step_sim (c : Cfg) (a b : State) (op : Op) (h : obsState a = obsState b) :
    obsState (step c a op).1 = obsState (if op.isObserver then b else (step c b op).1) := by
  simp only [obsState, ObsState.mk.injEq] at h
  obtain ⟨h1, h2, hb, hd, h3, h4, hv, h5, h6, h7, h8⟩ := h
  cases op with
  | exportNet => simp [step, exportStep, Op.isObserver, obsState, *]
  | exportNoBn => simp [step, exportStep, Op.isObserver, obsState, *]
  | summary => simp [step, Op.isObserver, obsState, *]
  | cost =>
    simp only [step, costStep, Op.isObserver, if_true]
    split <;> simp [obsState, *]
  | getCost =>
    simp only [step, costStep, Op.isObserver, if_true]
    split <;> simp [obsState, *]
  | getCostB =>
    simp only [step, costStep, Op.isObserver, if_true]
    split <;> simp [obsState, *]
  | setSpec k => simp [step, Op.isObserver, obsState, *]
  | forward =>
    have hs := sample_obs c b.strain a.rng b.rng a.theta b.theta h3 h4 hv
    simp [step, forwardStep, Op.isObserver, obsState, h1, h2, hb, hd, h5, h6, h7, h8, hs.1, hs.2.1, hs.2.2]
  | optStep => simp [step, optStepStep, costLive, Op.isObserver, obsState, *]
  | exportRaises => simp [step, Op.isObserver, obsState, *]

theorem run_sim (c : Cfg) (ops : List Op) :
    ∀ a b, obsState a = obsState b →
      obsState (run c a ops) = obsState (run c b (ops.filter fun o => !o.isObserver)) := by
  induction ops with
  | nil => intro a b h; exact h
  | cons op ops ih =>
    intro a b h
    have hs := step_sim c a b op h
    cases ho : op.isObserver with
    | true =>
      have : (List.filter (fun o => !o.isObserver) (op :: ops)) = List.filter (fun o => !o.isObserver) ops := by
        simp [List.filter, ho]
      rw [this, run_cons]
      simp only [ho, if_true] at hs
      exact ih _ _ hs
    | false =>
      have : (List.filter (fun o => !o.isObserver) (op :: ops)) = op :: List.filter (fun o => !o.isObserver) ops := by
        simp [List.filter, ho]
      rw [this, run_cons, run_cons]
      simp only [ho] at hs
      exact ih _ _ hs

/-- when no sampling draws from the RNG, the sample does not depend on the RNG position -/
theorem sample_nodraw (c : Cfg) (tr : Bool) (r r' : Nat) (a : Theta) (h : sampleDraws c tr = false) :
    sample c tr r a = sample c tr r' a := by
  unfold sample
  unfold sampleDraws at h
  cases hm : c.method with
  | pit => rfl
  | mps =>
    simp only [hm] at h ⊢
    cases hd : c.disable with
    | true => simp
    | false =>
      simp only [hd, Bool.not_false, Bool.true_and] at h
      simp [h]
  | sn =>
    simp only [hm] at h ⊢
    simp [h]

theorem step_sim_exact (c : Cfg) (hnd : ∀ tr, sampleDraws c tr = false) (a b : State) (op : Op)
    (h : core a = core b) :
    core (step c a op).1 = core (if op.isObserver then b else (step c b op).1) := by
  by_cases ho : op.isObserver = true
  · simp only [ho, if_true]
    rw [step_observer_core c a op ho]; exact h
  · have ho' : op.isObserver = false := by simpa using ho
    simp only [ho']
    simp only [core, obsStateExact, Prod.mk.injEq] at h
    obtain ⟨h1, h2, hb, hd, h3, h4, h5, h6, h7⟩ := h
    cases op with
    | exportNet => simp [Op.isObserver] at ho'
    | exportNoBn => simp [Op.isObserver] at ho'
    | summary => simp [Op.isObserver] at ho'
    | cost => simp [Op.isObserver] at ho'
    | getCost => simp [Op.isObserver] at ho'
    | getCostB => simp [Op.isObserver] at ho'
    | setSpec k => simp [step, core, obsStateExact, *]
    | optStep => simp [step, optStepStep, costLive, core, obsStateExact, *]
    | exportRaises => simp [Op.isObserver] at ho'
    | forward =>
      have := sample_nodraw c b.strain a.rng b.rng b.theta (hnd _)
      simp [step, forwardStep, core, obsStateExact, h1, h2, hb, hd, h3, h4, h5, h6, h7, this]

theorem run_sim_exact (c : Cfg) (hnd : ∀ tr, sampleDraws c tr = false) (ops : List Op) :
    ∀ a b, core a = core b →
      core (run c a ops) = core (run c b (ops.filter fun o => !o.isObserver)) := by
  induction ops with
  | nil => intro a b h; exact h
  | cons op ops ih =>
    intro a b h
    have hs := step_sim_exact c hnd a b op h
    cases ho : op.isObserver with
    | true =>
      have : (List.filter (fun o => !o.isObserver) (op :: ops)) = List.filter (fun o => !o.isObserver) ops := by
        simp [List.filter, ho]
      rw [this, run_cons]
      simp only [ho, if_true] at hs
      exact ih _ _ hs
    | false =>
      have : (List.filter (fun o => !o.isObserver) (op :: ops)) = op :: List.filter (fun o => !o.isObserver) ops := by
        simp [List.filter, ho]
      rw [this, run_cons, run_cons]
      simp only [ho] at hs
      exact ih _ _ hs

end PlinioVerif.Observers
