import PlinioVerif.Lemmas.CostRound
import Mathlib.Data.List.GetD
/-!
# Sign and monotonicity laws of the closed forms `Spec.*` (C16)

`Laws spec layer constr f` bundles, for the closed form `f` registered for pattern
`(layer, constr)` of cost specification `spec`: non-negativity on valid descriptions, positivity
on non-empty layers, monotonicity in the layer size; `BitLaws` adds monotonicity in the bit-widths.
All for arbitrary rational (hence all natural, and all relaxed) sizes.
-/
namespace PlinioVerif.Spec

/-- laws of a registered closed form -/
class Laws (spec layer constr : String) (f : S → ℚ) : Prop where
  nonneg : ∀ s, Valid s → Supported spec constr layer s → 0 ≤ f s
  pos : ∀ s, NonEmpty s → WF layer s → Supported spec constr layer s → 0 < f s
  mono : ∀ s s', Valid s → SizeLe s s' → (constr = "" → s.groups = s'.groups) →
    Supported spec constr layer s → Supported spec constr layer s' → f s ≤ f s'

/-- monotonicity in the bit-widths (models in which the bit-width scales the work) -/
class BitLaws (spec layer constr : String) (f : S → ℚ) : Prop where
  mono_bits : ∀ s s', Valid s → Valid s' → BitsLe s s' →
    Supported spec constr layer s → Supported spec constr layer s' → f s ≤ f s'

/-! ### facts in the form `gcongr` / `positivity` look for -/

theorem bias_nonneg (s : S) : 0 ≤ bias s := by unfold bias; split_ifs <;> norm_num
theorem bias_eq {s s' : S} (h : s.hasBias = s'.hasBias) : bias s = bias s' := by unfold bias; rw [h]

theorem NonEmpty.facts1 {s : S} (h : NonEmpty s) (hwf : WF "Conv1d" s) : 1 ≤ k s 0 ∧ 1 ≤ o s 2 := by
  simp only [WF, if_true] at hwf
  obtain ⟨hk, ho, _⟩ := hwf
  exact ⟨h.kernel_size 0 (by omega), h.output_shape 2 (by omega)⟩
theorem NonEmpty.facts2 {s : S} (h : NonEmpty s) (hwf : WF "Conv2d" s) :
    1 ≤ k s 0 ∧ 1 ≤ k s 1 ∧ 1 ≤ o s 2 ∧ 1 ≤ o s 3 := by
  simp only [WF, String.reduceEq, if_false, if_true] at hwf
  obtain ⟨hk, ho, _⟩ := hwf
  exact ⟨h.kernel_size 0 (by omega), h.kernel_size 1 (by omega), h.output_shape 2 (by omega),
    h.output_shape 3 (by omega)⟩

set_option hygiene false in
/-- `Valid s`, `SizeLe s s'` unpacked -/
macro "intro_size" : tactic => `(tactic| (
  have hk0 := h.kernel_size 0; have hk1 := h.kernel_size 1
  have ho2 := h.output_shape 2; have ho3 := h.output_shape 3
  have vk0 := hv.kernel_size 0; have vk1 := hv.kernel_size 1
  have vo2 := hv.output_shape 2; have vo3 := hv.output_shape 3
  have hic := h.in_channels; have hoc := h.out_channels
  have hif := h.in_features; have hof := h.out_features
  have vic := hv.in_channels; have voc := hv.out_channels
  have vif := hv.in_features; have vof := hv.out_features
  have vwp : 0 ≤ s.w_precision := by rcases hv.w_precision with h0 | h0 <;> linarith
  have vip : 0 ≤ s.in_precision := by rcases hv.in_precision with h0 | h0 <;> linarith
  have vg := hv.groups
  have vth := hv.w_theta_alpha
  have vic' := le_trans vic hic; have voc' := le_trans voc hoc
  have vif' := le_trans vif hif; have vof' := le_trans vof hof
  have vk0' := le_trans vk0 hk0; have vk1' := le_trans vk1 hk1
  have vo2' := le_trans vo2 ho2; have vo3' := le_trans vo3 ho3
  have ewp := h.w_precision; have eip := h.in_precision; have eth := h.w_theta_alpha
  have vwp' : 0 ≤ s'.w_precision := ewp ▸ vwp
  have vip' : 0 ≤ s'.in_precision := eip ▸ vip
  have vth' : 0 ≤ s'.w_theta_alpha := eth ▸ vth
  have eb := bias_eq h.hasBias
  have vb := bias_nonneg s; have vb' := bias_nonneg s'))

set_option hygiene false in
/-- `Valid s` unpacked -/
macro "intro_valid" : tactic => `(tactic| (
  have vk0 := hv.kernel_size 0; have vk1 := hv.kernel_size 1
  have vo2 := hv.output_shape 2; have vo3 := hv.output_shape 3
  have vic := hv.in_channels; have voc := hv.out_channels
  have vif := hv.in_features; have vof := hv.out_features
  have vwp : 0 ≤ s.w_precision := by rcases hv.w_precision with h0 | h0 <;> linarith
  have vip : 0 ≤ s.in_precision := by rcases hv.in_precision with h0 | h0 <;> linarith
  have vg := hv.groups
  have vth := hv.w_theta_alpha
  have vb := bias_nonneg s))

set_option hygiene false in
/-- `NonEmpty s` unpacked (`0 < x` and `1 ≤ x` forms) -/
macro "intro_nonempty" : tactic => `(tactic| (
  have nic := hn.in_channels; have noc := hn.out_channels
  have nif := hn.in_features; have nof := hn.out_features
  have pic : 0 < s.in_channels := by linarith
  have poc : 0 < s.out_channels := by linarith
  have pif : 0 < s.in_features := by linarith
  have pof : 0 < s.out_features := by linarith
  have pwp := hn.w_precision; have pip := hn.in_precision; have pg := hn.groups
  have pth := hn.w_theta_alpha
  have vb := bias_nonneg s))

set_option hygiene false in
macro "intro_nonempty1" : tactic => `(tactic| (
  intro_nonempty
  obtain ⟨nk0, no2⟩ := hn.facts1 hwf
  have pk0 : 0 < k s 0 := by linarith
  have po2 : 0 < o s 2 := by linarith))

set_option hygiene false in
macro "intro_nonempty2" : tactic => `(tactic| (
  intro_nonempty
  obtain ⟨nk0, nk1, no2, no3⟩ := hn.facts2 hwf
  have pk0 : 0 < k s 0 := by linarith
  have pk1 : 0 < k s 1 := by linarith
  have po2 : 0 < o s 2 := by linarith
  have po3 : 0 < o s 3 := by linarith))

/-! ### size and operation counts -/

set_option hygiene false in
/-- laws of a closed form that is a polynomial with non-negative coefficients in the sizes -/
macro "poly_laws" "[" ds:Lean.Parser.Tactic.simpLemma,* "]" : tactic => `(tactic| (
  refine ⟨?_, ?_, ?_⟩
  · intro s hv _
    intro_valid
    simp only [$ds,*]
    positivity
  · intro s hn hwf _
    first
      | (have hwf1 : WF "Conv1d" s := hwf
         intro_nonempty1)
      | (have hwf2 : WF "Conv2d" s := hwf
         intro_nonempty2)
      | intro_nonempty
    simp only [$ds,*]
    positivity
  · intro s s' hv h hg _ _
    intro_size
    simp only [$ds,*]
    try rw [eb]
    try rw [ewp]
    try rw [eip]
    try rw [← hg rfl]      -- unconstrained patterns: `groups` is held fixed
    gcongr))

set_option hygiene false in
/-- bit-width monotonicity of a polynomial closed form -/
macro "poly_bit_laws" "[" ds:Lean.Parser.Tactic.simpLemma,* "]" : tactic => `(tactic| (
  refine ⟨?_⟩
  intro s s' hv _ h _ _
  intro_valid
  have hwp := h.w_precision; have hip := h.in_precision
  have vwp' := le_trans vwp hwp; have vip' := le_trans vip hip
  simp only [$ds,*, k, o, ← h.kernel_size, ← h.output_shape, ← h.in_channels, ← h.out_channels,
    ← h.in_features, ← h.out_features, ← h.groups]
  simp only [k, o] at vk0 vk1 vo2 vo3
  gcongr))

instance : Laws "params" "Conv1d" "" paramsConv1d := by poly_laws [paramsConv1d]
instance : Laws "params" "Conv2d" "" paramsConv2d := by poly_laws [paramsConv2d]
instance : Laws "params" "Conv1d" "conv_dw_constraint" paramsConv1dDw := by poly_laws [paramsConv1dDw]
instance : Laws "params" "Conv2d" "conv_dw_constraint" paramsConv2dDw := by poly_laws [paramsConv2dDw]
instance : Laws "params" "Linear" "" paramsLinear := by poly_laws [paramsLinear]

instance : Laws "params_no_bias" "Conv1d" "" paramsNbConv1d := by poly_laws [paramsNbConv1d]
instance : Laws "params_no_bias" "Conv2d" "" paramsNbConv2d := by poly_laws [paramsNbConv2d]
instance : Laws "params_no_bias" "Conv1d" "conv_dw_constraint" paramsNbConv1dDw := by poly_laws [paramsNbConv1dDw]
instance : Laws "params_no_bias" "Conv2d" "conv_dw_constraint" paramsNbConv2dDw := by poly_laws [paramsNbConv2dDw]
instance : Laws "params_no_bias" "Linear" "" paramsNbLinear := by poly_laws [paramsNbLinear]

instance : Laws "params_bit" "Conv1d" "" paramsBitConv1d := by poly_laws [paramsBitConv1d]
instance : Laws "params_bit" "Conv2d" "" paramsBitConv2d := by poly_laws [paramsBitConv2d]
instance : Laws "params_bit" "Conv1d" "conv_dw_constraint" paramsBitConv1dDw := by poly_laws [paramsBitConv1dDw]
instance : Laws "params_bit" "Conv2d" "conv_dw_constraint" paramsBitConv2dDw := by poly_laws [paramsBitConv2dDw]
instance : Laws "params_bit" "Linear" "" paramsBitLinear := by poly_laws [paramsBitLinear]
instance : BitLaws "params_bit" "Conv1d" "" paramsBitConv1d := by poly_bit_laws [paramsBitConv1d]
instance : BitLaws "params_bit" "Conv2d" "" paramsBitConv2d := by poly_bit_laws [paramsBitConv2d]
instance : BitLaws "params_bit" "Conv1d" "conv_dw_constraint" paramsBitConv1dDw := by poly_bit_laws [paramsBitConv1dDw]
instance : BitLaws "params_bit" "Conv2d" "conv_dw_constraint" paramsBitConv2dDw := by poly_bit_laws [paramsBitConv2dDw]
instance : BitLaws "params_bit" "Linear" "" paramsBitLinear := by poly_bit_laws [paramsBitLinear]

instance : Laws "ops" "Conv1d" "" opsConv1d := by poly_laws [opsConv1d, paramsConv1d]
instance : Laws "ops" "Conv2d" "" opsConv2d := by poly_laws [opsConv2d, paramsConv2d]
instance : Laws "ops" "Conv1d" "conv_dw_constraint" opsConv1dDw := by poly_laws [opsConv1dDw, paramsConv1dDw]
instance : Laws "ops" "Conv2d" "conv_dw_constraint" opsConv2dDw := by poly_laws [opsConv2dDw, paramsConv2dDw]
instance : Laws "ops" "Linear" "" opsLinear := by poly_laws [opsLinear, paramsLinear]

instance : Laws "ops_no_bias" "Conv1d" "" opsNbConv1d := by poly_laws [opsNbConv1d, paramsNbConv1d]
instance : Laws "ops_no_bias" "Conv2d" "" opsNbConv2d := by poly_laws [opsNbConv2d, paramsNbConv2d]
instance : Laws "ops_no_bias" "Conv1d" "conv_dw_constraint" opsNbConv1dDw := by poly_laws [opsNbConv1dDw, paramsNbConv1dDw]
instance : Laws "ops_no_bias" "Conv2d" "conv_dw_constraint" opsNbConv2dDw := by poly_laws [opsNbConv2dDw, paramsNbConv2dDw]
instance : Laws "ops_no_bias" "Linear" "" opsNbLinear := by poly_laws [opsNbLinear, paramsNbLinear]

instance : Laws "ops_bit" "Conv1d" "" opsBitConv1d := by poly_laws [opsBitConv1d, paramsBitConv1d]
instance : Laws "ops_bit" "Conv2d" "" opsBitConv2d := by poly_laws [opsBitConv2d, paramsBitConv2d]
instance : Laws "ops_bit" "Conv1d" "conv_dw_constraint" opsBitConv1dDw := by poly_laws [opsBitConv1dDw, paramsBitConv1dDw]
instance : Laws "ops_bit" "Conv2d" "conv_dw_constraint" opsBitConv2dDw := by poly_laws [opsBitConv2dDw, paramsBitConv2dDw]
instance : Laws "ops_bit" "Linear" "" opsBitLinear := by poly_laws [opsBitLinear, paramsBitLinear]
instance : BitLaws "ops_bit" "Conv1d" "" opsBitConv1d := by poly_bit_laws [opsBitConv1d, paramsBitConv1d]
instance : BitLaws "ops_bit" "Conv2d" "" opsBitConv2d := by poly_bit_laws [opsBitConv2d, paramsBitConv2d]
instance : BitLaws "ops_bit" "Conv1d" "conv_dw_constraint" opsBitConv1dDw := by poly_bit_laws [opsBitConv1dDw, paramsBitConv1dDw]
instance : BitLaws "ops_bit" "Conv2d" "conv_dw_constraint" opsBitConv2dDw := by poly_bit_laws [opsBitConv2dDw, paramsBitConv2dDw]
instance : BitLaws "ops_bit" "Linear" "" opsBitLinear := by poly_bit_laws [opsBitLinear, paramsBitLinear]

/-! ### GAP8 -/

set_option hygiene false in
macro "gap8_facts" : tactic => `(tactic| (
  have c1 : ∀ {a n : ℚ}, 1 ≤ n → 0 ≤ a → 0 ≤ ceilDiv a n := fun hn h => ceilDiv_nonneg hn h))

instance : Laws "gap8_latency" "Conv2d" "" gap8Conv2d := by
  refine ⟨?_, ?_, ?_⟩
  · intro s hv _
    intro_valid
    unfold gap8Conv2d
    have := ceilDiv_nonneg (n := 2) (by norm_num) vo2
    have := ceilDiv_nonneg (n := 8) (by norm_num) vo3
    have := ceilDiv_nonneg (n := 4) (by norm_num) voc
    have := ceilDiv_nonneg (a := k s 0 * k s 1 * s.in_channels) (n := 4) (by norm_num) (by positivity)
    positivity
  · intro s hn hwf _
    intro_nonempty2
    unfold gap8Conv2d
    have h1 := ceilDiv_pos (n := 2) (by norm_num) no2
    have h2 := ceilDiv_pos (n := 8) (by norm_num) no3
    have h3 := ceilDiv_pos (n := 4) (by norm_num) noc
    have h4 := ceilDiv_nonneg (a := k s 0 * k s 1 * s.in_channels) (n := 4) (by norm_num) (by positivity)
    have : 0 < ceilDiv (o s 2) 2 := by linarith
    have : 0 < ceilDiv (o s 3) 8 := by linarith
    have : 0 < ceilDiv s.out_channels 4 := by linarith
    positivity
  · intro s s' hv h _ _ _
    intro_size
    unfold gap8Conv2d
    have := ceilDiv_nonneg (n := 2) (by norm_num) vo2
    have := ceilDiv_nonneg (n := 8) (by norm_num) vo3
    have := ceilDiv_nonneg (n := 4) (by norm_num) voc
    have := ceilDiv_nonneg (a := k s 0 * k s 1 * s.in_channels) (n := 4) (by norm_num) (by positivity)
    have := ceilDiv_nonneg (n := 2) (by norm_num) vo2'
    have := ceilDiv_nonneg (n := 8) (by norm_num) vo3'
    have := ceilDiv_nonneg (n := 4) (by norm_num) voc'
    have := ceilDiv_nonneg (a := k s' 0 * k s' 1 * s'.in_channels) (n := 4) (by norm_num) (by positivity)
    gcongr

instance : Laws "gap8_latency" "Conv2d" "conv_dw_constraint" gap8Conv2dDw := by
  refine ⟨?_, ?_, ?_⟩
  · intro s hv _
    intro_valid
    unfold gap8Conv2dDw
    have := ceilDiv_nonneg (n := 4) (by norm_num) voc
    positivity
  · intro s hn hwf _
    intro_nonempty2
    unfold gap8Conv2dDw
    have h3 := ceilDiv_pos (n := 4) (by norm_num) noc
    have : 0 < ceilDiv s.out_channels 4 := by linarith
    positivity
  · intro s s' hv h _ _ _
    intro_size
    unfold gap8Conv2dDw
    have := ceilDiv_nonneg (n := 4) (by norm_num) voc
    have := ceilDiv_nonneg (n := 4) (by norm_num) voc'
    gcongr

instance : Laws "gap8_latency" "Linear" "" gap8Linear := by
  refine ⟨?_, ?_, ?_⟩
  · intro s hv _
    intro_valid
    unfold gap8Linear
    have := ceilDiv_nonneg (n := 2) (by norm_num) vif
    have := ceilDiv_nonneg (n := 4) (by norm_num) vof
    positivity
  · intro s hn hwf _
    intro_nonempty
    unfold gap8Linear
    have h1 := ceilDiv_pos (n := 2) (by norm_num) nif
    have h2 := ceilDiv_pos (n := 4) (by norm_num) nof
    have : 0 < ceilDiv s.in_features 2 := by linarith
    have : 0 < ceilDiv s.out_features 4 := by linarith
    positivity
  · intro s s' hv h _ _ _
    intro_size
    unfold gap8Linear
    have := ceilDiv_nonneg (n := 2) (by norm_num) vif
    have := ceilDiv_nonneg (n := 4) (by norm_num) vof
    have := ceilDiv_nonneg (n := 2) (by norm_num) vif'
    have := ceilDiv_nonneg (n := 4) (by norm_num) vof'
    gcongr

/-! ### MPIC -/
section mpic
open CostNum
theorem mpicLut_mono_table : ∀ a ∈ [(2:ℚ),4,8], ∀ w ∈ [(0:ℚ),2,4,8], ∀ a' ∈ [(2:ℚ),4,8], ∀ w' ∈ [(0:ℚ),2,4,8],
    a ≤ a' → w ≤ w' → mpicLut a w ≤ mpicLut a' w' := by decide +kernel

theorem mpicLut_pos_table : ∀ a ∈ [(2:ℚ),4,8], ∀ w ∈ [(2:ℚ),4,8], 0 < mpicLut a w := by decide +kernel

theorem mpicSupported_mem {a w : ℚ} (h : mpicSupported a w) : a ∈ [(2:ℚ),4,8] ∧ w ∈ [(0:ℚ),2,4,8] := by
  obtain ⟨ha, hw⟩ := h
  simp only [List.mem_cons, List.not_mem_nil, or_false]
  exact ⟨ha, hw⟩

theorem lut2?_some {t : List (ℚ × List (ℚ × ℚ))} {a b v : ℚ} (h : lut2? t a b = some v) :
    ∃ r ∈ t, r.1 = a ∧ ∃ e ∈ r.2, e.1 = b ∧ e.2 = v := by
  unfold lut2? at h
  split at h
  · contradiction
  · rename_i x row hf
    split at h
    · contradiction
    · rename_i y v' hf'
      injection h with h
      have h1 := List.find?_some hf
      have h2 := List.find?_some hf'
      simp only [beq_iff_eq] at h1 h2
      exact ⟨_, List.mem_of_find?_eq_some hf, h1, _, List.mem_of_find?_eq_some hf', h2, h⟩

/-- a key outside the table is not found -/
theorem lut2?_none {t : List (ℚ × List (ℚ × ℚ))} {a b : ℚ}
    (h : ∀ r ∈ t, r.1 = a → ∀ e ∈ r.2, e.1 ≠ b) : lut2? t a b = none := by
  cases hl : lut2? t a b with
  | none => rfl
  | some v =>
    obtain ⟨r, hr, ha, e, he, hb, _⟩ := lut2?_some hl
    exact absurd hb (h r hr ha e he)

theorem macsPerCycle_pos : ∀ r ∈ macsPerCycle, ∀ e ∈ r.2, 0 < e.2 := by decide +kernel

theorem mpicLut_nonneg (a w : ℚ) : 0 ≤ mpicLut a w := by
  unfold mpicLut mpicLut?
  split_ifs with ha hw
  · simp
  · cases hl : lut2? macsPerCycle a w with
    | none => simp
    | some v =>
      obtain ⟨r, hr, _, e, he, _, rfl⟩ := lut2?_some hl
      have := macsPerCycle_pos r hr e he
      simp only [Option.map_some, Option.getD_some]
      positivity
  · simp

end mpic

theorem supported_ops (c l : String) (s : S) : Supported "ops" c l s := by
  simp [Supported]

theorem mpicEnergy_eq (x : ℚ) : mpicEnergy x = x * (2153 / 100000000000000) := by
  unfold mpicEnergy; ring

/-- the MPIC latency closed forms are `MACs × cycles/MAC`; laws from those of the MAC count -/
theorem mpic_laws (spec layer constr : String) (hs : spec = "mpic_latency" ∨ spec = "mpic_energy")
    (c : ℚ) (hc : 0 < c) (f : S → ℚ) [L : Laws "ops" layer constr f]
    (hbits : ∀ s s', BitsLe s s' → f s = f s') (g : S → ℚ)
    (hg : ∀ s, g s = f s * mpicLut s.in_precision s.w_precision * c) :
    Laws spec layer constr g ∧ BitLaws spec layer constr g := by
  have hsup : ∀ s, Supported spec constr layer s → mpicSupported s.in_precision s.w_precision := by
    intro s h
    rcases hs with rfl | rfl <;> simpa [Supported] using h
  refine ⟨⟨?_, ?_, ?_⟩, ⟨?_⟩⟩
  · intro s hv _
    have := L.nonneg s hv (supported_ops _ _ _)
    have := mpicLut_nonneg s.in_precision s.w_precision
    rw [hg]; positivity
  · intro s hn hwf hsp
    have := L.pos s hn hwf (supported_ops _ _ _)
    obtain ⟨ha, hw⟩ := hsup s hsp
    have hw' : s.w_precision ∈ [(2:ℚ), 4, 8] := by
      have := hn.w_precision
      rcases hw with h | h | h | h
      · rw [h] at this; exact absurd this (lt_irrefl _)
      · simp [h]
      · simp [h]
      · simp [h]
    have := mpicLut_pos_table s.in_precision (mpicSupported_mem ⟨ha, hw⟩).1 s.w_precision hw'
    rw [hg]; positivity
  · intro s s' hv h hgr _ _
    have h1 := L.mono s s' hv h hgr (supported_ops _ _ _) (supported_ops _ _ _)
    have := mpicLut_nonneg s.in_precision s.w_precision
    have := L.nonneg s hv (supported_ops _ _ _)
    rw [hg, hg, ← h.in_precision, ← h.w_precision]
    gcongr
  · intro s s' hv _ h hsp hsp'
    have h0 := L.nonneg s hv (supported_ops _ _ _)
    obtain ⟨m1, m2⟩ := mpicSupported_mem (hsup s hsp)
    obtain ⟨m1', m2'⟩ := mpicSupported_mem (hsup s' hsp')
    have := mpicLut_mono_table _ m1 _ m2 _ m1' _ m2' h.in_precision h.w_precision
    rw [hg, hg, ← hbits s s' h]
    gcongr

set_option hygiene false in
macro "bits_inv" "[" ds:Lean.Parser.Tactic.simpLemma,* "]" : tactic => `(tactic| (
  intro s s' h
  simp only [$ds,*, k, o, bias, ← h.kernel_size, ← h.output_shape, ← h.in_channels, ← h.out_channels,
    ← h.in_features, ← h.out_features, ← h.hasBias, ← h.groups]))

theorem opsConv1d_bits : ∀ s s', BitsLe s s' → opsConv1d s = opsConv1d s' := by
  bits_inv [opsConv1d, paramsConv1d]
theorem opsConv2d_bits : ∀ s s', BitsLe s s' → opsConv2d s = opsConv2d s' := by
  bits_inv [opsConv2d, paramsConv2d]
theorem opsConv1dDw_bits : ∀ s s', BitsLe s s' → opsConv1dDw s = opsConv1dDw s' := by
  bits_inv [opsConv1dDw, paramsConv1dDw]
theorem opsConv2dDw_bits : ∀ s s', BitsLe s s' → opsConv2dDw s = opsConv2dDw s' := by
  bits_inv [opsConv2dDw, paramsConv2dDw]
theorem opsLinear_bits : ∀ s s', BitsLe s s' → opsLinear s = opsLinear s' := by
  bits_inv [opsLinear, paramsLinear]

instance : Laws "mpic_latency" "Conv1d" "" mpicLatConv1d :=
  (mpic_laws "mpic_latency" "Conv1d" "" (Or.inl rfl) 1 one_pos opsConv1d opsConv1d_bits _
    (fun s => by unfold mpicLatConv1d; ring)).1
instance : BitLaws "mpic_latency" "Conv1d" "" mpicLatConv1d :=
  (mpic_laws "mpic_latency" "Conv1d" "" (Or.inl rfl) 1 one_pos opsConv1d opsConv1d_bits _
    (fun s => by unfold mpicLatConv1d; ring)).2
instance : Laws "mpic_energy" "Conv1d" "" mpicEnConv1d :=
  (mpic_laws "mpic_energy" "Conv1d" "" (Or.inr rfl) (2153 / 100000000000000) (by norm_num) opsConv1d opsConv1d_bits _
    (fun s => by unfold mpicEnConv1d mpicLatConv1d; rw [mpicEnergy_eq])).1
instance : BitLaws "mpic_energy" "Conv1d" "" mpicEnConv1d :=
  (mpic_laws "mpic_energy" "Conv1d" "" (Or.inr rfl) (2153 / 100000000000000) (by norm_num) opsConv1d opsConv1d_bits _
    (fun s => by unfold mpicEnConv1d mpicLatConv1d; rw [mpicEnergy_eq])).2
instance : Laws "mpic_latency" "Conv2d" "" mpicLatConv2d :=
  (mpic_laws "mpic_latency" "Conv2d" "" (Or.inl rfl) 1 one_pos opsConv2d opsConv2d_bits _
    (fun s => by unfold mpicLatConv2d; ring)).1
instance : BitLaws "mpic_latency" "Conv2d" "" mpicLatConv2d :=
  (mpic_laws "mpic_latency" "Conv2d" "" (Or.inl rfl) 1 one_pos opsConv2d opsConv2d_bits _
    (fun s => by unfold mpicLatConv2d; ring)).2
instance : Laws "mpic_energy" "Conv2d" "" mpicEnConv2d :=
  (mpic_laws "mpic_energy" "Conv2d" "" (Or.inr rfl) (2153 / 100000000000000) (by norm_num) opsConv2d opsConv2d_bits _
    (fun s => by unfold mpicEnConv2d mpicLatConv2d; rw [mpicEnergy_eq])).1
instance : BitLaws "mpic_energy" "Conv2d" "" mpicEnConv2d :=
  (mpic_laws "mpic_energy" "Conv2d" "" (Or.inr rfl) (2153 / 100000000000000) (by norm_num) opsConv2d opsConv2d_bits _
    (fun s => by unfold mpicEnConv2d mpicLatConv2d; rw [mpicEnergy_eq])).2
instance : Laws "mpic_latency" "Conv1d" "conv_dw_constraint" mpicLatConv1dDw :=
  (mpic_laws "mpic_latency" "Conv1d" "conv_dw_constraint" (Or.inl rfl) 1 one_pos opsConv1dDw opsConv1dDw_bits _
    (fun s => by unfold mpicLatConv1dDw; ring)).1
instance : BitLaws "mpic_latency" "Conv1d" "conv_dw_constraint" mpicLatConv1dDw :=
  (mpic_laws "mpic_latency" "Conv1d" "conv_dw_constraint" (Or.inl rfl) 1 one_pos opsConv1dDw opsConv1dDw_bits _
    (fun s => by unfold mpicLatConv1dDw; ring)).2
instance : Laws "mpic_energy" "Conv1d" "conv_dw_constraint" mpicEnConv1dDw :=
  (mpic_laws "mpic_energy" "Conv1d" "conv_dw_constraint" (Or.inr rfl) (2153 / 100000000000000) (by norm_num) opsConv1dDw opsConv1dDw_bits _
    (fun s => by unfold mpicEnConv1dDw mpicLatConv1dDw; rw [mpicEnergy_eq])).1
instance : BitLaws "mpic_energy" "Conv1d" "conv_dw_constraint" mpicEnConv1dDw :=
  (mpic_laws "mpic_energy" "Conv1d" "conv_dw_constraint" (Or.inr rfl) (2153 / 100000000000000) (by norm_num) opsConv1dDw opsConv1dDw_bits _
    (fun s => by unfold mpicEnConv1dDw mpicLatConv1dDw; rw [mpicEnergy_eq])).2
instance : Laws "mpic_latency" "Conv2d" "conv_dw_constraint" mpicLatConv2dDw :=
  (mpic_laws "mpic_latency" "Conv2d" "conv_dw_constraint" (Or.inl rfl) 1 one_pos opsConv2dDw opsConv2dDw_bits _
    (fun s => by unfold mpicLatConv2dDw; ring)).1
instance : BitLaws "mpic_latency" "Conv2d" "conv_dw_constraint" mpicLatConv2dDw :=
  (mpic_laws "mpic_latency" "Conv2d" "conv_dw_constraint" (Or.inl rfl) 1 one_pos opsConv2dDw opsConv2dDw_bits _
    (fun s => by unfold mpicLatConv2dDw; ring)).2
instance : Laws "mpic_energy" "Conv2d" "conv_dw_constraint" mpicEnConv2dDw :=
  (mpic_laws "mpic_energy" "Conv2d" "conv_dw_constraint" (Or.inr rfl) (2153 / 100000000000000) (by norm_num) opsConv2dDw opsConv2dDw_bits _
    (fun s => by unfold mpicEnConv2dDw mpicLatConv2dDw; rw [mpicEnergy_eq])).1
instance : BitLaws "mpic_energy" "Conv2d" "conv_dw_constraint" mpicEnConv2dDw :=
  (mpic_laws "mpic_energy" "Conv2d" "conv_dw_constraint" (Or.inr rfl) (2153 / 100000000000000) (by norm_num) opsConv2dDw opsConv2dDw_bits _
    (fun s => by unfold mpicEnConv2dDw mpicLatConv2dDw; rw [mpicEnergy_eq])).2
instance : Laws "mpic_latency" "Linear" "" mpicLatLinear :=
  (mpic_laws "mpic_latency" "Linear" "" (Or.inl rfl) 1 one_pos opsLinear opsLinear_bits _
    (fun s => by unfold mpicLatLinear; ring)).1
instance : BitLaws "mpic_latency" "Linear" "" mpicLatLinear :=
  (mpic_laws "mpic_latency" "Linear" "" (Or.inl rfl) 1 one_pos opsLinear opsLinear_bits _
    (fun s => by unfold mpicLatLinear; ring)).2
instance : Laws "mpic_energy" "Linear" "" mpicEnLinear :=
  (mpic_laws "mpic_energy" "Linear" "" (Or.inr rfl) (2153 / 100000000000000) (by norm_num) opsLinear opsLinear_bits _
    (fun s => by unfold mpicEnLinear mpicLatLinear; rw [mpicEnergy_eq])).1
instance : BitLaws "mpic_energy" "Linear" "" mpicEnLinear :=
  (mpic_laws "mpic_energy" "Linear" "" (Or.inr rfl) (2153 / 100000000000000) (by norm_num) opsLinear opsLinear_bits _
    (fun s => by unfold mpicEnLinear mpicLatLinear; rw [mpicEnergy_eq])).2

/-! ### DIANA -/
section diana
open Hand

theorem oxUnroll_eq (a b c d : ℚ) : oxUnroll a b c d =
    if oxFits a b c d 8 then 8 else if oxFits a b c d 4 then 4 else if oxFits a b c d 2 then 2 else 1 := by
  simp only [oxUnroll, oxCandidates, List.drop, List.foldl]

theorem oxUnroll_pos (a b c d : ℚ) : 0 < oxUnroll a b c d := by
  rw [oxUnroll_eq]; split_ifs <;> norm_num

theorem oxUnroll_mem (a b c d : ℚ) : oxUnroll a b c d ∈ [(1:ℚ), 2, 4, 8] := by
  rw [oxUnroll_eq]; split_ifs <;> simp

theorem oxFits_anti {a a' b b' c c' d d' ox : ℚ} (ha : 0 ≤ a) (haa : a ≤ a') (hbb : b ≤ b')
    (hc : 0 ≤ c) (hcc : c ≤ c') (hd : 0 ≤ d) (hdd : d ≤ d') (hox : 1 ≤ ox)
    (h : oxFits a' b' c' d' ox = true) : oxFits a b c d ox = true := by
  unfold oxFits at h ⊢
  simp only [Bool.and_eq_true, decide_eq_true_eq] at h ⊢
  obtain ⟨h1, h2⟩ := h
  have hcu : (if b ≤ 64 then (64:ℚ) else b) ≤ (if b' ≤ 64 then (64:ℚ) else b') := by
    split_ifs with x y y <;> linarith
  have hcu0 : (0:ℚ) ≤ (if b ≤ 64 then (64:ℚ) else b) := by split_ifs <;> linarith
  constructor
  · calc ox * a ≤ ox * a' := by gcongr
      _ ≤ 512 := h1
  · calc (ox + c - 1) * (if b ≤ 64 then (64:ℚ) else b) * d
        ≤ (ox + c' - 1) * (if b' ≤ 64 then (64:ℚ) else b') * d' := by
          have : 0 ≤ ox + c - 1 := by linarith
          have : 0 ≤ ox + c' - 1 := by linarith
          have hcu0' := le_trans hcu0 hcu
          gcongr
      _ ≤ 1152 := h2

/-- DIANA `ox_unroll` is antitone in both channel counts and in the kernel size -/
theorem oxUnroll_anti {a a' b b' c c' d d' : ℚ} (ha : 0 ≤ a) (haa : a ≤ a') (hbb : b ≤ b')
    (hc : 0 ≤ c) (hcc : c ≤ c') (hd : 0 ≤ d) (hdd : d ≤ d') :
    oxUnroll a' b' c' d' ≤ oxUnroll a b c d := by
  have i8 := oxFits_anti (ox := 8) ha haa hbb hc hcc hd hdd (by norm_num)
  have i4 := oxFits_anti (ox := 4) ha haa hbb hc hcc hd hdd (by norm_num)
  have i2 := oxFits_anti (ox := 2) ha haa hbb hc hcc hd hdd (by norm_num)
  rw [oxUnroll_eq, oxUnroll_eq]
  split_ifs <;> simp_all <;> norm_num

theorem dianaDigital_nonneg {s : S} (hv : Valid s) : 0 ≤ dianaDigital s := by
  intro_valid
  unfold dianaDigital
  have := ceilDiv_nonneg (a := s.out_channels / s.groups) (n := 16) (by norm_num) (by positivity)
  have := ceilDiv_nonneg (n := 16) (by norm_num) vo2
  have := gate_nonneg s.out_channels 1
  positivity

theorem dianaDigital_mono {s s' : S} (hv : Valid s) (h : SizeLe s s') (hg : s.groups = s'.groups) :
    dianaDigital s ≤ dianaDigital s' := by
  intro_size
  unfold dianaDigital
  have hq : s.out_channels / s.groups ≤ s'.out_channels / s'.groups := by rw [← hg]; gcongr
  have := ceilDiv_nonneg (a := s.out_channels / s.groups) (n := 16) (by norm_num) (by positivity)
  have := ceilDiv_nonneg (a := s'.out_channels / s'.groups) (n := 16) (by norm_num)
    (le_trans (by positivity) hq)
  have := ceilDiv_nonneg (n := 16) (by norm_num) vo2
  have := ceilDiv_nonneg (n := 16) (by norm_num) vo2'
  have := gate_nonneg s.out_channels 1
  have := gate_nonneg s'.out_channels 1
  gcongr

theorem dianaDigital_pos' {s : S} (pic : 0 < s.in_channels) (noc : 1 ≤ s.out_channels) (pg : 0 < s.groups)
    (pk0 : 0 < k s 0) (pk1 : 0 < k s 1) (po2 : 0 < o s 2) (po3 : 0 < o s 3) : 0 < dianaDigital s := by
  have poc : 0 < s.out_channels := by linarith
  unfold dianaDigital
  have := ceilDiv_nonneg (a := s.out_channels / s.groups) (n := 16) (by norm_num) (by positivity)
  have := ceilDiv_nonneg (n := 16) (by norm_num) po2.le
  rw [gate_of_le noc]
  positivity

theorem dianaAnalog_nonneg {s : S} (hv : Valid s) : 0 ≤ dianaAnalog s := by
  intro_valid
  unfold dianaAnalog
  have := ceilDiv_nonneg (n := 512) (by norm_num) voc
  have := ceilDiv_nonneg (n := 128) (by norm_num) vic
  have := gate_nonneg s.out_channels 1
  have := oxUnroll_pos s.out_channels s.in_channels (k s 0) (k s 1)
  positivity

theorem dianaAnalog_mono {s s' : S} (hv : Valid s) (h : SizeLe s s') :
    dianaAnalog s ≤ dianaAnalog s' := by
  intro_size
  unfold dianaAnalog
  have := ceilDiv_nonneg (n := 512) (by norm_num) voc
  have := ceilDiv_nonneg (n := 128) (by norm_num) vic
  have := ceilDiv_nonneg (n := 512) (by norm_num) voc'
  have := ceilDiv_nonneg (n := 128) (by norm_num) vic'
  have := gate_nonneg s.out_channels 1
  have := gate_nonneg s'.out_channels 1
  have := oxUnroll_pos s.out_channels s.in_channels (k s 0) (k s 1)
  have := oxUnroll_pos s'.out_channels s'.in_channels (k s' 0) (k s' 1)
  have := oxUnroll_anti voc hoc hic vk0 hk0 vk1 hk1
  gcongr

theorem dianaDigital_pos {s : S} (hn : NonEmpty s) (hwf : WF "Conv2d" s) : 0 < dianaDigital s := by
  intro_nonempty2
  exact dianaDigital_pos' pic noc pg pk0 pk1 po2 po3

theorem dianaAnalog_pos' {s : S} (pic : 0 < s.in_channels) (noc : 1 ≤ s.out_channels)
    (pk0 : 0 < k s 0) (pk1 : 0 < k s 1) (po2 : 0 < o s 2) (po3 : 0 < o s 3) : 0 < dianaAnalog s := by
  have poc : 0 < s.out_channels := by linarith
  unfold dianaAnalog
  have := ceilDiv_nonneg (n := 512) (by norm_num) poc.le
  have := ceilDiv_nonneg (n := 128) (by norm_num) pic.le
  have := oxUnroll_pos s.out_channels s.in_channels (k s 0) (k s 1)
  rw [gate_of_le noc]
  positivity

theorem dianaAnalog_pos {s : S} (hn : NonEmpty s) (hwf : WF "Conv2d" s) : 0 < dianaAnalog s := by
  intro_nonempty2
  exact dianaAnalog_pos' pic noc pk0 pk1 po2 po3

theorem dianaAPrec_eq {s s' : S} (h : SizeLe s s') : dianaAPrec s = dianaAPrec s' := by
  unfold dianaAPrec; rw [h.has_a_precision, h.a_precision, h.in_precision]

instance : Laws "diana_latency" "Conv2d" "" dianaConv2d := by
  refine ⟨?_, ?_, ?_⟩
  · intro s hv _
    unfold dianaConv2d
    split_ifs
    · exact dianaAnalog_nonneg hv
    · exact dianaDigital_nonneg hv
    · exact le_rfl
  · intro s hn hwf hsp
    simp only [Supported, String.reduceEq, false_or, if_false, if_true, or_false] at hsp
    unfold dianaConv2d
    obtain ⟨ha, h | h⟩ := hsp
    · rw [if_pos ⟨h.1, ha⟩]; exact dianaAnalog_pos hn hwf
    · have : ¬ (s.w_precision = 2 ∧ dianaAPrec s = 8) := by rw [h.1]; norm_num
      rw [if_neg this, if_pos ⟨h.1, ha⟩]; exact dianaDigital_pos hn hwf
  · intro s s' hv h hg _ _
    unfold dianaConv2d
    rw [← dianaAPrec_eq h, ← h.w_precision]
    split_ifs
    · exact dianaAnalog_mono hv h
    · exact dianaDigital_mono hv h (hg rfl)
    · exact le_rfl

/-! the linear layer as a 1×1 convolution -/

theorem k_lin (s : S) (i : ℕ) : k (dianaLinearSpec s) i = ([1, 1] : List ℚ).getD i 0 := rfl
theorem o_lin (s : S) (i : ℕ) : o (dianaLinearSpec s) i = (s.output_shape ++ [1, 1]).getD i 0 := rfl

theorem getD_11_nonneg (i : ℕ) : (0:ℚ) ≤ ([1, 1] : List ℚ).getD i 0 := by
  match i with
  | 0 => norm_num
  | 1 => norm_num
  | (n+2) => simp

theorem o_lin_cases (s : S) (i : ℕ) :
    (i < s.output_shape.length ∧ o (dianaLinearSpec s) i = o s i) ∨
    (s.output_shape.length ≤ i ∧ o (dianaLinearSpec s) i = ([1, 1] : List ℚ).getD (i - s.output_shape.length) 0) := by
  rw [o_lin]
  by_cases h : i < s.output_shape.length
  · left; exact ⟨h, List.getD_append _ _ _ _ h⟩
  · right; exact ⟨not_lt.mp h, List.getD_append_right _ _ _ _ (not_lt.mp h)⟩

theorem valid_lin {s : S} (hv : Valid s) : Valid (dianaLinearSpec s) := by
  refine ⟨hv.in_features, hv.out_features, le_rfl, le_rfl, by show (0:ℚ) ≤ 1; norm_num, hv.w_precision, Or.inl rfl, ?_,
    le_rfl, ?_, ?_⟩
  · show 0 ≤ dianaAPrec s
    unfold dianaAPrec; split_ifs
    · exact hv.a_precision
    · rcases hv.in_precision with h0 | h0 <;> linarith
  · intro i; rw [k_lin]; exact getD_11_nonneg i
  · intro i
    rcases o_lin_cases s i with ⟨_, h⟩ | ⟨_, h⟩ <;> rw [h]
    · exact hv.output_shape i
    · exact getD_11_nonneg _

theorem sizeLe_lin {s s' : S} (h : SizeLe s s') : SizeLe (dianaLinearSpec s) (dianaLinearSpec s') := by
  refine ⟨h.in_features, h.out_features, le_rfl, le_rfl, rfl, fun i => le_rfl, ?_, ?_, h.w_precision, rfl,
    dianaAPrec_eq h, rfl, rfl, rfl⟩
  · show (s.output_shape ++ [1, 1]).length = (s'.output_shape ++ [1, 1]).length
    simp [h.output_len]
  · intro i
    rcases o_lin_cases s i with ⟨h1, e1⟩ | ⟨h1, e1⟩ <;> rcases o_lin_cases s' i with ⟨h2, e2⟩ | ⟨h2, e2⟩
    · rw [e1, e2]; exact h.output_shape i
    · rw [h.output_len] at h1; omega
    · rw [h.output_len] at h1; omega
    · rw [e1, e2, h.output_len]

theorem supported_lin {s : S} (h : Supported "diana_latency" "" "Linear" s) :
    Supported "diana_latency" "" "Conv2d" (dianaLinearSpec s) := by
  simp only [Supported, String.reduceEq, false_or, if_false, if_true, true_or, and_true] at h ⊢
  obtain ⟨ha, hw⟩ := h
  have e : dianaAPrec (dianaLinearSpec s) = dianaAPrec s := rfl
  have g : (dianaLinearSpec s).groups = 1 := rfl
  have w : (dianaLinearSpec s).w_precision = s.w_precision := rfl
  rw [e, g, w]
  refine ⟨ha, ?_⟩
  rcases hw with h | h
  · left; exact ⟨h, rfl⟩
  · right; exact ⟨h, one_ne_zero⟩

instance : Laws "diana_latency" "Linear" "" dianaLinear := by
  refine ⟨?_, ?_, ?_⟩
  · intro s hv hs
    exact Laws.nonneg (spec := "diana_latency") (layer := "Conv2d") (constr := "") (f := dianaConv2d)
      (dianaLinearSpec s) (valid_lin hv) (supported_lin hs)
  · intro s hn hwf hsp
    have hwf' : s.output_shape.length = 2 := by simpa [WF] using hwf
    have hsp' := hsp
    simp only [Supported, String.reduceEq, false_or, if_false, if_true, true_or, and_true] at hsp
    have o2 : o (dianaLinearSpec s) 2 = 1 := by
      rcases o_lin_cases s 2 with ⟨h1, _⟩ | ⟨_, e⟩
      · omega
      · rw [e, hwf']; rfl
    have o3 : o (dianaLinearSpec s) 3 = 1 := by
      rcases o_lin_cases s 3 with ⟨h1, _⟩ | ⟨_, e⟩
      · omega
      · rw [e, hwf']; rfl
    have pic : 0 < (dianaLinearSpec s).in_channels := lt_of_lt_of_le one_pos hn.in_features
    have noc : 1 ≤ (dianaLinearSpec s).out_channels := hn.out_features
    have pk0 : 0 < k (dianaLinearSpec s) 0 := by rw [k_lin]; norm_num
    have pk1 : 0 < k (dianaLinearSpec s) 1 := by rw [k_lin]; norm_num
    have pg : 0 < (dianaLinearSpec s).groups := by show (0:ℚ) < 1; norm_num
    have e : dianaAPrec (dianaLinearSpec s) = dianaAPrec s := rfl
    have w : (dianaLinearSpec s).w_precision = s.w_precision := rfl
    unfold dianaLinear dianaConv2d
    rw [e, w]
    obtain ⟨ha, h | h⟩ := hsp
    · rw [if_pos ⟨h, ha⟩]; exact dianaAnalog_pos' pic noc pk0 pk1 (by rw [o2]; norm_num) (by rw [o3]; norm_num)
    · have : ¬ (s.w_precision = 2 ∧ dianaAPrec s = 8) := by rw [h]; norm_num
      rw [if_neg this, if_pos ⟨h, ha⟩]
      exact dianaDigital_pos' pic noc pg pk0 pk1 (by rw [o2]; norm_num) (by rw [o3]; norm_num)
  · intro s s' hv h _ hs hs'
    exact Laws.mono (spec := "diana_latency") (layer := "Conv2d") (constr := "") (f := dianaConv2d)
      (dianaLinearSpec s) (dianaLinearSpec s') (valid_lin hv) (sizeLe_lin h)
      (fun _ => rfl) (supported_lin hs) (supported_lin hs')

end diana

end PlinioVerif.Spec
