import PlinioVerif.Model.Sampling
import Mathlib.Algebra.Order.Field.Basic
import Mathlib.Tactic.Linarith
import Mathlib.Tactic.Positivity
/-!
Helper lemmas for C10: arg-max of a list, one-hot vectors, softmax with an arbitrary positive
strictly monotone `g`, the per-column shape of `sampleCols`, and the invariants of the
sampler-choice state machine.
-/
set_option linter.unusedSectionVars false
namespace PlinioVerif.Sampling

/-! ### specification predicates -/

/-- non-negative entries that sum to one -/
def IsProb {F : Type} [Field F] [LinearOrder F] (l : List F) : Prop :=
  (∀ x ∈ l, 0 ≤ x) ∧ l.sum = 1

/-- exactly the one-hot vector with the `1` at position `k` -/
def IsOneHotAt {F : Type} [Zero F] [One F] (l : List F) (k : Nat) : Prop :=
  k < l.length ∧ l = onehot l.length k

/-! ### arg-max -/
section Argmax
variable {F : Type} [LinearOrder F]

theorem argmax_cons (x : F) (xs : List F) :
    argmax (x :: xs) =
      match xs[argmax xs]? with
      | some m => if x < m then argmax xs + 1 else 0
      | none => 0 := rfl

theorem argmax_lt_length : ∀ (l : List F), l ≠ [] → argmax l < l.length
  | [x], _ => by simp [argmax]
  | x :: y :: ys, _ => by
    have ih := argmax_lt_length (y :: ys) (by simp)
    rw [argmax_cons]
    split
    · split
      · exact Nat.succ_lt_succ ih
      · simp
    · simp

/-- the entry at the arg-max is a largest entry -/
theorem argmax_max : ∀ (l : List F) (x : F), x ∈ l → ∃ m, l[argmax l]? = some m ∧ x ≤ m
  | x0 :: xs, x, hx => by
    rw [argmax_cons]
    cases h : xs[argmax xs]? with
    | none =>
      have hxs : xs = [] := by
        by_contra hne
        have := argmax_lt_length xs hne
        rw [List.getElem?_eq_none_iff] at h
        omega
      subst hxs
      simp at hx
      subst hx
      exact ⟨x, by simp, le_refl _⟩
    | some m =>
      simp only
      by_cases hlt : x0 < m
      · simp only [hlt, if_true, List.getElem?_cons_succ, h]
        refine ⟨m, rfl, ?_⟩
        rcases List.mem_cons.mp hx with rfl | hx'
        · exact le_of_lt hlt
        · obtain ⟨m', hm', hle⟩ := argmax_max xs x hx'
          rw [h] at hm'
          cases hm'
          exact hle
      · simp only [hlt, if_false, List.getElem?_cons_zero]
        refine ⟨x0, rfl, ?_⟩
        rcases List.mem_cons.mp hx with rfl | hx'
        · exact le_refl _
        · obtain ⟨m', hm', hle⟩ := argmax_max xs x hx'
          rw [h] at hm'
          cases hm'
          exact le_trans hle (not_lt.mp hlt)

/-- every entry before the arg-max is strictly smaller (first maximal entry) -/
theorem argmax_first : ∀ (l : List F) (i : Nat) (x m : F), i < argmax l → l[i]? = some x →
    l[argmax l]? = some m → x < m
  | x0 :: xs, i, x, m, hi, hx, hm => by
    rw [argmax_cons] at hi hm
    cases h : xs[argmax xs]? with
    | none => simp [h] at hi
    | some m' =>
      simp only [h] at hi hm
      by_cases hlt : x0 < m'
      · simp only [hlt, if_true, List.getElem?_cons_succ] at hi hm
        rw [h] at hm
        cases hm
        cases i with
        | zero => simp at hx; subst hx; exact hlt
        | succ j =>
          simp only [List.getElem?_cons_succ] at hx
          exact argmax_first xs j x m (Nat.lt_of_succ_lt_succ hi) hx h
      · simp [hlt] at hi

/-- a strictly monotone map does not move the arg-max -/
theorem argmax_map {F' : Type} [LinearOrder F'] (f : F → F') (hf : StrictMono f) :
    ∀ l : List F, argmax (l.map f) = argmax l
  | [] => rfl
  | x :: xs => by
    simp only [List.map_cons, argmax_cons]
    rw [argmax_map f hf xs, List.getElem?_map]
    cases h : xs[argmax xs]? with
    | none => simp
    | some m => simp [hf.lt_iff_lt]

end Argmax

/-! ### one-hot -/
section OneHot
variable {F : Type}

@[simp] theorem onehot_length [Zero F] [One F] (n k : Nat) : (onehot n k : List F).length = n := by
  simp [onehot]

theorem onehot_getElem? [Zero F] [One F] (n k i : Nat) :
    (onehot n k : List F)[i]? = if i < n then some (if i = k then 1 else 0) else none := by
  unfold onehot
  rw [List.getElem?_map]
  by_cases h : i < n
  · simp [h]
  · simp [h]

variable [Field F] [LinearOrder F] [IsStrictOrderedRing F]

theorem onehot_nonneg (n k : Nat) : ∀ x ∈ (onehot n k : List F), 0 ≤ x := by
  intro x hx
  simp only [onehot, List.mem_map, List.mem_range] at hx
  obtain ⟨i, _, rfl⟩ := hx
  split <;> simp

theorem sum_range'_ite (k : Nat) : ∀ (len off : Nat),
    ((List.range' off len).map fun i => if i = k then (1 : F) else 0).sum
      = if off ≤ k ∧ k < off + len then 1 else 0
  | 0, off => by simp
  | len + 1, off => by
    simp only [List.range'_succ, List.map_cons, List.sum_cons]
    rw [sum_range'_ite k len (off + 1)]
    by_cases h : off = k
    · subst h; simp
    · by_cases h2 : off + 1 ≤ k ∧ k < off + 1 + len
      · have h3 : off ≤ k ∧ k < off + (len + 1) := by omega
        simp [h, h2, h3]
      · have h3 : ¬ (off ≤ k ∧ k < off + (len + 1)) := by omega
        simp [h, h2, h3]

theorem onehot_sum (n k : Nat) (hk : k < n) : (onehot n k : List F).sum = 1 := by
  unfold onehot
  rw [List.range_eq_range', sum_range'_ite k n 0]
  simp [hk]

theorem onehot_isProb (n k : Nat) (hk : k < n) : IsProb (onehot n k : List F) :=
  ⟨onehot_nonneg n k, onehot_sum n k hk⟩

theorem onehot_isOneHotAt (n k : Nat) (hk : k < n) : IsOneHotAt (onehot n k : List F) k := by
  constructor <;> simp [hk]

theorem argmax_onehot (n k : Nat) (hk : k < n) : argmax (onehot n k : List F) = k := by
  have hne : (onehot n k : List F) ≠ [] := by
    intro h
    have := congrArg List.length h
    simp at this
    omega
  have hmem : (1 : F) ∈ (onehot n k : List F) := by
    apply List.mem_of_getElem? (i := k)
    rw [onehot_getElem?]
    simp [hk]
  obtain ⟨m, hm, hle⟩ := argmax_max _ 1 hmem
  rw [onehot_getElem?] at hm
  by_contra hne'
  split at hm
  · simp only [hne', Option.some.injEq] at hm
    subst hm
    exact absurd hle (not_le.mpr one_pos)
  · cases hm

end OneHot

/-! ### softmax -/
section Softmax
variable {F : Type} [Field F] [LinearOrder F] [IsStrictOrderedRing F]

theorem sum_map_div (c : F) : ∀ l : List F, (l.map fun x => x / c).sum = l.sum / c
  | [] => by simp
  | x :: xs => by simp [sum_map_div c xs, add_div]

theorem sum_pos_of_pos : ∀ l : List F, l ≠ [] → (∀ x ∈ l, 0 < x) → 0 < l.sum
  | [x], _, h => by simpa using h x (by simp)
  | x :: y :: ys, _, h => by
    have h1 : 0 < x := h x (by simp)
    have h2 : 0 < (y :: ys).sum :=
      sum_pos_of_pos (y :: ys) (by simp) (fun z hz => h z (List.mem_cons_of_mem _ hz))
    rw [List.sum_cons]
    exact add_pos h1 h2

/-- normalising constant of `softmax g T α` -/
def Z (g : F → F) (T : F) (α : List F) : F := (α.map fun a => g (a / T)).sum

theorem softmax_eq_map (g : F → F) (T : F) (α : List F) :
    softmax g T α = α.map fun a => g (a / T) / Z g T α := by
  simp [softmax, Z, List.map_map, Function.comp_def]

theorem Z_pos (g : F → F) (hg : ∀ x, 0 < g x) (T : F) (α : List F) (hα : α ≠ []) :
    0 < Z g T α := by
  apply sum_pos_of_pos
  · simpa using hα
  · intro x hx
    simp only [List.mem_map] at hx
    obtain ⟨a, _, rfl⟩ := hx
    exact hg _

theorem softmax_length (g : F → F) (T : F) (α : List F) : (softmax g T α).length = α.length := by
  simp [softmax]

theorem softmax_entry_strictMono (g : F → F) (hg : ∀ x, 0 < g x) (hm : StrictMono g) (T : F)
    (hT : 0 < T) (α : List F) (hα : α ≠ []) : StrictMono fun a => g (a / T) / Z g T α := by
  intro a b hab
  have hZ := Z_pos g hg T α hα
  have : a / T < b / T := div_lt_div_of_pos_right hab hT
  exact div_lt_div_of_pos_right (hm this) hZ

theorem addNoise_length (α noise : List F) : (addNoise α noise).length = α.length := by
  simp [addNoise]

theorem addNoise_ne_nil (α noise : List F) (h : α ≠ []) : addNoise α noise ≠ [] := by
  intro hn
  have := addNoise_length α noise
  rw [hn] at this
  simp at this
  exact h (List.length_eq_zero_iff.mp this.symm)

theorem argmax_softmax (g : F → F) (hg : ∀ x, 0 < g x) (hm : StrictMono g) (T : F) (hT : 0 < T)
    (α : List F) : argmax (softmax g T α) = argmax α := by
  by_cases hα : α = []
  · subst hα; rfl
  · rw [softmax_eq_map]
    exact argmax_map _ (softmax_entry_strictMono g hg hm T hT α hα) α

/-- without noise the arg-max of what is sampled is the arg-max of the raw coefficients -/
theorem argmax_sampleCol_noiseless (g : F → F) (hg : ∀ x, 0 < g x) (hm : StrictMono g) (T : F)
    (hT : 0 < T) (k : Kind) (hk : k = .soft ∨ k = .hardArgmax) (α noise prev : List F)
    (hα : α ≠ []) : argmax (sampleCol g k T α noise prev) = argmax α := by
  rcases hk with rfl | rfl
  · exact argmax_softmax g hg hm T hT α
  · simp only [sampleCol, argmax_softmax g hg hm T hT]
    exact argmax_onehot _ _ (argmax_lt_length α hα)

end Softmax

/-! ### columns -/
section Cols
variable {F : Type} [Add F] [Div F] [Zero F] [One F] [LT F] [DecidableLT F]

theorem sampleCols_getElem? (g : F → F) (k : Kind) (hk : k ≠ .keep) (T : F)
    (α noise prev : List (List F)) (j : Nat) :
    (sampleCols g k T α noise prev)[j]? =
      α[j]?.map fun a => sampleCol g k T a (noise.getD j []) (prev.getD j []) := by
  cases k <;> simp_all [sampleCols, List.getElem?_mapIdx]

theorem sampleCols_keep (g : F → F) (T : F) (α noise prev : List (List F)) :
    sampleCols g .keep T α noise prev = prev := rfl

theorem sampleCols_length (g : F → F) (k : Kind) (hk : k ≠ .keep) (T : F)
    (α noise prev : List (List F)) : (sampleCols g k T α noise prev).length = α.length := by
  cases k <;> simp_all [sampleCols]

end Cols

/-! ### state machine -/
section Machine
variable {F : Type} [Add F] [Div F] [Zero F] [One F] [LT F] [DecidableLT F]

/-- the stored bound method agrees with the stored flags -/
def SamplerOK (s : State F) : Prop :=
  s.sampler = match s.cls with | .snComb => snChoose s.o | _ => mpsChoose s.o

theorem step_samplerOK (g : F → F) (s : State F) (op : Op F) (h : SamplerOK s) :
    SamplerOK (step g s op) := by
  unfold SamplerOK at *
  cases op with
  | update t hh gg d =>
    cases hc : s.cls <;> simp_all [step, snChoose]
  | train => cases hc : s.cls <;> simp_all [step, snChoose, mpsChoose]
  | eval => cases hc : s.cls <;> simp_all [step, snChoose, mpsChoose]
  | forward n => cases hc : s.cls <;> simp_all [step]
  | setAlpha a =>
    simp only [step]
    split <;> simpa using h

theorem run_samplerOK (g : F → F) (ops : List (Op F)) : ∀ (s : State F), SamplerOK s →
    SamplerOK (run g s ops) := by
  induction ops with
  | nil => intro s h; exact h
  | cons op ops ih => intro s h; exact ih _ (step_samplerOK g s op h)

theorem step_cls (g : F → F) (s : State F) (op : Op F) : (step g s op).cls = s.cls := by
  cases op with
  | update t hh gg d => cases hc : s.cls <;> simp [step, hc]
  | setAlpha a => simp only [step]; split <;> rfl
  | _ => rfl

theorem run_cls (g : F → F) (ops : List (Op F)) : ∀ (s : State F), (run g s ops).cls = s.cls := by
  induction ops with
  | nil => intro s; rfl
  | cons op ops ih => intro s; exact (ih _).trans (step_cls g s op)

theorem run_append (g : F → F) (s : State F) (ops ops' : List (Op F)) :
    run g s (ops ++ ops') = run g (run g s ops) ops' := by
  simp [run, List.foldl_append]

theorem initMps_samplerOK (g : F → F) (cls : Cls) (hc : cls ≠ .snComb) (o : Opts F)
    (a n : List (List F)) : SamplerOK (initMps g cls o a n) := by
  unfold initMps
  apply step_samplerOK
  cases cls <;> simp_all [SamplerOK]

theorem initSn_samplerOK (a : List (List F)) (gu h : Bool) : SamplerOK (initSn a gu h) := by
  simp [SamplerOK, initSn]

/-- the options evolve on their own: projection of `step` to the option record -/
def stepOpts (cls : Cls) (o : Opts F) : Op F → Opts F
  | .update t h g d =>
    match cls with
    | .snComb => { o with temperature := t.getD o.temperature, hard := h.getD o.hard }
    | _ => updOpts o t h g d
  | .train => { o with training := true }
  | .eval => { o with training := false }
  | _ => o

theorem step_o (g : F → F) (s : State F) (op : Op F) : (step g s op).o = stepOpts s.cls s.o op := by
  cases op with
  | update t hh gg d => cases hc : s.cls <;> simp [step, stepOpts, hc]
  | setAlpha a => simp only [step, stepOpts]; split <;> rfl
  | _ => rfl

theorem run_o (g : F → F) (ops : List (Op F)) : ∀ (s : State F),
    (run g s ops).o = ops.foldl (stepOpts s.cls) s.o := by
  induction ops with
  | nil => intro s; rfl
  | cons op ops ih =>
    intro s
    show (run g (step g s op) ops).o = _
    rw [ih, step_cls, step_o]
    rfl

/-- an op that does not switch sampling back on -/
def NoReenable : Op F → Prop
  | .update _ _ _ (some false) => False
  | _ => True

theorem step_disabled (g : F → F) (s : State F) (op : Op F) (hc : s.cls ≠ .snComb)
    (hok : SamplerOK s) (hd : s.o.disable = true) (hop : NoReenable op) :
    (step g s op).theta = s.theta ∧ (step g s op).src = s.src ∧
      (step g s op).o.disable = true := by
  have hs : s.sampler = .none := by
    unfold SamplerOK at hok
    cases hcls : s.cls <;> simp_all [mpsChoose]
  cases op with
  | update t hh gg d =>
    cases d with
    | none => cases hcls : s.cls <;> simp_all [step, updOpts]
    | some b =>
      cases b with
      | false => exact absurd hop (by simp [NoReenable])
      | true => cases hcls : s.cls <;> simp_all [step, updOpts]
  | train => simp [step, hd]
  | eval => simp [step, hd]
  | forward n => simp [step, hs, kindOf, sampleCols, hd]
  | setAlpha a =>
    simp only [step]
    split
    · rename_i h; exact absurd h.1 hc
    · simp [hd]

theorem run_disabled (g : F → F) (ops : List (Op F)) : ∀ (s : State F), s.cls ≠ .snComb →
    SamplerOK s → s.o.disable = true → (∀ op ∈ ops, NoReenable op) →
    (run g s ops).theta = s.theta ∧ (run g s ops).src = s.src ∧
      (run g s ops).o.disable = true := by
  induction ops with
  | nil => intro s _ _ hd _; exact ⟨rfl, rfl, hd⟩
  | cons op ops ih =>
    intro s hc hok hd hops
    obtain ⟨h1, h2, h3⟩ := step_disabled g s op hc hok hd (hops op (by simp))
    obtain ⟨i1, i2, i3⟩ := ih (step g s op) (by rw [step_cls]; exact hc)
      (step_samplerOK g s op hok) h3 (fun o ho => hops o (List.mem_cons_of_mem _ ho))
    exact ⟨i1.trans h1, i2.trans h2, i3⟩

/-- ops other than `setAlpha` leave the raw coefficients alone -/
theorem step_alpha (g : F → F) (s : State F) (op : Op F) (h : ∀ a, op ≠ .setAlpha a) :
    (step g s op).alpha = s.alpha := by
  cases op with
  | update t hh gg d => cases hc : s.cls <;> simp [step, hc]
  | setAlpha a => exact absurd rfl (h a)
  | _ => rfl

theorem run_alpha (g : F → F) (ops : List (Op F)) : ∀ (s : State F),
    (∀ op ∈ ops, ∀ a, op ≠ .setAlpha a) → (run g s ops).alpha = s.alpha := by
  induction ops with
  | nil => intro s _; rfl
  | cons op ops ih =>
    intro s h
    show (run g (step g s op) ops).alpha = _
    rw [ih _ (fun o ho => h o (List.mem_cons_of_mem _ ho)), step_alpha g s op (h op (by simp))]

end Machine

/-! ### per-channel export groups -/

theorem selectedPrecision_length {F : Type} [LT F] [DecidableLT F] (precs : List Int)
    (α : List (List F)) : (selectedPrecision precs α).length = α.length := by
  simp [selectedPrecision, selectedIdx]

theorem selectedPrecision_congr {F : Type} [LT F] [DecidableLT F] (precs : List Int)
    (α β : List (List F)) (h : α = β) : selectedPrecision precs α = selectedPrecision precs β := by
  simp [h]


theorem mem_firstSeen (p : Int) : ∀ l : List Int, p ∈ firstSeen l ↔ p ∈ l
  | [] => by simp [firstSeen]
  | q :: qs => by
    simp only [firstSeen, List.mem_cons, List.mem_filter, mem_firstSeen p qs]
    by_cases h : p = q
    · simp [h]
    · simp [h]

theorem firstSeen_nodup : ∀ l : List Int, (firstSeen l).Nodup
  | [] => by simp [firstSeen]
  | q :: qs => by
    simp only [firstSeen, List.nodup_cons, List.mem_filter]
    refine ⟨by simp, (firstSeen_nodup qs).filter _⟩

/-! ### the driver's stand-in for `exp` -/

theorem gq_pos (x : ℚ) : 0 < gq x := by
  unfold gq
  split
  · linarith
  · rename_i h
    have : 0 < 1 - x := by linarith [not_le.mp h]
    positivity

theorem gq_strictMono : StrictMono gq := by
  intro a b hab
  unfold gq
  by_cases ha : 0 ≤ a
  · have hb : 0 ≤ b := le_trans ha (le_of_lt hab)
    simp only [ha, hb, if_true]
    linarith
  · have ha' : a < 0 := not_le.mp ha
    have h1 : 0 < 1 - a := by linarith
    by_cases hb : 0 ≤ b
    · simp only [ha, hb, if_true, if_false]
      have : 1 / (1 - a) < 1 := by
        rw [div_lt_one h1]; linarith
      linarith
    · have hb' : b < 0 := not_le.mp hb
      have h2 : 0 < 1 - b := by linarith
      simp only [ha, hb, if_false]
      exact one_div_lt_one_div_of_lt h2 (by linarith)

end PlinioVerif.Sampling
