import PlinioVerif.Model.Quant
import Mathlib.Algebra.Order.Floor.Ring
import Mathlib.Algebra.Order.Field.Basic
import Mathlib.Data.Rat.Floor
import Mathlib.Tactic.Ring
import Mathlib.Tactic.Linarith
import Mathlib.Tactic.Positivity
/-!
# Helper lemmas for the quantizer models (C13, reused by C14)

Bridges from the core-Lean definitions of `Model/Quant.lean` (`qabs`, `qmax`, `pow2`, `Rat.floor`)
to Mathlib's `|·|`, `max`, `2^n`, `⌊·⌋`, and the arithmetic facts about round-half-even, the
per-channel maximum and the PACT scale factor on which `Props/C13.lean` rests.
-/
namespace PlinioVerif.Quant

/-! ## bridges -/

theorem qabs_eq (x : ℚ) : qabs x = |x| := by
  unfold qabs
  split_ifs with h
  · exact (abs_of_neg h).symm
  · exact (abs_of_nonneg (not_lt.mp h)).symm

theorem qmax_eq (a b : ℚ) : qmax a b = max a b := by
  unfold qmax
  split_ifs with h
  · exact (max_eq_right h).symm
  · exact (max_eq_left (le_of_lt (not_le.mp h))).symm

theorem qmin_eq (a b : ℚ) : qmin a b = min a b := by
  unfold qmin
  split_ifs with h
  · exact (min_eq_left h).symm
  · exact (min_eq_right (le_of_lt (not_le.mp h))).symm

theorem pow2_eq (n : ℕ) : pow2 n = (2 : ℚ) ^ n := by
  unfold pow2; push_cast; rfl

theorem floor_eq (x : ℚ) : x.floor = ⌊x⌋ := rfl

theorem one_le_pow2 (n : ℕ) : (1 : ℚ) ≤ (2 : ℚ) ^ n := one_le_pow₀ (by norm_num)

theorem nSteps_eq (p : ℕ) : nSteps p = (2 : ℚ) ^ p - 1 := by unfold nSteps; rw [pow2_eq]

theorem nSteps_nonneg (p : ℕ) : 0 ≤ nSteps p := by
  rw [nSteps_eq]; linarith [one_le_pow2 p]

theorem nSteps_pos {p : ℕ} (hp : 1 ≤ p) : 0 < nSteps p := by
  rw [nSteps_eq]
  have : (2 : ℚ) ^ 1 ≤ (2 : ℚ) ^ p := pow_le_pow_right₀ (by norm_num) hp
  linarith

/-- `2^p - 1 = 2 * 2^(p-1) - 1` for `p ≥ 1` -/
theorem nSteps_succ {p : ℕ} (hp : 1 ≤ p) : nSteps p = 2 * (2 : ℚ) ^ (p - 1) - 1 := by
  rw [nSteps_eq]
  obtain ⟨k, rfl⟩ : ∃ k, p = k + 1 := ⟨p - 1, by omega⟩
  simp [pow_succ]; ring

/-! ## round half to even -/

theorem rne_of_lt {x : ℚ} (h : x - (⌊x⌋ : ℚ) < 1 / 2) : rne x = ⌊x⌋ := by
  unfold rne; exact if_pos h

theorem rne_of_gt {x : ℚ} (h : 1 / 2 < x - (⌊x⌋ : ℚ)) : rne x = ⌊x⌋ + 1 := by
  unfold rne
  have h' : ¬ x - (⌊x⌋ : ℚ) < 1 / 2 := not_lt.mpr h.le
  exact (if_neg h').trans (if_pos h)

theorem rne_of_eq_even {x : ℚ} (h : x - (⌊x⌋ : ℚ) = 1 / 2) (he : ⌊x⌋ % 2 = 0) : rne x = ⌊x⌋ := by
  unfold rne
  have h1 : ¬ x - (⌊x⌋ : ℚ) < 1 / 2 := by rw [h]; exact lt_irrefl _
  have h2 : ¬ 1 / 2 < x - (⌊x⌋ : ℚ) := by rw [h]; exact lt_irrefl _
  exact (if_neg h1).trans ((if_neg h2).trans (if_pos he))

theorem rne_of_eq_odd {x : ℚ} (h : x - (⌊x⌋ : ℚ) = 1 / 2) (he : ¬ ⌊x⌋ % 2 = 0) :
    rne x = ⌊x⌋ + 1 := by
  unfold rne
  have h1 : ¬ x - (⌊x⌋ : ℚ) < 1 / 2 := by rw [h]; exact lt_irrefl _
  have h2 : ¬ 1 / 2 < x - (⌊x⌋ : ℚ) := by rw [h]; exact lt_irrefl _
  exact (if_neg h1).trans ((if_neg h2).trans (if_neg he))

/-- the four cases of round-half-even -/
theorem rne_cases (x : ℚ) :
    (x - (⌊x⌋ : ℚ) < 1 / 2 ∧ rne x = ⌊x⌋) ∨ (1 / 2 < x - (⌊x⌋ : ℚ) ∧ rne x = ⌊x⌋ + 1) ∨
    (x - (⌊x⌋ : ℚ) = 1 / 2 ∧ ⌊x⌋ % 2 = 0 ∧ rne x = ⌊x⌋) ∨
    (x - (⌊x⌋ : ℚ) = 1 / 2 ∧ ¬ ⌊x⌋ % 2 = 0 ∧ rne x = ⌊x⌋ + 1) := by
  rcases lt_trichotomy (x - (⌊x⌋ : ℚ)) (1 / 2) with h | h | h
  · exact Or.inl ⟨h, rne_of_lt h⟩
  · by_cases he : ⌊x⌋ % 2 = 0
    · exact Or.inr (Or.inr (Or.inl ⟨h, he, rne_of_eq_even h he⟩))
    · exact Or.inr (Or.inr (Or.inr ⟨h, he, rne_of_eq_odd h he⟩))
  · exact Or.inr (Or.inl ⟨h, rne_of_gt h⟩)

theorem rne_close (x : ℚ) : |x - (rne x : ℚ)| ≤ 1 / 2 := by
  have h0 := Int.floor_le x
  have h1 := Int.lt_floor_add_one x
  rw [abs_le]
  rcases rne_cases x with ⟨h, e⟩ | ⟨h, e⟩ | ⟨h, _, e⟩ | ⟨h, _, e⟩ <;> rw [e] <;>
    constructor <;> push_cast <;> linarith

theorem floor_le_rne (x : ℚ) : ⌊x⌋ ≤ rne x := by
  rcases rne_cases x with ⟨_, e⟩ | ⟨_, e⟩ | ⟨_, _, e⟩ | ⟨_, _, e⟩ <;> rw [e] <;> omega

theorem rne_le_floor_add_one (x : ℚ) : rne x ≤ ⌊x⌋ + 1 := by
  rcases rne_cases x with ⟨_, e⟩ | ⟨_, e⟩ | ⟨_, _, e⟩ | ⟨_, _, e⟩ <;> rw [e] <;> omega

theorem rne_mono : Monotone rne := by
  intro x y hxy
  have hfl : ⌊x⌋ ≤ ⌊y⌋ := Int.floor_mono hxy
  rcases lt_or_eq_of_le hfl with hlt | heq
  · have hx := rne_le_floor_add_one x
    have hy := floor_le_rne y
    omega
  · have hd : x - (⌊x⌋ : ℚ) ≤ y - (⌊y⌋ : ℚ) := by rw [heq]; linarith
    rcases rne_cases x with ⟨h, e⟩ | ⟨h, e⟩ | ⟨h, he, e⟩ | ⟨h, he, e⟩ <;>
    rcases rne_cases y with ⟨h', e'⟩ | ⟨h', e'⟩ | ⟨h', he', e'⟩ | ⟨h', he', e'⟩ <;>
    rw [e, e'] <;> first | omega | (exfalso; linarith)

/-- an integer is its own rounding -/
theorem rne_intCast (n : ℤ) : rne (n : ℚ) = n := by
  have h : (n : ℚ) - (⌊(n : ℚ)⌋ : ℚ) < 1 / 2 := by simp
  rw [rne_of_lt h]; simp

theorem rne_zero : rne 0 = 0 := by
  have := rne_intCast 0
  simpa using this

/-- exact half-way points go to the even neighbour -/
theorem rne_half_even (n : ℤ) (h : n % 2 = 0) : rne ((n : ℚ) + 1 / 2) = n := by
  have hf : ⌊(n : ℚ) + 1 / 2⌋ = n := by
    rw [Int.floor_eq_iff]; constructor <;> linarith
  have hr : (n : ℚ) + 1 / 2 - (⌊(n : ℚ) + 1 / 2⌋ : ℚ) = 1 / 2 := by rw [hf]; ring
  rw [rne_of_eq_even hr (by rw [hf]; exact h), hf]

theorem rne_half_odd (n : ℤ) (h : n % 2 = 1) : rne ((n : ℚ) + 1 / 2) = n + 1 := by
  have hf : ⌊(n : ℚ) + 1 / 2⌋ = n := by
    rw [Int.floor_eq_iff]; constructor <;> linarith
  have hr : (n : ℚ) + 1 / 2 - (⌊(n : ℚ) + 1 / 2⌋ : ℚ) = 1 / 2 := by rw [hf]; ring
  rw [rne_of_eq_odd hr (by rw [hf]; omega), hf]

theorem rne_ge (x : ℚ) : x - 1 / 2 ≤ (rne x : ℚ) := by
  have := abs_le.mp (rne_close x); linarith [this.1, this.2]

theorem rne_le (x : ℚ) : (rne x : ℚ) ≤ x + 1 / 2 := by
  have := abs_le.mp (rne_close x); linarith [this.1, this.2]

/-- an integer lower bound survives rounding -/
theorem le_rne_of_le (m : ℤ) (x : ℚ) (h : (m : ℚ) + 1 / 2 ≤ x) : m ≤ rne x := by
  have h1 := rne_ge x
  have : (m : ℚ) ≤ (rne x : ℚ) := by linarith
  exact Int.cast_le.mp this

theorem rne_le_of_le (m : ℤ) (x : ℚ) (h : x ≤ (m : ℚ) - 1 / 2) : rne x ≤ m := by
  have h1 := rne_le x
  have : (rne x : ℚ) ≤ (m : ℚ) := by linarith
  exact Int.cast_le.mp this

/-! ## per-channel maximum -/

theorem foldl_max_ge (f : ℚ → ℚ) (l : List ℚ) (a : ℚ) :
    a ≤ l.foldl (fun m x => qmax m (f x)) a ∧
    ∀ x ∈ l, f x ≤ l.foldl (fun m x => qmax m (f x)) a := by
  induction l generalizing a with
  | nil => simp
  | cons y ys ih =>
    simp only [List.foldl_cons, List.mem_cons]
    obtain ⟨h1, h2⟩ := ih (qmax a (f y))
    rw [qmax_eq] at h1
    refine ⟨le_trans (le_max_left _ _) h1, ?_⟩
    rintro x (rfl | hx)
    · exact le_trans (le_max_right _ _) h1
    · exact h2 x hx

/-- the fold returns its start value or the image of a list element -/
theorem foldl_max_mem (f : ℚ → ℚ) (l : List ℚ) (a : ℚ) :
    l.foldl (fun m x => qmax m (f x)) a = a ∨
    ∃ x ∈ l, l.foldl (fun m x => qmax m (f x)) a = f x := by
  induction l generalizing a with
  | nil => simp
  | cons y ys ih =>
    simp only [List.foldl_cons, List.mem_cons]
    rcases ih (qmax a (f y)) with h | ⟨x, hx, h⟩
    · rw [h, qmax_eq]
      rcases max_choice a (f y) with h' | h'
      · left; exact h'
      · right; exact ⟨y, Or.inl rfl, h'⟩
    · right; exact ⟨x, Or.inr hx, h⟩

theorem chMax_nonneg (w : List ℚ) : 0 ≤ chMax w := (foldl_max_ge qabs w 0).1

theorem abs_le_chMax {w : List ℚ} {x : ℚ} (hx : x ∈ w) : |x| ≤ chMax w := by
  rw [← qabs_eq]; exact (foldl_max_ge qabs w 0).2 x hx

theorem chMax_attained (w : List ℚ) : chMax w = 0 ∨ ∃ x ∈ w, chMax w = |x| := by
  rcases foldl_max_mem qabs w 0 with h | ⟨x, hx, h⟩
  · left; exact h
  · right; exact ⟨x, hx, by rw [← qabs_eq]; exact h⟩

theorem mmRange_eq (w : List ℚ) : mmRange w = if chMax w = 0 then 1 else 2 * chMax w := by
  unfold mmRange
  have h : chMax w - -1 * chMax w = 2 * chMax w := by ring
  simp only [h]
  by_cases hc : chMax w = 0
  · simp [hc]
  · have : 2 * chMax w ≠ 0 := by positivity
    simp [hc, this]

theorem mmRange_pos (w : List ℚ) : 0 < mmRange w := by
  rw [mmRange_eq]
  split_ifs with h
  · norm_num
  · have := chMax_nonneg w
    have : 0 < chMax w := lt_of_le_of_ne this (Ne.symm h)
    linarith

/-- every element of the channel lies in the symmetric range `[-range/2, range/2]` -/
theorem abs_le_half_range {w : List ℚ} {x : ℚ} (hx : x ∈ w) : |x| ≤ mmRange w / 2 := by
  have h := abs_le_chMax hx
  rw [mmRange_eq]
  split_ifs with hc
  · rw [hc] at h; linarith
  · linarith

theorem mmStep_pos {p : ℕ} (hp : 1 ≤ p) (w : List ℚ) : 0 < mmStep p w :=
  div_pos (mmRange_pos w) (nSteps_pos hp)

/-- inside the channel, `x / step` lies in `[-(2^p-1)/2, (2^p-1)/2]` -/
theorem abs_div_step_le {p : ℕ} (hp : 1 ≤ p) {w : List ℚ} {x : ℚ} (hx : x ∈ w) :
    |x / mmStep p w| ≤ nSteps p / 2 := by
  have hs := mmStep_pos hp w
  rw [abs_div, abs_of_pos hs, div_le_iff₀ hs]
  have h := abs_le_half_range hx
  have hn := nSteps_pos hp
  have : nSteps p / 2 * mmStep p w = mmRange w / 2 := by
    unfold mmStep; field_simp
  rw [this]; exact h

/-! ## the clipped rounding of the weight quantizer -/

/-- value of `mmLevel` for `p ≥ 1` -/
theorem mmLevel_eq {p : ℕ} (hp : 1 ≤ p) (w : List ℚ) (x : ℚ) :
    mmLevel p w x = min (rne (x / mmStep p w)) (2 ^ (p - 1) - 1) := by
  unfold mmLevel
  have : p ≠ 0 := by omega
  simp only [this, if_false]
  split_ifs with h
  · exact (min_eq_right (le_of_lt h)).symm
  · exact (min_eq_left (not_lt.mp h)).symm

theorem cast_top (p : ℕ) : (((2 : ℤ) ^ (p - 1) - 1 : ℤ) : ℚ) = (2 : ℚ) ^ (p - 1) - 1 := by
  push_cast; rfl

/-! ## PACT -/

theorem pactSf_nonneg {eps clip : ℚ} (he : 0 ≤ eps) (hc : 0 < clip) (p : ℕ) :
    0 ≤ pactSf eps p clip := by
  unfold pactSf
  exact div_nonneg (nSteps_nonneg p) (by linarith)

theorem pactSf_pos {eps clip : ℚ} (he : 0 ≤ eps) (hc : 0 < clip) {p : ℕ} (hp : 1 ≤ p) :
    0 < pactSf eps p clip := by
  unfold pactSf
  exact div_pos (nSteps_pos hp) (by linarith)

theorem pactClamp_eq (clip x : ℚ) : pactClamp clip x = min (max x 0) clip := by
  unfold pactClamp; rw [qmin_eq, qmax_eq]

theorem pactClamp_nonneg {clip : ℚ} (hc : 0 < clip) (x : ℚ) : 0 ≤ pactClamp clip x := by
  rw [pactClamp_eq]; exact le_min (le_max_right _ _) hc.le

theorem pactClamp_le (clip x : ℚ) : pactClamp clip x ≤ clip := by
  rw [pactClamp_eq]; exact min_le_right _ _

theorem pactClamp_mono (clip : ℚ) : Monotone (pactClamp clip) := by
  intro x y h
  rw [pactClamp_eq, pactClamp_eq]
  exact min_le_min (max_le_max h le_rfl) le_rfl

theorem pactClamp_of_nonpos {clip : ℚ} (hc : 0 < clip) {x : ℚ} (hx : x ≤ 0) :
    pactClamp clip x = 0 := by
  rw [pactClamp_eq, max_eq_right hx, min_eq_left hc.le]

theorem pactClamp_of_ge {clip : ℚ} (hc : 0 < clip) {x : ℚ} (hx : clip ≤ x) :
    pactClamp clip x = clip := by
  rw [pactClamp_eq, max_eq_left (by linarith), min_eq_right hx]

theorem pactClamp_of_mem {clip x : ℚ} (h0 : 0 ≤ x) (h1 : x ≤ clip) : pactClamp clip x = x := by
  rw [pactClamp_eq, max_eq_left h0, min_eq_left h1]

/-- `scale_factor * clip_val ≤ 2^p - 1` -/
theorem pactSf_mul_clip_le {eps clip : ℚ} (he : 0 ≤ eps) (hc : 0 < clip) (p : ℕ) :
    pactSf eps p clip * clip ≤ nSteps p := by
  unfold pactSf
  have hd : 0 < clip + eps := by linarith
  rw [div_mul_eq_mul_div, div_le_iff₀ hd]
  have := nSteps_nonneg p
  nlinarith

/-- the common top level lies in `[0, 2^p - 1]` -/
theorem pactTopE_range {eps clip : ℚ} (he : 0 ≤ eps) (hc : 0 < clip) (p : ℕ) :
    0 ≤ pactTopE eps p clip ∧ pactTopE eps p clip ≤ 2 ^ p - 1 := by
  have hs := pactSf_nonneg he hc p
  unfold pactTopE
  rw [floor_eq]
  constructor
  · exact Int.floor_nonneg.mpr (mul_nonneg hs hc.le)
  · rw [Int.floor_le_iff]
    have h2 := pactSf_mul_clip_le he hc p
    rw [nSteps_eq] at h2
    push_cast; linarith

/-- the floor of the clamped product is the clamped floor: PACT level as an integer clip -/
theorem pactLevelE_eq_clip {eps clip : ℚ} (he : 0 ≤ eps) (hc : 0 < clip) (p : ℕ) (x : ℚ) :
    pactLevelE eps p clip x = min (max ⌊pactSf eps p clip * x⌋ 0) (pactTopE eps p clip) := by
  unfold pactLevelE pactTopE
  simp only [floor_eq]
  have hs := pactSf_nonneg he hc p
  rw [pactClamp_eq]
  rcases le_total x 0 with hx | hx
  · have h1 : pactSf eps p clip * x ≤ 0 := mul_nonpos_of_nonneg_of_nonpos hs hx
    have h2 : ⌊pactSf eps p clip * x⌋ ≤ 0 := by
      have := Int.floor_mono h1; simpa using this
    have h3 : (0 : ℤ) ≤ ⌊pactSf eps p clip * clip⌋ := Int.floor_nonneg.mpr (mul_nonneg hs hc.le)
    rw [max_eq_right hx, min_eq_left hc.le, max_eq_right h2, min_eq_left h3]
    simp
  · rw [max_eq_left hx]
    have h2 : (0 : ℤ) ≤ ⌊pactSf eps p clip * x⌋ := Int.floor_nonneg.mpr (mul_nonneg hs hx)
    rw [max_eq_left h2]
    rcases le_total x clip with hxc | hxc
    · rw [min_eq_left hxc, min_eq_left (Int.floor_mono (mul_le_mul_of_nonneg_left hxc hs))]
    · rw [min_eq_right hxc, min_eq_right (Int.floor_mono (mul_le_mul_of_nonneg_left hxc hs))]

end PlinioVerif.Quant
