import PlinioVerif.Model.Checkpoint
/-! Helper lemmas for C17 (checkpoint / resume).  Core tactics only. -/
set_option linter.unusedSectionVars false
set_option linter.unusedSimpArgs false
namespace PlinioVerif.Checkpoint
variable {F V X O : Type} [DecidableEq F]

/-- the two wrappers agree on everything that training cannot touch, and on the mode -/
structure FrozenEq (σ : Sig F) (a b : MState F V) : Prop where
  val : ∀ f, (σ.kind f).frozen = true → a.val f = b.val f
  training : a.training = b.training

theorem step_frozen_config (σ : Sig F) {a b : MState F V} (h : FrozenEq σ a b) (op : Op F V)
    (hc : op.isConfig = true) : FrozenEq σ (step σ a op) (step σ b op) := by
  cases op with
  | train u => simp [Op.isConfig] at hc
  | setOpt g v =>
    unfold step
    by_cases hs : (σ.kind g).settable = true
    · simp only [hs, if_true]
      exact ⟨fun f hf => by by_cases hfg : f = g <;> simp [hfg, h.val f hf], h.training⟩
    · simp only [hs]; exact h
  | mode b => exact ⟨h.val, rfl⟩
  | observe => simp [Op.isConfig] at hc

theorem step_frozen_train (σ : Sig F) {a b : MState F V} (h : FrozenEq σ a b) (op : Op F V)
    (hc : op.isConfig = false) : FrozenEq σ (step σ a op) b := by
  cases op with
  | train u =>
    refine ⟨fun f hf => ?_, h.training⟩
    simp [step, hf, h.val f hf]
  | setOpt g v => simp [Op.isConfig] at hc
  | mode b => simp [Op.isConfig] at hc
  | observe => exact ⟨h.val, h.training⟩

/-- configuration and constructor constants after a history = after its configuration calls alone -/
theorem run_frozen (σ : Sig F) (ops : List (Op F V)) :
    ∀ {a b : MState F V}, FrozenEq σ a b → FrozenEq σ (run σ a ops) (run σ b (cfgOf ops)) := by
  induction ops with
  | nil => intro a b h; exact h
  | cons op ops ih =>
    intro a b h
    by_cases hc : op.isConfig = true
    · have : cfgOf (op :: ops) = op :: cfgOf ops := by simp [cfgOf, List.filter, hc]
      rw [this]
      exact ih (step_frozen_config σ h op hc)
    · have hc' : op.isConfig = false := by simpa using hc
      have : cfgOf (op :: ops) = cfgOf ops := by simp [cfgOf, List.filter, hc']
      rw [this]
      exact ih (step_frozen_train σ h op hc')

theorem frozen_not_persisted' {k : FClass} (h : k.frozen = true) : k.persisted = false := by
  cases k <;> simp_all [FClass.frozen, FClass.persisted]

/-- … and even after the re-applied part alone: an option written into a persisted field touches no
configuration or constructor field -/
theorem run_frozen_min (σ : Sig F) (ops : List (Op F V)) :
    ∀ {a b : MState F V}, FrozenEq σ a b → FrozenEq σ (run σ a ops) (run σ b (cfgMin σ ops)) := by
  induction ops with
  | nil => intro a b h; exact h
  | cons op ops ih =>
    intro a b h
    by_cases hr : op.isReapplied σ = true
    · have : cfgMin σ (op :: ops) = op :: cfgMin σ ops := by simp [cfgMin, List.filter, hr]
      rw [this]
      have hc : op.isConfig = true := by
        cases op <;> simp_all [Op.isReapplied, Op.isConfig]
      exact ih (step_frozen_config σ h op hc)
    · have hr' : op.isReapplied σ = false := by simpa using hr
      have : cfgMin σ (op :: ops) = cfgMin σ ops := by simp [cfgMin, List.filter, hr']
      rw [this]
      apply ih
      cases op with
      | train u => exact step_frozen_train σ h _ rfl
      | observe => exact step_frozen_train σ h _ rfl
      | mode m => simp [Op.isReapplied] at hr'
      | setOpt g v =>
        have hp : (σ.kind g).persisted = true := by simpa [Op.isReapplied] using hr'
        have htr : (step σ a (Op.setOpt g v)).training = b.training := by
          simp only [step]; split <;> exact h.training
        refine ⟨fun f hf => ?_, htr⟩
        have hfg : f ≠ g := by
          intro e; subst e
          rw [frozen_not_persisted' hf] at hp; cases hp
        simp only [step]
        split
        · simp [hfg, h.val f hf]
        · exact h.val f hf

theorem step_present (σ : Sig F) (hl : NoLate σ) (s : MState F V) (op : Op F V) (f : F)
    (hp : (σ.kind f).persisted = true) : (step σ s op).present f = s.present f := by
  cases op with
  | train u => simp [step, hl f hp]
  | setOpt g v => simp only [step]; split <;> rfl
  | mode b => rfl
  | observe => simp [step, hl f hp]

/-- without late registrations the key set never changes -/
theorem run_present (σ : Sig F) (hl : NoLate σ) (ops : List (Op F V)) :
    ∀ (s : MState F V) (f : F), (σ.kind f).persisted = true → (run σ s ops).present f = s.present f := by
  induction ops with
  | nil => intro s f _; rfl
  | cons op ops ih =>
    intro s f hp
    show (run σ (step σ s op) ops).present f = s.present f
    rw [ih _ f hp, step_present σ hl s op f hp]

/-- `t` carries the same persisted values as `s`, the same mode, and the same value in every
configuration / constructor field an observer reads -/
structure Agree (σ : Sig F) (t s : MState F V) : Prop where
  training : t.training = s.training
  persisted : ∀ f, (σ.kind f).persisted = true → t.val f = s.val f
  frozenRead : ∀ f, σ.read f = true → (σ.kind f).frozen = true → t.val f = s.val f

theorem preView_eq (σ : Sig F) (hc : Classified σ) {t s : MState F V} (h : Agree σ t s) :
    preView σ t = preView σ s := by
  funext f
  unfold preView
  by_cases hr : σ.read f = true
  · have hv := hc f hr
    cases hk : σ.kind f with
    | param => simp [hr, hk, h.persisted f (by simp [hk, FClass.persisted])]
    | pbuf => simp [hr, hk, h.persisted f (by simp [hk, FClass.persisted])]
    | recomputed => simp [hr, hk]
    | config => simp [hr, hk, h.frozenRead f hr (by simp [hk, FClass.frozen])]
    | ctor => simp [hr, hk, h.frozenRead f hr (by simp [hk, FClass.frozen])]
    | volatile => exact absurd hk hv
  · have hr' : σ.read f = false := by simpa using hr
    simp [hr']

/-- after one forward the observers see the same thing on both wrappers -/
theorem view_forward_eq (σ : Sig F) (sem : Sem F V X O) (hc : Classified σ) (x : X) {t s : MState F V}
    (h : Agree σ t s) : view σ (forward σ sem x t) = view σ (forward σ sem x s) := by
  have hp := preView_eq σ hc h
  funext f
  unfold view
  by_cases hr : σ.read f = true
  · have hv := hc f hr
    simp only [hr, if_true]
    congr 1
    unfold forward
    simp only
    cases hk : σ.kind f with
    | param => simpa [hk] using h.persisted f (by simp [hk, FClass.persisted])
    | pbuf => simp only [hk]; rw [hp, h.training, h.persisted f (by simp [hk, FClass.persisted])]
    | recomputed => simp only [hk]; rw [hp, h.training]
    | config => simpa [hk] using h.frozenRead f hr (by simp [hk, FClass.frozen])
    | ctor => simpa [hk] using h.frozenRead f hr (by simp [hk, FClass.frozen])
    | volatile => exact absurd hk hv
  · have hr' : σ.read f = false := by simpa using hr
    simp [hr']

theorem obs_eq_of_agree (σ : Sig F) (sem : Sem F V X O) (hc : Classified σ) (x : X) {t s : MState F V}
    (h : Agree σ t s) : obs σ sem x t = obs σ sem x s := by
  unfold obs
  simp only
  rw [view_forward_eq σ sem hc x h]
  have : (forward σ sem x t).training = (forward σ sem x s).training := h.training
  rw [this]

/-- loading a checkpoint of `s` into `r` gives `s`'s persisted values when the keys are there -/
theorem load_persisted (σ : Sig F) (s r : MState F V) (f : F) (hk : (σ.kind f).persisted = true)
    (hs : s.present f = true) (hr : r.present f = true) : (load σ (save σ s) r).val f = s.val f := by
  simp [load, save, isKey, hk, hs, hr]

theorem load_other (σ : Sig F) (sd : F → Option V) (r : MState F V) (f : F)
    (hk : (σ.kind f).persisted = false) : (load σ sd r).val f = r.val f := by
  simp [load, isKey, hk]

/-- observer calls on a freshly built wrapper leave it "built with the same constructor arguments" -/
theorem sameCtor_observed (σ : Sig F) (hl : NoLate σ) {a b : MState F V} (h : SameCtor σ a b)
    (pre : List (Op F V)) (hpre : ∀ op ∈ pre, op.isObserve = true) : SameCtor σ a (run σ b pre) := by
  induction pre generalizing b with
  | nil => exact h
  | cons op pre ih =>
    have ho := hpre op List.mem_cons_self
    cases op with
    | observe =>
      apply ih _ (fun o hm => hpre o (List.mem_cons_of_mem _ hm))
      exact ⟨h.frozen, h.training, fun f hp => by simp [step, hl f hp, h.present f hp]⟩
    | train u => simp [Op.isObserve] at ho
    | setOpt g v => simp [Op.isObserve] at ho
    | mode m => simp [Op.isObserve] at ho

theorem frozen_not_persisted {k : FClass} (h : k.frozen = true) : k.persisted = false := by
  cases k <;> simp_all [FClass.frozen, FClass.persisted]

/-- the table-level checks imply the signature-level hypotheses -/
theorem classified_of_table (t : List FieldEntry) (h : tableClassified t = true) : Classified (sigOf t) := by
  intro i hr
  unfold tableClassified at h
  rw [List.all_eq_true] at h
  simp only [sigOf] at hr ⊢
  cases hi : t[i]? with
  | none => simp [hi] at hr
  | some e =>
    simp only [hi, Option.map_some, Option.getD_some] at hr ⊢
    have := h e (List.mem_of_getElem? hi)
    simp [hr] at this
    exact this

theorem noLate_of_table (t : List FieldEntry) (h : tableNoLate t = true) : NoLate (sigOf t) := by
  intro i hp
  unfold tableNoLate at h
  rw [List.all_eq_true] at h
  simp only [sigOf] at hp ⊢
  cases hi : t[i]? with
  | none => simp
  | some e =>
    simp only [hi, Option.map_some, Option.getD_some] at hp ⊢
    have := h e (List.mem_of_getElem? hi)
    simp [hp] at this
    exact this

end PlinioVerif.Checkpoint
