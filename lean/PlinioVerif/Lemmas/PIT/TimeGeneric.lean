import PlinioVerif.Model.PIT.TimeMask
import Mathlib.Algebra.BigOperators.Group.Finset.Basic
import Mathlib.Algebra.BigOperators.Intervals
import Mathlib.Algebra.Order.BigOperators.Group.Finset
import Mathlib.Algebra.Order.Field.Basic
import Mathlib.Tactic.Ring
import Mathlib.Tactic.Linarith
import Mathlib.Tactic.Positivity
import Mathlib.Data.List.Basic
/-!
# Structure of every reachable PIT time mask, over an arbitrary linearly ordered field

Generic (field-independent) lemmas behind C01/C08: the keep-alive prefix sums cross the
binarisation threshold exactly once, so the receptive-field mask is a suffix `a ≤ j`, the dilation
mask is a comb `2^t ∣ K-1-j` anchored at the last tap, and the last tap survives every parameter
setting.  Plus the re-indexing of the surviving taps and the "longest run of zeros" of a comb.
-/
open Finset

namespace PlinioVerif.PITTime
variable {F : Type} [Field F] [LinearOrder F] [IsStrictOrderedRing F]

def ka (n : ℕ) (v : ℕ → F) (i : ℕ) : F := if i + 1 = n then 1 else |v i|
lemma ka_nonneg (n : ℕ) (v : ℕ → F) (i : ℕ) : 0 ≤ ka n v i := by
  unfold ka; split <;> [exact zero_le_one; exact abs_nonneg _]
lemma ka_last (n : ℕ) (hn : 0 < n) (v : ℕ → F) : ka n v (n - 1) = 1 := by
  unfold ka; rw [if_pos (by omega)]

/-- prefix sums of a keep-alive vector -/
def S (n : ℕ) (v : ℕ → F) (k : ℕ) : F := ∑ i ∈ range k, ka n v i
lemma S_mono (n : ℕ) (v : ℕ → F) : Monotone (S n v) := by
  intro a b h
  exact sum_le_sum_of_subset_of_nonneg (range_mono h) (fun i _ _ => ka_nonneg n v i)
lemma S_full (n : ℕ) (hn : 0 < n) (v : ℕ → F) : 1 ≤ S n v n := by
  have : ka n v (n-1) ≤ S n v n :=
    single_le_sum (f := ka n v) (fun i _ => ka_nonneg n v i) (mem_range.mpr (by omega))
  rwa [ka_last n hn] at this

/-- threshold index: least k with 1/2 < S k; it is ≥ 1 and ≤ n -/
lemma exists_thr (n : ℕ) (hn : 0 < n) (v : ℕ → F) :
    ∃ t, t < n ∧ (1:F)/2 < S n v (t+1) ∧ S n v t ≤ 1/2 := by
  classical
  have hex : ∃ k, (1:F)/2 < S n v k := ⟨n, by have := S_full n hn v; linarith [show (1:F)/2 < 1 by norm_num]⟩
  let k := Nat.find hex
  have hk : (1:F)/2 < S n v k := Nat.find_spec hex
  have hk0 : k ≠ 0 := by
    intro h0; rw [h0] at hk; simp [S] at hk; linarith [show (0:F) < 1/2 by norm_num]
  have hkn : k ≤ n := Nat.find_min' hex (by have := S_full n hn v; linarith [show (1:F)/2 < 1 by norm_num])
  refine ⟨k - 1, by omega, by rwa [Nat.sub_add_cancel (by omega)], ?_⟩
  have := Nat.find_min hex (m := k - 1) (by omega)
  exact not_lt.mp this

def thetaBeta (K : ℕ) (β : ℕ → F) (j : ℕ) : F := S K β (j + 1)
def thetaGamma (K L : ℕ) (γ : ℕ → F) (j : ℕ) : F :=
  ∑ i ∈ range L, if 2 ^ i ∣ (K - 1 - j) then ka L γ i else 0

theorem beta_alive_iff (K : ℕ) (hK : 0 < K) (β : ℕ → F) :
    ∃ a, a < K ∧ ∀ j, (1:F)/2 < thetaBeta K β j ↔ a ≤ j := by
  obtain ⟨a, haK, h1, h2⟩ := exists_thr K hK β
  refine ⟨a, haK, fun j => ⟨fun h => ?_, fun h => ?_⟩⟩
  · by_contra hlt
    have : S K β (j+1) ≤ S K β a := S_mono K β (by omega)
    unfold thetaBeta at h; linarith
  · have : S K β (a+1) ≤ S K β (j+1) := S_mono K β (by omega)
    unfold thetaBeta; linarith

theorem gamma_alive_iff (K L : ℕ) (hL : 0 < L) (γ : ℕ → F) :
    ∃ t, t < L ∧ ∀ j, (1:F)/2 < thetaGamma K L γ j ↔ 2 ^ t ∣ (K - 1 - j) := by
  obtain ⟨t, htL, h1, h2⟩ := exists_thr L hL γ
  refine ⟨t, htL, fun j => ⟨fun h => ?_, fun h => ?_⟩⟩
  · by_contra hnd
    -- no i ≥ t divides, so the sum is bounded by S t
    have hsub : thetaGamma K L γ j ≤ S L γ t := by
      unfold thetaGamma S
      rw [← sum_filter]
      apply sum_le_sum_of_subset_of_nonneg
      · intro i hi
        simp only [mem_filter, mem_range] at hi
        simp only [mem_range]
        by_contra hge
        exact hnd (dvd_trans (pow_dvd_pow 2 (by omega)) hi.2)
      · intro i _ _; exact ka_nonneg L γ i
    linarith
  · have hsub : S L γ (t+1) ≤ thetaGamma K L γ j := by
      unfold thetaGamma S
      rw [← sum_filter]
      apply sum_le_sum_of_subset_of_nonneg
      · intro i hi
        simp only [mem_range] at hi
        simp only [mem_filter, mem_range]
        exact ⟨by omega, dvd_trans (pow_dvd_pow 2 (by omega)) h⟩
      · intro i _ _; exact ka_nonneg L γ i
    linarith

theorem alive_iff (K L : ℕ) (hK : 0 < K) (hL : 0 < L) (β γ : ℕ → F) :
    ∃ a t, a < K ∧ t < L ∧ ∀ j,
      ((1:F)/2 < thetaBeta K β j ∧ (1:F)/2 < thetaGamma K L γ j) ↔ (a ≤ j ∧ 2 ^ t ∣ (K - 1 - j)) := by
  obtain ⟨a, ha, hb⟩ := beta_alive_iff K hK β
  obtain ⟨t, ht, hg⟩ := gamma_alive_iff K L hL γ
  exact ⟨a, t, ha, ht, fun j => by rw [hb j, hg j]⟩

/-- C08 core: the most recent tap survives every parameter setting -/
theorem last_tap_alive (K L : ℕ) (hK : 0 < K) (hL : 0 < L) (β γ : ℕ → F) :
    (1:F)/2 < thetaBeta K β (K-1) ∧ (1:F)/2 < thetaGamma K L γ (K-1) := by
  obtain ⟨a, t, ha, -, h⟩ := alive_iff K L hK hL β γ
  exact (h (K-1)).mpr ⟨by omega, by simp⟩
end PlinioVerif.PITTime

namespace PlinioVerif.PIT

/-- taps that survive: j ≥ a and 2^t ∣ K-1-j  ↔  j = K-1 - i*2^t for a unique i < n -/
theorem sum_comb_reindex {M : Type} [AddCommMonoid M] (K a s : ℕ) (ha : a < K) (hs : 0 < s)
    (f : ℕ → M) :
    (∑ j ∈ range K, if a ≤ j ∧ s ∣ (K - 1 - j) then f (K - 1 - j) else 0)
      = ∑ i ∈ range ((K - 1 - a) / s + 1), f (i * s) := by
  rw [← Finset.sum_filter]
  symm
  refine Finset.sum_bij' (fun i _ => K - 1 - i * s) (fun j _ => (K - 1 - j) / s) ?_ ?_ ?_ ?_ ?_
  · intro i hi
    simp only [mem_range] at hi
    have h1 : i * s ≤ K - 1 - a := by
      calc i * s ≤ ((K - 1 - a) / s) * s := Nat.mul_le_mul_right _ (by omega)
        _ ≤ K - 1 - a := Nat.div_mul_le_self _ _
    simp only [mem_filter, mem_range]
    refine ⟨by omega, by omega, ?_⟩
    have : K - 1 - (K - 1 - i * s) = i * s := by omega
    rw [this]; exact Dvd.intro_left i rfl
  · intro j hj
    simp only [mem_filter, mem_range] at hj
    simp only [mem_range]
    have : (K - 1 - j) / s ≤ (K - 1 - a) / s := Nat.div_le_div_right (by omega)
    omega
  · intro i hi
    simp only [mem_range] at hi
    have h1 : i * s ≤ K - 1 - a := by
      calc i * s ≤ ((K - 1 - a) / s) * s := Nat.mul_le_mul_right _ (by omega)
        _ ≤ K - 1 - a := Nat.div_mul_le_self _ _
    have : K - 1 - (K - 1 - i * s) = i * s := by omega
    simp only [this]
    exact Nat.mul_div_cancel i hs
  · intro j hj
    simp only [mem_filter, mem_range] at hj
    obtain ⟨hjK, -, hd⟩ := hj
    have := Nat.div_mul_cancel hd
    simp only [this]; omega
  · intro i hi
    simp only [mem_range] at hi
    have h1 : i * s ≤ K - 1 - a := by
      calc i * s ≤ ((K - 1 - a) / s) * s := Nat.mul_le_mul_right _ (by omega)
        _ ≤ K - 1 - a := Nat.div_mul_le_self _ _
    have : K - 1 - (K - 1 - i * s) = i * s := by omega
    simp only [this]

/-- blocks: `n` dead taps followed by an alive one -/
def blk (n : Nat) : List Bool := List.replicate n false ++ [true]

theorem lzr_replicate_false (n : Nat) (rest : List Bool) (cur best : Nat) :
    lzr (List.replicate n false ++ rest) cur best = lzr rest (cur + n) best := by
  induction n generalizing cur with
  | zero => simp
  | succ n ih =>
    simp only [List.replicate_succ, List.cons_append, lzr]
    rw [ih]; congr 1; omega

theorem lzr_blk (n : Nat) (rest : List Bool) (cur best : Nat) :
    lzr (blk n ++ rest) cur best = lzr rest 0 (max (cur + n) best) := by
  unfold blk
  rw [List.append_assoc, lzr_replicate_false]
  simp [lzr]

/-- q blocks of gap g starting from state (0, b) -/
theorem lzr_blocks (g q : Nat) (b : Nat) :
    lzr ((List.replicate q (blk g)).flatten) 0 b = if q = 0 then b else max g b := by
  induction q generalizing b with
  | zero => simp [lzr]
  | succ q ih =>
    rw [List.replicate_succ, List.flatten_cons, lzr_blk, ih]
    by_cases hq : q = 0
    · simp [hq]
    · simp only [hq, if_false, Nat.succ_ne_zero, Nat.zero_add]
      omega

/-- the comb anchored at the last tap: r0 leading dead taps, then q gaps of s-1 -/
def comb (s r0 q : Nat) : List Bool := blk r0 ++ (List.replicate q (blk (s-1))).flatten

theorem lzr_comb (s r0 q : Nat) (hr : r0 ≤ s - 1) (hq : 0 < q) : lzr (comb s r0 q) 0 0 = s - 1 := by
  unfold comb
  rw [lzr_blk, lzr_blocks]
  have : q ≠ 0 := by omega
  simp only [this, if_false]
  omega

/-- a window that ends on a multiple of `s` and is shorter than `s`: all dead but the last tap -/
theorem window_eq_blk (s n c : Nat) (hn : n < s) :
    (List.range (n+1)).map (fun i => decide (s ∣ (c * s + n - i))) = blk n := by
  unfold blk
  apply List.ext_getElem
  · simp
  · intro i h1 h2
    simp only [List.length_map, List.length_range] at h1
    simp only [List.getElem_map, List.getElem_range]
    by_cases hi : i < n
    · rw [List.getElem_append_left (by simpa using hi)]
      simp only [List.getElem_replicate, decide_eq_false_iff_not]
      intro hd
      have h3 : c * s + n - i = c * s + (n - i) := by omega
      rw [h3] at hd
      have : s ∣ n - i := (Nat.dvd_add_right (Dvd.intro_left c rfl)).mp hd
      exact Nat.not_dvd_of_pos_of_lt (by omega) (by omega) this
    · have : i = n := by omega
      subst this
      rw [List.getElem_append_right (by simp)]
      simp

/-- the binarised dilation mask of a kernel of size K = r0 + 1 + q*s is the block comb -/
theorem mask_eq_comb (s r0 q : Nat) (hs : 0 < s) (hr : r0 < s) :
    (List.range (r0 + 1 + q * s)).map (fun j => decide (s ∣ (r0 + 1 + q * s - 1 - j)))
      = comb s r0 q := by
  induction q with
  | zero =>
    simp only [Nat.zero_mul, Nat.add_zero, comb, List.replicate_zero, List.flatten_nil, List.append_nil]
    have := window_eq_blk s r0 0 hr
    simpa using this
  | succ q ih =>
    have hlen : r0 + 1 + (q + 1) * s = (r0 + 1 + q * s) + ((s - 1) + 1) := by
      rw [Nat.add_mul]; omega
    rw [hlen, List.range_add, List.map_append, List.map_map]
    unfold comb
    rw [List.replicate_succ', List.flatten_append, ← List.append_assoc]
    congr 1
    · -- the old part: adding s to the dividend does not change divisibility
      have ih' := ih; unfold comb at ih'
      rw [← ih']
      apply List.map_congr_left
      intro j hj
      simp only [List.mem_range] at hj
      have : r0 + 1 + q * s + (s - 1 + 1) - 1 - j = (r0 + 1 + q * s - 1 - j) + s := by omega
      simp only [this, Nat.dvd_add_self_right]
    · -- the new block
      simp only [List.flatten_cons, List.flatten_nil, List.append_nil]
      have := window_eq_blk s (s-1) 0 (by omega)
      rw [← this]
      apply List.map_congr_left
      intro i hi
      simp only [List.mem_range] at hi
      simp only [Function.comp]
      congr 2
      omega

end PlinioVerif.PIT
