import PlinioVerif.Lemmas.PIT.Sharing
import PlinioVerif.Lemmas.PIT.Eff
/-!
# With every mask open the PIT network *is* the seed network (C07)

`seedStep` is the original (unmasked) network under the same abstract semantics.  If every mask
the calculators report is all-true (what open maskers give, `aliveMasks_open`), every node of the
PIT network equals the same node of the seed network — and by `net_export_equiv` so does every
node of the network exported at once.
-/
namespace PlinioVerif.PIT

variable {V : Type} [AddCommMonoid V]

/-- value of node `x.2` of the seed network (no masks) -/
def seedStep (σ : Sem V) (inp : ℕ → List V) (vs : List (List V)) (x : Op × ℕ) : List V :=
  let n := x.2
  match x.1 with
  | .input _ => inp n
  | .conv s c _ => (idxFrom 0 c).map fun co => σ.post n co (σ.b n co + mix (σ.L n co) 0 (gv vs s))
  | .lin s c _ => (idxFrom 0 c).map fun co => σ.post n co (σ.b n co + mix (σ.L n co) 0 (gv vs s))
  | .dw s _ => List.zipWith (fun c v => σ.post n c (σ.b n c + σ.D n c v)) (idxFrom 0 (gv vs s).length) (gv vs s)
  | .fixed s c _ _ => (idxFrom 0 c).map fun co => σ.post n co (σ.b n co + mix (σ.L n co) 0 (gv vs s))
  | .fixedDw s _ => List.zipWith (fun c v => σ.post n c (σ.b n c + σ.D n c v)) (idxFrom 0 (gv vs s).length) (gv vs s)
  | .chan s => List.zipWith (σ.g n) (idxFrom 0 (gv vs s).length) (gv vs s)
  | .add a b => List.zipWith (σ.g2 n) (gv vs a) (gv vs b)
  | .tcat ss => List.zipWith (σ.g2 n) (gv vs (ss.headD 0)) (gv vs (ss.getD 1 0))
  | .cat ss => (ss.map (gv vs)).flatten
  | .flat s m => ((gv vs s).map fun v => (List.range m).map fun p => σ.sp n p v).flatten
  | .reuse s o _ c _ => (idxFrom 0 c).map fun co => σ.post o co (σ.b o co + mix (σ.L o co) 0 (gv vs s))
  | .reuseDw s o _ _ => List.zipWith (fun c v => σ.post o c (σ.b o c + σ.D o c v)) (idxFrom 0 (gv vs s).length) (gv vs s)
  | .output s => gv vs s

/-- widths the masks must have at the features-defining layers -/
def WidthOK (ms : List (List Bool)) (x : Op × ℕ) : Prop :=
  match x.1 with
  | .conv _ c _ => (gm ms x.2).length = c
  | .lin _ c _ => (gm ms x.2).length = c
  | .reuse _ _ _ c _ => (gm ms x.2).length = c
  | _ => True

/-- one step: on a prefix where PIT and seed values agree (and the export invariant holds), they
agree at the next node if its mask is all-true -/
theorem pit_step_eq_seed (σ : Sem V) (ms : List (List Bool)) (inp : ℕ → List V)
    (vp ve : List (List V)) (op : Op) (k : ℕ) (hinv : NetInv ms vp ve k)
    (hok : Coherent σ ms inp (op, k)) (hall : allTrue (gm ms k)) (hw : WidthOK ms (op, k)) :
    pitStep σ ms inp vp (op, k) = seedStep σ inp vp (op, k) := by
  obtain ⟨hl1, hl2, hinvn⟩ := hinv
  cases op with
  | input c => rfl
  | conv s c a =>
    simp only [pitStep, seedStep]
    simp only [WidthOK] at hw
    rw [hall, hw, maskedLayer_all_true]
  | lin s c a =>
    simp only [pitStep, seedStep]
    simp only [WidthOK] at hw
    rw [hall, hw, maskedLayer_all_true]
  | reuse s o ls c a =>
    simp only [pitStep, seedStep]
    simp only [WidthOK] at hw
    rw [hall, hw, maskedLayer_all_true]
  | dw s a =>
    obtain ⟨hs, hm⟩ := hok
    obtain ⟨hlen, -, -⟩ := hinvn s hs
    simp only [pitStep, seedStep]
    rw [hall, hm, hlen, maskedDw_all_true]
  | reuseDw s o ls a =>
    obtain ⟨hs, hm, -⟩ := hok
    obtain ⟨hlen, -, -⟩ := hinvn s hs
    simp only [pitStep, seedStep]
    rw [hall, hm, hlen, maskedDw_all_true]
  | fixed s c a i => simp only [pitStep, seedStep]; rw [maskedLayer_all_true]
  | fixedDw s a =>
    obtain ⟨hs, -, hat⟩ := hok
    obtain ⟨hlen, -, -⟩ := hinvn s hs
    simp only [pitStep, seedStep]
    rw [hat, hlen, maskedDw_all_true]
  | chan s => rfl
  | add a b => rfl
  | tcat ss => rfl
  | cat ss => rfl
  | flat s m => rfl
  | output s => rfl

/-- run of the seed network -/
def runSeed (σ : Sem V) (inp : ℕ → List V) (l : List (Op × ℕ)) : List (List V) :=
  l.foldl (fun vs x => vs ++ [seedStep σ inp vs x]) []

theorem runSeed_snoc (σ : Sem V) (inp : ℕ → List V) (l : List (Op × ℕ)) (x : Op × ℕ) :
    runSeed σ inp (l ++ [x]) = runSeed σ inp l ++ [seedStep σ inp (runSeed σ inp l) x] := by
  unfold runSeed; rw [List.foldl_append]; rfl

/-- **with every reported mask all-true the PIT network is the seed network, node by node** -/
theorem pit_open_eq_seed (σ : Sem V) (ms : List (List Bool)) (inp : ℕ → List V) (p : Prog)
    (hok : ∀ n (hn : n < p.length), Coherent σ ms inp (p[n], n))
    (hall : ∀ n, n < p.length → allTrue (gm ms n))
    (hw : ∀ n (hn : n < p.length), WidthOK ms (p[n], n)) (k : ℕ) (hk : k ≤ p.length) :
    (runBoth σ ms inp (p.zipIdx.take k)).1 = runSeed σ inp (p.zipIdx.take k) := by
  induction k with
  | zero => rfl
  | succ k ih =>
    have hk' : k < p.length := by omega
    have hz : k < p.zipIdx.length := by simp; exact hk'
    rw [List.take_succ_eq_append_getElem hz, runBoth_snoc, runSeed_snoc]
    have hx : p.zipIdx[k] = (p[k], k) := by simp
    rw [hx]
    simp only
    rw [← ih (by omega)]
    congr 2
    exact pit_step_eq_seed σ ms inp _ _ p[k] k (run_inv σ ms inp p k (by omega) hok) (hok k hk')
      (hall k hk') (hw k hk')

/-! ### open maskers give all-true masks of the right width -/

/-- every parameter of every masker is 1 (freshly imported model) -/
def OpenAlpha (p : Prog) (l : List ℕ) (α : ℕ → List Rat) : Prop :=
  ∀ g grp, groupOf p l g = some grp → ∀ c < grp.width, ofList (α g) c = 1

theorem featMask_open (g : Group) (a : List Rat) (ha : ∀ c < g.width, ofList a c = 1) :
    featMask g a = List.replicate g.width true := by
  unfold featMask
  split
  · rfl
  · unfold featuresMask
    have : ∀ c ∈ List.range g.width, bin (thetaAlpha g.width (ofList a) c) = (fun _ => true) c := by
      intro c hc
      simp only [List.mem_range] at hc
      rw [bin_iff]; unfold thetaAlpha
      rw [ka_eq]; unfold PITTime.ka
      split
      · norm_num
      · rw [ha c hc]; norm_num
    rw [List.map_congr_left this, List.map_const', List.length_range]

theorem featMask_length (g : Group) (a : List Rat) : (featMask g a).length = g.width := by
  unfold featMask featuresMask; split <;> simp

/-- the mask of a searchable conv / linear layer has the layer's static width -/
theorem ownMask_length_defining (p : Prog) (l : List ℕ) (α : ℕ → List Rat) (hok : labelsOK p l = true)
    (n : ℕ) (hn : n < p.length) (hd : (p[n]).defining = true) :
    (ownMask p l α n).length = (widths p).getD n 0 := by
  unfold labelsOK at hok
  simp only [Bool.and_eq_true, List.all_eq_true] at hok
  have h2 := hok.2 n (List.mem_range.mpr hn)
  rw [getOp_eq p n hn, hd] at h2
  simp only [Bool.not_true, Bool.false_or] at h2
  unfold ownMask
  cases hg : groupOf p l (l.getD n 0) with
  | none => rw [hg] at h2; cases h2
  | some g =>
    rw [hg] at h2
    simp only [beq_iff_eq] at h2
    simp only
    rw [featMask_length, h2]

theorem ownMask_open (p : Prog) (l : List ℕ) (α : ℕ → List Rat) (hα : OpenAlpha p l α) (n : ℕ) :
    allTrue (ownMask p l α n) := by
  unfold ownMask
  cases hg : groupOf p l (l.getD n 0) with
  | none => exact allTrue_nil
  | some g =>
    simp only
    rw [featMask_open g _ (hα _ g hg)]
    exact allTrue_replicate _

/-- with open maskers every mask the calculators report is all-true -/
theorem aliveMasks_open (p : Prog) (l : List ℕ) (α : ℕ → List Rat) (hws : wellShaped p = true)
    (hα : OpenAlpha p l α) :
    ∀ n, n < p.length → allTrue ((aliveMasks p l α).getD n []) := by
  have hsb := srcsBefore_of_wellShaped p hws
  intro n
  induction n using Nat.strong_induction_on with
  | _ n ih =>
    intro hn
    rw [alive_eq p l α hsb n hn]
    have down : ∀ s ∈ (p[n]).inputs, allTrue ((aliveMasks p l α).getD s []) := by
      intro s hs
      have hsn := hsb n hn s hs
      exact ih s hsn (by omega)
    cases hop : p[n] with
    | input c => simp only [maskStep]; exact allTrue_replicate c
    | conv s c a => simp only [maskStep]; exact ownMask_open p l α hα n
    | dw s a => simp only [maskStep]; exact ownMask_open p l α hα n
    | lin s c a => simp only [maskStep]; exact ownMask_open p l α hα n
    | fixed s c a i => simp only [maskStep]; exact allTrue_replicate c
    | fixedDw s a => simp only [maskStep]; exact down s (by rw [hop]; simp [Op.inputs])
    | chan s => simp only [maskStep]; exact down s (by rw [hop]; simp [Op.inputs])
    | add a b => simp only [maskStep]; exact down a (by rw [hop]; simp [Op.inputs])
    | cat ss =>
      simp only [maskStep]
      apply allTrue_flatten
      intro m hm
      rw [List.mem_map] at hm
      obtain ⟨s, hs, rfl⟩ := hm
      exact down s (by rw [hop]; simpa [Op.inputs] using hs)
    | tcat ss =>
      simp only [maskStep]
      cases ss with
      | nil => exact allTrue_nil
      | cons s ss => exact down s (by rw [hop]; simp [Op.inputs])
    | flat s m => simp only [maskStep]; exact allTrue_expand _ _ (down s (by rw [hop]; simp [Op.inputs]))
    | reuse s o ls c a => simp only [maskStep]; exact ownMask_open p l α hα n
    | reuseDw s o ls a => simp only [maskStep]; exact ownMask_open p l α hα n
    | output s => simp only [maskStep]; exact down s (by rw [hop]; simp [Op.inputs])

/-- the widths the seed network's layers have are the widths of their masks -/
theorem widthOK_of_bookkeeping (p : Prog) (l : List ℕ) (α : ℕ → List Rat) (hl : computeLabels p = some l)
    (hws : wellShaped p = true) (n : ℕ) (hn : n < p.length) :
    WidthOK (aliveMasks p l α) (p[n], n) := by
  have hok := labelsOK_of_compute p l hl
  have hsb := srcsBefore_of_wellShaped p hws
  unfold WidthOK gm
  cases hop : p[n] with
  | conv s c a =>
    simp only
    rw [alive_eq p l α hsb n hn, hop]
    simp only [maskStep]
    rw [ownMask_length_defining p l α hok n hn (by rw [hop]; rfl), width_eq p hsb n hn, hop]; rfl
  | lin s c a =>
    simp only
    rw [alive_eq p l α hsb n hn, hop]
    simp only [maskStep]
    rw [ownMask_length_defining p l α hok n hn (by rw [hop]; rfl), width_eq p hsb n hn, hop]; rfl
  | reuse s o ls c a =>
    simp only
    rw [alive_eq p l α hsb n hn, hop]
    simp only [maskStep]
    rw [ownMask_length_defining p l α hok n hn (by rw [hop]; rfl), width_eq p hsb n hn, hop]; rfl
  | _ => trivial

end PlinioVerif.PIT
