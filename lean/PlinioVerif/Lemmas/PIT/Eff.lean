import PlinioVerif.Lemmas.PIT.TimeLink
import Mathlib.Algebra.Order.BigOperators.Group.List
import Mathlib.Tactic.GCongr
import Mathlib.Tactic.FieldSimp
/-!
# Effective sizes of a PIT layer as functions of the mask parameters (C12, C04)

`outEff` (`out_features_eff`) and `kEff` (`k_eff`), continuous (`discrete_cost=False`) and
discrete, are monotone in the magnitude of every mask parameter and equal the seed's sizes when
every mask is open.
-/
namespace PlinioVerif.PIT

/-- component-wise ordering of parameter magnitudes -/
def AbsLe (v v' : ℕ → ℚ) : Prop := ∀ i, |v i| ≤ |v' i|

theorem ka_mono (n : ℕ) (v v' : ℕ → ℚ) (h : AbsLe v v') (i : ℕ) : ka n v i ≤ ka n v' i := by
  rw [ka_eq, ka_eq]; unfold PITTime.ka
  split
  · exact le_refl _
  · exact h i

theorem ka_nonneg' (n : ℕ) (v : ℕ → ℚ) (i : ℕ) : 0 ≤ ka n v i := by
  rw [ka_eq]; exact PITTime.ka_nonneg n v i

theorem list_sum_mono {ι : Type} (l : List ι) (f g : ι → ℚ) (h : ∀ i ∈ l, f i ≤ g i) :
    (l.map f).sum ≤ (l.map g).sum := by
  induction l with
  | nil => simp
  | cons x xs ih =>
    simp only [List.map_cons, List.sum_cons]
    have := h x (by simp)
    have := ih (fun i hi => h i (by simp [hi]))
    linarith

theorem list_sum_nonneg {ι : Type} (l : List ι) (f : ι → ℚ) (h : ∀ i ∈ l, 0 ≤ f i) :
    0 ≤ (l.map f).sum := by
  induction l with
  | nil => simp
  | cons x xs ih =>
    simp only [List.map_cons, List.sum_cons]
    have := h x (by simp)
    have := ih (fun i hi => h i (by simp [hi]))
    linarith

theorem thetaBeta_mono (K : ℕ) (β β' : ℕ → ℚ) (h : AbsLe β β') (j : ℕ) :
    thetaBeta K β j ≤ thetaBeta K β' j := by
  unfold thetaBeta
  exact list_sum_mono _ _ _ (fun i _ => ka_mono K β β' h i)

theorem thetaBeta_nonneg (K : ℕ) (β : ℕ → ℚ) (j : ℕ) : 0 ≤ thetaBeta K β j := by
  unfold thetaBeta
  exact list_sum_nonneg _ _ (fun i _ => ka_nonneg' K β i)

theorem thetaGamma_mono (K L : ℕ) (γ γ' : ℕ → ℚ) (h : AbsLe γ γ') (j : ℕ) :
    thetaGamma K L γ j ≤ thetaGamma K L γ' j := by
  unfold thetaGamma
  apply list_sum_mono
  intro i _
  split
  · exact ka_mono L γ γ' h i
  · exact le_refl _

theorem thetaGamma_nonneg (K L : ℕ) (γ : ℕ → ℚ) (j : ℕ) : 0 ≤ thetaGamma K L γ j := by
  unfold thetaGamma
  apply list_sum_nonneg
  intro i _
  split
  · exact ka_nonneg' L γ i
  · exact le_refl _

theorem bin_mono (x y : ℚ) (h : x ≤ y) (hb : bin x = true) : bin y = true := by
  rw [bin_iff] at *; linarith

/-! ### out_features_eff -/

/-- continuous `out_features_eff` never decreases when the magnitude of an `alpha` grows -/
theorem outEff_mono_cont (C : ℕ) (α α' : ℕ → ℚ) (h : AbsLe α α') :
    outEff false C α ≤ outEff false C α' := by
  unfold outEff
  apply list_sum_mono
  intro c _
  simp only [Bool.false_eq_true, if_false]
  exact ka_mono C α α' h c

/-- discrete `out_features_eff` (number of alive features) likewise -/
theorem outEff_mono_disc (C : ℕ) (α α' : ℕ → ℚ) (h : AbsLe α α') :
    outEff true C α ≤ outEff true C α' := by
  unfold outEff
  apply list_sum_mono
  intro c _
  simp only [if_true]
  by_cases hb : bin (thetaAlpha C α c) = true
  · have := bin_mono _ _ (ka_mono C α α' h c) hb
    unfold thetaAlpha at hb ⊢
    rw [if_pos hb, if_pos this]
  · unfold thetaAlpha at hb ⊢
    rw [if_neg hb]
    split <;> norm_num

/-- with the mask open `out_features_eff` is the seed's width, continuous and discrete -/
theorem outEff_open (d : Bool) (C : ℕ) : outEff d C (fun _ => 1) = C := by
  unfold outEff
  have h1 : ∀ c, thetaAlpha C (fun _ => (1 : ℚ)) c = 1 := by
    intro c; unfold thetaAlpha; rw [ka_eq]; unfold PITTime.ka; split <;> simp
  have hb : bin (1 : ℚ) = true := by rw [bin_iff]; norm_num
  have : ∀ c ∈ List.range C,
      (if d = true then (if bin (thetaAlpha C (fun _ => (1:ℚ)) c) = true then (1:ℚ) else 0)
        else thetaAlpha C (fun _ => 1) c) = (fun _ => (1 : ℚ)) c := by
    intro c _; rw [h1, hb]; cases d <;> simp
  rw [List.map_congr_left this]
  simp

/-! ### k_eff -/

theorem betaNorm_nonneg (j : ℕ) : 0 ≤ betaNorm j := by
  unfold betaNorm; positivity

theorem gammaNorm_nonneg (K L j : ℕ) : 0 ≤ gammaNorm K L j := by
  unfold gammaNorm; positivity

/-- continuous `k_eff` never decreases when the magnitude of a `beta` or `gamma` grows -/
theorem kEff_mono_cont (K : ℕ) (β β' γ γ' : ℕ → ℚ) (hβ : AbsLe β β') (hγ : AbsLe γ γ') :
    kEff false K β γ ≤ kEff false K β' γ' := by
  unfold kEff
  simp only [Bool.false_eq_true, if_false]
  apply list_sum_mono
  intro j _
  have h1 := thetaGamma_mono K (gammaLen K) γ γ' hγ j
  have h2 := thetaBeta_mono K β β' hβ j
  have h3 := thetaGamma_nonneg K (gammaLen K) γ j
  have h4 := thetaBeta_nonneg K β j
  have h5 := gammaNorm_nonneg K (gammaLen K) j
  have h6 := betaNorm_nonneg j
  have h7 : 0 ≤ thetaGamma K (gammaLen K) γ' j := le_trans h3 h1
  have h8 : 0 ≤ thetaBeta K β' j := le_trans h4 h2
  apply mul_le_mul
  · exact mul_le_mul_of_nonneg_right h1 h5
  · exact mul_le_mul_of_nonneg_right h2 h6
  · exact mul_nonneg h4 h6
  · exact mul_nonneg h7 h5

/-- discrete `k_eff` (number of alive taps) likewise -/
theorem kEff_mono_disc (K : ℕ) (β β' γ γ' : ℕ → ℚ) (hβ : AbsLe β β') (hγ : AbsLe γ γ') :
    kEff true K β γ ≤ kEff true K β' γ' := by
  unfold kEff
  simp only [if_true]
  unfold kernelSizeOpt countTrue timeMask
  rw [List.filter_map, List.filter_map, List.length_map, List.length_map]
  have : ((List.range K).filter (id ∘ fun j => bin (thetaBeta K β j) && bin (thetaGamma K (gammaLen K) γ j))).length
      ≤ ((List.range K).filter (id ∘ fun j => bin (thetaBeta K β' j) && bin (thetaGamma K (gammaLen K) γ' j))).length := by
    apply List.Sublist.length_le
    apply List.monotone_filter_right
    intro j hj
    simp only [Function.comp, id, Bool.and_eq_true] at hj ⊢
    exact ⟨bin_mono _ _ (thetaBeta_mono K β β' hβ j) hj.1,
      bin_mono _ _ (thetaGamma_mono K (gammaLen K) γ γ' hγ j) hj.2⟩
  exact_mod_cast this

theorem ka_one (n i : ℕ) : ka n (fun _ => (1 : ℚ)) i = 1 := by
  rw [ka_eq]; unfold PITTime.ka; split <;> simp

theorem sum_map_const_one (l : List ℕ) : (l.map fun _ => (1 : ℚ)).sum = l.length := by
  induction l with
  | nil => simp
  | cons x xs ih => simp only [List.map_cons, List.sum_cons, ih, List.length_cons]; push_cast; ring

theorem sum_ite_eq_filter_length (l : List ℕ) (q : ℕ → Bool) :
    (l.map fun i => if q i = true then (1 : ℚ) else 0).sum = ((l.filter q).length : ℚ) := by
  induction l with
  | nil => simp
  | cons x xs ih =>
    simp only [List.map_cons, List.sum_cons, List.filter_cons, ih]
    cases q x <;> simp <;> ring

/-- **with every mask open the continuous `k_eff` is the seed's kernel size** (the normalisation
constants are anchored at the same tap as the masks) -/
theorem kEff_open_cont (K : ℕ) : kEff false K (fun _ => 1) (fun _ => 1) = K := by
  unfold kEff
  simp only [Bool.false_eq_true, if_false]
  have hterm : ∀ j ∈ List.range K,
      (thetaGamma K (gammaLen K) (fun _ => 1) j * gammaNorm K (gammaLen K) j) *
        (thetaBeta K (fun _ => 1) j * betaNorm j) = (fun _ => (1 : ℚ)) j := by
    intro j _
    have hb : thetaBeta K (fun _ => (1 : ℚ)) j = (j : ℚ) + 1 := by
      unfold thetaBeta
      have : ∀ i ∈ List.range (j + 1), ka K (fun _ => (1 : ℚ)) i = (fun _ => (1 : ℚ)) i := fun i _ => ka_one K i
      rw [List.map_congr_left this, sum_map_const_one, List.length_range]; push_cast; ring
    have hg : thetaGamma K (gammaLen K) (fun _ => (1 : ℚ)) j =
        (((List.range (gammaLen K)).filter fun i => (K - 1 - j) % 2 ^ i = 0).length : ℚ) := by
      unfold thetaGamma
      have : ∀ i ∈ List.range (gammaLen K),
          (if (K - 1 - j) % 2 ^ i = 0 then ka (gammaLen K) (fun _ => (1 : ℚ)) i else 0)
            = (fun i => if (decide ((K - 1 - j) % 2 ^ i = 0)) = true then (1 : ℚ) else 0) i := by
        intro i _; rw [ka_one]; simp
      rw [List.map_congr_left this, sum_ite_eq_filter_length]
    have hpos : 0 < ((List.range (gammaLen K)).filter fun i => decide ((K - 1 - j) % 2 ^ i = 0)).length := by
      apply List.length_pos_iff.mpr
      intro hnil
      have : 0 ∈ (List.range (gammaLen K)).filter fun i => decide ((K - 1 - j) % 2 ^ i = 0) := by
        rw [List.mem_filter]; exact ⟨List.mem_range.mpr (gammaLen_pos K), by simp [Nat.mod_one]⟩
      rw [hnil] at this; cases this
    rw [hb, hg]
    unfold betaNorm gammaNorm
    have h1 : ((j : ℚ) + 1) ≠ 0 := by positivity
    have h2 : (((List.range (gammaLen K)).filter fun i => decide ((K - 1 - j) % 2 ^ i = 0)).length : ℚ) ≠ 0 := by
      exact_mod_cast (Nat.pos_iff_ne_zero.mp hpos)
    rw [mul_one_div_cancel h2, mul_one_div_cancel h1]; norm_num
  rw [List.map_congr_left hterm, sum_map_const_one, List.length_range]

/-- … and so is the discrete one -/
theorem kEff_open_disc (K : ℕ) (hK : 0 < K) : kEff true K (fun _ => 1) (fun _ => 1) = K := by
  unfold kEff
  simp only [if_true]
  have := (shape_exists K 1 hK (fun _ => 1) (fun _ => 1))
  -- the mask is all true (C01.open_masks_export_identity, re-derived from monotonicity)
  have hall : timeMask K (fun _ => 1) (fun _ => 1) = List.replicate K true := by
    unfold timeMask
    have : ∀ j ∈ List.range K, (bin (thetaBeta K (fun _ => 1) j) &&
        bin (thetaGamma K (gammaLen K) (fun _ => 1) j)) = (fun _ => true) j := by
      intro j _
      have hb0 : (1 : ℚ) ≤ thetaBeta K (fun _ => 1) j := by
        unfold thetaBeta
        rw [List.range_succ_eq_map, List.map_cons, List.sum_cons, ka_one]
        have := list_sum_nonneg ((List.range j).map Nat.succ) (ka K fun _ => (1 : ℚ)) (fun i _ => ka_nonneg' K _ i)
        linarith
      have hg0 : (1 : ℚ) ≤ thetaGamma K (gammaLen K) (fun _ => 1) j := by
        unfold thetaGamma
        obtain ⟨L', hL'⟩ : ∃ L', gammaLen K = L' + 1 := ⟨gammaLen K - 1, by have := gammaLen_pos K; omega⟩
        rw [hL', List.range_succ_eq_map, List.map_cons, List.sum_cons]
        simp only [pow_zero, Nat.mod_one, if_true]
        rw [ka_one]
        have : 0 ≤ (((List.range L').map Nat.succ).map fun i =>
            if (K - 1 - j) % 2 ^ i = 0 then ka (L' + 1) (fun _ => (1 : ℚ)) i else 0).sum := by
          apply list_sum_nonneg
          intro i _; split
          · exact ka_nonneg' _ _ i
          · exact le_refl _
        linarith
      have e1 : bin (thetaBeta K (fun _ => 1) j) = true := by rw [bin_iff]; linarith
      have e2 : bin (thetaGamma K (gammaLen K) (fun _ => 1) j) = true := by rw [bin_iff]; linarith
      simp [e1, e2]
    rw [List.map_congr_left this, List.map_const', List.length_range]
  unfold kernelSizeOpt countTrue
  rw [hall]; simp

end PlinioVerif.PIT
