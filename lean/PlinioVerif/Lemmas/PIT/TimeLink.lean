import PlinioVerif.Lemmas.PIT.TimeGeneric
import Mathlib.Algebra.Order.Ring.Rat
import Mathlib.Data.Nat.Log
/-!
# The executable `Rat` model of the PIT maskers is the generic one at `F = ℚ`

and the consequences for the functions `export` computes: `kernel_size_opt`, `dilation_opt`,
the kept taps and their alignment with the exported convolution.
-/
open Finset

namespace PlinioVerif.PIT

theorem absR_eq (x : ℚ) : absR x = |x| := by
  unfold absR
  split
  · rw [abs_of_neg ‹_›]
  · rw [abs_of_nonneg (not_lt.mp ‹_›)]

theorem ka_eq (n : ℕ) (v : ℕ → ℚ) (i : ℕ) : ka n v i = PITTime.ka n v i := by
  unfold ka PITTime.ka; rw [absR_eq]

theorem list_sum_range {M : Type} [AddCommMonoid M] (f : ℕ → M) (n : ℕ) :
    ((List.range n).map f).sum = ∑ i ∈ range n, f i := by
  induction n with
  | zero => simp
  | succ n ih => rw [List.range_succ, List.map_append, List.sum_append, ih, Finset.sum_range_succ]; simp

theorem thetaBeta_eq (K : ℕ) (β : ℕ → ℚ) (j : ℕ) : thetaBeta K β j = PITTime.thetaBeta K β j := by
  unfold thetaBeta PITTime.thetaBeta PITTime.S
  rw [list_sum_range]
  exact Finset.sum_congr rfl (fun i _ => ka_eq K β i)

theorem thetaGamma_eq (K L : ℕ) (γ : ℕ → ℚ) (j : ℕ) :
    thetaGamma K L γ j = PITTime.thetaGamma K L γ j := by
  unfold thetaGamma PITTime.thetaGamma
  rw [list_sum_range]
  refine Finset.sum_congr rfl (fun i _ => ?_)
  simp only [Nat.dvd_iff_mod_eq_zero, ka_eq]

theorem bin_iff (x : ℚ) : bin x = true ↔ (1 : ℚ) / 2 < x := by
  unfold bin; simp

/-! ### `_gamma_len` -/

theorem gammaLen_pos (K : ℕ) : 0 < gammaLen K := by unfold gammaLen; omega

/-- the coarsest comb still has two teeth inside the kernel: `2^(L-1) ≤ K-1` for `K ≥ 2` -/
theorem pow_lt_gammaLen (K t : ℕ) (hK : 2 ≤ K) (ht : t < gammaLen K) : 2 ^ t ≤ K - 1 := by
  have hg : gammaLen K = Nat.log2 (K - 1) + 1 := by
    unfold gammaLen clog2
    rw [if_neg (by omega)]; omega
  have h1 : t ≤ Nat.log2 (K - 1) := by omega
  calc 2 ^ t ≤ 2 ^ Nat.log2 (K - 1) := Nat.pow_le_pow_right (by norm_num) h1
    _ ≤ K - 1 := Nat.log2_self_le (by omega)

theorem gammaLen_one : gammaLen 1 = 1 := by decide

/-! ### shape of the time mask -/

/-- every reachable binarised time mask is "suffix ∩ comb anchored at the last tap" -/
theorem timeMask_shape (K : ℕ) (hK : 0 < K) (β γ : ℕ → ℚ) :
    ∃ a t, a < K ∧ t < gammaLen K ∧
      timeMask K β γ = (List.range K).map (fun j => decide (a ≤ j ∧ 2 ^ t ∣ (K - 1 - j))) ∧
      gammaMask K γ = (List.range K).map (fun j => decide (2 ^ t ∣ (K - 1 - j))) := by
  obtain ⟨a, ha, hb⟩ := PITTime.beta_alive_iff (F := ℚ) K hK β
  obtain ⟨t, ht, hg⟩ := PITTime.gamma_alive_iff (F := ℚ) K (gammaLen K) (gammaLen_pos K) γ
  refine ⟨a, t, ha, ht, ?_, ?_⟩
  · unfold timeMask
    apply List.map_congr_left
    intro j _
    rw [Bool.eq_iff_iff]
    simp only [Bool.and_eq_true, bin_iff, thetaBeta_eq, thetaGamma_eq, hb j, hg j, decide_eq_true_eq]
  · unfold gammaMask
    apply List.map_congr_left
    intro j _
    rw [Bool.eq_iff_iff]
    simp only [bin_iff, thetaGamma_eq, hg j, decide_eq_true_eq]

end PlinioVerif.PIT

namespace PlinioVerif.PIT

/-! ### `dilation_opt` of a comb -/

theorem lzr_comb' (s r0 q : ℕ) (hr : r0 ≤ s - 1) :
    lzr (comb s r0 q) 0 0 = if q = 0 then r0 else s - 1 := by
  unfold comb
  rw [lzr_blk, lzr_blocks]
  by_cases hq : q = 0
  · simp [hq]
  · simp only [hq, if_false]; omega

/-- longest run of dead taps of the comb `2^t ∣ K-1-j` over `K` taps, `t < _gamma_len` -/
theorem lzr_gamma (K t : ℕ) (hK : 0 < K) (ht : t < gammaLen K) :
    lzr ((List.range K).map (fun j => decide (2 ^ t ∣ (K - 1 - j)))) 0 0 = 2 ^ t - 1 := by
  have hs : 0 < 2 ^ t := Nat.pos_of_ne_zero (by positivity)
  have hKd : K = (K - 1) % 2 ^ t + 1 + (K - 1) / 2 ^ t * 2 ^ t := by
    have := Nat.mod_add_div (K - 1) (2 ^ t)
    rw [Nat.mul_comm] at this; omega
  have hr : (K - 1) % 2 ^ t < 2 ^ t := Nat.mod_lt _ hs
  have := mask_eq_comb (2 ^ t) ((K - 1) % 2 ^ t) ((K - 1) / 2 ^ t) hs hr
  rw [← hKd] at this
  rw [this, lzr_comb' _ _ _ (by omega)]
  by_cases hK2 : 2 ≤ K
  · have := pow_lt_gammaLen K t hK2 ht
    have hq : (K - 1) / 2 ^ t ≠ 0 := by
      have := Nat.div_pos this hs; omega
    simp [hq]
  · have hK1 : K = 1 := by omega
    subst hK1
    rw [gammaLen_one] at ht
    have : t = 0 := by omega
    subst this; simp

/-! ### the kept taps -/

/-- the taps kept by `weight[:, :, time_mask]`, in ascending order, are `K-1-(n-1-i)·s`, `i < n` -/
theorem filter_comb (K a s : ℕ) (ha : a < K) (hs : 0 < s) :
    (List.range K).filter (fun j => decide (a ≤ j ∧ s ∣ (K - 1 - j)))
      = (List.range ((K - 1 - a) / s + 1)).map (fun i => K - 1 - ((K - 1 - a) / s - i) * s) := by
  set n := (K - 1 - a) / s with hn
  have hns : n * s ≤ K - 1 - a := Nat.div_mul_le_self _ _
  refine List.Perm.eq_of_pairwise (le := (· < ·)) (fun x y _ _ h1 h2 => absurd h1 (Nat.lt_asymm h2)) ?_ ?_ ?_
  rotate_left 2
  · apply (List.perm_ext_iff_of_nodup ?_ ?_).mpr
    · intro j
      simp only [List.mem_filter, List.mem_range, decide_eq_true_eq, List.mem_map]
      constructor
      · rintro ⟨hjK, haj, hd⟩
        have hq : (K - 1 - j) / s ≤ n := Nat.div_le_div_right (by omega)
        have hqs : (K - 1 - j) / s * s = K - 1 - j := Nat.div_mul_cancel hd
        generalize (K - 1 - j) / s = q at hq hqs
        refine ⟨n - q, by omega, ?_⟩
        have : n - (n - q) = q := by omega
        rw [this, hqs]; omega
      · rintro ⟨i, hi, rfl⟩
        have h1 : (n - i) * s ≤ n * s := Nat.mul_le_mul_right _ (by omega)
        refine ⟨by omega, by omega, ?_⟩
        have : K - 1 - (K - 1 - (n - i) * s) = (n - i) * s := by omega
        rw [this]; exact Dvd.intro_left _ rfl
    · exact (List.nodup_range).filter _
    · apply List.Nodup.map_on _ List.nodup_range
      intro i hi i' hi' h
      simp only [List.mem_range] at hi hi'
      have h1 : (n - i) * s ≤ n * s := Nat.mul_le_mul_right _ (by omega)
      have h2 : (n - i') * s ≤ n * s := Nat.mul_le_mul_right _ (by omega)
      have h3 : (n - i) * s = (n - i') * s := by omega
      have := Nat.eq_of_mul_eq_mul_right hs h3
      omega
  · exact (List.pairwise_lt_range).filter _
  · rw [List.pairwise_map]
    apply List.Pairwise.imp_of_mem _ (List.pairwise_lt_range)
    intro i i' hi hi' hlt
    simp only [List.mem_range] at hi hi'
    have h1 : (n - i) * s ≤ n * s := Nat.mul_le_mul_right _ (by omega)
    have h2 : (n - i') * s + s ≤ (n - i) * s := by
      have : n - i' + 1 ≤ n - i := by omega
      calc (n - i') * s + s = (n - i' + 1) * s := by ring
        _ ≤ (n - i) * s := Nat.mul_le_mul_right _ this
    omega

end PlinioVerif.PIT

namespace PlinioVerif.PIT

theorem keptTaps_map (K : ℕ) (p : ℕ → Bool) :
    keptTaps ((List.range K).map p) = (List.range K).filter p := by
  unfold keptTaps
  rw [List.length_map, List.length_range]
  apply List.filter_congr
  intro j hj
  simp only [List.mem_range] at hj
  simp [List.getD_eq_getElem?_getD, hj]

theorem countTrue_map (K : ℕ) (p : ℕ → Bool) :
    countTrue ((List.range K).map p) = ((List.range K).filter p).length := by
  unfold countTrue
  rw [List.filter_map, List.length_map]
  rfl

/-- summary of what `export` computes from a mask of shape (a, t) -/
structure Shape (K d0 : ℕ) (β γ : ℕ → ℚ) (a t : ℕ) : Prop where
  a_lt : a < K
  t_lt : t < gammaLen K
  mask : timeMask K β γ = (List.range K).map (fun j => decide (a ≤ j ∧ 2 ^ t ∣ (K - 1 - j)))
  kopt : kernelSizeOpt K β γ = (K - 1 - a) / 2 ^ t + 1
  dopt : dilationOpt K d0 γ = 2 ^ t * d0
  kept : keptTaps (timeMask K β γ) =
    (List.range ((K - 1 - a) / 2 ^ t + 1)).map (fun i => K - 1 - ((K - 1 - a) / 2 ^ t - i) * 2 ^ t)

theorem shape_exists (K d0 : ℕ) (hK : 0 < K) (β γ : ℕ → ℚ) : ∃ a t, Shape K d0 β γ a t := by
  obtain ⟨a, t, ha, ht, hm, hg⟩ := timeMask_shape K hK β γ
  have hs : 0 < 2 ^ t := Nat.pos_of_ne_zero (by positivity)
  refine ⟨a, t, ha, ht, hm, ?_, ?_, ?_⟩
  · unfold kernelSizeOpt
    rw [hm, countTrue_map, filter_comb K a (2 ^ t) ha hs, List.length_map, List.length_range]
  · unfold dilationOpt
    rw [hg, lzr_gamma K t hK ht]
    have : 2 ^ t - 1 + 1 = 2 ^ t := by omega
    rw [this]
  · rw [hm, keptTaps_map, filter_comb K a (2 ^ t) ha hs]

/-- the exported kernel reads exactly the samples the masked kernel reads, tap by tap -/
theorem exportAligned_of_shape {K d0 a t : ℕ} {β γ : ℕ → ℚ} (h : Shape K d0 β γ a t) :
    exportAligned K d0 β γ = true := by
  unfold exportAligned maskedLookbacks exportedLookbacks
  rw [h.kept, h.kopt, h.dopt, List.map_map]
  simp only [beq_iff_eq]
  apply List.map_congr_left
  intro i hi
  simp only [List.mem_range] at hi
  set n := (K - 1 - a) / 2 ^ t with hn
  have hns : n * 2 ^ t ≤ K - 1 - a := Nat.div_mul_le_self _ _
  have h1 : (n - i) * 2 ^ t ≤ n * 2 ^ t := Nat.mul_le_mul_right _ (by omega)
  simp only [Function.comp]
  have : K - 1 - (K - 1 - (n - i) * 2 ^ t) = (n - i) * 2 ^ t := by omega
  rw [this]
  have : n + 1 - 1 - i = n - i := by omega
  rw [this]; ring

theorem sum_filter_ite {R : Type} [Semiring R] (p : ℕ → Bool) (f g : ℕ → R) (l : List ℕ) :
    (l.map fun j => (if p j = true then f j else 0) * g j).sum
      = ((l.filter p).map fun j => f j * g j).sum := by
  induction l with
  | nil => simp
  | cons j js ih =>
    simp only [List.map_cons, List.sum_cons, List.filter_cons]
    cases hp : p j
    · simp only [Bool.false_eq_true, if_false, zero_mul, zero_add, ih]
    · simp only [if_true, List.map_cons, List.sum_cons, ih]

/-- masked convolution output = exported convolution output, sample by sample (any semiring of
values, signal extended by zero to the left = causal padding on both sides of the equation) -/
theorem conv_eq_of_shape {R : Type} [Semiring R] {K d0 a t : ℕ} {β γ : ℕ → ℚ}
    (h : Shape K d0 β γ a t) (w : ℕ → R) (x : ℤ → R) (τ : ℤ) :
    ((List.range K).map fun j =>
        (if (timeMask K β γ).getD j false then w j else 0) * x (τ - ((K - 1 - j) * d0 : ℕ))).sum
      = ((List.range (kernelSizeOpt K β γ)).map fun i =>
        w ((keptTaps (timeMask K β γ)).getD i 0) *
          x (τ - ((kernelSizeOpt K β γ - 1 - i) * dilationOpt K d0 γ : ℕ))).sum := by
  have hs : 0 < 2 ^ t := Nat.pos_of_ne_zero (by positivity)
  -- left: drop the dead taps
  have hL : ((List.range K).map fun j =>
        (if (timeMask K β γ).getD j false then w j else 0) * x (τ - ((K - 1 - j) * d0 : ℕ))).sum
      = ((keptTaps (timeMask K β γ)).map fun j => w j * x (τ - ((K - 1 - j) * d0 : ℕ))).sum := by
    have hlen : (timeMask K β γ).length = K := by unfold timeMask; simp
    unfold keptTaps
    rw [hlen]
    exact sum_filter_ite (fun j => (timeMask K β γ).getD j false) w _ _
  rw [hL, h.kept, h.kopt, h.dopt, List.map_map]
  congr 1
  apply List.map_congr_left
  intro i hi
  simp only [List.mem_range] at hi
  set n := (K - 1 - a) / 2 ^ t with hn
  have hns : n * 2 ^ t ≤ K - 1 - a := Nat.div_mul_le_self _ _
  have h1 : (n - i) * 2 ^ t ≤ n * 2 ^ t := Nat.mul_le_mul_right _ (by omega)
  simp only [Function.comp]
  have hg : ((List.range (n + 1)).map fun i => K - 1 - (n - i) * 2 ^ t).getD i 0
      = K - 1 - (n - i) * 2 ^ t := by
    simp [List.getD_eq_getElem?_getD, hi]
  rw [hg]
  have e1 : K - 1 - (K - 1 - (n - i) * 2 ^ t) = (n - i) * 2 ^ t := by omega
  have e2 : n + 1 - 1 - i = n - i := by omega
  rw [e1, e2, Nat.mul_assoc]

end PlinioVerif.PIT
