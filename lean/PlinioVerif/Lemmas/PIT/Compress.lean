import Mathlib.Algebra.BigOperators.Group.List.Basic
import Mathlib.Tactic.Ring
import Mathlib.Tactic.Linarith
/-!
# Restriction to alive channels commutes with every op of the PIT grammar

List-level lemmas behind the network-level export equivalence (C01, C09): `compress m xs` keeps
the entries of `xs` whose flag in `m` is true (what `weight[mask]` / a pruned tensor is),
`DeadZero m xs` says the entries at dead positions are zero.
-/
namespace PlinioVerif.PIT

variable {V : Type} [AddCommMonoid V]

/-- keep the entries whose flag is true -/
def compress {α : Type} : List Bool → List α → List α
  | a :: as, x :: xs => if a then x :: compress as xs else compress as xs
  | _, _ => []

/-- `Σ_ci L ci (x ci)`, channels numbered from `k` -/
def mix (L : ℕ → V → V) : ℕ → List V → V
  | _, [] => 0
  | k, x :: xs => L k x + mix L (k + 1) xs

/-- the same sum over a compressed tensor together with the original indices it kept -/
def mixIdx (L : ℕ → V → V) : List ℕ → List V → V
  | i :: is, x :: xs => L i x + mixIdx L is xs
  | _, _ => 0

def idxFrom (k : ℕ) : ℕ → List ℕ
  | 0 => []
  | n + 1 => k :: idxFrom (k + 1) n

/-- dead channels are zero -/
def DeadZero : List Bool → List V → Prop
  | a :: as, x :: xs => (a = false → x = 0) ∧ DeadZero as xs
  | _, _ => True

theorem mix_compress (L : ℕ → V → V) (hL : ∀ i, L i 0 = 0) :
    ∀ (alive : List Bool) (x : List V) (k : ℕ), alive.length = x.length → DeadZero alive x →
      mix L k x = mixIdx L (compress alive (idxFrom k x.length)) (compress alive x) := by
  intro alive
  induction alive with
  | nil => intro x k h _; cases x <;> simp_all [mix, mixIdx, compress]
  | cons a as ih =>
    intro x k h hd
    cases x with
    | nil => simp at h
    | cons x xs =>
      simp only [List.length_cons, Nat.add_right_cancel_iff] at h
      obtain ⟨h0, hd'⟩ := hd
      cases a with
      | true => simp [mix, mixIdx, compress, idxFrom, ih xs (k + 1) h hd']
      | false => simp [mix, compress, idxFrom, ih xs (k + 1) h hd', h0 rfl, hL]

theorem compress_map {α β : Type} (g : α → β) : ∀ (m : List Bool) (xs : List α),
    compress m (xs.map g) = (compress m xs).map g := by
  intro m; induction m with
  | nil => intro xs; cases xs <;> simp [compress]
  | cons a as ih => intro xs; cases xs with
    | nil => simp [compress]
    | cons x xs => cases a <;> simp [compress, ih]

theorem deadZero_map (g : V → V) (hg : g 0 = 0) : ∀ (m : List Bool) (xs : List V),
    DeadZero m xs → DeadZero m (xs.map g) := by
  intro m; induction m with
  | nil => intro xs _; cases xs <;> simp [DeadZero]
  | cons a as ih => intro xs h; cases xs with
    | nil => simp [DeadZero]
    | cons x xs =>
      obtain ⟨h0, h1⟩ := h
      exact ⟨fun ha => by rw [h0 ha, hg], ih xs h1⟩

/-- a per-channel map that preserves zero on the dead channels keeps them zero -/
theorem deadZero_zipWithIdx (f : ℕ → V → V) : ∀ (m : List Bool) (xs : List V) (k : ℕ),
    m.length = xs.length → DeadZero m xs → (∀ c, m.getD c true = false → f (k + c) 0 = 0) →
    DeadZero m (List.zipWith f (idxFrom k xs.length) xs) := by
  intro m; induction m with
  | nil => intro xs k _ _ _; cases xs <;> simp [DeadZero, idxFrom]
  | cons a as ih =>
    intro xs k hl hd hf
    cases xs with
    | nil => simp at hl
    | cons x xs =>
      obtain ⟨h0, h1⟩ := hd
      simp only [List.length_cons, Nat.add_right_cancel_iff] at hl
      simp only [List.length_cons, idxFrom, List.zipWith_cons_cons, DeadZero]
      refine ⟨fun ha => ?_, ih xs (k + 1) hl h1 (fun c hc => ?_)⟩
      · rw [h0 ha]; simpa using hf 0 (by simpa using ha)
      · have := hf (c + 1) (by simpa using hc)
        rwa [show k + (c + 1) = k + 1 + c by omega] at this

theorem compress_zipWith {α β γ : Type} (f : α → β → γ) : ∀ (m : List Bool) (xs : List α) (ys : List β),
    compress m (List.zipWith f xs ys) = List.zipWith f (compress m xs) (compress m ys) := by
  intro m; induction m with
  | nil => intro xs ys; cases xs <;> cases ys <;> simp [compress]
  | cons a as ih =>
    intro xs ys
    cases xs with
    | nil => cases ys <;> simp [compress]
    | cons x xs => cases ys with
      | nil => cases a <;> simp [compress]
      | cons y ys => cases a <;> simp [compress, ih]

theorem deadZero_zipWith (f : V → V → V) (hf : f 0 0 = 0) : ∀ (m : List Bool) (xs ys : List V),
    DeadZero m xs → DeadZero m ys → DeadZero m (List.zipWith f xs ys) := by
  intro m; induction m with
  | nil => intro xs ys _ _; cases xs <;> cases ys <;> simp [DeadZero]
  | cons a as ih =>
    intro xs ys hx hy
    cases xs with
    | nil => simp [DeadZero]
    | cons x xs => cases ys with
      | nil => simp [DeadZero]
      | cons y ys =>
        obtain ⟨hx0, hx1⟩ := hx; obtain ⟨hy0, hy1⟩ := hy
        exact ⟨fun ha => by simp [hx0 ha, hy0 ha, hf], ih xs ys hx1 hy1⟩

/-- a masked features-defining layer, channel by channel: `f co` where alive, zero elsewhere -/
def maskedLayer (f : ℕ → V) : ℕ → List Bool → List V
  | _, [] => []
  | k, a :: as => (if a then f k else 0) :: maskedLayer f (k + 1) as

theorem compress_maskedLayer (f : ℕ → V) : ∀ (m : List Bool) (k : ℕ),
    compress m (maskedLayer f k m) = (compress m (idxFrom k m.length)).map f := by
  intro m; induction m with
  | nil => intro k; simp [maskedLayer, compress, idxFrom]
  | cons a as ih => intro k; cases a <;> simp [maskedLayer, compress, idxFrom, ih]

theorem deadZero_maskedLayer (f : ℕ → V) : ∀ (m : List Bool) (k : ℕ),
    DeadZero m (maskedLayer f k m) := by
  intro m; induction m with
  | nil => intro k; simp [maskedLayer, DeadZero]
  | cons a as ih => intro k; exact ⟨fun ha => by simp [ha], ih (k + 1)⟩

theorem length_maskedLayer (f : ℕ → V) : ∀ (m : List Bool) (k : ℕ),
    (maskedLayer f k m).length = m.length := by
  intro m; induction m with
  | nil => intro k; simp [maskedLayer]
  | cons a as ih => intro k; simp [maskedLayer, ih]

/-- a masked depthwise layer: channel `c` computes `f c (x c)` where alive, zero elsewhere -/
def maskedDw (f : ℕ → V → V) : ℕ → List Bool → List V → List V
  | k, a :: as, x :: xs => (if a then f k x else 0) :: maskedDw f (k + 1) as xs
  | _, _, _ => []

theorem compress_maskedDw (f : ℕ → V → V) : ∀ (m : List Bool) (xs : List V) (k : ℕ),
    m.length = xs.length →
    compress m (maskedDw f k m xs) = List.zipWith f (compress m (idxFrom k m.length)) (compress m xs) := by
  intro m; induction m with
  | nil => intro xs k _; simp [maskedDw, compress, idxFrom]
  | cons a as ih =>
    intro xs k h
    cases xs with
    | nil => simp at h
    | cons x xs =>
      simp only [List.length_cons, Nat.add_right_cancel_iff] at h
      cases a <;> simp [maskedDw, compress, idxFrom, ih xs (k + 1) h]

theorem deadZero_maskedDw (f : ℕ → V → V) : ∀ (m : List Bool) (xs : List V) (k : ℕ),
    DeadZero m (maskedDw f k m xs) := by
  intro m; induction m with
  | nil => intro xs k; simp [maskedDw, DeadZero]
  | cons a as ih =>
    intro xs k
    cases xs with
    | nil => simp [maskedDw, DeadZero]
    | cons x xs => exact ⟨fun ha => by simp [ha], ih xs (k + 1)⟩

theorem length_maskedDw (f : ℕ → V → V) : ∀ (m : List Bool) (xs : List V) (k : ℕ),
    m.length = xs.length → (maskedDw f k m xs).length = m.length := by
  intro m; induction m with
  | nil => intro xs k _; simp [maskedDw]
  | cons a as ih =>
    intro xs k h
    cases xs with
    | nil => simp at h
    | cons x xs =>
      simp only [List.length_cons, Nat.add_right_cancel_iff] at h
      simp [maskedDw, ih xs (k + 1) h]

theorem compress_all_true {α : Type} : ∀ (xs : List α),
    compress (List.replicate xs.length true) xs = xs := by
  intro xs; induction xs with
  | nil => simp [compress]
  | cons x xs ih => simp [List.replicate_succ, compress, ih]

theorem deadZero_all_true : ∀ (xs : List V), DeadZero (List.replicate xs.length true) xs := by
  intro xs; induction xs with
  | nil => simp [DeadZero]
  | cons x xs ih => exact ⟨by simp, ih⟩

/-! ### concatenation and flattening -/

theorem compress_append {α : Type} : ∀ (m1 m2 : List Bool) (x1 x2 : List α), m1.length = x1.length →
    compress (m1 ++ m2) (x1 ++ x2) = compress m1 x1 ++ compress m2 x2 := by
  intro m1; induction m1 with
  | nil => intro m2 x1 x2 h; cases x1 with
    | nil => simp [compress]
    | cons _ _ => simp at h
  | cons a as ih =>
    intro m2 x1 x2 h
    cases x1 with
    | nil => simp at h
    | cons x xs =>
      simp only [List.length_cons, Nat.add_right_cancel_iff] at h
      cases a <;> simp [compress, ih m2 xs x2 h]

theorem deadZero_append : ∀ (m1 m2 : List Bool) (x1 x2 : List V), m1.length = x1.length →
    DeadZero m1 x1 → DeadZero m2 x2 → DeadZero (m1 ++ m2) (x1 ++ x2) := by
  intro m1; induction m1 with
  | nil => intro m2 x1 x2 h _ h2; cases x1 with
    | nil => simpa using h2
    | cons _ _ => simp at h
  | cons a as ih =>
    intro m2 x1 x2 h h1 h2
    cases x1 with
    | nil => simp at h
    | cons x xs =>
      simp only [List.length_cons, Nat.add_right_cancel_iff] at h
      exact ⟨h1.1, ih m2 xs x2 h h1.2 h2⟩

/-- concatenation of several tensors, masks concatenated alike -/
theorem compress_flatten {α : Type} : ∀ (ms : List (List Bool)) (xs : List (List α)),
    ms.length = xs.length → (∀ i < ms.length, (ms.getD i []).length = (xs.getD i []).length) →
    compress ms.flatten xs.flatten = (List.zipWith compress ms xs).flatten := by
  intro ms; induction ms with
  | nil => intro xs h _; cases xs with
    | nil => simp [compress]
    | cons _ _ => simp at h
  | cons m ms ih =>
    intro xs h hl
    cases xs with
    | nil => simp at h
    | cons x xs =>
      simp only [List.length_cons, Nat.add_right_cancel_iff] at h
      have h0 : m.length = x.length := by simpa using hl 0 (by simp)
      have hl' : ∀ i < ms.length, (ms.getD i []).length = (xs.getD i []).length := by
        intro i hi; simpa using hl (i + 1) (by simp; omega)
      simp only [List.flatten_cons, List.zipWith_cons_cons]
      rw [compress_append m ms.flatten x xs.flatten h0, ih xs h hl']

theorem deadZero_flatten : ∀ (ms : List (List Bool)) (xs : List (List V)),
    ms.length = xs.length → (∀ i < ms.length, (ms.getD i []).length = (xs.getD i []).length) →
    (∀ i < ms.length, DeadZero (ms.getD i []) (xs.getD i [])) → DeadZero ms.flatten xs.flatten := by
  intro ms; induction ms with
  | nil => intro xs h _ _; cases xs with
    | nil => simp [DeadZero]
    | cons _ _ => simp at h
  | cons m ms ih =>
    intro xs h hl hd
    cases xs with
    | nil => simp at h
    | cons x xs =>
      simp only [List.length_cons, Nat.add_right_cancel_iff] at h
      have h0 : m.length = x.length := by simpa using hl 0 (by simp)
      have hl' : ∀ i < ms.length, (ms.getD i []).length = (xs.getD i []).length := by
        intro i hi; simpa using hl (i + 1) (by simp; omega)
      have hd0 : DeadZero m x := by simpa using hd 0 (by simp)
      have hd' : ∀ i < ms.length, DeadZero (ms.getD i []) (xs.getD i []) := by
        intro i hi; simpa using hd (i + 1) (by simp; omega)
      simp only [List.flatten_cons]
      exact deadZero_append m ms.flatten x xs.flatten h0 hd0 (ih xs h hl' hd')

theorem compress_replicate {α : Type} (b : Bool) : ∀ (l : List α),
    compress (List.replicate l.length b) l = if b then l else [] := by
  intro l
  cases b
  · simp only [Bool.false_eq_true, if_false]
    induction l with
    | nil => simp [compress]
    | cons x xs ih => simp [List.replicate_succ, compress, ih]
  · simp only [if_true]; exact compress_all_true l

/-- flatten: every feature `v` becomes the `mult` features `sp 0 v … sp (mult-1) v`; the mask of
the flattened tensor is the mask of the features, each repeated `mult` times -/
theorem compress_flatExpand (sp : ℕ → V → V) (mult : ℕ) : ∀ (m : List Bool) (xs : List V),
    compress (m.map fun b => List.replicate mult b).flatten
        (xs.map fun v => (List.range mult).map fun p => sp p v).flatten
      = ((compress m xs).map fun v => (List.range mult).map fun p => sp p v).flatten := by
  intro m; induction m with
  | nil => intro xs; cases xs <;> simp [compress]
  | cons a as ih =>
    intro xs
    cases xs with
    | nil => simp [compress]
    | cons x xs =>
      simp only [List.map_cons, List.flatten_cons]
      have hlen : (List.replicate mult a).length = ((List.range mult).map fun p => sp p x).length := by simp
      rw [compress_append _ _ _ _ hlen, ih xs]
      have := compress_replicate a ((List.range mult).map fun p => sp p x)
      simp only [List.length_map, List.length_range] at this
      rw [this]
      cases a <;> simp [compress]

theorem deadZero_replicate_map (sp : ℕ → V → V) (hsp : ∀ p, sp p 0 = 0) (n : ℕ) (b : Bool) (v : V)
    (hv : b = false → v = 0) :
    DeadZero (List.replicate n b) ((List.range n).map fun p => sp p v) := by
  cases b
  · rw [hv rfl]
    generalize hl : (List.range n).map (fun p => sp p (0 : V)) = l
    have hz : ∀ y ∈ l, y = 0 := by
      intro y hy; rw [← hl] at hy
      simp only [List.mem_map] at hy
      obtain ⟨p, -, rfl⟩ := hy; exact hsp p
    clear hl
    induction n generalizing l with
    | zero => cases l <;> simp [DeadZero]
    | succ n ih => cases l with
      | nil => simp [DeadZero]
      | cons y ys =>
        rw [List.replicate_succ]
        exact ⟨fun _ => hz y (by simp), ih ys (fun z hzm => hz z (by simp [hzm]))⟩
  · have : n = ((List.range n).map fun p => sp p v).length := by simp
    conv => arg 1; rw [this]
    exact deadZero_all_true _

theorem deadZero_flatExpand (sp : ℕ → V → V) (hsp : ∀ p, sp p 0 = 0) (mult : ℕ) :
    ∀ (m : List Bool) (xs : List V), DeadZero m xs →
    DeadZero (m.map fun b => List.replicate mult b).flatten
      (xs.map fun v => (List.range mult).map fun p => sp p v).flatten := by
  intro m; induction m with
  | nil => intro xs _; cases xs <;> simp [DeadZero]
  | cons a as ih =>
    intro xs h
    cases xs with
    | nil => simp [DeadZero]
    | cons x xs =>
      simp only [List.map_cons, List.flatten_cons]
      exact deadZero_append _ _ _ _ (by simp) (deadZero_replicate_map sp hsp mult a x h.1) (ih xs h.2)

theorem length_flatExpand (sp : ℕ → V → V) (mult : ℕ) (m : List Bool) (xs : List V)
    (h : m.length = xs.length) :
    (m.map fun b => List.replicate mult b).flatten.length
      = (xs.map fun v => (List.range mult).map fun p => sp p v).flatten.length := by
  induction m generalizing xs with
  | nil => cases xs with
    | nil => rfl
    | cons _ _ => simp at h
  | cons a as ih =>
    cases xs with
    | nil => simp at h
    | cons x xs =>
      simp only [List.length_cons, Nat.add_right_cancel_iff] at h
      simp only [List.map_cons, List.flatten_cons, List.length_append, List.length_replicate,
        List.length_map, List.length_range, ih xs h]

theorem compress_length_le {α : Type} : ∀ (m : List Bool) (xs : List α), (compress m xs).length ≤ xs.length := by
  intro m; induction m with
  | nil => intro xs; simp [compress]
  | cons a as ih =>
    intro xs; cases xs with
    | nil => simp [compress]
    | cons x xs =>
      cases a
      · simp only [compress, Bool.false_eq_true, if_false, List.length_cons]; have := ih xs; omega
      · simp only [compress, if_true, List.length_cons]; have := ih xs; omega

theorem compress_length_eq {α β : Type} : ∀ (m : List Bool) (xs : List α) (ys : List β),
    xs.length = ys.length → (compress m xs).length = (compress m ys).length := by
  intro m; induction m with
  | nil => intro xs ys _; simp [compress]
  | cons a as ih =>
    intro xs ys h
    cases xs with
    | nil => cases ys with
      | nil => simp [compress]
      | cons _ _ => simp at h
    | cons x xs => cases ys with
      | nil => simp at h
      | cons y ys =>
        simp only [List.length_cons, Nat.add_right_cancel_iff] at h
        cases a <;> simp [compress, ih xs ys h]

end PlinioVerif.PIT
