import PlinioVerif.Lemmas.PIT.NetSem
import PlinioVerif.Lemmas.PIT.Scan
/-!
# Soundness of PIT's mask sharing (C09) and the bridge to the semantic theorem (C01)

From the bookkeeping model alone: in every *supported*, well-shaped program whose labelling
passes the certificate, the alive mask of every untainted node is the mask of the masker of its
sharing component.  Hence both operands of a residual sum carry the same mask, a depthwise
convolution's own mask is the mask of the tensor feeding it, and the masks the features
calculators report are *coherent* in the sense `export_equiv` needs.
-/
namespace PlinioVerif.PIT

/-! ### the folds as scans -/

theorem widths_eq_scan (p : Prog) : widths p = scan widthStep p := rfl
theorem tainted_eq_scan (p : Prog) : tainted p = scan taintStep p := rfl
theorem aliveMasks_eq_scan (p : Prog) (l : List ℕ) (α : ℕ → List Rat) :
    aliveMasks p l α = scan (maskStep p l α) p.zipIdx := rfl

theorem getD_take_of_lt {α : Type} (l : List α) (n s : ℕ) (d : α) (h : s < n) :
    (l.take n).getD s d = l.getD s d := by
  simp [List.getD_eq_getElem?_getD, List.getElem?_take, h]

/-- all operands of every node are earlier nodes -/
def srcsBefore (p : Prog) : Prop := ∀ n (hn : n < p.length), ∀ s ∈ (p[n]).inputs, s < n

theorem srcsBefore_of_wellShaped (p : Prog) (h : wellShaped p = true) : srcsBefore p := by
  unfold wellShaped at h
  simp only [Bool.and_eq_true, List.all_eq_true] at h
  intro n hn s hs
  have hmem : (p[n], n) ∈ p.zipIdx := by
    rw [List.mem_zipIdx_iff_getElem?]; simp [List.getElem?_eq_getElem hn]
  have := h.1.1 (p[n], n) hmem
  simp only [List.all_eq_true, decide_eq_true_eq] at this
  exact this s hs

theorem maskStep_congr (p : Prog) (l : List ℕ) (α : ℕ → List Rat) (a b : List (List Bool))
    (op : Op) (n : ℕ) (h : ∀ s ∈ op.inputs, a.getD s [] = b.getD s []) :
    maskStep p l α a (op, n) = maskStep p l α b (op, n) := by
  cases op <;> simp only [maskStep, Op.inputs] at h ⊢
  case fixedDw s _ => exact h s (by simp)
  case chan s => exact h s (by simp)
  case add x y => exact h x (by simp)
  case cat ss =>
    congr 1
    apply List.map_congr_left
    intro s hs; exact h s hs
  case tcat ss =>
    cases ss with
    | nil => rfl
    | cons s ss => exact h s (by simp)
  case flat s m => rw [h s (by simp)]
  case output s => exact h s (by simp)

/-- the mask of node `n` is one step of the calculators applied to the final masks -/
theorem alive_eq (p : Prog) (l : List ℕ) (α : ℕ → List Rat) (hsb : srcsBefore p) (n : ℕ)
    (hn : n < p.length) :
    (aliveMasks p l α).getD n [] = maskStep p l α (aliveMasks p l α) (p[n], n) := by
  have hz : n < p.zipIdx.length := by simp; exact hn
  rw [aliveMasks_eq_scan, scan_getD _ _ n [] hz]
  have hx : p.zipIdx[n] = (p[n], n) := by simp
  rw [hx]
  apply maskStep_congr
  intro s hs
  rw [← scan_take]
  exact getD_take_of_lt _ _ _ _ (hsb n hn s hs)

theorem taintStep_congr (a b : List Bool) (op : Op)
    (h : ∀ s ∈ op.inputs, a.getD s false = b.getD s false) : taintStep a op = taintStep b op := by
  cases op <;> simp only [taintStep, Op.inputs] at h ⊢
  case dw s _ => exact h s (by simp)
  case fixedDw s _ => exact h s (by simp)
  case chan s => exact h s (by simp)
  case add x y => rw [h x (by simp), h y (by simp)]
  case reuseDw s _ _ _ => exact h s (by simp)
  case tcat ss =>
    induction ss with
    | nil => rfl
    | cons s ss ih =>
      simp only [List.any_cons]
      rw [h s (by simp), ih (fun t ht => h t (by simp [ht]))]
  case output s => exact h s (by simp)

theorem taint_eq (p : Prog) (hsb : srcsBefore p) (n : ℕ) (hn : n < p.length) :
    (tainted p).getD n false = taintStep (tainted p) p[n] := by
  rw [tainted_eq_scan, scan_getD _ _ n false hn]
  apply taintStep_congr
  intro s hs
  rw [← scan_take]
  exact getD_take_of_lt _ _ _ _ (hsb n hn s hs)

theorem widthStep_congr (a b : List ℕ) (op : Op)
    (h : ∀ s ∈ op.inputs, a.getD s 0 = b.getD s 0) : widthStep a op = widthStep b op := by
  cases op <;> simp only [widthStep, Op.inputs] at h ⊢
  case dw s _ => exact h s (by simp)
  case fixedDw s _ => exact h s (by simp)
  case chan s => exact h s (by simp)
  case add x y => exact h x (by simp)
  case cat ss =>
    congr 1
    apply List.map_congr_left
    intro s hs; exact h s hs
  case tcat ss =>
    cases ss with
    | nil => rfl
    | cons s ss => exact h s (by simp)
  case reuseDw s _ _ _ => exact h s (by simp)
  case flat s m => rw [h s (by simp)]
  case output s => exact h s (by simp)

theorem width_eq (p : Prog) (hsb : srcsBefore p) (n : ℕ) (hn : n < p.length) :
    (widths p).getD n 0 = widthStep (widths p) p[n] := by
  rw [widths_eq_scan, scan_getD _ _ n 0 hn]
  apply widthStep_congr
  intro s hs
  rw [← scan_take]
  exact getD_take_of_lt _ _ _ _ (hsb n hn s hs)

/-! ### the certificate -/

theorem labelsOK_of_compute (p : Prog) (l : List ℕ) (h : computeLabels p = some l) :
    labelsOK p l = true := by
  unfold computeLabels at h
  simp only at h
  split at h
  · rename_i hok; cases h; exact hok
  · cases h

theorem getOp_eq (p : Prog) (n : ℕ) (hn : n < p.length) : getOp p n = p[n] := by
  unfold getOp; simp [List.getD_eq_getElem?_getD, List.getElem?_eq_getElem hn]

/-- kept edges: into every node that neither defines nor concatenates features -/
theorem mem_keptEdges (p : Prog) (n s : ℕ) (hn : n < p.length)
    (hd : (p[n]).defining = false) (hc : (p[n]).isCat = false) (hs : s ∈ (p[n]).inputs) :
    (s, n) ∈ keptEdges p := by
  unfold keptEdges
  rw [List.mem_flatten]
  have hmem : (p[n], n) ∈ p.zipIdx := by
    rw [List.mem_zipIdx_iff_getElem?]; simp [List.getElem?_eq_getElem hn]
  cases hop : p[n] with
  | reuseDw s' o ls a =>
    rw [hop] at hs; simp only [Op.inputs, List.mem_singleton] at hs; subst hs
    refine ⟨[(s, n), (ls, s)], ?_, by simp⟩
    rw [List.mem_map]; exact ⟨(p[n], n), hmem, by rw [hop]⟩
  | _ =>
    refine ⟨(p[n]).inputs.map (·, n), ?_, ?_⟩
    · rw [List.mem_map]
      refine ⟨(p[n], n), hmem, ?_⟩
      rw [hop] at hd hc ⊢
      simp_all [Op.defining, Op.isCat]
    · rw [List.mem_map]; exact ⟨s, hs, rfl⟩

theorem label_eq_of_edge (p : Prog) (l : List ℕ) (hok : labelsOK p l = true) (n s : ℕ)
    (hn : n < p.length) (hd : (p[n]).defining = false) (hc : (p[n]).isCat = false)
    (hs : s ∈ (p[n]).inputs) : l.getD s 0 = l.getD n 0 := by
  unfold labelsOK at hok
  simp only [Bool.and_eq_true, List.all_eq_true, beq_iff_eq] at hok
  exact hok.1.1 (s, n) (mem_keptEdges p n s hn hd hc hs)

theorem ownMask_congr (p : Prog) (l : List ℕ) (α : ℕ → List Rat) (a b : ℕ)
    (h : l.getD a 0 = l.getD b 0) : ownMask p l α a = ownMask p l α b := by
  unfold ownMask; rw [h]

/-- the masker of the class of a network input is frozen and has the input's width -/
theorem ownMask_input (p : Prog) (l : List ℕ) (α : ℕ → List Rat) (hok : labelsOK p l = true)
    (hsb : srcsBefore p) (n c : ℕ) (hn : n < p.length) (hop : p[n] = .input c) :
    ownMask p l α n = List.replicate c true := by
  unfold labelsOK at hok
  simp only [Bool.and_eq_true, List.all_eq_true] at hok
  have h2 := hok.2 n (List.mem_range.mpr hn)
  rw [getOp_eq p n hn, hop] at h2
  simp only [Op.defining, Bool.not_true, Bool.false_or] at h2
  have hw : (widths p).getD n 0 = c := by rw [width_eq p hsb n hn, hop]; rfl
  unfold ownMask
  cases hg : groupOf p l (l.getD n 0) with
  | none => rw [hg] at h2; cases h2
  | some g =>
    rw [hg] at h2
    simp only [beq_iff_eq] at h2
    -- frozen: `n` itself is a member of the class and is an input
    have hfr : g.frozen = true := by
      unfold groupOf at hg
      simp only at hg
      split at hg
      · cases hg
      · cases hg
        simp only [List.any_eq_true]
        refine ⟨n, ?_, ?_⟩
        · unfold members; rw [List.mem_filter]; exact ⟨List.mem_range.mpr hn, by simp⟩
        · rw [getOp_eq p n hn, hop]; simp [Op.isInput]
    simp only
    unfold featMask
    rw [if_pos hfr, h2, hw]

/-- the class of an excluded convolution / linear layer is frozen and has that layer's width -/
theorem ownMask_fixed (p : Prog) (l : List ℕ) (α : ℕ → List Rat) (hok : labelsOK p l = true)
    (hsb : srcsBefore p) (n s c : ℕ) (a : LAttr) (i : Bool) (hn : n < p.length)
    (hop : p[n] = .fixed s c a i) : ownMask p l α n = List.replicate c true := by
  unfold labelsOK at hok
  simp only [Bool.and_eq_true, List.all_eq_true] at hok
  have h2 := hok.2 n (List.mem_range.mpr hn)
  rw [getOp_eq p n hn, hop] at h2
  simp only [Op.defining, Bool.not_true, Bool.false_or] at h2
  have hw : (widths p).getD n 0 = c := by rw [width_eq p hsb n hn, hop]; rfl
  unfold ownMask
  cases hg : groupOf p l (l.getD n 0) with
  | none => rw [hg] at h2; cases h2
  | some g =>
    rw [hg] at h2
    simp only [beq_iff_eq] at h2
    have hfr : g.frozen = true := by
      unfold groupOf at hg
      simp only at hg
      split at hg
      · cases hg
      · cases hg
        simp only [List.any_eq_true]
        refine ⟨n, ?_, ?_⟩
        · unfold members; rw [List.mem_filter]; exact ⟨List.mem_range.mpr hn, by simp⟩
        · rw [getOp_eq p n hn, hop]; simp [Op.excluded]
    simp only
    unfold featMask
    rw [if_pos hfr, h2, hw]

/-! ### features that reach an excluded layer or a network output are never pruned -/

theorem reach_closed (p : Prog) (l : List ℕ) (hok : labelsOK p l = true) (u t : ℕ) (hu : u < p.length)
    (ht : t ∈ (p[u]).inputs)
    (h : (p[u]).excluded = true ∨ (p[u]).isOutput = true ∨
      ((p[u]).defining = false ∧ (reachFixed p).getD u false = true)) :
    (reachFixed p).getD t false = true := by
  unfold labelsOK at hok
  simp only [Bool.and_eq_true] at hok
  have hc := hok.1.2
  unfold closedReach at hc
  simp only [List.all_eq_true] at hc
  have hmem : (p[u], u) ∈ p.zipIdx := by
    rw [List.mem_zipIdx_iff_getElem?]; simp [List.getElem?_eq_getElem hu]
  have := hc (p[u], u) hmem t ht
  simp only [Bool.or_eq_true, Bool.not_eq_true', Bool.or_eq_false_iff, Bool.and_eq_false_iff,
    Bool.and_eq_true] at this
  rcases this with h' | h'
  · exfalso
    rcases h with h | h | ⟨h1, h2⟩
    · rw [h] at h'; exact absurd h'.1.1 (by simp)
    · rw [h] at h'; exact absurd h'.1.2 (by simp)
    · rcases h'.2 with h3 | h3
      · rw [h1] at h3; simp at h3
      · rw [h2] at h3; simp at h3
  · exact h'

theorem allTrue_replicate (n : ℕ) : allTrue (List.replicate n true) := by
  unfold allTrue; simp

theorem allTrue_nil : allTrue ([] : List Bool) := rfl

theorem allTrue_iff (m : List Bool) : allTrue m ↔ ∀ b ∈ m, b = true := by
  unfold allTrue
  constructor
  · intro h b hb; rw [h] at hb; exact (List.mem_replicate.mp hb).2
  · intro h; exact List.eq_replicate_iff.mpr ⟨rfl, h⟩

theorem allTrue_flatten (ms : List (List Bool)) (h : ∀ m ∈ ms, allTrue m) : allTrue ms.flatten := by
  rw [allTrue_iff]
  intro b hb
  rw [List.mem_flatten] at hb
  obtain ⟨m, hm, hbm⟩ := hb
  exact (allTrue_iff m).mp (h m hm) b hbm

theorem allTrue_expand (m : List Bool) (k : ℕ) (h : allTrue m) : allTrue (expand m k) := by
  unfold expand
  apply allTrue_flatten
  intro x hx
  rw [List.mem_map] at hx
  obtain ⟨b, hb, rfl⟩ := hx
  rw [(allTrue_iff m).mp h b hb]
  exact allTrue_replicate k

/-- the masker of a class one of whose members is tied to an input, an output, an excluded layer
or reaches one is frozen: its mask is all ones (or there is no masker and no mask at all) -/
theorem ownMask_allTrue (p : Prog) (l : List ℕ) (α : ℕ → List Rat) (n : ℕ) (hn : n < p.length)
    (h : ((getOp p n).isInput || (getOp p n).isOutput || (getOp p n).excluded || feedsExcluded p n) = true) :
    allTrue (ownMask p l α n) := by
  unfold ownMask
  cases hg : groupOf p l (l.getD n 0) with
  | none => exact allTrue_nil
  | some g =>
    have hfr : g.frozen = true := by
      unfold groupOf at hg
      simp only at hg
      split at hg
      · cases hg
      · cases hg
        simp only [List.any_eq_true]
        refine ⟨n, ?_, h⟩
        unfold members; rw [List.mem_filter]; exact ⟨List.mem_range.mpr hn, by simp⟩
    simp only
    unfold featMask
    rw [if_pos hfr]
    exact allTrue_replicate _

/-- **whatever reaches an excluded layer or a network output is alive in full** -/
theorem reach_allTrue (p : Prog) (l : List ℕ) (α : ℕ → List Rat) (hok : labelsOK p l = true)
    (hws : wellShaped p = true) :
    ∀ n (hn : n < p.length), (reachFixed p).getD n false = true →
      allTrue ((aliveMasks p l α).getD n []) := by
  have hsb := srcsBefore_of_wellShaped p hws
  intro n
  induction n using Nat.strong_induction_on with
  | _ n ih =>
    intro hn hr
    rw [alive_eq p l α hsb n hn]
    have hown : allTrue (ownMask p l α n) :=
      ownMask_allTrue p l α n hn (by unfold feedsExcluded; rw [hr]; simp)
    -- a non-defining node hands the mark on to its operands
    have down : ∀ s ∈ (p[n]).inputs, (p[n]).defining = false →
        allTrue ((aliveMasks p l α).getD s []) := by
      intro s hs hd
      have hsn := hsb n hn s hs
      exact ih s hsn (by omega) (reach_closed p l hok n s hn hs (Or.inr (Or.inr ⟨hd, hr⟩)))
    cases hop : p[n] with
    | input c => simp only [maskStep]; exact allTrue_replicate c
    | conv s c a => simp only [maskStep]; exact hown
    | dw s a => simp only [maskStep]; exact hown
    | lin s c a => simp only [maskStep]; exact hown
    | fixed s c a i => simp only [maskStep]; exact allTrue_replicate c
    | fixedDw s a => simp only [maskStep]; exact down s (by rw [hop]; simp [Op.inputs]) (by rw [hop]; rfl)
    | chan s => simp only [maskStep]; exact down s (by rw [hop]; simp [Op.inputs]) (by rw [hop]; rfl)
    | add a b => simp only [maskStep]; exact down a (by rw [hop]; simp [Op.inputs]) (by rw [hop]; rfl)
    | cat ss =>
      simp only [maskStep]
      apply allTrue_flatten
      intro m hm
      rw [List.mem_map] at hm
      obtain ⟨s, hs, rfl⟩ := hm
      exact down s (by rw [hop]; simpa [Op.inputs] using hs) (by rw [hop]; rfl)
    | tcat ss =>
      simp only [maskStep]
      cases ss with
      | nil => exact allTrue_nil
      | cons s ss => exact down s (by rw [hop]; simp [Op.inputs]) (by rw [hop]; rfl)
    | flat s m =>
      simp only [maskStep]
      exact allTrue_expand _ _ (down s (by rw [hop]; simp [Op.inputs]) (by rw [hop]; rfl))
    | reuse s o ls c a => simp only [maskStep]; exact hown
    | reuseDw s o ls a => simp only [maskStep]; exact hown
    | output s => simp only [maskStep]; exact down s (by rw [hop]; simp [Op.inputs]) (by rw [hop]; rfl)

/-- the tensor feeding an excluded layer, and the tensor a network returns, are alive in full -/
theorem fixed_input_allTrue (p : Prog) (l : List ℕ) (α : ℕ → List Rat) (hok : labelsOK p l = true)
    (hws : wellShaped p = true) (n s : ℕ) (hn : n < p.length) (hs : s ∈ (p[n]).inputs)
    (h : (p[n]).excluded = true ∨ (p[n]).isOutput = true) :
    allTrue ((aliveMasks p l α).getD s []) := by
  have hsb := srcsBefore_of_wellShaped p hws
  have hsn := hsb n hn s hs
  refine reach_allTrue p l α hok hws s (by omega) (reach_closed p l hok n s hn hs ?_)
  rcases h with h | h
  · exact Or.inl h
  · exact Or.inr (Or.inl h)

/-! ### the sharing invariant -/

theorem supported_at (p : Prog) (h : supported p = true) (n : ℕ) (hn : n < p.length) :
    (match p[n] with
      | .add a b => !((tainted p).getD a false) && !((tainted p).getD b false)
      | .tcat ss => ss.all fun s => !((tainted p).getD s false)
      | .dw s _ => !((tainted p).getD s false)
      | .fixedDw s _ => !((tainted p).getD s false)
      | .reuse s _ ls _ _ => !((tainted p).getD s false) && !((tainted p).getD ls false)
      | .reuseDw s _ ls _ => !((tainted p).getD s false) && !((tainted p).getD ls false)
      | _ => true) = true := by
  unfold supported at h
  simp only [List.all_eq_true] at h
  exact h p[n] (List.getElem_mem hn)

theorem noExcluded_at (p : Prog) (h : noExcluded p = true) (n : ℕ) (hn : n < p.length) :
    (p[n]).excluded = false := by
  unfold noExcluded at h
  simp only [List.all_eq_true, Bool.not_eq_true'] at h
  exact h p[n] (List.getElem_mem hn)

theorem tcat_arity (p : Prog) (h : wellShaped p = true) (n : ℕ) (hn : n < p.length) (ss : List ℕ)
    (hop : p[n] = .tcat ss) : ss.length = 2 := by
  unfold wellShaped at h
  simp only [Bool.and_eq_true, List.all_eq_true] at h
  have := h.1.2 p[n] (List.getElem_mem hn)
  rw [hop] at this
  simp only [Bool.and_eq_true, beq_iff_eq] at this
  exact this.1

/-- **sharing invariant**: the alive mask of every untainted node is the mask of the masker of
its sharing component -/
theorem untainted_mask (p : Prog) (l : List ℕ) (α : ℕ → List Rat) (hok : labelsOK p l = true)
    (hws : wellShaped p = true) :
    ∀ n (hn : n < p.length), (tainted p).getD n false = false →
      (aliveMasks p l α).getD n [] = ownMask p l α n := by
  have hsb := srcsBefore_of_wellShaped p hws
  intro n
  induction n using Nat.strong_induction_on with
  | _ n ih =>
    intro hn ht
    have hal := alive_eq p l α hsb n hn
    have hta := taint_eq p hsb n hn
    rw [hta] at ht
    rw [hal]
    -- a propagating node whose single relevant source is `s`
    have prop : ∀ s, s ∈ (p[n]).inputs → (p[n]).defining = false → (p[n]).isCat = false →
        (tainted p).getD s false = false →
        (aliveMasks p l α).getD s [] = ownMask p l α n := by
      intro s hs hd hc hts
      have hsn := hsb n hn s hs
      rw [ih s hsn (by omega) hts]
      exact ownMask_congr p l α s n (label_eq_of_edge p l hok n s hn hd hc hs)
    cases hop : p[n] with
    | input c => simp only [maskStep]; exact (ownMask_input p l α hok hsb n c hn hop).symm
    | conv s c a => simp only [maskStep]
    | dw s a => simp only [maskStep]
    | lin s c a => simp only [maskStep]
    | fixed s c a i => simp only [maskStep]; exact (ownMask_fixed p l α hok hsb n s c a i hn hop).symm
    | fixedDw s a =>
      rw [hop] at ht; simp only [taintStep] at ht
      simp only [maskStep]
      exact prop s (by rw [hop]; simp [Op.inputs]) (by rw [hop]; rfl) (by rw [hop]; rfl) ht
    | chan s =>
      rw [hop] at ht; simp only [taintStep] at ht
      simp only [maskStep]
      exact prop s (by rw [hop]; simp [Op.inputs]) (by rw [hop]; rfl) (by rw [hop]; rfl) ht
    | add a b =>
      rw [hop] at ht; simp only [taintStep, Bool.or_eq_false_iff] at ht
      simp only [maskStep]
      exact prop a (by rw [hop]; simp [Op.inputs]) (by rw [hop]; rfl) (by rw [hop]; rfl) ht.1
    | cat ss => rw [hop] at ht; simp [taintStep] at ht
    | tcat ss =>
      rw [hop] at ht; simp only [taintStep] at ht
      simp only [maskStep]
      cases ss with
      | nil => have := tcat_arity p hws n hn [] hop; simp at this
      | cons s ss =>
        simp only [List.any_cons, Bool.or_eq_false_iff] at ht
        exact prop s (by rw [hop]; simp [Op.inputs]) (by rw [hop]; rfl) (by rw [hop]; rfl) ht.1
    | flat s m => rw [hop] at ht; simp [taintStep] at ht
    | reuse s o ls c a => simp only [maskStep]
    | reuseDw s o ls a => simp only [maskStep]
    | output s =>
      rw [hop] at ht; simp only [taintStep] at ht
      simp only [maskStep]
      exact prop s (by rw [hop]; simp [Op.inputs]) (by rw [hop]; rfl) (by rw [hop]; rfl) ht

/-! ### a layer invoked again -/

/-- the two extra edges of a layer invoked again: between its call sites, between its inputs -/
theorem mem_keptEdges_reuse (p : Prog) (n s o ls c : ℕ) (a : LAttr) (hn : n < p.length)
    (hop : p[n] = .reuse s o ls c a) : (o, n) ∈ keptEdges p ∧ (ls, s) ∈ keptEdges p := by
  unfold keptEdges
  have hmem : (p[n], n) ∈ p.zipIdx := by
    rw [List.mem_zipIdx_iff_getElem?]; simp [List.getElem?_eq_getElem hn]
  constructor <;>
  · rw [List.mem_flatten]
    refine ⟨[(o, n), (ls, s)], ?_, by simp⟩
    rw [List.mem_map]
    exact ⟨(p[n], n), hmem, by rw [hop]⟩

theorem reuse_labels (p : Prog) (l : List ℕ) (hok : labelsOK p l = true) (n s o ls c : ℕ) (a : LAttr)
    (hn : n < p.length) (hop : p[n] = .reuse s o ls c a) :
    l.getD o 0 = l.getD n 0 ∧ l.getD ls 0 = l.getD s 0 := by
  unfold labelsOK at hok
  simp only [Bool.and_eq_true, List.all_eq_true, beq_iff_eq] at hok
  obtain ⟨h1, h2⟩ := mem_keptEdges_reuse p n s o ls c a hn hop
  exact ⟨hok.1.1 (o, n) h1, hok.1.1 (ls, s) h2⟩

/-- what `wellShaped` says about a layer invoked again: the layer is an earlier searchable
conv / linear node applied to `ls` -/
theorem reuse_wf (p : Prog) (h : wellShaped p = true) (n s o ls c : ℕ) (a : LAttr) (hn : n < p.length)
    (hop : p[n] = .reuse s o ls c a) :
    o < n ∧ ls < o ∧ ((∃ a', getOp p o = .conv ls c a') ∨ (∃ a', getOp p o = .lin ls c a')) := by
  unfold wellShaped at h
  simp only [Bool.and_eq_true, List.all_eq_true] at h
  have hmem : (p[n], n) ∈ p.zipIdx := by
    rw [List.mem_zipIdx_iff_getElem?]; simp [List.getElem?_eq_getElem hn]
  have := h.2 (p[n], n) hmem
  rw [hop] at this
  simp only [Bool.and_eq_true, decide_eq_true_eq] at this
  obtain ⟨ho, hm⟩ := this
  cases hg : getOp p o with
  | conv s' c' a' =>
    rw [hg] at hm
    simp only [Bool.and_eq_true, beq_iff_eq, decide_eq_true_eq] at hm
    obtain ⟨⟨⟨h1, h2⟩, h3⟩, -⟩ := hm
    subst h1 h2
    exact ⟨ho, h3, Or.inl ⟨a', rfl⟩⟩
  | lin s' c' a' =>
    rw [hg] at hm
    simp only [Bool.and_eq_true, beq_iff_eq, decide_eq_true_eq] at hm
    obtain ⟨⟨⟨h1, h2⟩, h3⟩, -⟩ := hm
    subst h1 h2
    exact ⟨ho, h3, Or.inr ⟨a', rfl⟩⟩
  | _ => rw [hg] at hm; simp at hm

/-- a depthwise layer invoked again: the tensors at its two call sites are tied -/
theorem reuseDw_labels (p : Prog) (l : List ℕ) (hok : labelsOK p l = true) (n s o ls : ℕ) (a : LAttr)
    (hn : n < p.length) (hop : p[n] = .reuseDw s o ls a) : l.getD ls 0 = l.getD s 0 := by
  unfold labelsOK at hok
  simp only [Bool.and_eq_true, List.all_eq_true, beq_iff_eq] at hok
  refine hok.1.1 (ls, s) ?_
  unfold keptEdges
  rw [List.mem_flatten]
  refine ⟨[(s, n), (ls, s)], ?_, by simp⟩
  rw [List.mem_map]
  refine ⟨(p[n], n), ?_, by rw [hop]⟩
  rw [List.mem_zipIdx_iff_getElem?]; simp [List.getElem?_eq_getElem hn]

theorem reuseDw_wf (p : Prog) (h : wellShaped p = true) (n s o ls : ℕ) (a : LAttr) (hn : n < p.length)
    (hop : p[n] = .reuseDw s o ls a) : o < n ∧ ls < o ∧ ∃ a', getOp p o = .dw ls a' := by
  unfold wellShaped at h
  simp only [Bool.and_eq_true, List.all_eq_true] at h
  have hmem : (p[n], n) ∈ p.zipIdx := by
    rw [List.mem_zipIdx_iff_getElem?]; simp [List.getElem?_eq_getElem hn]
  have := h.2 (p[n], n) hmem
  rw [hop] at this
  simp only [Bool.and_eq_true, decide_eq_true_eq] at this
  obtain ⟨ho, hm⟩ := this
  cases hg : getOp p o with
  | dw s' a' =>
    rw [hg] at hm
    simp only [Bool.and_eq_true, beq_iff_eq, decide_eq_true_eq] at hm
    obtain ⟨⟨h1, h3⟩, -⟩ := hm
    subst h1
    exact ⟨ho, h3, a', rfl⟩
  | _ => rw [hg] at hm; simp at hm

/-! ### the bridge: bookkeeping masks are coherent -/

variable {V : Type} [AddCommMonoid V]

/-- zero-preservation of the maps of a semantics, and input widths -/
def SemOK (σ : Sem V) (ms : List (List Bool)) (inp : ℕ → List V) (x : Op × ℕ) : Prop :=
  match x.1 with
  | .input c => (inp x.2).length = c
  | .conv .. => ∀ co ci, σ.L x.2 co ci 0 = 0
  | .lin .. => ∀ co ci, σ.L x.2 co ci 0 = 0
  | .chan s => ∀ c, (gm ms s).getD c true = false → σ.g x.2 c 0 = 0
  | .add .. => σ.g2 x.2 0 0 = 0
  | .tcat _ => σ.g2 x.2 0 0 = 0
  | .flat .. => ∀ q, σ.sp x.2 q 0 = 0
  | .reuse _ o _ _ _ => ∀ co ci, σ.L o co ci 0 = 0
  | _ => True

/-- the masks the features calculators report are coherent at every node of a supported,
well-shaped program (exclusions included) whose labelling passes the certificate -/
theorem coherent_of_bookkeeping (σ : Sem V) (inp : ℕ → List V) (p : Prog) (l : List ℕ)
    (α : ℕ → List Rat) (hl : computeLabels p = some l) (hws : wellShaped p = true)
    (hsup : supported p = true)
    (hsem : ∀ n (hn : n < p.length), SemOK σ (aliveMasks p l α) inp (p[n], n)) :
    ∀ n (hn : n < p.length), Coherent σ (aliveMasks p l α) inp (p[n], n) := by
  have hok := labelsOK_of_compute p l hl
  have hsb := srcsBefore_of_wellShaped p hws
  have hum := untainted_mask p l α hok hws
  intro n hn
  have hal := alive_eq p l α hsb n hn
  have hs := hsem n hn
  have hsu := supported_at p hsup n hn
  have hin : ∀ s ∈ (p[n]).inputs, s < n := hsb n hn
  have hlab : ∀ s ∈ (p[n]).inputs, (p[n]).defining = false → (p[n]).isCat = false →
      l.getD s 0 = l.getD n 0 := fun s hs hd hc => label_eq_of_edge p l hok n s hn hd hc hs
  unfold Coherent gm
  cases hop : p[n] with
  | input c =>
    rw [hop] at hs hal
    simp only [SemOK] at hs
    simp only [maskStep] at hal
    exact ⟨hal, hs⟩
  | conv s c a =>
    rw [hop] at hs hin; simp only [SemOK] at hs
    exact ⟨hin s (by simp [Op.inputs]), hs⟩
  | lin s c a =>
    rw [hop] at hs hin; simp only [SemOK] at hs
    exact ⟨hin s (by simp [Op.inputs]), hs⟩
  | dw s a =>
    rw [hop] at hsu hin hal hlab
    simp only [Bool.not_eq_true'] at hsu
    have hsn := hin s (by simp [Op.inputs])
    simp only [maskStep] at hal
    refine ⟨hsn, ?_⟩
    rw [hal, hum s (by omega) hsu]
    exact (ownMask_congr p l α s n (hlab s (by simp [Op.inputs]) rfl rfl)).symm
  | fixed s c a i =>
    have hat := fixed_input_allTrue p l α hok hws n s hn (by rw [hop]; simp [Op.inputs])
      (Or.inl (by rw [hop]; rfl))
    rw [hop] at hin hal
    simp only [maskStep] at hal
    exact ⟨hin s (by simp [Op.inputs]), hal, hat⟩
  | fixedDw s a =>
    have hat := fixed_input_allTrue p l α hok hws n s hn (by rw [hop]; simp [Op.inputs])
      (Or.inl (by rw [hop]; rfl))
    rw [hop] at hin hal
    simp only [maskStep] at hal
    exact ⟨hin s (by simp [Op.inputs]), hal, hat⟩
  | chan s =>
    rw [hop] at hs hin hal; simp only [SemOK] at hs
    simp only [maskStep] at hal
    exact ⟨hin s (by simp [Op.inputs]), hal, hs⟩
  | add a b =>
    rw [hop] at hs hin hal hsu hlab; simp only [SemOK] at hs
    simp only [maskStep] at hal
    simp only [Bool.and_eq_true, Bool.not_eq_true'] at hsu
    have han := hin a (by simp [Op.inputs])
    have hbn := hin b (by simp [Op.inputs])
    refine ⟨han, hbn, hal, ?_, hs⟩
    rw [hum a (by omega) hsu.1, hum b (by omega) hsu.2]
    apply ownMask_congr
    rw [hlab a (by simp [Op.inputs]) rfl rfl, hlab b (by simp [Op.inputs]) rfl rfl]
  | tcat ss =>
    have har := tcat_arity p hws n hn ss hop
    rw [hop] at hs hin hal hsu hlab; simp only [SemOK] at hs
    match ss, har with
    | [a, b], _ =>
      simp only [maskStep] at hal
      simp only [List.all_cons, List.all_nil, Bool.and_true, Bool.and_eq_true, Bool.not_eq_true'] at hsu
      have han := hin a (by simp [Op.inputs])
      have hbn := hin b (by simp [Op.inputs])
      refine ⟨rfl, by simpa using han, by simpa using hbn, by simpa using hal, ?_, hs⟩
      simp only [List.headD_cons, List.getD_cons_succ, List.getD_cons_zero]
      rw [hum a (by omega) hsu.1, hum b (by omega) hsu.2]
      apply ownMask_congr
      rw [hlab a (by simp [Op.inputs]) rfl rfl, hlab b (by simp [Op.inputs]) rfl rfl]
  | cat ss =>
    rw [hop] at hin hal
    simp only [maskStep] at hal
    exact ⟨fun s hs => hin s (by simpa [Op.inputs] using hs), hal⟩
  | flat s m =>
    rw [hop] at hs hin hal; simp only [SemOK] at hs
    simp only [maskStep] at hal
    exact ⟨hin s (by simp [Op.inputs]), hal, hs⟩
  | reuse s o ls c a =>
    obtain ⟨hon, hlso, hkind⟩ := reuse_wf p hws n s o ls c a hn hop
    obtain ⟨hlo, hlls⟩ := reuse_labels p l hok n s o ls c a hn hop
    rw [hop] at hs hin hal hsu; simp only [SemOK] at hs
    simp only [maskStep] at hal
    simp only [Bool.and_eq_true, Bool.not_eq_true'] at hsu
    have hsn := hin s (by simp [Op.inputs])
    have hol : o < p.length := by omega
    have halo : (aliveMasks p l α).getD o [] = ownMask p l α o := by
      rw [alive_eq p l α hsb o hol]
      rcases hkind with ⟨a', hg⟩ | ⟨a', hg⟩ <;>
      · rw [getOp_eq p o hol] at hg; rw [hg]; rfl
    refine ⟨hsn, ?_, ?_, hs⟩
    · rw [hal, halo]; exact (ownMask_congr p l α o n hlo).symm
    · rw [hum s (by omega) hsu.1, hum ls (by omega) hsu.2]
      exact (ownMask_congr p l α ls s hlls).symm
  | reuseDw s o ls a =>
    obtain ⟨hon, hlso, a', hg⟩ := reuseDw_wf p hws n s o ls a hn hop
    have hls := reuseDw_labels p l hok n s o ls a hn hop
    rw [hop] at hin hal hsu hlab
    simp only [maskStep] at hal
    simp only [Bool.and_eq_true, Bool.not_eq_true'] at hsu
    have hsn := hin s (by simp [Op.inputs])
    have hol : o < p.length := by omega
    have hg' : p[o] = .dw ls a' := by rw [← getOp_eq p o hol]; exact hg
    have halo : (aliveMasks p l α).getD o [] = ownMask p l α o := by
      rw [alive_eq p l α hsb o hol, hg']; rfl
    have hlo : l.getD ls 0 = l.getD o 0 :=
      label_eq_of_edge p l hok o ls hol (by rw [hg']; rfl) (by rw [hg']; rfl) (by rw [hg']; simp [Op.inputs])
    have hsnl : l.getD s 0 = l.getD n 0 := hlab s (by simp [Op.inputs]) rfl rfl
    refine ⟨hsn, ?_, ?_⟩
    · rw [hal, hum s (by omega) hsu.1]; exact (ownMask_congr p l α s n hsnl).symm
    · rw [hal, halo]; apply ownMask_congr; rw [← hsnl, ← hls, hlo]
  | output s =>
    rw [hop] at hin hal
    simp only [maskStep] at hal
    exact ⟨hin s (by simp [Op.inputs]), hal⟩

end PlinioVerif.PIT
