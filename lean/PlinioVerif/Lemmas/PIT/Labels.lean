import PlinioVerif.Lemmas.PIT.Sharing
/-!
# The certified labelling is *exactly* the connected components of the sharing graph

`labelsOK` certifies one direction (equal labels across every kept edge, hence across every path).
Here the other direction is proved for the labelling `computeLabels` actually computes (min-label
propagation): the label of a node is always the index of a node connected to it, so two nodes with
the same label are connected.  Together: for every program whose labelling is accepted, two nodes
share a masker-class **iff** they are connected in the sharing graph — the classes are neither finer
nor coarser than `nx.weakly_connected_components` of `build_shared_features_map`.
-/
namespace PlinioVerif.PIT

/-- connectivity in the (undirected) sharing graph -/
inductive Conn (es : List (ℕ × ℕ)) : ℕ → ℕ → Prop
  | refl (n : ℕ) : Conn es n n
  | edge {a b : ℕ} : (a, b) ∈ es → Conn es a b
  | symm {a b : ℕ} : Conn es a b → Conn es b a
  | trans {a b c : ℕ} : Conn es a b → Conn es b c → Conn es a c

/-- every label names a node connected to the labelled node -/
def LabelInv (es : List (ℕ × ℕ)) (l : List ℕ) : Prop :=
  ∀ n, n < l.length → Conn es (l.getD n 0) n

theorem getD_set_eq {α : Type} (l : List α) (i : ℕ) (v d : α) (h : i < l.length) :
    (l.set i v).getD i d = v := by
  simp [List.getD_eq_getElem?_getD, List.getElem?_set_self h]

theorem getD_set_ne {α : Type} (l : List α) (i j : ℕ) (v d : α) (h : i ≠ j) :
    (l.set i v).getD j d = l.getD j d := by
  simp [List.getD_eq_getElem?_getD, List.getElem?_set_ne h]

/-- one relabelling step keeps the invariant when the edge is an edge of the graph, in range -/
theorem labelInv_step (es : List (ℕ × ℕ)) (l : List ℕ) (i n : ℕ) (he : (i, n) ∈ es)
    (hi : i < l.length) (hn : n < l.length) (h : LabelInv es l) :
    LabelInv es ((l.set i (min (l.getD i 0) (l.getD n 0))).set n (min (l.getD i 0) (l.getD n 0))) := by
  intro k hk
  simp only [List.length_set] at hk
  have hci : Conn es (l.getD i 0) i := h i hi
  have hcn : Conn es (l.getD n 0) n := h n hn
  have hin : Conn es i n := Conn.edge he
  -- the new common label is connected to both endpoints
  have hm : Conn es (min (l.getD i 0) (l.getD n 0)) i ∧ Conn es (min (l.getD i 0) (l.getD n 0)) n := by
    rcases Nat.le_total (l.getD i 0) (l.getD n 0) with hle | hle
    · rw [Nat.min_eq_left hle]; exact ⟨hci, Conn.trans hci hin⟩
    · rw [Nat.min_eq_right hle]; exact ⟨Conn.trans hcn (Conn.symm hin), hcn⟩
  by_cases hkn : k = n
  · subst hkn
    rw [getD_set_eq _ _ _ _ (by simp only [List.length_set]; exact hn)]
    exact hm.2
  · rw [getD_set_ne _ _ _ _ _ (fun e => hkn e.symm)]
    by_cases hki : k = i
    · subst hki
      rw [getD_set_eq _ _ _ _ hi]
      exact hm.1
    · rw [getD_set_ne _ _ _ _ _ (fun e => hki e.symm)]
      exact h k hk

theorem relabel_length (es : List (ℕ × ℕ)) (l : List ℕ) : (relabel es l).length = l.length := by
  unfold relabel
  induction es generalizing l with
  | nil => rfl
  | cons e es ih => simp only [List.foldl_cons]; rw [ih]; simp

/-- a whole round of relabelling keeps the invariant -/
theorem labelInv_relabel (es sub : List (ℕ × ℕ)) (l : List ℕ) (hsub : ∀ e ∈ sub, e ∈ es)
    (hr : ∀ e ∈ sub, e.1 < l.length ∧ e.2 < l.length) (h : LabelInv es l) :
    LabelInv es (relabel sub l) := by
  unfold relabel
  induction sub generalizing l with
  | nil => exact h
  | cons e sub ih =>
    simp only [List.foldl_cons]
    obtain ⟨i, n⟩ := e
    have hin := hr (i, n) (by simp)
    apply ih
    · intro e' he'; exact hsub e' (by simp [he'])
    · intro e' he'
      have := hr e' (by simp [he'])
      simpa using this
    · exact labelInv_step es l i n (hsub (i, n) (by simp)) hin.1 hin.2 h

theorem labelInv_rounds (es : List (ℕ × ℕ)) (k : ℕ) (l : List ℕ)
    (hr : ∀ e ∈ es, e.1 < l.length ∧ e.2 < l.length) (h : LabelInv es l) :
    LabelInv es ((List.range k).foldl (fun l _ => relabel es l) l) ∧
    ((List.range k).foldl (fun l _ => relabel es l) l).length = l.length := by
  induction k with
  | zero => exact ⟨h, rfl⟩
  | succ k ih =>
    rw [List.range_succ, List.foldl_append]
    simp only [List.foldl_cons, List.foldl_nil]
    obtain ⟨h1, h2⟩ := ih
    refine ⟨labelInv_relabel es es _ (fun e he => he) ?_ h1, by rw [relabel_length, h2]⟩
    intro e he; rw [h2]; exact hr e he

theorem labelInv_init (es : List (ℕ × ℕ)) (n : ℕ) : LabelInv es (List.range n) := by
  intro k hk
  simp only [List.length_range] at hk
  have : (List.range n).getD k 0 = k := by
    simp [List.getD_eq_getElem?_getD, List.getElem?_range hk]
  rw [this]; exact Conn.refl k

/-- equal labels across every edge ⇒ equal labels across every path -/
theorem label_eq_of_conn (es : List (ℕ × ℕ)) (l : List ℕ)
    (hok : ∀ e ∈ es, l.getD e.1 0 = l.getD e.2 0) {a b : ℕ} (h : Conn es a b) :
    l.getD a 0 = l.getD b 0 := by
  induction h with
  | refl n => rfl
  | edge he => exact hok _ he
  | symm _ ih => exact ih.symm
  | trans _ _ ih1 ih2 => exact ih1.trans ih2

/-- **the classes of an accepted labelling are exactly the connected components** (for programs
whose kept edges stay inside the program, which `wellShaped` guarantees) -/
theorem labels_eq_iff_conn (p : Prog) (l : List ℕ) (hl : computeLabels p = some l)
    (hr : ∀ e ∈ keptEdges p, e.1 < p.length ∧ e.2 < p.length) (a b : ℕ) (ha : a < p.length)
    (hb : b < p.length) :
    l.getD a 0 = l.getD b 0 ↔ Conn (keptEdges p) a b := by
  have hok := labelsOK_of_compute p l hl
  constructor
  · intro hab
    -- `l` is the result of the propagation rounds
    have hl' : l = (List.range p.length).foldl (fun l _ => relabel (keptEdges p) l) (List.range p.length) := by
      unfold computeLabels at hl
      simp only at hl
      split at hl
      · cases hl; rfl
      · cases hl
    obtain ⟨hinv, hlen⟩ := labelInv_rounds (keptEdges p) p.length (List.range p.length)
      (by intro e he; simpa using hr e he) (labelInv_init _ _)
    rw [← hl'] at hinv hlen
    simp only [List.length_range] at hlen
    have h1 := hinv a (by omega)
    have h2 := hinv b (by omega)
    rw [hab] at h1
    exact Conn.trans (Conn.symm h1) h2
  · intro hc
    apply label_eq_of_conn (keptEdges p) l _ hc
    unfold labelsOK at hok
    simp only [Bool.and_eq_true, List.all_eq_true, beq_iff_eq] at hok
    intro e he
    exact hok.1.1 e he

end PlinioVerif.PIT

namespace PlinioVerif.PIT

/-- the kept edges of a well-shaped program stay inside the program -/
theorem keptEdges_inRange (p : Prog) (hws : wellShaped p = true) :
    ∀ e ∈ keptEdges p, e.1 < p.length ∧ e.2 < p.length := by
  have hsb := srcsBefore_of_wellShaped p hws
  intro e he
  unfold keptEdges at he
  rw [List.mem_flatten] at he
  obtain ⟨es, hes, hmem⟩ := he
  rw [List.mem_map] at hes
  obtain ⟨⟨op, n⟩, hx, rfl⟩ := hes
  rw [List.mem_zipIdx_iff_getElem?] at hx
  simp only [Nat.zero_add, Nat.sub_zero] at hx
  have hn : n < p.length := by
    by_contra hge
    rw [List.getElem?_eq_none (by omega)] at hx
    simp at hx
  have hop : p[n] = op := by
    rw [List.getElem?_eq_getElem hn] at hx
    simpa using hx
  cases op with
  | reuse s o ls c a =>
    obtain ⟨hon, hlso, -⟩ := reuse_wf p hws n s o ls c a hn hop
    have hsn := hsb n hn s (by rw [hop]; simp [Op.inputs])
    simp only [List.mem_cons, List.mem_nil_iff, or_false] at hmem
    rcases hmem with rfl | rfl
    · exact ⟨by simp only; omega, hn⟩
    · exact ⟨by simp only; omega, by simp only; omega⟩
  | reuseDw s o ls a =>
    obtain ⟨hon, hlso, -⟩ := reuseDw_wf p hws n s o ls a hn hop
    have hsn := hsb n hn s (by rw [hop]; simp [Op.inputs])
    simp only [List.mem_cons, List.mem_nil_iff, or_false] at hmem
    rcases hmem with rfl | rfl
    · exact ⟨by simp only; omega, hn⟩
    · exact ⟨by simp only; omega, by simp only; omega⟩
  | _ =>
    simp only at hmem
    split at hmem
    · simp at hmem
    · rw [List.mem_map] at hmem
      obtain ⟨s, hs, rfl⟩ := hmem
      have hsn := hsb n hn s (by rw [hop]; exact hs)
      exact ⟨by simp only; omega, hn⟩

/-- for every well-shaped program with an accepted labelling: same class ⇔ connected -/
theorem classes_are_components (p : Prog) (l : List ℕ) (hl : computeLabels p = some l)
    (hws : wellShaped p = true) (a b : ℕ) (ha : a < p.length) (hb : b < p.length) :
    l.getD a 0 = l.getD b 0 ↔ Conn (keptEdges p) a b :=
  labels_eq_iff_conn p l hl (keptEdges_inRange p hws) a b ha hb

end PlinioVerif.PIT
