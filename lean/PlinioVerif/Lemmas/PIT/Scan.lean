import Mathlib.Data.List.Induction
/-! Generic lemmas about the "append one result per element" fold used by the network models. -/
namespace PlinioVerif

/-- `scan g l` = results of processing `l` left to right, each step seeing the earlier results -/
def scan {α β : Type} (g : List β → α → β) (l : List α) : List β :=
  l.foldl (fun acc x => acc ++ [g acc x]) []

theorem foldl_scan_append {α β : Type} (g : List β → α → β) (l : List α) (x : α) (acc : List β) :
    (l ++ [x]).foldl (fun acc x => acc ++ [g acc x]) acc =
      l.foldl (fun acc x => acc ++ [g acc x]) acc ++
        [g (l.foldl (fun acc x => acc ++ [g acc x]) acc) x] := by
  rw [List.foldl_append]; rfl

theorem scan_snoc {α β : Type} (g : List β → α → β) (l : List α) (x : α) :
    scan g (l ++ [x]) = scan g l ++ [g (scan g l) x] := foldl_scan_append g l x []

theorem scan_length {α β : Type} (g : List β → α → β) (l : List α) : (scan g l).length = l.length := by
  induction l using List.reverseRecOn with
  | nil => rfl
  | append_singleton l x ih => rw [scan_snoc]; simp [ih]

theorem scan_take {α β : Type} (g : List β → α → β) (l : List α) (n : Nat) :
    (scan g l).take n = scan g (l.take n) := by
  induction l using List.reverseRecOn with
  | nil => simp [scan]
  | append_singleton l x ih =>
    rw [scan_snoc]
    by_cases h : n ≤ l.length
    · rw [List.take_append_of_le_length (by rw [scan_length]; exact h),
        List.take_append_of_le_length h, ih]
    · have h1 : l.length + 1 ≤ n := by omega
      rw [List.take_of_length_le (by simp [scan_length]; omega),
        List.take_of_length_le (by simp; omega), scan_snoc]

/-- the `n`-th result is computed from the `n`-th element and the results of the first `n` -/
theorem scan_getD {α β : Type} (g : List β → α → β) (l : List α) (n : Nat) (d : β)
    (hn : n < l.length) : (scan g l).getD n d = g (scan g (l.take n)) l[n] := by
  have h1 : l.take (n + 1) = l.take n ++ [l[n]] := by
    rw [List.take_succ_eq_append_getElem hn]
  have h2 : (scan g l).take (n + 1) = scan g (l.take n) ++ [g (scan g (l.take n)) l[n]] := by
    rw [scan_take, h1, scan_snoc]
  have h3 : ((scan g l).take (n + 1)).getD n d = (scan g l).getD n d := by
    simp [List.getD_eq_getElem?_getD, List.getElem?_take]
  rw [← h3, h2]
  have : n = (scan g (l.take n)).length := by rw [scan_length]; simp; omega
  simp [List.getD_eq_getElem?_getD, ← this]

end PlinioVerif
