import PlinioVerif.Model.PIT.Net
import PlinioVerif.Model.PIT.Parse   -- request syntax of the drivers (built with the library)
import PlinioVerif.Lemmas.PIT.Compress
/-!
# Network-level export equivalence over SSA programs (C01, C09)

Abstract semantics of the PIT grammar: a tensor is the list of its per-channel values in an
arbitrary additive monoid `V` (a channel value is a whole time series / image); a convolution or
linear layer is a family `L co ci : V → V` of zero-preserving maps plus a bias and an arbitrary
per-channel post-map (the BatchNorm kept as a sub-layer); element-wise ops, pooling and zero
padding are zero-preserving per-channel maps.  `pitStep` is the masked (searched) network in
eval mode, `expStep` the network `export` builds: every layer restricted to the alive output
channels and to the alive channels of the tensor feeding it.

`export_equiv`: for every program whose masks are *coherent* (what the features calculators and
the mask sharing must deliver — proved from the bookkeeping model in `Sharing.lean`) every node
of the exported network is the restriction of the PIT network's node to its alive channels, and
the dead channels of the PIT network are exactly zero.
-/
namespace PlinioVerif.PIT

variable {V : Type} [AddCommMonoid V]

/-- abstract semantics of the layers of a program, indexed by node -/
structure Sem (V : Type) where
  L : ℕ → ℕ → ℕ → V → V       -- node, out channel, in channel: contribution of one input channel
  b : ℕ → ℕ → V               -- node, out channel: bias
  post : ℕ → ℕ → V → V        -- node, out channel: fused BatchNorm (any map)
  D : ℕ → ℕ → V → V           -- depthwise: node, channel
  g : ℕ → ℕ → V → V           -- node, channel: element-wise op / pooling / zero padding / standalone per-channel affine map
  g2 : ℕ → V → V → V          -- residual sum / concatenation along a non-feature axis
  sp : ℕ → ℕ → V → V          -- flatten at a node: position, channel value ↦ that component

def gm (ms : List (List Bool)) (n : ℕ) : List Bool := ms.getD n []
def gv (vs : List (List V)) (n : ℕ) : List V := vs.getD n []

/-- value of node `x.2` of the PIT (masked) network from the values of the earlier nodes -/
def pitStep (σ : Sem V) (ms : List (List Bool)) (inp : ℕ → List V) (vp : List (List V))
    (x : Op × ℕ) : List V :=
  let n := x.2
  match x.1 with
  | .input _ => inp n
  | .conv s _ _ => maskedLayer (fun co => σ.post n co (σ.b n co + mix (σ.L n co) 0 (gv vp s))) 0 (gm ms n)
  | .lin s _ _ => maskedLayer (fun co => σ.post n co (σ.b n co + mix (σ.L n co) 0 (gv vp s))) 0 (gm ms n)
  | .dw s _ => maskedDw (fun c v => σ.post n c (σ.b n c + σ.D n c v)) 0 (gm ms n) (gv vp s)
  | .fixed s c _ _ =>
      maskedLayer (fun co => σ.post n co (σ.b n co + mix (σ.L n co) 0 (gv vp s))) 0 (List.replicate c true)
  | .fixedDw s _ => maskedDw (fun c v => σ.post n c (σ.b n c + σ.D n c v)) 0 (gm ms s) (gv vp s)
  | .chan s => List.zipWith (σ.g n) (idxFrom 0 (gv vp s).length) (gv vp s)
  | .add a b => List.zipWith (σ.g2 n) (gv vp a) (gv vp b)
  | .tcat ss => List.zipWith (σ.g2 n) (gv vp (ss.headD 0)) (gv vp (ss.getD 1 0))
  | .cat ss => (ss.map (gv vp)).flatten
  | .flat s m => ((gv vp s).map fun v => (List.range m).map fun p => σ.sp n p v).flatten
  | .reuse s o _ _ _ =>   -- the layer of node `o` (its weights, bias, BatchNorm) applied to `s`
      maskedLayer (fun co => σ.post o co (σ.b o co + mix (σ.L o co) 0 (gv vp s))) 0 (gm ms n)
  | .reuseDw s o _ _ => maskedDw (fun c v => σ.post o c (σ.b o c + σ.D o c v)) 0 (gm ms n) (gv vp s)
  | .output s => gv vp s

/-- value of node `x.2` of the exported network -/
def expStep (σ : Sem V) (ms : List (List Bool)) (inp : ℕ → List V) (ve : List (List V))
    (x : Op × ℕ) : List V :=
  let n := x.2
  match x.1 with
  | .input _ => inp n
  | .conv s _ _ =>
      (compress (gm ms n) (idxFrom 0 (gm ms n).length)).map fun co =>
        σ.post n co (σ.b n co + mixIdx (σ.L n co) (compress (gm ms s) (idxFrom 0 (gm ms s).length)) (gv ve s))
  | .lin s _ _ =>
      (compress (gm ms n) (idxFrom 0 (gm ms n).length)).map fun co =>
        σ.post n co (σ.b n co + mixIdx (σ.L n co) (compress (gm ms s) (idxFrom 0 (gm ms s).length)) (gv ve s))
  | .dw s _ =>
      List.zipWith (fun c v => σ.post n c (σ.b n c + σ.D n c v))
        (compress (gm ms n) (idxFrom 0 (gm ms n).length)) (gv ve s)
  | .fixed s c _ _ =>
      (idxFrom 0 c).map fun co => σ.post n co (σ.b n co + mix (σ.L n co) 0 (gv ve s))
  | .fixedDw s _ =>
      List.zipWith (fun c v => σ.post n c (σ.b n c + σ.D n c v)) (idxFrom 0 (gv ve s).length) (gv ve s)
  | .chan s => List.zipWith (σ.g n) (compress (gm ms s) (idxFrom 0 (gm ms s).length)) (gv ve s)
  | .add a b => List.zipWith (σ.g2 n) (gv ve a) (gv ve b)
  | .tcat ss => List.zipWith (σ.g2 n) (gv ve (ss.headD 0)) (gv ve (ss.getD 1 0))
  | .cat ss => (ss.map (gv ve)).flatten
  | .flat s m => ((gv ve s).map fun v => (List.range m).map fun p => σ.sp n p v).flatten
  | .reuse s o ls _ _ =>  -- the *one* exported layer of node `o`: sliced by the masks of `o` and of its input `ls`
      (compress (gm ms o) (idxFrom 0 (gm ms o).length)).map fun co =>
        σ.post o co (σ.b o co + mixIdx (σ.L o co) (compress (gm ms ls) (idxFrom 0 (gm ms ls).length)) (gv ve s))
  | .reuseDw s o _ _ =>   -- the one exported depthwise layer of node `o`
      List.zipWith (fun c v => σ.post o c (σ.b o c + σ.D o c v))
        (compress (gm ms o) (idxFrom 0 (gm ms o).length)) (gv ve s)
  | .output s => gv ve s

def allTrue (m : List Bool) : Prop := m = List.replicate m.length true

/-- what the features calculators and the mask sharing must deliver at node `x.2`, and the
zero-preservation of the maps involved -/
def Coherent (σ : Sem V) (ms : List (List Bool)) (inp : ℕ → List V) (x : Op × ℕ) : Prop :=
  let n := x.2
  match x.1 with
  | .input c => gm ms n = List.replicate c true ∧ (inp n).length = c
  | .conv s _ _ => s < n ∧ ∀ co ci, σ.L n co ci 0 = 0
  | .lin s _ _ => s < n ∧ ∀ co ci, σ.L n co ci 0 = 0
  | .dw s _ => s < n ∧ gm ms n = gm ms s
  | .fixed s c _ _ => s < n ∧ gm ms n = List.replicate c true ∧ allTrue (gm ms s)
  | .fixedDw s _ => s < n ∧ gm ms n = gm ms s ∧ allTrue (gm ms s)
  | .chan s => s < n ∧ gm ms n = gm ms s ∧ ∀ c, (gm ms s).getD c true = false → σ.g n c 0 = 0
  | .add a b => a < n ∧ b < n ∧ gm ms n = gm ms a ∧ gm ms a = gm ms b ∧ σ.g2 n 0 0 = 0
  | .tcat ss => ss.length = 2 ∧ ss.headD 0 < n ∧ ss.getD 1 0 < n ∧ gm ms n = gm ms (ss.headD 0) ∧
      gm ms (ss.headD 0) = gm ms (ss.getD 1 0) ∧ σ.g2 n 0 0 = 0
  | .cat ss => (∀ s ∈ ss, s < n) ∧ gm ms n = (ss.map (gm ms)).flatten
  | .flat s m => s < n ∧ gm ms n = expand (gm ms s) m ∧ ∀ p, σ.sp n p 0 = 0
  | .reuse s o ls _ _ => s < n ∧ gm ms n = gm ms o ∧ gm ms s = gm ms ls ∧ ∀ co ci, σ.L o co ci 0 = 0
  | .reuseDw s o _ _ => s < n ∧ gm ms n = gm ms s ∧ gm ms n = gm ms o
  | .output s => s < n ∧ gm ms n = gm ms s

/-- invariant tying the two runs together on the first `k` nodes -/
def NetInv (ms : List (List Bool)) (vp ve : List (List V)) (k : ℕ) : Prop :=
  vp.length = k ∧ ve.length = k ∧
  ∀ n < k, (gm ms n).length = (gv vp n).length ∧ DeadZero (gm ms n) (gv vp n) ∧
    gv ve n = compress (gm ms n) (gv vp n)

theorem getD_append_last {α : Type} (l : List α) (x d : α) : (l ++ [x]).getD l.length d = x := by
  simp [List.getD]

theorem getD_append_lt {α : Type} (l : List α) (x d : α) (n : ℕ) (h : n < l.length) :
    (l ++ [x]).getD n d = l.getD n d := by
  simp [List.getD, List.getElem?_append_left h]

theorem allTrue_compress {α : Type} (m : List Bool) (xs : List α) (h : allTrue m)
    (hl : m.length = xs.length) : compress m xs = xs := by
  rw [h, hl]; exact compress_all_true xs

theorem idxFrom_length (k n : ℕ) : (idxFrom k n).length = n := by
  induction n generalizing k with
  | zero => rfl
  | succ n ih => simp [idxFrom, ih]

theorem maskedLayer_all_true (f : ℕ → V) (k c : ℕ) :
    maskedLayer f k (List.replicate c true) = (idxFrom k c).map f := by
  induction c generalizing k with
  | zero => rfl
  | succ c ih => simp [List.replicate_succ, maskedLayer, idxFrom, ih]

theorem maskedDw_all_true (f : ℕ → V → V) (k : ℕ) (xs : List V) :
    maskedDw f k (List.replicate xs.length true) xs = List.zipWith f (idxFrom k xs.length) xs := by
  induction xs generalizing k with
  | nil => rfl
  | cons x xs ih => simp [List.replicate_succ, maskedDw, idxFrom, ih]

theorem step_inv (σ : Sem V) (ms : List (List Bool)) (inp : ℕ → List V) (vp ve : List (List V))
    (op : Op) (k : ℕ) (hinv : NetInv ms vp ve k) (hok : Coherent σ ms inp (op, k)) :
    NetInv ms (vp ++ [pitStep σ ms inp vp (op, k)]) (ve ++ [expStep σ ms inp ve (op, k)]) (k + 1) := by
  obtain ⟨hl1, hl2, hall⟩ := hinv
  -- it suffices to establish the three facts for the new node
  have key : ∀ (pN eN : List V),
      (gm ms k).length = pN.length → DeadZero (gm ms k) pN → eN = compress (gm ms k) pN →
      NetInv ms (vp ++ [pN]) (ve ++ [eN]) (k + 1) := by
    intro pN eN h1 h2 h3
    refine ⟨by simp [hl1], by simp [hl2], ?_⟩
    intro n hn
    by_cases hlt : n < k
    · unfold gv
      rw [getD_append_lt _ _ _ _ (hl1 ▸ hlt), getD_append_lt _ _ _ _ (hl2 ▸ hlt)]
      exact hall n hlt
    · have : n = k := by omega
      subst this
      unfold gv
      have e1 : (vp ++ [pN]).getD n [] = pN := by rw [← hl1]; exact getD_append_last _ _ _
      have e2 : (ve ++ [eN]).getD n [] = eN := by rw [← hl2]; exact getD_append_last _ _ _
      rw [e1, e2]
      exact ⟨h1, h2, h3⟩
  cases op with
  | input c =>
    obtain ⟨hm, hlen⟩ := hok
    apply key
    · simp only [pitStep]; rw [hm, hlen]; simp
    · simp only [pitStep]; rw [hm, ← hlen]; exact deadZero_all_true _
    · simp only [expStep, pitStep]; rw [hm, ← hlen]; exact (compress_all_true _).symm
  | conv s cout a =>
    obtain ⟨hs, hL⟩ := hok
    obtain ⟨hlen, hdz, hve⟩ := hall s hs
    apply key
    · simp only [pitStep]; rw [length_maskedLayer]
    · simp only [pitStep]; exact deadZero_maskedLayer _ _ 0
    · simp only [expStep, pitStep]
      rw [compress_maskedLayer]
      apply List.map_congr_left
      intro co _
      rw [hve, mix_compress (σ.L k co) (hL co) _ _ 0 hlen hdz, hlen]
  | lin s cout a =>
    obtain ⟨hs, hL⟩ := hok
    obtain ⟨hlen, hdz, hve⟩ := hall s hs
    apply key
    · simp only [pitStep]; rw [length_maskedLayer]
    · simp only [pitStep]; exact deadZero_maskedLayer _ _ 0
    · simp only [expStep, pitStep]
      rw [compress_maskedLayer]
      apply List.map_congr_left
      intro co _
      rw [hve, mix_compress (σ.L k co) (hL co) _ _ 0 hlen hdz, hlen]
  | dw s a =>
    obtain ⟨hs, hm⟩ := hok
    obtain ⟨hlen, hdz, hve⟩ := hall s hs
    apply key
    · simp only [pitStep]; rw [length_maskedDw _ _ _ _ (by rw [hm]; exact hlen)]
    · simp only [pitStep]; exact deadZero_maskedDw _ _ _ 0
    · simp only [expStep, pitStep]
      rw [compress_maskedDw _ _ _ 0 (by rw [hm]; exact hlen), hve, hm]
  | fixed s c a isLin =>
    obtain ⟨hs, hm, hat⟩ := hok
    obtain ⟨hlen, hdz, hve⟩ := hall s hs
    have hves : gv ve s = gv vp s := by rw [hve]; exact allTrue_compress _ _ hat hlen
    apply key
    · simp only [pitStep]; rw [length_maskedLayer, hm]
    · simp only [pitStep]; rw [hm]; exact deadZero_maskedLayer _ _ 0
    · simp only [expStep, pitStep]
      rw [hm, compress_maskedLayer, List.length_replicate, hves]
      have := compress_all_true (idxFrom 0 c)
      rw [idxFrom_length] at this
      rw [this]
  | fixedDw s a =>
    obtain ⟨hs, hm, hat⟩ := hok
    obtain ⟨hlen, hdz, hve⟩ := hall s hs
    have hves : gv ve s = gv vp s := by rw [hve]; exact allTrue_compress _ _ hat hlen
    have hrep : gm ms s = List.replicate (gv vp s).length true := by rw [← hlen]; exact hat
    apply key
    · simp only [pitStep]; rw [length_maskedDw _ _ _ _ hlen, hm]
    · simp only [pitStep]; rw [hm]; exact deadZero_maskedDw _ _ _ 0
    · simp only [expStep, pitStep]
      rw [hves, hm, hrep, maskedDw_all_true]
      generalize hZ : List.zipWith (fun c v => σ.post k c (σ.b k c + σ.D k c v))
        (idxFrom 0 (gv vp s).length) (gv vp s) = Z
      have h2 : Z.length = (gv vp s).length := by rw [← hZ]; simp [idxFrom_length]
      rw [← h2]; exact (compress_all_true Z).symm
  | chan s =>
    obtain ⟨hs, hm, hg⟩ := hok
    obtain ⟨hlen, hdz, hve⟩ := hall s hs
    apply key
    · simp only [pitStep]; rw [List.length_zipWith, idxFrom_length, Nat.min_self, hm]; exact hlen
    · simp only [pitStep]; rw [hm]
      exact deadZero_zipWithIdx (σ.g k) (gm ms s) (gv vp s) 0 hlen hdz (fun c hc => by simpa using hg c hc)
    · simp only [expStep, pitStep]; rw [hve, hm, compress_zipWith, hlen]
  | add a b =>
    obtain ⟨ha, hb, hm, hab, hg⟩ := hok
    obtain ⟨hlena, hdza, hvea⟩ := hall a ha
    obtain ⟨hlenb, hdzb, hveb⟩ := hall b hb
    apply key
    · simp only [pitStep]; rw [List.length_zipWith, ← hlena, ← hlenb, ← hab, hm]; simp
    · simp only [pitStep]; rw [hm]; exact deadZero_zipWith _ hg _ _ _ hdza (hab ▸ hdzb)
    · simp only [expStep, pitStep]; rw [hvea, hveb, hm, compress_zipWith, hab]
  | tcat ss =>
    obtain ⟨-, ha, hb, hm, hab, hg⟩ := hok
    obtain ⟨hlena, hdza, hvea⟩ := hall _ ha
    obtain ⟨hlenb, hdzb, hveb⟩ := hall _ hb
    apply key
    · simp only [pitStep]; rw [List.length_zipWith, ← hlena, ← hlenb, ← hab, hm]; simp
    · simp only [pitStep]; rw [hm]; exact deadZero_zipWith _ hg _ _ _ hdza (hab ▸ hdzb)
    · simp only [expStep, pitStep]; rw [hvea, hveb, hm, compress_zipWith, hab]
  | cat ss =>
    obtain ⟨hss, hm⟩ := hok
    have hlenl : (ss.map (gm ms)).length = (ss.map (gv vp)).length := by simp
    have hidx : ∀ i < (ss.map (gm ms)).length,
        ((ss.map (gm ms)).getD i []).length = ((ss.map (gv vp)).getD i []).length ∧
        DeadZero ((ss.map (gm ms)).getD i []) ((ss.map (gv vp)).getD i []) := by
      intro i hi
      simp only [List.length_map] at hi
      have hs := hss ss[i] (List.getElem_mem hi)
      obtain ⟨h1, h2, -⟩ := hall ss[i] hs
      simp only [List.getD_eq_getElem?_getD, List.getElem?_map, List.getElem?_eq_getElem hi,
        Option.map_some, Option.getD_some]
      exact ⟨h1, h2⟩
    apply key
    · simp only [pitStep]; rw [hm]
      have : ∀ (l : List ℕ), (∀ s ∈ l, s < k) →
          (l.map (gm ms)).flatten.length = (l.map (gv vp)).flatten.length := by
        intro l; induction l with
        | nil => intro _; rfl
        | cons s l ih =>
          intro hl
          simp only [List.map_cons, List.flatten_cons, List.length_append]
          rw [(hall s (hl s (by simp))).1, ih (fun t ht => hl t (by simp [ht]))]
      exact this ss hss
    · simp only [pitStep]; rw [hm]
      exact deadZero_flatten _ _ hlenl (fun i hi => (hidx i hi).1) (fun i hi => (hidx i hi).2)
    · simp only [expStep, pitStep]; rw [hm]
      rw [compress_flatten _ _ hlenl (fun i hi => (hidx i hi).1)]
      congr 1
      have : ∀ (l : List ℕ), (∀ s ∈ l, s < k) →
          l.map (gv ve) = List.zipWith compress (l.map (gm ms)) (l.map (gv vp)) := by
        intro l; induction l with
        | nil => intro _; rfl
        | cons s l ih =>
          intro hl
          simp only [List.map_cons, List.zipWith_cons_cons]
          rw [(hall s (hl s (by simp))).2.2, ih (fun t ht => hl t (by simp [ht]))]
      exact this ss hss
  | flat s m =>
    obtain ⟨hs, hm, hsp⟩ := hok
    obtain ⟨hlen, hdz, hve⟩ := hall s hs
    apply key
    · simp only [pitStep]; rw [hm]; unfold expand; exact length_flatExpand (σ.sp k) m _ _ hlen
    · simp only [pitStep]; rw [hm]; unfold expand; exact deadZero_flatExpand (σ.sp k) hsp m _ _ hdz
    · simp only [expStep, pitStep]; rw [hm, hve]; unfold expand
      exact (compress_flatExpand (σ.sp k) m _ _).symm
  | reuse s o ls c a =>
    obtain ⟨hs, hmo, hms, hL⟩ := hok
    obtain ⟨hlen, hdz, hve⟩ := hall s hs
    apply key
    · simp only [pitStep]; rw [length_maskedLayer]
    · simp only [pitStep]; exact deadZero_maskedLayer _ _ 0
    · simp only [expStep, pitStep]
      rw [compress_maskedLayer, hmo]
      apply List.map_congr_left
      intro co _
      rw [hve, mix_compress (σ.L o co) (hL co) _ _ 0 hlen hdz, ← hms, hlen]
  | reuseDw s o ls a =>
    obtain ⟨hs, hm, hmo⟩ := hok
    obtain ⟨hlen, hdz, hve⟩ := hall s hs
    apply key
    · simp only [pitStep]; rw [length_maskedDw _ _ _ _ (by rw [hm]; exact hlen)]
    · simp only [pitStep]; exact deadZero_maskedDw _ _ _ 0
    · simp only [expStep, pitStep]
      rw [compress_maskedDw _ _ _ 0 (by rw [hm]; exact hlen), hve, ← hmo, hm]
  | output s =>
    obtain ⟨hs, hm⟩ := hok
    obtain ⟨hlen, hdz, hve⟩ := hall s hs
    apply key
    · simp only [pitStep]; rw [hm]; exact hlen
    · simp only [pitStep]; rw [hm]; exact hdz
    · simp only [expStep, pitStep]; rw [hve, hm]

/-- both networks run side by side over the program -/
def runBoth (σ : Sem V) (ms : List (List Bool)) (inp : ℕ → List V) (l : List (Op × ℕ)) :
    List (List V) × List (List V) :=
  l.foldl (fun st x => (st.1 ++ [pitStep σ ms inp st.1 x], st.2 ++ [expStep σ ms inp st.2 x])) ([], [])

theorem runBoth_snoc (σ : Sem V) (ms : List (List Bool)) (inp : ℕ → List V) (l : List (Op × ℕ))
    (x : Op × ℕ) :
    runBoth σ ms inp (l ++ [x]) =
      ((runBoth σ ms inp l).1 ++ [pitStep σ ms inp (runBoth σ ms inp l).1 x],
       (runBoth σ ms inp l).2 ++ [expStep σ ms inp (runBoth σ ms inp l).2 x]) := by
  unfold runBoth; rw [List.foldl_append]; rfl

/-- the invariant holds after every prefix of a program all of whose nodes are coherent -/
theorem run_inv (σ : Sem V) (ms : List (List Bool)) (inp : ℕ → List V) (p : Prog) (k : ℕ)
    (hk : k ≤ p.length) (hok : ∀ n (hn : n < p.length), Coherent σ ms inp (p[n], n)) :
    NetInv ms (runBoth σ ms inp (p.zipIdx.take k)).1 (runBoth σ ms inp (p.zipIdx.take k)).2 k := by
  induction k with
  | zero => exact ⟨rfl, rfl, fun n hn => absurd hn (Nat.not_lt_zero n)⟩
  | succ k ih =>
    have hk' : k < p.length := by omega
    have hz : k < p.zipIdx.length := by simp; exact hk'
    rw [List.take_succ_eq_append_getElem hz, runBoth_snoc]
    have hx : p.zipIdx[k] = (p[k], k) := by simp
    rw [hx]
    exact step_inv σ ms inp _ _ p[k] k (ih (by omega)) (hok k hk')

end PlinioVerif.PIT
