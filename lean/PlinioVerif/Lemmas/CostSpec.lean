import PlinioVerif.Model.CostSpec
/-! Helper lemmas for C15: the invariant of the registration-order scan. -/
namespace PlinioVerif.CostSpec
variable {Spec Fn : Type}

/-- once the `raise` was reached nothing changes -/
theorem foldl_raised (s : Spec) (es : List (Entry Spec Fn)) (st : St Fn) (h : st.raised = true) :
    es.foldl (step s) st = st := by
  induction es generalizing st with
  | nil => rfl
  | cons e es ih => simp only [List.foldl_cons]; rw [show step s st e = st by simp [step, h]]; exact ih st h

/-- scan invariant, started from a state that already holds a constrained match -/
theorem foldl_hasConstr (s : Spec) (es : List (Entry Spec Fn)) (st : St Fn)
    (hr : st.raised = false) (hc : st.hasConstr = true) :
    let r := es.foldl (step s) st
    r.raised = decide (1 ≤ (es.filter (Entry.cmatch s)).length) ∧
    (r.raised = false → r.best = st.best) := by
  induction es generalizing st with
  | nil => simp [hr]
  | cons e es ih =>
    simp only [List.foldl_cons]
    rcases e with ⟨c, f⟩
    cases c with
    | none =>
      have hs : step s st ⟨none, f⟩ = st := by simp [step, hr, hc]
      rw [hs]; simpa [List.filter_cons, Entry.cmatch] using ih st hr hc
    | some c =>
      by_cases hcs : c s = true
      · have hs : (step s st ⟨some c, f⟩).raised = true := by simp [step, hr, hc, hcs]
        rw [foldl_raised s es _ hs]
        simp [hs, Entry.cmatch, hcs]
      · have hs : step s st ⟨some c, f⟩ = st := by simp [step, hr, hcs]
        rw [hs]; simpa [List.filter_cons, Entry.cmatch, hcs] using ih st hr hc

/-- scan invariant, started from a state without a constrained match -/
theorem foldl_noConstr (s : Spec) (es : List (Entry Spec Fn)) (st : St Fn)
    (hr : st.raised = false) (hc : st.hasConstr = false) :
    let r := es.foldl (step s) st
    let cm := es.filter (Entry.cmatch s)
    let um := es.filter Entry.unc
    r.raised = decide (2 ≤ cm.length) ∧
    (r.raised = false →
      r.best = match cm.head? with
               | some e => some e.fn
               | none => match um.getLast? with
                         | some u => some u.fn
                         | none => st.best) := by
  induction es generalizing st with
  | nil => simp [hr]
  | cons e es ih =>
    simp only [List.foldl_cons]
    rcases e with ⟨c, f⟩
    cases c with
    | none =>
      have h1 : (step s st ⟨none, f⟩).raised = false := by simp [step, hr, hc]
      have h2 : (step s st ⟨none, f⟩).hasConstr = false := by simp [step, hr, hc]
      have h3 : (step s st ⟨none, f⟩).best = some f := by simp [step, hr, hc]
      obtain ⟨i1, i2⟩ := ih _ h1 h2
      refine ⟨by simpa [List.filter_cons, Entry.cmatch] using i1, fun hnr => ?_⟩
      have := i2 hnr
      simp only [List.filter_cons, Entry.cmatch, Entry.unc, Option.isNone_none, if_true,
        Bool.false_eq_true, if_false]
      rw [this, h3]
      rw [List.getLast?_cons]
      cases (List.filter (Entry.cmatch s) es).head? with
      | some e => rfl
      | none =>
        cases (List.filter Entry.unc es).getLast? with
        | none => rfl
        | some v => rfl
    | some c =>
      by_cases hcs : c s = true
      · have h1 : (step s st ⟨some c, f⟩).raised = false := by simp [step, hr, hc, hcs]
        have h2 : (step s st ⟨some c, f⟩).hasConstr = true := by simp [step, hr, hc, hcs]
        have h3 : (step s st ⟨some c, f⟩).best = some f := by simp [step, hr, hc, hcs]
        obtain ⟨i1, i2⟩ := foldl_hasConstr s es _ h1 h2
        refine ⟨?_, fun hnr => ?_⟩
        · rw [i1]; simp [Entry.cmatch, hcs]
        · rw [i2 hnr, h3]; simp [Entry.cmatch, hcs]
      · have hs : step s st ⟨some c, f⟩ = st := by simp [step, hr, hcs]
        rw [hs]
        simpa [List.filter_cons, Entry.cmatch, Entry.unc, hcs] using ih st hr hc

end PlinioVerif.CostSpec
