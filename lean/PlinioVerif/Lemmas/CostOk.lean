import PlinioVerif.Lemmas.NE16
import PlinioVerif.Gen.Cost
/-!
# What the generated guards `Gen.….ok` accept and reject (C16)

`ok s = false` iff the Python function raises (assert, `raise`, bad index / unpacking, key outside
the look-up table) or divides by zero.  For every registered function: every well-formed supported
description is accepted (the function returns a number — "finite"), and everything accepted is
supported (unsupported precisions / kernels / groups are rejected, never extrapolated).
-/
namespace PlinioVerif.Spec
open CostNum

/-- what the generated guard `ok` of a registered cost function accepts and rejects -/
class OkLaws (spec layer constr : outParam String) (ok : S → Bool) : Prop where
  accepts : ∀ s, WF layer s → Supported spec constr layer s → ok s = true
  rejects : ∀ s, ok s = true → Supported spec constr layer s

theorem wf1' {s : S} (h : WF "Conv1d" s) :
    s.kernel_size.length = 1 ∧ s.output_shape.length = 3 ∧ s.groups ≠ 0 := by
  simpa [WF] using h
theorem wf2' {s : S} (h : WF "Conv2d" s) :
    s.kernel_size.length = 2 ∧ s.output_shape.length = 4 ∧ s.groups ≠ 0 := by
  simpa [WF] using h
theorem wf1 {s : S} (h : WF "Conv1d" s) : s.kernel_size.length = 1 ∧ s.output_shape.length = 3 :=
  ⟨(wf1' h).1, (wf1' h).2.1⟩
theorem wf2 {s : S} (h : WF "Conv2d" s) : s.kernel_size.length = 2 ∧ s.output_shape.length = 4 :=
  ⟨(wf2' h).1, (wf2' h).2.1⟩
theorem wfl {s : S} (h : WF "Linear" s) : s.output_shape.length = 2 := by
  simpa [WF] using h

open Lean.Parser.Tactic in
set_option hygiene false in
macro "ok_free" "[" ds:simpLemma,* "]" : tactic => `(tactic| (
  refine ⟨?_, ?_⟩
  · intro s hwf _
    first
      | (have hwf1 : WF "Conv1d" s := hwf
         obtain ⟨hk, ho, hg⟩ := wf1' hwf1
         simp [$ds,*, hk, ho, hg, CostNum.nz_rat])
      | (have hwf2 : WF "Conv2d" s := hwf
         obtain ⟨hk, ho, hg⟩ := wf2' hwf2
         simp [$ds,*, hk, ho, hg, CostNum.nz_rat])
      | (have hwfl : WF "Linear" s := hwf
         have ho := wfl hwfl
         simp [$ds,*, ho])
  · intro s _
    simp [Supported]))

instance : OkLaws "params" "Conv1d" "" Gen.params._params_conv1d_generic.ok := by
  ok_free [Gen.params._params_conv1d_generic.ok]
instance : OkLaws "params" "Conv2d" "" Gen.params._params_conv2d_generic.ok := by
  ok_free [Gen.params._params_conv2d_generic.ok]
instance : OkLaws "params" "Conv1d" "conv_dw_constraint" Gen.params._params_conv1d_dw.ok := by
  ok_free [Gen.params._params_conv1d_dw.ok]
instance : OkLaws "params" "Conv2d" "conv_dw_constraint" Gen.params._params_conv2d_dw.ok := by
  ok_free [Gen.params._params_conv2d_dw.ok]
instance : OkLaws "params" "Linear" "" Gen.params._params_linear.ok := by
  ok_free [Gen.params._params_linear.ok]
instance : OkLaws "params_no_bias" "Conv1d" "" Gen.params_no_bias._params_conv1d_generic.ok := by
  ok_free [Gen.params_no_bias._params_conv1d_generic.ok]
instance : OkLaws "params_no_bias" "Conv2d" "" Gen.params_no_bias._params_conv2d_generic.ok := by
  ok_free [Gen.params_no_bias._params_conv2d_generic.ok]
instance : OkLaws "params_no_bias" "Conv1d" "conv_dw_constraint" Gen.params_no_bias._params_conv1d_dw.ok := by
  ok_free [Gen.params_no_bias._params_conv1d_dw.ok]
instance : OkLaws "params_no_bias" "Conv2d" "conv_dw_constraint" Gen.params_no_bias._params_conv2d_dw.ok := by
  ok_free [Gen.params_no_bias._params_conv2d_dw.ok]
instance : OkLaws "params_no_bias" "Linear" "" Gen.params_no_bias._params_linear.ok := by
  ok_free [Gen.params_no_bias._params_linear.ok]
instance : OkLaws "params_bit" "Conv1d" "" Gen.params_bit._params_bit_conv1d_generic.ok := by
  ok_free [Gen.params_bit._params_bit_conv1d_generic.ok]
instance : OkLaws "params_bit" "Conv2d" "" Gen.params_bit._params_bit_conv2d_generic.ok := by
  ok_free [Gen.params_bit._params_bit_conv2d_generic.ok]
instance : OkLaws "params_bit" "Conv1d" "conv_dw_constraint" Gen.params_bit._params_bit_conv1d_dw.ok := by
  ok_free [Gen.params_bit._params_bit_conv1d_dw.ok]
instance : OkLaws "params_bit" "Conv2d" "conv_dw_constraint" Gen.params_bit._params_bit_conv2d_dw.ok := by
  ok_free [Gen.params_bit._params_bit_conv2d_dw.ok]
instance : OkLaws "params_bit" "Linear" "" Gen.params_bit._params_bit_linear.ok := by
  ok_free [Gen.params_bit._params_bit_linear.ok]
instance : OkLaws "ops" "Conv1d" "" Gen.ops._ops_conv1d_generic.ok := by
  ok_free [Gen.ops._ops_conv1d_generic.ok]
instance : OkLaws "ops" "Conv2d" "" Gen.ops._ops_conv2d_generic.ok := by
  ok_free [Gen.ops._ops_conv2d_generic.ok]
instance : OkLaws "ops" "Conv1d" "conv_dw_constraint" Gen.ops._ops_conv1d_dw.ok := by
  ok_free [Gen.ops._ops_conv1d_dw.ok]
instance : OkLaws "ops" "Conv2d" "conv_dw_constraint" Gen.ops._ops_conv2d_dw.ok := by
  ok_free [Gen.ops._ops_conv2d_dw.ok]
instance : OkLaws "ops" "Linear" "" Gen.ops._ops_linear_generic.ok := by
  ok_free [Gen.ops._ops_linear_generic.ok]
instance : OkLaws "ops_no_bias" "Conv1d" "" Gen.ops_no_bias._ops_conv1d_generic.ok := by
  ok_free [Gen.ops_no_bias._ops_conv1d_generic.ok]
instance : OkLaws "ops_no_bias" "Conv2d" "" Gen.ops_no_bias._ops_conv2d_generic.ok := by
  ok_free [Gen.ops_no_bias._ops_conv2d_generic.ok]
instance : OkLaws "ops_no_bias" "Conv1d" "conv_dw_constraint" Gen.ops_no_bias._ops_conv1d_dw.ok := by
  ok_free [Gen.ops_no_bias._ops_conv1d_dw.ok]
instance : OkLaws "ops_no_bias" "Conv2d" "conv_dw_constraint" Gen.ops_no_bias._ops_conv2d_dw.ok := by
  ok_free [Gen.ops_no_bias._ops_conv2d_dw.ok]
instance : OkLaws "ops_no_bias" "Linear" "" Gen.ops_no_bias._ops_linear_generic.ok := by
  ok_free [Gen.ops_no_bias._ops_linear_generic.ok]
instance : OkLaws "ops_bit" "Conv1d" "" Gen.ops_bit._ops_bit_conv1d_generic.ok := by
  ok_free [Gen.ops_bit._ops_bit_conv1d_generic.ok]
instance : OkLaws "ops_bit" "Conv2d" "" Gen.ops_bit._ops_bit_conv2d_generic.ok := by
  ok_free [Gen.ops_bit._ops_bit_conv2d_generic.ok]
instance : OkLaws "ops_bit" "Conv1d" "conv_dw_constraint" Gen.ops_bit._ops_bit_conv1d_dw.ok := by
  ok_free [Gen.ops_bit._ops_bit_conv1d_dw.ok]
instance : OkLaws "ops_bit" "Conv2d" "conv_dw_constraint" Gen.ops_bit._ops_bit_conv2d_dw.ok := by
  ok_free [Gen.ops_bit._ops_bit_conv2d_dw.ok]
instance : OkLaws "ops_bit" "Linear" "" Gen.ops_bit._ops_bit_linear.ok := by
  ok_free [Gen.ops_bit._ops_bit_linear.ok]
instance : OkLaws "gap8_latency" "Conv2d" "" Gen.gap8_latency._gap8_latency_conv2d_generic.ok := by
  ok_free [Gen.gap8_latency._gap8_latency_conv2d_generic.ok, Gen.gap8_latency._floor.ok,
    Gen.gap8_latency.FloorSTE.forward.ok, CostNum.nz_rat, CostNum.ofRat_rat]
instance : OkLaws "gap8_latency" "Conv2d" "conv_dw_constraint" Gen.gap8_latency._gap8_latency_conv2d_dw.ok := by
  ok_free [Gen.gap8_latency._gap8_latency_conv2d_dw.ok, Gen.gap8_latency._floor.ok,
    Gen.gap8_latency.FloorSTE.forward.ok, CostNum.nz_rat, CostNum.ofRat_rat]
instance : OkLaws "gap8_latency" "Linear" "" Gen.gap8_latency._gap8_latency_linear.ok := by
  ok_free [Gen.gap8_latency._gap8_latency_linear.ok, Gen.gap8_latency._floor.ok,
    Gen.gap8_latency.FloorSTE.forward.ok, CostNum.nz_rat, CostNum.ofRat_rat]

/-! ### MPIC -/

theorem mpic_lut_ok_iff (a w : ℚ) : Gen.mpic_latency._mpic_lut.ok a w = true ↔ mpicSupported a w := by
  constructor
  · intro h
    simp only [Gen.mpic_latency._mpic_lut.ok, CostNum.memRat_rat, Bool.and_eq_true, List.contains_iff_mem,
      List.mem_cons, List.not_mem_nil, or_false] at h
    exact ⟨h.1.1, h.1.2⟩
  · rintro ⟨rfl | rfl | rfl, rfl | rfl | rfl | rfl⟩ <;> decide +kernel

/-- the MPIC wrappers: the MAC-count guard and the table guard -/
theorem mpic_okLaws (spec layer constr : String) (hs : spec = "mpic_latency" ∨ spec = "mpic_energy")
    (ok0 ok : S → Bool) [L : OkLaws "ops" layer constr ok0]
    (h : ∀ s, ok s = (ok0 s && Gen.mpic_latency._mpic_lut.ok s.in_precision s.w_precision)) :
    OkLaws spec layer constr ok := by
  have hsup : ∀ s, Supported spec constr layer s ↔ mpicSupported s.in_precision s.w_precision := by
    intro s
    rcases hs with rfl | rfl <;> simp [Supported]
  refine ⟨?_, ?_⟩
  · intro s hwf hsp
    rw [h, Bool.and_eq_true]
    exact ⟨L.accepts s hwf (supported_ops _ _ _), (mpic_lut_ok_iff _ _).mpr ((hsup s).mp hsp)⟩
  · intro s hok
    rw [h, Bool.and_eq_true] at hok
    exact (hsup s).mpr ((mpic_lut_ok_iff _ _).mp hok.2)

instance : OkLaws "mpic_latency" "Conv1d" "" Gen.mpic_latency._mpic_latency_conv1d_generic.ok :=
  mpic_okLaws "mpic_latency" "Conv1d" "" (Or.inl rfl) Gen.ops._ops_conv1d_generic.ok _ (fun s => by
    simp only [Gen.mpic_latency._mpic_latency_conv1d_generic.ok])
instance : OkLaws "mpic_energy" "Conv1d" "" Gen.mpic_energy._mpic_energy_conv1d_generic.ok :=
  mpic_okLaws "mpic_energy" "Conv1d" "" (Or.inr rfl) Gen.ops._ops_conv1d_generic.ok _ (fun s => by
    simp only [Gen.mpic_energy._mpic_energy_conv1d_generic.ok, Gen.mpic_latency._mpic_latency_conv1d_generic.ok,
      Gen.mpic_energy._energy_from_cycles_mpic.ok, Bool.and_true])
instance : OkLaws "mpic_latency" "Conv2d" "" Gen.mpic_latency._mpic_latency_conv2d_generic.ok :=
  mpic_okLaws "mpic_latency" "Conv2d" "" (Or.inl rfl) Gen.ops._ops_conv2d_generic.ok _ (fun s => by
    simp only [Gen.mpic_latency._mpic_latency_conv2d_generic.ok])
instance : OkLaws "mpic_energy" "Conv2d" "" Gen.mpic_energy._mpic_energy_conv2d_generic.ok :=
  mpic_okLaws "mpic_energy" "Conv2d" "" (Or.inr rfl) Gen.ops._ops_conv2d_generic.ok _ (fun s => by
    simp only [Gen.mpic_energy._mpic_energy_conv2d_generic.ok, Gen.mpic_latency._mpic_latency_conv2d_generic.ok,
      Gen.mpic_energy._energy_from_cycles_mpic.ok, Bool.and_true])
instance : OkLaws "mpic_latency" "Conv1d" "conv_dw_constraint" Gen.mpic_latency._mpic_latency_conv1d_dw.ok :=
  mpic_okLaws "mpic_latency" "Conv1d" "conv_dw_constraint" (Or.inl rfl) Gen.ops._ops_conv1d_dw.ok _ (fun s => by
    simp only [Gen.mpic_latency._mpic_latency_conv1d_dw.ok])
instance : OkLaws "mpic_energy" "Conv1d" "conv_dw_constraint" Gen.mpic_energy._mpic_energy_conv1d_dw.ok :=
  mpic_okLaws "mpic_energy" "Conv1d" "conv_dw_constraint" (Or.inr rfl) Gen.ops._ops_conv1d_dw.ok _ (fun s => by
    simp only [Gen.mpic_energy._mpic_energy_conv1d_dw.ok, Gen.mpic_latency._mpic_latency_conv1d_dw.ok,
      Gen.mpic_energy._energy_from_cycles_mpic.ok, Bool.and_true])
instance : OkLaws "mpic_latency" "Conv2d" "conv_dw_constraint" Gen.mpic_latency._mpic_latency_conv2d_dw.ok :=
  mpic_okLaws "mpic_latency" "Conv2d" "conv_dw_constraint" (Or.inl rfl) Gen.ops._ops_conv2d_dw.ok _ (fun s => by
    simp only [Gen.mpic_latency._mpic_latency_conv2d_dw.ok])
instance : OkLaws "mpic_energy" "Conv2d" "conv_dw_constraint" Gen.mpic_energy._mpic_energy_conv2d_dw.ok :=
  mpic_okLaws "mpic_energy" "Conv2d" "conv_dw_constraint" (Or.inr rfl) Gen.ops._ops_conv2d_dw.ok _ (fun s => by
    simp only [Gen.mpic_energy._mpic_energy_conv2d_dw.ok, Gen.mpic_latency._mpic_latency_conv2d_dw.ok,
      Gen.mpic_energy._energy_from_cycles_mpic.ok, Bool.and_true])
instance : OkLaws "mpic_latency" "Linear" "" Gen.mpic_latency._mpic_latency_linear.ok :=
  mpic_okLaws "mpic_latency" "Linear" "" (Or.inl rfl) Gen.ops._ops_linear_generic.ok _ (fun s => by
    simp only [Gen.mpic_latency._mpic_latency_linear.ok])
instance : OkLaws "mpic_energy" "Linear" "" Gen.mpic_energy._mpic_energy_linear.ok :=
  mpic_okLaws "mpic_energy" "Linear" "" (Or.inr rfl) Gen.ops._ops_linear_generic.ok _ (fun s => by
    simp only [Gen.mpic_energy._mpic_energy_linear.ok, Gen.mpic_latency._mpic_latency_linear.ok,
      Gen.mpic_energy._energy_from_cycles_mpic.ok, Bool.and_true])

/-! ### DIANA -/

theorem analog_ok_iff (s : S) (hwf : s.kernel_size.length = 2 ∧ s.output_shape.length = 4) :
    Gen.diana_latency._analog_cycles.ok s 260000000 = true ↔ s.groups = 1 := by
  simp [Gen.diana_latency._analog_cycles.ok, Gen.diana_latency.FloorSTE.forward.ok,
    Gen.diana_latency._floor.ok, Gen.diana_latency.GateSTE.forward.ok, CostNum.nz_rat, CostNum.nev_rat,
    CostNum.ofRat_rat, CostNum.ste_rat, CostNum.div_rat, CostNum.idx_rat, Hand.oxUnrollL, hwf.1, hwf.2]
  intro _
  exact ne_of_gt (oxUnroll_pos _ _ _ _)

theorem analog_ok_groups (s : S) (h : Gen.diana_latency._analog_cycles.ok s 260000000 = true) : s.groups = 1 := by
  simp only [Gen.diana_latency._analog_cycles.ok, Bool.and_eq_true, CostNum.nev_rat, CostNum.ofRat_rat] at h
  by_contra hg
  simp [hg] at h

theorem digital_ok_iff (s : S) (hwf : s.kernel_size.length = 2 ∧ s.output_shape.length = 4) :
    Gen.diana_latency._digital_cycles.ok s = true ↔ s.groups ≠ 0 := by
  simp [Gen.diana_latency._digital_cycles.ok, Gen.diana_latency.FloorSTE.forward.ok,
    Gen.diana_latency._floor.ok, Gen.diana_latency.GateSTE.forward.ok, CostNum.nz_rat,
    CostNum.ofRat_rat, CostNum.div_rat, CostNum.idx_rat, hwf.1, hwf.2]

theorem digital_ok_groups (s : S) (h : Gen.diana_latency._digital_cycles.ok s = true) : s.groups ≠ 0 := by
  simp only [Gen.diana_latency._digital_cycles.ok, Bool.and_eq_true, CostNum.nz_rat] at h
  simpa using h.2.2.1

theorem diana_conv_ok (s : S) : Gen.diana_latency._diana_latency_conv2d_generic.ok s =
    if s.w_precision = 2 ∧ dianaAPrec s = 8 then Gen.diana_latency._analog_cycles.ok s 260000000
    else if s.w_precision = 8 ∧ dianaAPrec s = 8 then Gen.diana_latency._digital_cycles.ok s else false := by
  simp only [Gen.diana_latency._diana_latency_conv2d_generic.ok, CostNum.eqv_rat, CostNum.ofRat_rat,
    Bool.and_eq_true, decide_eq_true_eq, dianaAPrec]
  have e : (if s.has_a_precision = true then s.a_precision else s.in_precision) =
      (if s.has_a_precision then s.a_precision else s.in_precision) := rfl
  split_ifs <;> rfl

instance : OkLaws "diana_latency" "Conv2d" "" Gen.diana_latency._diana_latency_conv2d_generic.ok := by
  refine ⟨?_, ?_⟩
  · intro s hwf hs
    have hw := wf2 hwf
    simp only [Supported, String.reduceEq, false_or, if_false, if_true] at hs
    obtain ⟨ha, h | h⟩ := hs
    · rw [diana_conv_ok, if_pos ⟨h.1, ha⟩]; exact (analog_ok_iff s hw).mpr h.2
    · have : ¬ (s.w_precision = 2 ∧ dianaAPrec s = 8) := by rw [h.1]; norm_num
      rw [diana_conv_ok, if_neg this, if_pos ⟨h.1, ha⟩]; exact (digital_ok_iff s hw).mpr h.2
  · intro s hok
    simp only [Supported, String.reduceEq, false_or, if_false, if_true]
    rw [diana_conv_ok] at hok
    split_ifs at hok with h1 h2
    · exact ⟨h1.2, Or.inl ⟨h1.1, analog_ok_groups s hok⟩⟩
    · exact ⟨h2.2, Or.inr ⟨h2.1, digital_ok_groups s hok⟩⟩

theorem diana_linear_ok (s : S) : Gen.diana_latency._diana_latency_linear.ok s =
    Gen.diana_latency._diana_latency_conv2d_generic.ok (dianaLinearSpec s) := rfl

instance : OkLaws "diana_latency" "Linear" "" Gen.diana_latency._diana_latency_linear.ok := by
  refine ⟨?_, ?_⟩
  · intro s hwf hs
    rw [diana_linear_ok]
    refine OkLaws.accepts (spec := "diana_latency") (layer := "Conv2d") (constr := "") _ ?_ (supported_lin hs)
    have := wfl hwf
    simp only [WF, String.reduceEq, if_false, if_true]
    exact ⟨rfl, by show (s.output_shape ++ [1, 1]).length = 4; simp [this], by show (1 : ℚ) ≠ 0; norm_num⟩
  · intro s hok
    rw [diana_linear_ok] at hok
    have := OkLaws.rejects (spec := "diana_latency") (layer := "Conv2d") (constr := "") _ hok
    simp only [Supported, String.reduceEq, false_or, if_false, if_true, true_or, and_true] at this ⊢
    have e : dianaAPrec (dianaLinearSpec s) = dianaAPrec s := rfl
    have w : (dianaLinearSpec s).w_precision = s.w_precision := rfl
    rw [e, w] at this
    exact ⟨this.1, this.2.imp (·.1) (·.1)⟩

/-! ### NE16 -/

theorem ne16_conv_ok (s : S) (h0 : ¬ (s.w_precision = 0 ∨ s.w_theta_alpha = 0)) :
    Gen.ne16_latency._ne16_latency_conv2d_generic.ok s = true ↔
      s.in_precision = 8 ∧ 1 < s.kernel_size.length ∧ (isK s 3 ∨ isK s 1) ∧ 3 < s.output_shape.length := by
  simp only [not_or] at h0
  simp [Gen.ne16_latency._ne16_latency_conv2d_generic.ok, CostNum.eqv_rat, CostNum.ofRat_rat, CostNum.idx_rat,
    CostNum.nz_rat, NE16.generalizedOk, h0.1, h0.2, isK, k]
  intro _
  constructor
  · rintro ⟨h1, h2, h3, h4, h5, h6, h7, h8⟩; exact ⟨by omega, h5, h7⟩
  · rintro ⟨h1, h5, h7⟩
    exact ⟨by omega, Or.inr h1, Or.inr (by omega), Or.inr (Or.inr h1), h5, by omega, h7, by omega⟩

theorem ne16_dw_ok (s : S) (h0 : ¬ (s.w_precision = 0 ∨ s.w_theta_alpha = 0)) :
    Gen.ne16_latency._ne16_latency_conv2d_dw.ok s = true ↔
      s.in_precision = 8 ∧ 1 < s.kernel_size.length ∧ isK s 3 ∧ 3 < s.output_shape.length := by
  simp only [not_or] at h0
  simp [Gen.ne16_latency._ne16_latency_conv2d_dw.ok, CostNum.eqv_rat, CostNum.ofRat_rat, CostNum.idx_rat,
    CostNum.nz_rat, NE16.generalizedOk, h0.1, h0.2, isK, k]
  intro _
  constructor
  · rintro ⟨h1, h2, h3, h4, h5, h6⟩; exact ⟨by omega, h3, h5⟩
  · rintro ⟨h1, h3, h5⟩
    exact ⟨by omega, Or.inr h1, h3, by omega, h5, by omega⟩

theorem ne16_zero_ok_conv (s : S) (h0 : s.w_precision = 0 ∨ s.w_theta_alpha = 0) :
    Gen.ne16_latency._ne16_latency_conv2d_generic.ok s = true := by
  rcases h0 with h | h <;> simp [Gen.ne16_latency._ne16_latency_conv2d_generic.ok, CostNum.eqv_rat, CostNum.ofRat_rat, h]
theorem ne16_zero_ok_dw (s : S) (h0 : s.w_precision = 0 ∨ s.w_theta_alpha = 0) :
    Gen.ne16_latency._ne16_latency_conv2d_dw.ok s = true := by
  rcases h0 with h | h <;> simp [Gen.ne16_latency._ne16_latency_conv2d_dw.ok, CostNum.eqv_rat, CostNum.ofRat_rat, h]
theorem ne16_linear_ok (s : S) :
    Gen.ne16_latency._ne16_latency_linear.ok s = true ↔
      s.w_precision = 0 ∨ s.w_theta_alpha = 0 ∨ s.in_precision = 8 := by
  by_cases h1 : s.w_precision = 0
  · simp [Gen.ne16_latency._ne16_latency_linear.ok, CostNum.eqv_rat, CostNum.ofRat_rat, h1]
  by_cases h2 : s.w_theta_alpha = 0
  · simp [Gen.ne16_latency._ne16_latency_linear.ok, CostNum.eqv_rat, CostNum.ofRat_rat, h2]
  simp [Gen.ne16_latency._ne16_latency_linear.ok, CostNum.eqv_rat, CostNum.ofRat_rat, CostNum.idx_rat,
    CostNum.nz_rat, NE16.generalizedOk, h1, h2]

instance : OkLaws "ne16_latency" "Conv2d" "" Gen.ne16_latency._ne16_latency_conv2d_generic.ok := by
  refine ⟨?_, ?_⟩
  · intro s hwf hs
    have hw := wf2 hwf
    by_cases h0 : s.w_precision = 0 ∨ s.w_theta_alpha = 0
    · exact ne16_zero_ok_conv s h0
    · obtain ⟨hi, hk⟩ := supported_ne16_conv hs h0
      exact (ne16_conv_ok s h0).mpr ⟨hi, by omega, hk, by omega⟩
  · intro s hok
    simp only [Supported, String.reduceEq, false_or, if_false, if_true, true_and]
    by_cases h0 : s.w_precision = 0 ∨ s.w_theta_alpha = 0
    · rcases h0 with h | h
      · exact Or.inl h
      · exact Or.inr (Or.inl h)
    · obtain ⟨hi, _, hk, _⟩ := (ne16_conv_ok s h0).mp hok
      exact Or.inr (Or.inr ⟨hi, hk⟩)

instance : OkLaws "ne16_latency" "Conv2d" "conv_dw_constraint" Gen.ne16_latency._ne16_latency_conv2d_dw.ok := by
  refine ⟨?_, ?_⟩
  · intro s hwf hs
    have hw := wf2 hwf
    by_cases h0 : s.w_precision = 0 ∨ s.w_theta_alpha = 0
    · exact ne16_zero_ok_dw s h0
    · obtain ⟨hi, hk⟩ := supported_ne16_dw hs h0
      exact (ne16_dw_ok s h0).mpr ⟨hi, by omega, hk, by omega⟩
  · intro s hok
    simp only [Supported, String.reduceEq, false_or, if_false, if_true, false_and, or_false]
    by_cases h0 : s.w_precision = 0 ∨ s.w_theta_alpha = 0
    · rcases h0 with h | h
      · exact Or.inl h
      · exact Or.inr (Or.inl h)
    · obtain ⟨hi, _, hk, _⟩ := (ne16_dw_ok s h0).mp hok
      exact Or.inr (Or.inr ⟨hi, hk⟩)

instance : OkLaws "ne16_latency" "Linear" "" Gen.ne16_latency._ne16_latency_linear.ok := by
  refine ⟨?_, ?_⟩
  · intro s _ hs
    simp only [Supported, String.reduceEq, false_or, if_false, if_true, true_or, and_true] at hs
    exact (ne16_linear_ok s).mpr hs
  · intro s hok
    simp only [Supported, String.reduceEq, false_or, if_false, if_true, true_or, and_true]
    exact (ne16_linear_ok s).mp hok

/-! ### depthwise per group; a sample layer -/

theorem perGroup_channels {s : S} (hd : IsDw s) :
    (perGroup s).in_channels = 1 ∧ (perGroup s).out_channels = 1 := by
  constructor
  · show s.in_channels / s.groups = 1; rw [hd.1]; exact div_self hd.2.2
  · show s.out_channels / s.groups = 1; rw [hd.2.1]; exact div_self hd.2.2
theorem k_perGroup (s : S) (i : ℕ) : k (perGroup s) i = k s i := rfl
theorem o_perGroup (s : S) (i : ℕ) : o (perGroup s) i = o s i := rfl
theorem bias_perGroup (s : S) : bias (perGroup s) = bias s := rfl
theorem perGroup_g (s : S) : (perGroup s).groups = 1 := rfl
theorem perGroup_ic (s : S) : (perGroup s).in_channels = s.in_channels / s.groups := rfl
theorem perGroup_oc (s : S) : (perGroup s).out_channels = s.out_channels / s.groups := rfl
theorem perGroup_w (s : S) : (perGroup s).w_precision = s.w_precision := rfl
theorem perGroup_ip (s : S) : (perGroup s).in_precision = s.in_precision := rfl


theorem getD_nonneg_of_all (l : List ℚ) (h : ∀ x ∈ l, 0 ≤ x) (i : ℕ) : 0 ≤ l.getD i 0 := by
  rw [List.getD_eq_getElem?_getD]
  cases hi : l[i]? with
  | none => simp
  | some x => simp only [Option.getD_some]; exact h x (List.mem_of_getElem? hi)

theorem sample_k (i : ℕ) (hi : i < 2) : k sample i = 3 := by
  have : i = 0 ∨ i = 1 := by omega
  rcases this with rfl | rfl <;> rfl
theorem sample_o (i : ℕ) (hi : i < 4) : 1 ≤ o sample i := by
  have : i = 0 ∨ i = 1 ∨ i = 2 ∨ i = 3 := by omega
  rcases this with rfl | rfl | rfl | rfl <;> simp [o, sample]


end PlinioVerif.Spec
