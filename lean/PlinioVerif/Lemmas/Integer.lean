import PlinioVerif.Model.Integer
import PlinioVerif.Lemmas.Quant
import Mathlib.Algebra.Order.Floor.Ring
import Mathlib.Algebra.Order.Field.Basic
import Mathlib.Data.Rat.Floor
import Mathlib.Tactic.Ring
import Mathlib.Tactic.Linarith
import Mathlib.Tactic.Positivity
import Mathlib.Algebra.BigOperators.Group.Finset.Basic
import Mathlib.Algebra.BigOperators.Group.Finset.Piecewise
/-!
# Helper lemmas for the integer-backend model (C14)
-/
namespace PlinioVerif.Integer
open PlinioVerif.Quant

/-! ## binary search -/

/-- for `low ≤ high` the termination guards never fire and the result brackets `x` -/
theorem bsearch_spec_aux (div x : ℚ) (hd : 0 < div) : ∀ (n low high : ℕ), high - low = n → low ≤ high →
    low ≤ bsearch div x low high ∧ bsearch div x low high ≤ high ∧
    (bsearch div x low high < high → x ≤ bsearch div x low high * div) ∧
    (low < bsearch div x low high → ((bsearch div x low high : ℚ) - 1) * div < x) := by
  intro n
  induction n using Nat.strong_induction_on with
  | _ n ih =>
    intro low high hn hle
    rw [bsearch]
    by_cases h : high ≠ low
    · simp only [h, dite_true, ne_eq, not_false_eq_true]
      have hlt : low < high := by omega
      have hmid1 : low ≤ (low + high) / 2 := by omega
      have hmid2 : (low + high) / 2 < high := by omega
      by_cases h1 : x = ((low + high) / 2 : ℕ) * div
      · simp only [h1, if_true]
        refine ⟨hmid1, by omega, fun _ => le_refl _, fun _ => ?_⟩
        have : (0 : ℚ) < div := hd
        nlinarith
      · simp only [h1, if_false]
        by_cases h2 : x < ((low + high) / 2 : ℕ) * div
        · simp only [h2, if_true, hmid1, hmid2, and_self]
          obtain ⟨a, b, c, d⟩ := ih ((low + high) / 2 - low) (by omega) low ((low + high) / 2) rfl hmid1
          refine ⟨a, by omega, fun _ => ?_, d⟩
          by_cases hb : bsearch div x low ((low + high) / 2) < (low + high) / 2
          · exact c hb
          · have : bsearch div x low ((low + high) / 2) = (low + high) / 2 := by omega
            rw [this]; exact h2.le
        · simp only [h2, if_false]
          have h3 : (low + high) / 2 + 1 ≤ high := by omega
          simp only [h3, if_true]
          obtain ⟨a, b, c, d⟩ := ih (high - ((low + high) / 2 + 1)) (by omega) ((low + high) / 2 + 1) high rfl h3
          refine ⟨by omega, b, c, fun _ => ?_⟩
          by_cases ha : (low + high) / 2 + 1 < bsearch div x ((low + high) / 2 + 1) high
          · exact d ha
          · have : bsearch div x ((low + high) / 2 + 1) high = (low + high) / 2 + 1 := by omega
            rw [this]; push_cast
            have : ((low + high) / 2 : ℕ) * div < x := lt_of_le_of_ne (not_lt.mp h2) (Ne.symm h1)
            simpa using this
    · have : high = low := by omega
      subst this
      simp

theorem bsearch_spec {div x : ℚ} (hd : 0 < div) {low high : ℕ} (hle : low ≤ high) :
    low ≤ bsearch div x low high ∧ bsearch div x low high ≤ high ∧
    (bsearch div x low high < high → x ≤ bsearch div x low high * div) ∧
    (low < bsearch div x low high → ((bsearch div x low high : ℚ) - 1) * div < x) :=
  bsearch_spec_aux div x hd (high - low) low high rfl hle

theorem pow2_pos (n : ℕ) : 0 < pow2 n := by rw [pow2_eq]; positivity

theorem divOf_pos (sh : ℕ) : 0 < divOf sh := by
  unfold divOf; exact div_pos one_pos (pow2_pos sh)

theorem divOf_eq (sh : ℕ) : divOf sh = 1 / (2 : ℚ) ^ sh := by unfold divOf; rw [pow2_eq]

/-- closed form of the scale search: `⌈t·2^sh⌉` clamped to `[1, ub]` -/
theorem bsearch_eq_ceil (t : ℚ) (sh : ℕ) {ub : ℕ} (hub : 1 ≤ ub) :
    ((bsearch (divOf sh) t 1 ub : ℕ) : ℤ) = max 1 (min (ub : ℤ) ⌈t * (2 : ℚ) ^ sh⌉) := by
  obtain ⟨h1, h2, h3, h4⟩ := bsearch_spec (x := t) (divOf_pos sh) hub
  have hp : (0 : ℚ) < (2 : ℚ) ^ sh := by positivity
  set r := bsearch (divOf sh) t 1 ub with hr
  rw [divOf_eq] at h3 h4
  -- `x ≤ r / 2^sh ↔ x * 2^sh ≤ r`
  have e3 : r < ub → t * (2 : ℚ) ^ sh ≤ r := fun h => by
    have := h3 h
    rw [mul_one_div, le_div_iff₀ hp] at this; exact this
  have e4 : 1 < r → (r : ℚ) - 1 < t * (2 : ℚ) ^ sh := fun h => by
    have := h4 h
    rw [mul_one_div, div_lt_iff₀ hp] at this; exact this
  by_cases hlow : 1 < r
  · have hc1 : (r : ℤ) - 1 < ⌈t * (2 : ℚ) ^ sh⌉ := by
      rw [Int.lt_ceil]; push_cast; exact e4 hlow
    by_cases hhigh : r < ub
    · have hc2 : ⌈t * (2 : ℚ) ^ sh⌉ ≤ (r : ℤ) := by
        rw [Int.ceil_le]; push_cast; exact e3 hhigh
      have : ⌈t * (2 : ℚ) ^ sh⌉ = (r : ℤ) := by omega
      rw [this]
      have h5 : (r : ℤ) ≤ ub := by exact_mod_cast h2
      rw [min_eq_right h5, max_eq_right (by omega)]
    · have hru : r = ub := by omega
      rw [hru] at hc1 ⊢
      rw [min_eq_left (by omega), max_eq_right (by exact_mod_cast hub)]
  · have hr1 : r = 1 := by omega
    rw [hr1]
    by_cases hhigh : r < ub
    · have hc2 : ⌈t * (2 : ℚ) ^ sh⌉ ≤ (r : ℤ) := by
        rw [Int.ceil_le]; push_cast; exact e3 hhigh
      rw [hr1] at hc2
      have : min (ub : ℤ) ⌈t * (2 : ℚ) ^ sh⌉ ≤ 1 := le_trans (min_le_right _ _) (by exact_mod_cast hc2)
      rw [max_eq_left this]; rfl
    · have hu1 : ub = 1 := by omega
      rw [hu1]
      have : min ((1 : ℕ) : ℤ) ⌈t * (2 : ℚ) ^ sh⌉ ≤ 1 := le_trans (min_le_left _ _) (by norm_num)
      rw [max_eq_left this]; rfl

/-! ## clip / requant -/

theorem clipInt_eq (lo hi x : ℤ) : clipInt lo hi x = min (max x lo) hi := by
  unfold clipInt
  simp only
  have h1 : (if x < lo then lo else x) = max x lo := by
    split_ifs with h
    · exact (max_eq_right h.le).symm
    · exact (max_eq_left (not_lt.mp h)).symm
  rw [h1]
  split_ifs with h
  · exact (min_eq_right h.le).symm
  · exact (min_eq_left (not_lt.mp h)).symm

theorem clipInt_range {lo hi : ℤ} (h : lo ≤ hi) (x : ℤ) : lo ≤ clipInt lo hi x ∧ clipInt lo hi x ≤ hi := by
  rw [clipInt_eq]
  exact ⟨le_min (le_max_right _ _) h, min_le_right _ _⟩

theorem clipInt_mono (lo hi : ℤ) : Monotone (clipInt lo hi) := by
  intro x y h
  rw [clipInt_eq, clipInt_eq]
  exact min_le_min (max_le_max h le_rfl) le_rfl

/-- clipping is 1-Lipschitz -/
theorem clipInt_lipschitz (lo hi x y : ℤ) : |clipInt lo hi x - clipInt lo hi y| ≤ |x - y| := by
  rw [clipInt_eq, clipInt_eq]
  rcases le_total x y with h | h
  · have h1 : min (max x lo) hi ≤ min (max y lo) hi := min_le_min (max_le_max h le_rfl) le_rfl
    rw [abs_of_nonpos (by omega), abs_of_nonpos (by omega)]
    simp only [min_def, max_def]; split_ifs <;> omega
  · have h1 : min (max y lo) hi ≤ min (max x lo) hi := min_le_min (max_le_max h le_rfl) le_rfl
    rw [abs_of_nonneg (by omega), abs_of_nonneg (by omega)]
    simp only [min_def, max_def]; split_ifs <;> omega

theorem clipInt_add (lo hi x c : ℤ) : clipInt (lo + c) (hi + c) (x + c) = clipInt lo hi x + c := by
  rw [clipInt_eq, clipInt_eq]
  simp only [min_def, max_def]; split_ifs <;> omega

/-- the floor of a division by `2^sh` is the integer (floor) division: an arithmetic right shift -/
theorem floor_div_pow2 (a : ℤ) (sh : ℕ) : ((a : ℚ) / pow2 sh).floor = a / (2 : ℤ) ^ sh := by
  unfold pow2
  rw [floor_eq, Rat.floor_intCast_div_natCast]
  push_cast; rfl

/-- adding a multiple of `2^sh` before the shift adds the multiple after it -/
theorem floor_add_mul_pow2 (a c : ℤ) (sh : ℕ) :
    (((a + c * 2 ^ sh : ℤ) : ℚ) / pow2 sh).floor = ((a : ℚ) / pow2 sh).floor + c := by
  rw [floor_div_pow2, floor_div_pow2]
  have hp : (2 : ℤ) ^ sh ≠ 0 := by positivity
  rw [Int.add_mul_ediv_right _ _ hp]

/-- distance of two floors -/
theorem abs_floor_sub_floor_lt (a b : ℚ) : ((|⌊a⌋ - ⌊b⌋| : ℤ) : ℚ) < 1 + |a - b| := by
  have ha0 := Int.floor_le a
  have ha1 := Int.lt_floor_add_one a
  have hb0 := Int.floor_le b
  have hb1 := Int.lt_floor_add_one b
  rcases le_total ⌊b⌋ ⌊a⌋ with h | h
  · rw [abs_of_nonneg (by omega)]
    have : (⌊a⌋ : ℚ) - ⌊b⌋ < 1 + (a - b) := by linarith
    push_cast
    exact lt_of_lt_of_le this (by linarith [le_abs_self (a - b)])
  · rw [abs_of_nonpos (by omega)]
    have : (⌊b⌋ : ℚ) - ⌊a⌋ < 1 + (b - a) := by linarith
    push_cast
    have h2 : b - a ≤ |a - b| := by rw [abs_sub_comm]; exact le_abs_self _
    linarith

/-! ## accumulators -/

theorem dot_nil_left (x : List ℤ) : dot [] x = 0 := by simp [dot]

theorem dot_cons (a b : ℤ) (w x : List ℤ) : dot (a :: w) (b :: x) = a * b + dot w x := by
  simp [dot]

/-- shifting every input by `c` shifts the accumulator by `c · Σ w` -/
theorem dot_shift (c : ℤ) : ∀ (w x : List ℤ), w.length = x.length →
    dot w (x.map (· + c)) = dot w x + c * w.sum
  | [], [], _ => by simp [dot]
  | a :: w, b :: x, h => by
    have h' : w.length = x.length := by simpa using h
    rw [List.map_cons, dot_cons, dot_cons, dot_shift c w x h', List.sum_cons]
    ring
  | [], _ :: _, h => by simp at h
  | _ :: _, [], h => by simp at h

/-! ## two clipped floors (integer layer vs fake-quantized layer) -/

/-- integer core of the requantisation bound: clipping `u` to `[0, M]` and `v` to `[0, top]`,
`top ≤ M` -/
theorem clip_pair (u v M top : ℤ) (h0 : 0 ≤ top) (hM : top ≤ M) :
    |clipInt 0 M u - clipInt 0 top v| ≤ max |u - v| (1 + max 0 (M - 1 - top)) := by
  rw [clipInt_eq, clipInt_eq, abs_eq_max_neg, abs_eq_max_neg]
  simp only [min_def, max_def]
  split_ifs <;> omega

/-- `|clip₀ᴹ⌊a⌋ − clip₀ᵗᵒᵖ⌊b⌋| ≤ 1 + |a − b| + max 0 (M − 1 − top)` -/
theorem clip_floor_error (a b : ℚ) (M top : ℤ) (h0 : 0 ≤ top) (hM : top ≤ M) :
    ((|clipInt 0 M ⌊a⌋ - clipInt 0 top ⌊b⌋| : ℤ) : ℚ)
      ≤ 1 + |a - b| + ((max 0 (M - 1 - top) : ℤ) : ℚ) := by
  have h1 := clip_pair ⌊a⌋ ⌊b⌋ M top h0 hM
  have h2 := abs_floor_sub_floor_lt a b
  have h3 : (0 : ℚ) ≤ |a - b| := abs_nonneg _
  have h4 : (0 : ℚ) ≤ ((max 0 (M - 1 - top) : ℤ) : ℚ) := by exact_mod_cast le_max_left _ _
  have h5 : ((|clipInt 0 M ⌊a⌋ - clipInt 0 top ⌊b⌋| : ℤ) : ℚ)
      ≤ ((max |⌊a⌋ - ⌊b⌋| (1 + max 0 (M - 1 - top)) : ℤ) : ℚ) := by exact_mod_cast h1
  refine le_trans h5 ?_
  rcases max_choice |⌊a⌋ - ⌊b⌋| (1 + max 0 (M - 1 - top)) with h | h <;> rw [h]
  · linarith
  · push_cast at h4 ⊢; linarith

/-! ## zero-stuffed kernel -/

theorem list_sum_range (f : ℕ → ℤ) (n : ℕ) :
    ((List.range n).map f).sum = ∑ i ∈ Finset.range n, f i := by
  induction n with
  | zero => simp
  | succ n ih => rw [List.range_succ, List.map_append, List.sum_append, ih, Finset.sum_range_succ]; simp

/-- the partial result of the stuffing loop after `m` iterations -/
def stuffPart (d : ℕ) (w : List ℤ) (m : ℕ) : List ℤ :=
  (List.range m).foldl (fun acc i => acc.set (i * d) (w.getD i 0))
    (List.replicate (w.length * d - (d - 1)) 0)

theorem stuffPart_succ (d : ℕ) (w : List ℤ) (m : ℕ) :
    stuffPart d w (m + 1) = (stuffPart d w m).set (m * d) (w.getD m 0) := by
  unfold stuffPart; rw [List.range_succ, List.foldl_append]; rfl

theorem stuff_eq_part (d : ℕ) (w : List ℤ) : stuff d w = stuffPart d w w.length := rfl

theorem getD_set_ite (l : List ℤ) (p j : ℕ) (a : ℤ) (hp : p < l.length) :
    (l.set p a).getD j 0 = if j = p then a else l.getD j 0 := by
  simp only [List.getD_eq_getElem?_getD, List.getElem?_set]
  by_cases h : p = j
  · subst h; simp [hp]
  · have h' : ¬ j = p := fun e => h e.symm
    simp [h, h']

/-- invariant of the stuffing loop: length, written positions, unwritten positions, and the
weighted sum against any signal -/
theorem stuffPart_inv {d : ℕ} (hd : 1 ≤ d) (w : List ℤ) : ∀ m, m ≤ w.length →
    (stuffPart d w m).length = w.length * d - (d - 1) ∧
    (∀ i, i < m → (stuffPart d w m).getD (i * d) 0 = w.getD i 0) ∧
    (∀ j, (∀ i, i < m → j ≠ i * d) → (stuffPart d w m).getD j 0 = 0) ∧
    (∀ y : ℕ → ℤ, ∑ j ∈ Finset.range (w.length * d - (d - 1)), (stuffPart d w m).getD j 0 * y j
        = ∑ i ∈ Finset.range m, w.getD i 0 * y (i * d)) := by
  intro m
  induction m with
  | zero =>
    intro _
    refine ⟨by simp [stuffPart], fun i hi => by omega, fun j _ => ?_, fun y => ?_⟩
    · simp only [stuffPart, List.range_zero, List.foldl_nil, List.getD_eq_getElem?_getD,
        List.getElem?_replicate]
      split_ifs <;> rfl
    · simp only [stuffPart, List.range_zero, List.foldl_nil, List.getD_eq_getElem?_getD,
        List.getElem?_replicate]
      apply Finset.sum_eq_zero
      intro x _
      split_ifs <;> simp
  | succ m ih =>
    intro hm
    obtain ⟨hl, hw, hz, hs⟩ := ih (by omega)
    have hpos : m * d < w.length * d - (d - 1) := by
      have h1 : (m + 1) * d ≤ w.length * d := Nat.mul_le_mul_right d hm
      rw [Nat.succ_mul] at h1
      omega
    have hp' : m * d < (stuffPart d w m).length := by rw [hl]; exact hpos
    have hne : ∀ i, i < m → m * d ≠ i * d := by
      intro i hi h
      have := Nat.eq_of_mul_eq_mul_right (by omega : 0 < d) h
      omega
    have hzero : (stuffPart d w m).getD (m * d) 0 = 0 := hz _ hne
    rw [stuffPart_succ]
    refine ⟨by rw [List.length_set]; exact hl, ?_, ?_, ?_⟩
    · intro i hi
      rw [getD_set_ite _ _ _ _ hp']
      by_cases h : i = m
      · subst h; simp
      · have : i * d ≠ m * d := fun e => hne i (by omega) e.symm
        rw [if_neg this]; exact hw i (by omega)
    · intro j hj
      rw [getD_set_ite _ _ _ _ hp']
      have : j ≠ m * d := hj m (by omega)
      rw [if_neg this]; exact hz j (fun i hi => hj i (by omega))
    · intro y
      have hstep : ∀ j, ((stuffPart d w m).set (m * d) (w.getD m 0)).getD j 0 * y j
          = (stuffPart d w m).getD j 0 * y j + (if j = m * d then w.getD m 0 * y (m * d) else 0) := by
        intro j
        rw [getD_set_ite _ _ _ _ hp']
        by_cases h : j = m * d
        · rw [if_pos h, if_pos h, h, hzero]; ring
        · rw [if_neg h, if_neg h]; ring
      simp only [hstep]
      rw [Finset.sum_add_distrib, hs y, Finset.sum_range_succ, Finset.sum_ite_eq']
      simp [hpos]

/-! ## scale/shift selection loop -/

/-- the candidate examined at shift `sh` -/
def cand (ub : ℕ) (ts : List ℚ) (sh : ℕ) : ℚ × List ℕ × ℕ :=
  (avgDiff sh (scalesAt ub sh ts) ts, scalesAt ub sh ts, sh)

/-- the candidate is admissible (its scaled biases fit 32 bits) -/
abbrev okAt (ub : ℕ) (ts : List ℚ) (bs : List ℤ) (sh : ℕ) : Prop := overflow bs (scalesAt ub sh ts) = false

theorem selStep_eq (ub : ℕ) (ts : List ℚ) (bs : List ℤ) (best : Best) (sh : ℕ) :
    selStep ub ts bs best sh =
      if better (cand ub ts sh).1 best = true ∧ okAt ub ts bs sh then some (cand ub ts sh) else best := by
  unfold selStep cand okAt
  simp only
  by_cases h1 : better (avgDiff sh (scalesAt ub sh ts) ts) best = true <;>
  by_cases h2 : overflow bs (scalesAt ub sh ts) = false <;> simp_all

/-- invariant of `for sh in range(n)`: the state is the *first* admissible shift of minimal mean
error among `0..n-1`, or `none` if no shift is admissible -/
theorem sel_inv (ub : ℕ) (ts : List ℚ) (bs : List ℤ) : ∀ n,
    match (List.range n).foldl (selStep ub ts bs) none with
    | none => ∀ sh, sh < n → ¬ okAt ub ts bs sh
    | some (d, ss, sh) =>
      sh < n ∧ okAt ub ts bs sh ∧ (d, ss, sh) = cand ub ts sh ∧
      (∀ sh', sh' < n → okAt ub ts bs sh' → d ≤ (cand ub ts sh').1) ∧
      (∀ sh', sh' < sh → okAt ub ts bs sh' → d < (cand ub ts sh').1) := by
  intro n
  induction n with
  | zero => simp
  | succ n ih =>
    rw [List.range_succ, List.foldl_append, List.foldl_cons, List.foldl_nil, selStep_eq]
    generalize (List.range n).foldl (selStep ub ts bs) none = best at ih ⊢
    by_cases hc : better (cand ub ts n).1 best = true ∧ okAt ub ts bs n
    · rw [if_pos hc]
      obtain ⟨hb, hok⟩ := hc
      show n < n + 1 ∧ okAt ub ts bs n ∧ _ = cand ub ts n ∧ _ ∧ _
      refine ⟨by omega, hok, rfl, ?_, ?_⟩
      · intro sh' hsh' hok'
        rcases Nat.lt_succ_iff_lt_or_eq.mp hsh' with h | h
        · match best, ih, hb with
          | none, ih, _ => exact absurd hok' (ih sh' h)
          | some (d, ss, sh), ih, hb =>
            have hlt : (cand ub ts n).1 < d := by simpa [better] using hb
            exact le_trans hlt.le (ih.2.2.2.1 sh' h hok')
        · subst h; exact le_rfl
      · intro sh' hsh' hok'
        match best, ih, hb with
        | none, ih, _ => exact absurd hok' (ih sh' hsh')
        | some (d, ss, sh), ih, hb =>
          have hlt : (cand ub ts n).1 < d := by simpa [better] using hb
          exact lt_of_lt_of_le hlt (ih.2.2.2.1 sh' hsh' hok')
    · rw [if_neg hc]
      match best, ih, hc with
      | none, ih, hc =>
        intro sh hsh
        rcases Nat.lt_succ_iff_lt_or_eq.mp hsh with h | h
        · exact ih sh h
        · subst h
          intro hok
          exact hc ⟨by simp [better], hok⟩
      | some (d, ss, sh), ih, hc =>
        obtain ⟨h1, h2, h3, h4, h5⟩ := ih
        refine ⟨by omega, h2, h3, ?_, h5⟩
        intro sh' hsh' hok'
        rcases Nat.lt_succ_iff_lt_or_eq.mp hsh' with h | h
        · exact h4 sh' h hok'
        · subst h
          have : ¬ better (cand ub ts sh').1 (some (d, ss, sh)) = true := fun hb => hc ⟨hb, hok'⟩
          have : ¬ (cand ub ts sh').1 < d := by simpa [better] using this
          exact not_lt.mp this

/-- what a successful selection returns -/
theorem intApprox_some {scaleBit shiftPos : ℕ} {ts : List ℚ} {bs : List ℤ} {ss : List ℕ} {sh : ℕ}
    (h : intApprox scaleBit shiftPos ts bs = some (ss, sh)) :
    sh < shiftPos ∧ okAt (upperBound scaleBit) ts bs sh ∧ ss = scalesAt (upperBound scaleBit) sh ts ∧
    (∀ sh', sh' < shiftPos → okAt (upperBound scaleBit) ts bs sh' →
      avgDiff sh ss ts ≤ (cand (upperBound scaleBit) ts sh').1) ∧
    (∀ sh', sh' < sh → okAt (upperBound scaleBit) ts bs sh' →
      avgDiff sh ss ts < (cand (upperBound scaleBit) ts sh').1) := by
  unfold intApprox at h
  split_ifs at h
  have inv := sel_inv (upperBound scaleBit) ts bs shiftPos
  generalize (List.range shiftPos).foldl (selStep (upperBound scaleBit) ts bs) none = best at inv h
  match best, inv, h with
  | none, _, h => simp at h
  | some (d, ss', sh'), inv, h =>
    simp only [Option.map_some, Option.some.injEq, Prod.mk.injEq] at h
    obtain ⟨rfl, rfl⟩ := h
    obtain ⟨h1, h2, h3, h4, h5⟩ := inv
    have hss : ss' = scalesAt (upperBound scaleBit) sh' ts := by
      have := congrArg (fun c => c.2.1) h3; simpa [cand] using this
    have hd : d = avgDiff sh' ss' ts := by
      have := congrArg (fun c => c.1) h3; simp only [cand] at this; rw [this, hss]
    rw [← hd]
    exact ⟨h1, h2, hss, h4, h5⟩

/-- when the selection fails on a non-empty channel list, no shift is admissible -/
theorem intApprox_none {scaleBit shiftPos : ℕ} {ts : List ℚ} {bs : List ℤ} (hts : ts ≠ [])
    (h : intApprox scaleBit shiftPos ts bs = none) :
    ∀ sh, sh < shiftPos → ¬ okAt (upperBound scaleBit) ts bs sh := by
  unfold intApprox at h
  have he : ts.isEmpty = false := by cases ts <;> simp_all
  simp only [he, Bool.false_eq_true, if_false, Option.map_eq_none_iff] at h
  have inv := sel_inv (upperBound scaleBit) ts bs shiftPos
  rw [h] at inv
  exact inv

theorem scalesAt_length (ub sh : ℕ) (ts : List ℚ) : (scalesAt ub sh ts).length = ts.length := by
  unfold scalesAt; simp

theorem scalesAt_range {ub : ℕ} (hub : 1 ≤ ub) (sh : ℕ) (ts : List ℚ) :
    ∀ s ∈ scalesAt ub sh ts, 1 ≤ s ∧ s ≤ ub := by
  intro s hs
  unfold scalesAt at hs
  obtain ⟨t, _, rfl⟩ := List.mem_map.mp hs
  obtain ⟨h1, h2, _, _⟩ := bsearch_spec (x := t) (divOf_pos sh) hub
  exact ⟨h1, h2⟩

theorem overflow_false_iff (bs : List ℤ) (ss : List ℕ) :
    overflow bs ss = false ↔ ∀ p ∈ bs.zip ss, -(2 ^ 31 : ℤ) ≤ p.1 * (p.2 : ℤ) ∧ p.1 * (p.2 : ℤ) ≤ 2 ^ 31 - 1 := by
  unfold overflow
  rw [List.any_eq_false]
  constructor
  · intro h p hp
    have := h p hp
    simp only [Bool.or_eq_true, decide_eq_true_eq, not_or, not_lt, gt_iff_lt] at this
    exact ⟨this.2, this.1⟩
  · intro h p hp
    have := h p hp
    simp only [Bool.or_eq_true, decide_eq_true_eq, not_or, not_lt, gt_iff_lt]
    exact ⟨this.2, this.1⟩

end PlinioVerif.Integer
