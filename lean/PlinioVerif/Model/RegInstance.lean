import PlinioVerif.Model.CostNum
import PlinioVerif.Gen.Reg
/-!
# A `DUCCIO` object across calls (C19; hand-written over the generated functions, core Lean only)

`DUCCIO.__call__` writes exactly one attribute, `self.final_strengths`, and only while it is `None`
(lazy derivation from `task_loss` at the first call).  This file models the object with that one
piece of state on top of the *generated* functions `Gen.duccio.derived_strength` and
`Gen.duccio.call`; `zip(self.targets.items(), self.final_strengths)` pairs the i-th target with the
i-th strength.  Tied to the code by the translator (which refuses a `__call__` of another shape) and
by the call-history correspondence of `harness/props/c19.py`.
-/
namespace PlinioVerif.RegInst

/-- the attributes of a `DUCCIO` object: targets in dictionary order, `task_loss`, and
`final_strengths` (`none` = not given and not yet derived) -/
structure Instance where
  targets : List Rat
  taskLoss : Rat
  finalStrengths : Option (List Rat)

/-- one call `regularizer(model, epoch, n_epochs)`: the model's current costs in the order of the
targets (`regularizer(model)` is `epoch = n_epochs = 1`) -/
structure Call where
  costs : List Rat
  epoch : Rat
  nEpochs : Rat

/-- the strengths a call works with: the stored ones, or those derived from the costs it sees -/
def Instance.strengthsFor (i : Instance) (costs : List Rat) : List Rat :=
  match i.finalStrengths with
  | some ss => ss
  | none => (costs.zip i.targets).map fun ct => Gen.duccio.derived_strength.val i.taskLoss ct.1 ct.2

/-- the derivation divides by zero when a cost equals its target -/
def Instance.strengthsOk (i : Instance) (costs : List Rat) : Bool :=
  match i.finalStrengths with
  | some _ => true
  | none => (costs.zip i.targets).all fun ct => Gen.duccio.derived_strength.ok i.taskLoss ct.1 ct.2

/-- value of a call given the strengths in force -/
def Instance.value (i : Instance) (ss : List Rat) (c : Call) : Rat :=
  Gen.duccio.call.val (c.costs.zip (i.targets.zip ss)) c.epoch c.nEpochs

def Instance.valueOk (i : Instance) (ss : List Rat) (c : Call) : Bool :=
  Gen.duccio.call.ok (c.costs.zip (i.targets.zip ss)) c.epoch c.nEpochs

/-- `__call__`: new object state and returned value -/
def Instance.call (i : Instance) (c : Call) : Instance × Rat :=
  let ss := i.strengthsFor c.costs
  ({ i with finalStrengths := some ss }, i.value ss c)

/-- the values returned along a history of calls on one object -/
def Instance.run : Instance → List Call → List Rat
  | _, [] => []
  | i, c :: cs => (i.call c).2 :: Instance.run (i.call c).1 cs

/-- same with `none` where the Python leaves the numbers (division by zero; an infinite derived
strength poisons every later call) -/
def Instance.runOk : Instance → Bool → List Call → List (Option Rat)
  | _, _, [] => []
  | i, good, c :: cs =>
    let good' := good && i.strengthsOk c.costs
    (if good' && i.valueOk (i.strengthsFor c.costs) c then some (i.call c).2 else none)
      :: Instance.runOk (i.call c).1 good' cs

end PlinioVerif.RegInst
