/-!
# Model of the mixed-precision search (`plinio/methods/mps`) — C02, C05   (core Lean only)

A network is an SSA list of nodes as `torch.fx` traces it after Conv-BN / Linear-BN fusion
(`fuse_mps_modules`): node `i` reads earlier nodes `a` (and `b` for an add).  The conversion of
`mps/graph.py` is modelled on that list without re-indexing: the searchable modules of the converted
graph are *slots* — `inq i` (the `MPSIdentity` inserted after placeholder `i` by
`add_input_quantizer`), `layer i` (`MPSConv2d/MPSConv1d/MPSLinear` replacing node `i`), `addq i` (the
`MPSAdd` inserted after add node `i`); every consumer of a placeholder / add reads the inserted slot.

* `labels`     : `build_shared_mps_qtz_map` — weakly connected components of the graph without the
                 edges into features-defining nodes; one activation and one weight quantizer object
                 per component (`QId.act l`, `QId.wgt l`)
* `walkProd`   : `register_in_mps_quantizers` after fix 7bc98cd (first inputs back to the nearest
                 searchable module); `setBy`/`walkPinned` is the walk of the pinned tree
* `argmax`, `onehot`, `mix`, `exportPlan` : eval/hard sampling, selection, what `export()` builds
* `evalMPS`, `evalExport` : the two networks over abstract quantizer functions
* cost: `modifiedVars`, `costMatrix`, `layerCost`, `effIn` (features calculators), cost functions
  reading a spec by PyTorch attribute names.
-/
namespace PlinioVerif.MPS

/-! ## programs -/

inductive Kind where
  | input | conv | dw | linear | pass | flatten | add | output
deriving DecidableEq, Repr, Inhabited

/-- searchable layer types (keys of `mps_layer_map`) -/
inductive LType where
  | conv1d | conv2d | linear
deriving DecidableEq, Repr, Inhabited

structure Node where
  kind : Kind := .pass
  a : Nat := 0          -- first input
  b : Nat := 0          -- second input (add)
  lt : LType := .conv2d
  cin : Nat := 0        -- static in_channels / in_features; for `input`: channels of the placeholder
  cout : Nat := 0       -- static out_channels / out_features
  k0 : Nat := 1
  k1 : Nat := 1
  o0 : Nat := 1         -- output_shape[2]
  o1 : Nat := 1         -- output_shape[3]
  bias : Bool := false  -- has a bias (own, or created by BatchNorm fusion)
  mult : Nat := 1       -- flatten: spatial multiplier
  dup : Bool := false   -- a further invocation (fx call site) of a layer module invoked earlier
  ta : Nat := 0         -- dup: the tensor node fed to the FIRST call site of that module
  tf : Nat := 0         -- dup: the node of the FIRST call site of that module
deriving Repr, Inhabited

abbrev Prog := List Node

def Prog.nd (p : Prog) (i : Nat) : Node := p.getD i {}

/-- left-to-right evaluation of an SSA list: the value of a node is computed from the values of
the nodes before it -/
def scan {α β : Type} (g : List β → α → β) (l : List α) : List β :=
  l.foldl (fun acc x => acc ++ [g acc x]) []

/-- node replaced by a searchable layer (`mps_layer_map`) -/
def Kind.isLayer : Kind → Bool
  | .conv | .dw | .linear => true
  | _ => false

/-- `is_features_defining_op`: placeholder, non-depthwise conv, linear -/
def Kind.defining : Kind → Bool
  | .input | .conv | .linear => true
  | _ => false

/-- every argument refers to an earlier node -/
def WF (p : Prog) : Prop := ∀ i, i < p.length → (p.nd i).kind ≠ .input → (p.nd i).a < i ∧ (p.nd i).b < i

def wfB (p : Prog) : Bool :=
  (List.range p.length).all fun i =>
    (p.nd i).kind = .input || (decide ((p.nd i).a < i) && decide ((p.nd i).b < i))

/-- the tie argument of a further call site refers to an earlier node -/
def tieOK (p : Prog) : Bool :=
  (List.range p.length).all fun i => !(p.nd i).dup || (decide ((p.nd i).ta < i) && decide ((p.nd i).tf < i))

/-! ## sharing of quantizers (`build_shared_mps_qtz_map`) -/

def relabel (old new : Nat) (ls : List Nat) : List Nat :=
  ls.map fun x => if x = old then new else x

/-- tie edge (after 3725f20): the tensor fed to a further call site of a layer module joins the
component of the tensor fed to its first call site (the module owns one in-quantizer and one
features calculator) -/
def tieLabels (ls : List Nat) (nd : Node) : List Nat :=
  if nd.dup then relabel (ls.getD nd.a 0) (ls.getD nd.ta 0) ls else ls

/-- label of a features-defining layer node: its own component, or — for a further call site of a
module invoked earlier — the component of the first call site (the module owns one output and one
weight quantizer; call sites are merged like in PIT's sharing graph) -/
def siteLabel (ls : List Nat) (nd : Node) : Nat :=
  if nd.dup then (tieLabels ls nd).getD nd.tf 0 else ls.length

/-- component label of the next node; an add merges the components of its two operands -/
def stepLabel (ls : List Nat) (nd : Node) : List Nat :=
  match nd.kind with
  | .input => ls ++ [ls.length]
  | .conv | .linear => tieLabels ls nd ++ [siteLabel ls nd]
  | .add => relabel (ls.getD nd.b 0) (ls.getD nd.a 0) ls ++ [ls.getD nd.a 0]
  | .dw => tieLabels ls nd ++ [(tieLabels ls nd).getD nd.a 0]
  | _ => ls ++ [ls.getD nd.a 0]

/-- `stepLabel` with the tie between the tensors fed to the call sites (3725f20) but without the
merge of the call sites themselves, for the regression witness -/
def stepLabelUnmerged (ls : List Nat) (nd : Node) : List Nat :=
  match nd.kind with
  | .input => ls ++ [ls.length]
  | .conv | .linear => tieLabels ls nd ++ [ls.length]
  | .add => relabel (ls.getD nd.b 0) (ls.getD nd.a 0) ls ++ [ls.getD nd.a 0]
  | .dw => tieLabels ls nd ++ [(tieLabels ls nd).getD nd.a 0]
  | _ => ls ++ [ls.getD nd.a 0]

def labelsUnmerged (p : Prog) : List Nat := p.foldl stepLabelUnmerged []

/-- `stepLabel` without the tie edge (the tree before 3725f20), for the regression witness -/
def stepLabelPinned (ls : List Nat) (nd : Node) : List Nat :=
  match nd.kind with
  | .input | .conv | .linear => ls ++ [ls.length]
  | .add => relabel (ls.getD nd.b 0) (ls.getD nd.a 0) ls ++ [ls.getD nd.a 0]
  | _ => ls ++ [ls.getD nd.a 0]

def labelsPinned (p : Prog) : List Nat := p.foldl stepLabelPinned []

def labels (p : Prog) : List Nat := p.foldl stepLabel []

def Prog.lab (p : Prog) (i : Nat) : Nat := (labels p).getD i 0

/-- the component holds a graph output: its activation quantizer is the `DummyQuantizer` -/
def hasOutput (p : Prog) (l : Nat) : Bool :=
  (List.range p.length).any fun i => (p.nd i).kind = .output && p.lab i = l

/-- the component holds a network input: its layers cannot prune their channels (c5daca1) -/
def hasInput (p : Prog) (l : Nat) : Bool :=
  (List.range p.length).any fun i => (p.nd i).kind = .input && p.lab i = l

/-! ## quantizer objects and searchable modules -/

inductive QId where
  | act (l : Nat)   -- `sq_a` of component `l`
  | wgt (l : Nat)   -- `sq_w` of component `l`
  | inp (i : Nat)   -- quantizer of the `MPSIdentity` inserted after placeholder `i`
  | dflt            -- `MPSPerLayerQtz((-1,), DummyQuantizer)` created by a layer's constructor
deriving DecidableEq, Repr, Inhabited

inductive Slot where
  | inq (i : Nat) | layer (i : Nat) | addq (i : Nat)
deriving DecidableEq, Repr, Inhabited

def Slot.idx : Slot → Nat
  | .inq i | .layer i | .addq i => i

/-- searchable modules of the converted graph, in graph order -/
def slots (p : Prog) : List Slot :=
  (List.range p.length).filterMap fun i =>
    match (p.nd i).kind with
    | .input => some (.inq i)
    | .conv | .dw | .linear => some (.layer i)
    | .add => some (.addq i)
    | _ => none

def outQ (p : Prog) : Slot → QId
  | .inq i => .inp i
  | .layer i => .act (p.lab i)
  | .addq i => .act (p.lab i)

def wQ (p : Prog) (i : Nat) : QId := .wgt (p.lab i)

/-- `register_in_mps_quantizers` (after 7bc98cd): from the tensor node `i` visible to a consumer,
follow first inputs back to the nearest searchable module -/
def walkProd (p : Prog) : Nat → Nat → Option Slot
  | 0, _ => none
  | f + 1, i =>
    match (p.nd i).kind with
    | .input => some (.inq i)
    | .conv | .dw | .linear => some (.layer i)
    | .add => some (.addq i)
    | _ => walkProd p f (p.nd i).a

/-- the call site whose producer a layer module keeps as its input quantizer: a module invoked
more than once is registered at its FIRST call site only (580a9ad) -/
def firstSite (p : Prog) (i : Nat) : Nat := if (p.nd i).dup then (p.nd i).tf else i

/-- searchable module whose output the slot consumes (`none`: a placeholder); for a layer module
invoked more than once: at its first call site -/
def producer (p : Prog) : Slot → Option Slot
  | .inq _ => none
  | .layer i => walkProd p (firstSite p i + 1) (p.nd (firstSite p i)).a
  | .addq i => walkProd p (i + 1) (p.nd i).a

/-- `in_mps_quantizer` of a searchable module -/
def inQ (p : Prog) (s : Slot) : QId :=
  match producer p s with
  | some s' => outQ p s'
  | none => .dflt

/-! ### the walk of the pinned tree (before 7bc98cd), kept for the regression witness -/

/-- node of the converted graph -/
inductive Ref where
  | src (i : Nat) | inq (i : Nat) | addq (i : Nat)
deriving DecidableEq, Repr, Inhabited

/-- `associate_input_features` on the converted graph: `input_features_set_by` of source node `i`
(the inserted `addq i` has the same entry, `inq i` is set by its placeholder) -/
def nodeSetBy (p : Prog) (sb : List Ref) (nd : Node) : Ref :=
  match nd.kind with
  | .input => .src sb.length
  | _ =>
    match (p.nd nd.a).kind with
    | .input => .inq nd.a
    | .conv | .linear | .flatten => .src nd.a
    | _ => sb.getD nd.a (.src 0)

def setBy (p : Prog) : List Ref := scan (nodeSetBy p) p

def walkPinned (p : Prog) (sb : List Ref) : Nat → Ref → Option Slot
  | 0, _ => none
  | f + 1, r =>
    match r with
    | .inq j => some (.inq j)
    | .addq j => some (.addq j)
    | .src j =>
      match (p.nd j).kind with
      | .conv | .dw | .linear => some (.layer j)
      | .input => none
      | _ => walkPinned p sb f (sb.getD j (.src 0))

def inQPinned (p : Prog) (s : Slot) : QId :=
  match s with
  | .inq _ => .dflt
  | .layer i | .addq i =>
    match walkPinned p (setBy p) (p.length + 1) ((setBy p).getD i (.src 0)) with
    | some s' => outQ p s'
    | none => .dflt

/-! ## candidates, sampling, selection -/

structure Cfg where
  ap : List Int          -- `layer_default.output.search_precision`
  ip : List Int          -- `input_default.search_precision`
  wp : List Int          -- `layer_default.weight.search_precision`
  perChannel : Bool := false
deriving Repr, Inhabited

/-- candidate precisions of a quantizer object, in registration order -/
def precOf (p : Prog) (c : Cfg) : QId → List Int
  | .act l => if hasOutput p l then [-1] else c.ap
  | .wgt l => if c.perChannel && (hasOutput p l || hasInput p l) then c.wp.filter (· ≠ 0) else c.wp
  | .inp _ => c.ip
  | .dflt => [-1]

def argmaxAux : List Rat → Nat → Nat → Rat → Nat
  | [], _, best, _ => best
  | x :: xs, i, best, bv => if bv < x then argmaxAux xs (i + 1) i x else argmaxAux xs (i + 1) best bv

/-- index of the first maximum (`torch.argmax`; generators exclude ties) -/
def argmax : List Rat → Nat
  | [] => 0
  | x :: xs => argmaxAux xs 1 0 x

section
variable {R : Type} [Zero R] [One R]

def onehot (n k : Nat) : List R := (List.range n).map fun i => if i = k then 1 else 0

/-- `sample_alpha_sm` in eval mode or with `hard_softmax`: `STEArgmax` of the soft-max -/
def sampleHard (α : List Rat) : List R := onehot α.length (argmax α)
end

/-- column `c` of a `(precisions × channels)` matrix -/
def column (m : List (List Rat)) (c : Nat) : List Rat := m.map fun row => row.getD c 0

def nCols (m : List (List Rat)) : Nat := (m.headD []).length

/-- per-channel `STEArgmax`: one one-hot column per channel -/
def sampleHardM (α : List (List Rat)) : List (List Rat) :=
  (List.range α.length).map fun r =>
    (List.range (nCols α)).map fun c => if argmax (column α c) = r then 1 else 0

def ratSum (l : List Rat) : Rat := l.foldl (· + ·) 0

/-- `theta_alpha.mean(dim=1)` -/
def rowMean (m : List (List Rat)) : List Rat := m.map fun row => ratSum row / (row.length : Rat)

/-- what `theta_alpha.mean(dim=0)` would give (wrong axis; for the driver's self-description only) -/
def colMean (m : List (List Rat)) : List Rat :=
  (List.range (nCols m)).map fun c => ratSum (column m c) / (m.length : Rat)

/-! ## what `export()` builds and `summary()` reports -/

structure Sel where
  q : QId
  idx : Nat
  bits : Int
deriving Repr, DecidableEq, Inhabited

def selOf (p : Prog) (c : Cfg) (α : QId → List Rat) (q : QId) : Sel :=
  let k := argmax (α q)
  ⟨q, k, (precOf p c q).getD k 0⟩

structure LayerPlan where
  slot : Slot
  inS : Sel
  wS : Option Sel        -- conv / linear only
  outS : Sel
  hasB : Bool
deriving Repr, Inhabited

/-- `MPS*.export`: the selected quantizer objects handed to the `Quant*` layer -/
def planOf (p : Prog) (c : Cfg) (α : QId → List Rat) (s : Slot) : LayerPlan :=
  { slot := s
    inS := selOf p c α (inQ p s)
    wS := match s with
      | .layer i => some (selOf p c α (wQ p i))
      | _ => none
    outS := selOf p c α (outQ p s)
    hasB := match s with
      | .layer i => (p.nd i).bias
      | _ => false }

def exportPlan (p : Prog) (c : Cfg) (α : QId → List Rat) : List LayerPlan :=
  (slots p).map (planOf p c α)

/-! ## the two networks over abstract quantizer functions -/

section
variable {R V : Type}

/-- weighted sum of the candidate results (`torch.stack(y).sum(0)` with `y_i = theta_i * q_i(x)`) -/
def mix [Zero V] [Add V] [SMul R V] : List R → List V → V
  | θ :: θs, y :: ys => θ • y + mix θs ys
  | _, _ => 0

/-- Everything the theorems treat as opaque: quantizer functions and scales per object and
candidate, layer kernels, element-wise ops, parameters.  One tensor type `V`. -/
structure Sem (V : Type) where
  actQ : QId → Nat → V → V          -- candidate `k` of an activation quantizer object
  actS : QId → Nat → V              -- its scale
  wgtQ : QId → Nat → V → V          -- candidate `k` of a weight quantizer object
  wgtS : QId → Nat → V → V          -- its scale after quantizing that weight
  biasQ : Nat → V → V → V → V       -- bias quantizer of layer `i`: bias, input scale, weight scale
  kernel : Nat → V → V → Option V → V   -- conv / linear of node `i`: input, weight, bias
  unary : Nat → V → V               -- relu, pooling, flatten, output of node `i`
  plus : V → V → V
  weight : Nat → V
  bias : Nat → Option V
  input : Nat → V                   -- value fed to placeholder `i`

variable [Zero V] [Add V] [SMul R V]

/-- candidates `0 .. n-1` of `f`, mixed with the sampled coefficients -/
def mixQ (θ : List R) (n : Nat) (f : Nat → V) : V := mix θ ((List.range n).map f)

/-- one node of the searchable network: `MPSIdentity/MPSConv*/MPSLinear/MPSAdd.forward` -/
def nodeMPS (p : Prog) (S : Sem V) (θ : QId → List R) (n : QId → Nat) (vals : List V) (nd : Node) :
    V :=
  let i := vals.length
  let x := vals.getD nd.a 0
  match nd.kind with
    | .input => mixQ (θ (.inp i)) (n (.inp i)) fun k => S.actQ (.inp i) k (S.input i)
    | .conv | .dw | .linear =>
      let qi := inQ p (.layer i); let qw := wQ p i; let qo := outQ p (.layer i)
      let w := mixQ (θ qw) (n qw) fun k => S.wgtQ qw k (S.weight i)
      let b := (S.bias i).map fun b =>
        S.biasQ i b (mixQ (θ qi) (n qi) fun k => S.actS qi k)
                    (mixQ (θ qw) (n qw) fun k => S.wgtS qw k (S.weight i))
      let out := S.kernel i x w b
      mixQ (θ qo) (n qo) fun k => S.actQ qo k out
    | .add =>
      let qo := outQ p (.addq i)
      let s := S.plus x (vals.getD nd.b 0)
      mixQ (θ qo) (n qo) fun k => S.actQ qo k s
    | _ => S.unary i x

def evalMPS (p : Prog) (S : Sem V) (θ : QId → List R) (n : QId → Nat) : List V :=
  scan (nodeMPS p S θ n) p

/-- one node of the exported network: `QuantIdentity/QuantConv2d/QuantLinear.forward` with the
quantizers of the export plan -/
def nodeExport (S : Sem V) (plan : Slot → LayerPlan) (vals : List V) (nd : Node) : V :=
  let i := vals.length
  let x := vals.getD nd.a 0
  match nd.kind with
    | .input => let o := (plan (.inq i)).outS; S.actQ o.q o.idx (S.input i)
    | .conv | .dw | .linear =>
      let pl := plan (.layer i)
      let ws := pl.wS.getD default
      let w := S.wgtQ ws.q ws.idx (S.weight i)
      let b := (S.bias i).map fun b =>
        S.biasQ i b (S.actS pl.inS.q pl.inS.idx) (S.wgtS ws.q ws.idx (S.weight i))
      let out := S.kernel i x w b
      S.actQ pl.outS.q pl.outS.idx out
    | .add =>
      let o := (plan (.addq i)).outS
      S.actQ o.q o.idx (S.plus x (vals.getD nd.b 0))
    | _ => S.unary i x

def evalExport (p : Prog) (S : Sem V) (plan : Slot → LayerPlan) : List V :=
  scan (nodeExport S plan) p

end

/-! ## tensors and the quantizer that produced them -/

/-- quantizer object that last quantized the tensor a consumer of node `i` reads (carried along
the evaluation: quantizing nodes set it, element-wise nodes pass it on) -/
def nodeTag (p : Prog) (tags : List QId) (nd : Node) : QId :=
  match nd.kind with
  | .input => .inp tags.length
  | .conv | .dw | .linear | .add => .act (p.lab tags.length)
  | _ => tags.getD nd.a .dflt

def tags (p : Prog) : List QId := scan (nodeTag p) p

/-! ## cost -/

abbrev Spec := List (String × Rat)

/-- dictionary read; a missing key is Python's `KeyError` (`none`) -/
def Spec.get? (s : Spec) (k : String) : Option Rat := s.lookup k

/-- dictionary write (`v[k] = x`) -/
def Spec.set (s : Spec) (k : String) (x : Rat) : Spec := (k, x) :: s

/-- attribute names of the PyTorch layer types (`nn.Conv1d/nn.Conv2d/nn.Linear.__init__`) -/
def torchKeys : LType → String × String
  | .conv1d => ("in_channels", "out_channels")
  | .conv2d => ("in_channels", "out_channels")
  | .linear => ("in_features", "out_features")

/-- keys `get_modified_vars` overwrites, per MPS layer class (after 24c09d2) -/
def modKeys : LType → String × String
  | .conv1d => ("in_channels", "out_channels")
  | .conv2d => ("in_channels", "out_channels")
  | .linear => ("in_features", "out_features")

/-- the table of the pinned tree (before 24c09d2) -/
def modKeysPinned : LType → String × String
  | .conv1d => ("in_channels", "out_channels")
  | .conv2d => ("in_channels", "out_channels")
  | .linear => ("in_channels", "out_channels")

/-- `vars(layer)` restricted to what cost functions read, plus `output_shape` -/
def staticVars (nd : Node) : Spec :=
  [((torchKeys nd.lt).1, (nd.cin : Rat)), ((torchKeys nd.lt).2, (nd.cout : Rat)),
   ("k0", (nd.k0 : Rat)), ("k1", (nd.k1 : Rat)), ("o0", (nd.o0 : Rat)), ("o1", (nd.o1 : Rat)),
   ("bias", if nd.bias then 1 else 0)]

/-- `get_modified_vars`: effective input width and (after 5b23653) the static output width, written
under the keys of `keys` -/
def modifiedVars (keys : LType → String × String) (nd : Node) (effIn outW : Rat) : Spec :=
  ((staticVars nd).set (keys nd.lt).1 effIn).set (keys nd.lt).2 outW

/-- the spec shown to the cost function for candidate pair `(in_prec, w_prec)` -/
def shownSpec (base : Spec) (pin pw θw : Rat) : Spec :=
  ((base.set "in_precision" pin).set "w_precision" pw).set "w_theta_alpha" θw

/-- `get_cost`: `cost[i][j] = in_theta[i] * w_theta[j] * cost_fn(v_ij)`, rows = input candidates -/
def costMatrix (f : Spec → Rat) (base : Spec) (θin : List Rat) (pin : List Int) (θw : List Rat)
    (pw : List Int) : List (List Rat) :=
  (List.zip θin pin).map fun (ti, pi) =>
    (List.zip θw pw).map fun (tw, pj) => ti * tw * f (shownSpec base pi pj tw)

/-- `cost_reduction_fn = torch.sum` -/
def reduceSum (m : List (List Rat)) : Rat := ratSum (m.map ratSum)

def layerCost (f : Spec → Rat) (base : Spec) (θin : List Rat) (pin : List Int) (θw : List Rat)
    (pw : List Int) : Rat :=
  reduceSum (costMatrix f base θin pin θw pw)

/-- number of alive output features of a layer (`out_features_eff`): all of them in per-layer
search; in per-channel search the columns not assigned to the 0-bit candidate -/
def outEff (cout : Nat) (pw : List Int) (θw : Option (List (List Rat))) : Rat :=
  match θw with
  | none => cout
  | some m =>
    match pw.findIdx? (· = 0) with
    | none => cout
    | some z => (cout : Rat) - ratSum (m.getD z [])

/-- features calculators (`add_features_calculator` + `mps_features_calc`): alive features of the
tensor a consumer of node `i` reads; `oe i` = `out_features_eff` of layer `i` -/
def nodeFeat (sb : List Ref) (oe : Nat → Rat) (fs : List Rat) (nd : Node) : Rat :=
  let i := fs.length
  match nd.kind with
    | .input => (nd.cin : Rat)
    | .conv | .dw | .linear => oe i
    | .flatten => (nd.mult : Rat) * fs.getD nd.a 0
    | .add =>
      -- `MPSAdd.out_features_eff` = its input calculator = calculator of `input_features_set_by`
      match sb.getD i (.src 0) with
      | .src j | .inq j | .addq j => fs.getD j 0
    | _ => fs.getD nd.a 0

def feats (p : Prog) (oe : Nat → Rat) : List Rat := scan (nodeFeat (setBy p) oe) p

/-- `input_features_calculator.features` of layer `i` (`register_input_features`) -/
def effIn (p : Prog) (oe : Nat → Rat) (i : Nat) : Rat :=
  match (setBy p).getD i (.src 0) with
  | .src j | .inq j | .addq j => (feats p oe).getD j 0

/-! ### cost functions, reading the spec by PyTorch attribute names -/

def Spec.val (s : Spec) (k : String) : Rat := (s.get? k).getD 0

/-- `conv_dw_constraint` on the static layer (`_create_cost_fn_map` looks it up once) -/
def Node.isDW (nd : Node) : Bool := nd.kind = .dw

/-- `params_bit` -/
def paramsBit (nd : Node) (s : Spec) : Rat :=
  let (ki, ko) := torchKeys nd.lt
  match nd.lt with
  | .linear => s.val ko * s.val ki * s.val "w_precision"
  | .conv1d =>
    if nd.isDW then s.val "k0" * s.val ko * s.val "w_precision"
    else s.val "k0" * s.val ki * s.val ko * s.val "w_precision"
  | .conv2d =>
    if nd.isDW then s.val "k0" * s.val "k1" * s.val ko * s.val "w_precision"
    else s.val "k0" * s.val "k1" * s.val ki * s.val ko * s.val "w_precision"

/-- `ops_bit` -/
def opsBit (nd : Node) (s : Spec) : Rat :=
  let (ki, ko) := torchKeys nd.lt
  match nd.lt with
  | .linear => s.val ki * s.val ko * s.val "w_precision" * s.val "in_precision"
  | .conv1d =>
    if nd.isDW then s.val "k0" * s.val ko * s.val "w_precision" * s.val "in_precision" * s.val "o0"
    else s.val "k0" * s.val ki * s.val ko * s.val "w_precision" * s.val "in_precision" * s.val "o0"
  | .conv2d =>
    if nd.isDW then
      s.val "k0" * s.val "k1" * s.val ko * s.val "w_precision" * s.val "in_precision" * s.val "o0" * s.val "o1"
    else
      s.val "k0" * s.val "k1" * s.val ki * s.val ko * s.val "w_precision" * s.val "in_precision"
        * s.val "o0" * s.val "o1"

/-- `ops` (MACs, one more per output for a bias) -/
def macs (nd : Node) (s : Spec) : Rat :=
  let (ki, ko) := torchKeys nd.lt
  match nd.lt with
  | .linear => s.val ko * (s.val ki + s.val "bias")
  | .conv1d =>
    if nd.isDW then s.val ki * (s.val "k0" + s.val "bias") * s.val "o0"
    else s.val ko * (s.val ki * s.val "k0" + s.val "bias") * s.val "o0"
  | .conv2d =>
    if nd.isDW then s.val ki * (s.val "k0" * s.val "k1" + s.val "bias") * s.val "o0" * s.val "o1"
    else s.val ko * (s.val ki * s.val "k0" * s.val "k1" + s.val "bias") * s.val "o0" * s.val "o1"

/-- `_mpic_lut` (cycles per MAC), exact rationals of the decimal literals -/
def mpicLut (a w : Rat) : Rat :=
  if w = 0 then 0 else
  if a = 2 then (if w = 2 then 10/65 else if w = 4 then 1/4 else if w = 8 then 10/22 else 0) else
  if a = 4 then (if w = 2 then 10/39 else if w = 4 then 10/35 else if w = 8 then 10/21 else 0) else
  if a = 8 then (if w = 2 then 10/25 else if w = 4 then 10/23 else if w = 8 then 10/21 else 0) else 0

/-- `mpic_latency` -/
def mpicLatency (nd : Node) (s : Spec) : Rat :=
  macs nd s * mpicLut (s.val "in_precision") (s.val "w_precision")

/-! ### what the exact bit-cost of an assignment is made of -/

/-- number of weights of the layer given the alive input width `e` (`numel` of the exported weight
tensor; a depthwise layer has one input channel per group) -/
def numWeights (nd : Node) (e : Rat) : Rat :=
  match nd.kind, nd.lt with
  | .dw, .conv1d => (nd.k0 : Rat) * nd.cout
  | .dw, _ => (nd.k0 : Rat) * nd.k1 * nd.cout
  | _, .linear => e * nd.cout
  | _, .conv1d => (nd.k0 : Rat) * e * nd.cout
  | _, .conv2d => (nd.k0 : Rat) * nd.k1 * e * nd.cout

/-- weights feeding one output channel -/
def weightsPerChannel (nd : Node) (e : Rat) : Rat :=
  match nd.kind, nd.lt with
  | .dw, .conv1d => (nd.k0 : Rat)
  | .dw, _ => (nd.k0 : Rat) * nd.k1
  | _, .linear => e
  | _, .conv1d => (nd.k0 : Rat) * e
  | _, .conv2d => (nd.k0 : Rat) * nd.k1 * e

/-- output positions (each weight is used once per position) -/
def positions (nd : Node) : Rat :=
  match nd.lt with
  | .linear => 1
  | .conv1d => nd.o0
  | .conv2d => (nd.o0 : Rat) * nd.o1

/-! ### cost of a network for given sampled coefficients -/

/-- sampled coefficients per quantizer object: vectors for per-layer objects, matrices
`(precisions × channels)` for per-channel weight objects -/
structure Sampled where
  θ : QId → List Rat
  θM : QId → Option (List (List Rat)) := fun _ => none

/-- weight coefficients as `get_cost` uses them: the vector, or the row means of the matrix -/
def wShares (s : Sampled) (q : QId) : List Rat :=
  match s.θM q with
  | some m => rowMean m
  | none => s.θ q

def outEffOf (p : Prog) (c : Cfg) (s : Sampled) (i : Nat) : Rat :=
  outEff (p.nd i).cout (precOf p c (wQ p i)) (s.θM (wQ p i))

/-- spec of layer `i` before the precisions are filled in -/
def baseSpec (keys : LType → String × String) (p : Prog) (c : Cfg) (s : Sampled) (i : Nat) : Spec :=
  modifiedVars keys (p.nd i) (effIn p (outEffOf p c s) i) (p.nd i).cout

/-- `MPSConv*/MPSLinear.get_cost` reduced by `torch.sum` -/
def layerCostOf (f : Node → Spec → Rat) (p : Prog) (c : Cfg) (s : Sampled) (i : Nat) : Rat :=
  layerCost (f (p.nd i)) (baseSpec modKeys p c s i)
    (s.θ (inQ p (.layer i))) (precOf p c (inQ p (.layer i)))
    (wShares s (wQ p i)) (precOf p c (wQ p i))

def layerIdxs (p : Prog) : List Nat :=
  (slots p).filterMap fun s => match s with | .layer i => some i | _ => none

/-- sum of the layer costs over a list of call sites -/
def netCostOn (idxs : List Nat) (f : Node → Spec → Rat) (p : Prog) (c : Cfg) (s : Sampled) : Rat :=
  ratSum (idxs.map (layerCostOf f p c s))

/-- `MPS._get_single_cost` for a **non-shared** specification (`ops_bit`, `mpic_latency`,
`ne16_latency`): `_leaf_modules` holds one entry per fx call site, each costed with the output shape of
its own node (the inserted identity / add quantizers cost 0) -/
def netCost (f : Node → Spec → Rat) (p : Prog) (c : Cfg) (s : Sampled) : Rat :=
  netCostOn (layerIdxs p) f p c s

/-- first invocations only (`_unique_leaf_modules`) -/
def sharedIdxs (p : Prog) : List Nat := (layerIdxs p).filter fun i => !(p.nd i).dup

/-- `MPS._get_single_cost` for a **shared** specification (`params_bit`): every layer module is
charged once, however often it is invoked -/
def netCostShared (f : Node → Spec → Rat) (p : Prog) (c : Cfg) (s : Sampled) : Rat :=
  netCostOn (sharedIdxs p) f p c s

/-- eval / hard mode, per-layer search -/
def hardSampled (α : QId → List Rat) : Sampled := { θ := fun q => sampleHard (α q) }

/-- eval / hard mode, per-channel weight search (`αM`: coefficient matrices of the weight objects) -/
def hardSampledPC (α : QId → List Rat) (αM : QId → List (List Rat)) : Sampled :=
  { θ := fun q => sampleHard (α q)
    θM := fun q => match q with
      | .wgt _ => some (sampleHardM (αM q))
      | _ => none }

end PlinioVerif.MPS
