import PlinioVerif.Model.PIT.CostLink
/-!
# The straight-through-gradient reading of the translated cost models (C12)

`CostNum Dual`: value and derivative with respect to one scalar parameter.  Smooth operations
follow the calculus rules autograd applies; `floor` has zero derivative (plain `torch.floor`);
a `torch.autograd.Function` (`ste`) is a primitive whose derivative is what its translated
`backward` returns for an incoming gradient 1 — **not** the derivative of its `forward`.
-/
namespace PlinioVerif
open PlinioVerif.PIT

instance instCostNumDual : CostNum Dual where
  ofRat q := ⟨q, 0⟩
  valOf x := x.v
  add a b := ⟨a.v + b.v, a.d + b.d⟩
  sub a b := ⟨a.v - b.v, a.d - b.d⟩
  mul a b := ⟨a.v * b.v, a.d * b.v + a.v * b.d⟩
  div a b := ⟨a.v / b.v, (a.d * b.v - a.v * b.d) / (b.v * b.v)⟩
  floor a := ⟨ratFloor a.v, 0⟩
  abs a := ⟨absR a.v, Dual.sgn a.v * a.d⟩
  min a b := if a.v ≤ b.v then a else b
  max a b := if a.v ≤ b.v then b else a
  ste name fwd bwd args :=
    let vs := args.map (·.v)
    let gs := bwd vs 1
    -- `ComputeOxUnrollSTE.forward` returns an *integer* tensor: torch marks it non-differentiable and
    -- never calls its `backward` (observed and tied by the gradient correspondence of C12)
    if name = "ComputeOxUnrollSTE" then ⟨fwd vs, 0⟩ else
    ⟨fwd vs, ((List.range args.length).map fun i => (gs.getD i none).getD 0 * (args.getD i ⟨0, 0⟩).d).sum⟩

/-- a layer description in the Dual reading from its value and the derivative of each numeric key -/
def LSpec.dual (s ds : LSpec Rat) : LSpec Dual :=
  { in_channels := ⟨s.in_channels, ds.in_channels⟩, out_channels := ⟨s.out_channels, ds.out_channels⟩,
    in_features := ⟨s.in_features, ds.in_features⟩, out_features := ⟨s.out_features, ds.out_features⟩,
    groups := ⟨s.groups, 0⟩, w_precision := ⟨s.w_precision, ds.w_precision⟩,
    in_precision := ⟨s.in_precision, 0⟩, a_precision := ⟨s.a_precision, 0⟩,
    w_theta_alpha := ⟨s.w_theta_alpha, ds.w_theta_alpha⟩,
    kernel_size := List.zipWith (fun a b => ⟨a, b⟩) s.kernel_size
      (ds.kernel_size ++ List.replicate s.kernel_size.length 0),
    output_shape := s.output_shape.map (⟨·, 0⟩),
    hasBias := s.hasBias, has_a_precision := s.has_a_precision }

/-- description of a Conv1d with static kernel `k` and `g` groups in the Dual reading, the derivative
seeded at `alpha[i]` (PIT converts `groups == 1` or depthwise convolutions only, so `g = 1` for every
layer the generic handler sees in a search; the size / operation counts divide by `g`) -/
def conv1dAlphaDual (dsc : Bool) (C : Nat) (α : Nat → Rat) (i : Nat) (cin g k : Rat) (bias : Bool) : LSpec Dual :=
  { (LSpec.empty : LSpec Dual) with
    in_channels := ⟨cin, 0⟩, out_channels := outEffD dsc C (seedAt α i), groups := ⟨g, 0⟩,
    kernel_size := [⟨k, 0⟩], hasBias := bias }


end PlinioVerif
