/-!
# `CostNum` — the carrier of the translated cost models (C16, C19; reused by C12)

Hand-written prelude of the generated files `PlinioVerif/Gen/*.lean` (core Lean only).

The translator (`/verif/translator/py2lean.py`) emits every arithmetic function of
`plinio/cost/*.py` and of the regularizers once, over an arbitrary type `α` with a `CostNum α`
instance ("one definition, several readings", DESIGN §6 C12):

* `CostNum Rat` (below) is the **value reading**: what the Python function returns, with
  float32/float64 numbers read as exact rationals.  All C16/C19 theorems are about it.
* another instance (e.g. a `Dual` of value and derivative, or an expression tree for
  reverse-mode differentiation) gives the straight-through-gradient reading: a
  `torch.autograd.Function` is a *primitive* (`ste`) that carries its translated `forward`
  and its translated `backward`, so a reading can evaluate the former and differentiate with
  the latter (and not with the derivative of `forward`).

Python semantics kept by the translation: `//` is `floor (a / b)`, `%` is
`a - b * floor (a / b)`; comparisons are taken on the value (`valOf`).  Division by zero is not a
number in Python (exception, `inf` or `nan`); the translator therefore emits, next to every
`f.val`, a Boolean `f.ok` that is `false` whenever the Python function raises (assert, `raise`,
bad index, tuple-unpack of the wrong length, key outside a look-up table) or divides by zero.
-/
namespace PlinioVerif

/-- numeric carrier of the translated cost models -/
class CostNum (α : Type) where
  /-- numeric literal -/
  ofRat : Rat → α
  /-- the value, used by comparisons (`if`, `assert`, `max`-style gates) -/
  valOf : α → Rat
  add : α → α → α
  sub : α → α → α
  mul : α → α → α
  div : α → α → α
  /-- `math.floor` / `torch.floor` -/
  floor : α → α
  abs : α → α
  min : α → α → α
  max : α → α → α
  /-- `X.apply(args)` for a `torch.autograd.Function` `X`: name of the class, its translated
  `forward` (on values) and its translated `backward` (values of the inputs, incoming
  gradient ↦ gradient per input, `none` where the Python returns `None`) -/
  ste : String → (List Rat → Rat) → (List Rat → Rat → List (Option Rat)) → List α → α

/-- `⌊x⌋` as a rational -/
def ratFloor (x : Rat) : Rat := ((x.floor : Int) : Rat)

/-- the value reading -/
instance instCostNumRat : CostNum Rat where
  ofRat q := q
  valOf x := x
  add a b := a + b
  sub a b := a - b
  mul a b := a * b
  div a b := a / b
  floor := ratFloor
  abs x := if x < 0 then -x else x
  min a b := if a ≤ b then a else b
  max a b := if a ≤ b then b else a
  ste _ fwd _ args := fwd args

namespace CostNum
variable {α : Type} [CostNum α]

/-- Python `a // b`, `torch.floor_divide(a, b)` -/
def floordiv (a b : α) : α := floor (div a b)
/-- Python `a % b` (sign of the divisor), `torch.remainder` -/
def pymod (a b : α) : α := sub a (mul b (floor (div a b)))
/-- `-a` -/
def neg (a : α) : α := sub (ofRat 0) a
/-- `float(cond)` / `(cond).float()` -/
def ofBool (b : Bool) : α := if b then ofRat 1 else ofRat 0
/-- `l[i]`; the index guard `i < len(l)` is emitted into the `ok` part -/
def idx (l : List α) (i : Nat) : α := l.getD i (ofRat 0)
/-- `torch.tensor([...]).mean()` -/
def mean (l : List α) : α := div (l.foldl add (ofRat 0)) (ofRat (l.length : Nat))
/-- `x in [c₁, c₂, …]` on values -/
def memRat (x : α) (l : List Rat) : Bool := l.contains (valOf x)
/-- value of `a == b` -/
def eqv (a b : α) : Bool := decide (valOf a = valOf b)
def nev (a b : α) : Bool := !(eqv a b)
def ltv (a b : α) : Bool := decide (valOf a < valOf b)
def lev (a b : α) : Bool := decide (valOf a ≤ valOf b)
/-- `b ≠ 0` guard of a division -/
def nz (b : α) : Bool := !(decide (valOf b = 0))

/-- two-level look-up table (dictionary literal of numbers) -/
def lut2? (t : List (Rat × List (Rat × Rat))) (a b : Rat) : Option Rat :=
  match t.find? (fun r => r.1 == a) with
  | none => none
  | some (_, row) => match row.find? (fun e => e.1 == b) with
    | none => none
    | some (_, v) => some v
def lut2 (t : List (Rat × List (Rat × Rat))) (a b : α) : α :=
  ofRat ((lut2? t (valOf a) (valOf b)).getD 0)
def lut2ok (t : List (Rat × List (Rat × Rat))) (a b : α) : Bool :=
  (lut2? t (valOf a) (valOf b)).isSome

scoped infixl:65 " +ᶜ " => CostNum.add
scoped infixl:65 " -ᶜ " => CostNum.sub
scoped infixl:70 " *ᶜ " => CostNum.mul
scoped infixl:70 " /ᶜ " => CostNum.div
scoped infixl:70 " //ᶜ " => CostNum.floordiv
scoped infixl:70 " %ᶜ " => CostNum.pymod

end CostNum

/-- Layer description handed to a cost function (`PatternSpec` dictionary): the keys the built-in
models read.  `hasBias` is `spec['_parameters']['bias'] is not None`; `has_a_precision` is
`'a_precision' in spec`.  Absence of any other key is not modelled. -/
structure LSpec (α : Type) where
  in_channels : α
  out_channels : α
  in_features : α
  out_features : α
  groups : α
  w_precision : α
  in_precision : α
  a_precision : α
  w_theta_alpha : α
  kernel_size : List α
  output_shape : List α
  hasBias : Bool
  has_a_precision : Bool

/-- a fresh dictionary `{}` (numeric keys read as 0, lists empty) -/
def LSpec.empty {α : Type} [CostNum α] : LSpec α :=
  { in_channels := CostNum.ofRat 0, out_channels := CostNum.ofRat 0, in_features := CostNum.ofRat 0,
    out_features := CostNum.ofRat 0, groups := CostNum.ofRat 0, w_precision := CostNum.ofRat 0,
    in_precision := CostNum.ofRat 0, a_precision := CostNum.ofRat 0, w_theta_alpha := CostNum.ofRat 0,
    kernel_size := [], output_shape := [], hasBias := false, has_a_precision := false }

/-- one registration `cost_spec[(LayerType, constraint)] = fn` of a built-in `CostSpec` -/
structure RegEntry (α : Type) where
  /-- name of the `CostSpec` object, e.g. `params` -/
  spec : String
  /-- layer type of the pattern, e.g. `Conv2d` -/
  layer : String
  /-- name of the constraint function, `""` for the unconstrained pattern -/
  constr : String
  /-- Python name of the registered cost function -/
  fn : String
  val : LSpec α → α
  ok : LSpec α → Bool

end PlinioVerif
