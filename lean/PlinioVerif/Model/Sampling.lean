/-!
# Model of coefficient sampling in MPS quantizers and in the SuperNet combiner (C10)

Mirrors, as the code is (not as it should be):

* `plinio/methods/mps/nn/qtz.py` — `MPSBaseQtz.update_softmax_options` (stores the four options it
  is given, then re-binds `self.sample_alpha` to `sample_alpha_none / _gs / _sm`),
  `sample_alpha_sm` (softmax with temperature; `STEArgmax` if `hard_softmax` **or not training**),
  `sample_alpha_gs` (Gumbel softmax in training, `sample_alpha_sm` otherwise),
  `sample_alpha_none` (returns: `theta_alpha` keeps whatever it held);
  `MPSPerLayerQtz` (one decision, `alpha` of shape `(n,)`), `MPSPerChannelQtz` (one decision per
  channel, `alpha` of shape `(n, cout)`, `dim=0`); `MPSBiasQtz` wraps one fixed quantizer and has
  no coefficients at all (nothing to model: `biasQtzDecisions = 0`).
* `plinio/methods/mps/nn/ste_argmax.py` — `one_hot(argmax(theta, dim=0))`.
* `plinio/methods/supernet/nn/combiner.py` — `SuperNetCombiner`: the sampler is chosen **once**, at
  construction, from `gumbel_softmax`; `sample_alpha_sm` is one-hot **only if `hard_softmax`**
  (eval mode does not harden it); `SuperNet.update_softmax_options` sets temperature / hard only.
* selection: `selected_*_precision`, `selected_*_quantizer`, `best_layer_index` = arg-max of the
  *raw* coefficients `alpha`; export materialises that alternative.

A coefficient tensor is a list of *columns*: one column per decision (one for per-layer
quantizers and combiners, `cout` for per-channel quantizers), each of length `n` = number of
alternatives.  Everything is generic in the carrier `F` (only core classes are used, so the
theorems instantiate it with any ordered field and the driver with core `Rat`) and in the positive
strictly monotone `g` that stands for `exp`.
-/
namespace PlinioVerif.Sampling

/-! ## value level -/
section Value
variable {F : Type}

/-- `torch.argmax` on a vector: index of the first maximal entry (`0` on the empty list) -/
def argmax [LT F] [DecidableLT F] : List F → Nat
  | [] => 0
  | x :: xs =>
    match xs[argmax xs]? with
    | some m => if x < m then argmax xs + 1 else 0
    | none => 0

/-- `F.one_hot(k, num_classes = n)` as floats -/
def onehot [Zero F] [One F] (n k : Nat) : List F :=
  (List.range n).map fun i => if i = k then 1 else 0

/-- `F.softmax(alpha / T, dim=0)` with `g` for `exp` -/
def softmax [Add F] [Div F] [Zero F] (g : F → F) (T : F) (α : List F) : List F :=
  let e := α.map fun a => g (a / T)
  e.map fun x => x / e.sum

/-- `alpha + gumbels` (a missing noise entry counts as `0`, so the length is that of `alpha`) -/
def addNoise [Add F] [Zero F] (α noise : List F) : List F :=
  α.mapIdx fun i a => a + noise.getD i 0

/-- what one call of `sample_alpha` does to one column -/
inductive Kind where
  /-- `sample_alpha_none`: nothing is written -/
  | keep
  /-- `softmax(alpha / T)` -/
  | soft
  /-- `one_hot(argmax(softmax(alpha / T)))` -/
  | hardArgmax
  /-- `softmax((alpha + noise) / T)` -/
  | gumbelSoft
  /-- `one_hot(argmax(softmax((alpha + noise) / T)))` (straight-through in the backward) -/
  | gumbelHard
deriving DecidableEq, Repr

variable [Add F] [Div F] [Zero F] [One F] [LT F] [DecidableLT F]

/-- one column of `theta_alpha` after a call of kind `k` (`prev` = what the buffer held) -/
def sampleCol (g : F → F) (k : Kind) (T : F) (α noise prev : List F) : List F :=
  match k with
  | .keep => prev
  | .soft => softmax g T α
  | .hardArgmax => onehot α.length (argmax (softmax g T α))
  | .gumbelSoft => softmax g T (addNoise α noise)
  | .gumbelHard => onehot α.length (argmax (softmax g T (addNoise α noise)))

/-- all columns (`dim=0` softmax / arg-max of an `(n, cout)` tensor works column by column) -/
def sampleCols (g : F → F) (k : Kind) (T : F) (α noise prev : List (List F)) : List (List F) :=
  match k with
  | .keep => prev
  | _ => α.mapIdx fun j a => sampleCol g k T a (noise.getD j []) (prev.getD j [])

end Value

/-! ## the sampler-choice state machine -/

/-- the options a quantizer / combiner holds, plus the module's `training` flag -/
structure Opts (F : Type) where
  training : Bool := true
  hard : Bool := false
  gumbel : Bool := false
  disable : Bool := false
  temperature : F
deriving Repr

/-- which bound method `self.sample_alpha` currently is -/
inductive Sampler where
  | sm | gs | none
deriving DecidableEq, Repr

/-- which class's rules apply -/
inductive Cls where
  | mpsLayer | mpsChannel | snComb
deriving DecidableEq, Repr

/-- `MPSBiasQtz` holds no architectural coefficients -/
def biasQtzDecisions : Nat := 0

/-- tail of `MPSBaseQtz.update_softmax_options`: the sampler is re-chosen from the *stored* flags -/
def mpsChoose {F} (o : Opts F) : Sampler :=
  if o.disable then .none else if o.gumbel then .gs else .sm

/-- `SuperNetCombiner.__init__`: the sampler is chosen from the constructor's `gumbel_softmax` -/
def snChoose {F} (o : Opts F) : Sampler :=
  if o.gumbel then .gs else .sm

/-- `MPSBaseQtz.sample_alpha_sm`: hard if `hard_softmax` **or not training** -/
def mpsSmKind {F} (o : Opts F) : Kind :=
  if o.hard || !o.training then .hardArgmax else .soft

/-- `SuperNetCombiner.sample_alpha_sm`: hard only if `hard_softmax` -/
def snSmKind {F} (o : Opts F) : Kind :=
  if o.hard then .hardArgmax else .soft

/-- what `sample_alpha()` does, given the bound method and the flags (both classes share the
shape of `sample_alpha_gs`: Gumbel in training, the class's own `sample_alpha_sm` otherwise) -/
def kindOf {F} (cls : Cls) (smp : Sampler) (o : Opts F) : Kind :=
  let sm := match cls with | .snComb => snSmKind o | _ => mpsSmKind o
  match smp with
  | .none => .keep
  | .sm => sm
  | .gs => if o.training then (if o.hard then .gumbelHard else .gumbelSoft) else sm

/-- state of one quantizer / combiner -/
structure State (F : Type) where
  cls : Cls
  o : Opts F
  /-- `self.sample_alpha` -/
  sampler : Sampler
  /-- raw coefficients, one column per decision -/
  alpha : List (List F)
  /-- `theta_alpha` -/
  theta : List (List F)
  /-- kind of the call that last wrote `theta` (`keep` = not written since the buffer was created) -/
  src : Kind := .keep

/-- the calls of the property's alphabet -/
inductive Op (F : Type) where
  /-- `update_softmax_options(temperature, hard, gumbel, disable_sampling)`, `none` = not given -/
  | update (t : Option F) (h g d : Option Bool)
  | train
  | eval
  /-- a forward pass; `noise` is the Gumbel sample it would draw (one list per column) -/
  | forward (noise : List (List F))
  /-- the optimiser (or the user) writes new raw coefficients in place -/
  | setAlpha (a : List (List F))

/-- storing the options that were given (first half of `update_softmax_options`) -/
def updOpts {F} (o : Opts F) (t : Option F) (h g d : Option Bool) : Opts F :=
  { o with temperature := t.getD o.temperature, hard := h.getD o.hard,
           gumbel := g.getD o.gumbel, disable := d.getD o.disable }

section Step
variable {F : Type} [Add F] [Div F] [Zero F] [One F] [LT F] [DecidableLT F]

def step (g : F → F) (s : State F) : Op F → State F
  | .update t h g' d =>
    match s.cls with
    | .snComb =>
      -- `SuperNet.update_softmax_options(temperature, hard)`: two attributes, sampler untouched
      { s with o := { s.o with temperature := t.getD s.o.temperature, hard := h.getD s.o.hard } }
    | _ =>
      let o' := updOpts s.o t h g' d
      { s with o := o', sampler := mpsChoose o' }
  | .train => { s with o := { s.o with training := true } }
  | .eval => { s with o := { s.o with training := false } }
  | .forward noise =>
    let k := kindOf s.cls s.sampler s.o
    { s with theta := sampleCols g k s.o.temperature s.alpha noise s.theta,
             src := if k = .keep then s.src else k }
  | .setAlpha a =>
    -- `SuperNetCombiner.__init__` aliases `theta_alpha.data` to `alpha`: until the first sampling
    -- an in-place write to `alpha` is visible through `theta_alpha`
    if s.cls = .snComb ∧ s.src = .keep then { s with alpha := a, theta := a }
    else { s with alpha := a }

def run (g : F → F) (s : State F) (ops : List (Op F)) : State F := ops.foldl (step g) s

/-- `MPSPerLayerQtz.__init__` / `MPSPerChannelQtz.__init__`: options stored, sampler chosen,
`theta_alpha = ones`, then one `sample_alpha()` in training mode (`noise`: its Gumbel draw) -/
def initMps (g : F → F) (cls : Cls) (o : Opts F) (alpha0 noise : List (List F)) : State F :=
  let o' := { o with training := true }
  step g { cls := cls, o := o', sampler := mpsChoose o', alpha := alpha0,
           theta := alpha0.map fun c => c.map fun _ => 1, src := .keep } (.forward noise)

/-- `SuperNetCombiner.__init__`: temperature 1, sampler from `gumbel_softmax`, `theta_alpha`
aliased to `alpha` (no sampling) -/
def initSn (alpha0 : List (List F)) (gumbel hard : Bool) : State F :=
  let o : Opts F := { training := true, hard := hard, gumbel := gumbel, disable := false,
                      temperature := 1 }
  { cls := .snComb, o := o, sampler := snChoose o, alpha := alpha0, theta := alpha0, src := .keep }

end Step

/-! ## selection, summary and export -/
section Select
variable {F : Type} [LT F] [DecidableLT F]

/-- `int(torch.argmax(alpha))` per decision: `selected_*_precision`/`selected_*_quantizer` index,
`SuperNetCombiner.best_layer_index` -/
def selectedIdx (α : List (List F)) : List Nat := α.map argmax

/-- `int(precision[idx])` per decision -/
def selectedPrecision (precs : List Int) (α : List (List F)) : List Int :=
  (selectedIdx α).map fun i => precs.getD i 0

/-- per-layer export: the one `Quant*` layer gets the quantizer `qtz_funcs[argmax alpha]` -/
def exportIdx (α : List F) : Nat := argmax α

/-- keys of `dict(zip(selected_w_precision, selected_w_quantizer))` in insertion order: the
distinct selected precisions in order of first appearance -/
def firstSeen : List Int → List Int
  | [] => []
  | p :: ps => p :: (firstSeen ps).filter (· != p)

/-- per-channel export (`MPSConv2d.export`, `MPSLinear.export`): one sub-layer per selected
precision, in order of first appearance among the channels, holding exactly the channels that
selected it: `(precision, channel indices)` -/
def exportGroups (precs : List Int) (α : List (List F)) : List (Int × List Nat) :=
  let sel := selectedPrecision precs α
  (firstSeen sel).map fun p => (p, (List.range sel.length).filter fun c => sel.getD c 0 == p)

/-- SuperNet export keeps the branch `best_layer_index()` -/
def exportBranch (α : List F) : Nat := argmax α

end Select

/-- `SuperNetCombiner.summary()`: the noise-free coefficients `softmax(alpha / T)`, one-hot if
`hard_softmax` (no sampling, whatever the mode and the sampler) -/
def snSummary {F : Type} [Add F] [Div F] [Zero F] [One F] [LT F] [DecidableLT F]
    (g : F → F) (o : Opts F) (α : List F) : List F :=
  sampleCol g (snSmKind o) o.temperature α [] []

/-! ## executable instance (driver): core `Rat`, and a rational stand-in for `exp` -/

/-- strictly monotone and positive on `Rat` (`1 + x` right of 0, `1 / (1 - x)` left of it) -/
def gq (x : Rat) : Rat := if 0 ≤ x then 1 + x else 1 / (1 - x)

/-- is the column exactly `onehot n k` for its arg-max `k`? -/
def oneHotIdx? (col : List Rat) : Option Nat :=
  let k := argmax col
  if col == onehot col.length k ∧ k < col.length then some k else none

/-- non-negative entries summing to one -/
def isProbQ (col : List Rat) : Bool := col.all (fun x => 0 ≤ x) && col.sum == 1

/-- canonical description of one column of `theta_alpha`, as far as it is determined without
knowing the noise: `H<k>` one-hot at `k`; `S<k>` probability vector, not one-hot, arg-max `k`;
`GS` probability vector (Gumbel, soft); `GH` one-hot somewhere (Gumbel, hard); `X` otherwise -/
def describeCol (src : Kind) (col : List Rat) : String :=
  match src with
  | .gumbelSoft => "GS"
  | .gumbelHard => "GH"
  | _ =>
    match oneHotIdx? col with
    | some k => s!"H{k}"
    | none => if isProbQ col then s!"S{argmax col}" else "X"

end PlinioVerif.Sampling
