/-!
# C18 — what `export`, `summary`, `cost`, `get_cost`, the `cost_specification` setter and `forward` do to
a NAS wrapper (core Lean only)

`step : Cfg → State → Op → State × Out` mirrors the code **as it is now** (after fixes fe897bf —
`export()` restores training status and sampled coefficients — and b3d8681 — `SuperNetCombiner.summary()`
does not re-sample); `stepPinned` is the behaviour of the pinned tree, kept for the regression witnesses.

State components (one per thing a call could disturb):

* `wtrain`, `strain`, `bntrain`, `droptrain`   `.training` of the wrapper / of the sampling modules
                       (combiners, quantizers) / of the BatchNorm / of the Dropout sub-modules — a search
                       may run with mixed modes (BatchNorm frozen by `.eval()` inside a `train()` wrapper)
* `theta`              the sampled selection coefficients `theta_alpha`, abstractly: were they hardened
                       (one-hot) and which RNG draw produced their Gumbel noise
* `rng`                position in the global torch RNG stream
* `arch`               version of the parameters (weights, α/β/γ, clip values): no call of the alphabet
                       writes them
* `pers`               version of the remaining buffers (BatchNorm running statistics)
* `attrs`              whether the cost path has already left `output_shape` (…) attributes on layers
* `spec`               which cost specification is installed (slot id) — the cost-function map follows it
* `flags`              everything else: `requires_grad`, plain configuration attributes (never written)
-/
namespace PlinioVerif.Observers

inductive Method where
  | pit | mps | sn
  deriving DecidableEq, Repr, Inhabited

/-- static facts of one wrapper instance -/
structure Cfg where
  method : Method
  gumbel : Bool          -- Gumbel-softmax sampling
  hard : Bool            -- hard (one-hot) sampling
  disable : Bool         -- MPS: sampling disabled
  fullCost : Bool
  hasFixed : Bool        -- there are fixed (non-searchable) leaf layers
  hasAdd : Bool          -- MPS: an `MPSAdd` layer (since dde6074 its cost path works on a copy of `vars(self)`)
  bnTrain : Bool         -- BatchNorm layers with running statistics inside the seed
  dropout : Bool
  deriving DecidableEq, Repr, Inhabited

/-- sampled coefficients: hardened?, Gumbel noise drawn at RNG position -/
structure Theta where
  hardened : Bool
  noise : Option Nat
  /-- the tensor is still attached to the autograd graph of the architectural parameters `alpha`
  (a cost computed from it is a differentiable function of `alpha`: the regularisation gradient of
  `loss = task + strength * cost` exists) -/
  live : Bool
  deriving DecidableEq, Repr, Inhabited

/-- cost specification slots: a single `CostSpec` or a dictionary of named ones, two of each -/
inductive Spec where
  | single (i : Nat) | dict (i : Nat)
  deriving DecidableEq, Repr, Inhabited

/-- the cost model `cost` / `get_cost('a')` evaluates under a specification: slot `i` holds model `i`
either alone or under the name `'a'` -/
def Spec.fnA : Spec → Nat
  | .single i => i | .dict i => i

/-- the cost model `get_cost('b')` evaluates: the dictionary in slot `i` names the *other* model `'b'` -/
def Spec.fnB : Spec → Nat
  | .single i => i | .dict i => 1 - i

structure State where
  wtrain : Bool
  strain : Bool
  bntrain : Bool
  droptrain : Bool
  theta : Theta
  rng : Nat
  arch : Nat
  pers : Nat
  attrs : Bool
  spec : Spec
  flags : Nat
  deriving DecidableEq, Repr, Inhabited

inductive Op where
  | exportNet | exportNoBn | summary | cost | getCost | getCostB | setSpec (s : Spec) | forward
  /-- the rest of a search step after a forward: `loss = task(y) + strength * cost`, `backward()`,
  optimizer step -/
  | optStep
  /-- an `export()` whose conversion raises after it has traced the seed in eval mode and run the
  shape-propagation forward (unsupported layer, dtype error, …) -/
  | exportRaises
  deriving DecidableEq, Repr, Inhabited

/-- what a call returns, abstractly: everything the returned value can depend on -/
inductive Out where
  /-- exported network: a function of the parameters (arg-max of α, masks, weights) and — for SuperNet,
  whose export keeps the seed's own BatchNorm modules — of the buffers; PIT re-creates BatchNorm layers
  with fresh statistics and MPS has folded them -/
  | net (arch pers : Nat)
  /-- summary: a function of the parameters (and static options) only -/
  | summ (arch : Nat)
  /-- cost value: the cost model evaluated (that of the single spec, or the one named `'a'` in the
  dictionary), sampled coefficients, parameters -/
  | costv (fn : Nat) (theta : Theta) (arch : Nat)
  /-- `AssertionError` (`cost` with a dictionary of specs, `get_cost(name)` with a single one) -/
  | err
  /-- the conversion error of a failing `export()` -/
  | raised
  /-- network outputs: sampled coefficients, parameters, buffers, mode, and the RNG draw used by
  dropout / Gumbel noise if any -/
  | outputs (theta : Theta) (arch pers : Nat) (strain bntrain droptrain : Bool) (draw : Option Nat)
  | unit
  deriving DecidableEq, Repr, Inhabited

def Op.isObserver : Op → Bool
  | .exportNet => true | .exportNoBn => true | .summary => true | .cost => true | .getCost => true
  | .getCostB => true | .exportRaises => true
  | .setSpec _ => false | .forward => false | .optStep => false

/-- the coefficients a forward samples in mode `training` at RNG position `rng` -/
def sample (c : Cfg) (training : Bool) (rng : Nat) (old : Theta) : Theta :=
  match c.method with
  | .pit => old
  | .mps =>
    if c.disable then old
    else if c.gumbel && training then ⟨c.hard, some rng, true⟩
    else ⟨c.hard || !training, none, true⟩        -- eval mode hardens (STE arg-max)
  | .sn =>
    if c.gumbel && training then ⟨c.hard, some rng, true⟩
    else ⟨c.hard, none, !c.hard⟩     -- a plain `one_hot(argmax)` has no gradient (no straight-through estimator)

/-- does sampling in this mode draw from the RNG -/
def sampleDraws (c : Cfg) (training : Bool) : Bool :=
  match c.method with
  | .pit => false
  | .mps => !c.disable && c.gumbel && training
  | .sn => c.gumbel && training

/-- does a successful cost evaluation leave attributes behind -/
def costAddsAttrs (c : Cfg) : Bool :=
  match c.method with
  | .pit => c.fullCost && c.hasFixed
  | .mps => c.fullCost && c.hasFixed      -- (before dde6074 also `hasAdd`: `MPSAdd.get_cost` wrote into the module)
  | .sn => true      -- `SuperNetCombiner.get_cost` writes `output_shape` into every branch layer

/-- does `export()` construct new layers (their random initialisation advances the RNG) -/
def exportDraws (c : Cfg) : Bool :=
  match c.method with
  | .pit => true | .mps => true | .sn => false

def costOk (s : Spec) (named : Bool) : Bool :=
  match s, named with
  | .single _, false => true | .dict _, true => true | _, _ => false

/-- a cost evaluation: a function of the cost model selected, the sampled coefficients and the
parameters — *not* of which metrics were evaluated before -/
def costStep (c : Cfg) (s : State) (named : Bool) (fn : Nat) : State × Out :=
  if costOk s.spec named then
    ({ s with attrs := s.attrs || costAddsAttrs c }, .costv fn s.theta s.arch)
  else (s, .err)

/-- the part of the buffers an exported network depends on -/
def exportedStats (c : Cfg) (s : State) : Nat :=
  match c.method with
  | .sn => s.pers | _ => 0

def exportStep (c : Cfg) (s : State) : State × Out :=
  -- trace in eval mode, shape-propagation forward (re-samples in eval mode), rewrite a copy;
  -- then training status and sampled coefficients are put back (fe897bf)
  ({ s with rng := if exportDraws c then s.rng + 1 else s.rng }, .net s.arch (exportedStats c s))

def forwardStep (c : Cfg) (s : State) : State × Out :=
  let th := sample c s.strain s.rng s.theta
  let draws := sampleDraws c s.strain || (c.dropout && s.droptrain)
  let s' := { s with theta := th, rng := if draws then s.rng + 1 else s.rng,
                     pers := if c.bnTrain && s.bntrain then s.pers + 1 else s.pers }
  (s', .outputs th s.arch s.pers s.strain s.bntrain s.droptrain (if draws then some s.rng else none))

/-- is the cost a differentiable function of the architectural parameters right now: PIT derives its
masks from the parameters at every evaluation; MPS and SuperNet read the stored sampled coefficients -/
def costLive (c : Cfg) (s : State) : Bool := c.method == .pit || s.theta.live

/-- backward + optimizer step: the new parameters are a function of the old ones and of whether the
regularisation term reached the architectural parameters -/
def optStepStep (c : Cfg) (s : State) : State × Out :=
  ({ s with arch := 2 * s.arch + (if costLive c s then 2 else 1) }, .unit)

/-- the code as it is now -/
def step (c : Cfg) (s : State) : Op → State × Out
  | .exportNet => exportStep c s
  | .exportNoBn => exportStep c s       -- `add_bn=False` only looks for an attribute no layer has
  | .summary => (s, .summ s.arch)
  | .cost => costStep c s false s.spec.fnA
  | .getCost => costStep c s true s.spec.fnA
  | .getCostB => costStep c s true s.spec.fnB
  | .setSpec k => ({ s with spec := k }, .unit)
  | .forward => forwardStep c s
  | .optStep => optStepStep c s
  -- training status and sampled coefficients are restored in a `finally` (46df6ea): only the RNG moved
  | .exportRaises => ({ s with rng := if exportDraws c then s.rng + 1 else s.rng }, .raised)

def run (c : Cfg) (s : State) (ops : List Op) : State := ops.foldl (fun st op => (step c st op).1) s

/-- outputs of a run, in order -/
def trace (c : Cfg) : State → List Op → List Out
  | _, [] => []
  | s, op :: ops => (step c s op).2 :: trace c (step c s op).1 ops

/-! ### the pinned tree (before fe897bf / b3d8681) -/

def exportStepPinned (c : Cfg) (s : State) : State × Out :=
  -- `self.seed.eval()` is never undone and the shape-propagation forward leaves its eval-mode sample
  ({ s with strain := false, bntrain := false, droptrain := false,
            theta := { sample c false s.rng s.theta with live := c.method != .mps },
            rng := if exportDraws c then s.rng + 1 else s.rng }, .net s.arch (exportedStats c s))

def summaryStepPinned (c : Cfg) (s : State) : State × Out :=
  match c.method with
  | .sn => ({ s with theta := sample c s.strain s.rng s.theta,
                     rng := if sampleDraws c s.strain then s.rng + 1 else s.rng }, .summ s.arch)
  | _ => (s, .summ s.arch)

/-- the tree between fe897bf and 46df6ea: the restore ran only when the conversion succeeded -/
def stepNoFinally (c : Cfg) (s : State) : Op → State × Out
  | .exportRaises => ((exportStepPinned c s).1, .raised)
  | op => step c s op

def stepPinned (c : Cfg) (s : State) : Op → State × Out
  | .exportNet => exportStepPinned c s
  | .exportNoBn => exportStepPinned c s
  | .exportRaises => ((exportStepPinned c s).1, .raised)
  | .summary => summaryStepPinned c s
  | op => step c s op

/-! ### what the statement observes -/

/-- The statement's observables: outputs (a function of mode, coefficients-to-be-sampled, parameters),
cost (specification, sampled coefficients, parameters), summary and parameters (`pers`), training mode.
Not among them: the RNG position and incidental attributes.  Gumbel noise is compared by *whether*
the coefficients carry noise, not by which draw produced it (the RNG is not an observable). -/
structure ObsState where
  wtrain : Bool
  strain : Bool
  bntrain : Bool
  droptrain : Bool
  hardened : Bool
  noisy : Bool
  live : Bool
  arch : Nat
  pers : Nat
  spec : Spec
  flags : Nat
  deriving DecidableEq, Repr

def obsState (s : State) : ObsState :=
  ⟨s.wtrain, s.strain, s.bntrain, s.droptrain, s.theta.hardened, s.theta.noise.isSome, s.theta.live, s.arch, s.pers, s.spec, s.flags⟩

/-- the same, keeping the identity of the noise (exact sampled coefficients) -/
def obsStateExact (s : State) : Bool × Bool × Bool × Bool × Theta × Nat × Nat × Spec × Nat :=
  (s.wtrain, s.strain, s.bntrain, s.droptrain, s.theta, s.arch, s.pers, s.spec, s.flags)

/-- components the correspondence leg watches -/
def changed (a b : State) : List String :=
  (if a.wtrain != b.wtrain || a.strain != b.strain || a.bntrain != b.bntrain || a.droptrain != b.droptrain
   then ["modes"] else []) ++
  (if a.theta != b.theta then ["theta"] else []) ++
  (if a.rng != b.rng then ["rng"] else []) ++
  (if a.pers != b.pers || a.arch != b.arch then ["state"] else []) ++
  (if a.attrs != b.attrs then ["attrs"] else []) ++
  (if a.spec != b.spec then ["spec"] else []) ++
  (if a.flags != b.flags then ["flags"] else [])

end PlinioVerif.Observers
