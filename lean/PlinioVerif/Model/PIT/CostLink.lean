import PlinioVerif.Model.PIT.TimeMask
import PlinioVerif.Model.CostNum
/-!
# What a PIT layer hands to a cost function (`get_modified_vars`) — C12, C04

`PITConv1d/2d/Linear.get_modified_vars` overwrite `in_channels`/`out_channels`
(`in_features`/`out_features`) with the effective counts and, for Conv1d, `kernel_size` with
`(k_eff,)`; every other key keeps the static value of the layer.
-/
namespace PlinioVerif.PIT

/-- description of a PITConv1d: effective input features `cin` (from the calculator of the tensor
feeding it), mask parameters `α β γ`, static `groups`, output shape, bias flag -/
def conv1dSpec (d : Bool) (C K : Nat) (cin groups : Rat) (out : List Rat) (bias : Bool)
    (α β γ : Nat → Rat) : LSpec Rat :=
  { LSpec.empty with
    in_channels := cin, out_channels := outEff d C α, in_features := cin, out_features := outEff d C α,
    groups := groups, kernel_size := [kEff d K β γ], output_shape := out, hasBias := bias }

/-- description of the seed Conv1d itself (static sizes) -/
def conv1dSeedSpec (C K : Nat) (cin groups : Rat) (out : List Rat) (bias : Bool) : LSpec Rat :=
  { LSpec.empty with
    in_channels := cin, out_channels := (C : Rat), in_features := cin, out_features := (C : Rat),
    groups := groups, kernel_size := [(K : Rat)], output_shape := out, hasBias := bias }

/-- description of a PITConv2d (only the channel mask is searched; static `kx × ky` kernel) -/
def conv2dSpec (d : Bool) (C : Nat) (cin groups kx ky : Rat) (out : List Rat) (bias : Bool)
    (α : Nat → Rat) : LSpec Rat :=
  { LSpec.empty with
    in_channels := cin, out_channels := outEff d C α, in_features := cin, out_features := outEff d C α,
    groups := groups, kernel_size := [kx, ky], output_shape := out, hasBias := bias }

/-- description of a PITLinear -/
def linearSpec (d : Bool) (C : Nat) (cin : Rat) (out : List Rat) (bias : Bool) (α : Nat → Rat) : LSpec Rat :=
  { LSpec.empty with
    in_channels := cin, out_channels := outEff d C α, in_features := cin, out_features := outEff d C α,
    groups := 1, kernel_size := [], output_shape := out, hasBias := bias }

/-! ### the straight-through-gradient reading

Value and derivative with respect to one chosen scalar parameter.  Smooth operations
differentiate as usual; the primitives that `torch.autograd` differentiates by a hand-written
`backward` get that rule: `abs` has derivative `sign` (0 at 0, as in torch), the binarizer
(`PITBinarizer`) passes the gradient through unchanged. -/
structure Dual where
  v : Rat
  d : Rat
  deriving Repr, DecidableEq

namespace Dual
def const (q : Rat) : Dual := ⟨q, 0⟩
def add (a b : Dual) : Dual := ⟨a.v + b.v, a.d + b.d⟩
def mul (a b : Dual) : Dual := ⟨a.v * b.v, a.d * b.v + a.v * b.d⟩
def sgn (x : Rat) : Rat := if x < 0 then -1 else if 0 < x then 1 else 0
def abs (a : Dual) : Dual := ⟨absR a.v, sgn a.v * a.d⟩
/-- `PITBinarizer.apply(x, 0.5)`: forward `x > 0.5`, backward identity -/
def binSTE (a : Dual) : Dual := ⟨if bin a.v then 1 else 0, a.d⟩
def sum (l : List Dual) : Dual := l.foldl add (const 0)
end Dual

/-- `alpha` with the derivative seeded at element `i` -/
def seedAt (α : Nat → Rat) (i : Nat) (c : Nat) : Dual := ⟨α c, if c = i then 1 else 0⟩

/-- `theta_alpha[c] = |alpha[c]| * (1 - ka[c]) + ka[c]` in the Dual reading -/
def thetaAlphaD (C : Nat) (α : Nat → Dual) (c : Nat) : Dual :=
  if c + 1 = C then Dual.const 1 else Dual.abs (α c)

/-- `out_features_eff` in the Dual reading -/
def outEffD (discrete : Bool) (C : Nat) (α : Nat → Dual) : Dual :=
  Dual.sum ((List.range C).map fun c =>
    if discrete then Dual.binSTE (thetaAlphaD C α c) else thetaAlphaD C α c)

/-- `∂ out_features_eff / ∂ alpha[i]` as autograd computes it -/
def dOutEff (discrete : Bool) (C : Nat) (α : Nat → Rat) (i : Nat) : Rat :=
  (outEffD discrete C (seedAt α i)).d

/-! ### `k_eff` in the Dual reading -/

def kaD (n : Nat) (v : Nat → Dual) (i : Nat) : Dual := if i + 1 = n then Dual.const 1 else Dual.abs (v i)

def thetaBetaD (K : Nat) (β : Nat → Dual) (j : Nat) : Dual := Dual.sum ((List.range (j + 1)).map (kaD K β))

def thetaGammaD (K L : Nat) (γ : Nat → Dual) (j : Nat) : Dual :=
  Dual.sum ((List.range L).map fun i => if (K - 1 - j) % 2 ^ i = 0 then kaD L γ i else Dual.const 0)

/-- `k_eff`: discrete = sum of the product of the two binarised masks (straight-through),
continuous = sum of the product of the two normalised masks -/
def kEffD (discrete : Bool) (K : Nat) (β γ : Nat → Dual) : Dual :=
  Dual.sum ((List.range K).map fun j =>
    if discrete then
      Dual.mul (Dual.binSTE (thetaGammaD K (gammaLen K) γ j)) (Dual.binSTE (thetaBetaD K β j))
    else
      Dual.mul (Dual.mul (thetaGammaD K (gammaLen K) γ j) (Dual.const (gammaNorm K (gammaLen K) j)))
        (Dual.mul (thetaBetaD K β j) (Dual.const (betaNorm j))))

/-- a parameter vector with no derivative seeded -/
def noSeed (v : Nat → Rat) (c : Nat) : Dual := ⟨v c, 0⟩

end PlinioVerif.PIT
