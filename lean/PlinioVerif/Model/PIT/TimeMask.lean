/-!
# PIT maskers and the Conv1d time mask (C01, C04, C08, C12) — executable model over `Rat`

Mirrors `plinio/methods/pit/nn/{features,timestep,dilation}_masker.py`, `binarizer.py` and the
time-mask part of `conv1d.py`.  A float32 is a rational; sums and products of the small dyadic
values the correspondence uses are exact, so `Rat` reproduces the tensors bit for bit there.

Index convention (as in the code): tap `K-1` is the most recent one; the keep-alive element of a
parameter vector of length `n` is its **last** one (`torch.flip([1,0,…,0])`).
-/
namespace PlinioVerif.PIT

def absR (x : Rat) : Rat := if x < 0 then -x else x

/-- `|v| * (1 - ka) + ka` with `ka = [0,…,0,1]` : the last element is forced to 1 -/
def ka (n : Nat) (v : Nat → Rat) (i : Nat) : Rat := if i + 1 = n then 1 else absR (v i)

/-- `PITBinarizer.forward`: `x > threshold`, threshold 0.5 -/
def bin (x : Rat) : Bool := decide ((1 : Rat) / 2 < x)

/-- `PITFeaturesMasker.theta` (default `keep_alive_channels = 1`) -/
def thetaAlpha (C : Nat) (α : Nat → Rat) (c : Nat) : Rat := ka C α c

/-- `PITTimestepMasker.theta = C_beta @ keep_alive_beta`, `C_beta` lower triangular of ones -/
def thetaBeta (K : Nat) (β : Nat → Rat) (j : Nat) : Rat :=
  ((List.range (j + 1)).map (ka K β)).sum

/-- `max(ceil(log2 K), 1)` — `PITDilationMasker._gamma_len` -/
def clog2 (k : Nat) : Nat := if k ≤ 1 then 0 else Nat.log2 (k - 1) + 1
def gammaLen (K : Nat) : Nat := max (clog2 K) 1

/-- `PITDilationMasker.theta = C_gamma @ keep_alive_gamma`; row `j` of `C_gamma` (after the
transpose and the flip along the time axis) has a one in column `i` iff `2^i ∣ K-1-j`. -/
def thetaGamma (K L : Nat) (γ : Nat → Rat) (j : Nat) : Rat :=
  ((List.range L).map fun i => if (K - 1 - j) % 2 ^ i = 0 then ka L γ i else 0).sum

/-- pinned tree: the comb was anchored at tap 0 (`j % 2^i == 0`), everything else at tap K-1 -/
def thetaGammaPinned (K L : Nat) (γ : Nat → Rat) (j : Nat) : Rat :=
  ((List.range L).map fun i => if j % 2 ^ i = 0 then ka L γ i else 0).sum

/-- binarised dilation mask over the `K` taps -/
def gammaMask (K : Nat) (γ : Nat → Rat) : List Bool :=
  (List.range K).map fun j => bin (thetaGamma K (gammaLen K) γ j)

def betaMask (K : Nat) (β : Nat → Rat) : List Bool :=
  (List.range K).map fun j => bin (thetaBeta K β j)

/-- `PITConv1d.time_mask` (discrete): product of the two binarised masks -/
def timeMask (K : Nat) (β γ : Nat → Rat) : List Bool :=
  (List.range K).map fun j => bin (thetaBeta K β j) && bin (thetaGamma K (gammaLen K) γ j)

def timeMaskPinned (K : Nat) (β γ : Nat → Rat) : List Bool :=
  (List.range K).map fun j => bin (thetaBeta K β j) && bin (thetaGammaPinned K (gammaLen K) γ j)

/-- longest run of `false`, as `itertools.groupby` + `max(..., default=0)` computes it -/
def lzr : List Bool → Nat → Nat → Nat
  | [], cur, best => max cur best
  | true :: t, cur, best => lzr t 0 (max cur best)
  | false :: t, cur, best => lzr t (cur + 1) best

/-- `PITConv1d.dilation_opt` -/
def dilationOpt (K d0 : Nat) (γ : Nat → Rat) : Nat := (lzr (gammaMask K γ) 0 0 + 1) * d0

def dilationOptPinned (K d0 : Nat) (γ : Nat → Rat) : Nat :=
  (lzr ((List.range K).map fun j => bin (thetaGammaPinned K (gammaLen K) γ j)) 0 0 + 1) * d0

def countTrue (m : List Bool) : Nat := (m.filter id).length

/-- `PITConv1d.kernel_size_opt` -/
def kernelSizeOpt (K : Nat) (β γ : Nat → Rat) : Nat := countTrue (timeMask K β γ)

/-- taps kept by `weight[:, :, time_mask]`, in the order they land in the exported kernel -/
def keptTaps (m : List Bool) : List Nat := (List.range m.length).filter fun j => m.getD j false

/-- left padding re-created by `export` for an unpadded (causal) layer -/
def padOpt (K d0 : Nat) (β γ : Nat → Rat) : Nat := (kernelSizeOpt K β γ - 1) * dilationOpt K d0 γ

/-- look-back (in input samples) of each alive tap of the masked layer: tap `j` reads
`x[τ - (K-1-j)·d0]` under causal padding `(K-1)·d0` -/
def maskedLookbacks (K d0 : Nat) (m : List Bool) : List Nat := (keptTaps m).map fun j => (K - 1 - j) * d0

/-- look-back of each tap of the exported layer: kernel `n`, dilation `d`, left pad `(n-1)·d` -/
def exportedLookbacks (n d : Nat) : List Nat := (List.range n).map fun i => (n - 1 - i) * d

/-- the exported Conv1d reads exactly the samples the masked one reads, tap by tap -/
def exportAligned (K d0 : Nat) (β γ : Nat → Rat) : Bool :=
  maskedLookbacks K d0 (timeMask K β γ) == exportedLookbacks (kernelSizeOpt K β γ) (dilationOpt K d0 γ)

def exportAlignedPinned (K d0 : Nat) (β γ : Nat → Rat) : Bool :=
  maskedLookbacks K d0 (timeMaskPinned K β γ) ==
    exportedLookbacks (countTrue (timeMaskPinned K β γ)) (dilationOptPinned K d0 γ)

/-! ### continuous relaxation used by the cost (`discrete_cost = False`) -/

/-- `_beta_norm[j] = 1 / (j + 1)` (after the flip) -/
def betaNorm (j : Nat) : Rat := 1 / ((j : Rat) + 1)

/-- `_gamma_norm[j] = 1 / #{p < L : 2^p ∣ K-1-j}` (after the flip) -/
def gammaNorm (K L j : Nat) : Rat :=
  1 / (((List.range L).filter fun p => (K - 1 - j) % 2 ^ p = 0).length : Rat)

/-- `PITConv1d.k_eff` -/
def kEff (discrete : Bool) (K : Nat) (β γ : Nat → Rat) : Rat :=
  if discrete then (kernelSizeOpt K β γ : Rat) else
  ((List.range K).map fun j =>
    (thetaGamma K (gammaLen K) γ j * gammaNorm K (gammaLen K) j) * (thetaBeta K β j * betaNorm j)).sum

/-- `out_features_eff` -/
def outEff (discrete : Bool) (C : Nat) (α : Nat → Rat) : Rat :=
  ((List.range C).map fun c => if discrete then (if bin (thetaAlpha C α c) then 1 else 0) else thetaAlpha C α c).sum

def featuresMask (C : Nat) (α : Nat → Rat) : List Bool := (List.range C).map fun c => bin (thetaAlpha C α c)

def ofList (l : List Rat) : Nat → Rat := fun i => l.getD i 0

/-! ### the two convolutions, executable (integer samples) -/

/-- a finite sequence as a causally padded signal: zero before its first sample (and after its last) -/
def signal (xs : List Int) : Int → Int := fun τ => if τ < 0 then 0 else xs.getD τ.toNat 0

/-- output sample `τ` of one (input channel, output channel) pair of the *masked* Conv1d of the PIT layer:
kernel `w` (size `K`, dilation `d0`) multiplied by the time mask, input causally padded -/
def maskedConvAt (K d0 : Nat) (β γ : Nat → Rat) (w : Nat → Int) (x : Int → Int) (τ : Int) : Int :=
  ((List.range K).map fun j =>
    (if (timeMask K β γ).getD j false then w j else 0) * x (τ - (((K - 1 - j) * d0 : Nat) : Int))).sum

/-- the same output sample of the *exported* Conv1d: the surviving taps only, kernel size
`kernel_size_opt`, dilation `dilation_opt`, left padding `(kernel_size_opt - 1)·dilation_opt` -/
def exportedConvAt (K d0 : Nat) (β γ : Nat → Rat) (w : Nat → Int) (x : Int → Int) (τ : Int) : Int :=
  ((List.range (kernelSizeOpt K β γ)).map fun i =>
    w ((keptTaps (timeMask K β γ)).getD i 0) *
      x (τ - (((kernelSizeOpt K β γ - 1 - i) * dilationOpt K d0 γ : Nat) : Int))).sum

/-- a whole layer on a multi-channel integer signal: `w co ci j`, bias `b co`, stride `s`,
`T` output samples; `conv` is one of the two functions above -/
def convLayer (conv : (Nat → Int) → (Int → Int) → Int → Int) (cout : Nat) (w : Nat → Nat → Nat → Int)
    (b : Nat → Int) (xs : List (List Int)) (s T : Nat) : List (List Int) :=
  (List.range cout).map fun co => (List.range T).map fun t =>
    b co + ((List.range xs.length).map fun ci => conv (w co ci) (signal (xs.getD ci [])) ((t * s : Nat) : Int)).sum

end PlinioVerif.PIT
