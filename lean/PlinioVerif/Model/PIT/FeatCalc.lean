import PlinioVerif.Model.PIT.Net
/-!
# `plinio/graph/features_calculation.py`: trees of features calculators (core Lean only)

A layer's `input_features_calculator` is a tree: constants (network inputs, layers excluded from the
search), attributes of a searchable producer (`ModAttrFeaturesCalculator`: its `out_features_eff` and
`features_mask`), a flatten (`FlattenFeaturesCalculator`: count × multiplier, every mask entry repeated
`multiplier` times) and a concat (`ConcatFeaturesCalculator`: counts summed, masks concatenated in
operand order).  The real classes compute the *count* and the *mask* by two separate recursions; the
model keeps both, `Props/C09.lean` proves that they agree on every tree.
-/
namespace PlinioVerif.PIT

inductive FC where
  | const (n : Nat)                 -- `ConstFeaturesCalculator(n)`
  | attr (m : List Bool)            -- `ModAttrFeaturesCalculator` of a producer whose binarized out mask is `m`
  | flat (p : FC) (k : Nat)         -- `FlattenFeaturesCalculator(p, k)`
  | cat (l : List FC)               -- `ConcatFeaturesCalculator(l)`

mutual
/-- `features_mask` -/
def FC.mask : FC → List Bool
  | .const n => List.replicate n true
  | .attr m => m
  | .flat p k => expand p.mask k
  | .cat l => FC.masks l
def FC.masks : List FC → List Bool
  | [] => []
  | c :: cs => c.mask ++ FC.masks cs
end

mutual
/-- `features` (in discrete mode a producer reports the alive entries of its binarized mask) -/
def FC.features : FC → Nat
  | .const n => n
  | .attr m => countT m
  | .flat p k => k * p.features
  | .cat l => FC.featuresSum l
def FC.featuresSum : List FC → Nat
  | [] => 0
  | c :: cs => c.features + FC.featuresSum cs
end

mutual
/-- width of the tensor the calculator describes -/
def FC.width : FC → Nat
  | .const n => n
  | .attr m => m.length
  | .flat p k => p.width * k
  | .cat l => FC.widthSum l
def FC.widthSum : List FC → Nat
  | [] => 0
  | c :: cs => c.width + FC.widthSum cs
end

end PlinioVerif.PIT
