import PlinioVerif.Model.PIT.TimeMask
/-!
# PIT at the network level: feature bookkeeping, mask sharing, export plan, discrete cost
(C01, C04, C07, C08, C09) — executable model, core Lean only

A network is an SSA list of ops (node `n` is the `n`-th element, its operands are earlier nodes),
the abstraction of the `torch.fx` graph that `plinio.methods.pit.graph.convert` works on:

* `plinio/graph/inspection.py`   → `Op.defining`, `Op.isCat`, `Op.inputs` (node classes)
* `build_shared_features_map`     → `keptEdges`, `computeLabels`, `groupOf` (mask sharing, frozen)
* `add_features_calculator`, `associate_input_features`, `features_calculation.py`
                                  → `aliveMasks` (what every calculator reports), `inMask`
* `PITConv*/PITLinear.export`     → `exportPlan`
* `PIT._get_single_cost` with `params` / `ops` and `discrete_cost=True` → `costParams`, `costOps`
-/
namespace PlinioVerif.PIT

/-- static attributes of a convolution / linear layer that the cost models read -/
structure LAttr where
  k : Nat := 1        -- alive kernel taps (product over kernel dims; `kernel_size_opt` for Conv1d)
  bias : Bool := true -- has a bias (after BatchNorm folding a bias always exists)
  osz : Nat := 1      -- number of output positions (product of output spatial dims; 1 for linear)
  g : Nat := 1        -- `groups` of an excluded convolution (`fixed`); searchable layers have 1 (or are `dw`)
  deriving Repr, DecidableEq

inductive Op where
  | input (c : Nat)
  | conv (src cout : Nat) (a : LAttr)      -- searchable Conv1d/Conv2d, groups = 1
  | dw (src : Nat) (a : LAttr)             -- searchable depthwise conv (features-propagating)
  | lin (src cout : Nat) (a : LAttr)       -- searchable Linear
  | fixed (src cout : Nat) (a : LAttr) (isLin : Bool)  -- conv/linear excluded from the search
  | fixedDw (src : Nat) (a : LAttr)        -- depthwise conv excluded from the search
  | chan (src : Nat)                       -- relu / pooling / zero padding / dropout / identity
  | add (a b : Nat)                        -- residual sum (or sub)
  | cat (srcs : List Nat)                  -- concatenation along the features axis
  | tcat (srcs : List Nat)                 -- concatenation along another axis
  | flat (src mult : Nat)                  -- flatten: every feature becomes `mult` features
  | reuse (src layer lsrc cout : Nat) (a : LAttr)  -- the searchable conv / linear layer defined at node
                                           -- `layer` (where it is applied to `lsrc`) applied again, to
                                           -- `src` (`a.osz` of this call site)
  | reuseDw (src layer lsrc : Nat) (a : LAttr)  -- the searchable depthwise layer defined at node `layer`
                                           -- (applied there to `lsrc`) applied again, to `src`
  | output (src : Nat)
  deriving Repr

abbrev Prog := List Op

def Op.inputs : Op → List Nat
  | .input _ => [] | .conv s _ _ => [s] | .dw s _ => [s] | .lin s _ _ => [s]
  | .fixed s _ _ _ => [s] | .fixedDw s _ => [s] | .chan s => [s] | .add a b => [a, b]
  | .cat ss => ss | .tcat ss => ss | .flat s _ => [s] | .reuse s _ _ _ _ => [s] | .reuseDw s _ _ _ => [s] | .output s => [s]

/-- `is_features_defining_op` -/
def Op.defining : Op → Bool
  | .input _ => true | .conv .. => true | .lin .. => true | .fixed .. => true | .reuse .. => true
  | _ => false
def Op.isCat : Op → Bool | .cat _ => true | _ => false
/-- converted to a PIT layer by `autoimport` -/
def Op.searchable : Op → Bool | .conv .. => true | .dw .. => true | .lin .. => true | _ => false
/-- a layer PIT could convert but which is excluded by name or type -/
def Op.excluded : Op → Bool | .fixed .. => true | .fixedDw .. => true | _ => false
def Op.isInput : Op → Bool | .input _ => true | _ => false
def Op.isOutput : Op → Bool | .output _ => true | _ => false

def getOp (p : Prog) (n : Nat) : Op := p.getD n (.input 0)

def widthStep (w : List Nat) (op : Op) : Nat :=
  match op with
  | .input c => c | .conv _ c _ => c | .dw s _ => w.getD s 0 | .lin _ c _ => c
  | .fixed _ c _ _ => c | .fixedDw s _ => w.getD s 0 | .chan s => w.getD s 0
  | .add a _ => w.getD a 0 | .cat ss => (ss.map (w.getD · 0)).sum
  | .tcat ss => (match ss with | [] => 0 | s :: _ => w.getD s 0)
  | .flat s m => w.getD s 0 * m | .reuse _ _ _ c _ => c | .reuseDw s _ _ _ => w.getD s 0 | .output s => w.getD s 0

/-- static number of features of every node (`tensor_meta.shape[1]`) -/
def widths (p : Prog) : List Nat := p.foldl (fun w op => w ++ [widthStep w op]) []

/-- edges of the "sharing graph": the fx edges minus those entering a features-defining or a
features-concatenating node; plus, for a layer invoked again, an edge between its two call sites
and an edge between the two tensors it is applied to (one masker, one input-features mask) -/
def keptEdges (p : Prog) : List (Nat × Nat) :=
  (p.zipIdx.map fun (op, n) =>
    match op with
    | .reuse s o ls _ _ => [(o, n), (ls, s)]
    | .reuseDw s _ ls _ => [(s, n), (ls, s)]
    | _ => if op.defining || op.isCat then [] else op.inputs.map (·, n)).flatten

def relabel (es : List (Nat × Nat)) (l : List Nat) : List Nat :=
  es.foldl (fun l (i, n) =>
    let m := min (l.getD i 0) (l.getD n 0)
    (l.set i m).set n m) l

structure Group where
  width : Nat
  frozen : Bool
  deriving Repr, DecidableEq

def members (p : Prog) (labels : List Nat) (g : Nat) : List Nat :=
  (List.range p.length).filter fun n => labels.getD n 0 == g

/-- `feeds_unprunable_consumer`: the features of node `n` reach — unchanged, flattened or
concatenated with others, i.e. through nodes that do not define features — a layer excluded from
the search or a network output.  Users come later in SSA order, so one backward sweep computes the
forward reachability. -/
def reachFixed (p : Prog) : List Bool :=
  (List.range p.length).foldr (fun n (r : List Bool) =>
    r.set n (p.zipIdx.any fun (op, u) =>
      op.inputs.contains n && (op.excluded || op.isOutput || (!op.defining && r.getD u false))))
    (List.replicate p.length false)

def feedsExcluded (p : Prog) (n : Nat) : Bool := (reachFixed p).getD n false

/-- masker of a component: exists iff the component holds a features-defining node; frozen iff
the component touches a network input or output, feeds an excluded layer or contains one -/
def groupOf (p : Prog) (labels : List Nat) (g : Nat) : Option Group :=
  let ms := members p labels g
  match ms.find? (fun n => (getOp p n).defining) with
  | none => none
  | some d =>
    some { width := (widths p).getD d 0,
           frozen := ms.any fun n =>
             (getOp p n).isInput || (getOp p n).isOutput || (getOp p n).excluded || feedsExcluded p n }

/-- binarised features mask of a masker (`PITFeaturesMasker` / `PITFrozenFeaturesMasker`) -/
def featMask (g : Group) (α : List Rat) : List Bool :=
  if g.frozen then List.replicate g.width true else featuresMask g.width (ofList α)

/-- the computed forward reachability is closed under the rule that defines it: whenever a user
`u` of `t` is an excluded layer, a network output, or a non-defining node that itself reaches one,
`t` is marked -/
def closedReach (p : Prog) (r : List Bool) : Bool :=
  p.zipIdx.all fun (op, u) => op.inputs.all fun t =>
    !(op.excluded || op.isOutput || (!op.defining && r.getD u false)) || r.getD t false

/-- certificate a labelling must pass: equal labels across every kept edge, the reachability
marks are closed, and the masker of the class of every features-defining node has that node's
width -/
def labelsOK (p : Prog) (l : List Nat) : Bool :=
  (keptEdges p).all (fun (i, n) => l.getD i 0 == l.getD n 0) && closedReach p (reachFixed p) &&
  (List.range p.length).all fun n =>
    !(getOp p n).defining ||
      (match groupOf p l (l.getD n 0) with
       | some g => g.width == (widths p).getD n 0
       | none => false)

/-- certifying labelling of the weakly connected components of the sharing graph: min-label
propagation for `|p|` rounds; `none` unless the result passes `labelsOK`.  That the classes are
also not *coarser* than the components is proved in `Lemmas/PIT/Labels.lean`
(`classes_are_components`); the masker-identity partition of the real model is compared with
these classes on every generated net. -/
def computeLabels (p : Prog) : Option (List Nat) :=
  let l := (List.range p.length).foldl (fun l _ => relabel (keptEdges p) l) (List.range p.length)
  if labelsOK p l then some l else none

def ownMask (p : Prog) (labels : List Nat) (alphaOf : Nat → List Rat) (n : Nat) : List Bool :=
  match groupOf p labels (labels.getD n 0) with
  | some g => featMask g (alphaOf (labels.getD n 0))
  | none => []

def expand (m : List Bool) (mult : Nat) : List Bool := (m.map fun b => List.replicate mult b).flatten

def maskStep (p : Prog) (labels : List Nat) (alphaOf : Nat → List Rat) (ms : List (List Bool))
    (x : Op × Nat) : List Bool :=
  match x.1 with
  | .input c => List.replicate c true
  | .conv .. => ownMask p labels alphaOf x.2
  | .dw .. => ownMask p labels alphaOf x.2
  | .lin .. => ownMask p labels alphaOf x.2
  | .fixed _ c _ _ => List.replicate c true
  | .fixedDw s _ => ms.getD s []
  | .chan s => ms.getD s []
  | .add a _ => ms.getD a []
  | .cat ss => (ss.map (ms.getD · [])).flatten
  | .tcat ss => (match ss with | [] => [] | s :: _ => ms.getD s [])
  | .flat s m => expand (ms.getD s []) m
  | .reuse .. => ownMask p labels alphaOf x.2
  | .reuseDw .. => ownMask p labels alphaOf x.2
  | .output s => ms.getD s []

/-- alive mask of the tensor produced by every node, as the features calculators report it -/
def aliveMasks (p : Prog) (labels : List Nat) (alphaOf : Nat → List Rat) : List (List Bool) :=
  p.zipIdx.foldl (fun ms x => ms ++ [maskStep p labels alphaOf ms x]) []

/-- mask of the tensor feeding node `n` (`input_features_calculator.features_mask`) -/
def inMask (p : Prog) (ms : List (List Bool)) (n : Nat) : List Bool :=
  ms.getD ((getOp p n).inputs.headD 0) []

/-! ### which programs the mask-sharing scheme supports

A node is *tainted* when its features are (part of) a concatenation or a flattening with no
features-defining layer in between: its alive mask is then not the mask of one masker.  The
sharing scheme is sound when no residual sum, non-feature concatenation or depthwise convolution
consumes a tainted tensor (known findings K9, K10 are exactly the two ways to violate this). -/
def taintStep (t : List Bool) (op : Op) : Bool :=
  match op with
  | .input _ => false | .conv .. => false | .lin .. => false | .fixed .. => false | .reuse .. => false
  | .cat _ => true | .flat .. => true
  | .dw s _ => t.getD s false | .fixedDw s _ => t.getD s false | .chan s => t.getD s false
  | .reuseDw s _ _ _ => t.getD s false
  | .add a b => t.getD a false || t.getD b false
  | .tcat ss => ss.any (t.getD · false)
  | .output s => t.getD s false

def tainted (p : Prog) : List Bool := p.foldl (fun t op => t ++ [taintStep t op]) []

def supported (p : Prog) : Bool :=
  let t := tainted p
  p.all fun op => match op with
    | .add a b => !(t.getD a false) && !(t.getD b false)
    | .tcat ss => ss.all fun s => !(t.getD s false)
    | .dw s _ => !(t.getD s false)
    | .fixedDw s _ => !(t.getD s false)
    | .reuse s _ ls _ _ => !(t.getD s false) && !(t.getD ls false)
    | .reuseDw s _ ls _ => !(t.getD s false) && !(t.getD ls false)
    | _ => true

/-- sources exist and sizes agree (what makes the seed network run at all) -/
def wellShaped (p : Prog) : Bool :=
  let w := widths p
  (p.zipIdx.all fun (op, n) => op.inputs.all (· < n)) &&
  (p.all fun op => match op with
    | .add a b => w.getD a 0 == w.getD b 0
    | .tcat ss => ss.length == 2 && ss.all fun s => w.getD s 0 == w.getD (ss.headD 0) 0
    | _ => true) &&
  -- a layer invoked again: defined earlier, as a searchable conv / linear layer of this width,
  -- on a tensor of the same width
  p.zipIdx.all fun (op, n) => match op with
    | .reuse s o ls c _ => o < n && (match getOp p o with
        | .conv s' c' _ => c' == c && s' == ls && ls < o && w.getD s 0 == w.getD ls 0
        | .lin s' c' _ => c' == c && s' == ls && ls < o && w.getD s 0 == w.getD ls 0
        | _ => false)
    | .reuseDw s o ls _ => o < n && (match getOp p o with
        | .dw s' _ => s' == ls && ls < o && w.getD s 0 == w.getD ls 0
        | _ => false)
    | _ => true

/-- no layer is excluded from the search -/
def noExcluded (p : Prog) : Bool := p.all fun op => !op.excluded

/-! ### export plan and discrete cost -/

def countT (m : List Bool) : Nat := (m.filter id).length
def keptIdx (m : List Bool) : List Nat := (List.range m.length).filter fun i => m.getD i false

structure LayerPlan where
  node : Nat
  outKept : List Nat      -- output features copied by export, in order
  inKept : List Nat       -- input features copied by export, in order (positions in the input tensor)
  groups : Nat
  deriving Repr

/-- what `export` builds for the searchable layer at node `n` -/
def planOf (p : Prog) (ms : List (List Bool)) (n : Nat) : LayerPlan :=
  { node := n, outKept := keptIdx (ms.getD n []), inKept := keptIdx (inMask p ms n),
    groups := match getOp p n with | .dw .. => countT (inMask p ms n) | _ => 1 }

/-- what `export` builds for every searchable layer -/
def exportPlan (p : Prog) (ms : List (List Bool)) : List LayerPlan :=
  ((List.range p.length).filter fun n => (getOp p n).searchable).map (planOf p ms)

def b2n (b : Bool) : Nat := if b then 1 else 0

/-- `params` cost of one node: PIT layers with their effective sizes (discrete), excluded
layers with their static ones (charged only with `full_cost`) -/
def nodeParams (p : Prog) (ms : List (List Bool)) (full : Bool) (n : Nat) : Nat :=
  let w := widths p
  let cin := countT (inMask p ms n)
  let cout := countT (ms.getD n [])
  match getOp p n with
  | .conv _ _ a => cout * (cin * a.k + b2n a.bias)
  | .dw _ a => cin * (a.k + b2n a.bias)
  | .lin _ _ a => cout * (cin + b2n a.bias)
  | .fixed s c a _ => if full then c * (w.getD s 0 / a.g * a.k + b2n a.bias) else 0
  | .fixedDw s a => if full then w.getD s 0 * (a.k + b2n a.bias) else 0
  | _ => 0      -- a layer invoked again holds no parameters of its own

/-- parameters the layer of a call site would be charged (what a per-invocation metric scales) -/
def siteParams (ms : List (List Bool)) (p : Prog) (n : Nat) (a : LAttr) : Nat :=
  countT (ms.getD n []) * (countT (inMask p ms n) * a.k + b2n a.bias)

def nodeOps (p : Prog) (ms : List (List Bool)) (full : Bool) (n : Nat) : Nat :=
  match getOp p n with
  | .conv _ _ a => nodeParams p ms full n * a.osz
  | .dw _ a => nodeParams p ms full n * a.osz
  | .lin .. => nodeParams p ms full n
  | .fixed _ _ a isLin => if isLin then nodeParams p ms full n else nodeParams p ms full n * a.osz
  | .fixedDw _ a => nodeParams p ms full n * a.osz
  | .reuse _ o _ _ a => (match getOp p o with
      | .conv .. => siteParams ms p n a * a.osz
      | .lin .. => siteParams ms p n a
      | _ => 0)
  | .reuseDw _ _ _ a => countT (inMask p ms n) * (a.k + b2n a.bias) * a.osz
  | _ => 0

def costParams (p : Prog) (ms : List (List Bool)) (full : Bool) : Nat :=
  ((List.range p.length).map (nodeParams p ms full)).sum
def costOps (p : Prog) (ms : List (List Bool)) (full : Bool) : Nat :=
  ((List.range p.length).map (nodeOps p ms full)).sum

/-- the same metrics computed from scratch on the network `export` builds: every layer with the
sizes of its exported weight tensor -/
def exportedNodeParams (p : Prog) (ms : List (List Bool)) (n : Nat) : Nat :=
  let pl := planOf p ms n
  match getOp p n with
  | .conv _ _ a => pl.outKept.length * (pl.inKept.length * a.k) + b2n a.bias * pl.outKept.length
  | .dw _ a => pl.outKept.length * a.k + b2n a.bias * pl.outKept.length
  | .lin _ _ a => pl.outKept.length * pl.inKept.length + b2n a.bias * pl.outKept.length
  | _ => 0

def exportedNodeOps (p : Prog) (ms : List (List Bool)) (n : Nat) : Nat :=
  match getOp p n with
  | .conv _ _ a => exportedNodeParams p ms n * a.osz
  | .dw _ a => exportedNodeParams p ms n * a.osz
  | .lin .. => exportedNodeParams p ms n
  | .reuse _ o _ _ a =>       -- the exported layer of node `o`, applied at this call site
      let pl := planOf p ms o
      (match getOp p o with
      | .conv .. => (pl.outKept.length * (pl.inKept.length * a.k) + b2n a.bias * pl.outKept.length) * a.osz
      | .lin .. => pl.outKept.length * (pl.inKept.length * a.k) + b2n a.bias * pl.outKept.length
      | _ => 0)
  | .reuseDw _ o _ a =>
      let pl := planOf p ms o
      (pl.outKept.length * a.k + b2n a.bias * pl.outKept.length) * a.osz
  | _ => 0

def exportedParams (p : Prog) (ms : List (List Bool)) : Nat :=
  ((List.range p.length).map (exportedNodeParams p ms)).sum
def exportedOps (p : Prog) (ms : List (List Bool)) : Nat :=
  ((List.range p.length).map (exportedNodeOps p ms)).sum

end PlinioVerif.PIT
