import PlinioVerif.Model.Proto
import PlinioVerif.Model.PIT.Net
/-! Request syntax of SSA programs shared by the PIT drivers (`Drivers/PITNet.lean`, `Drivers/PITSem.lean`):
   `input c` `conv s cout k bias osz` `dw s k bias osz` `lin s cout bias`
   `fixed s cout k bias osz lin?` `fixedg s cout k bias osz groups` `fixeddw s k bias osz` `chan s` `add a b` `cat a,b,…`
   `tcat a,b,…` `flat s mult` `reuse s layer lsrc cout k bias osz` `reusedw s layer lsrc k bias osz` `output s` -/
namespace PlinioVerif.PIT
open PlinioVerif PlinioVerif.Proto

def parseNats (s : String) : List Nat := (s.splitOn ",").filterMap (·.trimAscii.toString.toNat?)

def attr (k bias osz : String) : Option LAttr := do
  pure { k := ← k.toNat?, bias := ← parseBool? bias, osz := ← osz.toNat? }

def parseOp (toks : List String) : Option Op :=
  match toks with
  | ["input", c] => do pure (.input (← c.toNat?))
  | ["conv", s, c, k, b, o] => do pure (.conv (← s.toNat?) (← c.toNat?) (← attr k b o))
  | ["dw", s, k, b, o] => do pure (.dw (← s.toNat?) (← attr k b o))
  | ["lin", s, c, b] => do pure (.lin (← s.toNat?) (← c.toNat?) (← attr "1" b "1"))
  | ["fixed", s, c, k, b, o, l] => do pure (.fixed (← s.toNat?) (← c.toNat?) (← attr k b o) (← parseBool? l))
  | ["fixedg", s, c, k, b, o, g] => do   -- excluded grouped convolution (groups = g > 1, not depthwise)
      let a ← attr k b o
      let g ← g.toNat?
      if g = 0 then none else pure (.fixed (← s.toNat?) (← c.toNat?) { a with g := g } false)
  | ["fixeddw", s, k, b, o] => do pure (.fixedDw (← s.toNat?) (← attr k b o))
  | ["chan", s] => do pure (.chan (← s.toNat?))
  | ["add", a, b] => do pure (.add (← a.toNat?) (← b.toNat?))
  | ["cat", ss] => some (.cat (parseNats ss))
  | ["tcat", ss] => some (.tcat (parseNats ss))
  | ["flat", s, m] => do pure (.flat (← s.toNat?) (← m.toNat?))
  | ["reuse", s, o, ls, c, k, b, z] => do pure (.reuse (← s.toNat?) (← o.toNat?) (← ls.toNat?) (← c.toNat?) (← attr k b z))
  | ["reusedw", s, o, ls, k, b, z] => do pure (.reuseDw (← s.toNat?) (← o.toNat?) (← ls.toNat?) (← attr k b z))
  | ["output", s] => do pure (.output (← s.toNat?))
  | _ => none


end PlinioVerif.PIT
