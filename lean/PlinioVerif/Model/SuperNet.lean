/-!
# Model of `plinio.methods.supernet` (C03, C06) — core Lean only

A traced SuperNet (`torch.fx` graph of `SuperNet.seed`) is an SSA list of nodes.  Node `i` of the
list *is* fx node number `i`; erasing a node turns its slot into `erased`, so identifiers stay
stable through the graph surgery and nothing has to be renumbered in the proofs (the drivers
renumber when they print).

* `hardEval` / `softEval` — forward pass with **abstract** leaf semantics (`Env.sem`): a
  `SuperNetCombiner` node returns the winner's output (hard) or `Σ θᵢ·yᵢ` (soft).
* `exportGraph` — `supernet/graph.py export_graph` as it is after fix 463d3d2: for every combiner
  node, positional winner `n.args[0][best_idx]`, `replace_all_uses_with`, `erase_node` of the
  combiner and of the other branch outputs (an erase of a node that still has users raises →
  `none`), then `Graph.eliminate_dead_code` and `GraphModule.delete_all_unused_submodules`.
  `exportGraphPinned` is the rule of the pinned tree (branch recognised by a substring of the
  node target), kept for the regression witness.
* `snCost` — `SuperNet._get_single_cost` + `SuperNetCombiner.get_cost` +
  `link_combiners_to_branches` (unique leaves of every branch, *first* call site's node),
  shared vs per-invocation target list, `full_cost`.
* `plainCost` — the same metric computed from scratch on a plain (exported) graph.
-/
namespace PlinioVerif.SuperNet

/-- node identifiers are positions in the node list (plain `Nat`, so that `omega` sees them) -/
abbrev NodeId := Nat

/-- the fx op kinds a leaf can have -/
inductive Kind where
  | module | function | method
  /-- a `call_function` that `Node.is_impure()` reports as impure (torch random functions,
  `torch._assert`, …): `Graph.eliminate_dead_code` never removes it -/
  | impureFunction
deriving DecidableEq, Repr

/-- what a leaf computes: op kind + canonicalised target (qualified module name, or function
name with its non-tensor arguments) -/
structure Tag where
  kind : Kind
  target : String
deriving DecidableEq, Repr

inductive Op where
  /-- `placeholder` number `k` -/
  | input (k : Nat)
  /-- `call_module` of a leaf layer / `call_function` / `call_method` -/
  | leaf (t : Tag)
  /-- `call_module` of a `SuperNetCombiner`; `c` is the qualified name of the combiner module -/
  | combine (c : String)
  | output
  /-- slot of a node removed by `Graph.erase_node` -/
  | erased
deriving DecidableEq, Repr

structure Node where
  op : Op
  args : List Nat
deriving DecidableEq, Repr

abbrev Graph := List Node

namespace Node
/-- the erased slot -/
def E : Node := ⟨.erased, []⟩
def input (k : Nat) : Node := ⟨.input k, []⟩
def leaf (t : Tag) (args : List Nat) : Node := ⟨.leaf t, args⟩
/-- choice node: `sn_combiner([branch outputs])` -/
def combine (c : String) (outs : List Nat) : Node := ⟨.combine c, outs⟩
def output (a : Nat) : Node := ⟨.output, [a]⟩
def live (nd : Node) : Bool := nd.op != .erased
def isCombine (nd : Node) : Bool := match nd.op with | .combine _ => true | _ => false
/-- `Node.is_impure()`: placeholders, outputs and the functions fx regards as impure -/
def impure (nd : Node) : Bool :=
  match nd.op with
  | .input _ => true
  | .output => true
  | .leaf ⟨.impureFunction, _⟩ => true
  | _ => false
/-- placeholder or output -/
def isIO (nd : Node) : Bool := match nd.op with | .input _ => true | .output => true | _ => false
end Node

/-- node `i` of a graph (`erased` outside) -/
def Graph.nd (g : Graph) (i : Nat) : Node := g.getD i Node.E

/-! ## forward pass -/

/-- abstract meaning of everything that is not a choice: leaf semantics, network inputs, and a
junk value for erased / out-of-range reads (never reached on well-formed graphs) -/
structure Env (V : Type) where
  sem : Tag → List V → V
  x : Nat → V
  d : V

/-- generic forward scan: slot `i` of the result is computed from the values of the earlier
slots -/
def scanFrom {β : Type} (step : List β → Node → β) : List β → List Node → List β
  | acc, [] => acc
  | acc, nd :: rest => scanFrom step (acc ++ [step acc nd]) rest

/-- value of one node under **hard** selection: a combiner returns the output of branch
`win c` (`(one_hot * outs).sum()`), everything else is abstract -/
def evalNode {V : Type} (E : Env V) (win : String → Nat) (v : Nat → V) (nd : Node) : V :=
  match nd.op with
  | .input k => E.x k
  | .leaf t => E.sem t (nd.args.map v)
  | .combine c => (nd.args.map v).getD (win c) E.d
  | .output => (nd.args.map v).headD E.d
  | .erased => E.d

/-- values of all nodes under hard selection -/
def hardEval {V : Type} (E : Env V) (win : String → Nat) (g : Graph) : List V :=
  scanFrom (fun vals nd => evalNode E win (fun i => vals.getD i E.d) nd) [] g

/-- value of node `i` -/
def valAt {V : Type} (E : Env V) (win : String → Nat) (g : Graph) (i : Nat) : V :=
  (hardEval E win g).getD i E.d

/-- the network's output: fx puts the `output` node last -/
def netOut {V : Type} (E : Env V) (win : String → Nat) (g : Graph) : V :=
  valAt E win g (g.length - 1)

/-- `SuperNetCombiner.forward`: `Σ θᵢ·yᵢ` (zip of coefficients and branch outputs) -/
def wsum {R V : Type} [Zero V] [Add V] [SMul R V] : List R → List V → V
  | θ :: θs, y :: ys => θ • y + wsum θs ys
  | _, _ => 0

/-- value of one node with sampled coefficients `θ c` -/
def softNode {R V : Type} [Zero V] [Add V] [SMul R V] (E : Env V) (θ : String → List R)
    (v : Nat → V) (nd : Node) : V :=
  match nd.op with
  | .input k => E.x k
  | .leaf t => E.sem t (nd.args.map v)
  | .combine c => wsum (θ c) (nd.args.map v)
  | .output => (nd.args.map v).headD E.d
  | .erased => E.d

def softEval {R V : Type} [Zero V] [Add V] [SMul R V] (E : Env V) (θ : String → List R)
    (g : Graph) : List V :=
  scanFrom (fun vals nd => softNode E θ (fun i => vals.getD i E.d) nd) [] g

/-- `F.one_hot(k, n)` -/
def onehot {R : Type} [Zero R] [One R] (n k : Nat) : List R :=
  (List.range n).map fun i => if i = k then 1 else 0

/-- `torch.argmax` of a vector: index of the first maximal entry -/
def argmaxFrom : List Rat → Nat → Nat → Rat → Nat
  | [], _, best, _ => best
  | a :: as, i, best, m => if m < a then argmaxFrom as (i + 1) i a else argmaxFrom as (i + 1) best m

def argmax : List Rat → Nat
  | [] => 0
  | a :: as => argmaxFrom as 1 0 a

/-- look-up in an association list of per-combiner data -/
def assoc {α : Type} (l : List (String × α)) (dflt : α) (c : String) : α :=
  match l.find? (·.1 == c) with
  | some p => p.2
  | none => dflt

/-- `SuperNetCombiner.best_layer_index` for every combiner -/
def winners (alpha : List (String × List Rat)) : String → Nat :=
  fun c => argmax (assoc alpha [] c)

/-! ## histories: what `export()` may depend on

Between construction and `export()` a combiner sees in-place writes of `alpha` (optimizer step,
`load_state_dict`, assignment), option updates and forward passes.  A forward pass re-samples
`theta_alpha` from the *current* `alpha`; nothing else touches `theta_alpha`.  `export()` must read
`alpha` (`best_layer_index` = arg-max alpha), never what the last forward pass left in `theta_alpha`. -/

/-- the part of a `SuperNetCombiner`'s state that a selection rule could read -/
structure CombSt where
  alpha : List Rat
  /-- position of the largest entry of `theta_alpha` (left by the last forward pass), if determined -/
  sampled : Option Nat
  hard : Bool
  gumbel : Bool
deriving Repr

inductive HistOp where
  /-- `alpha` of combiner `c` overwritten (in place, `.data =`, `load_state_dict`, optimizer step) -/
  | setAlpha (c : String) (a : List Rat)
  /-- `update_softmax_options(hard=h)` -/
  | setHard (h : Bool)
  /-- `update_softmax_options(temperature=…)` -/
  | setTemp
  /-- a forward pass of the SuperNet: softmax / hard softmax keep the arg-max of `alpha`; Gumbel
  noise (training mode) leaves an undetermined sample -/
  | forward (train : Bool)
  /-- an (earlier) `export()`: leaves the SuperNet as it was -/
  | exported
deriving Repr

/-- the op overwrites an `alpha` -/
def HistOp.isWrite : HistOp → Bool
  | .setAlpha _ _ => true
  | _ => false

abbrev HistSt := List (String × CombSt)

def stepComb (op : HistOp) (c : String) (s : CombSt) : CombSt :=
  match op with
  | .setAlpha c' a => if c' = c then { s with alpha := a } else s
  | .setHard h => { s with hard := h }
  | .setTemp => s
  | .forward train => { s with sampled := if train && s.gumbel then none else some (argmax s.alpha) }
  | .exported => s

/-- the op is an `export()` -/
def HistOp.isExport : HistOp → Bool
  | .exported => true
  | _ => false

def histStep (st : HistSt) (op : HistOp) : HistSt := st.map fun p => (p.1, stepComb op p.1 p.2)

def runHist (st : HistSt) (ops : List HistOp) : HistSt := ops.foldl histStep st

/-- current `alpha` of every combiner -/
def alphaOf (st : HistSt) : List (String × List Rat) := st.map fun p => (p.1, p.2.alpha)

/-- `best_layer_index` of every combiner as `export_graph` calls it: arg-max of the current alpha -/
def exportWinners (st : HistSt) : String → Nat := winners (alphaOf st)

/-- the rule "with hard selection, take the one-hot `theta_alpha` already holds" (seeded change
c03_2): the selection of the *last forward pass*, stale when alpha has changed since -/
def exportWinnersStale (st : HistSt) : String → Nat := fun c =>
  match st.find? (·.1 == c) with
  | some p => if p.2.hard then p.2.sampled.getD (argmax p.2.alpha) else argmax p.2.alpha
  | none => 0

/-! ## export: `export_graph` -/

def substId (n b a : Nat) : Nat := if a = n then b else a

/-- `Node.replace_all_uses_with` -/
def replaceUses (n b : Nat) (g : Graph) : Graph :=
  g.map fun nd => { nd with args := nd.args.map (substId n b) }

/-- `len(node.users) > 0` -/
def hasUsers (g : Graph) (i : Nat) : Bool := g.any fun nd => nd.args.contains i

/-- `node.args = (); graph.erase_node(node)` — raises when the node still has users -/
def eraseNode (g : Graph) (i : Nat) : Option Graph :=
  if hasUsers g i then none else some (g.set i Node.E)

def eraseAll : List Nat → Graph → Option Graph
  | [], g => some g
  | i :: is, g => (eraseNode g i).bind (eraseAll is)

/-! ### which nodes a discarded branch consists of: `_erase_discarded_branches` -/

/-- backward marking over `rest = g.drop i`: node `i` is marked iff `ok i` and (`seed i` or a marked
later node has `i` among its arguments).  Returns the marks of `i, i+1, …`. -/
def backMarks (ok seed : Nat → Bool) : List Node → Nat → List Bool
  | [], _ => []
  | _ :: rest, i =>
    let m := backMarks ok seed rest (i + 1)
    (ok i && (seed i || (m.zip rest).any fun p => p.1 && p.2.args.contains i)) :: m

/-- `alive`: the nodes that reach an `output` -/
def aliveMarks (g : Graph) : List Bool :=
  backMarks (fun _ => true) (fun i => (g.nd i).op == .output) g 0

def isInput (nd : Node) : Bool := match nd.op with | .input _ => true | _ => false

/-- the ancestors of the discarded outputs that do not reach an output (placeholders excepted) -/
def ancMarks (g : Graph) (discarded : List Nat) : List Bool :=
  let al := aliveMarks g
  backMarks (fun i => !(al.getD i false) && !(isInput (g.nd i))) (fun i => discarded.contains i) g 0

/-- … and everything computed from them (outputs excepted) -/
def regionMarks (g : Graph) (discarded : List Nat) : List Bool :=
  let anc := ancMarks g discarded
  scanFrom (fun acc nd => anc.getD acc.length false ||
    (nd.op != .output && nd.args.any fun a => acc.getD a false)) [] g

/-- the nodes of the discarded branches, last first (the order in which they are erased) -/
def regionDesc (g : Graph) (discarded : List Nat) : List Nat :=
  let m := regionMarks g discarded
  ((List.range g.length).filter fun i => m.getD i false).reverse

/-- body of the `for n in mod.graph.nodes` loop for node `n`: positional winner,
`replace_all_uses_with`, erase the combiner, erase the discarded branches (nothing else) -/
def exportCombiner (win : String → Nat) (g : Graph) (n : Nat) : Option Graph :=
  match (g.nd n).op with
  | .combine c =>
    let outs := (g.nd n).args
    match outs[win c]? with
    | none => none                                  -- `n.args[0][best_idx]`: IndexError
    | some best =>
      let discarded := outs.eraseDups.filter (· != best)
      (eraseNode (replaceUses n best g) n).bind fun g2 => eraseAll (regionDesc g2 discarded) g2
  | _ => some g

def exportLoop (win : String → Nat) : Nat → Nat → Graph → Option Graph
  | 0, _, g => some g
  | t + 1, n, g => (exportCombiner win g n).bind (exportLoop win t (n + 1))

/-- `export_graph` on the node list (`none` = the real function raises).  No generic dead-code
elimination: statements of the user's code whose result is unused stay where they are. -/
def exportGraph (win : String → Nat) (g : Graph) : Option Graph := exportLoop win g.length 0 g

/-! ### the rule before the "erase discarded branches" fix, for the regression witnesses: the
outputs of the discarded branches erased by hand, then `Graph.eliminate_dead_code` -/

def exportCombinerDce (win : String → Nat) (g : Graph) (n : Nat) : Option Graph :=
  match (g.nd n).op with
  | .combine c =>
    let outs := (g.nd n).args
    match outs[win c]? with
    | none => none
    | some best =>
      let losers := outs.eraseDups.filter (· != best)
      (eraseNode (replaceUses n best g) n).bind (eraseAll losers)
  | _ => some g

def exportLoopDce (win : String → Nat) : Nat → Nat → Graph → Option Graph
  | 0, _, g => some g
  | t + 1, n, g => (exportCombinerDce win g n).bind (exportLoopDce win t (n + 1))

def dceStep (g : Graph) (i : Nat) : Graph :=
  if (g.nd i).live && !(g.nd i).impure && !hasUsers g i then g.set i Node.E else g

/-- `Graph.eliminate_dead_code`: one pass over the reversed node list -/
def dceLoop : Nat → Graph → Graph
  | 0, g => g
  | i + 1, g => dceLoop i (dceStep g i)

def dce (g : Graph) : Graph := dceLoop g.length g

def exportGraphDce (win : String → Nat) (g : Graph) : Option Graph :=
  (exportLoopDce win g.length 0 g).map dce

/-! ### the rule of the pinned tree (before 463d3d2), for the regression witness -/

/-- `sub` occurs in `s` (on character lists, so that the kernel can evaluate it) -/
def isInfixChars (sub : List Char) : List Char → Bool
  | [] => sub.isEmpty
  | c :: t => sub.isPrefixOf (c :: t) || isInfixChars sub t

/-- `sub in s` for strings -/
def hasSub (s sub : String) : Bool := isInfixChars sub.toList s.toList

/-- `s.split('.')` on character lists -/
def splitDotsAux : List Char → List Char → List (List Char)
  | cur, [] => [cur.reverse]
  | cur, c :: t => if c = '.' then cur.reverse :: splitDotsAux [] t else splitDotsAux (c :: cur) t

def pathOf (t : String) : List (List Char) := splitDotsAux [] t.toList

/-- `int(s)` for a string of decimal digits -/
def natOfDigits? (cs : List Char) : Option Nat :=
  if cs.isEmpty then none else
  cs.foldl (fun acc c => acc.bind fun n => if c.isDigit then some (n * 10 + (c.toNat - 48)) else none) (some 0)

/-- `str(ni.target)` as far as the pinned test can see it: module targets are their qualified
name; a function / method target never contains `sn_branches.` -/
def targetStr (nd : Node) : String :=
  match nd.op with
  | .leaf ⟨.module, t⟩ => t
  | .combine c => c
  | _ => ""

/-- pinned loop body: every input whose target contains `'sn_branches.' + str(best_idx)` takes
over the uses (the first one wins, later ones find no uses left), all others are erased -/
def exportCombinerPinned (win : String → Nat) (g : Graph) (n : Nat) : Option Graph :=
  match (g.nd n).op with
  | .combine c =>
    let ins := (g.nd n).args.eraseDups
    let name := "sn_branches." ++ toString (win c)
    let isBest := fun ni => hasSub (targetStr (g.nd ni)) name
    let g1 := match ins.find? isBest with
      | some b => replaceUses n b g
      | none => g
    (eraseNode g1 n).bind (eraseAll (ins.filter (fun ni => !isBest ni)))
  | _ => some g

def exportLoopPinned (win : String → Nat) : Nat → Nat → Graph → Option Graph
  | 0, _, g => some g
  | t + 1, n, g => (exportCombinerPinned win g n).bind (exportLoopPinned win t (n + 1))

def exportGraphPinned (win : String → Nat) (g : Graph) : Option Graph :=
  (exportLoopPinned win g.length 0 g).map dce

/-! ### module tree: `delete_all_unused_submodules` -/

/-- targets of the `call_module` nodes still in the graph -/
def moduleTargets (g : Graph) : List String :=
  g.filterMap fun nd =>
    match nd.op with
    | .leaf ⟨.module, t⟩ => some t
    | .combine c => some c
    | _ => none

/-- `p` is `t` or a dotted ancestor of `t` -/
def isAncestor (p t : String) : Bool := p == t || t.startsWith (p ++ ".")

/-- qualified module names that survive: ancestors and descendants of a called module (and the
root, which `delete_submodule('')` leaves alone) -/
def survivingModules (mods : List String) (g : Graph) : List String :=
  let used := moduleTargets g
  mods.filter fun m => m == "" || used.any fun t => isAncestor m t || isAncestor t m

/-! ## cost: `SuperNet._get_single_cost` -/

/-- `(parent path, branch)` of a leaf inside a `SuperNetModule`, as `link_combiners_to_branches`
reads it off the qualified name: the path before the component `sn_branches`, and the next
component as an integer -/
def branchOf (t : String) : Option (List (List Char) × Nat) :=
  let p := pathOf t
  let i := p.idxOf "sn_branches".toList
  if i < p.length then
    match natOfDigits? (p.getD (i + 1) []) with
    | some b => some (p.take i, b)
    | none => none
  else none

/-- path of the `SuperNetModule` a combiner belongs to (`lname` of `lname + ".sn_combiner"`) -/
def parentOf (c : String) : List (List Char) := (pathOf c).dropLast

/-- one entry of `named_leaf_modules`: a `call_module` node with what the cost code reads off its
qualified name -/
structure Leaf where
  name : String
  node : Nat
  /-- the module is a `SuperNetCombiner` -/
  isComb : Bool
  /-- number of arguments of the node (= `n_branches` for a combiner) -/
  nargs : Nat
  /-- `'sn_branches' in str(node.target)` -/
  inBranch : Bool
  /-- `(parent, branch)` as `link_combiners_to_branches` reads it -/
  br : Option (List (List Char) × Nat)

def leafOf (p : Node × Nat) : Option Leaf :=
  match p.1.op with
  | .leaf ⟨.module, t⟩ => some ⟨t, p.2, false, p.1.args.length, hasSub t "sn_branches", branchOf t⟩
  | .combine c => some ⟨c, p.2, true, p.1.args.length, hasSub c "sn_branches", none⟩
  | _ => none

/-- `named_leaf_modules`: every `call_module` node, in graph order -/
def leafModules (g : Graph) : List Leaf := g.zipIdx.filterMap leafOf

/-- `uniquify_leaf_modules`: first occurrence of every name -/
def uniqFrom : List String → List Leaf → List Leaf
  | _, [] => []
  | seen, l :: rest =>
    if seen.contains l.name then uniqFrom seen rest else l :: uniqFrom (l.name :: seen) rest

def uniq (l : List Leaf) : List Leaf := uniqFrom [] l

/-- the unique leaves handed to `set_sn_branch(i, ·)` of the combiner of `parent` -/
def branchLeaves (ls : List Leaf) (parent : List (List Char)) (i : Nat) : List Leaf :=
  uniq (ls.filter fun l => !l.isComb && l.br == some (parent, i))

/-- `target_list = self._unique_leaf_modules if cost_spec.shared else self._leaf_modules` -/
def targetList (shared : Bool) (g : Graph) : List Leaf :=
  if shared then uniq (leafModules g) else leafModules g

section cost
variable {Q : Type} [Zero Q] [Add Q] [Mul Q]

/-- inner loop of `SuperNetCombiner.get_cost`: `cost_i`.  `u n` is what `cost_fn_map[lname]`
returns on `vars(layer)` + the output shape of node `n` -/
def branchCost (u : Nat → Q) (ls : List Leaf) (parent : List (List Char)) (i : Nat) : Q :=
  (branchLeaves ls parent i).foldl (fun acc l => acc + u l.node) 0

/-- `SuperNetCombiner.get_cost`: `Σᵢ cost_i · theta_alpha[i]` -/
def combinerCost (θ : List Q) (u : Nat → Q) (ls : List Leaf) (parent : List (List Char)) (nb : Nat) : Q :=
  (List.range nb).foldl (fun acc i => acc + branchCost u ls parent i * θ.getD i 0) 0

/-- one iteration of the loop of `SuperNet._get_single_cost` -/
def costStep (full : Bool) (θ : String → List Q) (u : Nat → Q) (ls : List Leaf) (acc : Q) (l : Leaf) : Q :=
  if l.isComb then acc + combinerCost (θ l.name) u ls (parentOf l.name) l.nargs
  else if full && !l.inBranch then acc + u l.node
  else acc

/-- `SuperNet._get_single_cost` -/
def snCost (shared full : Bool) (θ : String → List Q) (u : Nat → Q) (g : Graph) : Q :=
  (targetList shared g).foldl (costStep full θ u (leafModules g)) 0

/-- the metric computed from scratch on a network without choice nodes: every leaf module,
once per name (shared) or once per call site -/
def plainCost (shared : Bool) (u : Nat → Q) (g : Graph) : Q :=
  (targetList shared g).foldl (fun acc l => acc + u l.node) 0

end cost

/-! ### selections that bound the mix -/

/-- qualified names of the combiner modules of a graph, once each -/
def combinerNames (g : Graph) : List String :=
  (g.filterMap fun nd => match nd.op with | .combine c => some c | _ => none).eraseDups

/-- number of branches of combiner `c` (length of the list its first call site receives) -/
def nBranches (g : Graph) (c : String) : Nat :=
  match g.find? (fun nd => nd.op == .combine c) with
  | some nd => nd.args.length
  | none => 0

/-- the coefficients of hard selection `w`: for every combiner the one-hot of its winner -/
def hardTheta {Q : Type} [Zero Q] [One Q] (g : Graph) (w : String → Nat) (c : String) : List Q :=
  onehot (nBranches g c) (w c)

/-- every call site of a combiner receives as many branch outputs as the first one, and the
selection `w` is in range -/
def selectionOkB (g : Graph) (w : String → Nat) : Bool :=
  (leafModules g).all fun l => !l.isComb || (l.nargs == nBranches g l.name && decide (w l.name < l.nargs))

/-- index of the first entry of `l` that no other entry beats under `better` -/
def argBest {Q : Type} (better : Q → Q → Bool) : List Q → Nat → Nat → Option Q → Nat
  | [], _, best, _ => best
  | a :: as, i, _, none => argBest better as (i + 1) i (some a)
  | a :: as, i, best, some m => if better a m then argBest better as (i + 1) i (some a)
                                else argBest better as (i + 1) best (some m)

/-- the cheapest (`better = (· < ·)`) or most expensive (`(· > ·)`) branch of every block -/
def extremeSelection {Q : Type} [Zero Q] [Add Q] (better : Q → Q → Bool) (u : Nat → Q) (g : Graph)
    (c : String) : Nat :=
  argBest better ((List.range (nBranches g c)).map (branchCost u (leafModules g) (parentOf c))) 0 0 none

/-- all call sites of a leaf module charge the same unit cost (what "all call sites of a block have
the same output shape" means for the metric) -/
def sameUnitCost {Q : Type} [BEq Q] (u : Nat → Q) (g : Graph) : Bool :=
  let lm := leafModules g
  lm.all fun p => lm.all fun q => p.name != q.name || u p.node == u q.node

/-! ### what "the same metric on the exported network" needs -/

/-- kept by name: a layer outside choice blocks, or a layer of the winning branch of a combiner -/
def keptByName (w : String → Nat) (ls : List Leaf) (l : Leaf) : Bool :=
  !l.isComb && (!l.inBranch || ls.any fun c => c.isComb && l.br == some (parentOf c.name, w c.name))

/-- the leaves `link_combiners_to_branches` hands to combiner `n` for its winning branch -/
def winnerLeaf (w : String → Nat) (n : String) (l : Leaf) : Bool :=
  !l.isComb && l.br == some (parentOf n, w n)

/-- number of call sites of the module called `t` -/
def callSites (ls : List Leaf) (t : String) : Nat := (ls.map (·.name)).count t

/-- names of the combiners, once per call site -/
def combSites (ls : List Leaf) : List String := (ls.filter (·.isComb)).map (·.name)

/-- executable `NamesSane` (see `Lemmas/SuperNet.lean`): export keeps, by name, the layers outside
blocks and the winners' layers; a name is a combiner or a layer, not both; a branch tag implies
`sn_branches` in the name; different blocks have different names -/
def namesSaneB (w : String → Nat) (g0 g : Graph) : Bool :=
  let ls := leafModules g0
  (ls.all fun l => (g.nd l.node).live == keptByName w ls l) &&
  (ls.all fun l => ls.all fun l' => l.name != l'.name || l.isComb == l'.isComb) &&
  (ls.all fun l => l.br == none || l.inBranch) &&
  (ls.all fun c => !c.isComb || ls.all fun c' =>
    !c'.isComb || parentOf c.name != parentOf c'.name || c.name == c'.name)

/-- executable `SitesSane`: every layer of a winning branch is called once per call site of its
block, and all call sites of a module charge the same unit cost (same output shape) -/
def sitesSaneB {Q : Type} [BEq Q] (w : String → Nat) (u : Nat → Q) (g0 : Graph) : Bool :=
  let ls := leafModules g0
  (ls.all fun c => !c.isComb || ls.all fun l =>
    !winnerLeaf w c.name l || callSites ls l.name == callSites ls c.name) &&
  sameUnitCost u g0

/-! ## executable versions of the hypotheses of the theorems (checked by the drivers on every
traced graph; `Lemmas/SuperNet.lean` proves them sound) -/

/-- arguments are earlier nodes, nothing is erased -/
def wfB (g : Graph) : Bool :=
  ((List.range g.length).all fun i => (g.nd i).args.all (· < i)) && g.all Node.live

/-- placeholders have no arguments, outputs no users -/
def ioSaneB (g : Graph) : Bool :=
  (g.all fun nd => match nd.op with | .input _ => nd.args.isEmpty | _ => true) &&
  ((List.range g.length).all fun i => (g.nd i).op != .output || !hasUsers g i)

/-- the winner index of every combiner is one of its branches -/
def winInRangeB (win : String → Nat) (g : Graph) : Bool :=
  g.all fun nd => match nd.op with | .combine c => decide (win c < nd.args.length) | _ => true

/-- no impure function among the leaves -/
def pureLeavesB (g : Graph) : Bool := g.all fun nd => nd.impure == nd.isIO

/-! ## printing (drivers) -/

/-- position of node `i` in the list of live nodes -/
def renumber (g : Graph) (i : Nat) : Nat := ((g.take i).filter Node.live).length

end PlinioVerif.SuperNet
