import PlinioVerif.Model.CostNum
import PlinioVerif.Model.CostHand
import PlinioVerif.Model.NE16
/-!
# `Spec.*` — the closed forms the C16 theorems are about (hand-written, core Lean only)

For every function the translator generates from `plinio/cost/*.py` (`Gen.<module>.<fn>.val`) there
is a definition here saying, in clean mathematical form, what that function is supposed to compute;
`Props/C16.lean` proves `Gen.… = Spec.…` with a rewrite-tolerant tactic, and all monotonicity /
sign theorems are proved about these definitions, for all (rational, hence all natural) sizes.

Also here: the predicates used in the statements (`Valid`, `SizeLe`, `BitsLe`, `NonEmpty`, `WF`,
`Supported`).
-/
namespace PlinioVerif.Spec

/-- a layer description with exact (rational) entries -/
abbrev S := LSpec Rat

/-- `kernel_size[i]` -/
def k (s : S) (i : Nat) : Rat := s.kernel_size.getD i 0
/-- `output_shape[i]` (`0` batch, `1` channels, `2…` spatial) -/
def o (s : S) (i : Nat) : Rat := s.output_shape.getD i 0
/-- 1 if the layer has a bias -/
def bias (s : S) : Rat := if s.hasBias then 1 else 0

/-! ### rounding helpers -/

/-- `FloorSTE.forward(ch, N)` / `_floor(ch, N)`: `⌊(ch + N - 1) / N⌋` — `⌈ch / N⌉` on integers -/
def ceilDiv (ch n : Rat) : Rat := ratFloor ((ch + n - 1) / n)
/-- `DivAndCeilSTE.forward(a, b)`: `⌊(a - 1) / b⌋ + 1` — `⌈a / b⌉` on integers -/
def divAndCeil (a b : Rat) : Rat := ratFloor ((a - 1) / b) + 1
/-- `FloorDivideSTE.forward(a, b)`: `⌊a / b⌋` -/
def floorDiv (a b : Rat) : Rat := ratFloor (a / b)
/-- `ModuloSTE.forward(a, b)`: `a - b ⌊a / b⌋` -/
def pmod (a b : Rat) : Rat := a - b * ratFloor (a / b)
/-- `GateSTE.forward(ch, th)`: `[th ≤ ch]` -/
def gate (ch th : Rat) : Rat := if th ≤ ch then 1 else 0

/-! ### size and operation counts -/

/-- a (grouped) convolution connects every output channel to `in_channels / groups` inputs -/
def paramsConv1d (s : S) : Rat := s.out_channels * (s.in_channels / s.groups * k s 0 + bias s)
def paramsConv2d (s : S) : Rat := s.out_channels * (s.in_channels / s.groups * (k s 0 * k s 1) + bias s)
def paramsConv1dDw (s : S) : Rat := s.in_channels * (k s 0 + bias s)
def paramsConv2dDw (s : S) : Rat := s.in_channels * (k s 0 * k s 1 + bias s)
def paramsLinear (s : S) : Rat := s.out_features * (s.in_features + bias s)

def paramsNbConv1d (s : S) : Rat := s.out_channels * (s.in_channels / s.groups) * k s 0
def paramsNbConv2d (s : S) : Rat := s.out_channels * (s.in_channels / s.groups) * (k s 0 * k s 1)
def paramsNbConv1dDw (s : S) : Rat := s.in_channels * k s 0
def paramsNbConv2dDw (s : S) : Rat := s.in_channels * (k s 0 * k s 1)
def paramsNbLinear (s : S) : Rat := s.out_features * s.in_features

def paramsBitConv1d (s : S) : Rat := s.out_channels * s.in_channels * k s 0 * s.w_precision
def paramsBitConv2d (s : S) : Rat := s.out_channels * s.in_channels * (k s 0 * k s 1) * s.w_precision
def paramsBitConv1dDw (s : S) : Rat := s.out_channels * k s 0 * s.w_precision
def paramsBitConv2dDw (s : S) : Rat := s.out_channels * (k s 0 * k s 1) * s.w_precision
def paramsBitLinear (s : S) : Rat := s.out_features * s.in_features * s.w_precision

def opsConv1d (s : S) : Rat := paramsConv1d s * o s 2
def opsConv2d (s : S) : Rat := paramsConv2d s * (o s 2 * o s 3)
def opsConv1dDw (s : S) : Rat := paramsConv1dDw s * o s 2
def opsConv2dDw (s : S) : Rat := paramsConv2dDw s * (o s 2 * o s 3)
def opsLinear (s : S) : Rat := paramsLinear s

def opsNbConv1d (s : S) : Rat := paramsNbConv1d s * o s 2
def opsNbConv2d (s : S) : Rat := paramsNbConv2d s * (o s 2 * o s 3)
def opsNbConv1dDw (s : S) : Rat := paramsNbConv1dDw s * o s 2
def opsNbConv2dDw (s : S) : Rat := paramsNbConv2dDw s * (o s 2 * o s 3)
def opsNbLinear (s : S) : Rat := paramsNbLinear s

def opsBitConv1d (s : S) : Rat := paramsBitConv1d s * s.in_precision * o s 2
def opsBitConv2d (s : S) : Rat := paramsBitConv2d s * s.in_precision * (o s 2 * o s 3)
def opsBitConv1dDw (s : S) : Rat := paramsBitConv1dDw s * s.in_precision * o s 2
def opsBitConv2dDw (s : S) : Rat := paramsBitConv2dDw s * s.in_precision * (o s 2 * o s 3)
def opsBitLinear (s : S) : Rat := paramsBitLinear s * s.in_precision

/-! ### GAP8 -/

/-- `iterations · (im2col + matmul)`; output width is split in 2, height in 8, output channels and
the im2col vector in blocks of 4 -/
def gap8Conv2d (s : S) : Rat :=
  ceilDiv (o s 2) 2 * ceilDiv (o s 3) 8 *
    (k s 0 * k s 1 * s.in_channels * 2 +
      ceilDiv s.out_channels 4 * (5 + ceilDiv (k s 0 * k s 1 * s.in_channels) 4 * 14 + 10))
def gap8Conv2dDw (s : S) : Rat := 4 * ceilDiv s.out_channels 4 * o s 2 * o s 3 * k s 0 * k s 1
def gap8Linear (s : S) : Rat := ceilDiv s.in_features 2 * ceilDiv s.out_features 4

/-! ### MPIC -/

/-- MACs per cycle of the MPIC core, from the paper's table: rows = activation bits, columns =
weight bits -/
def macsPerCycle : List (Rat × List (Rat × Rat)) :=
  [(2, [(2, 13/2), (4, 4), (8, 11/5)]),
   (4, [(2, 39/10), (4, 7/2), (8, 21/10)]),
   (8, [(2, 5/2), (4, 23/10), (8, 21/10)])]

/-- cycles per MAC: `0` for pruned (0-bit) weights, else the inverse of `macsPerCycle`; `none`
outside activation bits {2,4,8} × weight bits {0,2,4,8} -/
def mpicLut? (a w : Rat) : Option Rat :=
  if a = 2 ∨ a = 4 ∨ a = 8 then
    if w = 0 then some 0
    else (CostNum.lut2? macsPerCycle a w).map (fun m => 1 / m)
  else none
def mpicLut (a w : Rat) : Rat := (mpicLut? a w).getD 0
/-- supported precisions of the MPIC model -/
def mpicSupported (a w : Rat) : Prop := (a = 2 ∨ a = 4 ∨ a = 8) ∧ (w = 0 ∨ w = 2 ∨ w = 4 ∨ w = 8)

def mpicLatConv1d (s : S) : Rat := opsConv1d s * mpicLut s.in_precision s.w_precision
def mpicLatConv2d (s : S) : Rat := opsConv2d s * mpicLut s.in_precision s.w_precision
def mpicLatConv1dDw (s : S) : Rat := opsConv1dDw s * mpicLut s.in_precision s.w_precision
def mpicLatConv2dDw (s : S) : Rat := opsConv2dDw s * mpicLut s.in_precision s.w_precision
def mpicLatLinear (s : S) : Rat := opsLinear s * mpicLut s.in_precision s.w_precision

/-- energy of `cycles` at 250 MHz and the mean of the four measured powers (mW) -/
def mpicEnergy (cycles : Rat) : Rat := cycles / 250000000 * ((530 + 539 + 546 + 538) / 400 / 1000)

def mpicEnConv1d (s : S) : Rat := mpicEnergy (mpicLatConv1d s)
def mpicEnConv2d (s : S) : Rat := mpicEnergy (mpicLatConv2d s)
def mpicEnConv1dDw (s : S) : Rat := mpicEnergy (mpicLatConv1dDw s)
def mpicEnConv2dDw (s : S) : Rat := mpicEnergy (mpicLatConv2dDw s)
def mpicEnLinear (s : S) : Rat := mpicEnergy (mpicLatLinear s)

/-! ### DIANA -/

/-- digital accelerator (16×16 systolic array) -/
def dianaDigital (s : S) : Rat :=
  ceilDiv (s.out_channels / s.groups) 16 * s.in_channels * ceilDiv (o s 2) 16 * o s 3 * k s 0 * k s 1 +
    gate s.out_channels 1 * (o s 2 * o s 3 * (s.out_channels + s.in_channels) / 8)
/-- analog accelerator at 260 MHz: `70 ns` per array operation = 18.2 cycles -/
def dianaAnalog (s : S) : Rat :=
  gate s.out_channels 1 * (8 * s.in_channels * k s 0 * k s 1) +
    ceilDiv s.out_channels 512 * ceilDiv s.in_channels 128 * o s 2 * o s 3 /
      Hand.oxUnroll s.out_channels s.in_channels (k s 0) (k s 1) * (91 / 5)
/-- activation precision as DIANA reads it -/
def dianaAPrec (s : S) : Rat := if s.has_a_precision then s.a_precision else s.in_precision
/-- the precision selects the accelerator: ternary ("2-bit") weights → analog, 8-bit → digital -/
def dianaConv2d (s : S) : Rat :=
  if s.w_precision = 2 ∧ dianaAPrec s = 8 then dianaAnalog s
  else if s.w_precision = 8 ∧ dianaAPrec s = 8 then dianaDigital s
  else 0
/-- a linear layer as a 1×1 convolution on a 1×1 image -/
def dianaLinearSpec (s : S) : S :=
  { (LSpec.empty : S) with
    in_channels := s.in_features, out_channels := s.out_features,
    kernel_size := [1, 1], groups := 1, output_shape := s.output_shape ++ [1, 1],
    w_precision := s.w_precision, a_precision := dianaAPrec s, has_a_precision := true }
def dianaLinear (s : S) : Rat := dianaConv2d (dianaLinearSpec s)

/-! ### NE16 -/

/-- NE16 ragged tiles: `⌊c / K⌋` full tiles of `K` output channels plus one partial tile -/
def ragged (it : Rat → Rat) (K c : Rat) : Rat :=
  floorDiv c K * it K + (if pmod c K = 0 then 0 else it (pmod c K))

/-- latency of one 3×3 output-channel tile of `k` channels, `cin` input channels, weights on `w` bits -/
def ne16It3x3 (w cin k : Rat) : Rat :=
  divAndCeil cin 16 * (31 + 6 + (6 + k * w) + 2) + (9 + divAndCeil (k * 4) 4) + 13
/-- same for a 1×1 (pointwise) tile -/
def ne16It1x1 (cin k : Rat) : Rat :=
  divAndCeil cin 16 * (19 + 6 + (6 + k) + 2) + (9 + divAndCeil (k * 4) 4) + 13
/-- same for a depthwise 3×3 tile -/
def ne16ItDw (w k : Rat) : Rat :=
  31 + (6 + k) + (6 + k * w) + 2 + (9 + divAndCeil (k * 4) 4) + 13

/-- spatial tiles: 3×3 output pixels each -/
def ne16Spatial (h w : Rat) : Rat := divAndCeil h 3 * divAndCeil w 3

def ne16Lat3x3 (wb h w ko ki : Rat) : Rat := ne16Spatial h w * ragged (ne16It3x3 wb ki) 32 ko
def ne16Lat1x1 (h w ko ki : Rat) : Rat := ne16Spatial h w * ragged (ne16It1x1 ki) 32 ko
def ne16LatDw (wb h w ko : Rat) : Rat := ne16Spatial h w * ragged (ne16ItDw wb) 16 ko

/-- the three registered wrappers: 0 for pruned weights, else the latency of the
`w_theta_alpha`-weighted number of output channels, divided by `w_theta_alpha` again -/
def ne16Conv2d (s : S) : Rat :=
  if s.w_precision = 0 ∨ s.w_theta_alpha = 0 then 0
  else (NE16.totals "conv" s.kernel_size false s.w_precision
        [o s 2, o s 3, s.w_theta_alpha * s.out_channels, s.in_channels]).1 / s.w_theta_alpha
def ne16Conv2dDw (s : S) : Rat :=
  if s.w_precision = 0 ∨ s.w_theta_alpha = 0 then 0
  else (NE16.totals "conv" s.kernel_size true s.w_precision
        [o s 2, o s 3, s.w_theta_alpha * s.out_channels, s.in_channels]).1 / s.w_theta_alpha
def ne16Linear (s : S) : Rat :=
  if s.w_precision = 0 ∨ s.w_theta_alpha = 0 then 0
  else (NE16.totals "conv" [1, 1] false s.w_precision
        [1, 1, s.w_theta_alpha * s.out_features, s.in_features]).1 / s.w_theta_alpha

/-! ### predicates of the statements -/

/-- every number of the description is non-negative; a bit-width is 0 (pruned) or at least one bit -/
structure Valid (s : S) : Prop where
  in_channels : 0 ≤ s.in_channels
  out_channels : 0 ≤ s.out_channels
  in_features : 0 ≤ s.in_features
  out_features : 0 ≤ s.out_features
  groups : 0 ≤ s.groups
  w_precision : s.w_precision = 0 ∨ 1 ≤ s.w_precision
  in_precision : s.in_precision = 0 ∨ 1 ≤ s.in_precision
  a_precision : 0 ≤ s.a_precision
  w_theta_alpha : 0 ≤ s.w_theta_alpha
  kernel_size : ∀ i, 0 ≤ k s i
  output_shape : ∀ i, 0 ≤ o s i

/-- `s'` is `s` with possibly more input/output channels (features), larger kernel, larger output
resolution; precisions, `w_theta_alpha`, flags are the same -/
structure SizeLe (s s' : S) : Prop where
  in_channels : s.in_channels ≤ s'.in_channels
  out_channels : s.out_channels ≤ s'.out_channels
  in_features : s.in_features ≤ s'.in_features
  out_features : s.out_features ≤ s'.out_features
  kernel_len : s.kernel_size.length = s'.kernel_size.length
  kernel_size : ∀ i, k s i ≤ k s' i
  output_len : s.output_shape.length = s'.output_shape.length
  output_shape : ∀ i, o s i ≤ o s' i
  w_precision : s.w_precision = s'.w_precision
  in_precision : s.in_precision = s'.in_precision
  a_precision : s.a_precision = s'.a_precision
  w_theta_alpha : s.w_theta_alpha = s'.w_theta_alpha
  hasBias : s.hasBias = s'.hasBias
  has_a_precision : s.has_a_precision = s'.has_a_precision

/-- `s'` is `s` with possibly larger weight / activation bit-widths; everything else the same -/
structure BitsLe (s s' : S) : Prop where
  w_precision : s.w_precision ≤ s'.w_precision
  in_precision : s.in_precision ≤ s'.in_precision
  a_precision : s.a_precision ≤ s'.a_precision
  in_channels : s.in_channels = s'.in_channels
  out_channels : s.out_channels = s'.out_channels
  in_features : s.in_features = s'.in_features
  out_features : s.out_features = s'.out_features
  groups : s.groups = s'.groups
  kernel_size : s.kernel_size = s'.kernel_size
  output_shape : s.output_shape = s'.output_shape
  w_theta_alpha : s.w_theta_alpha = s'.w_theta_alpha
  hasBias : s.hasBias = s'.hasBias
  has_a_precision : s.has_a_precision = s'.has_a_precision

/-- a non-empty layer at non-zero bit-widths: at least one channel / feature / group, every kernel
and output dimension that exists is at least 1, positive precisions and coefficient -/
structure NonEmpty (s : S) : Prop where
  in_channels : 1 ≤ s.in_channels
  out_channels : 1 ≤ s.out_channels
  in_features : 1 ≤ s.in_features
  out_features : 1 ≤ s.out_features
  groups : 0 < s.groups
  w_precision : 0 < s.w_precision
  in_precision : 0 < s.in_precision
  a_precision : 0 < s.a_precision
  w_theta_alpha : 0 < s.w_theta_alpha
  kernel_size : ∀ i, i < s.kernel_size.length → 1 ≤ k s i
  output_shape : ∀ i, i < s.output_shape.length → 1 ≤ o s i

/-- a well-formed description of a layer of the given type: a `d`-dimensional convolution has `d`
kernel sizes, an output of rank `d + 2` and a non-zero number of groups (`torch.nn.ConvNd` requires
`groups ≥ 1`; the size / operation counts divide by it); a linear layer an output of rank 2
(batch, features).  Decidable. -/
def WF (layer : String) (s : S) : Prop :=
  if layer = "Conv1d" then s.kernel_size.length = 1 ∧ s.output_shape.length = 3 ∧ s.groups ≠ 0
  else if layer = "Conv2d" then s.kernel_size.length = 2 ∧ s.output_shape.length = 4 ∧ s.groups ≠ 0
  else s.output_shape.length = 2

/-- `k × k` kernel -/
def isK (s : S) (n : Rat) : Prop := k s 0 = n ∧ k s 1 = n

/-- what the bit-width-restricted models support (everything, for the others) -/
def Supported (spec constr layer : String) (s : S) : Prop :=
  if spec = "mpic_latency" ∨ spec = "mpic_energy" then mpicSupported s.in_precision s.w_precision
  else if spec = "ne16_latency" then
    s.w_precision = 0 ∨ s.w_theta_alpha = 0 ∨
      (s.in_precision = 8 ∧
        (layer = "Linear" ∨ isK s 3 ∨ (constr = "" ∧ isK s 1)))
  else if spec = "diana_latency" then
    dianaAPrec s = 8 ∧ ((s.w_precision = 2 ∧ (layer = "Linear" ∨ s.groups = 1)) ∨
                         (s.w_precision = 8 ∧ (layer = "Linear" ∨ s.groups ≠ 0)))
  else True

/-- the models in which the bit-width scales the work -/
def bitAware (spec : String) : Prop :=
  spec = "params_bit" ∨ spec = "ops_bit" ∨ spec = "mpic_latency" ∨ spec = "mpic_energy" ∨
    spec = "ne16_latency"

/-- `conv_dw_constraint`, with at least one group -/
def IsDw (s : S) : Prop := s.in_channels = s.groups ∧ s.out_channels = s.groups ∧ s.groups ≠ 0
/-- the convolution one group of `s` performs -/
def perGroup (s : S) : S :=
  { s with in_channels := s.in_channels / s.groups, out_channels := s.out_channels / s.groups, groups := 1 }


/-- a 3×3 convolution 3 → 10 channels on a 9×9 output, 8-bit, with bias -/
def sample : S :=
  { in_channels := 3, out_channels := 10, in_features := 3, out_features := 10, groups := 1,
    w_precision := 8, in_precision := 8, a_precision := 8, w_theta_alpha := 1,
    kernel_size := [3, 3], output_shape := [1, 10, 9, 9], hasBias := true, has_a_precision := false }


end PlinioVerif.Spec
