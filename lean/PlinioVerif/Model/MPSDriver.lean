import PlinioVerif.Model.Proto
import PlinioVerif.Model.MPS
/-!
# Request handling shared by the C02 and C05 line drivers (core Lean only)

```
mps pc=<0|1> ap=[8,2,4] ip=[2,8] wp=[4,2] nodes=[in:3,conv:0:2:3:4:3:3:8:8:1,pass:1,...]
    ao=[0:[1/2,3/4],1:[..]] aw=[1:[..]]            (per-channel: aw=[1:[[row0],[row1]]])
```
node tokens: `in:C`, `conv|dw:a:lt:cin:cout:k0:k1:o0:o1:bias[:dup[:ta[:tf]]]` (lt 1|2; dup=1: further
call site of an earlier layer module, ta: tensor node fed to its first call site, tf: node of that first call site), `lin:a:cin:cout:bias`,
`pass:a`, `flat:a:mult`, `add:a:b`, `out:a`.  `ao`/`aw` give, per node index of a searchable module,
the coefficients of the object found at its out / weight slot; the model reads the coefficients of a
quantizer *object* at the first slot that carries it (its own sharing), so a sharing mismatch shows
up as a different selection.

The answer is one line of `key=value` fields (see `answer`).
-/
namespace PlinioVerif.MPS
open PlinioVerif.Proto

def parseNode? (t : String) : Option Node :=
  match t.splitOn ":" with
  | ["in", c] => do pure { kind := .input, cin := ← c.toNat?, cout := ← c.toNat? }
  | [k, a, lt, cin, cout, k0, k1, o0, o1, b] => do
    let kind ← if k = "conv" then some Kind.conv else if k = "dw" then some Kind.dw else none
    let lt ← if lt = "1" then some LType.conv1d else if lt = "2" then some LType.conv2d else none
    pure { kind, a := ← a.toNat?, lt, cin := ← cin.toNat?, cout := ← cout.toNat?, k0 := ← k0.toNat?,
           k1 := ← k1.toNat?, o0 := ← o0.toNat?, o1 := ← o1.toNat?, bias := b = "1" }
  | [k, a, lt, cin, cout, k0, k1, o0, o1, b, dup] => do
    -- a further invocation of a layer module invoked earlier (same geometry, own output shape)
    let kind ← if k = "conv" then some Kind.conv else if k = "dw" then some Kind.dw else none
    let lt ← if lt = "1" then some LType.conv1d else if lt = "2" then some LType.conv2d else none
    pure { kind, a := ← a.toNat?, lt, cin := ← cin.toNat?, cout := ← cout.toNat?, k0 := ← k0.toNat?,
           k1 := ← k1.toNat?, o0 := ← o0.toNat?, o1 := ← o1.toNat?, bias := b = "1", dup := dup = "1" }
  | [k, a, lt, cin, cout, k0, k1, o0, o1, b, dup, ta, tf] => do
    -- … and the node of the first call site (the call sites of a module share one component)
    let kind ← if k = "conv" then some Kind.conv else none
    let lt ← if lt = "1" then some LType.conv1d else if lt = "2" then some LType.conv2d else none
    pure { kind, a := ← a.toNat?, lt, cin := ← cin.toNat?, cout := ← cout.toNat?, k0 := ← k0.toNat?,
           k1 := ← k1.toNat?, o0 := ← o0.toNat?, o1 := ← o1.toNat?, bias := b = "1", dup := dup = "1",
           ta := ← ta.toNat?, tf := ← tf.toNat? }
  | [k, a, lt, cin, cout, k0, k1, o0, o1, b, dup, ta] => do
    -- … with the tensor node fed to the first call site (tie edge of the sharing graph)
    let kind ← if k = "conv" then some Kind.conv else if k = "dw" then some Kind.dw else none
    let lt ← if lt = "1" then some LType.conv1d else if lt = "2" then some LType.conv2d else none
    pure { kind, a := ← a.toNat?, lt, cin := ← cin.toNat?, cout := ← cout.toNat?, k0 := ← k0.toNat?,
           k1 := ← k1.toNat?, o0 := ← o0.toNat?, o1 := ← o1.toNat?, bias := b = "1", dup := dup = "1",
           ta := ← ta.toNat? }
  | ["lin", a, cin, cout, b] => do
    pure { kind := .linear, a := ← a.toNat?, lt := .linear, cin := ← cin.toNat?, cout := ← cout.toNat?,
           bias := b = "1" }
  | ["pass", a] => do pure { kind := .pass, a := ← a.toNat? }
  | ["flat", a, m] => do pure { kind := .flatten, a := ← a.toNat?, mult := ← m.toNat? }
  | ["add", a, b] => do pure { kind := .add, a := ← a.toNat?, b := ← b.toNat? }
  | ["out", a] => do pure { kind := .output, a := ← a.toNat? }
  | _ => none

/-- `i:VALUE` -/
def parseKeyed? {α} (pv : String → Option α) (t : String) : Option (Nat × α) :=
  match t.splitOn ":" with
  | i :: rest => do pure (← i.toNat?, ← pv (":".intercalate rest))
  | _ => none

structure Req where
  p : Prog
  c : Cfg
  ao : List (Nat × List Rat)
  aw : List (Nat × List Rat)
  awM : List (Nat × List (List Rat))

def parseReq? (toks : List String) : Option Req := do
  let pc ← (field? toks "pc").bind parseBool?
  let ap ← (field? toks "ap").bind (parseList? parseInt?)
  let ip ← (field? toks "ip").bind (parseList? parseInt?)
  let wp ← (field? toks "wp").bind (parseList? parseInt?)
  let p ← (field? toks "nodes").bind (parseList? parseNode?)
  let ao ← (field? toks "ao").bind (parseList? (parseKeyed? (parseList? parseRat?)))
  if pc then
    let awM ← (field? toks "aw").bind (parseList? (parseKeyed? (parseList2? parseRat?)))
    pure { p, c := { ap, ip, wp, perChannel := true }, ao, aw := [], awM }
  else
    let aw ← (field? toks "aw").bind (parseList? (parseKeyed? (parseList? parseRat?)))
    pure { p, c := { ap, ip, wp, perChannel := false }, ao, aw, awM := [] }

/-- first slot (graph order) whose out-quantizer is `q` -/
def firstOut (p : Prog) (q : QId) : Option Slot := (slots p).find? fun s => outQ p s = q

/-- first layer whose weight quantizer is `q` -/
def firstW (p : Prog) (q : QId) : Option Nat :=
  ((slots p).filterMap fun s => match s with | .layer i => some i | _ => none).find? fun i => wQ p i = q

/-- coefficients of a quantizer object (per-layer objects) -/
def alphaOf (r : Req) (q : QId) : List Rat :=
  match q with
  | .dflt => [1]
  | .wgt _ => ((firstW r.p q).bind fun i => r.aw.lookup i).getD []
  | _ => ((firstOut r.p q).bind fun s => r.ao.lookup s.idx).getD []

def alphaMOf (r : Req) (q : QId) : List (List Rat) :=
  ((firstW r.p q).bind fun i => r.awM.lookup i).getD []

def nameOut (p : Prog) (q : QId) : String :=
  match q with
  | .dflt => "d"
  | _ => match firstOut p q with
    | some s => s!"o{s.idx}"
    | none => "?"

def nameW (p : Prog) (q : QId) : String :=
  match firstW p q with
  | some i => s!"w{i}"
  | none => "?"

def slotTag : Slot → String
  | .inq _ => "I" | .layer _ => "L" | .addq _ => "A"

def showInt (i : Int) : String := toString i

/-- `wire`: per searchable module, the identity of its in / out / weight quantizer objects -/
def showWire (p : Prog) (inq : Slot → QId) : String :=
  showList (fun s =>
    let w := match s with | .layer i => nameW p (wQ p i) | _ => "-"
    s!"{s.idx}:{slotTag s}:{nameOut p (inq s)}:{nameOut p (outQ p s)}:{w}") (slots p)

/-- per-channel selection of a weight quantizer: bits per channel -/
def selChannels (r : Req) (q : QId) : List Int :=
  let m := alphaMOf r q
  let pw := precOf r.p r.c q
  (List.range (nCols m)).map fun c => pw.getD (argmax (column m c)) 0

/-- `plan`: per searchable module `(in_bits, w_bits, out_bits)` and the candidate indices -/
def showPlan (r : Req) : String :=
  let α := alphaOf r
  showList (fun s =>
    let pl := planOf r.p r.c α s
    match s with
    | .layer i =>
      if r.c.perChannel then
        s!"{s.idx}:{pl.inS.bits}:{showList showInt (selChannels r (wQ r.p i))}:{pl.outS.bits}:{pl.inS.idx}:-:{pl.outS.idx}"
      else
        let ws := pl.wS.getD default
        s!"{s.idx}:{pl.inS.bits}:{ws.bits}:{pl.outS.bits}:{pl.inS.idx}:{ws.idx}:{pl.outS.idx}"
    | _ => s!"{s.idx}:-:-:{pl.outS.bits}:-:-:{pl.outS.idx}") (slots r.p)

def ratOfInt (i : Int) : Rat := (i : Rat)

def sampledOf (r : Req) : Sampled :=
  if r.c.perChannel then hardSampledPC (alphaOf r) (alphaMOf r) else hardSampled (alphaOf r)

structure LayerCostView where
  i : Nat
  effIn : Rat
  outEff : Rat
  entries : List (List Rat)     -- [weight, in, out, in_prec, w_prec, w_theta_alpha], rows first
  pb : Rat
  ob : Rat
  mpic : Option Rat

def inMpicDomain (pin pw : List Int) : Bool :=
  pin.all (fun a => a = 2 || a = 4 || a = 8) && pw.all (fun w => w = 0 || w = 2 || w = 4 || w = 8)

def layerView (r : Req) (i : Nat) : LayerCostView :=
  let nd := r.p.nd i
  let sm := sampledOf r
  let qi := inQ r.p (.layer i)
  let θin : List Rat := sm.θ qi
  let pin := precOf r.p r.c qi
  let θw := wShares sm (wQ r.p i)
  let pw := precOf r.p r.c (wQ r.p i)
  let base := baseSpec modKeys r.p r.c sm i
  let (ki, ko) := torchKeys nd.lt
  let entries := ((List.zip θin pin).map fun (ti, pi) =>
    (List.zip θw pw).map fun (tw, pj) =>
      let s := shownSpec base pi pj tw
      [ti * tw, s.val ki, s.val ko, s.val "in_precision", s.val "w_precision", s.val "w_theta_alpha"]).flatten
  { i, effIn := effIn r.p (outEffOf r.p r.c sm) i, outEff := outEffOf r.p r.c sm i, entries
    pb := layerCostOf paramsBit r.p r.c sm i
    ob := layerCostOf opsBit r.p r.c sm i
    mpic := if inMpicDomain pin pw then some (layerCostOf mpicLatency r.p r.c sm i) else none }

def showOptRat : Option Rat → String
  | some q => showRat q
  | none => "na"

def answer (r : Req) : String :=
  if !(wfB r.p && tieOK r.p) then "err:shape" else
  let sm := sampledOf r
  let views := (layerIdxs r.p).map (layerView r)
  let feat := showList (fun v => s!"{v.i}:{showRat v.effIn}:{showRat v.outEff}") views
  let shown := showList (fun v => s!"{v.i}:{showList (showList showRat) v.entries}") views
  let lc := showList (fun v => s!"{v.i}:{showRat v.pb}:{showRat v.ob}") views
  let mp := showList (fun v => s!"{v.i}:{showOptRat v.mpic}") views
  let mpTot : Option Rat :=
    if views.all (fun v => v.mpic.isSome) then some (netCost mpicLatency r.p r.c sm) else none
  let diff := (slots r.p).any fun s => inQ r.p s ≠ inQPinned r.p s
  s!"wire={showWire r.p (inQ r.p)} pinned={showWire r.p (inQPinned r.p)} pindiff={showBool diff} " ++
  s!"plan={showPlan r} feat={feat} shown={shown} lc={lc} mp={mp} " ++
  s!"cost=[params_bit:{showRat (netCostShared paramsBit r.p r.c sm)},ops_bit:{showRat (netCost opsBit r.p r.c sm)}] " ++
  s!"mpic={showOptRat mpTot}"

/-- `costfn name=params_bit|ops_bit|mpic_latency|macs lt=1|2|3 dw=0|1 in= out= k0= k1= o0= o1= bias= pin= pw=` -/
def costfnAnswer (toks : List String) : String :=
  let num (k : String) : Option Rat := (field? toks k).bind parseRat?
  match field? toks "name", field? toks "lt", field? toks "dw", num "in", num "out", num "k0", num "k1",
        num "o0", num "o1", num "bias", num "pin", num "pw" with
  | some name, some lt, some dw, some i, some o, some k0, some k1, some o0, some o1, some b, some pin, some pw =>
    let lt := if lt = "1" then LType.conv1d else if lt = "2" then LType.conv2d else LType.linear
    let nd : Node := { kind := if dw = "1" then .dw else (if lt = .linear then .linear else .conv), lt }
    let (ki, ko) := torchKeys lt
    let s : Spec := [(ki, i), (ko, o), ("k0", k0), ("k1", k1), ("o0", o0), ("o1", o1), ("bias", b),
                     ("in_precision", pin), ("w_precision", pw)]
    if name = "params_bit" then showRat (paramsBit nd s)
    else if name = "ops_bit" then showRat (opsBit nd s)
    else if name = "macs" then showRat (macs nd s)
    else if name = "mpic_latency" then showRat (mpicLatency nd s)
    else "err:key"
  | _, _, _, _, _, _, _, _, _, _, _, _ => "bad-request"

def showKeys (f : LType → String × String) : String :=
  showList (fun (n, lt) => s!"{n}:{(f lt).1}:{(f lt).2}")
    [("conv1d", LType.conv1d), ("conv2d", LType.conv2d), ("linear", LType.linear)]

def handle (line : String) : String :=
  let toks := tokens line
  match toks.head? with
  | some "mps" =>
    match parseReq? toks with
    | some r => answer r
    | none => "bad-request"
  | some "costfn" => costfnAnswer toks
  | some "keys" => s!"mod={showKeys modKeys} torch={showKeys torchKeys} pinned={showKeys modKeysPinned}"
  | _ => "bad-request"

end PlinioVerif.MPS
