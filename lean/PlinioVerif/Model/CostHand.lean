import PlinioVerif.Model.CostNum
/-!
# Hand-written models of the cost-model pieces outside the translator's subset (C16)

`ComputeOxUnrollSTE.forward` of `plinio/cost/diana_latency.py` works on a vector of candidate
unrolling factors with tensor masks; it is modelled here by hand and tied to the code by the
correspondence leg of `harness/props/c16.py` (its `backward` is translated).
-/
namespace PlinioVerif.Hand

/-- candidates of `ox_unroll_list` -/
def oxCandidates : List Rat := [1, 2, 4, 8]

/-- `mask_out ∧ mask_in` for one candidate -/
def oxFits (chEff chIn kx ky ox : Rat) : Bool :=
  let chInUnroll := if chIn ≤ 64 then 64 else chIn           -- `max(64, ch_in)`
  decide (ox * chEff ≤ 512) && decide ((ox + kx - 1) * chInUnroll * ky ≤ 1152)

/-- `ComputeOxUnrollSTE.forward(ch_eff, ch_in, k_x, k_y)`: the last candidate (in list order) whose
mask is set; the mask of the first candidate is forced (`mask[0] = True`) -/
def oxUnroll (chEff chIn kx ky : Rat) : Rat :=
  (oxCandidates.drop 1).foldl (fun best ox => if oxFits chEff chIn kx ky ox then ox else best) 1

/-- list-of-values form used by `CostNum.ste` -/
def oxUnrollL (l : List Rat) : Rat := oxUnroll (l.getD 0 0) (l.getD 1 0) (l.getD 2 0) (l.getD 3 0)

end PlinioVerif.Hand
