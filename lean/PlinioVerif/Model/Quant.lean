/-!
# Quantizers of `plinio/methods/mps/quant/quantizers` over ℚ  (core Lean only, executable)

A float32 is a rational: the models below compute, in exact rational arithmetic, what
`_min_max_quantize` / `MinMaxWeight.scale` (minmax_weight.py), `PACTActSTE.forward` / `PACTAct.scale`
(pact_act.py), `QuantizeBiasSTE` + `RoundSTE` / `QuantizerBias.forward` (qtz_bias.py) and
`DummyQuantizer` (dummy.py) compute in float32.  They mirror what the code does (clip only from
above, `ch_range == 0 -> 1`, 0 bit -> zeros, the `+1e-3` stabiliser of PACT, `isclose(s_b, 0)`), not
what it should do.  Float rounding is *not* modelled (trusted-base item); the harness compares
discrete outputs on exact rationals and skips inputs within float error of a rounding boundary.
-/
namespace PlinioVerif.Quant

/-- `|x|` (written with `if` so that it does not depend on any order-class instance) -/
def qabs (x : Rat) : Rat := if x < 0 then -x else x
def qmax (a b : Rat) : Rat := if a ≤ b then b else a
def qmin (a b : Rat) : Rat := if a ≤ b then a else b

/-- `2 ** n` as a rational -/
def pow2 (n : Nat) : Rat := ((2 ^ n : Nat) : Rat)

/-- `2 ** p - 1`, the number of steps `n_steps` of a `p`-bit quantizer -/
def nSteps (p : Nat) : Rat := pow2 p - 1

/-- `torch.round`: round half to even -/
def rne (x : Rat) : Int :=
  let f := x.floor
  let r := x - (f : Rat)
  if r < 1/2 then f else if 1/2 < r then f + 1 else if f % 2 = 0 then f else f + 1

/-! ## MinMaxWeight (symmetric), one output channel at a time

`w` is the list of the weights of one output channel (`input.view(cout, -1)[c]`). -/

/-- `input.view(cout,-1).abs().max(1)` for one channel -/
def chMax (w : List Rat) : Rat := w.foldl (fun m x => qmax m (qabs x)) 0

/-- `ch_range = ch_max - ch_min` with `ch_min = -1 * ch_max`, then
`ch_range.masked_fill_(ch_range.eq(0), 1)` -/
def mmRange (w : List Rat) : Rat :=
  let r := chMax w - (-1 * chMax w)
  if r = 0 then 1 else r

/-- `scale_factor = ch_range / n_steps` inside `_min_max_quantize` (only evaluated for `p ≠ 0`) -/
def mmStep (p : Nat) (w : List Rat) : Rat := mmRange w / nSteps p

/-- `MinMaxWeight.scale`: zeros at 0 bit -/
def mmScale (p : Nat) (w : List Rat) : Rat := if p = 0 then 0 else mmStep p w

/-- integer output of `_min_max_quantize` (`dequantize=False`) for the element `x` of channel `w`:
`y = round(x / scale); y = clip(y, max = 2**(p-1) - 1)`; zeros at 0 bit -/
def mmLevel (p : Nat) (w : List Rat) (x : Rat) : Int :=
  if p = 0 then 0 else
    let y := rne (x / mmStep p w)
    let top : Int := 2 ^ (p - 1) - 1
    if top < y then top else y

/-- fake-quantized output (`dequantize=True`): `y * scale_factor`; zeros at 0 bit -/
def mmFq (p : Nat) (w : List Rat) (x : Rat) : Rat :=
  if p = 0 then 0 else (mmLevel p w x : Rat) * mmStep p w

/-- the whole channel -/
def mmLevels (p : Nat) (w : List Rat) : List Int := w.map (mmLevel p w)

/-! ## PACTAct

`eps` is the stabiliser added to the clipping value in the denominator of the scale factor; the
code uses `1e-3` (`stab`).  The theorems hold for every `eps ≥ 0`; the driver is given the
`eps` a float32 run effectively used when a case must be bit-exact. -/

/-- `scale_factor = (2**precision - 1) / (clip_val + eps)` -/
def pactSf (eps : Rat) (p : Nat) (clip : Rat) : Rat := nSteps p / (clip + eps)

/-- `torch.clamp(input, 0, clip_val)` = `min(max(input, 0), clip_val)` -/
def pactClamp (clip x : Rat) : Rat := qmin (qmax x 0) clip

/-- integer output (`dequantize=False`): `floor(scale_factor * clamp(x))` -/
def pactLevelE (eps : Rat) (p : Nat) (clip x : Rat) : Int :=
  (pactSf eps p clip * pactClamp clip x).floor

/-- fake-quantized output (`dequantize=True`): `floor(...) / scale_factor` -/
def pactFqE (eps : Rat) (p : Nat) (clip x : Rat) : Rat :=
  (pactLevelE eps p clip x : Rat) / pactSf eps p clip

/-- the step actually used by the fake-quantized output, `1 / scale_factor` -/
def pactStepE (eps : Rat) (p : Nat) (clip : Rat) : Rat := (clip + eps) / nSteps p

/-- `PACTAct.scale`, the *reported* scale: `clip_val / (2**precision - 1)` (no stabiliser) -/
def pactScale (p : Nat) (clip : Rat) : Rat := clip / nSteps p

/-- the level every input `≥ clip_val` is mapped to -/
def pactTopE (eps : Rat) (p : Nat) (clip : Rat) : Int := (pactSf eps p clip * clip).floor

/-- the stabiliser of the code, `1e-3` -/
def stab : Rat := 1 / 1000

def pactLevel (p : Nat) (clip x : Rat) : Int := pactLevelE stab p clip x
def pactFq (p : Nat) (clip x : Rat) : Rat := pactFqE stab p clip x
def pactTop (p : Nat) (clip : Rat) : Int := pactTopE stab p clip
def pactStep (p : Nat) (clip : Rat) : Rat := pactStepE stab p clip

/-! ## QuantizerBias -/

/-- `atol` of `torch.isclose` (default `1e-8`; `rtol * |0| = 0`) -/
def biasAtol : Rat := 1 / 100000000

/-- `~s_b.isclose(0)`: the scale is treated as non-zero -/
def biasLive (s : Rat) : Bool := !(decide (qabs s ≤ biasAtol))

/-- integer output (`dequantize=False`): `round(b / (s_a*s_w))` where the scale is not ≈ 0,
`0` elsewhere -/
def biasLevel (b sa sw : Rat) : Int :=
  let s := sa * sw
  if biasLive s then rne (b / s) else 0

/-- fake-quantized output (`dequantize=True`): `scale * output` -/
def biasFq (b sa sw : Rat) : Rat := (sa * sw) * (biasLevel b sa sw : Rat)

/-! ## DummyQuantizer -/

def dummyFq (x : Rat) : Rat := x
def dummyScale : Rat := 1

end PlinioVerif.Quant
