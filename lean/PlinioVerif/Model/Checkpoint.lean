/-!
# C17 — checkpoint / resume over a classified module state (core Lean only)

The state of a NAS wrapper is an assignment of values to *fields*.  Every field belongs to one class
(`FClass`), and the classification of the real PLiNIO classes is **extracted from source** on every run
(`harness/fieldtable.py` → `PlinioVerif/Gen/Fields.lean`):

* `param`       `nn.Parameter`                                   — in the `state_dict`
* `pbuf`        persistent buffer                                — in the `state_dict`
* `recomputed`  plain attribute overwritten by every `forward` with a value that does not depend on
                its previous value (weight ranges, bias scales, SuperNet sampled coefficients)
* `config`      plain attribute written only by option calls / setters (temperature, hard/gumbel
                flags, `discrete_cost`, …)
* `ctor`        plain attribute / sub-module reference fixed by the constructor arguments
* `volatile`    anything else outside the `state_dict` (accumulated or conditionally cached values,
                non-persistent buffers that are not recomputed)

`save` keeps the `param`/`pbuf` fields, `load` overwrites them (strict: key sets must agree), `forward`
recomputes the `recomputed` fields and updates buffers from what the observers may read, `obs` is any
function of the fields the observers read after that forward.  The carrier (what the numbers are,
what a forward computes) is abstract: `Sem`.
-/
namespace PlinioVerif.Checkpoint

inductive FClass where
  | param | pbuf | recomputed | config | ctor | volatile
  deriving DecidableEq, Repr, Inhabited

/-- one row of the generated table -/
structure FieldEntry where
  cls : String
  name : String
  kind : FClass
  /-- read on an observer path (forward / cost / summary / export) -/
  read : Bool
  /-- parameter or buffer registered outside construction -/
  late : Bool
  deriving Repr, Inhabited, DecidableEq

def FClass.persisted : FClass → Bool
  | .param => true | .pbuf => true | _ => false

/-- not touched by training: only configuration calls / the constructor write these -/
def FClass.frozen : FClass → Bool
  | .config => true | .ctor => true | _ => false

/-- an option call may write configuration attributes, and buffers/parameters (MPS keeps its softmax
temperature in a buffer) -/
def FClass.settable : FClass → Bool
  | .config => true | .pbuf => true | .param => true | _ => false

/-- signature: classification of a set of fields `F` -/
structure Sig (F : Type) where
  kind : F → FClass
  read : F → Bool
  late : F → Bool

/-- state of a wrapper: field values, which keys are currently registered, training mode -/
structure MState (F V : Type) where
  val : F → V
  present : F → Bool
  training : Bool

/-- history alphabet -/
inductive Op (F V : Type) where
  /-- forward + backward + optimizer step (or any other computation): arbitrary new values for every
  field that training may touch -/
  | train (u : (F → V) → F → V)
  /-- configuration call writing field `f` -/
  | setOpt (f : F) (v : V)
  /-- `.train()` / `.eval()` -/
  | mode (b : Bool)
  /-- an observer call (`summary()`, `str(model)`, `export()`, `cost`, `get_cost`): by C18 it writes no
  value, but it may run code that registers a buffer lazily — a `late` key appears -/
  | observe

def Op.isConfig {F V : Type} : Op F V → Bool
  | .train _ => false | .setOpt _ _ => true | .mode _ => true | .observe => false

def Op.isObserve {F V : Type} : Op F V → Bool
  | .observe => true | _ => false

variable {F V X O : Type} [DecidableEq F]

def step (σ : Sig F) (s : MState F V) : Op F V → MState F V
  | .train u => { s with val := fun f => if (σ.kind f).frozen then s.val f else u s.val f,
                         present := fun f => s.present f || σ.late f }
  | .setOpt g v => if (σ.kind g).settable then { s with val := fun f => if f = g then v else s.val f } else s
  | .mode b => { s with training := b }
  | .observe => { s with present := fun f => s.present f || σ.late f }

def run (σ : Sig F) (s : MState F V) (ops : List (Op F V)) : MState F V := ops.foldl (step σ) s

/-- the configuration calls of a history (what protocol R re-applies on the fresh wrapper) -/
def cfgOf (ops : List (Op F V)) : List (Op F V) := ops.filter Op.isConfig

/-- what a careful user re-applies on the fresh wrapper: mode switches and the option calls whose target is
*not* in the state_dict; an option that is persisted (MPS keeps its temperature in a buffer) is left to the
checkpoint -/
def Op.isReapplied (σ : Sig F) : Op F V → Bool
  | .mode _ => true
  | .setOpt g _ => !(σ.kind g).persisted
  | _ => false

def cfgMin (σ : Sig F) (ops : List (Op F V)) : List (Op F V) := ops.filter (Op.isReapplied σ)

/-- `state_dict()`: the persisted fields that are registered -/
def save (σ : Sig F) (s : MState F V) : F → Option V :=
  fun f => if (σ.kind f).persisted && s.present f then some (s.val f) else none

/-- is `f` a key of the state_dict of `s` -/
def isKey (σ : Sig F) (s : MState F V) (f : F) : Bool := (σ.kind f).persisted && s.present f

def missingKeys (σ : Sig F) (all : List F) (sd : F → Option V) (t : MState F V) : List F :=
  all.filter fun f => isKey σ t f && (sd f).isNone
def unexpectedKeys (σ : Sig F) (all : List F) (sd : F → Option V) (t : MState F V) : List F :=
  all.filter fun f => !isKey σ t f && (sd f).isSome

/-- `load_state_dict`: overwrite the keys of `t` found in the checkpoint -/
def load (σ : Sig F) (sd : F → Option V) (t : MState F V) : MState F V :=
  { t with val := fun f => if isKey σ t f then (sd f).getD (t.val f) else t.val f }

/-- what a forward may look at: the read fields, except the ones it is about to recompute -/
def preView (σ : Sig F) (s : MState F V) : F → Option V :=
  fun f => if σ.read f && σ.kind f != .recomputed then some (s.val f) else none

/-- what the observers may look at -/
def view (σ : Sig F) (s : MState F V) : F → Option V :=
  fun f => if σ.read f then some (s.val f) else none

/-- the carrier, abstract -/
structure Sem (F V X O : Type) where
  /-- value a forward writes into a recomputed field -/
  recompute : (F → Option V) → Bool → X → F → V
  /-- value a forward leaves in a persistent buffer (BatchNorm statistics, sampled coefficients),
  given its old value -/
  bufUpdate : (F → Option V) → Bool → X → F → V → V
  /-- outputs, cost values, summary, exported network -/
  out : (F → Option V) → Bool → X → O

def forward (σ : Sig F) (sem : Sem F V X O) (x : X) (s : MState F V) : MState F V :=
  { s with
    val := fun f => match σ.kind f with
      | .recomputed => sem.recompute (preView σ s) s.training x f
      | .pbuf => sem.bufUpdate (preView σ s) s.training x f (s.val f)
      | _ => s.val f
    present := fun f => s.present f || σ.late f }

/-- the observation "after the usual forward pass" -/
def obs (σ : Sig F) (sem : Sem F V X O) (x : X) (s : MState F V) : O :=
  let s' := forward σ sem x s
  sem.out (view σ s') s'.training x

/-- protocol R: same constructor arguments (`fresh`), configuration calls re-applied, strict load -/
def resumeR (σ : Sig F) (fresh : MState F V) (ops : List (Op F V)) (s : MState F V) : MState F V :=
  load σ (save σ s) (run σ fresh (cfgOf ops))

/-- protocol R, minimal form: only the configuration that lives outside the state_dict is re-applied -/
def resumeRmin (σ : Sig F) (fresh : MState F V) (ops : List (Op F V)) (s : MState F V) : MState F V :=
  load σ (save σ s) (run σ fresh (cfgMin σ ops))

/-- the literal reading: nothing re-applied except the mode the caller observes in -/
def resumeL (σ : Sig F) (fresh : MState F V) (s : MState F V) : MState F V :=
  load σ (save σ s) { fresh with training := s.training }

/-! ### hypotheses of the theorems as definitions -/

/-- every field an observer reads is persisted, recomputed on forward, configuration or constructor
constant -/
def Classified (σ : Sig F) : Prop := ∀ f, σ.read f = true → σ.kind f ≠ .volatile

/-- no state_dict key is registered after construction -/
def NoLate (σ : Sig F) : Prop := ∀ f, (σ.kind f).persisted = true → σ.late f = false

/-- two wrappers built with the same constructor arguments: same constructor constants, same default
configuration, same mode, same registered state_dict keys -/
structure SameCtor (σ : Sig F) (a b : MState F V) : Prop where
  frozen : ∀ f, (σ.kind f).frozen = true → a.val f = b.val f
  training : a.training = b.training
  present : ∀ f, (σ.kind f).persisted = true → a.present f = b.present f

/-! ### the generated table as a signature over field indices -/

def sigOf (t : List FieldEntry) : Sig Nat where
  kind := fun i => ((t[i]?).map (·.kind)).getD .ctor
  read := fun i => ((t[i]?).map (·.read)).getD false
  late := fun i => ((t[i]?).map (·.late)).getD false

def tableClassified (t : List FieldEntry) : Bool := t.all fun e => !e.read || e.kind != .volatile
def tableNoLate (t : List FieldEntry) : Bool := t.all fun e => !e.kind.persisted || !e.late

/-! ### a concrete carrier for the line driver: values are naturals, a forward mixes what it sees -/

def mix (n : Nat) (pv : Nat → Option Nat) : Nat :=
  (List.range n).foldl (fun acc i => match pv i with | some v => acc * 31 + (i + 1) * (v + 1) | none => acc * 31) 7

def natSem (n : Nat) : Sem Nat Nat Nat (List (Option Nat)) where
  recompute := fun pv tr x f => mix n pv + 1000 * x + f + (if tr then 500 else 0)
  bufUpdate := fun pv tr x f old => if tr then old + mix n pv % 97 + x + f else old
  out := fun v tr x => (List.range n).map v ++ [some (if tr then 1 else 0), some x]

end PlinioVerif.Checkpoint
