import PlinioVerif.Model.Sampling
/-!
# Model of the trainability controls of PIT, MPS and SuperNet (C11)

Mirrors, as the code is:

* `plinio/methods/dnas_base/dnas.py` — `train_nas_only / train_net_only / train_net_and_nas` set
  `requires_grad` directly on `nas_parameters()` / `net_parameters()`;
* `PIT/MPS/SuperNet.named_nas_parameters` — walk the NAS-able layers in module order, yield the
  *parameters* of their maskers / quantizers / combiner, skip what was already yielded (identity);
  `named_net_parameters` — every parameter that is not a NAS parameter;
* `plinio/methods/pit/pit.py` — `train_features / train_rf / train_dilation / discrete_cost`
  setters loop over the layers that expose the attribute; the layer forwards to its masker's
  `trainable` setter, which `Frozen*` maskers override with `pass`;
* `plinio/methods/pit/nn/*_masker.py` after fix 9862c46 — the mask of a `PITFrozen*Masker` is a
  **buffer**: it is in no parameter list, `requires_grad` is `False` for good, `.grad` stays `None`
  (`mkTensor`: `isParam := !frozen`).  `mkTensorPinned` is the pinned tree (frozen masks were
  parameters with `requires_grad = False`), kept for the regression witness;
* `plinio/methods/mps/mps.py`, `mps/nn/*.py`, `mps/nn/qtz.py` after fix 82b0c5b —
  `update_softmax_options` reaches the `out_`/`w_` quantizers of every MPS layer; each stores the
  options it is given and re-binds its sampler from the stored flags (`Sampling.updOpts`,
  `Sampling.mpsChoose`).  `updPinned` is the pinned tree (sampler re-chosen from the arguments);
* `plinio/methods/supernet/supernet.py`, `supernet/nn/combiner.py` — temperature / hard only.

`forward + backward(loss + cost)` is modelled by its observable outcome: for every tensor whether
`.grad` is `None`, all-zero, non-zero or merely present (`Grad`), or that `backward()` raises
because a quantizer with sampling disabled still holds coefficients whose autograd graph was
consumed by an earlier backward.  The models always run in training mode (`train()`/`eval()` are
not in C11's alphabet).
-/
namespace PlinioVerif.Train
open PlinioVerif.Sampling

inductive Method where
  | pit | mps | sn
deriving DecidableEq, Repr

inductive Role where
  /-- PIT output-features mask -/
  | alpha
  /-- PIT receptive-field mask -/
  | beta
  /-- PIT dilation mask -/
  | gamma
  /-- any parameter of the inner network (weights, biases, BatchNorm affine) -/
  | weight
  /-- coefficients of an MPS quantizer with `n` alternatives -/
  | qalpha (n : Nat)
  /-- another parameter of an MPS quantizer (PACT clip value) -/
  | qaux
  /-- coefficients of a SuperNet combiner with `n` branches -/
  | calpha (n : Nat)
deriving DecidableEq, Repr

structure Tensor where
  role : Role
  /-- belongs to a `PITFrozen*Masker` -/
  frozen : Bool := false
  /-- `nn.Parameter` (true) or buffer (false) -/
  isParam : Bool := true
  /-- `requires_grad` -/
  rg : Bool := true
  /-- index of the owning quantizer / combiner (`qalpha`, `qaux`, `calpha`) -/
  owner : Nat := 0
deriving DecidableEq, Repr

/-- as the classes build it (after fix 9862c46): a frozen mask is a buffer; everything else is a
parameter that starts trainable (PIT/MPS defaults; `SuperNet.__init__` sets `train_selection`) -/
def mkTensor (role : Role) (frozen : Bool) (owner : Nat := 0) : Tensor :=
  { role := role, frozen := frozen, isParam := !frozen, rg := !frozen, owner := owner }

/-- the pinned tree: a frozen mask was a parameter created with `requires_grad = False` -/
def mkTensorPinned (role : Role) (frozen : Bool) (owner : Nat := 0) : Tensor :=
  { role := role, frozen := frozen, isParam := true, rg := !frozen, owner := owner }

/-- a NAS-able layer (`PITModule`, `MPSModule`, `SuperNetCombiner`); indices point into the
tensor table / the quantizer table -/
structure Layer where
  /-- tensors of its maskers / quantizers / combiner in the order its `named_nas_parameters`
  visits them (before the "is it a Parameter" filter) -/
  refs : List Nat
  /-- features mask: the layer exposes `train_features` and `discrete_cost` -/
  fm : Option Nat := none
  /-- time-step mask: the layer exposes `train_rf` -/
  tm : Option Nat := none
  /-- dilation mask: the layer exposes `train_dilation` -/
  dm : Option Nat := none
  /-- quantizers (MPS: `out_`, `w_`) or combiner its `update_softmax_options` reaches; the same
  ones its forward samples and its cost reads -/
  qs : List Nat := []
  /-- `layer.discrete_cost` -/
  discrete : Bool := false
deriving Repr

/-- a quantizer or combiner -/
structure Qtz where
  o : Opts Rat
  sampler : Sampler
  /-- index of its coefficient tensor -/
  alphaT : Nat
  /-- `theta_alpha` carries an autograd graph into `alpha` that a backward already consumed -/
  thetaGraph : Bool := false

structure State where
  method : Method
  ts : List Tensor
  layers : List Layer
  qs : List Qtz
  /-- wrapper attributes `_train_features`, `_train_rf`, `_train_dilation`, `_discrete_cost` -/
  trainFeatures : Bool := true
  trainRf : Bool := true
  trainDilation : Bool := true
  discreteCost : Bool := false
  /-- `sample_alpha_none` detaches the coefficients it keeps (the tree after the fix); `false` is
  the earlier tree, where they stayed attached to the graph of the forward that sampled them -/
  detachOnNone : Bool := true

inductive Op where
  | nasOnly | netOnly | netAndNas
  | setFeatures (b : Bool) | setRf (b : Bool) | setDilation (b : Bool) | setDiscrete (b : Bool)
  /-- `update_softmax_options(temperature, hard, gumbel, disable_sampling)`, `none` = not given -/
  | upd (t : Option Rat) (h g d : Option Bool)
  /-- zero the gradients, forward, `(loss + cost).backward()` -/
  | fwdbwd
deriving Repr

/-! ## parameter lists -/

def isParamAt (ts : List Tensor) (i : Nat) : Bool := (ts[i]?.map (·.isParam)).getD false

/-- `named_parameters()`: every registered parameter once -/
def paramIds (s : State) : List Nat := (List.range s.ts.length).filter (isParamAt s.ts)

/-- the `included` set of `named_nas_parameters`: keep first occurrences -/
def dedup : List Nat → List Nat
  | [] => []
  | x :: xs => x :: (dedup xs).filter (· != x)

/-- `named_nas_parameters()` -/
def nasIds (s : State) : List Nat :=
  dedup ((s.layers.flatMap (·.refs)).filter (isParamAt s.ts))

/-- `named_net_parameters()`: all parameters except the NAS ones -/
def netIds (s : State) : List Nat :=
  let nas := nasIds s
  (paramIds s).filter fun i => !nas.contains i

/-! ## the calls -/

/-- `for p in <list>: p.requires_grad = b` -/
def setRg (ids : List Nat) (b : Bool) (ts : List Tensor) : List Tensor :=
  ts.mapIdx fun i t => if ids.contains i then { t with rg := b } else t

/-- `masker.trainable = b` on the maskers `ids`: the `Frozen*` override is `pass` -/
def setTrainable (ids : List Nat) (b : Bool) (ts : List Tensor) : List Tensor :=
  ts.mapIdx fun i t => if ids.contains i && !t.frozen then { t with rg := b } else t

/-- quantizers / combiners reached by the model-level `update_softmax_options` -/
def reached (s : State) : List Nat := s.layers.flatMap (·.qs)

/-- one quantizer's `update_softmax_options` (MPS), or the two assignments `SuperNet` does -/
def updQ (m : Method) (q : Qtz) (t : Option Rat) (h g d : Option Bool) : Qtz :=
  match m with
  | .sn => { q with o := { q.o with temperature := t.getD q.o.temperature, hard := h.getD q.o.hard } }
  | _ => let o' := updOpts q.o t h g d; { q with o := o', sampler := mpsChoose o' }

/-- the pinned tree's `MPSBaseQtz.update_softmax_options`: temperature and hard are stored, the
sampler is re-chosen from the call's *arguments* -/
def updQPinned (q : Qtz) (t : Option Rat) (h g d : Option Bool) : Qtz :=
  { q with o := { q.o with temperature := t.getD q.o.temperature, hard := h.getD q.o.hard },
           sampler := if d == some true then .none else if g == some true then .gs else .sm }

def rgAt (ts : List Tensor) (i : Nat) : Bool := (ts[i]?.map (·.rg)).getD false

def step (s : State) : Op → State
  | .nasOnly => { s with ts := setRg (netIds s) false (setRg (nasIds s) true s.ts) }
  | .netOnly => { s with ts := setRg (netIds s) true (setRg (nasIds s) false s.ts) }
  | .netAndNas => { s with ts := setRg (netIds s) true (setRg (nasIds s) true s.ts) }
  | .setFeatures b =>
    { s with ts := setTrainable (s.layers.filterMap (·.fm)) b s.ts, trainFeatures := b }
  | .setRf b => { s with ts := setTrainable (s.layers.filterMap (·.tm)) b s.ts, trainRf := b }
  | .setDilation b =>
    { s with ts := setTrainable (s.layers.filterMap (·.dm)) b s.ts, trainDilation := b }
  | .setDiscrete b =>
    { s with layers := s.layers.map (fun l => if l.fm.isSome then { l with discrete := b } else l),
             discreteCost := b }
  | .upd t h g d =>
    let r := reached s
    { s with qs := s.qs.mapIdx fun j q => if r.contains j then updQ s.method q t h g d else q }
  | .fwdbwd =>
    -- a reached quantizer whose sampler is not `none` re-samples: its coefficients get a fresh
    -- graph iff `alpha` requires grad, and the backward consumes it
    let r := reached s
    { s with qs := s.qs.mapIdx fun j q =>
        if r.contains j && q.sampler != .none then { q with thetaGraph := rgAt s.ts q.alphaT }
        else if r.contains j && s.detachOnNone then { q with thetaGraph := false }
        else q }

def run (s : State) (ops : List Op) : State := ops.foldl step s

/-! ## outcome of `forward + backward(loss + cost)` -/

inductive Grad where
  /-- `.grad is None` -/
  | none
  /-- a gradient tensor that is structurally all-zero -/
  | zero
  /-- a gradient tensor, generically non-zero -/
  | nonzero
  /-- a gradient tensor; zero or not depends on the data -/
  | present
deriving DecidableEq, Repr

/-- a reached quantizer with sampling disabled still holds coefficients with a consumed graph -/
def staleGraph (r : List Nat) (qs : List Qtz) (j : Nat) : Bool :=
  match qs[j]? with
  | some q => r.contains j && q.sampler == .none && q.thetaGraph
  | none => false

/-- `backward()` raises "Trying to backward through the graph a second time" -/
def bwdError (s : State) : Bool :=
  let r := reached s
  !s.detachOnNone && (List.range s.qs.length).any (staleGraph r s.qs)

/-- `.grad` of one tensor after `forward + backward(loss + cost)` from state `s` -/
def gradOfR (r : List Nat) (qs : List Qtz) (t : Tensor) : Grad :=
  if !t.isParam || !t.rg then .none else
  match t.role with
  | .alpha => if t.frozen then .none else .nonzero      -- a frozen features masker reads `_fixed_alpha`
  | .beta => .nonzero
  | .gamma => .nonzero
  | .weight => .present
  | .qalpha n =>
    match qs[t.owner]? with
    | some q =>
      if !r.contains t.owner then .none        -- never sampled, never read
      else if q.sampler == .none then .none              -- stale coefficients: `alpha` is not in the graph
      else if n ≤ 1 then .zero else .present             -- softmax of one entry has a zero Jacobian;
                                                         -- otherwise data dependent (a low-precision sample can zero the activations)
    | none => .none
  | .qaux => if r.contains t.owner then .present else .none
  | .calpha n =>
    match qs[t.owner]? with
    | some q =>
      match kindOf .snComb q.sampler { q.o with training := true } with
      | .hardArgmax => .none                             -- `F.one_hot` cuts the graph
      | .keep => .none
      | _ => if n ≤ 1 then .zero else .nonzero
    | none => .none

def gradOf (s : State) (t : Tensor) : Grad := gradOfR (reached s) s.qs t

def grads (s : State) : List Grad :=
  let r := reached s
  s.ts.map (gradOfR r s.qs)

end PlinioVerif.Train
