/-!
# ODiMO: per-layer reduction of the per-precision costs and the network cost (C12)

`plinio/methods/mps/mps.py`, `MPS._get_single_cost`: for every MPS layer the cost function is applied
once per weight precision (`layer.get_cost` returns the vector of per-precision costs) and the vector is
reduced by `self._cost_reduction_fn` — `torch.sum` for plain MPS, and for `ODiMO_MPS`
(`plinio/methods/odimo_mps/odimo_mps.py`)

```
def odimo_mps_latency_reduction(costs):
    costs = costs.flatten()
    s_c = F.softmax(costs, dim=0)
    return torch.dot(s_c, costs)
```

the softmax-weighted mean of the costs themselves ("the precisions run in parallel on different
accelerators": a smooth maximum).  The reduced values are summed over the layers; with `full_cost`
the cost of every other layer is added.

Core Lean only.  The exponential is abstracted: a reduction takes the list of (weight, cost) pairs, the
weight standing for `exp(cost - max)`; the theorems of `Props/C12.lean` hold for every positive weight
and are instantiated with `Real.exp` there.  The driver runs the same definitions over `Rat` with the
weights handed over as exact rationals.
-/
namespace PlinioVerif.ODiMO

variable {α : Type} [Add α] [Mul α] [Div α] [Zero α]

/-- `Σ wᵢ·cᵢ` over (weight, cost) pairs -/
def dotP (ps : List (α × α)) : α := (ps.map fun p => p.1 * p.2).sum

/-- `Σ wᵢ` -/
def totalP (ps : List (α × α)) : α := (ps.map (·.1)).sum

/-- `torch.dot(softmax(costs), costs)` with the un-normalised softmax weights given explicitly -/
def reduceP (ps : List (α × α)) : α := dotP ps / totalP ps

/-- the plain MPS reduction (`torch.sum`) -/
def reduceSum (cs : List α) : α := cs.sum

/-- `MPS._get_single_cost`: the reduced cost of every MPS layer summed, plus the fixed layers' costs
(`full_cost=True`; the empty list otherwise) -/
def netCost (layers : List (List (α × α))) (fixed : List α) : α :=
  (layers.map reduceP).sum + fixed.sum

/-- the same walk with the plain MPS reduction -/
def netCostSum (layers : List (List α)) (fixed : List α) : α :=
  (layers.map reduceSum).sum + fixed.sum

end PlinioVerif.ODiMO
