/-!
# Model of `plinio/methods/mps/utils.py` (C20), core Lean only

* `reassign` — `_reassign_precisions(best, scores)` exactly as coded: per-channel arg-max
  (`current_assignment`), per-precision descending arg-sort (`sorted_indices`), the first greedy
  pass (top-`target` channels of every precision, excess of the *current* channels marked `-1`),
  the second greedy pass (deficits filled from the channels still marked `-1`, best score first),
  and the binary matrix built from the result.  `-1` is `none`.  Ties of scores are outside the
  model (torch does not specify them; the generators exclude them).
* `refineLayer` — the count-level search of `optimize_prec_assignment` for one layer: which count
  vectors "Case 1" and "Case 2" propose (one channel at a time from a precision to a higher one, the
  0-bit option never a source), the best-so-far by cost, and the vector finally handed to
  `_reassign_precisions`.  The cost model is an arbitrary function on count vectors.
  Counts are natural numbers: the code carries them as the float32 fractions nearest to
  `count / C` (it rounds to whole channels after every move), and the correspondence checks that
  every fraction it sees is exactly such a value.  `refineLayerPinned` is the loop as it was before
  the ordering repair.

The model mirrors what the code does, not what it should do.
-/
namespace PlinioVerif.Reassign

/-! ## `_reassign_precisions` -/

/-- `scores[precision][channel]` -/
abbrev Mat := List (List Int)

def argmaxAux : List Int → Nat → Int → Nat → Nat
  | [], _, _, bi => bi
  | x :: xs, i, bv, bi => if x > bv then argmaxAux xs (i + 1) x i else argmaxAux xs (i + 1) bv bi

/-- `torch.argmax` of a vector (first maximum; ties are excluded by the generators) -/
def argmaxIdx : List Int → Nat
  | [] => 0
  | x :: xs => argmaxAux xs 1 x 0

def col (m : Mat) (c : Nat) : List Int := m.map (·.getD c 0)

/-- insertion into a list ordered by the strict order `lt` (stable) -/
def insertBy (lt : Nat → Nat → Bool) (x : Nat) : List Nat → List Nat
  | [] => [x]
  | y :: ys => if lt y x then y :: insertBy lt x ys else x :: y :: ys

/-- insertion sort by the strict order `lt`, structurally recursive (so `decide` can run it) -/
def isort (lt : Nat → Nat → Bool) : List Nat → List Nat
  | [] => []
  | x :: xs => insertBy lt x (isort lt xs)

/-- `torch.argsort(row, descending=True)` -/
def argsortDesc (row : List Int) : List Nat :=
  isort (fun i j => row.getD i 0 > row.getD j 0) (List.range row.length)

/-- `new_assignment`: per channel a precision index, or `none` for the code's `-1` -/
abbrev Asg := List (Option Nat)

/-- `a[idxs] = v` (indices out of range are ignored; the code never produces any) -/
def setAll (a : Asg) (idxs : List Nat) (v : Option Nat) : Asg :=
  a.zipIdx.map fun (x, i) => if idxs.contains i then v else x

/-- `(new_assignment == prec).sum()` -/
def countOf (a : Asg) (p : Nat) : Nat := a.countP (· == some p)

/-- `sorted_indices[prec][:target_count]` -/
def top (best : List Nat) (sorted : List (List Nat)) (p : Nat) : List Nat :=
  (sorted.getD p []).take (best.getD p 0)

/-- body of the first `for prec in range(num_precisions)` loop -/
def pass1Step (best current : List Nat) (sorted : List (List Nat)) (a : Asg) (p : Nat) : Asg :=
  let target := best.getD p 0
  -- `(current_assignment == prec).nonzero()`: ascending channel index
  let precIdx := (List.range current.length).filter fun c => current.getD c 0 == p
  if target == 0 then setAll a precIdx none
  else setAll (setAll a (top best sorted p) (some p)) (precIdx.drop target) none

/-- body of the second `for prec in range(num_precisions)` loop -/
def pass2Step (best : List Nat) (sorted : List (List Nat)) (a : Asg) (p : Nat) : Asg :=
  let target := best.getD p 0
  let cur := countOf a p
  if cur < target then
    -- `sorted_indices[prec][isin(sorted_indices[prec], unassigned)][:channels_needed]`
    let topUn := ((sorted.getD p []).filter fun c => a.getD c (some 0) == none).take (target - cur)
    setAll a topUn (some p)
  else a

/-- the two passes, for any current assignment and any per-precision channel orders -/
def reassignCore (best current : List Nat) (sorted : List (List Nat)) (nP : Nat) : Asg :=
  (List.range nP).foldl (pass2Step best sorted)
    ((List.range nP).foldl (pass1Step best current sorted) (current.map some))

def nChannels (scores : Mat) : Nat := (scores.headD []).length

/-- `current_assignment = torch.argmax(scores, dim=0)` -/
def currentOf (scores : Mat) : List Nat :=
  (List.range (nChannels scores)).map fun c => argmaxIdx (col scores c)

/-- `sorted_indices = torch.argsort(scores, dim=1, descending=True)` -/
def sortedOf (scores : Mat) : List (List Nat) := scores.map argsortDesc

/-- `_reassign_precisions(best, scores)` up to the final matrix: the assignment vector -/
def reassign (best : List Nat) (scores : Mat) : Asg :=
  reassignCore best (currentOf scores) (sortedOf scores) scores.length

/-- the returned `binary_matrix` (`zeros_like(scores)` with a `1` per assigned channel) -/
def toBinary (nP : Nat) (a : Asg) : List (List Nat) :=
  (List.range nP).map fun p => a.map fun x => if x == some p then 1 else 0

def reassignMatrix (best : List Nat) (scores : Mat) : List (List Nat) :=
  toBinary scores.length (reassign best scores)

def colSum (m : List (List Nat)) (c : Nat) : Nat := (m.map (·.getD c 0)).sum
def rowSum (m : List (List Nat)) (p : Nat) : Nat := (m.getD p []).sum

/-- "assigns each channel exactly one precision and meets every count" -/
def meets (best : List Nat) (a : Asg) : Bool :=
  a.all (·.isSome) && (List.range best.length).all fun p => countOf a p == best.getD p 0

/-- well-formed request: a `P × C` matrix, `P` target counts that sum to `C` -/
def wf (best : List Nat) (scores : Mat) : Bool :=
  best.length == scores.length && scores.all (·.length == nChannels scores) &&
    best.sum == nChannels scores

def nodupB : List Nat → Bool
  | [] => true
  | x :: xs => !xs.contains x && nodupB xs

/-- the top-`target` channel sets of all precisions, concatenated -/
def tops (best : List Nat) (sorted : List (List Nat)) : List Nat :=
  (List.range sorted.length).flatMap (top best sorted)

/-- **no channel is within the top-`target` of two precisions** (the hypothesis of the partial
theorems, and the class predicate of finding `C20:reassign:top-k-overlap` when it is false) -/
def noOverlap (best : List Nat) (scores : Mat) : Bool := nodupB (tops best (sortedOf scores))

/-- the precision whose top-`target` contains channel `c` (first one, if any) -/
def owner (best : List Nat) (sorted : List (List Nat)) (c : Nat) : Option Nat :=
  (List.range sorted.length).find? fun p => (top best sorted p).contains c

/-! ## the count-level search of `optimize_prec_assignment` (one layer) -/

/-- `torch.argsort(precision)` (ascending) -/
def argsortAsc (precs : List Nat) : List Nat :=
  isort (fun i j => precs.getD i 0 < precs.getD j 0) (List.range precs.length)

/-- `n` iterations of `tmp[i] -= 1/C; tmp[j] += 1/C`, in channel units -/
def moveN (v : List Nat) (i j n : Nat) : List Nat :=
  (v.set i (v.getD i 0 - n)).set j (v.getD j 0 + n)

/-- the vectors the `while tmp[i] > 0` loop evaluates, in order, starting from `v` -/
def drain (v : List Nat) (i j : Nat) : List (List Nat) :=
  (List.range (v.getD i 0)).map fun t => moveN v i j (t + 1)

/-- `tmp` when that loop exits -/
def drained (v : List Nat) (i j : Nat) : List Nat := moveN v i j (v.getD i 0)

/-- the `(i, j)` of `for i …: if sorted_precisions[i] == 0: continue; for j in range(i+1, P)` -/
def pairs (sp : List Nat) : List (Nat × Nat) :=
  (List.range sp.length).flatMap fun i =>
    if sp.getD i 0 == 0 then [] else (List.range' (i + 1) (sp.length - (i + 1))).map fun j => (i, j)

/-- "Case 1": `tmp` is reset to the layer's counts before every `(i, j)` -/
def case1 (sp ws : List Nat) : List (List Nat) := (pairs sp).flatMap fun ij => drain ws ij.1 ij.2

/-- "Case 2": `tmp` is carried from one `(i, j)` to the next -/
def case2 (sp ws : List Nat) : List Nat × List (List Nat) :=
  (pairs sp).foldl (fun (st : List Nat × List (List Nat)) ij =>
    (drained st.1 ij.1 ij.2, st.2 ++ drain st.1 ij.1 ij.2)) (ws, [])

/-- every count vector handed to `_compute_cost` inside the two cases, in order (sorted
coordinates: index `k` is the `k`-th smallest precision) -/
def proposals (sp ws : List Nat) : List (List Nat) := case1 sp ws ++ (case2 sp ws).2

/-- `best_cost`, `best_cost_w_theta_alpha_array` -/
structure Best (α : Type) where
  cost : α
  vec : List Nat

/-- `if cost_tmp < best_cost: best_cost = cost_tmp; best_… = copy(tmp)` -/
def accept {α} [LT α] [DecidableLT α] (cost : List Nat → α) (b : Best α) (v : List Nat) : Best α :=
  if cost v < b.cost then ⟨cost v, v⟩ else b

/-- the vectors that became best-so-far, in order -/
def acceptedOf {α} [LT α] [DecidableLT α] (cost : List Nat → α) (b : Best α) :
    List (List Nat) → List (List Nat)
  | [] => []
  | v :: vs => if cost v < b.cost then v :: acceptedOf cost ⟨cost v, v⟩ vs else acceptedOf cost b vs

/-- `[x[i] for i in sorted_indexes]` -/
def gather (idx : List Nat) (x : List Nat) : List Nat := idx.map (x.getD · 0)

/-- inverse of `gather idx` when `idx` is a permutation: `y[idx[k]] = x[k]` -/
def scatter (idx : List Nat) (x : List Nat) : List Nat :=
  (List.range idx.length).map fun o => x.getD (idx.idxOf o) 0

structure LayerResult (α : Type) where
  /-- count vectors in the order `_compute_cost` received them (after the base configuration),
  as it received them: in the quantizer's own precision order -/
  passed : List (List Nat)
  /-- those that became best-so-far (ascending-precision coordinates, as printed) -/
  accepted : List (List Nat)
  /-- best cost and best vector (ascending-precision coordinates) -/
  best : Best α
  /-- the `best` handed to `_reassign_precisions` (precision order of the quantizer) -/
  applied : List Nat

/-- One layer of `optimize_prec_assignment` at count level.  `precs` and `w` are in the
quantizer's own precision order and `cost` is a function of count vectors in that order.  The
search works in ascending-precision coordinates (`gather idx`), hands every candidate back in the
quantizer's order (`scatter idx`, the code's `inverse_indexes`) to the cost model, keeps the best
in sorted coordinates and un-sorts it at the end. -/
def refineLayer {α} [LT α] [DecidableLT α] (cost : List Nat → α) (precs w : List Nat) :
    LayerResult α :=
  let idx := argsortAsc precs
  let props := proposals (gather idx precs) (gather idx w)
  let b0 : Best α := ⟨cost w, gather idx w⟩
  let best := props.foldl (accept (cost ∘ scatter idx)) b0
  { passed := props.map (scatter idx), accepted := acceptedOf (cost ∘ scatter idx) b0 props,
    best := best, applied := scatter idx best.vec }

/-- The same loop **as it was on the pinned tree** (kept for the regression witnesses): the
sorted-coordinate vector went to `_compute_cost` as it was — paired there with the quantizer's
precisions in their own order —, the initial best was in the quantizer's order, and the final
"un-sort" applied `sorted_indexes` a second time instead of its inverse. -/
def refineLayerPinned {α} [LT α] [DecidableLT α] (cost : List Nat → α) (precs w : List Nat) :
    LayerResult α :=
  let idx := argsortAsc precs
  let props := proposals (gather idx precs) (gather idx w)
  let b0 : Best α := ⟨cost w, w⟩
  let best := props.foldl (accept cost) b0
  { passed := props, accepted := acceptedOf cost b0 props, best := best,
    -- `[best[i] for i in sorted_indexes]`
    applied := gather idx best.vec }

/-- counts per precision of an assignment -/
def countsOf (nP : Nat) (a : Asg) : List Nat := (List.range nP).map (countOf a)

/-- one layer end to end in the model: counts of the arg-max assignment, the search, the
reassignment by score -/
def optimizeLayer {α} [LT α] [DecidableLT α] (cost : List Nat → α) (precs : List Nat)
    (scores : Mat) : Asg :=
  let w := countsOf scores.length ((currentOf scores).map some)
  reassign (refineLayer cost precs w).applied scores

end PlinioVerif.Reassign
