/-!
# Model of `plinio.cost.cost_spec.CostSpec` look-up (C15)

`CostSpec.__setitem__` appends `(constraint, cost_fn)` to the list registered for a layer type;
`CostSpec.__getitem__` scans that list in registration order.  `lookup` is that scan, written
as the fold the Python loop performs (a `raise` ends the loop: the conflict flag is sticky).
`specLookup` is the documented rule, which does not mention order at all.
-/
namespace PlinioVerif.CostSpec

/-- result of a look-up: a registered function, the specification's default, or the
"two conflicting cost models" `KeyError` -/
inductive Res (Fn : Type) where
  | ok (f : Fn) | dflt | conflict
deriving DecidableEq, Repr

/-- one registered `(constraint, cost_fn)` pair; `constr = none` is the unconstrained pattern -/
structure Entry (Spec Fn : Type) where
  constr : Option (Spec → Bool)
  fn : Fn

/-- loop state of `__getitem__`: `best_match` (none = default), "`best_constr is not None`",
and whether the `raise` was reached -/
structure St (Fn : Type) where
  best : Option Fn := none
  hasConstr : Bool := false
  raised : Bool := false

/-- one iteration of the `for constr, cost_fn in self.data[key[0]]` loop -/
def step {Spec Fn} (s : Spec) (st : St Fn) (e : Entry Spec Fn) : St Fn :=
  if st.raised then st else
  match e.constr with
  | none =>
      -- unconstrained patterns are only a fallback for constrained ones
      if st.hasConstr then st else { st with best := some e.fn }
  | some c =>
      if c s then
        if st.hasConstr then { st with raised := true }
        else { st with best := some e.fn, hasConstr := true }
      else st

def finish {Fn} (st : St Fn) : Res Fn :=
  if st.raised then .conflict else
  match st.best with
  | some f => .ok f
  | none => .dflt

/-- `CostSpec.__getitem__((type, spec))` restricted to the list registered for `type` -/
def lookup {Spec Fn} (es : List (Entry Spec Fn)) (s : Spec) : Res Fn :=
  finish (es.foldl (step s) {})

def Entry.cmatch {Spec Fn} (s : Spec) (e : Entry Spec Fn) : Bool :=
  match e.constr with | some c => c s | none => false

def Entry.unc {Spec Fn} (e : Entry Spec Fn) : Bool := e.constr.isNone

/-- the documented rule: the constrained pattern the layer satisfies, else the unconstrained
pattern of its type, else the default; an error iff two constrained patterns both match. -/
def specLookup {Spec Fn} (es : List (Entry Spec Fn)) (s : Spec) : Res Fn :=
  match es.filter (Entry.cmatch s), es.filter Entry.unc with
  | [e], _ => .ok e.fn
  | _ :: _ :: _, _ => .conflict
  | [], u :: _ => .ok u.fn
  | [], [] => .dflt

/-! ### the scan as it was on the pinned tree (kept for the regression witness) -/

/-- pinned-tree loop body: an unconstrained entry is treated like a matching constrained one
whose constraint object is `None` -/
def stepPinned {Spec Fn} (s : Spec) (st : St Fn) (e : Entry Spec Fn) : St Fn :=
  if st.raised then st else
  if (match e.constr with | none => true | some c => c s) then
    if st.hasConstr then { st with raised := true }
    else { st with best := some e.fn, hasConstr := e.constr.isSome }
  else st

def lookupPinned {Spec Fn} (es : List (Entry Spec Fn)) (s : Spec) : Res Fn :=
  finish (es.foldl (stepPinned s) {})

end PlinioVerif.CostSpec
