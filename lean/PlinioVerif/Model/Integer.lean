import PlinioVerif.Model.Quant
/-!
# Integer (MATCH / MAUPITI) layers of `plinio/methods/mps/quant/backends`  (core Lean only, executable)

Mirrors `binary_search` (backends/utils.py), `_integer_approximation` and the `forward` /
`_zero_point` arithmetic of `MATCHConv2d`, `MATCHLinear`, `MAUPITIConv2d`, `MAUPITILinear`, and
`MATCHConv2d._pad_dilation_in_weight`.  The convolution / matrix product itself is the carrier
(an integer accumulator `acc = Σ n_w·n_x` per output element); everything the backends add on top
of it — scale/shift selection, requantisation, clipping, offsets, zero-point, zero-stuffing — is
modelled exactly over ℤ / ℚ.  Float32 rounding of these integer computations is not modelled.
-/
namespace PlinioVerif.Integer
open PlinioVerif.Quant

/-! ## `binary_search(div, low, high, x)` -/

/-- as the Python function; the two inner guards only make the recursion well-founded (they
never fire when `low ≤ high`, see `Lemmas/Integer.lean`) -/
def bsearch (div x : Rat) (low high : Nat) : Nat :=
  if h : high ≠ low then
    let mid := (low + high) / 2
    if x = (mid : Rat) * div then mid
    else if x < (mid : Rat) * div then
      (if low ≤ mid ∧ mid < high then bsearch div x low mid else low)
    else
      (if mid + 1 ≤ high then bsearch div x (mid + 1) high else low)
  else low
termination_by high - low
decreasing_by all_goals omega

/-! ## `_integer_approximation(s_w, s_x, s_y, int_bias)`

`ts` are the per-channel targets `s_w * s_x / s_y` (float32 values, as exact rationals), `bs` the
integer biases. -/

/-- `2 ** -sh` -/
def divOf (sh : Nat) : Rat := 1 / pow2 sh

/-- `params[sh]`: per channel `binary_search(2**-sh, 1, upper_bound, target)` -/
def scalesAt (ub sh : Nat) (ts : List Rat) : List Nat := ts.map (fun t => bsearch (divOf sh) t 1 ub)

/-- `abs(params[sh][idx] / 2**sh - target[idx])` -/
def diffAt (sh : Nat) (s : Nat) (t : Rat) : Rat := qabs ((s : Rat) / pow2 sh - t)

/-- `avg_diff[sh] = sum(diff) / len(diff)` -/
def avgDiff (sh : Nat) (ss : List Nat) (ts : List Rat) : Rat :=
  ((ss.zip ts).map (fun st => diffAt sh st.1 st.2)).sum / (ts.length : Rat)

/-- `any(scaled_bias > 2**31-1 or scaled_bias < -2**31)` with `scaled_bias = int_bias * scale` -/
def overflow (bs : List Int) (ss : List Nat) : Bool :=
  (bs.zip ss).any (fun bsc => decide (bsc.1 * (bsc.2 : Int) > 2 ^ 31 - 1) || decide (bsc.1 * (bsc.2 : Int) < -(2 ^ 31)))

/-- state of the selection loop: `(min_diff, min_scale, min_shift)`; `none` = `min_diff = inf` -/
abbrev Best := Option (Rat × List Nat × Nat)

/-- `val < min_diff` -/
def better (d : Rat) : Best → Bool
  | none => true
  | some (bd, _, _) => decide (d < bd)

/-- one iteration of `for key, val in avg_diff.items()` -/
def selStep (ub : Nat) (ts : List Rat) (bs : List Int) (best : Best) (sh : Nat) : Best :=
  let ss := scalesAt ub sh ts
  let d := avgDiff sh ss ts
  if better d best && !overflow bs ss then some (d, ss, sh) else best

/-- `upper_bound = 2 ** (scale_bit - 1) - 1`, the largest signed `scale_bit`-bit integer (after fix
becdfc8; before it the bound was `2 ** (scale_bit - 1)`, which the search can return) -/
def upperBound (scaleBit : Nat) : Nat := 2 ^ (scaleBit - 1) - 1

/-- `(scale, shift)`; `none` where the Python code raises (empty channel list: division by zero;
every shift overflows: `torch.tensor(None)`) -/
def intApprox (scaleBit shiftPos : Nat) (ts : List Rat) (bs : List Int) : Option (List Nat × Nat) :=
  if ts.isEmpty then none else
    ((List.range shiftPos).foldl (selStep (upperBound scaleBit) ts bs) none).map (fun r => (r.2.1, r.2.2))

/-! ## requantisation -/

/-- `torch.clip(x, lo, hi)` = `min(max(x, lo), hi)` -/
def clipInt (lo hi x : Int) : Int :=
  let y := if x < lo then lo else x
  if hi < y then hi else y

/-- `floor((acc * scale + add) / 2 ** shift)` clipped to `[lo, hi]` -/
def requant (acc s add : Int) (sh : Nat) (lo hi : Int) : Int :=
  clipInt lo hi (((acc * s + add : Int) : Rat) / pow2 sh).floor

/-- MATCH layer with requantisation: activations are unsigned `pOut`-bit -/
def matchOut (acc s addBias : Int) (sh pOut : Nat) : Int :=
  requant acc s addBias sh 0 (2 ^ pOut - 1)

/-- MATCH last layer (`skip_requant` / `last_layer`): `acc + int_bias`, un-scaled -/
def matchLast (acc nb : Int) : Int := acc + nb

/-! ## MAUPITI: signed activations, offset `-2^(p-1)` -/

/-- `in_offset = -2 ** (in_precision - 1)` (after fix cf7b52f; before it: the *output* precision) -/
def inOffset (pIn : Nat) : Int := -(2 ^ (pIn - 1))
/-- `clip_inf = -2 ** (out_precision - 1)` -/
def clipInf (pOut : Nat) : Int := -(2 ^ (pOut - 1))
/-- `clip_sup = 2 ** (out_precision - 1) - 1` -/
def clipSup (pOut : Nat) : Int := 2 ^ (pOut - 1) - 1

/-- `_zero_point = add_bias + clip_inf * 2**shift - in_offset * scale * sum(weight)` -/
def zeroPoint (addBias s wsum : Int) (sh pIn pOut : Nat) : Int :=
  addBias + clipInf pOut * 2 ^ sh - inOffset pIn * s * wsum

/-- MAUPITI layer with requantisation; `acc'` is the accumulator over the *offset* inputs
(padding positions hold `in_offset`) -/
def maupitiOut (acc' s zp : Int) (sh pOut : Nat) : Int :=
  requant acc' s zp sh (clipInf pOut) (clipSup pOut)

/-- zero-point of the last MAUPITI layer (`MAUPITILinear`, and `MAUPITIConv2d` once its
`skip_requant` branch is repaired to do the same): `add_bias - clip_inf * scale * sum(weight)` where
`clip_inf` of a last layer is `-2 ** (in_precision - 1)` -/
def zeroPointLast (addBias s wsum : Int) (pIn : Nat) : Int := addBias - inOffset pIn * s * wsum

/-- last MAUPITI layer: `(acc' * scale + zero_point) / 2**shift`, no floor, no clip -/
def maupitiLast (acc' s zp : Int) (sh : Nat) : Rat := ((acc' * s + zp : Int) : Rat) / pow2 sh

/-! ## MAUPITI padding: `nn.ConstantPad2d((p1, p1, p0, p0), in_offset)` (after fix d66c6a7)

One channel as a list of rows.  The height is padded by `padding[0]`, the width by `padding[1]`,
with the value `in_offset` (the integer image of a real 0). -/

def padRow (p1 : Nat) (v : Int) (row : List Int) : List Int :=
  List.replicate p1 v ++ row ++ List.replicate p1 v

def padGrid (p0 p1 : Nat) (v : Int) (x : List (List Int)) : List (List Int) :=
  let blank := List.replicate ((x.headD []).length + 2 * p1) v
  List.replicate p0 blank ++ x.map (padRow p1 v) ++ List.replicate p0 blank

/-! ## accumulators -/

def dot (w x : List Int) : Int := ((w.zip x).map (fun p => p.1 * p.2)).sum

/-! ## dilation: `_pad_dilation_in_weight` -/

/-- one kernel row: zeros of length `k*d - (d-1)`, then `padded[i*d] = w[i]` for `i < k` -/
def stuff (d : Nat) (w : List Int) : List Int :=
  (List.range w.length).foldl (fun acc i => acc.set (i * d) (w.getD i 0))
    (List.replicate (w.length * d - (d - 1)) 0)

/-- dilated correlation `Σ_i w[i] · x[t + i·d]` at output position `t` (x is 0 outside its
support: zero padding) -/
def corrDil (d : Nat) (w : List Int) (x : Nat → Int) (t : Nat) : Int :=
  ((List.range w.length).map (fun i => w.getD i 0 * x (t + i * d))).sum

/-! ## the fake-quantized counterpart on integer images -/

/-- pre-activation of the fake-quantized layer fed `x_fq = n_x·σx`, with weights `n_w·s_w` and bias
`n_b·(s_x·s_w)`: `acc·s_w·σx + n_b·s_x·s_w`.  `σx` is the step the input quantizer actually used,
`s_x` the scale it reports (they differ by PACT's stabiliser). -/
def fqPre (acc nb : Int) (sw sx σx : Rat) : Rat := (acc : Rat) * (sw * σx) + (nb : Rat) * (sx * sw)

/-- integer image of the fake-quantized layer's output (PACT level of the pre-activation) -/
def fqLevel (eps : Rat) (pOut : Nat) (clipY : Rat) (acc nb : Int) (sw sx σx : Rat) : Int :=
  pactLevelE eps pOut clipY (fqPre acc nb sw sx σx)

/-- what PACT's stabiliser contributes to the difference of the pre-rounding values of the integer
layer and of its fake-quantized counterpart: `acc·s_w·(s_x/s_y − σx/σy) + n_b·s_x·s_w·(1/s_y − 1/σy)`
(`s` reported scales, `σ` steps actually used); it is `0` when `σ = s` -/
def stabTerm (acc nb : Int) (sw sx σx sy σy : Rat) : Rat :=
  (acc : Rat) * sw * (sx / sy - σx / σy) + (nb : Rat) * sx * sw * (1 / sy - 1 / σy)

end PlinioVerif.Integer
