import PlinioVerif.Model.CostNum
import PlinioVerif.Gen.Ste
/-!
# Hand-written model of `Ne16PerfModel` / `Ne16PerfModel_generalized` (C16, reused by C12)

The class-based NE16 performance model of `plinio/cost/ne16_latency.py` is outside the translator's
subset (object state, properties, closures).  This file mirrors what the class computes for the
way PLiNIO instantiates it (`Ne16PerfModel(name, ks, depthwise=…, weights_bitwidth=…)` followed by
`set_layer(layer)`; `nq_shift = nq_bias = False`, `nq_bits = 32`, buffers never re-tiled), over an
arbitrary `CostNum α`; the three rounding helpers are the *translated* autograd functions of
`Gen/Ste.lean`.  Tied to the code by the correspondence leg of `harness/props/c16.py`
(`Ne16PerfModel(...).latency`, `.ops` and the three registered wrappers on the same grids).
-/
namespace PlinioVerif.NE16
open PlinioVerif CostNum
open scoped PlinioVerif.CostNum
variable {α : Type} [CostNum α]

/-- `DivAndCeilSTE.apply(a, b)` -/
def divAndCeil (a b : α) : α :=
  ste "DivAndCeilSTE" Gen.ne16_latency.DivAndCeilSTE.fwdL Gen.ne16_latency.DivAndCeilSTE.bwdL [a, b]
/-- `FloorDivideSTE.apply(a, b)` -/
def floorDivide (a b : α) : α :=
  ste "FloorDivideSTE" Gen.ne16_latency.FloorDivideSTE.fwdL Gen.ne16_latency.FloorDivideSTE.bwdL [a, b]
/-- `ModuloSTE.apply(a, b)` -/
def modulo (a b : α) : α :=
  ste "ModuloSTE" Gen.ne16_latency.ModuloSTE.fwdL Gen.ne16_latency.ModuloSTE.bwdL [a, b]

/-- class constants -/
def inBufH : Rat := 5
def inBufW : Rat := 5
def inBufK : Rat := 16
def outBufH : Rat := 3
def outBufW : Rat := 3
def outBufK : Rat := 32
def fifoLatency : Rat := 6
def multiplierCount : Rat := 4
def memoryThroughput : Rat := 256
def inputBitwidth : Rat := 8
def outputBitwidth : Rat := 8
def nqBits : Rat := 32

/-- the instance attributes that matter: `operation`, `kernel_shape`, `depthwise`,
`weights_bitwidth` -/
structure Cfg (α : Type) where
  operation : String
  kh : Rat
  kw : Rat
  depthwise : Bool
  wbits : α

def Cfg.is3x3 (c : Cfg α) : Bool := c.operation == "conv" && (c.kh == 3 && c.kw == 3) && !c.depthwise
def Cfg.is1x1 (c : Cfg α) : Bool := c.operation == "conv" && (c.kh == 1 && c.kw == 1) && !c.depthwise
def Cfg.isDw (c : Cfg α) : Bool := c.operation == "conv" && (c.kh == 3 && c.kw == 3) && c.depthwise

/-- `load_latency` -/
def loadLatency (c : Cfg α) : α :=
  if c.is1x1 then
    ofRat 10 +ᶜ ofRat outBufH *ᶜ ofRat outBufW *ᶜ
      divAndCeil (ofRat inBufK *ᶜ ofRat inputBitwidth) (ofRat memoryThroughput)
  else
    ofRat fifoLatency +ᶜ ofRat inBufH *ᶜ ofRat inBufW *ᶜ
      divAndCeil (ofRat inBufK *ᶜ ofRat inputBitwidth) (ofRat memoryThroughput)

/-- `weight_offset_latency(k)` -/
def weightOffsetLatency (c : Cfg α) (k : α) : α :=
  if c.isDw then ofRat fifoLatency +ᶜ k else ofRat fifoLatency

/-- `matrixvec_latency(k)` -/
def matrixvecLatency (c : Cfg α) (k : α) : α :=
  if c.is1x1 then ofRat fifoLatency +ᶜ k else ofRat fifoLatency +ᶜ k *ᶜ c.wbits

/-- `update_idx_latency` -/
def updateIdxLatency : α := ofRat 2

/-- `normquant_latency(k)` with `nq_shift = nq_bias = False`:
`0 + (9 + DivAndCeil(k * FloorDivide(nq_bits, 8), MULTIPLIER_COUNT)) + 0` -/
def normquantLatency (k : α) : α :=
  ofRat 0 +ᶜ (ofRat 9 +ᶜ divAndCeil (k *ᶜ floorDivide (ofRat nqBits) (ofRat 8)) (ofRat multiplierCount)) +ᶜ ofRat 0

/-- `streamout_latency` -/
def streamoutLatency : α :=
  ofRat 3 +ᶜ ofRat outBufH *ᶜ ofRat outBufW *ᶜ
    divAndCeil (ofRat outBufK *ᶜ ofRat outputBitwidth) (ofRat memoryThroughput) +ᶜ ofRat 1

/-- number of input-channel tiles `n_in` -/
def nIn (ki : α) : α := divAndCeil ki (ofRat inBufK)

/-- `iteration_latency(k)` (both closures) -/
def iterationLatency (c : Cfg α) (ki k : α) : α :=
  if c.isDw then
    loadLatency c +ᶜ weightOffsetLatency c k +ᶜ matrixvecLatency c k +ᶜ updateIdxLatency +ᶜ
      normquantLatency k +ᶜ streamoutLatency
  else
    nIn ki *ᶜ (loadLatency c +ᶜ weightOffsetLatency c (ofRat 0) +ᶜ matrixvecLatency c k +ᶜ updateIdxLatency) +ᶜ
      normquantLatency k +ᶜ streamoutLatency

/-- body size of an output-channel tile -/
def kOutBody (c : Cfg α) : Rat := if c.isDw then inBufK else outBufK

/-- property `latency` for `layer = (h, w, ko, ki)` -/
def latency (c : Cfg α) (h w ko ki : α) : α :=
  let kBody : α := ofRat (kOutBody c)
  let nOutBody := floorDivide ko kBody
  let kOutRem := modulo ko kBody
  let nSpatial := divAndCeil h (ofRat outBufH) *ᶜ divAndCeil w (ofRat outBufW)
  nSpatial *ᶜ (nOutBody *ᶜ iterationLatency c ki kBody +ᶜ
    (if nev kOutRem (ofRat 0) then iterationLatency c ki kOutRem else ofRat 0))

/-- property `ops` -/
def ops (c : Cfg α) (h w ko ki : α) : α :=
  if c.is3x3 || c.is1x1 then ofRat (c.kh * c.kw) *ᶜ ki *ᶜ h *ᶜ w *ᶜ ko
  else ofRat (c.kh * c.kw) *ᶜ ki *ᶜ h *ᶜ w

/-- counts of 3×3 and 1×1 sub-kernels a `ks` kernel is decomposed into -/
def n3x3 (ks : List α) : α := floorDivide (idx ks 0) (ofRat 3) *ᶜ floorDivide (idx ks 1) (ofRat 3)
def n1x1 (ks : List α) : α :=
  modulo (idx ks 0) (ofRat 3) *ᶜ idx ks 1 +ᶜ modulo (idx ks 1) (ofRat 3) *ᶜ idx ks 0 -ᶜ
    modulo (idx ks 0) (ofRat 3) *ᶜ modulo (idx ks 1) (ofRat 3)

/-- `total_latency` and `total_ops` of `Ne16PerfModel_generalized` -/
def totals (name : String) (ks : List α) (depthwise : Bool) (wbits : α) (layer : List α) : α × α :=
  let h := idx layer 0; let w := idx layer 1; let ko := idx layer 2; let ki := idx layer 3
  let c3 : Cfg α := ⟨name, 3, 3, depthwise, wbits⟩
  let c1 : Cfg α := ⟨name, 1, 1, depthwise, wbits⟩
  let t0 : α × α := (ofRat 0, ofRat 0)
  let t1 := if ltv (ofRat 0) (n3x3 ks) then
      (t0.1 +ᶜ latency c3 h w ko ki *ᶜ n3x3 ks, t0.2 +ᶜ ops c3 h w ko ki *ᶜ n3x3 ks) else t0
  if ltv (ofRat 0) (n1x1 ks) then
    (t1.1 +ᶜ latency c1 h w ko ki *ᶜ n1x1 ks, t1.2 +ᶜ ops c1 h w ko ki *ᶜ n1x1 ks) else t1

/-- `Ne16PerfModel_generalized(name, ks, depthwise, weights_bitwidth, layer)`:
`[total_latency, total_ops, total_ops / total_latency]` -/
def generalized (name : String) (ks : List α) (depthwise : Bool) (wbits : α) (layer : List α) : List α :=
  let t := totals name ks depthwise wbits layer
  [t.1, t.2, t.2 /ᶜ t.1]

/-- the Python raises iff an index / unpacking is out of range.  (A zero total latency — an empty
layer — makes the third component `0/0`: a `nan` nobody reads when the sizes are tensors, a
`ZeroDivisionError` when they are plain ints; outside the property's domain, not modelled.) -/
def generalizedOk (_name : String) (ks : List α) (_depthwise : Bool) (_wbits : α) (layer : List α) : Bool :=
  decide (ks.length ≥ 2) && decide (layer.length = 4)

end PlinioVerif.NE16
