import PlinioVerif.Model.CostNum
/-!
# `RegSpec.*` — what the regularizers are supposed to compute (C19; hand-written, core Lean only)

`Props/C19.lean` proves that the functions generated from `plinio/regularizers/base_regularizer.py`
and `duccio.py` (`Gen/Reg.lean`) are these, and all theorems are about these.
-/
namespace PlinioVerif.RegSpec

/-- `BaseRegularizer`: strength × cost -/
def baseReg (cost strength : Rat) : Rat := strength * cost

/-- linear ramp of DUCCIO's strength schedule: starts at 1 % of the final strength `s` and adds the
remaining 99 % over the first half of the `n` epochs -/
def ramp (s e n : Rat) : Rat := s / 100 + e * (s * 99 / 100) / (n / 2)

/-- effective strength at epoch `e` of `n`: the ramp, capped at the final strength -/
def eff (s e n : Rat) : Rat := if ramp s e n ≤ s then ramp s e n else s

/-- by how much a cost exceeds its target (`relu(cost - target)`) -/
def excess (c t : Rat) : Rat := if 0 ≤ c - t then c - t else 0

/-- one constrained metric `(cost, target, final strength)` -/
abbrev Metric := Rat × Rat × Rat

/-- penalty of one metric -/
def term (m : Metric) (e n : Rat) : Rat := eff m.2.2 e n * excess m.1 m.2.1

/-- `DUCCIO.__call__`: sum of the penalties -/
def duccio (ms : List Metric) (e n : Rat) : Rat := (ms.map fun m => term m e n).foldl (· + ·) 0

/-- final strength derived from the task loss at the first call: `max(0, loss / (c₀ - t))` -/
def derived (loss c0 t : Rat) : Rat := if 0 ≤ loss / (c0 - t) then loss / (c0 - t) else 0

end PlinioVerif.RegSpec
