/-!
# Line-protocol helpers shared by all drivers (core Lean only)

One request per line, tokens separated by single spaces; `key=value` tokens; lists `[a,b,c]`
without spaces; nested lists `[[a,b],[c]]`; rationals `p/q` or integers; booleans `0/1`.
-/
namespace PlinioVerif.Proto

def tokens (line : String) : List String :=
  (line.trimAscii.toString.splitOn " ").filter (· ≠ "")

/-- value of `key=` among the tokens -/
def field? (toks : List String) (key : String) : Option String :=
  let pre := key ++ "="
  match toks.find? (·.startsWith pre) with
  | some t => some (t.drop pre.length).toString
  | none => none

def parseInt? (s : String) : Option Int := s.toInt?
def parseNat? (s : String) : Option Nat := s.toNat?

/-- `p/q`, `p` (integers, q > 0) -/
def parseRat? (s : String) : Option Rat :=
  match s.splitOn "/" with
  | [p] => p.toInt?.map (fun (i : Int) => (i : Rat))
  | [p, q] => match p.toInt?, q.toNat? with
    | some a, some b => if b = 0 then none else some ((a : Rat) / (b : Rat))
    | _, _ => none
  | _ => none

/-- split the inside of a bracketed list at top-level commas -/
def splitTop (s : String) : List String := Id.run do
  let mut depth : Nat := 0
  let mut cur : String := ""
  let mut out : Array String := #[]
  for c in s.toList do
    if c = '[' then depth := depth + 1; cur := cur.push c
    else if c = ']' then depth := depth - 1; cur := cur.push c
    else if c = ',' && depth = 0 then out := out.push cur; cur := ""
    else cur := cur.push c
  if cur ≠ "" || out.size > 0 then out := out.push cur
  return out.toList

def stripBrackets? (s : String) : Option String :=
  if s.startsWith "[" && s.endsWith "]" then some ((s.drop 1).dropEnd 1).toString else none

def parseList? {α} (p : String → Option α) (s : String) : Option (List α) := do
  let inner ← stripBrackets? s
  (splitTop inner).mapM p

def parseList2? {α} (p : String → Option α) (s : String) : Option (List (List α)) :=
  parseList? (parseList? p) s

def parseBool? (s : String) : Option Bool :=
  if s = "1" then some true else if s = "0" then some false else none

def showList {α} (f : α → String) (l : List α) : String :=
  "[" ++ ",".intercalate (l.map f) ++ "]"

def showBool (b : Bool) : String := if b then "1" else "0"

def showRat (q : Rat) : String :=
  if q.den = 1 then toString q.num else s!"{q.num}/{q.den}"

/-- generic stdin loop -/
partial def loop (h : IO.FS.Stream) (handle : String → String) : IO Unit := do
  let line ← h.getLine
  if line.isEmpty then return ()
  IO.println (handle line)
  loop h handle

def runDriver (handle : String → String) : IO Unit := do
  loop (← IO.getStdin) handle

end PlinioVerif.Proto
