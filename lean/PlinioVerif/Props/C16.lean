import PlinioVerif.Lemmas.CostOk
/-!
# C16 — built-in cost models are finite, non-negative and monotone in layer size

Property theorems only.  `Gen.*` (files `PlinioVerif/Gen/Cost.lean`, `Gen/Ste.lean`) is the Lean
text the translator regenerates from `plinio/cost/*.py` on every run; `Spec.*`
(`Model/CostSpecs.lean`) are the hand-written closed forms.

1. `…_eq`: every generated function **is** its closed form (proved by unfolding, splitting the
   conditionals and normalising both sides as ring expressions: an algebraic rewrite of the Python
   still proves, a changed constant / factor / term / rounding / gate does not).
2. `registered_*`: for **every** registration `cost_spec[(LayerType, constraint)] = fn` of the built-in
   specifications (the generated `Gen.registry`): accepted exactly on the supported descriptions
   (finite; unsupported precisions / kernels / groups rejected), non-negative, positive on non-empty
   layers, monotone in the layer size, monotone in the bit-widths for the bit-aware models — for
   all rational (hence all natural, and all relaxed/fractional) sizes.
3. rounding helpers: exact on ℕ, between floor and ceiling and monotone on ℚ, gradients passed through.
4. depthwise = generic per group for the size / operation counts.
5. MPIC table monotone in both bit-widths (whole table, by kernel evaluation), NE16 class model in
   closed form with the ragged-tile monotonicity, DIANA `ox_unroll` antitone.
-/
namespace PlinioVerif.C16
open PlinioVerif PlinioVerif.Spec

/-! ## 1. The translated Python is the specification -/

/-! rounding helpers (`torch.autograd.Function.forward`, plain twins) -/

/-- gap8 `FloorSTE.forward(ch, N)` is `⌊(ch + N - 1) / N⌋` -/
theorem gap8_FloorSTE_eq (ch N : ℚ) : Gen.gap8_latency.FloorSTE.forward.val ch N = ceilDiv ch N := by
  gen_eq [Gen.gap8_latency.FloorSTE.forward.val, ceilDiv]
/-- gap8 `_floor(ch, N)` is the same function -/
theorem gap8_floor_eq (ch N : ℚ) : Gen.gap8_latency._floor.val ch N = ceilDiv ch N := by
  gen_eq [Gen.gap8_latency._floor.val, ceilDiv]
/-- DIANA `FloorSTE.forward` -/
theorem diana_FloorSTE_eq (ch N : ℚ) : Gen.diana_latency.FloorSTE.forward.val ch N = ceilDiv ch N := by
  gen_eq [Gen.diana_latency.FloorSTE.forward.val, ceilDiv]
/-- DIANA `_floor` -/
theorem diana_floor_eq (ch N : ℚ) : Gen.diana_latency._floor.val ch N = ceilDiv ch N := by
  gen_eq [Gen.diana_latency._floor.val, ceilDiv]
/-- DIANA `GateSTE.forward(ch, th)` is `[th ≤ ch]` -/
theorem diana_GateSTE_eq (ch th : ℚ) : Gen.diana_latency.GateSTE.forward.val ch th = gate ch th := by
  gen_eq [Gen.diana_latency.GateSTE.forward.val, gate]
/-- NE16 `DivAndCeilSTE.forward(a, b)` is `⌊(a - 1) / b⌋ + 1` -/
theorem ne16_DivAndCeilSTE_eq (a b : ℚ) : Gen.ne16_latency.DivAndCeilSTE.forward.val a b = divAndCeil a b := by
  gen_eq [Gen.ne16_latency.DivAndCeilSTE.forward.val, divAndCeil]
/-- NE16 `FloorDivideSTE.forward(a, b)` is `⌊a / b⌋` -/
theorem ne16_FloorDivideSTE_eq (a b : ℚ) : Gen.ne16_latency.FloorDivideSTE.forward.val a b = floorDiv a b := by
  gen_eq [Gen.ne16_latency.FloorDivideSTE.forward.val, floorDiv]
/-- NE16 `ModuloSTE.forward(a, b)` is `a - b ⌊a / b⌋` -/
theorem ne16_ModuloSTE_eq (a b : ℚ) : Gen.ne16_latency.ModuloSTE.forward.val a b = pmod a b := by
  gen_eq [Gen.ne16_latency.ModuloSTE.forward.val, pmod]

/-! straight-through gradients (`backward`): the incoming gradient goes to the count unchanged,
nothing (`None`) to the divisor / threshold -/

theorem gap8_FloorSTE_backward (ch N g : ℚ) : Gen.gap8_latency.FloorSTE.backward ch N g = [some g, none] := rfl
theorem diana_FloorSTE_backward (ch N g : ℚ) : Gen.diana_latency.FloorSTE.backward ch N g = [some g, none] := rfl
theorem ne16_DivAndCeilSTE_backward (a b g : ℚ) : Gen.ne16_latency.DivAndCeilSTE.backward a b g = [some g, none] := rfl
theorem ne16_FloorDivideSTE_backward (a b g : ℚ) : Gen.ne16_latency.FloorDivideSTE.backward a b g = [some g, none] := rfl
theorem ne16_ModuloSTE_backward (a b g : ℚ) : Gen.ne16_latency.ModuloSTE.backward a b g = [some g, none] := rfl
theorem diana_ComputeOxUnrollSTE_backward (a b c d g : ℚ) :
    Gen.diana_latency.ComputeOxUnrollSTE.backward a b c d g = [some g, none, none, none] := rfl
/-- `GateSTE.backward`: a smoothed step, `1 / (g + 1)` strictly between 0 and the threshold, 0 elsewhere -/
theorem diana_GateSTE_backward (ch th g : ℚ) : Gen.diana_latency.GateSTE.backward ch th g =
    [some (if th ≤ ch then 0 else if ch ≤ 0 then 0 else 1 / (g + 1)), none] := by
  gen_eq [Gen.diana_latency.GateSTE.backward]

/-! `plinio/cost/params.py` -/
theorem paramsConv1d_eq (s : S) : Gen.params._params_conv1d_generic.val s = paramsConv1d s := by
  gen_eq [Gen.params._params_conv1d_generic.val, paramsConv1d, k, o, bias]
theorem paramsConv2d_eq (s : S) : Gen.params._params_conv2d_generic.val s = paramsConv2d s := by
  gen_eq [Gen.params._params_conv2d_generic.val, paramsConv2d, k, o, bias]
theorem paramsConv1dDw_eq (s : S) : Gen.params._params_conv1d_dw.val s = paramsConv1dDw s := by
  gen_eq [Gen.params._params_conv1d_dw.val, paramsConv1dDw, k, o, bias]
theorem paramsConv2dDw_eq (s : S) : Gen.params._params_conv2d_dw.val s = paramsConv2dDw s := by
  gen_eq [Gen.params._params_conv2d_dw.val, paramsConv2dDw, k, o, bias]
theorem paramsLinear_eq (s : S) : Gen.params._params_linear.val s = paramsLinear s := by
  gen_eq [Gen.params._params_linear.val, paramsLinear, k, o, bias]

/-! `plinio/cost/params_no_bias.py` -/
theorem paramsNbConv1d_eq (s : S) : Gen.params_no_bias._params_conv1d_generic.val s = paramsNbConv1d s := by
  gen_eq [Gen.params_no_bias._params_conv1d_generic.val, paramsNbConv1d, k, o, bias]
theorem paramsNbConv2d_eq (s : S) : Gen.params_no_bias._params_conv2d_generic.val s = paramsNbConv2d s := by
  gen_eq [Gen.params_no_bias._params_conv2d_generic.val, paramsNbConv2d, k, o, bias]
theorem paramsNbConv1dDw_eq (s : S) : Gen.params_no_bias._params_conv1d_dw.val s = paramsNbConv1dDw s := by
  gen_eq [Gen.params_no_bias._params_conv1d_dw.val, paramsNbConv1dDw, k, o, bias]
theorem paramsNbConv2dDw_eq (s : S) : Gen.params_no_bias._params_conv2d_dw.val s = paramsNbConv2dDw s := by
  gen_eq [Gen.params_no_bias._params_conv2d_dw.val, paramsNbConv2dDw, k, o, bias]
theorem paramsNbLinear_eq (s : S) : Gen.params_no_bias._params_linear.val s = paramsNbLinear s := by
  gen_eq [Gen.params_no_bias._params_linear.val, paramsNbLinear, k, o, bias]

/-! `plinio/cost/params_bit.py` -/
theorem paramsBitConv1d_eq (s : S) : Gen.params_bit._params_bit_conv1d_generic.val s = paramsBitConv1d s := by
  gen_eq [Gen.params_bit._params_bit_conv1d_generic.val, paramsBitConv1d, k, o, bias]
theorem paramsBitConv2d_eq (s : S) : Gen.params_bit._params_bit_conv2d_generic.val s = paramsBitConv2d s := by
  gen_eq [Gen.params_bit._params_bit_conv2d_generic.val, paramsBitConv2d, k, o, bias]
theorem paramsBitConv1dDw_eq (s : S) : Gen.params_bit._params_bit_conv1d_dw.val s = paramsBitConv1dDw s := by
  gen_eq [Gen.params_bit._params_bit_conv1d_dw.val, paramsBitConv1dDw, k, o, bias]
theorem paramsBitConv2dDw_eq (s : S) : Gen.params_bit._params_bit_conv2d_dw.val s = paramsBitConv2dDw s := by
  gen_eq [Gen.params_bit._params_bit_conv2d_dw.val, paramsBitConv2dDw, k, o, bias]
theorem paramsBitLinear_eq (s : S) : Gen.params_bit._params_bit_linear.val s = paramsBitLinear s := by
  gen_eq [Gen.params_bit._params_bit_linear.val, paramsBitLinear, k, o, bias]

/-! `plinio/cost/ops.py` -/
theorem opsConv1d_eq (s : S) : Gen.ops._ops_conv1d_generic.val s = opsConv1d s := by
  gen_eq [Gen.ops._ops_conv1d_generic.val, opsConv1d, paramsConv1d, k, o, bias]
theorem opsConv2d_eq (s : S) : Gen.ops._ops_conv2d_generic.val s = opsConv2d s := by
  gen_eq [Gen.ops._ops_conv2d_generic.val, opsConv2d, paramsConv2d, k, o, bias]
theorem opsConv1dDw_eq (s : S) : Gen.ops._ops_conv1d_dw.val s = opsConv1dDw s := by
  gen_eq [Gen.ops._ops_conv1d_dw.val, opsConv1dDw, paramsConv1dDw, k, o, bias]
theorem opsConv2dDw_eq (s : S) : Gen.ops._ops_conv2d_dw.val s = opsConv2dDw s := by
  gen_eq [Gen.ops._ops_conv2d_dw.val, opsConv2dDw, paramsConv2dDw, k, o, bias]
theorem opsLinear_eq (s : S) : Gen.ops._ops_linear_generic.val s = opsLinear s := by
  gen_eq [Gen.ops._ops_linear_generic.val, opsLinear, paramsLinear, k, o, bias]

/-! `plinio/cost/ops_no_bias.py` -/
theorem opsNbConv1d_eq (s : S) : Gen.ops_no_bias._ops_conv1d_generic.val s = opsNbConv1d s := by
  gen_eq [Gen.ops_no_bias._ops_conv1d_generic.val, opsNbConv1d, paramsNbConv1d, k, o, bias]
theorem opsNbConv2d_eq (s : S) : Gen.ops_no_bias._ops_conv2d_generic.val s = opsNbConv2d s := by
  gen_eq [Gen.ops_no_bias._ops_conv2d_generic.val, opsNbConv2d, paramsNbConv2d, k, o, bias]
theorem opsNbConv1dDw_eq (s : S) : Gen.ops_no_bias._ops_conv1d_dw.val s = opsNbConv1dDw s := by
  gen_eq [Gen.ops_no_bias._ops_conv1d_dw.val, opsNbConv1dDw, paramsNbConv1dDw, k, o, bias]
theorem opsNbConv2dDw_eq (s : S) : Gen.ops_no_bias._ops_conv2d_dw.val s = opsNbConv2dDw s := by
  gen_eq [Gen.ops_no_bias._ops_conv2d_dw.val, opsNbConv2dDw, paramsNbConv2dDw, k, o, bias]
theorem opsNbLinear_eq (s : S) : Gen.ops_no_bias._ops_linear_generic.val s = opsNbLinear s := by
  gen_eq [Gen.ops_no_bias._ops_linear_generic.val, opsNbLinear, paramsNbLinear, k, o, bias]

/-! `plinio/cost/ops_bit.py` -/
theorem opsBitConv1d_eq (s : S) : Gen.ops_bit._ops_bit_conv1d_generic.val s = opsBitConv1d s := by
  gen_eq [Gen.ops_bit._ops_bit_conv1d_generic.val, opsBitConv1d, paramsBitConv1d, k, o, bias]
theorem opsBitConv2d_eq (s : S) : Gen.ops_bit._ops_bit_conv2d_generic.val s = opsBitConv2d s := by
  gen_eq [Gen.ops_bit._ops_bit_conv2d_generic.val, opsBitConv2d, paramsBitConv2d, k, o, bias]
theorem opsBitConv1dDw_eq (s : S) : Gen.ops_bit._ops_bit_conv1d_dw.val s = opsBitConv1dDw s := by
  gen_eq [Gen.ops_bit._ops_bit_conv1d_dw.val, opsBitConv1dDw, paramsBitConv1dDw, k, o, bias]
theorem opsBitConv2dDw_eq (s : S) : Gen.ops_bit._ops_bit_conv2d_dw.val s = opsBitConv2dDw s := by
  gen_eq [Gen.ops_bit._ops_bit_conv2d_dw.val, opsBitConv2dDw, paramsBitConv2dDw, k, o, bias]
theorem opsBitLinear_eq (s : S) : Gen.ops_bit._ops_bit_linear.val s = opsBitLinear s := by
  gen_eq [Gen.ops_bit._ops_bit_linear.val, opsBitLinear, paramsBitLinear, k, o, bias]

/-! `plinio/cost/gap8_latency.py` -/
theorem gap8Conv2d_eq (s : S) : Gen.gap8_latency._gap8_latency_conv2d_generic.val s = gap8Conv2d s := by
  gen_eq [Gen.gap8_latency._gap8_latency_conv2d_generic.val, gap8Conv2d, Gen.gap8_latency.FloorSTE.fwdL,
    gap8_FloorSTE_eq, gap8_floor_eq, k, o]
theorem gap8Conv2dDw_eq (s : S) : Gen.gap8_latency._gap8_latency_conv2d_dw.val s = gap8Conv2dDw s := by
  gen_eq [Gen.gap8_latency._gap8_latency_conv2d_dw.val, gap8Conv2dDw, Gen.gap8_latency.FloorSTE.fwdL,
    gap8_FloorSTE_eq, gap8_floor_eq, k, o]
theorem gap8Linear_eq (s : S) : Gen.gap8_latency._gap8_latency_linear.val s = gap8Linear s := by
  gen_eq [Gen.gap8_latency._gap8_latency_linear.val, gap8Linear, Gen.gap8_latency.FloorSTE.fwdL,
    gap8_FloorSTE_eq, gap8_floor_eq, k, o]

/-! `plinio/cost/mpic_latency.py`, `mpic_energy.py` -/

/-- the look-up table of the code (`1/6.5`, …, read as exact decimals) is the inverse of the paper's
MACs/cycle table, 0 for 0-bit weights, and has no entry outside {2,4,8} × {0,2,4,8} -/
theorem mpic_lut_eq (a w : ℚ) : Gen.mpic_latency._mpic_lut.val a w = mpicLut a w := by
  have key : ∀ a' ∈ [(2:ℚ), 4, 8], ∀ w' ∈ [(0:ℚ), 2, 4, 8],
      Gen.mpic_latency._mpic_lut.val a' w' = mpicLut a' w' := by decide +kernel
  have gk : ∀ r ∈ Gen.mpic_latency._mpic_lut._MPIC_LUT, r.1 ∈ [(2:ℚ), 4, 8] ∧ ∀ e ∈ r.2, e.1 ∈ [(0:ℚ), 2, 4, 8] := by
    decide +kernel
  have sk : ∀ r ∈ macsPerCycle, r.1 ∈ [(2:ℚ), 4, 8] ∧ ∀ e ∈ r.2, e.1 ∈ [(0:ℚ), 2, 4, 8] := by
    decide +kernel
  by_cases ha : a ∈ [(2:ℚ), 4, 8]
  · by_cases hw : w ∈ [(0:ℚ), 2, 4, 8]
    · exact key a ha w hw
    · have h1 : CostNum.lut2? Gen.mpic_latency._mpic_lut._MPIC_LUT a w = none :=
        lut2?_none (fun r hr _ e he hb => hw (hb ▸ (gk r hr).2 e he))
      have h2 : CostNum.lut2? macsPerCycle a w = none :=
        lut2?_none (fun r hr _ e he hb => hw (hb ▸ (sk r hr).2 e he))
      have hw0 : w ≠ 0 := fun h => hw (by simp [h])
      simp only [Gen.mpic_latency._mpic_lut.val, CostNum.lut2_rat, h1, mpicLut, mpicLut?, h2, hw0]
      split_ifs <;> rfl
  · have h1 : CostNum.lut2? Gen.mpic_latency._mpic_lut._MPIC_LUT a w = none :=
      lut2?_none (fun r hr hra _ _ _ => ha (hra ▸ (gk r hr).1))
    have ha' : ¬ (a = 2 ∨ a = 4 ∨ a = 8) := fun h => ha (by simpa using h)
    simp only [Gen.mpic_latency._mpic_lut.val, CostNum.lut2_rat, h1, mpicLut, mpicLut?, ha']
    rfl
/-- cycles → joules: 250 MHz, mean of the four measured powers in mW -/
theorem mpic_energy_eq (c : ℚ) : Gen.mpic_energy._energy_from_cycles_mpic.val c = mpicEnergy c := by
  gen_eq [Gen.mpic_energy._energy_from_cycles_mpic.val, mpicEnergy, CostNum.mean, List.foldl, List.length]
theorem mpicLatConv1d_eq (s : S) : Gen.mpic_latency._mpic_latency_conv1d_generic.val s = mpicLatConv1d s := by
  gen_eq [Gen.mpic_latency._mpic_latency_conv1d_generic.val, mpicLatConv1d, opsConv1d_eq, mpic_lut_eq]
theorem mpicLatConv2d_eq (s : S) : Gen.mpic_latency._mpic_latency_conv2d_generic.val s = mpicLatConv2d s := by
  gen_eq [Gen.mpic_latency._mpic_latency_conv2d_generic.val, mpicLatConv2d, opsConv2d_eq, mpic_lut_eq]
theorem mpicLatConv1dDw_eq (s : S) : Gen.mpic_latency._mpic_latency_conv1d_dw.val s = mpicLatConv1dDw s := by
  gen_eq [Gen.mpic_latency._mpic_latency_conv1d_dw.val, mpicLatConv1dDw, opsConv1dDw_eq, mpic_lut_eq]
theorem mpicLatConv2dDw_eq (s : S) : Gen.mpic_latency._mpic_latency_conv2d_dw.val s = mpicLatConv2dDw s := by
  gen_eq [Gen.mpic_latency._mpic_latency_conv2d_dw.val, mpicLatConv2dDw, opsConv2dDw_eq, mpic_lut_eq]
theorem mpicLatLinear_eq (s : S) : Gen.mpic_latency._mpic_latency_linear.val s = mpicLatLinear s := by
  gen_eq [Gen.mpic_latency._mpic_latency_linear.val, mpicLatLinear, opsLinear_eq, mpic_lut_eq]
theorem mpicEnConv1d_eq (s : S) : Gen.mpic_energy._mpic_energy_conv1d_generic.val s = mpicEnConv1d s := by
  gen_eq [Gen.mpic_energy._mpic_energy_conv1d_generic.val, mpicEnConv1d, mpicLatConv1d_eq, mpic_energy_eq]
theorem mpicEnConv2d_eq (s : S) : Gen.mpic_energy._mpic_energy_conv2d_generic.val s = mpicEnConv2d s := by
  gen_eq [Gen.mpic_energy._mpic_energy_conv2d_generic.val, mpicEnConv2d, mpicLatConv2d_eq, mpic_energy_eq]
theorem mpicEnConv1dDw_eq (s : S) : Gen.mpic_energy._mpic_energy_conv1d_dw.val s = mpicEnConv1dDw s := by
  gen_eq [Gen.mpic_energy._mpic_energy_conv1d_dw.val, mpicEnConv1dDw, mpicLatConv1dDw_eq, mpic_energy_eq]
theorem mpicEnConv2dDw_eq (s : S) : Gen.mpic_energy._mpic_energy_conv2d_dw.val s = mpicEnConv2dDw s := by
  gen_eq [Gen.mpic_energy._mpic_energy_conv2d_dw.val, mpicEnConv2dDw, mpicLatConv2dDw_eq, mpic_energy_eq]
theorem mpicEnLinear_eq (s : S) : Gen.mpic_energy._mpic_energy_linear.val s = mpicEnLinear s := by
  gen_eq [Gen.mpic_energy._mpic_energy_linear.val, mpicEnLinear, mpicLatLinear_eq, mpic_energy_eq]

/-! `plinio/cost/diana_latency.py` -/

theorem dianaDigital_eq (s : S) : Gen.diana_latency._digital_cycles.val s = dianaDigital s := by
  gen_eq [Gen.diana_latency._digital_cycles.val, dianaDigital, Gen.diana_latency.FloorSTE.fwdL,
    Gen.diana_latency.GateSTE.fwdL, diana_GateSTE_eq, diana_FloorSTE_eq, diana_floor_eq, k, o]
/-- at the default clock; for `groups ≠ 1` the Python raises -/
theorem dianaAnalog_eq (s : S) (h : s.groups = 1) :
    Gen.diana_latency._analog_cycles.val s 260000000 = dianaAnalog s := by
  gen_eq [Gen.diana_latency._analog_cycles.val, dianaAnalog, Gen.diana_latency.FloorSTE.fwdL,
    Gen.diana_latency.GateSTE.fwdL, diana_GateSTE_eq, diana_FloorSTE_eq, diana_floor_eq, k, o, Hand.oxUnrollL]
/-- wherever the Python returns a number -/
theorem dianaConv2d_eq (s : S) (hok : Gen.diana_latency._diana_latency_conv2d_generic.ok s = true) :
    Gen.diana_latency._diana_latency_conv2d_generic.val s = dianaConv2d s := by
  rw [diana_conv_ok] at hok
  have e : Gen.diana_latency._diana_latency_conv2d_generic.val s =
      if s.w_precision = 2 ∧ dianaAPrec s = 8 then Gen.diana_latency._analog_cycles.val s 260000000
      else if s.w_precision = 8 ∧ dianaAPrec s = 8 then Gen.diana_latency._digital_cycles.val s else 0 := by
    gen_eq [Gen.diana_latency._diana_latency_conv2d_generic.val, dianaAPrec]
  rw [e]; unfold dianaConv2d
  split_ifs at hok ⊢ with h1 h2
  · exact dianaAnalog_eq s (analog_ok_groups s hok)
  · exact dianaDigital_eq s
theorem dianaLinear_eq (s : S) (hok : Gen.diana_latency._diana_latency_linear.ok s = true) :
    Gen.diana_latency._diana_latency_linear.val s = dianaLinear s :=
  dianaConv2d_eq (dianaLinearSpec s) hok

/-! `plinio/cost/ne16_latency.py` (wrappers translated, class hand-modelled in `Model/NE16.lean`) -/

theorem ne16Conv2d_eq (s : S) : Gen.ne16_latency._ne16_latency_conv2d_generic.val s = ne16Conv2d s := by
  gen_eq [Gen.ne16_latency._ne16_latency_conv2d_generic.val, ne16Conv2d, NE16.generalized, k, o]
theorem ne16Conv2dDw_eq (s : S) : Gen.ne16_latency._ne16_latency_conv2d_dw.val s = ne16Conv2dDw s := by
  gen_eq [Gen.ne16_latency._ne16_latency_conv2d_dw.val, ne16Conv2dDw, NE16.generalized, k, o]
theorem ne16Linear_eq (s : S) : Gen.ne16_latency._ne16_latency_linear.val s = ne16Linear s := by
  gen_eq [Gen.ne16_latency._ne16_latency_linear.val, ne16Linear, NE16.generalized, k, o]

/-! ## 2. Every registered cost function -/

open Lean.Parser.Tactic in
/-- rewrite every generated function into its closed form (`hs`: the `ok` hypotheses at hand) -/
macro "to_spec" "[" hs:simpLemma,* "]" : tactic => `(tactic| simp only [$hs,*, paramsConv1d_eq, paramsConv2d_eq, paramsConv1dDw_eq, paramsConv2dDw_eq, paramsLinear_eq, paramsNbConv1d_eq, paramsNbConv2d_eq, paramsNbConv1dDw_eq, paramsNbConv2dDw_eq, paramsNbLinear_eq, paramsBitConv1d_eq, paramsBitConv2d_eq, paramsBitConv1dDw_eq, paramsBitConv2dDw_eq, paramsBitLinear_eq, opsConv1d_eq, opsConv2d_eq, opsConv1dDw_eq, opsConv2dDw_eq, opsLinear_eq, opsNbConv1d_eq, opsNbConv2d_eq, opsNbConv1dDw_eq, opsNbConv2dDw_eq, opsNbLinear_eq, opsBitConv1d_eq, opsBitConv2d_eq, opsBitConv1dDw_eq, opsBitConv2dDw_eq, opsBitLinear_eq, mpicLatConv1d_eq, mpicLatConv2d_eq, mpicLatConv1dDw_eq, mpicLatConv2dDw_eq, mpicLatLinear_eq, mpicEnConv1d_eq, mpicEnConv2d_eq, mpicEnConv1dDw_eq, mpicEnConv2dDw_eq, mpicEnLinear_eq, gap8Conv2d_eq, gap8Conv2dDw_eq, gap8Linear_eq, ne16Conv2d_eq, ne16Conv2dDw_eq, ne16Linear_eq,
  dianaConv2d_eq, dianaLinear_eq])

set_option hygiene false in
/-- one goal per registration of `Gen.registry` -/
macro "registry_cases" : tactic => `(tactic| (
  intro e he
  simp only [Gen.registry, List.mem_cons, List.not_mem_nil, or_false] at he
  repeat' (rcases he with rfl | he)
  all_goals (try subst he)
  all_goals dsimp only))

/-- **Finite.** Every registered cost function returns a number (does not raise, does not divide by
zero) on every well-formed layer description with supported precisions / kernel / groups. -/
theorem registered_accepts : ∀ e ∈ Gen.registry (α := ℚ), ∀ s : S,
    WF e.layer s → Supported e.spec e.constr e.layer s → e.ok s = true := by
  registry_cases
  all_goals exact fun s hwf hs => OkLaws.accepts s hwf hs

/-- **Rejects instead of extrapolating.** Whatever a registered function accepts is supported: the
MPIC models only activation bits {2,4,8} × weight bits {0,2,4,8}; NE16 only 8-bit activations and
3×3 / 1×1 (depthwise: 3×3) kernels (or pruned weights); DIANA only (w,a) = (2,8) with `groups = 1`
(analog) or (8,8) (digital). -/
theorem registered_rejects : ∀ e ∈ Gen.registry (α := ℚ), ∀ s : S,
    e.ok s = true → Supported e.spec e.constr e.layer s := by
  registry_cases
  all_goals exact fun s hok => OkLaws.rejects s hok

/-- **Non-negative.** -/
theorem registered_nonneg : ∀ e ∈ Gen.registry (α := ℚ), ∀ s : S,
    Valid s → e.ok s = true → 0 ≤ e.val s := by
  registry_cases
  all_goals
    intro s hv hok
    have hs := OkLaws.rejects s hok
    to_spec [hok]
    exact Laws.nonneg s hv hs

/-- **Strictly positive for a non-empty layer** of a kind the model covers at non-zero bit-widths. -/
theorem registered_pos : ∀ e ∈ Gen.registry (α := ℚ), ∀ s : S,
    NonEmpty s → WF e.layer s → e.ok s = true → 0 < e.val s := by
  registry_cases
  all_goals
    intro s hn hwf hok
    have hs := OkLaws.rejects s hok
    to_spec [hok]
    exact Laws.pos s hn hwf hs

/-- **Monotone in the layer size.** More input channels, output channels (features), a larger kernel,
a larger output resolution never lower the cost — at fixed precisions, for every rational size.
(`groups` is held fixed for the unconstrained patterns; the depthwise patterns do not read it, so
there in = out = groups may grow together.) -/
theorem registered_mono_size : ∀ e ∈ Gen.registry (α := ℚ), ∀ s s' : S,
    Valid s → SizeLe s s' → (e.constr = "" → s.groups = s'.groups) →
    e.ok s = true → e.ok s' = true → e.val s ≤ e.val s' := by
  registry_cases
  all_goals
    intro s s' hv h hg hok hok'
    have hs := OkLaws.rejects s hok
    have hs' := OkLaws.rejects s' hok'
    to_spec [hok, hok']
    exact Laws.mono s s' hv h hg hs hs'

/-- **Monotone in the bit-widths** for the models in which the bit-width scales the work (bit-size,
bit-operations, MPIC, NE16). -/
theorem registered_mono_bits : ∀ e ∈ Gen.registry (α := ℚ), bitAware e.spec → ∀ s s' : S,
    Valid s → Valid s' → BitsLe s s' → e.ok s = true → e.ok s' = true → e.val s ≤ e.val s' := by
  registry_cases
  all_goals
    intro hb s s' hv hv' h hok hok'
    first
      | (have hs := OkLaws.rejects s hok
         have hs' := OkLaws.rejects s' hok'
         to_spec [hok, hok']
         exact BitLaws.mono_bits s s' hv hv' h hs hs')
      | simp [bitAware] at hb

/-! ## 3. Rounding helpers: exact on ℕ, between floor and ceiling and monotone on relaxed counts -/

/-- `FloorSTE` / `_floor` (gap8, DIANA) on natural numbers: the exact ceiling `⌈ch / N⌉` -/
theorem floorSTE_nat (ch N : ℕ) (hN : 0 < N) :
    Gen.gap8_latency.FloorSTE.forward.val (ch : ℚ) (N : ℚ) = (⌈(ch : ℚ) / N⌉ : ℚ) ∧
    Gen.gap8_latency.FloorSTE.forward.val (ch : ℚ) (N : ℚ) = ((ch + N - 1) / N : ℕ) := by
  rw [gap8_FloorSTE_eq]; exact ⟨ceilDiv_nat_eq_ceil ch N hN, ceilDiv_nat ch N hN⟩
/-- on relaxed (fractional) channel counts `FloorSTE` is integer valued, lies between the floor and
the ceiling of the exact quotient, and is monotone.  (It is *not* the ceiling there: 4.5 / 4 ↦ 1.) -/
theorem floorSTE_relaxed (ch ch' N : ℚ) (hN : 1 ≤ N) (h : ch ≤ ch') :
    (∃ z : ℤ, Gen.gap8_latency.FloorSTE.forward.val ch N = z) ∧
    (⌊ch / N⌋ : ℚ) ≤ Gen.gap8_latency.FloorSTE.forward.val ch N ∧
    Gen.gap8_latency.FloorSTE.forward.val ch N ≤ (⌈ch / N⌉ : ℚ) ∧
    Gen.gap8_latency.FloorSTE.forward.val ch N ≤ Gen.gap8_latency.FloorSTE.forward.val ch' N := by
  simp only [gap8_FloorSTE_eq]
  exact ⟨ceilDiv_isInt _ _, floor_le_ceilDiv hN, ceilDiv_le_ceil hN, ceilDiv_mono (by linarith) h⟩
/-- the reading of the property's "exact ceiling" that does not hold: on a relaxed count the helper
rounds 4.5 / 4 to 1, the ceiling is 2 -/
theorem floorSTE_relaxed_not_ceil :
    Gen.gap8_latency.FloorSTE.forward.val (9 / 2 : ℚ) 4 = 1 ∧ (⌈(9 / 2 : ℚ) / 4⌉ : ℚ) = 2 := by
  constructor
  · decide +kernel
  · have : ⌈(9 / 2 : ℚ) / 4⌉ = 2 := by rw [Int.ceil_eq_iff]; norm_num
    rw [this]; norm_num

/-- `DivAndCeilSTE` (NE16) on natural numbers: the exact ceiling `⌈a / b⌉` -/
theorem divAndCeilSTE_nat (a b : ℕ) (hb : 0 < b) :
    Gen.ne16_latency.DivAndCeilSTE.forward.val (a : ℚ) (b : ℚ) = (⌈(a : ℚ) / b⌉ : ℚ) := by
  rw [ne16_DivAndCeilSTE_eq]; exact divAndCeil_nat a b hb
/-- on relaxed counts: integer valued, between floor and ceiling, monotone -/
theorem divAndCeilSTE_relaxed (a a' b : ℚ) (hb : 1 ≤ b) (h : a ≤ a') :
    (∃ z : ℤ, Gen.ne16_latency.DivAndCeilSTE.forward.val a b = z) ∧
    (⌊a / b⌋ : ℚ) ≤ Gen.ne16_latency.DivAndCeilSTE.forward.val a b ∧
    Gen.ne16_latency.DivAndCeilSTE.forward.val a b ≤ (⌈a / b⌉ : ℚ) ∧
    Gen.ne16_latency.DivAndCeilSTE.forward.val a b ≤ Gen.ne16_latency.DivAndCeilSTE.forward.val a' b := by
  simp only [ne16_DivAndCeilSTE_eq]
  exact ⟨divAndCeil_isInt _ _, floor_le_divAndCeil hb, divAndCeil_le_ceil (by linarith),
    divAndCeil_mono (by linarith) h⟩

/-- `FloorDivideSTE` (NE16): the exact floor of the quotient for every rational argument, the integer
quotient on natural numbers; monotone -/
theorem floorDivideSTE_exact (a a' b : ℚ) (hb : 0 < b) (h : a ≤ a') :
    Gen.ne16_latency.FloorDivideSTE.forward.val a b = (⌊a / b⌋ : ℚ) ∧
    Gen.ne16_latency.FloorDivideSTE.forward.val a b ≤ Gen.ne16_latency.FloorDivideSTE.forward.val a' b := by
  simp only [ne16_FloorDivideSTE_eq]; exact ⟨rfl, floorDiv_mono hb h⟩
theorem floorDivideSTE_nat (a b : ℕ) :
    Gen.ne16_latency.FloorDivideSTE.forward.val (a : ℚ) (b : ℚ) = (a / b : ℕ) := by
  rw [ne16_FloorDivideSTE_eq]; exact floorDiv_nat a b

/-- `ModuloSTE` (NE16): the remainder on natural numbers; for every rational argument the unique
`m` with `0 ≤ m < b` and `a = b ⌊a / b⌋ + m` -/
theorem moduloSTE_nat (a b : ℕ) :
    Gen.ne16_latency.ModuloSTE.forward.val (a : ℚ) (b : ℚ) = (a % b : ℕ) := by
  rw [ne16_ModuloSTE_eq]; exact pmod_nat a b
theorem moduloSTE_relaxed (a b : ℚ) (hb : 0 < b) :
    0 ≤ Gen.ne16_latency.ModuloSTE.forward.val a b ∧ Gen.ne16_latency.ModuloSTE.forward.val a b < b ∧
    b * Gen.ne16_latency.FloorDivideSTE.forward.val a b + Gen.ne16_latency.ModuloSTE.forward.val a b = a := by
  simp only [ne16_ModuloSTE_eq, ne16_FloorDivideSTE_eq]
  exact ⟨pmod_nonneg hb, pmod_lt hb, floorDiv_add_pmod a b⟩

/-- `GateSTE` (DIANA): 1 from the threshold on, 0 below; monotone -/
theorem gateSTE_exact (ch ch' th : ℚ) (h : ch ≤ ch') :
    Gen.diana_latency.GateSTE.forward.val ch th = (if th ≤ ch then 1 else 0) ∧
    Gen.diana_latency.GateSTE.forward.val ch th ≤ Gen.diana_latency.GateSTE.forward.val ch' th := by
  simp only [diana_GateSTE_eq]; exact ⟨rfl, gate_mono h⟩

/-! ## 4. Depthwise = generic per group (size and operation counts); grouped = groups × per group -/

/-- `params`: depthwise = `groups` × generic on one group (1-D and 2-D) -/
theorem params_dw_eq_generic_per_group (s : S) (hd : IsDw s) :
    Gen.params._params_conv1d_dw.val s = s.groups * Gen.params._params_conv1d_generic.val (perGroup s) ∧
    Gen.params._params_conv2d_dw.val s = s.groups * Gen.params._params_conv2d_generic.val (perGroup s) := by
  obtain ⟨e1, e2⟩ := perGroup_channels hd
  rw [paramsConv1dDw_eq, paramsConv1d_eq, paramsConv2dDw_eq, paramsConv2d_eq]
  simp only [paramsConv1d, paramsConv1dDw, paramsConv2d, paramsConv2dDw, e1, e2, k_perGroup, o_perGroup, bias_perGroup,
    perGroup_w, perGroup_ip, perGroup_g, hd.1, hd.2.1]
  constructor <;> ring
/-- `params_no_bias`: depthwise = `groups` × generic on one group (1-D and 2-D) -/
theorem params_no_bias_dw_eq_generic_per_group (s : S) (hd : IsDw s) :
    Gen.params_no_bias._params_conv1d_dw.val s = s.groups * Gen.params_no_bias._params_conv1d_generic.val (perGroup s) ∧
    Gen.params_no_bias._params_conv2d_dw.val s = s.groups * Gen.params_no_bias._params_conv2d_generic.val (perGroup s) := by
  obtain ⟨e1, e2⟩ := perGroup_channels hd
  rw [paramsNbConv1dDw_eq, paramsNbConv1d_eq, paramsNbConv2dDw_eq, paramsNbConv2d_eq]
  simp only [paramsNbConv1d, paramsNbConv1dDw, paramsNbConv2d, paramsNbConv2dDw, e1, e2, k_perGroup, o_perGroup, bias_perGroup,
    perGroup_w, perGroup_ip, perGroup_g, hd.1, hd.2.1]
  constructor <;> ring
/-- `params_bit`: depthwise = `groups` × generic on one group (1-D and 2-D) -/
theorem params_bit_dw_eq_generic_per_group (s : S) (hd : IsDw s) :
    Gen.params_bit._params_bit_conv1d_dw.val s = s.groups * Gen.params_bit._params_bit_conv1d_generic.val (perGroup s) ∧
    Gen.params_bit._params_bit_conv2d_dw.val s = s.groups * Gen.params_bit._params_bit_conv2d_generic.val (perGroup s) := by
  obtain ⟨e1, e2⟩ := perGroup_channels hd
  rw [paramsBitConv1dDw_eq, paramsBitConv1d_eq, paramsBitConv2dDw_eq, paramsBitConv2d_eq]
  simp only [paramsBitConv1d, paramsBitConv1dDw, paramsBitConv2d, paramsBitConv2dDw, e1, e2, k_perGroup, o_perGroup, bias_perGroup,
    perGroup_w, perGroup_ip, perGroup_g, hd.1, hd.2.1]
  constructor <;> ring
/-- `ops`: depthwise = `groups` × generic on one group (1-D and 2-D) -/
theorem ops_dw_eq_generic_per_group (s : S) (hd : IsDw s) :
    Gen.ops._ops_conv1d_dw.val s = s.groups * Gen.ops._ops_conv1d_generic.val (perGroup s) ∧
    Gen.ops._ops_conv2d_dw.val s = s.groups * Gen.ops._ops_conv2d_generic.val (perGroup s) := by
  obtain ⟨e1, e2⟩ := perGroup_channels hd
  rw [opsConv1dDw_eq, opsConv1d_eq, opsConv2dDw_eq, opsConv2d_eq]
  simp only [opsConv1d, opsConv1dDw, opsConv2d, opsConv2dDw, paramsConv1d, paramsConv1dDw, paramsConv2d, paramsConv2dDw, e1, e2, k_perGroup, o_perGroup, bias_perGroup,
    perGroup_w, perGroup_ip, perGroup_g, hd.1, hd.2.1]
  constructor <;> ring
/-- `ops_no_bias`: depthwise = `groups` × generic on one group (1-D and 2-D) -/
theorem ops_no_bias_dw_eq_generic_per_group (s : S) (hd : IsDw s) :
    Gen.ops_no_bias._ops_conv1d_dw.val s = s.groups * Gen.ops_no_bias._ops_conv1d_generic.val (perGroup s) ∧
    Gen.ops_no_bias._ops_conv2d_dw.val s = s.groups * Gen.ops_no_bias._ops_conv2d_generic.val (perGroup s) := by
  obtain ⟨e1, e2⟩ := perGroup_channels hd
  rw [opsNbConv1dDw_eq, opsNbConv1d_eq, opsNbConv2dDw_eq, opsNbConv2d_eq]
  simp only [opsNbConv1d, opsNbConv1dDw, opsNbConv2d, opsNbConv2dDw, paramsNbConv1d, paramsNbConv1dDw, paramsNbConv2d, paramsNbConv2dDw, e1, e2, k_perGroup, o_perGroup, bias_perGroup,
    perGroup_w, perGroup_ip, perGroup_g, hd.1, hd.2.1]
  constructor <;> ring
/-- `ops_bit`: depthwise = `groups` × generic on one group (1-D and 2-D) -/
theorem ops_bit_dw_eq_generic_per_group (s : S) (hd : IsDw s) :
    Gen.ops_bit._ops_bit_conv1d_dw.val s = s.groups * Gen.ops_bit._ops_bit_conv1d_generic.val (perGroup s) ∧
    Gen.ops_bit._ops_bit_conv2d_dw.val s = s.groups * Gen.ops_bit._ops_bit_conv2d_generic.val (perGroup s) := by
  obtain ⟨e1, e2⟩ := perGroup_channels hd
  rw [opsBitConv1dDw_eq, opsBitConv1d_eq, opsBitConv2dDw_eq, opsBitConv2d_eq]
  simp only [opsBitConv1d, opsBitConv1dDw, opsBitConv2d, opsBitConv2dDw, paramsBitConv1d, paramsBitConv1dDw, paramsBitConv2d, paramsBitConv2dDw, e1, e2, k_perGroup, o_perGroup, bias_perGroup,
    perGroup_w, perGroup_ip, perGroup_g, hd.1, hd.2.1]
  constructor <;> ring
/-- `params`: a grouped convolution (any `groups ≠ 0`, channel multipliers included) costs `groups` ×
the convolution one group performs (1-D and 2-D) -/
theorem params_grouped_eq_per_group (s : S) (hg : s.groups ≠ 0) :
    Gen.params._params_conv1d_generic.val s = s.groups * Gen.params._params_conv1d_generic.val (perGroup s) ∧
    Gen.params._params_conv2d_generic.val s = s.groups * Gen.params._params_conv2d_generic.val (perGroup s) := by
  rw [paramsConv1d_eq, paramsConv1d_eq, paramsConv2d_eq, paramsConv2d_eq]
  simp only [paramsConv1d, paramsConv2d, paramsConv1dDw, paramsConv2dDw, k_perGroup, o_perGroup, bias_perGroup, perGroup_g, perGroup_ic, perGroup_oc]
  constructor <;> field_simp
/-- `params`: on a depthwise description the generic formula and the depthwise formula agree, so the
cost does not depend on which of the two patterns the layer is dispatched to -/
theorem params_generic_eq_dw_on_depthwise (s : S) (hd : IsDw s) :
    Gen.params._params_conv1d_generic.val s = Gen.params._params_conv1d_dw.val s ∧ Gen.params._params_conv2d_generic.val s = Gen.params._params_conv2d_dw.val s := by
  obtain ⟨h1, h2, h3⟩ := hd
  rw [paramsConv1d_eq, paramsConv1dDw_eq, paramsConv2d_eq, paramsConv2dDw_eq]
  simp only [paramsConv1d, paramsConv2d, paramsConv1dDw, paramsConv2dDw, h1, h2, div_self h3]
  constructor <;> ring
/-- `params_no_bias`: a grouped convolution (any `groups ≠ 0`, channel multipliers included) costs `groups` ×
the convolution one group performs (1-D and 2-D) -/
theorem params_no_bias_grouped_eq_per_group (s : S) (hg : s.groups ≠ 0) :
    Gen.params_no_bias._params_conv1d_generic.val s = s.groups * Gen.params_no_bias._params_conv1d_generic.val (perGroup s) ∧
    Gen.params_no_bias._params_conv2d_generic.val s = s.groups * Gen.params_no_bias._params_conv2d_generic.val (perGroup s) := by
  rw [paramsNbConv1d_eq, paramsNbConv1d_eq, paramsNbConv2d_eq, paramsNbConv2d_eq]
  simp only [paramsNbConv1d, paramsNbConv2d, paramsNbConv1dDw, paramsNbConv2dDw, k_perGroup, o_perGroup, bias_perGroup, perGroup_g, perGroup_ic, perGroup_oc]
  constructor <;> field_simp
/-- `params_no_bias`: on a depthwise description the generic formula and the depthwise formula agree, so the
cost does not depend on which of the two patterns the layer is dispatched to -/
theorem params_no_bias_generic_eq_dw_on_depthwise (s : S) (hd : IsDw s) :
    Gen.params_no_bias._params_conv1d_generic.val s = Gen.params_no_bias._params_conv1d_dw.val s ∧ Gen.params_no_bias._params_conv2d_generic.val s = Gen.params_no_bias._params_conv2d_dw.val s := by
  obtain ⟨h1, h2, h3⟩ := hd
  rw [paramsNbConv1d_eq, paramsNbConv1dDw_eq, paramsNbConv2d_eq, paramsNbConv2dDw_eq]
  simp only [paramsNbConv1d, paramsNbConv2d, paramsNbConv1dDw, paramsNbConv2dDw, h1, h2, div_self h3]
  constructor <;> ring
/-- `ops`: a grouped convolution (any `groups ≠ 0`, channel multipliers included) costs `groups` ×
the convolution one group performs (1-D and 2-D) -/
theorem ops_grouped_eq_per_group (s : S) (hg : s.groups ≠ 0) :
    Gen.ops._ops_conv1d_generic.val s = s.groups * Gen.ops._ops_conv1d_generic.val (perGroup s) ∧
    Gen.ops._ops_conv2d_generic.val s = s.groups * Gen.ops._ops_conv2d_generic.val (perGroup s) := by
  rw [opsConv1d_eq, opsConv1d_eq, opsConv2d_eq, opsConv2d_eq]
  simp only [opsConv1d, opsConv2d, opsConv1dDw, opsConv2dDw, paramsConv1d, paramsConv2d, paramsConv1dDw, paramsConv2dDw, k_perGroup, o_perGroup, bias_perGroup, perGroup_g, perGroup_ic, perGroup_oc]
  constructor <;> field_simp
/-- `ops`: on a depthwise description the generic formula and the depthwise formula agree, so the
cost does not depend on which of the two patterns the layer is dispatched to -/
theorem ops_generic_eq_dw_on_depthwise (s : S) (hd : IsDw s) :
    Gen.ops._ops_conv1d_generic.val s = Gen.ops._ops_conv1d_dw.val s ∧ Gen.ops._ops_conv2d_generic.val s = Gen.ops._ops_conv2d_dw.val s := by
  obtain ⟨h1, h2, h3⟩ := hd
  rw [opsConv1d_eq, opsConv1dDw_eq, opsConv2d_eq, opsConv2dDw_eq]
  simp only [opsConv1d, opsConv2d, opsConv1dDw, opsConv2dDw, paramsConv1d, paramsConv2d, paramsConv1dDw, paramsConv2dDw, h1, h2, div_self h3]
  constructor <;> ring
/-- `ops_no_bias`: a grouped convolution (any `groups ≠ 0`, channel multipliers included) costs `groups` ×
the convolution one group performs (1-D and 2-D) -/
theorem ops_no_bias_grouped_eq_per_group (s : S) (hg : s.groups ≠ 0) :
    Gen.ops_no_bias._ops_conv1d_generic.val s = s.groups * Gen.ops_no_bias._ops_conv1d_generic.val (perGroup s) ∧
    Gen.ops_no_bias._ops_conv2d_generic.val s = s.groups * Gen.ops_no_bias._ops_conv2d_generic.val (perGroup s) := by
  rw [opsNbConv1d_eq, opsNbConv1d_eq, opsNbConv2d_eq, opsNbConv2d_eq]
  simp only [opsNbConv1d, opsNbConv2d, opsNbConv1dDw, opsNbConv2dDw, paramsNbConv1d, paramsNbConv2d, paramsNbConv1dDw, paramsNbConv2dDw, k_perGroup, o_perGroup, bias_perGroup, perGroup_g, perGroup_ic, perGroup_oc]
  constructor <;> field_simp
/-- `ops_no_bias`: on a depthwise description the generic formula and the depthwise formula agree, so the
cost does not depend on which of the two patterns the layer is dispatched to -/
theorem ops_no_bias_generic_eq_dw_on_depthwise (s : S) (hd : IsDw s) :
    Gen.ops_no_bias._ops_conv1d_generic.val s = Gen.ops_no_bias._ops_conv1d_dw.val s ∧ Gen.ops_no_bias._ops_conv2d_generic.val s = Gen.ops_no_bias._ops_conv2d_dw.val s := by
  obtain ⟨h1, h2, h3⟩ := hd
  rw [opsNbConv1d_eq, opsNbConv1dDw_eq, opsNbConv2d_eq, opsNbConv2dDw_eq]
  simp only [opsNbConv1d, opsNbConv2d, opsNbConv1dDw, opsNbConv2dDw, paramsNbConv1d, paramsNbConv2d, paramsNbConv1dDw, paramsNbConv2dDw, h1, h2, div_self h3]
  constructor <;> ring

/-! ## 5. Tables and tiles -/

/-- the MPIC look-up table of the code is monotone in the weight bit-width and in the activation
bit-width (whole table, kernel evaluation) and positive for non-zero weight bit-widths -/
theorem mpic_lut_mono : ∀ a ∈ [(2:ℚ), 4, 8], ∀ w ∈ [(0:ℚ), 2, 4, 8], ∀ a' ∈ [(2:ℚ), 4, 8], ∀ w' ∈ [(0:ℚ), 2, 4, 8],
    a ≤ a' → w ≤ w' → Gen.mpic_latency._mpic_lut.val a w ≤ Gen.mpic_latency._mpic_lut.val a' w' := by
  decide +kernel
theorem mpic_lut_pos : ∀ a ∈ [(2:ℚ), 4, 8], ∀ w ∈ [(2:ℚ), 4, 8], 0 < Gen.mpic_latency._mpic_lut.val a w := by
  decide +kernel
/-- `_mpic_lut` raises exactly outside activation bits {2,4,8} × weight bits {0,2,4,8} -/
theorem mpic_lut_rejects (a w : ℚ) : Gen.mpic_latency._mpic_lut.ok a w = true ↔ mpicSupported a w :=
  mpic_lut_ok_iff a w

/-- the hand-written model of `Ne16PerfModel.latency` in closed form, for the three ways PLiNIO
instantiates the class: spatial tiles × ragged output-channel tiles -/
theorem ne16_latency_closed_form (wb h w ko ki : ℚ) :
    NE16.latency (⟨"conv", 3, 3, false, wb⟩ : NE16.Cfg ℚ) h w ko ki = ne16Lat3x3 wb h w ko ki ∧
    NE16.latency (⟨"conv", 1, 1, false, wb⟩ : NE16.Cfg ℚ) h w ko ki = ne16Lat1x1 h w ko ki ∧
    NE16.latency (⟨"conv", 3, 3, true, wb⟩ : NE16.Cfg ℚ) h w ko ki = ne16LatDw wb h w ko :=
  ⟨latency_3x3 wb h w ko ki, latency_1x1 wb h w ko ki, latency_dw wb h w ko ki⟩

/-- NE16 ragged tiles: `c ↦ ⌊c/K⌋·it K + [c mod K ≠ 0]·it (c mod K)` is monotone in the (rational)
channel count for every monotone non-negative per-tile latency — a partial tile is never cheaper
than none and never dearer than a full one -/
theorem ne16_ragged_mono (it : ℚ → ℚ) (hm : ∀ k k', 0 ≤ k → k ≤ k' → it k ≤ it k')
    (hp : ∀ k, 0 ≤ k → 0 ≤ it k) (K : ℚ) (hK : 0 < K) (c c' : ℚ) (hc : 0 ≤ c) (h : c ≤ c') :
    ragged it K c ≤ ragged it K c' := ragged_mono_c hm hp hK hc h
/-- on natural channel counts `ragged` is the familiar `(c / K)·it K + [c % K ≠ 0]·it (c % K)` -/
theorem ne16_ragged_nat (it : ℚ → ℚ) (K c : ℕ) :
    ragged it (K : ℚ) (c : ℚ) = (c / K : ℕ) * it K + if c % K = 0 then 0 else it ((c % K : ℕ) : ℚ) :=
  ragged_nat it K c
/-- the NE16 layer latencies are monotone in every size and in the weight bit-width -/
theorem ne16_latency_mono {wb wb' h h' w w' ko ko' ki ki' : ℚ} (hwb : 0 ≤ wb) (hwbb : wb ≤ wb') (hh : 0 ≤ h)
    (hhh : h ≤ h') (hw : 0 ≤ w) (hww : w ≤ w') (hko : 0 ≤ ko) (hkoo : ko ≤ ko') (hki : 0 ≤ ki) (hkii : ki ≤ ki') :
    ne16Lat3x3 wb h w ko ki ≤ ne16Lat3x3 wb' h' w' ko' ki' ∧
    ne16Lat1x1 h w ko ki ≤ ne16Lat1x1 h' w' ko' ki' ∧
    ne16LatDw wb h w ko ≤ ne16LatDw wb' h' w' ko' :=
  ⟨lat3x3_mono hwb hwbb hh hhh hw hww hko hkoo hki hkii, lat1x1_mono hh hhh hw hww hko hkoo hki hkii,
    latDw_mono hwb hwbb hh hhh hw hww hko hkoo⟩

/-- DIANA `ox_unroll` (hand model of `ComputeOxUnrollSTE.forward`) takes values in {1,2,4,8} and is
antitone in both channel counts and in the kernel size -/
theorem diana_ox_unroll_antitone {a a' b b' c c' d d' : ℚ} (ha : 0 ≤ a) (haa : a ≤ a') (hbb : b ≤ b')
    (hc : 0 ≤ c) (hcc : c ≤ c') (hd : 0 ≤ d) (hdd : d ≤ d') :
    Hand.oxUnroll a' b' c' d' ≤ Hand.oxUnroll a b c d ∧ Hand.oxUnroll a b c d ∈ [(1:ℚ), 2, 4, 8] :=
  ⟨oxUnroll_anti ha haa hbb hc hcc hd hdd, oxUnroll_mem a b c d⟩

/-! ## The hypotheses are satisfiable -/

example : Valid sample ∧ NonEmpty sample ∧ WF "Conv2d" sample := by
  refine ⟨⟨?_, ?_, ?_, ?_, ?_, ?_, ?_, ?_, ?_, getD_nonneg_of_all _ (by simp [sample]),
      getD_nonneg_of_all _ (by simp [sample])⟩,
    ⟨?_, ?_, ?_, ?_, ?_, ?_, ?_, ?_, ?_, fun i hi => by rw [sample_k i hi]; norm_num, fun i hi => sample_o i hi⟩, ?_⟩
  all_goals first | (simp only [sample]; norm_num; done) | simp [WF, sample]
/-- the sample layer is accepted by the restricted models and costs what the Python returns -/
example : Gen.ne16_latency._ne16_latency_conv2d_generic.ok sample = true ∧
    Gen.gap8_latency._gap8_latency_conv2d_generic.val sample = 3930 ∧
    Gen.diana_latency._diana_latency_conv2d_generic.val sample = 2997 / 8 := by
  decide +kernel
/-- a grouped convolution with channel multiplier, `Conv1d(4, 8, 3, groups = 4)` without bias: accepted
(`groups ≠ 0`, the guard `WF` now carries), charged `8 · (4/4) · 3 = 24` parameters, `IsDw` does not
hold, and it equals 4 × the one-group convolution `Conv1d(1, 2, 3)` -/
example :
    let g : S := { sample with in_channels := 4, out_channels := 8, groups := 4, kernel_size := [3],
                               output_shape := [1, 8, 9], hasBias := false }
    Gen.params._params_conv1d_generic.ok g = true ∧ Gen.params._params_conv1d_generic.val g = 24 ∧
    Gen.params._params_conv1d_generic.val (perGroup g) = 6 ∧ g.groups ≠ 0 ∧ g.out_channels ≠ g.groups := by
  decide +kernel
/-- with `groups = 0` the size / operation counts are not numbers (division by zero): the guard is needed -/
example : Gen.params._params_conv1d_generic.ok { sample with groups := 0, kernel_size := [3] } = false := by
  decide +kernel
/-- a strictly larger layer: premises of the monotonicity theorems hold with strict growth -/
example : SizeLe sample { sample with out_channels := 33, kernel_size := [3, 5] } := by
  refine ⟨le_rfl, by simp only [sample]; norm_num, le_rfl, le_rfl, rfl, ?_, rfl, fun _ => le_rfl, rfl, rfl, rfl, rfl,
    rfl, rfl⟩
  intro i
  match i with
  | 0 => simp [k, sample]
  | 1 => simp [k, sample]; norm_num
  | (n + 2) => simp [k, sample]

end PlinioVerif.C16
