import PlinioVerif.Props.C16
import PlinioVerif.Lemmas.PIT.Eff
import PlinioVerif.Model.CostDual
/-!
# C12 — cost is a differentiable, monotone function of the architecture only

Statements compose the masker model (`outEff`, `kEff`: what `get_modified_vars` hands over) with
**every** registered built-in cost function (`Gen.registry`, regenerated from `plinio/cost` on
every run; laws from C16).  "Architecture only" is structural: the description a layer hands to
a cost function (`conv1dSpec`, `conv2dSpec`, `linearSpec`) is built from the mask parameters, the
effective input width and static attributes — no weight, no activation occurs in it (tied to
the code by the weight-perturbation / input-change oracle of `harness/props/c12.py`).

The gradient clause is *partial*: autograd is modelled by the `Dual` reading of the same
definitions (`PlinioVerif/Model/CostDual.lean`), each `torch.autograd.Function` with the rule of
its translated `backward`; `alpha = 0` exactly is a stated exception (torch's `abs` has zero
sub-gradient there).
-/
namespace PlinioVerif.C12
open PlinioVerif PlinioVerif.PIT PlinioVerif.Spec

theorem outEff_nonneg (d : Bool) (C : ℕ) (α : ℕ → ℚ) : 0 ≤ outEff d C α := by
  unfold outEff
  apply list_sum_nonneg
  intro c _
  cases d
  · simp only [Bool.false_eq_true, if_false]; unfold thetaAlpha; exact ka_nonneg' C α c
  · simp only [if_true]; split <;> norm_num

theorem kEff_nonneg (d : Bool) (K : ℕ) (β γ : ℕ → ℚ) : 0 ≤ kEff d K β γ := by
  unfold kEff
  cases d
  · simp only [Bool.false_eq_true, if_false]
    apply list_sum_nonneg
    intro j _
    exact mul_nonneg (mul_nonneg (thetaGamma_nonneg _ _ _ _) (gammaNorm_nonneg _ _ _))
      (mul_nonneg (thetaBeta_nonneg _ _ _) (betaNorm_nonneg _))
  · simp only [if_true]; exact_mod_cast Nat.zero_le _

theorem outEff_mono (d : Bool) (C : ℕ) (α α' : ℕ → ℚ) (h : AbsLe α α') : outEff d C α ≤ outEff d C α' := by
  cases d
  · exact outEff_mono_cont C α α' h
  · exact outEff_mono_disc C α α' h

theorem kEff_mono (d : Bool) (K : ℕ) (β β' γ γ' : ℕ → ℚ) (hβ : AbsLe β β') (hγ : AbsLe γ γ') :
    kEff d K β γ ≤ kEff d K β' γ' := by
  cases d
  · exact kEff_mono_cont K β β' γ γ' hβ hγ
  · exact kEff_mono_disc K β β' γ γ' hβ hγ

theorem getD_singleton_nonneg (x : ℚ) (hx : 0 ≤ x) (i : ℕ) : 0 ≤ ([x] : List ℚ).getD i 0 := by
  cases i <;> simp [hx]

/-- **Raising the magnitude of any mask parameter of a PITConv1d never lowers any built-in cost**
(continuous and discrete evaluation; every registered cost function that accepts the layer),
nor does a wider input. -/
theorem pit_conv1d_cost_mono : ∀ e ∈ Gen.registry (α := ℚ),
    ∀ (d : Bool) (C K : ℕ) (cin cin' groups : ℚ) (out : List ℚ) (bias : Bool) (α α' β β' γ γ' : ℕ → ℚ),
    0 ≤ cin → cin ≤ cin' → 0 ≤ groups → (∀ i, 0 ≤ out.getD i 0) →
    AbsLe α α' → AbsLe β β' → AbsLe γ γ' →
    e.ok (conv1dSpec d C K cin groups out bias α β γ) = true →
    e.ok (conv1dSpec d C K cin' groups out bias α' β' γ') = true →
    e.val (conv1dSpec d C K cin groups out bias α β γ)
      ≤ e.val (conv1dSpec d C K cin' groups out bias α' β' γ') := by
  intro e he d C K cin cin' groups out bias α α' β β' γ γ' h0 hc hg hout hα hβ hγ hok hok'
  refine C16.registered_mono_size e he _ _ ?_ ?_ (fun _ => rfl) hok hok'
  · exact { in_channels := h0, out_channels := outEff_nonneg d C α, in_features := h0,
            out_features := outEff_nonneg d C α, groups := hg,
            w_precision := Or.inl rfl, in_precision := Or.inl rfl, a_precision := le_refl _,
            w_theta_alpha := le_refl _,
            kernel_size := fun i => getD_singleton_nonneg _ (kEff_nonneg d K β γ) i,
            output_shape := hout }
  · exact { in_channels := hc, out_channels := outEff_mono d C α α' hα, in_features := hc,
            out_features := outEff_mono d C α α' hα, kernel_len := rfl,
            kernel_size := fun i => by
              unfold Spec.k conv1dSpec
              cases i with
              | zero => simpa using kEff_mono d K β β' γ γ' hβ hγ
              | succ i => simp,
            output_len := rfl, output_shape := fun _ => le_refl _, w_precision := rfl,
            in_precision := rfl, a_precision := rfl, w_theta_alpha := rfl, hasBias := rfl,
            has_a_precision := rfl }

/-- the same for a PITConv2d (channel mask only) -/
theorem pit_conv2d_cost_mono : ∀ e ∈ Gen.registry (α := ℚ),
    ∀ (d : Bool) (C : ℕ) (cin cin' groups kx ky : ℚ) (out : List ℚ) (bias : Bool) (α α' : ℕ → ℚ),
    0 ≤ cin → cin ≤ cin' → 0 ≤ groups → 0 ≤ kx → 0 ≤ ky → (∀ i, 0 ≤ out.getD i 0) → AbsLe α α' →
    e.ok (conv2dSpec d C cin groups kx ky out bias α) = true →
    e.ok (conv2dSpec d C cin' groups kx ky out bias α') = true →
    e.val (conv2dSpec d C cin groups kx ky out bias α)
      ≤ e.val (conv2dSpec d C cin' groups kx ky out bias α') := by
  intro e he d C cin cin' groups kx ky out bias α α' h0 hc hg hkx hky hout hα hok hok'
  refine C16.registered_mono_size e he _ _ ?_ ?_ (fun _ => rfl) hok hok'
  · exact { in_channels := h0, out_channels := outEff_nonneg d C α, in_features := h0,
            out_features := outEff_nonneg d C α, groups := hg,
            w_precision := Or.inl rfl, in_precision := Or.inl rfl, a_precision := le_refl _,
            w_theta_alpha := le_refl _,
            kernel_size := fun i => by
              unfold Spec.k conv2dSpec
              match i with
              | 0 => simpa using hkx
              | 1 => simpa using hky
              | (i + 2) => simp,
            output_shape := hout }
  · exact { in_channels := hc, out_channels := outEff_mono d C α α' hα, in_features := hc,
            out_features := outEff_mono d C α α' hα, kernel_len := rfl,
            kernel_size := fun _ => le_refl _,
            output_len := rfl, output_shape := fun _ => le_refl _, w_precision := rfl,
            in_precision := rfl, a_precision := rfl, w_theta_alpha := rfl, hasBias := rfl,
            has_a_precision := rfl }

/-- … and for a PITLinear -/
theorem pit_linear_cost_mono : ∀ e ∈ Gen.registry (α := ℚ),
    ∀ (d : Bool) (C : ℕ) (cin cin' : ℚ) (out : List ℚ) (bias : Bool) (α α' : ℕ → ℚ),
    0 ≤ cin → cin ≤ cin' → (∀ i, 0 ≤ out.getD i 0) → AbsLe α α' →
    e.ok (linearSpec d C cin out bias α) = true → e.ok (linearSpec d C cin' out bias α') = true →
    e.val (linearSpec d C cin out bias α) ≤ e.val (linearSpec d C cin' out bias α') := by
  intro e he d C cin cin' out bias α α' h0 hc hout hα hok hok'
  refine C16.registered_mono_size e he _ _ ?_ ?_ (fun _ => rfl) hok hok'
  · exact { in_channels := h0, out_channels := outEff_nonneg d C α, in_features := h0,
            out_features := outEff_nonneg d C α, groups := by unfold linearSpec; norm_num,
            w_precision := Or.inl rfl, in_precision := Or.inl rfl, a_precision := le_refl _,
            w_theta_alpha := le_refl _,
            kernel_size := fun i => by unfold Spec.k linearSpec; simp,
            output_shape := hout }
  · exact { in_channels := hc, out_channels := outEff_mono d C α α' hα, in_features := hc,
            out_features := outEff_mono d C α α' hα, kernel_len := rfl,
            kernel_size := fun _ => le_refl _,
            output_len := rfl, output_shape := fun _ => le_refl _, w_precision := rfl,
            in_precision := rfl, a_precision := rfl, w_theta_alpha := rfl, hasBias := rfl,
            has_a_precision := rfl }

/-- **Setting every mask fully open yields the description — hence every cost — of the original
layer**: `out_channels = C`, `kernel_size = (K,)`, continuous and discrete. -/
theorem pit_open_cost_eq_seed (d : Bool) (C K : ℕ) (hK : 0 < K) (cin groups : ℚ) (out : List ℚ)
    (bias : Bool) :
    conv1dSpec d C K cin groups out bias (fun _ => 1) (fun _ => 1) (fun _ => 1)
      = conv1dSeedSpec C K cin groups out bias := by
  unfold conv1dSpec conv1dSeedSpec
  rw [outEff_open]
  cases d
  · rw [kEff_open_cont]
  · rw [kEff_open_disc K hK]

/-- **Finite and non-negative**: whenever a registered cost function accepts the layer -/
theorem pit_conv1d_cost_nonneg : ∀ e ∈ Gen.registry (α := ℚ),
    ∀ (d : Bool) (C K : ℕ) (cin groups : ℚ) (out : List ℚ) (bias : Bool) (α β γ : ℕ → ℚ),
    0 ≤ cin → 0 ≤ groups → (∀ i, 0 ≤ out.getD i 0) →
    e.ok (conv1dSpec d C K cin groups out bias α β γ) = true →
    0 ≤ e.val (conv1dSpec d C K cin groups out bias α β γ) := by
  intro e he d C K cin groups out bias α β γ h0 hg hout hok
  refine C16.registered_nonneg e he _ ?_ hok
  exact { in_channels := h0, out_channels := outEff_nonneg d C α, in_features := h0,
          out_features := outEff_nonneg d C α, groups := hg,
          w_precision := Or.inl rfl, in_precision := Or.inl rfl, a_precision := le_refl _,
          w_theta_alpha := le_refl _,
          kernel_size := fun i => getD_singleton_nonneg _ (kEff_nonneg d K β γ) i,
          output_shape := hout }

/-! ### gradients (straight-through reading) -/

theorem dual_sum_d (l : List Dual) : (Dual.sum l).d = (l.map (·.d)).sum := by
  unfold Dual.sum
  have : ∀ (acc : Dual), (l.foldl Dual.add acc).d = acc.d + (l.map (·.d)).sum := by
    induction l with
    | nil => intro acc; simp
    | cons x xs ih => intro acc; simp only [List.foldl_cons, ih, List.map_cons, List.sum_cons, Dual.add]; ring
  rw [this]; simp [Dual.const]

/-- derivative of one term of `out_features_eff` with respect to `alpha[i]` -/
theorem term_d (dsc : Bool) (C : ℕ) (α : ℕ → ℚ) (i c : ℕ) :
    (if dsc then Dual.binSTE (thetaAlphaD C (seedAt α i) c) else thetaAlphaD C (seedAt α i) c).d
      = if c = i ∧ c + 1 ≠ C then Dual.sgn (α c) else 0 := by
  unfold thetaAlphaD seedAt
  by_cases hk : c + 1 = C
  · cases dsc <;> simp [hk, Dual.const, Dual.binSTE]
  · by_cases hci : c = i
    · subst hci
      cases dsc <;> simp [hk, Dual.abs, Dual.binSTE]
    · cases dsc <;> simp [hk, hci, Dual.abs, Dual.binSTE]

/-- **`∂ out_features_eff / ∂ alpha[i] = sign(alpha[i])` for every element that is not the
keep-alive one, `0` for the keep-alive element — the same in continuous and discrete mode**
(the binarizer passes the gradient straight through).  Hence the gradient of any cost that
strictly increases with the output width is non-zero exactly on the trainable elements with
`alpha[i] ≠ 0`. -/
theorem dOutEff_eq (dsc : Bool) (C : ℕ) (α : ℕ → ℚ) (i : ℕ) :
    dOutEff dsc C α i = if i + 1 < C then Dual.sgn (α i) else 0 := by
  unfold dOutEff outEffD
  rw [dual_sum_d, List.map_map]
  have : ∀ c ∈ List.range C, ((fun x : Dual => x.d) ∘ fun c =>
      if dsc = true then Dual.binSTE (thetaAlphaD C (seedAt α i) c) else thetaAlphaD C (seedAt α i) c) c
        = (fun c => if c = i ∧ c + 1 ≠ C then Dual.sgn (α c) else 0) c := by
    intro c _; simp only [Function.comp]; exact term_d dsc C α i c
  rw [List.map_congr_left this]
  -- only the term c = i contributes
  have hsum : ∀ (n : ℕ), ((List.range n).map fun c => if c = i ∧ c + 1 ≠ C then Dual.sgn (α c) else 0).sum
      = if i < n ∧ i + 1 ≠ C then Dual.sgn (α i) else 0 := by
    intro n
    induction n with
    | zero => simp
    | succ n ih =>
      rw [List.range_succ, List.map_append, List.sum_append, ih]
      simp only [List.map_cons, List.map_nil, List.sum_cons, List.sum_nil, add_zero]
      by_cases hi : i < n
      · have : ¬ n = i := by omega
        simp [hi, this, Nat.lt_succ_of_lt hi]
      · by_cases hn : n = i
        · subst hn; simp
        · have : ¬ i < n + 1 := by omega
          simp [hi, hn, this]
  rw [hsum]
  by_cases h : i + 1 < C
  · have : i < C ∧ i + 1 ≠ C := ⟨by omega, by omega⟩
    simp [h, this]
  · by_cases h2 : i < C
    · have : i + 1 = C := by omega
      simp [h, this]
    · simp [h, h2]

theorem sgn_ne_zero (x : ℚ) (hx : x ≠ 0) : Dual.sgn x ≠ 0 := by
  unfold Dual.sgn
  split
  · norm_num
  · split
    · norm_num
    · exfalso; rename_i h1 h2; exact hx (le_antisymm (not_lt.mp h2) (not_lt.mp h1))

/-- non-zero on every trainable (non-keep-alive) element with a non-zero value, exactly zero on
the keep-alive element -/
theorem dOutEff_nonzero_iff (dsc : Bool) (C : ℕ) (α : ℕ → ℚ) (i : ℕ) :
    dOutEff dsc C α i ≠ 0 ↔ (i + 1 < C ∧ α i ≠ 0) := by
  rw [dOutEff_eq]
  constructor
  · intro h
    by_cases hi : i + 1 < C
    · refine ⟨hi, ?_⟩
      intro h0; rw [if_pos hi, h0] at h; simp [Dual.sgn] at h
    · rw [if_neg hi] at h; exact absurd rfl h
  · rintro ⟨hi, h0⟩; rw [if_pos hi]; exact sgn_ne_zero _ h0

/-- gradient of the `params` cost of a Conv1d with `g ≠ 0` groups with respect to `alpha[i]`, through
the generated cost function in the Dual reading: `sign(alpha[i]) · (cin/g·k + bias)` (the guard is
needed: the handler divides by `groups`) -/
theorem params_conv1d_grad_alpha (dsc : Bool) (C : ℕ) (α : ℕ → ℚ) (i : ℕ) (cin g k : ℚ) (hg : g ≠ 0)
    (bias : Bool) :
    (Gen.params._params_conv1d_generic.val (conv1dAlphaDual dsc C α i cin g k bias)).d
      = dOutEff dsc C α i * (cin / g * k + if bias then 1 else 0) := by
  unfold Gen.params._params_conv1d_generic.val dOutEff
  simp only [conv1dAlphaDual, LSpec.empty, CostNum.mul, CostNum.add, CostNum.div, CostNum.idx, CostNum.ofRat]
  cases bias <;> simp <;> ring

/-- the layers PIT searches have `groups = 1`: `sign(alpha[i]) · (cin·k + bias)` -/
theorem params_conv1d_grad_alpha_groups_one (dsc : Bool) (C : ℕ) (α : ℕ → ℚ) (i : ℕ) (cin k : ℚ) (bias : Bool) :
    (Gen.params._params_conv1d_generic.val (conv1dAlphaDual dsc C α i cin 1 k bias)).d
      = dOutEff dsc C α i * (cin * k + if bias then 1 else 0) := by
  rw [params_conv1d_grad_alpha dsc C α i cin 1 k one_ne_zero bias, div_one]

/-! ### non-vacuity -/

example : (Gen.params._params_conv1d_generic.val
    (conv1dAlphaDual true 4 (ofList [9/10, 1/5, -7/10, 1]) 2 6 2 3 true)).d = -10 := by decide +kernel

example : dOutEff true 4 (ofList [9/10, 1/5, -7/10, 1]) 2 = -1 ∧
    dOutEff false 4 (ofList [9/10, 1/5, -7/10, 1]) 3 = 0 := by decide +kernel

end PlinioVerif.C12
