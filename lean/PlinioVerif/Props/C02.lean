import PlinioVerif.Lemmas.MPS
/-!
# C02 — MPS export is bit-identical to the eval-mode mixed-precision model

Property theorems only.  The model is `PlinioVerif/Model/MPS.lean` (tied to `plinio/methods/mps` by
the correspondence of `harness/props/c02.py`): SSA programs of the grammar (input, conv2d incl.
depthwise, linear, fused BatchNorm, add, flatten, pooling/relu, output), the sharing of quantizer
objects (`labels`), the walk of `register_in_mps_quantizers` (`producer`, `inQ`), the export plan
(`planOf`), and the two networks `evalMPS` / `evalExport` over **abstract** quantizer functions
(`Sem V`: nothing is assumed about what a quantizer, a kernel or an element-wise op computes).

Carrier: tensors are elements of a module `V` over a semiring `R` of coefficients.  Over IEEE floats
`1·x + 0·y = x` needs `y` finite — the stated assumption of the check.
-/
namespace PlinioVerif.C02
open PlinioVerif.MPS

section
variable {R M : Type} [Semiring R] [AddCommMonoid M] [Module R M]

/-- **A one-hot weighted mix is the selected alternative** (any semiring of coefficients, any
module of values): `Σᵢ onehot(k)ᵢ • yᵢ = y_k`. -/
theorem onehot_mix (ys : List M) (k : ℕ) (hk : k < ys.length) :
    mix (onehot (R := R) ys.length k) ys = ys.getD k 0 :=
  mix_onehot ys k hk

/-- … in particular inside any semiring: `Σᵢ onehot(k)ᵢ · fᵢ = f_k`. -/
theorem onehot_mix_semiring (fs : List R) (k : ℕ) (hk : k < fs.length) :
    mix (onehot (R := R) fs.length k) fs = fs.getD k 0 :=
  mix_onehot fs k hk

end

/-- The selection is the **first maximal coefficient** (what `torch.argmax` returns when there is
no tie; generators exclude ties). -/
theorem argmax_is_first_max (α : List Rat) (h : α ≠ []) :
    argmax α < α.length ∧
    (∀ j, j < α.length → α.getD j 0 ≤ α.getD (argmax α) 0) ∧
    (∀ j, j < argmax α → α.getD j 0 < α.getD (argmax α) 0) :=
  ⟨argmax_lt α h, argmax_spec α h⟩

/-- The selection does not depend on the soft-max temperature: dividing every coefficient by
`T > 0` (more generally, any strictly increasing map) leaves the arg-max where it is. -/
theorem argmax_temperature_invariant (α : List Rat) (T : Rat) (hT : 0 < T) :
    argmax (α.map (· / T)) = argmax α :=
  argmax_map (· / T) (fun _ _ hab => div_lt_div_of_pos_right hab hT) α

section
variable {R V : Type} [Semiring R] [AddCommMonoid V] [Module R V]

/-- **One layer.**  With the coefficients sampled in eval / hard mode (`sampleHard`: one-hot at the
arg-max of the raw coefficients, for every quantizer object), any node of the searchable network —
input quantizer, conv / depthwise / linear with mixed weight, bias scale and output quantizer, add
quantizer, element-wise op — computes what the exported node computes with the quantizer objects of
the export plan, whatever the values of the earlier nodes are. -/
theorem mps_layer_eval_eq_export (p : Prog) (c : Cfg) (S : Sem V) (α : QId → List Rat)
    (hα : ∀ q, α q ≠ []) (vals : List V) (nd : Node) :
    nodeMPS (R := R) p S (fun q => sampleHard (α q)) (fun q => (α q).length) vals nd
      = nodeExport S (planOf p c α) vals nd :=
  nodeMPS_eq_nodeExport p c S α hα vals nd

/-- **Whole network** (every SSA program, every coefficient assignment, every input, every
interpretation `S` of quantizers / kernels / element-wise ops): the value of every node of the
searchable network in eval / hard mode is the value of the same node of the exported network. The
statement depends only on both sides using the same objects and the same selection. -/
theorem mps_net_eval_eq_export (p : Prog) (c : Cfg) (S : Sem V) (α : QId → List Rat)
    (hα : ∀ q, α q ≠ []) :
    evalMPS (R := R) p S (fun q => sampleHard (α q)) (fun q => (α q).length)
      = evalExport p S (planOf p c α) := by
  unfold evalMPS evalExport
  exact scan_congr _ _ (fun vals nd => nodeMPS_eq_nodeExport p c S α hα vals nd) p

end

/-- **The in-quantizer a layer receives is the out-quantizer that produced the tensor it
consumes**, for every well-formed program of the grammar: `tags` carries, along the evaluation,
the quantizer object that last quantized each tensor (input quantizer, conv / depthwise / linear /
add output quantizer; element-wise nodes pass it on); `inQ` is the walk of
`register_in_mps_quantizers`.  (First call sites; for the further call sites of a module invoked more
than once see `reused_layer_further_site_in_quantizer`.) -/
theorem in_precision_is_producer_out (p : Prog) (hwf : WF p) (i : Nat) (hi : i < p.length)
    (hl : (p.nd i).kind.isLayer = true) (hnd : (p.nd i).dup = false) :
    inQ p (.layer i) = (tags p).getD (p.nd i).a .dflt := by
  have hne : (p.nd i).kind ≠ .input := by
    intro h; rw [h] at hl; simp [Kind.isLayer] at hl
  have ha := (hwf i hi hne).1
  have := tag_eq_walk p hwf (p.nd i).a (by omega) (i + 1) (by omega)
  rw [this]
  simp only [inQ, producer, firstSite, hnd, Bool.false_eq_true, if_false]
  cases walkProd p (i + 1) (p.nd i).a <;> rfl

/-- … the same for the quantizer inserted after an add (first operand). -/
theorem add_in_quantizer_is_producer_out (p : Prog) (hwf : WF p) (i : Nat) (hi : i < p.length)
    (hl : (p.nd i).kind = .add) :
    inQ p (.addq i) = (tags p).getD (p.nd i).a .dflt := by
  have hne : (p.nd i).kind ≠ .input := by rw [hl]; decide
  have ha := (hwf i hi hne).1
  have := tag_eq_walk p hwf (p.nd i).a (by omega) (i + 1) (by omega)
  rw [this]
  simp only [inQ, producer]
  cases walkProd p (i + 1) (p.nd i).a <;> rfl

/-- Hence the exported input bit-width (and candidate) of a layer is the output selection of the
searchable module that produced its input: `summary()['in_precision']` of the consumer =
`summary()['out_precision']` of the producer. -/
theorem in_bits_eq_producer_out_bits (p : Prog) (c : Cfg) (α : QId → List Rat) (i : Nat) (s : Slot)
    (hs : producer p (.layer i) = some s) :
    (planOf p c α (.layer i)).inS = (planOf p c α s).outS := by
  simp [planOf, inQ, hs]

/-- **Quantizers are shared across an add**: if neither operand comes straight from a network-input
quantizer, both operands of an add were quantized by the same object. -/
theorem add_operands_same_quantizer (p : Prog) (hwf : WF p) (i : Nat) (hi : i < p.length)
    (hadd : (p.nd i).kind = .add)
    (ha : ∀ x, (tags p).getD (p.nd i).a .dflt ≠ .inp x)
    (hb : ∀ x, (tags p).getD (p.nd i).b .dflt ≠ .inp x) :
    (tags p).getD (p.nd i).a .dflt = (tags p).getD (p.nd i).b .dflt ∧
    (tags p).getD (p.nd i).a .dflt = outQ p (.addq i) := by
  have hne : (p.nd i).kind ≠ .input := by rw [hadd]; decide
  obtain ⟨hai, hbi⟩ := hwf i hi hne
  obtain ⟨h1, h2⟩ := labels_sound p hwf i hi
  have hla := h1 (by rw [hadd]; rfl)
  have hlb := h2 hadd
  rcases tags_cases p hwf (p.nd i).a (by omega) with h | ⟨x, h⟩
  · rcases tags_cases p hwf (p.nd i).b (by omega) with h' | ⟨x, h'⟩
    · rw [h, h', ← hla, ← hlb]; exact ⟨rfl, rfl⟩
    · exact absurd h' (hb x)
  · exact absurd h (ha x)

/-- A **depthwise** convolution fed by a searchable layer quantizes its output with the object
that quantized its input (it belongs to its producer's sharing component). -/
theorem depthwise_in_eq_out (p : Prog) (hwf : WF p) (i : Nat) (hi : i < p.length)
    (hdw : (p.nd i).kind = .dw) (hnd : (p.nd i).dup = false)
    (ha : ∀ x, (tags p).getD (p.nd i).a .dflt ≠ .inp x) :
    inQ p (.layer i) = outQ p (.layer i) := by
  rw [in_precision_is_producer_out p hwf i hi (by rw [hdw]; rfl) hnd]
  have hne : (p.nd i).kind ≠ .input := by rw [hdw]; decide
  have hai := (hwf i hi hne).1
  have hla := (labels_sound p hwf i hi).1 (by rw [hdw]; rfl)
  rcases tags_cases p hwf (p.nd i).a (by omega) with h | ⟨x, h⟩
  · rw [h, ← hla]; rfl
  · exact absurd h (ha x)

/-- **A layer module invoked at several call sites reads tensors quantized by one object** (after
3725f20 the tensors fed to its call sites are tied into one sharing component): the module's single
`in_mps_quantizer` is the out-quantizer of the producer at *every* call site. -/
theorem reused_layer_sites_share_in_quantizer (p : Prog) (hwf : WF p) (i : Nat) (hi : i < p.length)
    (hd : (p.nd i).dup = true) (hl : (p.nd i).kind.isLayer = true) (ht : (p.nd i).ta < i)
    (ha : ∀ x, (tags p).getD (p.nd i).a .dflt ≠ .inp x)
    (hb : ∀ x, (tags p).getD (p.nd i).ta .dflt ≠ .inp x) :
    (tags p).getD (p.nd i).a .dflt = (tags p).getD (p.nd i).ta .dflt := by
  have hne : (p.nd i).kind ≠ .input := by
    intro h; rw [h] at hl; simp [Kind.isLayer] at hl
  have hai := (hwf i hi hne).1
  have htie := labels_tie p hwf i hi hd hl ht
  rcases tags_cases p hwf (p.nd i).a (by omega) with h | ⟨x, h⟩
  · rcases tags_cases p hwf (p.nd i).ta (by omega) with h' | ⟨x, h'⟩
    · rw [h, h', htie]
    · exact absurd h' (hb x)
  · exact absurd h (ha x)

/-- **Further call sites**: a module invoked more than once keeps the in-quantizer of its first call
site (580a9ad); it is the out-quantizer of the tensor consumed at a further call site too, provided
neither of the two tensors comes straight from a network-input quantizer (which lies outside the
sharing graph — see the witness `reuseOnInput` below). -/
theorem reused_layer_further_site_in_quantizer (p : Prog) (hwf : WF p) (i : Nat) (hi : i < p.length)
    (hd : (p.nd i).dup = true) (hl : (p.nd i).kind.isLayer = true) (ht : (p.nd i).tf < i)
    (hfl : (p.nd (p.nd i).tf).kind.isLayer = true) (hfd : (p.nd (p.nd i).tf).dup = false)
    (hta : (p.nd i).ta = (p.nd (p.nd i).tf).a)
    (ha : ∀ x, (tags p).getD (p.nd i).a .dflt ≠ .inp x)
    (hb : ∀ x, (tags p).getD (p.nd i).ta .dflt ≠ .inp x) :
    inQ p (.layer i) = (tags p).getD (p.nd i).a .dflt := by
  have h1 : inQ p (.layer i) = inQ p (.layer (p.nd i).tf) := by
    simp [inQ, producer, firstSite, hd, hfd]
  have hne : (p.nd (p.nd i).tf).kind ≠ .input := by
    intro h; rw [h] at hfl; simp [Kind.isLayer] at hfl
  have hatf := (hwf (p.nd i).tf (by omega) hne).1
  rw [h1, in_precision_is_producer_out p hwf _ (by omega) hfl hfd, ← hta,
    reused_layer_sites_share_in_quantizer p hwf i hi hd hl (by rw [hta]; omega) ha hb]

/-- `s` applied to the network input and then to its own (activated) output -/
def reuseOnInput : Prog :=
  [{ kind := .input, cin := 3, cout := 3 },
   { kind := .conv, a := 0, cin := 3, cout := 3, k0 := 3, k1 := 3, o0 := 8, o1 := 8 },
   { kind := .pass, a := 1 },
   { kind := .conv, a := 2, cin := 3, cout := 3, k0 := 3, k1 := 3, o0 := 8, o1 := 8,
     dup := true, ta := 0, tf := 1 },
   { kind := .pass, a := 3 },
   { kind := .flatten, a := 4, mult := 64 },
   { kind := .linear, a := 5, lt := .linear, cin := 192, cout := 2 },
   { kind := .output, a := 6 }]

/-- **Negation on the witness** (open finding `C02:in-precision:reused-layer:call-site-on-network-input`):
the module's in-quantizer is the network-input quantizer, while at its second call site it consumes
a tensor quantized by its own output quantizer. -/
theorem reused_layer_on_input_in_quantizer_mismatch :
    inQ reuseOnInput (.layer 3) = .inp 0 ∧
    (tags reuseOnInput).getD (reuseOnInput.nd 3).a .dflt = outQ reuseOnInput (.layer 1) ∧
    inQ reuseOnInput (.layer 3) ≠ (tags reuseOnInput).getD (reuseOnInput.nd 3).a .dflt := by decide

/-- siamese branches: `sh` is applied to `relu(ca(x))` and to `relu(cb(x))`, the results are summed -/
def siamese : Prog :=
  [{ kind := .input, cin := 3, cout := 3 },
   { kind := .conv, a := 0, cin := 3, cout := 4, k0 := 3, k1 := 3, o0 := 4, o1 := 4 },
   { kind := .pass, a := 1 },
   { kind := .conv, a := 0, cin := 3, cout := 4, k0 := 3, k1 := 3, o0 := 4, o1 := 4 },
   { kind := .pass, a := 3 },
   { kind := .conv, a := 2, cin := 4, cout := 6, o0 := 4, o1 := 4 },
   { kind := .conv, a := 4, cin := 4, cout := 6, o0 := 4, o1 := 4, dup := true, ta := 2, tf := 5 },
   { kind := .add, a := 5, b := 6 },
   { kind := .flatten, a := 7, mult := 16 },
   { kind := .linear, a := 8, lt := .linear, cin := 96, cout := 2 },
   { kind := .output, a := 9 }]

/-- **Regression witness for 3725f20**: with the tie edge both call sites of `sh` read the same
quantizer object; without it (`labelsPinned`) the two producers sit in different components, so
the module's single in-quantizer could only be right for one of its call sites. -/
theorem untied_call_sites_differ :
    inQ siamese (.layer 5) = inQ siamese (.layer 6) ∧
    (labelsPinned siamese).getD 1 0 ≠ (labelsPinned siamese).getD 3 0 := by decide

/-- **The call sites of one layer module use one output and one weight quantizer object**, in the
model as in the code (the module is converted once): every call site sits in the sharing component
of the first one — together with whatever is summed with either call site. -/
theorem reused_layer_sites_share_out_quantizer (p : Prog) (hwf : WF p) (i : Nat) (hi : i < p.length)
    (hd : (p.nd i).dup = true) (hl : (p.nd i).kind = .conv ∨ (p.nd i).kind = .linear)
    (ht : (p.nd i).tf < i) :
    outQ p (.layer i) = outQ p (.layer (p.nd i).tf) ∧ wQ p i = wQ p (p.nd i).tf := by
  have h := labels_site p hwf i hi hd hl ht
  simp [outQ, wQ, h]

/-- `shared` applied to `relu(c1(x))` and to `relu(c2(x))`; only the first result is summed with
`side(x)`; `d` reads that sum, `e` reads the second result; `d + e` is the output -/
def splitReuse : Prog :=
  [{ kind := .input, cin := 3, cout := 3 },
   { kind := .conv, a := 0, cin := 3, cout := 4, k0 := 3, k1 := 3, o0 := 8, o1 := 8 },        -- c1
   { kind := .pass, a := 1 },
   { kind := .conv, a := 2, cin := 4, cout := 4, k0 := 3, k1 := 3, o0 := 8, o1 := 8 },        -- shared, site 1
   { kind := .conv, a := 0, cin := 3, cout := 4, k0 := 3, k1 := 3, o0 := 8, o1 := 8 },        -- c2
   { kind := .pass, a := 4 },
   { kind := .conv, a := 5, cin := 4, cout := 4, k0 := 3, k1 := 3, o0 := 8, o1 := 8,
     dup := true, ta := 2, tf := 3 },                                                          -- shared, site 2
   { kind := .conv, a := 0, cin := 3, cout := 4, k0 := 3, k1 := 3, o0 := 8, o1 := 8 },        -- side
   { kind := .add, a := 3, b := 7 },
   { kind := .pass, a := 8 },
   { kind := .conv, a := 9, cin := 4, cout := 2, k0 := 3, k1 := 3, o0 := 8, o1 := 8 },        -- d
   { kind := .pass, a := 6 },
   { kind := .conv, a := 11, cin := 4, cout := 2, k0 := 3, k1 := 3, o0 := 8, o1 := 8 },       -- e
   { kind := .add, a := 10, b := 12 },
   { kind := .output, a := 13 }]

/-- **Regression witness**: with the call sites merged, `side` (summed with the first call site) and
the second call site of `shared` use one weight quantizer; with only the fed tensors tied
(`labelsUnmerged`, the tree at 3725f20) the second call site sat in a component of its own, so the
module's single weight quantizer could not be the one of both components. -/
theorem unmerged_call_sites_differ :
    wQ splitReuse 6 = wQ splitReuse 7 ∧
    (labelsUnmerged splitReuse).getD 6 0 ≠ (labelsUnmerged splitReuse).getD 3 0 := by decide

/-! ### non-vacuity, and the regression witness for the walk of the pinned tree -/

/-- `x → dw → relu → conv → relu → flatten → linear → output` -/
def witness : Prog :=
  [{ kind := .input, cin := 3, cout := 3 },
   { kind := .dw, a := 0, cin := 3, cout := 3, k0 := 3, k1 := 3, o0 := 8, o1 := 8 },
   { kind := .pass, a := 1 },
   { kind := .conv, a := 2, cin := 3, cout := 4, k0 := 3, k1 := 3, o0 := 8, o1 := 8 },
   { kind := .pass, a := 3 },
   { kind := .flatten, a := 4, mult := 64 },
   { kind := .linear, a := 5, lt := .linear, cin := 256, cout := 3 },
   { kind := .output, a := 6 }]

example : WF witness := wf_of_wfB witness (by decide)

/-- on the witness the conv consumes the tensor quantized by the depthwise layer's out-quantizer,
and the repaired walk hands it exactly that object … -/
example : (tags witness).getD 2 .dflt = outQ witness (.layer 1) ∧
    inQ witness (.layer 3) = outQ witness (.layer 1) := by decide

/-- … whereas the walk of the pinned tree (along `input_features_set_by`, which skips depthwise
convolutions and adds) handed it the network-input quantizer: the clause failed before 7bc98cd. -/
theorem pinned_walk_misses_producer :
    inQPinned witness (.layer 3) = .inp 0 ∧
    inQPinned witness (.layer 3) ≠ (tags witness).getD (witness.nd 3).a .dflt := by decide

/-- hypotheses of the network theorem are satisfiable: all coefficient vectors non-empty -/
example : ∀ q : QId, (fun _ : QId => [(1 : Rat) / 2, 3 / 4, 1 / 4]) q ≠ [] := by intro q; simp

/-- and the selection on such a vector is the middle candidate -/
example : argmax [(1 : Rat) / 2, 3 / 4, 1 / 4] = 1 := by decide +kernel

end PlinioVerif.C02
