import PlinioVerif.Lemmas.MPS
/-!
# C05 — MPS cost equals the exact bit-cost of the selected precision assignment (eval / hard mode)

Property theorems only.  Model: `PlinioVerif/Model/MPS.lean` (`costMatrix`, `layerCost`,
`modifiedVars`, `effIn`, `netCost`, the bit-cost functions reading a spec by PyTorch attribute names),
tied to `plinio/methods/mps/nn/*.get_cost/get_modified_vars`, `mps/graph.py` and
`plinio/cost/{params_bit,ops_bit,mpic_latency}.py` by the correspondence of `harness/props/c05.py`.

Notation: `weightsPerChannel nd e` = weights feeding one output channel of layer `nd` when `e` input
features are alive (`k0·k1·e`, `k0·k1` for depthwise, `e` for linear); `numWeights nd e = cout ·
weightsPerChannel nd e` = `numel` of the exported weight; `positions nd` = output positions.
-/
namespace PlinioVerif.C05
open PlinioVerif.MPS

/-! ### hard mode, per-layer search -/

/-- **Hard mode, one layer**: with one-hot input and weight coefficients the cost matrix
`θ_in ⊗ θ_w ⊙ costFn`, reduced by sum, is the cost function on the selected pair of precisions —
for every cost function (also a probing one) and all candidate lists. -/
theorem hard_cost_per_layer (f : Spec → Rat) (base : Spec) (pin pw : List Int) (ki kw : ℕ)
    (hki : ki < pin.length) (hkw : kw < pw.length) :
    layerCost f base (onehot pin.length ki) pin (onehot pw.length kw) pw
      = f (shownSpec base (pin.getD ki 0) (pw.getD kw 0) 1) :=
  layerCost_onehot f base pin pw ki kw hki hkw

/-- **`params_bit` is exact**: a layer (conv1d/conv2d, depthwise or not, linear) with `e` alive
input features is charged `#weights × selected weight bits`. -/
theorem params_bit_exact (nd : Node) (h : LayerOK nd) (e : Rat) (pin pw : List Int) (ki kw : ℕ)
    (hki : ki < pin.length) (hkw : kw < pw.length) :
    layerCost (paramsBit nd) (modifiedVars modKeys nd e nd.cout) (onehot pin.length ki) pin
        (onehot pw.length kw) pw
      = numWeights nd e * (pw.getD kw 0 : Rat) := by
  rw [layerCost_onehot _ _ _ _ _ _ hki hkw, paramsBit_shown nd h, numWeights_eq]; ring

/-- **`ops_bit` is exact**: `MACs × weight bits × input bits`, MACs = `#weights × positions`. -/
theorem ops_bit_exact (nd : Node) (h : LayerOK nd) (e : Rat) (pin pw : List Int) (ki kw : ℕ)
    (hki : ki < pin.length) (hkw : kw < pw.length) :
    layerCost (opsBit nd) (modifiedVars modKeys nd e nd.cout) (onehot pin.length ki) pin
        (onehot pw.length kw) pw
      = numWeights nd e * positions nd * (pw.getD kw 0 : Rat) * (pin.getD ki 0 : Rat) := by
  rw [layerCost_onehot _ _ _ _ _ _ hki hkw, opsBit_shown nd h, numWeights_eq]; ring

/-- **Whole network, per-layer search, `params_bit`** (a *shared* specification: every layer module
is charged once, however often it is invoked): the cost `MPS.get_cost` returns in eval / hard mode is
`Σ_layers #weights × selected weight bits` (weights counted on the alive input width the calculators
deliver), for every program and every coefficient assignment. -/
theorem params_bit_net_exact (p : Prog) (c : Cfg) (α : QId → List Rat)
    (hl : ∀ i ∈ sharedIdxs p, LayerOK (p.nd i))
    (hn : ∀ q, (α q).length = (precOf p c q).length ∧ α q ≠ []) :
    netCostShared paramsBit p c (hardSampled α)
      = ratSum ((sharedIdxs p).map fun i =>
          numWeights (p.nd i) (effIn p (outEffOf p c (hardSampled α)) i)
            * ((planOf p c α (.layer i)).wS.getD default).bits) :=
  paramsBit_on_exact (sharedIdxs p) p c α hl hn

/-- **Whole network, `ops_bit`** (a *non-shared* specification: one charge per fx call site, each
with the output shape of its own node): `Σ_call sites MACs of the invocation × selected weight bits ×
selected input bits`.  In particular a layer invoked at sites with output sizes `o_1 … o_k` is charged
`Σ_i cost(o_i)`. -/
theorem ops_bit_net_exact (p : Prog) (c : Cfg) (α : QId → List Rat)
    (hl : ∀ i ∈ layerIdxs p, LayerOK (p.nd i))
    (hn : ∀ q, (α q).length = (precOf p c q).length ∧ α q ≠ []) :
    netCost opsBit p c (hardSampled α)
      = ratSum ((layerIdxs p).map fun i =>
          numWeights (p.nd i) (effIn p (outEffOf p c (hardSampled α)) i) * positions (p.nd i)
            * ((planOf p c α (.layer i)).wS.getD default).bits
            * (planOf p c α (.layer i)).inS.bits) :=
  opsBit_on_exact (layerIdxs p) p c α hl hn

/-- **A layer re-used at two resolutions** (two call sites `i`, `j` of one module: same geometry,
same quantizer objects, same alive input width, different output shapes) is charged the sum over its
invocations: `#weights × (positions_i + positions_j) × weight bits × input bits` — never one site's
shape twice. -/
theorem ops_bit_reuse_two_sites (p : Prog) (c : Cfg) (α : QId → List Rat) (i j : Nat)
    (hi : LayerOK (p.nd i)) (hj : LayerOK (p.nd j))
    (hn : ∀ q, (α q).length = (precOf p c q).length ∧ α q ≠ [])
    (hgeo : ∀ e, numWeights (p.nd j) e = numWeights (p.nd i) e)
    (hin : inQ p (.layer j) = inQ p (.layer i)) (hw : wQ p j = wQ p i)
    (he : effIn p (outEffOf p c (hardSampled α)) j = effIn p (outEffOf p c (hardSampled α)) i) :
    netCostOn [i, j] opsBit p c (hardSampled α)
      = numWeights (p.nd i) (effIn p (outEffOf p c (hardSampled α)) i)
          * (positions (p.nd i) + positions (p.nd j))
          * ((planOf p c α (.layer i)).wS.getD default).bits * (planOf p c α (.layer i)).inS.bits := by
  rw [opsBit_on_exact [i, j] p c α (by intro k hk; simp at hk; rcases hk with rfl | rfl <;> assumption) hn]
  simp only [List.map_cons, List.map_nil, ratSum_cons, ratSum_nil, planOf, selOf, hin, hw, he, hgeo,
    Option.getD_some]
  ring

/-- **Per-layer search on a shape-consistent program**: nothing is pruned, so the calculators hand
every layer its static `in_channels / in_features`: `#weights` above is the `numel` of the layer's
weight tensor, and `params_bit = Σ_layers numel × selected weight bits`. -/
theorem params_bit_net_exact_static (p : Prog) (c : Cfg) (α : QId → List Rat) (hwf : WF p) (ht : Typed p)
    (hl : ∀ i ∈ sharedIdxs p, i < p.length ∧ LayerOK (p.nd i))
    (hn : ∀ q, (α q).length = (precOf p c q).length ∧ α q ≠ []) :
    netCostShared paramsBit p c (hardSampled α)
      = ratSum ((sharedIdxs p).map fun i =>
          numWeights (p.nd i) (p.nd i).cin * ((planOf p c α (.layer i)).wS.getD default).bits) := by
  rw [params_bit_net_exact p c α (fun i hi => (hl i hi).2) hn]
  congr 1
  apply List.map_congr_left
  intro i hi
  have hoe : outEffOf p c (hardSampled α) = fun j => ((p.nd j).cout : Rat) := by
    funext j; simp [outEffOf, hardSampled, outEff]
  rw [hoe, effIn_static p hwf ht i (hl i hi).1 (hl i hi).2.1]

/-! ### per-channel search -/

/-- **Per-channel search, general form.**  Input coefficients one-hot, weight coefficients the
column-wise one-hot matrix of `αM` (`θ_w` = row means = shares `n_j / C`).  If the cost function is
`A · g(w_precision)` on the specs the layer shows (`A` = the width written under the layer's
out-key), the layer is charged `(A / C) · Σ_channels g(bits of the channel)`. -/
theorem per_channel_cost_general (f : Spec → Rat) (base : Spec) (pin pw : List Int) (ki : ℕ)
    (hki : ki < pin.length) (αM : List (List Rat)) (hlen : pw.length = αM.length) (hα : αM ≠ [])
    (hC : 0 < nCols αM) (A : Rat) (g : Int → Rat)
    (hf : ∀ (pj : Int) (tw : Rat), f (shownSpec base (pin.getD ki 0) pj tw) = A * g pj) :
    layerCost f base (onehot pin.length ki) pin (rowMean (sampleHardM αM)) pw
      = A / (nCols αM : Rat) * ratSum ((selCols αM).map fun s => g (pw.getD s 0)) := by
  rw [layerCost_onehot_in f base pin pw _ ki hki]
  simp only [hf]
  exact perChannel_sum αM pw hlen hα hC A g

/-- **The identity behind the repair**: `Σ_j θ̄_j · f(C, p_j) = Σ_j n_j · f(1, p_j)` for a cost
`f(C, p) = C · g(p)` linear in the channel count, `θ̄_j` the share and `n_j` the number of channels
that selected precision `p_j`. -/
theorem per_channel_shares_identity (αM : List (List Rat)) (pw : List Int) (hlen : pw.length = αM.length)
    (hα : αM ≠ []) (hC : 0 < nCols αM) (g : Int → Rat) :
    ratSum ((List.zip (rowMean (sampleHardM αM)) pw).map fun tp => tp.1 * ((nCols αM : Rat) * g tp.2))
      = ratSum ((List.range pw.length).map fun r =>
          (((selCols αM).filter (· = r)).length : Rat) * g (pw.getD r 0)) := by
  have hC' : ((nCols αM : ℕ) : Rat) ≠ 0 := by exact_mod_cast (Nat.pos_iff_ne_zero.mp hC)
  rw [perChannel_sum αM pw hlen hα hC (nCols αM : Rat) g, div_self hC', one_mul]
  simp only [← ratSum_indicator_count]
  rw [hlen]
  exact (ratSum_counts (fun r => g (pw.getD r 0)) αM.length (selCols αM)
    (by intro s hs
        simp only [selCols, List.mem_map, List.mem_range] at hs
        obtain ⟨c, _, rfl⟩ := hs
        exact argmax_column_lt αM hα c)).symm

/-- **Per-channel `params_bit` is exact after 5b23653** (with or without the 0-bit option): the
layer's own spec carries the static width `cout = C`, so the charge is
`Σ_channels (weights of the channel) × (bits selected for the channel)`; a pruned channel (0 bits)
contributes nothing. -/
theorem per_channel_params_bit_exact (nd : Node) (h : LayerOK nd) (e : Rat) (pin pw : List Int) (ki : ℕ)
    (hki : ki < pin.length) (αM : List (List Rat)) (hlen : pw.length = αM.length) (hα : αM ≠ [])
    (hC : 0 < nCols αM) (hcout : nd.cout = nCols αM) :
    layerCost (paramsBit nd) (modifiedVars modKeys nd e nd.cout) (onehot pin.length ki) pin
        (rowMean (sampleHardM αM)) pw
      = ratSum ((selCols αM).map fun s => weightsPerChannel nd e * (pw.getD s 0 : Rat)) := by
  have hC' : ((nCols αM : ℕ) : Rat) ≠ 0 := by exact_mod_cast (Nat.pos_iff_ne_zero.mp hC)
  rw [per_channel_cost_general _ _ pin pw ki hki αM hlen hα hC (nd.cout : Rat)
    (fun pj => weightsPerChannel nd e * (pj : Rat)) (fun pj tw => paramsBit_shown nd h e _ _ pj tw)]
  rw [hcout, div_self hC', one_mul]

/-- **Per-channel `ops_bit` is exact after 5b23653**: `Σ_channels MACs of the channel × its bits ×
input bits`. -/
theorem per_channel_ops_bit_exact (nd : Node) (h : LayerOK nd) (e : Rat) (pin pw : List Int) (ki : ℕ)
    (hki : ki < pin.length) (αM : List (List Rat)) (hlen : pw.length = αM.length) (hα : αM ≠ [])
    (hC : 0 < nCols αM) (hcout : nd.cout = nCols αM) :
    layerCost (opsBit nd) (modifiedVars modKeys nd e nd.cout) (onehot pin.length ki) pin
        (rowMean (sampleHardM αM)) pw
      = ratSum ((selCols αM).map fun s =>
          weightsPerChannel nd e * positions nd * (pw.getD s 0 : Rat) * (pin.getD ki 0 : Rat)) := by
  have hC' : ((nCols αM : ℕ) : Rat) ≠ 0 := by exact_mod_cast (Nat.pos_iff_ne_zero.mp hC)
  rw [per_channel_cost_general _ _ pin pw ki hki αM hlen hα hC (nd.cout : Rat)
    (fun pj => weightsPerChannel nd e * positions nd * (pj : Rat) * (pin.getD ki 0 : Rat))
    (fun pj tw => opsBit_shown nd h e _ _ pj tw)]
  rw [hcout, div_self hC', one_mul]

/-- **What the pinned tree charged** (before 5b23653 the out-key held the *alive* width `A`):
`(A / C) ×` the exact cost — exact only while no channel is pruned (`A = C`). -/
theorem per_channel_params_bit_pinned_scaled (nd : Node) (h : LayerOK nd) (e A : Rat) (pin pw : List Int)
    (ki : ℕ) (hki : ki < pin.length) (αM : List (List Rat)) (hlen : pw.length = αM.length) (hα : αM ≠ [])
    (hC : 0 < nCols αM) :
    layerCost (paramsBit nd) (modifiedVars modKeys nd e A) (onehot pin.length ki) pin
        (rowMean (sampleHardM αM)) pw
      = A / (nCols αM : Rat) * ratSum ((selCols αM).map fun s => weightsPerChannel nd e * (pw.getD s 0 : Rat)) :=
  per_channel_cost_general _ _ pin pw ki hki αM hlen hα hC A
    (fun pj => weightsPerChannel nd e * (pj : Rat)) (fun pj tw => paramsBit_shown nd h e _ _ pj tw)

/-- **Per-channel search without pruned channels is exact under either rule**: if the alive width
equals the static width, writing the alive width (pinned tree) charges the exact cost too. -/
theorem per_channel_no_prune_exact (nd : Node) (h : LayerOK nd) (e : Rat) (pin pw : List Int) (ki : ℕ)
    (hki : ki < pin.length) (αM : List (List Rat)) (hlen : pw.length = αM.length) (hα : αM ≠ [])
    (hC : 0 < nCols αM) (hcout : nd.cout = nCols αM)
    (hnp : outEff nd.cout pw (some (sampleHardM αM)) = nd.cout) :
    layerCost (paramsBit nd) (modifiedVars modKeys nd e (outEff nd.cout pw (some (sampleHardM αM))))
        (onehot pin.length ki) pin (rowMean (sampleHardM αM)) pw
      = ratSum ((selCols αM).map fun s => weightsPerChannel nd e * (pw.getD s 0 : Rat)) := by
  rw [hnp]
  exact per_channel_params_bit_exact nd h e pin pw ki hki αM hlen hα hC hcout

/-- 4-channel 3×3 conv on 8 alive inputs, candidates (0, 8), channels 0 and 1 pruned -/
def f14Node : Node := { kind := .conv, cin := 8, cout := 4, k0 := 3, k1 := 3, o0 := 8, o1 := 8 }
def f14Alpha : List (List Rat) := [[1, 1, 0, 0], [0, 0, 1, 1]]

/-- **Regression witness for F14**: writing the alive width 2 under the out-key charged 576 bits
where the assignment stores `2 channels × 72 weights × 8 bits` = 1152 … -/
theorem pinned_per_channel_half :
    layerCost (paramsBit f14Node)
        (modifiedVars modKeys f14Node 8 (outEff 4 [0, 8] (some (sampleHardM f14Alpha))))
        (onehot 1 0) [8] (rowMean (sampleHardM f14Alpha)) [0, 8] = 576 ∧
    ratSum ((selCols f14Alpha).map fun s => weightsPerChannel f14Node 8 * (([0, 8] : List Int).getD s 0 : Rat))
      = 1152 := by
  constructor <;> decide +kernel

/-- … and the repaired rule charges exactly that. -/
example :
    layerCost (paramsBit f14Node) (modifiedVars modKeys f14Node 8 f14Node.cout)
        (onehot 1 0) [8] (rowMean (sampleHardM f14Alpha)) [0, 8] = 1152 := by decide +kernel

/-- **`mpic_latency`, every layer that is not depthwise, per-channel**: exact —
`Σ_channels MACs of the channel × cycles/MAC(in bits, bits of the channel)`. -/
theorem per_channel_mpic_exact (nd : Node) (h : LayerOK nd) (hdw : nd.kind ≠ .dw) (e : Rat)
    (pin pw : List Int) (ki : ℕ) (hki : ki < pin.length) (αM : List (List Rat))
    (hlen : pw.length = αM.length) (hα : αM ≠ []) (hC : 0 < nCols αM) (hcout : nd.cout = nCols αM) :
    layerCost (mpicLatency nd) (modifiedVars modKeys nd e nd.cout) (onehot pin.length ki) pin
        (rowMean (sampleHardM αM)) pw
      = ratSum ((selCols αM).map fun s =>
          macsPerChannel nd e * mpicLut (pin.getD ki 0 : Rat) (pw.getD s 0 : Rat)) := by
  have hC' : ((nCols αM : ℕ) : Rat) ≠ 0 := by exact_mod_cast (Nat.pos_iff_ne_zero.mp hC)
  rw [per_channel_cost_general _ _ pin pw ki hki αM hlen hα hC (nd.cout : Rat)
    (fun pj => macsPerChannel nd e * mpicLut (pin.getD ki 0 : Rat) (pj : Rat))
    (fun pj tw => mpic_shown_generic nd h hdw e _ _ pj tw)]
  rw [hcout, div_self hC', one_mul]

/-- **`mpic_latency` of a depthwise layer, per-channel** (open finding
`C05:mpic_latency:depthwise:per-channel-0bit`): MACs are counted on the input width `e` the layer is
shown, so the charge is `(e / C) ×` the exact latency … -/
theorem per_channel_mpic_depthwise_scaled (nd : Node) (h : LayerOK nd) (hdw : nd.kind = .dw) (e : Rat)
    (pin pw : List Int) (ki : ℕ) (hki : ki < pin.length) (αM : List (List Rat))
    (hlen : pw.length = αM.length) (hα : αM ≠ []) (hC : 0 < nCols αM) :
    layerCost (mpicLatency nd) (modifiedVars modKeys nd e nd.cout) (onehot pin.length ki) pin
        (rowMean (sampleHardM αM)) pw
      = e / (nCols αM : Rat) * ratSum ((selCols αM).map fun s =>
          macsPerChannel nd e * mpicLut (pin.getD ki 0 : Rat) (pw.getD s 0 : Rat)) :=
  per_channel_cost_general _ _ pin pw ki hki αM hlen hα hC e
    (fun pj => macsPerChannel nd e * mpicLut (pin.getD ki 0 : Rat) (pj : Rat))
    (fun pj tw => mpic_shown_dw nd h hdw e _ _ pj tw)

/-- … hence exact under the explicit hypothesis that no channel is pruned upstream (`e = C`). -/
theorem per_channel_mpic_depthwise_exact_of_no_prune (nd : Node) (h : LayerOK nd) (hdw : nd.kind = .dw)
    (pin pw : List Int) (ki : ℕ) (hki : ki < pin.length) (αM : List (List Rat))
    (hlen : pw.length = αM.length) (hα : αM ≠ []) (hC : 0 < nCols αM) :
    layerCost (mpicLatency nd) (modifiedVars modKeys nd (nCols αM : Rat) nd.cout) (onehot pin.length ki) pin
        (rowMean (sampleHardM αM)) pw
      = ratSum ((selCols αM).map fun s =>
          macsPerChannel nd (nCols αM : Rat) * mpicLut (pin.getD ki 0 : Rat) (pw.getD s 0 : Rat)) := by
  have hC' : ((nCols αM : ℕ) : Rat) ≠ 0 := by exact_mod_cast (Nat.pos_iff_ne_zero.mp hC)
  rw [per_channel_mpic_depthwise_scaled nd h hdw _ pin pw ki hki αM hlen hα hC, div_self hC', one_mul]

/-- depthwise 3×3 with bias on 8×8, 4 channels, bits per channel `[0, 0, 4, 8]` (two pruned, so
it is shown 2 input features) -/
def mpicNode : Node :=
  { kind := .dw, cin := 4, cout := 4, k0 := 3, k1 := 3, o0 := 8, o1 := 8, bias := true }
def mpicAlpha : List (List Rat) := [[1, 1, 0, 0], [0, 0, 0, 0], [0, 0, 1, 0], [0, 0, 0, 1]]

/-- **Negation on the witness**: the depthwise layer is charged `320·440/483 ≈ 291.51` cycles where
its assignment costs `640·(10/23 + 10/21) ≈ 583.02`. -/
theorem mpic_depthwise_witness :
    layerCost (mpicLatency mpicNode) (modifiedVars modKeys mpicNode 2 mpicNode.cout) (onehot 1 0) [8]
        (rowMean (sampleHardM mpicAlpha)) [0, 2, 4, 8] = 140800 / 483 ∧
    ratSum ((selCols mpicAlpha).map fun s =>
        macsPerChannel mpicNode 2 * mpicLut 8 (([0, 2, 4, 8] : List Int).getD s 0 : Rat)) = 281600 / 483 := by
  constructor <;> decide +kernel

/-! ### spec keys -/

/-- **For each searchable layer type the keys `get_modified_vars` overwrites are the PyTorch
attribute names of that type** (`modKeys` is compared with the table extracted from the source on
every run; `torchKeys` with the constructor signatures of `nn.Conv1d/Conv2d/Linear`). -/
theorem spec_keys_follow_torch_names (lt : LType) : modKeys lt = torchKeys lt := by
  cases lt <;> rfl

/-- Hence a cost function reading the spec by PyTorch names sees the effective input width and the
width written for the layer itself, whatever the layer type … -/
theorem shown_counts_under_torch_names (nd : Node) (e o pin pw tw : Rat) :
    (shownSpec (modifiedVars modKeys nd e o) pin pw tw).val (torchKeys nd.lt).1 = e ∧
    (shownSpec (modifiedVars modKeys nd e o) pin pw tw).val (torchKeys nd.lt).2 = o ∧
    (shownSpec (modifiedVars modKeys nd e o) pin pw tw).val "in_precision" = pin ∧
    (shownSpec (modifiedVars modKeys nd e o) pin pw tw).val "w_precision" = pw := by
  cases hlt : nd.lt <;>
    simp [shownSpec, modifiedVars, modKeys, staticVars, torchKeys, hlt, Spec.val, Spec.get?, Spec.set,
      List.lookup]

/-- … whereas with the table of the pinned tree (24c09d2 reverted) a Linear layer was shown its
static `in_features`, whatever its producer had pruned. -/
theorem pinned_linear_keys_hide_pruning (nd : Node) (hlt : nd.lt = .linear) (e o pin pw tw : Rat) :
    modKeysPinned .linear ≠ torchKeys .linear ∧
    (shownSpec (modifiedVars modKeysPinned nd e o) pin pw tw).val (torchKeys nd.lt).1 = nd.cin := by
  constructor
  · decide
  · simp [shownSpec, modifiedVars, modKeysPinned, staticVars, torchKeys, hlt, Spec.val, Spec.get?, Spec.set,
      List.lookup]

/-! ### pruning a producer lowers the cost of its consumers -/

/-- **The consumer is shown the producer's alive width**: a layer of any type that reads layer `j`
through element-wise ops and flattens (`Reaches`: no searchable features-propagating module in
between) has `m · out_features_eff(j)` effective input features, `m` the flatten multiplier. -/
theorem consumer_sees_producer_alive_width (p : Prog) (hwf : WF p) (oe : Nat → Rat) (i j : Nat) (m : Rat)
    (hi : i < p.length) (hne : (p.nd i).kind ≠ .input) (r : Reaches p (p.nd i).a j m) :
    effIn p oe i = m * oe j :=
  effIn_of_reaches p hwf oe i j m hi hne r

/-- **Producer pruning lowers consumer cost** (conv→conv, conv→flatten→linear, linear→linear, …;
`params_bit`, hard mode): if the consumer `i` is not depthwise and reads producer `j` through
element-wise ops and flattens, then strictly fewer alive channels of `j` mean a strictly lower
charge for `i`, whatever the type of `i`.  Without the hypothesis `Reaches` the statement is false on
the tree under test (`input_component_producer_invisible` below, open finding). -/
theorem producer_pruning_lowers_consumer_cost (p : Prog) (hwf : WF p) (i j : Nat) (m : Rat)
    (hi : i < p.length) (hok : LayerOK (p.nd i)) (hdw : (p.nd i).kind ≠ .dw)
    (r : Reaches p (p.nd i).a j m) (hm : 0 < m)
    (hk0 : 0 < (p.nd i).k0) (hk1 : 0 < (p.nd i).k1) (hco : 0 < (p.nd i).cout)
    (oe oe' : Nat → Rat) (hprune : oe' j < oe j)
    (pin pw : List Int) (ki kw : ℕ) (hki : ki < pin.length) (hkw : kw < pw.length)
    (hbits : 0 < pw.getD kw 0) :
    layerCost (paramsBit (p.nd i)) (modifiedVars modKeys (p.nd i) (effIn p oe' i) (p.nd i).cout)
        (onehot pin.length ki) pin (onehot pw.length kw) pw
      < layerCost (paramsBit (p.nd i)) (modifiedVars modKeys (p.nd i) (effIn p oe i) (p.nd i).cout)
        (onehot pin.length ki) pin (onehot pw.length kw) pw := by
  have hne : (p.nd i).kind ≠ .input := by
    intro h; have := hok.1; rw [h] at this; simp [Kind.isLayer] at this
  rw [params_bit_exact _ hok _ _ _ _ _ hki hkw, params_bit_exact _ hok _ _ _ _ _ hki hkw,
    effIn_of_reaches p hwf oe' i j m hi hne r, effIn_of_reaches p hwf oe i j m hi hne r]
  have hb : (0 : Rat) < (pw.getD kw 0 : Rat) := by exact_mod_cast hbits
  have h0 : (0 : Rat) < ((p.nd i).k0 : Rat) := by exact_mod_cast hk0
  have h1 : (0 : Rat) < ((p.nd i).k1 : Rat) := by exact_mod_cast hk1
  have h2 : (0 : Rat) < ((p.nd i).cout : Rat) := by exact_mod_cast hco
  have hlt : m * oe' j < m * oe j := by exact mul_lt_mul_of_pos_left hprune hm
  apply mul_lt_mul_of_pos_right _ hb
  obtain ⟨hl, hlin⟩ := hok
  cases hk : (p.nd i).kind <;> cases hlt' : (p.nd i).lt <;> simp [hk, hlt', Kind.isLayer] at hl hlin hdw <;>
    simp only [numWeights, hk, hlt']
  · exact mul_lt_mul_of_pos_right (mul_lt_mul_of_pos_left hlt h0) h2
  · exact mul_lt_mul_of_pos_right (mul_lt_mul_of_pos_left hlt (mul_pos h0 h1)) h2
  · exact mul_lt_mul_of_pos_right hlt h2

/-- `x(4 ch) → dw 3×3 → relu → conv(4→2)`: a depthwise conv directly on the network input -/
def inputDw : Prog :=
  [{ kind := .input, cin := 4, cout := 4 },
   { kind := .dw, a := 0, cin := 4, cout := 4, k0 := 3, k1 := 3, o0 := 8, o1 := 8 },
   { kind := .pass, a := 1 },
   { kind := .conv, a := 2, cin := 4, cout := 2, k0 := 3, k1 := 3, o0 := 8, o1 := 8 }]

/-- **Negation without the hypothesis** (open finding
`C05:effective-in-features:mps-module-in-input-component`): the conv consumes the depthwise
layer's output, yet it is shown the network input's 4 features however many channels the depthwise
layer has alive — pruning that producer does not lower its consumer's cost. -/
theorem input_component_producer_invisible (oe : Nat → Rat) :
    effIn inputDw oe 3 = 4 ∧ ¬ ∃ m, Reaches inputDw (inputDw.nd 3).a 1 m := by
  refine ⟨rfl, ?_⟩
  rintro ⟨m, r⟩
  cases r with
  | pass _ _ _ _ r' =>
    cases r' with
    | here _ h => simp [inputDw, Prog.nd] at h
    | pass _ _ _ h _ => simp [inputDw, Prog.nd] at h
    | flat _ _ _ h _ => simp [inputDw, Prog.nd] at h
  | flat _ _ _ h _ => simp [inputDw, Prog.nd] at h

/-! ### non-vacuity -/

example : LayerOK f14Node := by simp [LayerOK, f14Node, Kind.isLayer]
example : LayerOK mpicNode := by simp [LayerOK, mpicNode, Kind.isLayer]

/-- conv → relu → flatten → linear: the linear layer reaches the conv with multiplier 16 -/
def convFlatLin : Prog :=
  [{ kind := .input, cin := 3, cout := 3 },
   { kind := .conv, a := 0, cin := 3, cout := 4, k0 := 3, k1 := 3, o0 := 4, o1 := 4 },
   { kind := .pass, a := 1 },
   { kind := .flatten, a := 2, mult := 16 },
   { kind := .linear, a := 3, lt := .linear, cin := 64, cout := 5 }]

example : WF convFlatLin := wf_of_wfB convFlatLin (by decide)

example : Typed convFlatLin := by
  unfold Typed; decide

example : Reaches convFlatLin (convFlatLin.nd 4).a 1 (16 * 1) :=
  Reaches.flat 3 1 1 (by rfl) (Reaches.pass 2 1 1 (Or.inl (by rfl)) (Reaches.here 1 (Or.inl (by rfl))))

/-- with 2 of the conv's 4 channels pruned the linear layer is shown 32 of its 64 input features -/
example : effIn convFlatLin (fun j => if j = 1 then 2 else 5) 4 = 32 := by decide +kernel

end PlinioVerif.C05
