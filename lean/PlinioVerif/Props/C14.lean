import PlinioVerif.Lemmas.Integer
/-!
# C14 — integer (MATCH / MAUPITI) layers reproduce their fake-quantized counterparts

Property theorems only.  `Model/Integer.lean` mirrors `binary_search`, `_integer_approximation`,
the requantisation of the four integer layers, MAUPITI's offset / zero-point and MATCH's
zero-stuffing of dilated kernels; it is tied to the code by `harness/props/c14.py`.

Level: **proof of the integer arithmetic** for every accumulator, bit-width, scale, shift and
kernel.  The end-to-end clause ("within one level plus the bound implied by the scale/shift
approximation") is proved over ℚ for *any* two pre-rounding values (`requant_error_bound`) and
for the exact rational pre-activations (`layer_vs_fq`); it is **partial** in that the float32
accumulation of the real layers and PACT's `1e-3` stabiliser enter as explicit terms of the
bound (`stabTerm`, `max 0 (M-1-top)`) rather than vanishing.

Note on `≤`: `binary_search` can return its upper bound (`binarySearch_spec` states `≤ high`);
"scale below 2^(scale_bits-1)" is strict (`approx_ranges`) because `_integer_approximation`
searches `[1, 2^(scale_bits-1) - 1]` (fix becdfc8; `prefix_scale_reaches_bound` is the witness for
the code before it).
-/
namespace PlinioVerif.C14
open PlinioVerif.Quant PlinioVerif.Integer

/-! ## `binary_search` -/

/-- **bracketing specification** (termination is by construction): for `low ≤ high` and a
positive `div` the result `r` lies in `[low, high]`, `x ≤ r·div` unless `r` is the upper bound,
and `(r-1)·div < x` unless `r` is the lower bound — i.e. `r` is the least `m` in `[low, high]`
with `x ≤ m·div`, or `high`. -/
theorem binarySearch_spec {div x : ℚ} (hd : 0 < div) {low high : ℕ} (hle : low ≤ high) :
    low ≤ bsearch div x low high ∧ bsearch div x low high ≤ high ∧
    (bsearch div x low high < high → x ≤ bsearch div x low high * div) ∧
    (low < bsearch div x low high → ((bsearch div x low high : ℚ) - 1) * div < x) :=
  bsearch_spec hd hle

/-- leastness: no smaller admissible `m` satisfies `x ≤ m·div` -/
theorem binarySearch_least {div x : ℚ} (hd : 0 < div) {low high : ℕ} (hle : low ≤ high) (m : ℕ)
    (hm : low ≤ m) (hx : x ≤ m * div) : bsearch div x low high ≤ m := by
  obtain ⟨_, _, _, h4⟩ := bsearch_spec (x := x) hd hle
  by_contra hlt
  have hlt := not_le.mp hlt
  have h := h4 (by omega)
  have h5 : (m : ℚ) ≤ (bsearch div x low high : ℚ) - 1 := by
    have : m + 1 ≤ bsearch div x low high := hlt
    have : ((m + 1 : ℕ) : ℚ) ≤ (bsearch div x low high : ℚ) := by exact_mod_cast this
    push_cast at this; linarith
  have := mul_le_mul_of_nonneg_right h5 hd.le
  linarith

/-- **closed form of the per-channel scale**: `⌈target·2^shift⌉` clamped to `[1, upper_bound]` -/
theorem scale_eq_ceil_clamped (t : ℚ) (sh : ℕ) {ub : ℕ} (hub : 1 ≤ ub) :
    ((bsearch (divOf sh) t 1 ub : ℕ) : ℤ) = max 1 (min (ub : ℤ) ⌈t * (2 : ℚ) ^ sh⌉) :=
  bsearch_eq_ceil t sh hub

/-- where the search is not clamped the scale approximates the target from above within one unit
of the shifted grid: `0 ≤ scale/2^shift − target < 2^-shift` -/
theorem scale_error_lt {t : ℚ} {sh ub : ℕ} (hub : 1 ≤ ub) (ht : 0 < t) (hfit : t * (2 : ℚ) ^ sh ≤ ub) :
    0 ≤ (bsearch (divOf sh) t 1 ub : ℚ) / (2 : ℚ) ^ sh - t ∧
    (bsearch (divOf sh) t 1 ub : ℚ) / (2 : ℚ) ^ sh - t < 1 / (2 : ℚ) ^ sh := by
  have hp : (0 : ℚ) < (2 : ℚ) ^ sh := by positivity
  have hc := bsearch_eq_ceil t sh hub
  have h1 : (1 : ℤ) ≤ ⌈t * (2 : ℚ) ^ sh⌉ := by
    have : (0 : ℤ) < ⌈t * (2 : ℚ) ^ sh⌉ := Int.ceil_pos.mpr (by positivity)
    omega
  have h2 : ⌈t * (2 : ℚ) ^ sh⌉ ≤ (ub : ℤ) := by rw [Int.ceil_le]; exact_mod_cast hfit
  rw [min_eq_right h2, max_eq_right h1] at hc
  have hq : (bsearch (divOf sh) t 1 ub : ℚ) = (⌈t * (2 : ℚ) ^ sh⌉ : ℚ) := by exact_mod_cast hc
  rw [hq]
  have h3 := Int.le_ceil (t * (2 : ℚ) ^ sh)
  have h4 := Int.ceil_lt_add_one (t * (2 : ℚ) ^ sh)
  constructor
  · rw [sub_nonneg, le_div_iff₀ hp]; exact h3
  · rw [sub_lt_iff_lt_add, div_lt_iff₀ hp, add_mul, one_div, inv_mul_cancel₀ hp.ne']; linarith

/-! ## `_integer_approximation` -/

/-- **ranges of the stored scale, shift and scaled bias**: whenever the selection returns, the
shift is within `[0, shift_pos)`, there is one scale per channel, every scale is the search result
for the selected shift and lies in `[1, 2^(scale_bit-1))` — **strictly below** `2^(scale_bit-1)`,
i.e. it fits a signed `scale_bit`-bit integer (after fix becdfc8 the search interval is
`[1, 2^(scale_bit-1) - 1]`; `binary_search` itself can return its upper bound, see
`binarySearch_spec`) — and every `bias·scale` fits a signed 32-bit integer. -/
theorem approx_ranges {scaleBit shiftPos : ℕ} (hsb : 2 ≤ scaleBit) {ts : List ℚ} {bs : List ℤ}
    {ss : List ℕ} {sh : ℕ} (h : intApprox scaleBit shiftPos ts bs = some (ss, sh)) :
    sh < shiftPos ∧ ss.length = ts.length ∧
    ss = scalesAt (upperBound scaleBit) sh ts ∧
    (∀ s ∈ ss, 1 ≤ s ∧ s < 2 ^ (scaleBit - 1)) ∧
    (∀ p ∈ bs.zip ss, -(2 ^ 31 : ℤ) ≤ p.1 * (p.2 : ℤ) ∧ p.1 * (p.2 : ℤ) ≤ 2 ^ 31 - 1) := by
  obtain ⟨h1, h2, hss, _, _⟩ := intApprox_some h
  have hub : 1 ≤ upperBound scaleBit := by
    unfold upperBound
    have : 2 ^ 1 ≤ 2 ^ (scaleBit - 1) := Nat.pow_le_pow_right (by norm_num) (by omega)
    omega
  refine ⟨h1, ?_, hss, ?_, ?_⟩
  · rw [hss, scalesAt_length]
  · rw [hss]
    intro s hs
    have := scalesAt_range hub sh ts s hs
    unfold upperBound at this
    have hp : 0 < 2 ^ (scaleBit - 1) := Nat.pos_of_ne_zero (by positivity)
    omega
  · rw [hss]; exact (overflow_false_iff bs _).mp h2

/-- the code before fix becdfc8 searched `[1, 2^(scale_bit-1)]` and could store a scale equal to
`2^(scale_bit-1)`: with `scale_bit = 8` the targets `127.5/2^11`, `100.5/2^11` select shift 11 and
scales `[128, 101]` (model of the old selection, upper bound `2^7`) -/
theorem prefix_scale_reaches_bound :
    ((List.range 12).foldl (selStep (2 ^ 7) [1275 / 20480, 1005 / 20480] [0, 0]) none).map
      (fun r => (r.2.1, r.2.2)) = some ([128, 101], 11) ∧
    intApprox 8 12 [1275 / 20480, 1005 / 20480] [0, 0] = some ([127, 101], 11) := by
  decide +kernel

/-- **the shift minimises the mean approximation error** among all shifts whose scaled biases fit
32 bits, and it is the first such minimiser -/
theorem approx_minimal {scaleBit shiftPos : ℕ} {ts : List ℚ} {bs : List ℤ} {ss : List ℕ} {sh : ℕ}
    (h : intApprox scaleBit shiftPos ts bs = some (ss, sh)) :
    let ub := upperBound scaleBit
    (∀ sh', sh' < shiftPos → overflow bs (scalesAt ub sh' ts) = false →
        avgDiff sh ss ts ≤ avgDiff sh' (scalesAt ub sh' ts) ts) ∧
    (∀ sh', sh' < sh → overflow bs (scalesAt ub sh' ts) = false →
        avgDiff sh ss ts < avgDiff sh' (scalesAt ub sh' ts) ts) := by
  obtain ⟨_, _, _, h4, h5⟩ := intApprox_some h
  exact ⟨fun s hs ho => h4 s hs ho, fun s hs ho => h5 s hs ho⟩

/-- the selection fails only if there is no channel or every shift overflows the 32-bit guard -/
theorem approx_none_iff (scaleBit shiftPos : ℕ) (ts : List ℚ) (bs : List ℤ) :
    intApprox scaleBit shiftPos ts bs = none ↔
      ts = [] ∨ ∀ sh, sh < shiftPos → overflow bs (scalesAt (upperBound scaleBit) sh ts) = true := by
  constructor
  · intro h
    by_cases hts : ts = []
    · exact Or.inl hts
    · right
      intro sh hsh
      have := intApprox_none hts h sh hsh
      simpa [okAt] using this
  · rintro (rfl | hall)
    · simp [intApprox]
    · cases hr : intApprox scaleBit shiftPos ts bs with
      | none => rfl
      | some r =>
        obtain ⟨ss, sh⟩ := r
        obtain ⟨h1, h2, _, _, _⟩ := intApprox_some hr
        have := hall sh h1
        rw [h2] at this
        exact absurd this Bool.false_ne_true

/-- **bias-free layers** (a missing bias is an all-zero one): the guard never fires, so a scale
and a shift are always found -/
theorem approx_bias_free (scaleBit : ℕ) {shiftPos : ℕ} (hs : 0 < shiftPos) {ts : List ℚ} (hts : ts ≠ []) :
    (intApprox scaleBit shiftPos ts (List.replicate ts.length 0)).isSome = true := by
  rw [Option.isSome_iff_ne_none, Ne, approx_none_iff]
  intro hcon
  rcases hcon with hcon | hcon
  · exact hts hcon
  have hcon := hcon 0 hs
  have : overflow (List.replicate ts.length 0) (scalesAt (upperBound scaleBit) 0 ts) = false := by
    rw [overflow_false_iff]
    intro p hp
    have : p.1 = 0 := by
      have := (List.of_mem_zip hp).1
      exact (List.mem_replicate.mp this).2
    rw [this]; norm_num
  rw [this] at hcon; exact Bool.false_ne_true hcon

/-- **stored weights** are integers of the signed `p`-bit range (the weight quantizer of C13 with
`dequantize = False`; restated here so that C14's ranges are complete) -/
theorem stored_weight_range {p : ℕ} (hp : 1 ≤ p) {w : List ℚ} {x : ℚ} (hx : x ∈ w) :
    -(2 : ℤ) ^ (p - 1) ≤ mmLevel p w x ∧ mmLevel p w x ≤ (2 : ℤ) ^ (p - 1) - 1 := by
  rw [mmLevel_eq hp]
  refine ⟨le_min ?_ ?_, min_le_right _ _⟩
  · apply le_rne_of_le
    have h := abs_le.mp (abs_div_step_le hp hx)
    rw [nSteps_succ hp] at h
    push_cast
    linarith [h.1]
  · have : (1 : ℤ) ≤ (2 : ℤ) ^ (p - 1) := one_le_pow₀ (by norm_num)
    omega

/-! ## requantisation -/

/-- **activation ranges**: MATCH outputs are unsigned `p`-bit, MAUPITI outputs offset-signed -/
theorem requant_ranges (acc s add : ℤ) (sh p : ℕ) :
    (0 ≤ matchOut acc s add sh p ∧ matchOut acc s add sh p ≤ 2 ^ p - 1) ∧
    (-(2 : ℤ) ^ (p - 1) ≤ maupitiOut acc s add sh p ∧ maupitiOut acc s add sh p ≤ 2 ^ (p - 1) - 1) := by
  have h1 : (1 : ℤ) ≤ 2 ^ p := one_le_pow₀ (by norm_num)
  have h2 : (1 : ℤ) ≤ 2 ^ (p - 1) := one_le_pow₀ (by norm_num)
  unfold matchOut maupitiOut requant clipInf clipSup
  exact ⟨clipInt_range (by omega) _, clipInt_range (by omega) _⟩

/-- the requantisation is an arithmetic right shift: `floor(v / 2^sh)` is integer floor-division -/
theorem requant_is_shift (acc s add : ℤ) (sh : ℕ) (lo hi : ℤ) :
    requant acc s add sh lo hi = clipInt lo hi ((acc * s + add) / 2 ^ sh) := by
  unfold requant; rw [floor_div_pow2]

/-- requantisation is monotone in the accumulator for a non-negative scale -/
theorem requant_mono {s : ℤ} (hs : 0 ≤ s) (add : ℤ) (sh : ℕ) (lo hi : ℤ) :
    Monotone (fun acc => requant acc s add sh lo hi) := by
  intro a b h
  simp only [requant_is_shift]
  apply clipInt_mono
  apply Int.ediv_le_ediv (by positivity)
  have := mul_le_mul_of_nonneg_right h hs
  omega

/-- **requantisation bound, general form**: for *any* two pre-rounding values `a` (integer layer:
`(acc·scale + bias·scale)/2^shift`) and `b` (fake-quantized layer: pre-activation over its step),
clipped to `[0, M]` and `[0, top]` with `top ≤ M`, the two integer outputs differ by at most
`1 + |a − b| + max 0 (M − 1 − top)`.  (`top = M − 1` for PACT with its stabiliser, `top = M`
without: the last term then vanishes.) -/
theorem requant_error_bound (a b : ℚ) (M top : ℤ) (h0 : 0 ≤ top) (hM : top ≤ M) :
    ((|clipInt 0 M ⌊a⌋ - clipInt 0 top ⌊b⌋| : ℤ) : ℚ)
      ≤ 1 + |a - b| + ((max 0 (M - 1 - top) : ℤ) : ℚ) :=
  clip_floor_error a b M top h0 hM

/-- `stabTerm` (what PACT's stabiliser contributes to the difference of the two pre-rounding
values) vanishes when the step used equals the reported scale (`σ = s`) -/
theorem stabTerm_no_stab (acc nb : ℤ) (sw sx sy : ℚ) : stabTerm acc nb sw sx sx sy sy = 0 := by
  unfold stabTerm; ring

/-- the pre-rounding values of the two layers differ by the scale/shift approximation error times
the accumulator, plus the stabiliser term (an identity of ℚ) -/
theorem preact_gap (acc nb s : ℤ) (sh : ℕ) (sw sx σx sy σy : ℚ) :
    ((acc * s + nb * s : ℤ) : ℚ) / pow2 sh - fqPre acc nb sw sx σx / σy
      = ((acc + nb : ℤ) : ℚ) * ((s : ℚ) / pow2 sh - sw * sx / sy) + stabTerm acc nb sw sx σx sy σy := by
  unfold fqPre stabTerm
  push_cast
  simp only [div_eq_mul_inv]
  ring

/-- **per-layer end-to-end bound (partial: over ℚ, stabiliser explicit)**: the MATCH output for
accumulator `acc`, integer bias `n_b` (stored as `n_b·scale`) and the integer image of the
fake-quantized layer's output differ by at most one level, plus `|acc + n_b|` times the error of
`scale/2^shift` as an approximation of `s_w·s_x/s_y`, plus the stabiliser terms. -/
theorem layer_vs_fq {eps clipY : ℚ} (he : 0 ≤ eps) (hc : 0 < clipY) (p : ℕ)
    (acc nb s : ℤ) (sh : ℕ) (sw sx σx : ℚ) :
    ((|matchOut acc s (nb * s) sh p - fqLevel eps p clipY acc nb sw sx σx| : ℤ) : ℚ)
      ≤ 1 + |((acc + nb : ℤ) : ℚ)| * |(s : ℚ) / pow2 sh - sw * sx / pactScale p clipY|
          + |stabTerm acc nb sw sx σx (pactScale p clipY) (pactStepE eps p clipY)|
          + ((max 0 (2 ^ p - 1 - 1 - pactTopE eps p clipY) : ℤ) : ℚ) := by
  have htop0 : 0 ≤ pactTopE eps p clipY := (pactTopE_range he hc p).1
  have htopM : pactTopE eps p clipY ≤ 2 ^ p - 1 := (pactTopE_range he hc p).2
  have hsf : pactSf eps p clipY = 1 / pactStepE eps p clipY := by
    unfold pactSf pactStepE; rw [one_div_div]
  have hlvl : fqLevel eps p clipY acc nb sw sx σx
      = clipInt 0 (pactTopE eps p clipY) ⌊fqPre acc nb sw sx σx / pactStepE eps p clipY⌋ := by
    unfold fqLevel
    rw [pactLevelE_eq_clip he hc, clipInt_eq, hsf, one_div, inv_mul_eq_div]
  have hm : matchOut acc s (nb * s) sh p
      = clipInt 0 (2 ^ p - 1) ⌊((acc * s + nb * s : ℤ) : ℚ) / pow2 sh⌋ := by
    unfold matchOut requant; rw [floor_eq]
  rw [hlvl, hm]
  refine le_trans (clip_floor_error _ _ _ _ htop0 htopM) ?_
  rw [preact_gap]
  have := abs_add_le (((acc + nb : ℤ) : ℚ) * ((s : ℚ) / pow2 sh - sw * sx / pactScale p clipY))
    (stabTerm acc nb sw sx σx (pactScale p clipY) (pactStepE eps p clipY))
  rw [abs_mul] at this
  have h6 : ∀ u v w z : ℚ, u ≤ v + w → 1 + u + z ≤ 1 + v + w + z := fun u v w z h => by linarith
  exact h6 _ _ _ _ this

/-- without stabiliser (`σ = s`, `top = M`) the bound is exactly "one level plus the bound implied
by the scale/shift approximation" -/
theorem layer_vs_fq_no_stab {clipY : ℚ} (hc : 0 < clipY) (p : ℕ)
    (acc nb s : ℤ) (sh : ℕ) (sw sx : ℚ) :
    ((|matchOut acc s (nb * s) sh p - fqLevel 0 p clipY acc nb sw sx sx| : ℤ) : ℚ)
      ≤ 1 + |((acc + nb : ℤ) : ℚ)| * |(s : ℚ) / pow2 sh - sw * sx / pactScale p clipY| := by
  have h := layer_vs_fq (le_refl (0 : ℚ)) hc p acc nb s sh sw sx sx
  have hstep : pactStepE 0 p clipY = pactScale p clipY := by unfold pactStepE pactScale; simp
  rw [hstep, stabTerm_no_stab, abs_zero] at h
  have htop : pactTopE 0 p clipY = 2 ^ p - 1 := by
    unfold pactTopE pactSf
    rw [floor_eq, add_zero, div_mul_cancel₀ _ hc.ne', nSteps_eq]
    have : (2 : ℚ) ^ p - 1 = (((2 : ℤ) ^ p - 1 : ℤ) : ℚ) := by push_cast; rfl
    rw [this, Int.floor_intCast]
  rw [htop] at h
  have hz : max (0 : ℤ) (2 ^ p - 1 - 1 - (2 ^ p - 1)) = 0 := max_eq_left (by omega)
  rw [hz] at h
  simpa using h

/-! ## MAUPITI: offset inputs, zero-point, padding value -/

/-- **the zero-point compensates the input offset for every pair of precisions** (after fix
cf7b52f): feeding the offset inputs `x + in_offset` (padding positions hold `in_offset`, the image
of a real 0) and adding the zero-point gives the MATCH output shifted by `clip_inf = -2^(p_out-1)`.
No relation between `p_in` and `p_out` is needed. -/
theorem maupiti_zero_point_compensates (w x : List ℤ) (hl : w.length = x.length)
    (s addBias : ℤ) (sh pIn : ℕ) {pOut : ℕ} (hp : 1 ≤ pOut) :
    maupitiOut (dot w (x.map (· + inOffset pIn))) s (zeroPoint addBias s w.sum sh pIn pOut) sh pOut
      = matchOut (dot w x) s addBias sh pOut + clipInf pOut := by
  unfold maupitiOut matchOut requant zeroPoint
  rw [dot_shift _ w x hl]
  have e : (dot w x + inOffset pIn * w.sum) * s +
      (addBias + clipInf pOut * 2 ^ sh - inOffset pIn * s * w.sum)
      = (dot w x * s + addBias) + clipInf pOut * 2 ^ sh := by ring
  rw [e, floor_add_mul_pow2]
  have hc : clipSup pOut = (2 ^ pOut - 1) + clipInf pOut := by
    unfold clipSup clipInf
    obtain ⟨k, rfl⟩ : ∃ k, pOut = k + 1 := ⟨pOut - 1, by omega⟩
    simp [pow_succ]; ring
  have key := clipInt_add 0 (2 ^ pOut - 1) (((dot w x * s + addBias : ℤ) : ℚ) / pow2 sh).floor (clipInf pOut)
  rw [zero_add] at key
  rw [hc]
  exact key

/-- the code before fix cf7b52f took the offset from the *output* precision: with `p_in = 2`,
`p_out = 8` a single unit weight and unit input give `-1` instead of `-127` -/
theorem maupiti_prefix_zero_point_wrong :
    maupitiOut (dot [1] [1 + inOffset 2]) 1 (0 + clipInf 8 * 1 - clipInf 8 * 1 * 1) 0 8 = -1 ∧
    matchOut (dot [1] [1]) 1 0 0 8 + clipInf 8 = -127 ∧
    maupitiOut (dot [1] [1 + inOffset 2]) 1 (zeroPoint 0 1 1 0 2 8) 0 8 = -127 := by
  decide +kernel

/-- **MAUPITI padding** (after fix d66c6a7): each spatial axis is padded by its own amount — the
padded channel has `H + 2·padding[0]` rows, every row of an `H×W` channel becomes `W + 2·padding[1]`
wide — the interior is the input, and everything else holds the pad value (`in_offset`, the integer
image of a real 0, so that `maupiti_zero_point_compensates` covers padded positions). -/
theorem maupiti_pad_shape (p0 p1 : ℕ) (v : ℤ) (x : List (List ℤ)) (W : ℕ) (hW : ∀ r ∈ x, r.length = W)
    (hx : x ≠ []) :
    (padGrid p0 p1 v x).length = x.length + 2 * p0 ∧
    ∀ r ∈ padGrid p0 p1 v x, r.length = W + 2 * p1 := by
  have hhead : (x.headD []).length = W := by
    cases x with
    | nil => exact absurd rfl hx
    | cons a t => exact hW a (by simp)
  unfold padGrid
  simp only [hhead]
  constructor
  · simp; omega
  · intro r hr
    simp only [List.mem_append, List.mem_replicate, List.mem_map] at hr
    rcases hr with (⟨_, rfl⟩ | ⟨a, ha, rfl⟩) | ⟨_, rfl⟩
    · simp
    · unfold padRow; simp [hW a ha]; omega
    · simp

theorem maupiti_pad_interior (p0 p1 : ℕ) (v : ℤ) (x : List (List ℤ)) (i j : ℕ) (hi : i < x.length)
    (hj : j < (x.getD i []).length) :
    ((padGrid p0 p1 v x).getD (p0 + i) []).getD (p1 + j) v = (x.getD i []).getD j v := by
  unfold padGrid
  simp only [List.getD_eq_getElem?_getD]
  have h1 : (List.replicate p0 (List.replicate ((x.headD []).length + 2 * p1) v) ++ List.map (padRow p1 v) x ++
      List.replicate p0 (List.replicate ((x.headD []).length + 2 * p1) v))[p0 + i]? = some (padRow p1 v (x[i])) := by
    rw [List.append_assoc, List.getElem?_append_right (by simp)]
    have hi' : p0 + i - (List.replicate p0 (List.replicate ((x.headD []).length + 2 * p1) v)).length = i := by simp
    rw [hi', List.getElem?_append_left (by simpa using hi), List.getElem?_map, List.getElem?_eq_getElem hi]
    rfl
  have hxi : x[i]? = some x[i] := List.getElem?_eq_getElem hi
  rw [h1, hxi]
  simp only [Option.getD_some]
  have hj' : j < (x[i]).length := by
    simpa [List.getD_eq_getElem?_getD, hxi] using hj
  unfold padRow
  rw [List.append_assoc, List.getElem?_append_right (by simp)]
  have hj2 : p1 + j - (List.replicate p1 v).length = j := by simp
  rw [hj2, List.getElem?_append_left hj', List.getElem?_eq_getElem hj']

/-- the pad value is the integer image of a real zero -/
theorem maupiti_pad_value_is_zero_image (pIn : ℕ) : (0 : ℤ) + inOffset pIn = inOffset pIn := zero_add _

/-- **last MAUPITI layer** (Linear, or a final Conv2d: `w`, `x` are then the kernel and the — padded —
receptive field): the un-floored output is `(acc + n_b)·scale/2^shift`, the
offset being compensated exactly -/
theorem maupiti_last_layer (w x : List ℤ) (hl : w.length = x.length) (s nb : ℤ) (sh pIn : ℕ) :
    maupitiLast (dot w (x.map (· + inOffset pIn))) s (zeroPointLast (nb * s) s w.sum pIn) sh
      = ((dot w x + nb : ℤ) : ℚ) * ((s : ℚ) / pow2 sh) := by
  unfold maupitiLast zeroPointLast
  rw [dot_shift _ w x hl]
  have e : (dot w x + inOffset pIn * w.sum) * s + (nb * s - inOffset pIn * s * w.sum)
      = (dot w x + nb) * s := by ring
  rw [e]; push_cast; ring

/-- hence it **is the real-valued logit** up to the scale/shift approximation of `s_x·s_w`
(`s_y = 1`) and the stabiliser of the input quantizer -/
theorem maupiti_last_layer_error (acc nb s : ℤ) (sh : ℕ) (sw sx σx : ℚ) :
    |((acc + nb : ℤ) : ℚ) * ((s : ℚ) / pow2 sh) - fqPre acc nb sw sx σx|
      ≤ |((acc + nb : ℤ) : ℚ)| * |(s : ℚ) / pow2 sh - sx * sw| + |(acc : ℚ) * sw * (σx - sx)| := by
  have e : ((acc + nb : ℤ) : ℚ) * ((s : ℚ) / pow2 sh) - fqPre acc nb sw sx σx
      = ((acc + nb : ℤ) : ℚ) * ((s : ℚ) / pow2 sh - sx * sw) + -((acc : ℚ) * sw * (σx - sx)) := by
    unfold fqPre; push_cast; ring
  rw [e]
  refine le_trans (abs_add_le _ _) ?_
  rw [abs_mul, abs_neg]

/-- **last MATCH layer**: output × (input scale × weight scale) is the real-valued logit up to the
stabiliser of the input quantizer (an identity of ℚ; exact when `σx = s_x`) -/
theorem match_last_layer (acc nb : ℤ) (sw sx σx : ℚ) :
    (matchLast acc nb : ℚ) * (sx * sw) = fqPre acc nb sw sx σx - (acc : ℚ) * sw * (σx - sx) := by
  unfold matchLast fqPre; push_cast; ring

/-! ## dilation: zero-stuffed kernel -/

/-- length of the zero-stuffed kernel: `k·d − (d − 1)` -/
theorem stuffed_length {d : ℕ} (hd : 1 ≤ d) (w : List ℤ) : (stuff d w).length = w.length * d - (d - 1) := by
  rw [stuff_eq_part]; exact (stuffPart_inv hd w w.length le_rfl).1

/-- tap `i` sits at position `i·d`, every other position is zero -/
theorem stuffed_taps {d : ℕ} (hd : 1 ≤ d) (w : List ℤ) :
    (∀ i, i < w.length → (stuff d w).getD (i * d) 0 = w.getD i 0) ∧
    (∀ j, (∀ i, i < w.length → j ≠ i * d) → (stuff d w).getD j 0 = 0) := by
  rw [stuff_eq_part]
  exact ⟨(stuffPart_inv hd w w.length le_rfl).2.1, (stuffPart_inv hd w w.length le_rfl).2.2.1⟩

/-- **zero-stuffed kernel = dilated kernel**: correlating any signal with the stuffed kernel at
dilation 1 equals correlating it with the original kernel at dilation `d` (on either spatial axis:
the other kernel dimension is 1) -/
theorem zero_stuffed_kernel_eq_dilated {d : ℕ} (hd : 1 ≤ d) (w : List ℤ) (x : ℕ → ℤ) (t : ℕ) :
    corrDil 1 (stuff d w) x t = corrDil d w x t := by
  unfold corrDil
  rw [list_sum_range, list_sum_range, stuffed_length hd]
  have := (stuffPart_inv hd w w.length le_rfl).2.2.2 (fun j => x (t + j * 1))
  rw [← stuff_eq_part] at this
  rw [this]
  simp

/-! ## the hypotheses are satisfiable; concrete values -/

example : bsearch (1 / 8) (3 / 10) 1 32 = 3 ∧ bsearch (1 / 8) 100 1 32 = 32 ∧ bsearch (1 / 8) 0 1 32 = 1 := by
  decide +kernel
example : intApprox 16 32 [3 / 1000] [10000000] = some ([197], 16) := by decide +kernel
example : intApprox 16 32 [] [] = none := by decide +kernel
example : stuff 2 [1, 2, 3] = [1, 0, 2, 0, 3] ∧ stuff 3 [5, 7] = [5, 0, 0, 7] := by decide +kernel
example : padGrid 1 0 (-2) [[1, 2], [3, 4]] = [[-2, -2], [1, 2], [3, 4], [-2, -2]] ∧
    padGrid 0 1 (-2) [[1, 2]] = [[-2, 1, 2, -2]] := by decide +kernel
example : matchOut 1000 3 5 4 8 = 187 ∧ matchOut (-1000) 3 5 4 8 = 0 ∧ matchOut 100000 3 5 4 8 = 255 := by
  decide +kernel

end PlinioVerif.C14
