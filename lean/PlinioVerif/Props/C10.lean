import PlinioVerif.Lemmas.Sampling
import Mathlib.Analysis.Complex.Exponential
/-!
# C10 — what is evaluated, what is reported and what is exported are the same choice

Property theorems only.  `Sampling.step` is the model of `update_softmax_options` / `train()` /
`eval()` / `forward` of the MPS quantizers and of the SuperNet combiner (tied to the code by
`harness/props/c10.py`).  `F` is any linearly ordered field ("all reals"; `ℚ` for execution), `g`
any positive strictly monotone function (instantiated with `Real.exp` at the end, and with the
rational stand-in the driver executes).  A coefficient tensor is a list of columns, one per
decision (one column: per-layer quantizer / combiner; `cout` columns: per-channel quantizer).

Two modes are *exceptions* to "eval ⇒ one-hot at the arg-max" on the code as it is; both are
stated, and the unrestricted claim is refuted on a witness:
`SuperNetCombiner` in eval mode with `hard_softmax = False` (soft), and MPS quantizers with
`disable_sampling = True` (the buffer keeps whatever it held).
-/
set_option linter.unusedSectionVars false
namespace PlinioVerif.C10
open PlinioVerif.Sampling
variable {F : Type} [Field F] [LinearOrder F] [IsStrictOrderedRing F]

/-! ## value level: softmax, Gumbel softmax, one-hot -/

/-- softmax entries are strictly positive (in particular non-negative) -/
theorem softmax_pos (g : F → F) (hg : ∀ x, 0 < g x) (T : F) (α : List F) :
    ∀ x ∈ softmax g T α, 0 < x := by
  intro x hx
  have hα : α ≠ [] := by
    rintro rfl
    simp [softmax] at hx
  rw [softmax_eq_map] at hx
  simp only [List.mem_map] at hx
  obtain ⟨a, _, rfl⟩ := hx
  exact div_pos (hg _) (Z_pos g hg T α hα)

/-- **probability vector**: the sampled coefficients are non-negative and sum to one, for every
coefficient vector and every temperature (even a non-positive one) -/
theorem softmax_prob (g : F → F) (hg : ∀ x, 0 < g x) (T : F) (α : List F) (hα : α ≠ []) :
    IsProb (softmax g T α) := by
  refine ⟨fun x hx => le_of_lt (softmax_pos g hg T α x hx), ?_⟩
  unfold softmax
  simp only
  rw [sum_map_div]
  exact div_self (ne_of_gt (Z_pos g hg T α hα))

/-- **per channel**: for a per-channel quantizer every column of the sampled matrix is a
probability vector (`softmax(..., dim=0)` on an `(n, cout)` tensor) -/
theorem softmax_cols_prob (g : F → F) (hg : ∀ x, 0 < g x) (T : F) (α : List (List F))
    (hα : ∀ a ∈ α, a ≠ []) (noise prev : List (List F)) :
    ∀ col ∈ sampleCols g .soft T α noise prev, IsProb col := by
  intro col hc
  obtain ⟨j, hj⟩ := List.getElem?_of_mem hc
  rw [sampleCols_getElem? g .soft (by decide)] at hj
  cases ha : α[j]? with
  | none => simp [ha] at hj
  | some a =>
    simp only [ha, Option.map_some, Option.some.injEq] at hj
    subst hj
    exact softmax_prob g hg T a (hα a (List.mem_of_getElem? ha))

/-- softmax is order preserving: a larger raw coefficient gets a larger share -/
theorem softmax_order (g : F → F) (hg : ∀ x, 0 < g x) (hm : StrictMono g) (T : F) (hT : 0 < T)
    (α : List F) (hα : α ≠ []) (a b : F) (hab : a < b) :
    g (a / T) / Z g T α < g (b / T) / Z g T α :=
  softmax_entry_strictMono g hg hm T hT α hα hab

/-- **arg-max**: the arg-max of the normalised `g(α/T)` is the arg-max of the raw coefficients,
for every positive temperature -/
theorem softmax_argmax (g : F → F) (hg : ∀ x, 0 < g x) (hm : StrictMono g) (T : F) (hT : 0 < T)
    (α : List F) : argmax (softmax g T α) = argmax α :=
  argmax_softmax g hg hm T hT α

/-- the arg-max position holds a largest raw coefficient ("located at the largest raw
coefficient"), and it is the first such position -/
theorem argmax_is_largest (α : List F) (hα : α ≠ []) :
    argmax α < α.length ∧ ∀ x ∈ α, ∃ m, α[argmax α]? = some m ∧ x ≤ m :=
  ⟨argmax_lt_length α hα, argmax_max α⟩

/-- without ties the arg-max is *the* position of the strict maximum -/
theorem argmax_unique (α : List F) (hnd : α.Nodup) (i : Nat) (x m : F) (hi : α[i]? = some x)
    (hm : α[argmax α]? = some m) (hne : i ≠ argmax α) : x < m := by
  obtain ⟨m', hm', hle⟩ := argmax_max α x (List.mem_of_getElem? hi)
  rw [hm] at hm'
  cases hm'
  rcases lt_or_eq_of_le hle with h | h
  · exact h
  · exfalso
    subst h
    have h1 := (List.getElem?_eq_some_iff.mp hi)
    have h2 := (List.getElem?_eq_some_iff.mp hm)
    obtain ⟨hi', hxi⟩ := h1
    obtain ⟨hk', hxk⟩ := h2
    exact hne ((List.Nodup.getElem_inj_iff hnd).mp (hxi.trans hxk.symm))

/-- **Gumbel, soft**: with Gumbel noise the coefficients stay a probability vector, for every
noise vector -/
theorem gumbel_soft_prob (g : F → F) (hg : ∀ x, 0 < g x) (T : F) (α noise prev : List F)
    (hα : α ≠ []) : IsProb (sampleCol g .gumbelSoft T α noise prev) :=
  softmax_prob g hg T _ (addNoise_ne_nil α noise hα)

/-- **Gumbel, hard**: one-hot (hence a probability vector) for every noise vector; the position is
the arg-max of the *perturbed* coefficients -/
theorem gumbel_hard_onehot (g : F → F) (hg : ∀ x, 0 < g x) (hm : StrictMono g) (T : F)
    (hT : 0 < T) (α noise prev : List F) (hα : α ≠ []) :
    IsOneHotAt (sampleCol g .gumbelHard T α noise prev) (argmax (addNoise α noise)) ∧
    IsProb (sampleCol g .gumbelHard T α noise prev) := by
  have hlt : argmax (addNoise α noise) < α.length := by
    have := argmax_lt_length _ (addNoise_ne_nil α noise hα)
    rwa [addNoise_length] at this
  simp only [sampleCol, softmax_argmax g hg hm T hT]
  exact ⟨onehot_isOneHotAt _ _ hlt, onehot_isProb _ _ hlt⟩

/-- the straight-through arg-max of the softmax is the one-hot at the largest **raw** coefficient,
and a one-hot vector is a probability vector -/
theorem hard_onehot_at_argmax (g : F → F) (hg : ∀ x, 0 < g x) (hm : StrictMono g) (T : F)
    (hT : 0 < T) (α noise prev : List F) (hα : α ≠ []) :
    sampleCol g .hardArgmax T α noise prev = onehot α.length (argmax α) ∧
    IsOneHotAt (sampleCol g .hardArgmax T α noise prev) (argmax α) ∧
    IsProb (sampleCol g .hardArgmax T α noise prev) := by
  have hlt := argmax_lt_length α hα
  have e : sampleCol g .hardArgmax T α noise prev = onehot α.length (argmax α) := by
    simp only [sampleCol, softmax_argmax g hg hm T hT]
  rw [e]
  exact ⟨rfl, onehot_isOneHotAt _ _ hlt, onehot_isProb _ _ hlt⟩

/-- whatever is *sampled* (any kind but `keep`) is a probability vector -/
theorem sampled_is_prob (g : F → F) (hg : ∀ x, 0 < g x) (hm : StrictMono g) (T : F) (hT : 0 < T)
    (k : Kind) (hk : k ≠ .keep) (α noise prev : List F) (hα : α ≠ []) :
    IsProb (sampleCol g k T α noise prev) := by
  cases k with
  | keep => exact absurd rfl hk
  | soft => exact softmax_prob g hg T α hα
  | hardArgmax => exact (hard_onehot_at_argmax g hg hm T hT α noise prev hα).2.2
  | gumbelSoft => exact gumbel_soft_prob g hg T α noise prev hα
  | gumbelHard => exact (gumbel_hard_onehot g hg hm T hT α noise prev hα).2

/-! ## mode level: which kind of sample each class takes in which mode -/

/-- closed form of the MPS rule (`MPSPerLayerQtz`, `MPSPerChannelQtz`): a function of the four
flags only -/
theorem mps_mode_closed_form (cls : Cls) (hc : cls ≠ .snComb) (o : Opts F) :
    kindOf cls (mpsChoose o) o =
      if o.disable then .keep
      else if !o.training then .hardArgmax
      else if o.gumbel then (if o.hard then .gumbelHard else .gumbelSoft)
      else if o.hard then .hardArgmax else .soft := by
  cases cls <;> simp_all [kindOf, mpsChoose, mpsSmKind] <;>
    cases o.disable <;> cases o.training <;> cases o.gumbel <;> cases o.hard <;> simp

/-- closed form of the `SuperNetCombiner` rule: eval mode does **not** harden the sample -/
theorem sn_mode_closed_form (o : Opts F) :
    kindOf .snComb (snChoose o) o =
      if o.gumbel && o.training then (if o.hard then .gumbelHard else .gumbelSoft)
      else if o.hard then .hardArgmax else .soft := by
  simp [kindOf, snChoose, snSmKind]
  cases o.training <;> cases o.gumbel <;> cases o.hard <;> simp

/-- **MPS, eval or hard non-Gumbel**: with sampling enabled, in eval mode and in training with
hard non-Gumbel sampling, every column written by a forward pass is the one-hot at the largest raw
coefficient of that column (per channel for per-channel quantizers) -/
theorem eval_or_hard_is_onehot_at_argmax (g : F → F) (hg : ∀ x, 0 < g x) (hm : StrictMono g)
    (s : State F) (hc : s.cls ≠ .snComb) (hok : SamplerOK s) (hT : 0 < s.o.temperature)
    (hen : s.o.disable = false)
    (hmode : s.o.training = false ∨ (s.o.hard = true ∧ s.o.gumbel = false))
    (noise : List (List F)) (j : Nat) (a : List F) (ha : s.alpha[j]? = some a) (hne : a ≠ []) :
    (step g s (.forward noise)).theta[j]? = some (onehot a.length (argmax a)) := by
  have hs : s.sampler = mpsChoose s.o := by
    unfold SamplerOK at hok
    cases hcls : s.cls <;> simp_all
  have hk : kindOf s.cls s.sampler s.o = .hardArgmax := by
    rw [hs, mps_mode_closed_form s.cls hc]
    rcases hmode with h | ⟨h1, h2⟩
    · simp [hen, h]
    · cases htr : s.o.training <;> simp [hen, h1, h2]
  simp only [step, hk]
  rw [sampleCols_getElem? g .hardArgmax (by decide), ha]
  simp only [Option.map_some, Option.some.injEq]
  exact (hard_onehot_at_argmax g hg hm _ hT a _ _ hne).1

/-- **MPS, training with Gumbel noise**: probability vector per column; one-hot if hard -/
theorem mps_gumbel_training (g : F → F) (hg : ∀ x, 0 < g x) (hm : StrictMono g)
    (s : State F) (hc : s.cls ≠ .snComb) (hok : SamplerOK s) (hT : 0 < s.o.temperature)
    (hen : s.o.disable = false) (htr : s.o.training = true) (hgu : s.o.gumbel = true)
    (noise : List (List F)) (j : Nat) (a : List F) (ha : s.alpha[j]? = some a) (hne : a ≠ []) :
    ∃ col, (step g s (.forward noise)).theta[j]? = some col ∧ IsProb col ∧
      (s.o.hard = true → IsOneHotAt col (argmax (addNoise a (noise.getD j [])))) := by
  have hs : s.sampler = mpsChoose s.o := by
    unfold SamplerOK at hok
    cases hcls : s.cls <;> simp_all
  have hk : kindOf s.cls s.sampler s.o = if s.o.hard then .gumbelHard else .gumbelSoft := by
    rw [hs, mps_mode_closed_form s.cls hc]
    simp [hen, htr, hgu]
  cases hh : s.o.hard with
  | false =>
    simp only [hh, Bool.false_eq_true, if_false] at hk
    refine ⟨_, ?_, gumbel_soft_prob g hg s.o.temperature a (noise.getD j []) (s.theta.getD j []) hne,
      by simp⟩
    simp only [step, hk]
    rw [sampleCols_getElem? g .gumbelSoft (by decide), ha]
    rfl
  | true =>
    simp only [hh, if_true] at hk
    have := gumbel_hard_onehot g hg hm s.o.temperature hT a (noise.getD j []) (s.theta.getD j []) hne
    refine ⟨_, ?_, this.2, fun _ => this.1⟩
    simp only [step, hk]
    rw [sampleCols_getElem? g .gumbelHard (by decide), ha]
    rfl

/-- **MPS, soft training**: plain softmax in training without hard/Gumbel is a probability vector
with the same arg-max as the raw coefficients (so the *largest share* is still the reported one) -/
theorem mps_soft_training (g : F → F) (hg : ∀ x, 0 < g x) (hm : StrictMono g)
    (s : State F) (hc : s.cls ≠ .snComb) (hok : SamplerOK s) (hT : 0 < s.o.temperature)
    (hen : s.o.disable = false) (htr : s.o.training = true) (hgu : s.o.gumbel = false)
    (hh : s.o.hard = false)
    (noise : List (List F)) (j : Nat) (a : List F) (ha : s.alpha[j]? = some a) (hne : a ≠ []) :
    ∃ col, (step g s (.forward noise)).theta[j]? = some col ∧ IsProb col ∧
      argmax col = argmax a := by
  have hs : s.sampler = mpsChoose s.o := by
    unfold SamplerOK at hok
    cases hcls : s.cls <;> simp_all
  have hk : kindOf s.cls s.sampler s.o = .soft := by
    rw [hs, mps_mode_closed_form s.cls hc]
    simp [hen, htr, hgu, hh]
  refine ⟨softmax g s.o.temperature a, ?_, softmax_prob g hg _ a hne, softmax_argmax g hg hm _ hT a⟩
  simp only [step, hk]
  rw [sampleCols_getElem? g .soft (by decide), ha]
  rfl

/-- **exception 1 (MPS, `disable_sampling`)**: with sampling disabled a forward pass writes
nothing — in every mode, eval included -/
theorem mps_disabled_forward_keeps (g : F → F) (s : State F) (hc : s.cls ≠ .snComb)
    (hok : SamplerOK s) (hdis : s.o.disable = true) (noise : List (List F)) :
    (step g s (.forward noise)).theta = s.theta ∧ (step g s (.forward noise)).src = s.src := by
  have hs : s.sampler = mpsChoose s.o := by
    unfold SamplerOK at hok
    cases hcls : s.cls <;> simp_all
  have hk : kindOf s.cls s.sampler s.o = .keep := by
    rw [hs, mps_mode_closed_form s.cls hc]; simp [hdis]
  simp [step, hk, sampleCols]

/-- **SuperNet, hard**: with `hard_softmax` the combiner's coefficients are the one-hot at the
largest raw coefficient, in eval mode and in non-Gumbel training
(`…_partial`: the full claim "eval ⇒ one-hot" is false for this class, see
`sn_eval_soft_is_not_onehot`) -/
theorem sn_eval_or_hard_is_onehot_at_argmax_partial (g : F → F) (hg : ∀ x, 0 < g x)
    (hm : StrictMono g) (s : State F) (hc : s.cls = .snComb) (hok : SamplerOK s)
    (hT : 0 < s.o.temperature) (hh : s.o.hard = true)
    (hmode : s.o.training = false ∨ s.o.gumbel = false)
    (noise : List (List F)) (j : Nat) (a : List F) (ha : s.alpha[j]? = some a) (hne : a ≠ []) :
    (step g s (.forward noise)).theta[j]? = some (onehot a.length (argmax a)) := by
  have hs : s.sampler = snChoose s.o := by
    unfold SamplerOK at hok
    simp_all
  have hk : kindOf s.cls s.sampler s.o = .hardArgmax := by
    rw [hs, hc, sn_mode_closed_form]
    rcases hmode with h | h <;> simp [hh, h]
  simp only [step, hk]
  rw [sampleCols_getElem? g .hardArgmax (by decide), ha]
  simp only [Option.map_some, Option.some.injEq]
  exact (hard_onehot_at_argmax g hg hm _ hT a _ _ hne).1

/-- **SuperNet, every mode**: the combiner's coefficients are a probability vector whose arg-max —
when no Gumbel noise is drawn — is the arg-max of the raw coefficients -/
theorem sn_forward_is_prob (g : F → F) (hg : ∀ x, 0 < g x) (hm : StrictMono g)
    (s : State F) (hc : s.cls = .snComb) (hok : SamplerOK s) (hT : 0 < s.o.temperature)
    (noise : List (List F)) (j : Nat) (a : List F) (ha : s.alpha[j]? = some a) (hne : a ≠ []) :
    ∃ col, (step g s (.forward noise)).theta[j]? = some col ∧ IsProb col ∧
      ((s.o.training = false ∨ s.o.gumbel = false) → argmax col = argmax a) := by
  have hs : s.sampler = snChoose s.o := by
    unfold SamplerOK at hok
    simp_all
  have hkne : kindOf s.cls s.sampler s.o ≠ .keep := by
    rw [hs, hc, sn_mode_closed_form]
    cases s.o.training <;> cases s.o.gumbel <;> cases s.o.hard <;> simp
  refine ⟨sampleCol g (kindOf s.cls s.sampler s.o) s.o.temperature a (noise.getD j [])
      (s.theta.getD j []), ?_, sampled_is_prob g hg hm _ hT _ hkne a _ _ hne, ?_⟩
  · simp only [step]
    rw [sampleCols_getElem? g _ hkne, ha]
    rfl
  · intro hmode
    apply argmax_sampleCol_noiseless g hg hm _ hT _ _ a _ _ hne
    rw [hs, hc, sn_mode_closed_form]
    rcases hmode with h | h <;> cases hh : s.o.hard <;> simp [h, hh]

/-! ## the two exceptions: the unrestricted claim is false on the code as it is -/

/-- a `SuperNetCombiner` in eval mode, `hard_softmax = False`, raw coefficients `(0, 1)` -/
def snEvalSoft : State ℚ :=
  { initSn (F := ℚ) [[0, 1]] false false with
    o := { training := false, hard := false, gumbel := false, disable := false, temperature := 1 } }

/-- **exception 2 (K1)**: in eval mode with `hard_softmax = False` the combiner evaluates the soft
mixture `(1/3, 2/3)` (with the stand-in `g`), not the one-hot of the branch that is exported -/
theorem sn_eval_soft_is_not_onehot :
    snEvalSoft.cls = .snComb ∧ snEvalSoft.o.training = false ∧
    snEvalSoft.sampler = snChoose snEvalSoft.o ∧
    (step gq snEvalSoft (.forward [])).theta = [[1/3, 2/3]] ∧
    ([1/3, 2/3] : List ℚ) ≠ onehot 2 (exportBranch ([0, 1] : List ℚ)) := by
  decide +kernel

/-- the full-strength claim "eval mode ⇒ one-hot at the arg-max" is **false** for
`SuperNetCombiner` (it holds with `hard_softmax`: `sn_eval_or_hard_is_onehot_at_argmax_partial`) -/
theorem sn_eval_is_onehot_at_argmax_false :
    ¬ ∀ (s : State ℚ), s.cls = .snComb → SamplerOK s → 0 < s.o.temperature →
        s.o.training = false → ∀ (noise : List (List ℚ)) (j : Nat) (a : List ℚ),
        s.alpha[j]? = some a → a ≠ [] →
        (step gq s (.forward noise)).theta[j]? = some (onehot a.length (argmax a)) := by
  intro h
  have := h snEvalSoft rfl (by unfold SamplerOK; decide) (by decide) rfl [] 0 [0, 1] rfl (by simp)
  revert this
  decide +kernel

/-- an `MPSPerLayerQtz` built with raw coefficients `(0, 1)` (its constructor samples the soft
`(1/3, 2/3)`), then `update_softmax_options(disable_sampling=True)`, then `eval()` -/
def mpsDisabledEval : State ℚ :=
  run gq (initMps gq .mpsLayer { temperature := 1 } [[0, 1]] [])
    [.update none none none (some true), .eval]

/-- **exception 1**: reachable through the public calls, in eval mode, a forward pass with
`disable_sampling=True` leaves the stale soft `(1/3, 2/3)` in place — not the one-hot of the
alternative that `summary()`/`export()` select -/
theorem mps_disabled_eval_is_not_onehot :
    mpsDisabledEval.o.training = false ∧ mpsDisabledEval.o.disable = true ∧
    (step gq mpsDisabledEval (.forward [])).theta = [[1/3, 2/3]] ∧
    ([1/3, 2/3] : List ℚ) ≠ onehot 2 (exportIdx ([0, 1] : List ℚ)) := by
  decide +kernel

/-- the full-strength claim without the `disable_sampling = False` hypothesis is **false** for MPS
quantizers -/
theorem mps_eval_is_onehot_at_argmax_false :
    ¬ ∀ (s : State ℚ), s.cls ≠ .snComb → SamplerOK s → 0 < s.o.temperature →
        s.o.training = false → ∀ (noise : List (List ℚ)) (j : Nat) (a : List ℚ),
        s.alpha[j]? = some a → a ≠ [] →
        (step gq s (.forward noise)).theta[j]? = some (onehot a.length (argmax a)) := by
  intro h
  have := h mpsDisabledEval (by decide) (by unfold SamplerOK; decide +kernel) (by decide +kernel)
    (by decide +kernel) [] 0 [0, 1] (by decide +kernel) (by simp)
  revert this
  decide +kernel

/-! ## what is evaluated = what is reported = what is exported -/

/-- **MPS**: in eval mode (and hard non-Gumbel training) with sampling enabled, for every decision
`j` the weights of the evaluated mix are the one-hot of `k = argmax alpha_j`; `k` is the index
`summary()` reports (`selected_*_precision = precision[k]`) and the index of the quantizer
`export()` materialises (`selected_*_quantizer = qtz_funcs[k]`); the forward pass does not move
the raw coefficients, so this still holds when `summary()`/`export()` are called after it -/
theorem selected_eq_sampled_eq_exported (g : F → F) (hg : ∀ x, 0 < g x) (hm : StrictMono g)
    (s : State F) (hc : s.cls ≠ .snComb) (hok : SamplerOK s) (hT : 0 < s.o.temperature)
    (hen : s.o.disable = false)
    (hmode : s.o.training = false ∨ (s.o.hard = true ∧ s.o.gumbel = false))
    (noise : List (List F)) (j : Nat) (a : List F) (ha : s.alpha[j]? = some a) (hne : a ≠ [])
    (precs : List Int) :
    let s' := step g s (.forward noise)
    s'.theta[j]? = some (onehot a.length (argmax a)) ∧
    (selectedIdx s'.alpha)[j]? = some (argmax a) ∧
    (selectedPrecision precs s'.alpha)[j]? = some (precs.getD (argmax a) 0) ∧
    exportIdx a = argmax a ∧ argmax a < a.length := by
  refine ⟨eval_or_hard_is_onehot_at_argmax g hg hm s hc hok hT hen hmode noise j a ha hne,
    ?_, ?_, rfl, argmax_lt_length a hne⟩
  · simp [step, selectedIdx, ha]
  · unfold selectedPrecision selectedIdx
    simp [step, ha]

/-- **per-channel export**: the exported sub-layers partition the channels by selected precision —
every channel sits in the group of the precision `summary()` reports for it, in no other, and no
precision has two groups -/
theorem export_groups_partition (precs : List Int) (α : List (List F)) :
    ((exportGroups precs α).map Prod.fst).Nodup ∧
    (∀ c, c < α.length → ∃ chans, ((selectedPrecision precs α).getD c 0, chans) ∈
        exportGroups precs α ∧ c ∈ chans) ∧
    (∀ p chans, (p, chans) ∈ exportGroups precs α → ∀ c ∈ chans,
        c < α.length ∧ (selectedPrecision precs α).getD c 0 = p) := by
  have hlen : (selectedPrecision precs α).length = α.length := by
    unfold selectedPrecision selectedIdx
    simp only [List.length_map]
  unfold exportGroups
  simp only []
  generalize selectedPrecision precs α = sel at hlen ⊢
  refine ⟨?_, ?_, ?_⟩
  · simp only [List.map_map, Function.comp_def, List.map_id']
    exact firstSeen_nodup _
  · intro c hc
    refine ⟨_, List.mem_map.mpr ⟨sel.getD c 0, ?_, rfl⟩, ?_⟩
    · rw [mem_firstSeen]
      have hc' : c < sel.length := by rw [hlen]; exact hc
      have : sel.getD c 0 = sel[c] := by
        simp [List.getD_eq_getElem?_getD, List.getElem?_eq_getElem hc']
      rw [this]
      exact List.getElem_mem _
    · simp [hlen, hc]
  · intro p chans hmem c hcm
    simp only [List.mem_map] at hmem
    obtain ⟨q, _, hq⟩ := hmem
    cases hq
    simpa [hlen] using hcm

/-- **SuperNet**: `best_layer_index()`, the branch `export()` keeps and the arg-max of the
coefficients `summary()` reports are the same index, whatever the options; with `hard_softmax`
(eval or non-Gumbel training) it is also the one branch that is evaluated -/
theorem sn_selected_eq_reported_eq_exported (g : F → F) (hg : ∀ x, 0 < g x) (hm : StrictMono g)
    (o : Opts F) (hT : 0 < o.temperature) (a : List F) (hne : a ≠ []) :
    exportBranch a = argmax a ∧ argmax (snSummary g o a) = argmax a ∧
    IsProb (snSummary g o a) ∧ argmax a < a.length := by
  have hk : snSmKind o = .soft ∨ snSmKind o = .hardArgmax := by
    unfold snSmKind; cases o.hard <;> simp
  refine ⟨rfl, argmax_sampleCol_noiseless g hg hm _ hT _ hk a _ _ hne, ?_, argmax_lt_length a hne⟩
  exact sampled_is_prob g hg hm _ hT _ (by rcases hk with h | h <;> simp [h]) a _ _ hne

/-! ## the sampler state machine: closed-form mode after **every** sequence of calls -/

/-- the bound method `sample_alpha` agrees with the stored flags after every sequence of option
updates, mode switches, forward passes and coefficient writes (no length bound), from the state
the constructors build -/
theorem sampler_follows_flags (g : F → F) (ops : List (Op F)) (cls : Cls) (hc : cls ≠ .snComb)
    (o : Opts F) (a n : List (List F)) (gu h : Bool) :
    SamplerOK (run g (initMps g cls o a n) ops) ∧ SamplerOK (run g (initSn a gu h) ops) :=
  ⟨run_samplerOK g ops _ (initMps_samplerOK g cls hc o a n),
   run_samplerOK g ops _ (initSn_samplerOK a gu h)⟩

/-- the options after any history are the fold of the calls over the option record alone: forward
passes, coefficient writes and the sampled values never feed back into them -/
theorem options_closed_form (g : F → F) (s : State F) (ops : List (Op F)) :
    (run g s ops).o = ops.foldl (stepOpts s.cls) s.o ∧ (run g s ops).cls = s.cls :=
  ⟨run_o g ops s, run_cls g ops s⟩

/-- giving one option leaves the three others (and the mode) as they were -/
theorem update_single_option (g : F → F) (s : State F) (hc : s.cls ≠ .snComb) (t : F) (b : Bool) :
    (step g s (.update (some t) none none none)).o = { s.o with temperature := t } ∧
    (step g s (.update none (some b) none none)).o = { s.o with hard := b } ∧
    (step g s (.update none none (some b) none)).o = { s.o with gumbel := b } ∧
    (step g s (.update none none none (some b))).o = { s.o with disable := b } := by
  cases hcls : s.cls <;> simp_all [step, updOpts]

/-- **MPS, all histories**: after every sequence of calls the next forward pass writes what the
closed-form mode of the *current* flags says — nothing of the history matters except through the
four flags, the temperature, the raw coefficients and (when sampling is disabled) the buffer -/
theorem mps_forward_after_any_history (g : F → F) (cls : Cls) (hc : cls ≠ .snComb) (o : Opts F)
    (a n : List (List F)) (ops : List (Op F)) (noise : List (List F)) :
    let s := run g (initMps g cls o a n) ops
    (step g s (.forward noise)).theta =
      sampleCols g
        (if s.o.disable then .keep
         else if !s.o.training then .hardArgmax
         else if s.o.gumbel then (if s.o.hard then .gumbelHard else .gumbelSoft)
         else if s.o.hard then .hardArgmax else .soft)
        s.o.temperature s.alpha noise s.theta := by
  intro s
  have hok : SamplerOK s := run_samplerOK g ops _ (initMps_samplerOK g cls hc o a n)
  have hcls : s.cls = cls := by
    show (run g _ ops).cls = cls
    rw [run_cls]
    unfold initMps
    rw [step_cls]
  have hs : s.sampler = mpsChoose s.o := by
    unfold SamplerOK at hok
    rw [hcls] at hok
    cases cls <;> simp_all
  simp only [step, hs, hcls, mps_mode_closed_form cls hc]

/-- **MPS, all histories, eval**: after every sequence of calls that ends in eval mode with
sampling enabled, a forward pass makes every column the one-hot at the largest current raw
coefficient -/
theorem mps_eval_after_any_history (g : F → F) (hg : ∀ x, 0 < g x) (hm : StrictMono g)
    (cls : Cls) (hc : cls ≠ .snComb) (o : Opts F) (a n : List (List F)) (ops : List (Op F))
    (noise : List (List F)) :
    let s := run g (initMps g cls o a n) ops
    0 < s.o.temperature → s.o.disable = false → s.o.training = false →
    ∀ (j : Nat) (col : List F), s.alpha[j]? = some col → col ≠ [] →
      (step g s (.forward noise)).theta[j]? = some (onehot col.length (argmax col)) := by
  intro s hT hen hev j col hj hne
  have hok : SamplerOK s := run_samplerOK g ops _ (initMps_samplerOK g cls hc o a n)
  have hcls : s.cls ≠ .snComb := by
    show (run g _ ops).cls ≠ _
    rw [run_cls]
    unfold initMps
    rw [step_cls]
    exact hc
  exact eval_or_hard_is_onehot_at_argmax g hg hm s hcls hok hT hen (Or.inl hev) noise j col hj hne

/-- **SuperNet, all histories**: after every sequence of calls the next forward pass of a combiner
writes what the closed-form mode says: Gumbel only in training and only if chosen at construction,
one-hot exactly when `hard_softmax`, **soft otherwise — eval included** -/
theorem sn_forward_after_any_history (g : F → F) (a : List (List F)) (gu h : Bool)
    (ops : List (Op F)) (noise : List (List F)) :
    let s := run g (initSn a gu h) ops
    (step g s (.forward noise)).theta =
      sampleCols g
        (if s.o.gumbel && s.o.training then (if s.o.hard then .gumbelHard else .gumbelSoft)
         else if s.o.hard then .hardArgmax else .soft)
        s.o.temperature s.alpha noise s.theta ∧ s.o.gumbel = gu := by
  intro s
  have hok : SamplerOK s := run_samplerOK g ops _ (initSn_samplerOK a gu h)
  have hcls : s.cls = .snComb := by
    show (run g _ ops).cls = _
    rw [run_cls]; rfl
  have hs : s.sampler = snChoose s.o := by
    unfold SamplerOK at hok
    rw [hcls] at hok
    exact hok
  refine ⟨by simp only [step, hs, hcls, sn_mode_closed_form], ?_⟩
  have ho := run_o g ops (initSn a gu h)
  show (run g (initSn a gu h) ops).o.gumbel = gu
  rw [ho]
  have : ∀ (ops : List (Op F)) (o : Opts F),
      (ops.foldl (stepOpts .snComb) o).gumbel = o.gumbel := by
    intro ops
    induction ops with
    | nil => intro o; rfl
    | cons op ops ih =>
      intro o
      simp only [List.foldl_cons]
      rw [ih]
      cases op <;> rfl
  exact this ops _

/-- **MPS, all histories, sampling disabled**: from the moment sampling is disabled, no sequence of
mode switches, forward passes, coefficient writes and other option updates changes the buffer,
until sampling is enabled again: what is evaluated is whatever was sampled (or loaded) last -/
theorem disabled_keeps_theta (g : F → F) (s : State F) (hc : s.cls ≠ .snComb) (hok : SamplerOK s)
    (hd : s.o.disable = true) (ops : List (Op F)) (hops : ∀ op ∈ ops, NoReenable op) :
    (run g s ops).theta = s.theta ∧ (run g s ops).src = s.src :=
  ⟨(run_disabled g ops s hc hok hd hops).1, (run_disabled g ops s hc hok hd hops).2.1⟩

/-- what `summary()` and `export()` select depends on the raw coefficients only: no sequence of
option updates, mode switches and forward passes changes it -/
theorem selection_ignores_sampling_history (g : F → F) (s : State F) (ops : List (Op F))
    (hops : ∀ op ∈ ops, ∀ a, op ≠ .setAlpha a) (precs : List Int) :
    selectedIdx (run g s ops).alpha = selectedIdx s.alpha ∧
    selectedPrecision precs (run g s ops).alpha = selectedPrecision precs s.alpha ∧
    exportGroups precs (run g s ops).alpha = exportGroups precs s.alpha := by
  rw [run_alpha g ops s hops]
  exact ⟨rfl, rfl, rfl⟩

/-! ## instances: `Real.exp`, and the rational stand-in the driver executes -/

/-- the real softmax: probability vector with the arg-max of the raw coefficients, for every
temperature `T > 0` (in particular on `[0.05, 20]`) -/
theorem real_softmax (T : ℝ) (hT : 0 < T) (α : List ℝ) (hα : α ≠ []) :
    IsProb (softmax Real.exp T α) ∧ argmax (softmax Real.exp T α) = argmax α :=
  ⟨softmax_prob Real.exp Real.exp_pos T α hα,
   softmax_argmax Real.exp Real.exp_pos Real.exp_strictMono T hT α⟩

/-- the real eval-mode sample of an MPS quantizer column is the one-hot at the largest raw
coefficient -/
theorem real_hard_sample (T : ℝ) (hT : 0 < T) (α noise prev : List ℝ) (hα : α ≠ []) :
    sampleCol Real.exp .hardArgmax T α noise prev = onehot α.length (argmax α) :=
  (hard_onehot_at_argmax Real.exp Real.exp_pos Real.exp_strictMono T hT α noise prev hα).1

/-- the stand-in `gq` run by the driver satisfies the hypotheses of every theorem above, so the
discrete outcomes the driver prints are those of any admissible `g`, `exp` included -/
theorem standin_admissible : (∀ x, 0 < gq x) ∧ StrictMono gq := ⟨gq_pos, gq_strictMono⟩

/-! ## the hypotheses are satisfiable -/

example : ∃ s : State ℚ, s.cls ≠ .snComb ∧ SamplerOK s ∧ 0 < s.o.temperature ∧
    s.o.disable = false ∧ s.o.training = false ∧ s.alpha[0]? = some [0, 1] :=
  ⟨run gq (initMps gq .mpsLayer { temperature := 1 } [[0, 1]] []) [.eval], by decide,
   run_samplerOK gq _ _ (initMps_samplerOK gq .mpsLayer (by decide) _ _ _), by decide +kernel,
   by decide +kernel, by decide +kernel, by decide +kernel⟩

example : (step gq (run gq (initMps gq .mpsChannel { temperature := 1/20 } [[0, 1], [3, 2, 1]] [])
    [.eval]) (.forward [])).theta = [[0, 1], [1, 0, 0]] := by decide +kernel

/-- no temperature threshold: at `T = 1/20` the logits of `(1/2, 2, 3)` are `(10, 40, 60)`; the eval-mode
sample is the one-hot at the largest raw coefficient, not at the first entry beyond some saturation bound -/
example : (step gq (run gq (initMps gq .mpsLayer { temperature := 1/20 } [[1/2, 2, 3], [100, -100, 95]] [])
    [.eval]) (.forward [])).theta = [[0, 0, 1], [1, 0, 0]] := by decide +kernel

example : ∃ s : State ℚ, s.cls = .snComb ∧ SamplerOK s ∧ 0 < s.o.temperature ∧
    s.o.hard = true ∧ s.o.training = false :=
  ⟨run gq (initSn [[0, 1]] true true) [.eval], rfl,
   run_samplerOK gq _ _ (initSn_samplerOK _ _ _), by decide +kernel, by decide +kernel,
   by decide +kernel⟩

example : exportGroups [2, 4, 8] ([[0, 1, 2], [5, 1, 2], [0, 1, 3]] : List (List ℚ))
    = [(8, [0, 2]), (2, [1])] := by decide +kernel

end PlinioVerif.C10
