import PlinioVerif.Lemmas.Observers
/-!
# C18 — export, summary and cost are observers: they do not change the model

Property theorems only.  `step` (`Model/Observers.lean`) mirrors what each call of the property's
alphabet does to a PIT / MPS / SuperNet wrapper as the code is now; `harness/props/c18.py` ties it to the
code by a non-mutating fingerprint taken before and after every call of random walks.  `stepPinned` is
the pinned tree (before fe897bf and b3d8681): the regression witnesses are at the end.

The statement's observables are `obsStateExact` (modes, sampled coefficients, parameters, buffers,
cost specification, flags); the RNG position and incidental attributes are *not* among them (DESIGN §6).
All statements hold for every wrapper configuration `c`, every state `s` and every sequence.
-/
namespace PlinioVerif.C18
open PlinioVerif.Observers

/-- **per call** — `export()`, `export(add_bn=False)`, `summary()`, `cost`, `get_cost(name)` leave
training modes, sampled coefficients, parameters, buffers, cost specification and flags exactly as they
were (whatever they return, including an `AssertionError`). -/
theorem observer_preserves_obs_state (c : Cfg) (s : State) (op : Op) (h : op.isObserver = true) :
    obsStateExact (step c s op).1 = obsStateExact s :=
  step_observer_core c s op h

/-- `summary`, `cost`, `get_cost` do not even touch the RNG; only an `export` that builds new layers
(PIT, MPS) advances it. -/
theorem observer_rng (c : Cfg) (s : State) (op : Op) (h : op.isObserver = true) :
    (step c s op).1.rng = s.rng ∨
      ((op = .exportNet ∨ op = .exportNoBn ∨ op = .exportRaises) ∧ exportDraws c = true) := by
  cases op with
  | exportNet => by_cases hd : exportDraws c = true <;> simp [step, exportStep, hd]
  | exportNoBn => by_cases hd : exportDraws c = true <;> simp [step, exportStep, hd]
  | summary => exact Or.inl rfl
  | cost => left; simp only [step, costStep]; split <;> rfl
  | getCost => left; simp only [step, costStep]; split <;> rfl
  | getCostB => left; simp only [step, costStep]; split <;> rfl
  | setSpec k => simp [Op.isObserver] at h
  | forward => simp [Op.isObserver] at h
  | optStep => simp [Op.isObserver] at h
  | exportRaises => by_cases hd : exportDraws c = true <;> simp [step, hd]

/-- a call that raises leaves the state untouched altogether -/
theorem failed_cost_leaves_state (c : Cfg) (s : State) (op : Op) (h : (step c s op).2 = .err) :
    (step c s op).1 = s := by
  cases op with
  | cost => simp only [step, costStep] at h ⊢; split at h <;> simp_all
  | getCost => simp only [step, costStep] at h ⊢; split at h <;> simp_all
  | getCostB => simp only [step, costStep] at h ⊢; split at h <;> simp_all
  | exportNet => simp [step, exportStep] at h
  | exportNoBn => simp [step, exportStep] at h
  | summary => simp [step] at h
  | setSpec k => simp [step] at h
  | forward => simp [step, forwardStep] at h
  | optStep => simp [step, optStepStep] at h
  | exportRaises => simp [step] at h

/-- **any number of calls in any order** — for every sequence of observer calls. -/
theorem observers_invisible (c : Cfg) (s : State) (ops : List Op) (h : ∀ op ∈ ops, op.isObserver = true) :
    obsStateExact (run c s ops) = obsStateExact s :=
  run_observers_core c ops h s

/-- **the search continues as if they had not been called** — for EVERY sequence over the full alphabet
(forwards and specification switches included), the observable state reached is the one reached by the
same sequence with all observer calls deleted.  (Up to the identity of Gumbel draws: an `export` of
PIT/MPS consumes random numbers; see `observers_invisible_interleaved_exact`.) -/
theorem observers_invisible_interleaved (c : Cfg) (s : State) (ops : List Op) :
    obsState (run c s ops) = obsState (run c s (ops.filter fun o => !o.isObserver)) :=
  run_sim c ops s s rfl

/-- … and exactly so (same sampled coefficients, bit for bit) whenever sampling does not draw from the
RNG: PIT, softmax sampling, MPS with sampling disabled. -/
theorem observers_invisible_interleaved_exact (c : Cfg) (hnd : ∀ tr, sampleDraws c tr = false)
    (s : State) (ops : List Op) :
    obsStateExact (run c s ops) = obsStateExact (run c s (ops.filter fun o => !o.isObserver)) :=
  run_sim_exact c hnd ops s s rfl

/-- **repeated exports are identical networks** — after any observer calls an export returns the network
the first export returned. -/
theorem repeat_export_identical (c : Cfg) (s : State) (ops : List Op) (h : ∀ op ∈ ops, op.isObserver = true) :
    (step c (run c s ops) .exportNet).2 = (step c s .exportNet).2 :=
  observer_out_of_core c _ _ .exportNet rfl (run_observers_core c ops h s)

/-- every observer returns again what it returned before, whatever observers ran in between
(cost values, summaries and exports are reproducible) -/
theorem observer_output_stable (c : Cfg) (s : State) (ops : List Op) (h : ∀ op ∈ ops, op.isObserver = true)
    (op : Op) (ho : op.isObserver = true) :
    (step c (run c s ops) op).2 = (step c s op).2 :=
  observer_out_of_core c _ _ op ho (run_observers_core c ops h s)

/-- **a cost value does not depend on which metrics were queried before, nor on any other observer
call, and the search in between is free to continue** — for EVERY sequence over the full alphabet, an
observer returns what it returns on a twin wrapper that ran the same sequence without the observer
calls (exactly when sampling draws no random numbers; in particular `get_cost('b')` after
`get_cost('a')` = `get_cost('b')` alone, and a specification switched away and back) -/
theorem observer_value_as_if_first (c : Cfg) (hnd : ∀ tr, sampleDraws c tr = false) (s : State)
    (ops : List Op) (op : Op) (ho : op.isObserver = true) :
    (step c (run c s ops) op).2 = (step c (run c s (ops.filter fun o => !o.isObserver)) op).2 :=
  observer_out_of_core c _ _ op ho (run_sim_exact c hnd ops s s rfl)

/-- mixed sub-module modes (BatchNorm frozen inside a training wrapper, or the reverse) are preserved
flag by flag by every observer: the next forward updates the running statistics exactly when it would
have -/
theorem observers_keep_submodule_modes (c : Cfg) (s : State) (ops : List Op)
    (h : ∀ op ∈ ops, op.isObserver = true) :
    (run c s ops).strain = s.strain ∧ (run c s ops).bntrain = s.bntrain ∧
    (run c s ops).droptrain = s.droptrain ∧ (run c s ops).wtrain = s.wtrain := by
  have hc := run_observers_core c ops h s
  simp only [core, obsStateExact, Prod.mk.injEq] at hc
  exact ⟨hc.2.1, hc.2.2.1, hc.2.2.2.1, hc.1⟩

/-- **the next search step is the one that would have been taken** — observers between the forward and
`loss = task + strength * cost; backward(); step()` leave the sampled coefficients attached to the autograd
graph of the architectural parameters (same tensor object, not a detached copy), so the regularisation
gradient exists exactly when it would have and the parameters after the optimizer step are the same -/
theorem optimizer_step_after_observers (c : Cfg) (s : State) (ops : List Op)
    (h : ∀ op ∈ ops, op.isObserver = true) :
    costLive c (run c s ops) = costLive c s ∧
    (step c (run c s ops) .optStep).1.arch = (step c s .optStep).1.arch := by
  have hc := run_observers_core c ops h s
  simp only [core, obsStateExact, Prod.mk.injEq] at hc
  obtain ⟨_, _, _, _, ht, ha, _, _, _⟩ := hc
  simp [step, optStepStep, costLive, ht, ha]

/-- `export(add_bn=False)` returns what `export()` returns (the flag looks for an attribute no layer
carries) -/
theorem export_nobn_eq_export (c : Cfg) (s : State) : step c s .exportNoBn = step c s .exportNet := rfl

/-- the network outputs of the next forward are what they would have been: same coefficients sampled,
same parameters, buffers and mode — in eval mode, or whenever nothing in the forward draws random
numbers -/
theorem forward_after_observers (c : Cfg) (s : State) (ops : List Op) (h : ∀ op ∈ ops, op.isObserver = true)
    (hnd : sampleDraws c s.strain = false) (hdrop : (c.dropout && s.droptrain) = false) :
    (step c (run c s ops) .forward).2 = (step c s .forward).2 := by
  have hc := run_observers_core c ops h s
  simp only [core, obsStateExact, Prod.mk.injEq] at hc
  obtain ⟨_, h2, hb, hd, h3, h4, h5, _, _⟩ := hc
  simp only [step, forwardStep, h2, hb, hd, h3, h4, h5, hnd, hdrop, Bool.or_self, Bool.false_eq_true, if_false]
  rw [sample_nodraw c s.strain (run c s ops).rng s.rng s.theta hnd]

/-- **switching the cost specification and back restores the same cost values** — with any observers
before, in between and after. -/
theorem spec_switch_roundtrip (c : Cfg) (s : State) (k' : Spec) (o1 o2 o3 : List Op)
    (h1 : ∀ op ∈ o1, op.isObserver = true) (h2 : ∀ op ∈ o2, op.isObserver = true)
    (h3 : ∀ op ∈ o3, op.isObserver = true) (q : Op) (hq : q = .cost ∨ q = .getCost ∨ q = .getCostB) :
    (step c (run c s (o1 ++ [.setSpec k'] ++ o2 ++ [.setSpec s.spec] ++ o3)) q).2 = (step c s q).2 := by
  have hqo : q.isObserver = true := by rcases hq with rfl | rfl | rfl <;> rfl
  apply observer_out_of_core c _ _ q hqo
  simp only [run_append]
  rw [run_observers_core c o3 h3]
  have e1 := run_observers_core c o1 h1 s
  generalize run c s o1 = a at e1 ⊢
  have e2 := run_observers_core c o2 h2 (run c a [.setSpec k'])
  generalize hb : run c (run c a [.setSpec k']) o2 = b at e2 ⊢
  simp only [core, obsStateExact, Prod.mk.injEq, run, List.foldl, step] at e1 e2 ⊢
  obtain ⟨a1, a2, a8, a9, a3, a4, a5, a6, a7⟩ := e1
  obtain ⟨b1, b2, b8, b9, b3, b4, b5, b6, b7⟩ := e2
  simp [*]

/-- while the other specification is installed the cost is that specification's (the switch is not a
no-op) -/
theorem spec_switch_takes_effect (c : Cfg) (s : State) (k' : Spec) (theta : Theta) (a : Nat)
    (h : (step c (step c s (.setSpec k')).1 .cost).2 = .costv k'.fnA theta a) :
    theta = s.theta ∧ a = s.arch := by
  simp only [step, costStep] at h
  by_cases hk : costOk k' false = true
  · simp only [hk, if_true, Out.costv.injEq] at h; exact ⟨h.2.1.symm, h.2.2.symm⟩
  · simp [hk] at h

/-! ### regression witnesses: the pinned tree violated the property -/

def mpsTrain : Cfg := ⟨.mps, false, false, false, false, true, true, false, false⟩
def pitFrozenBn : Cfg := ⟨.pit, false, false, false, false, true, false, true, false⟩
def snGumbel : Cfg := ⟨.sn, true, false, false, false, true, false, true, false⟩
/-- a wrapper in training mode holding soft coefficients -/
def training0 : State := ⟨true, true, true, true, ⟨false, none, true⟩, 0, 0, 0, false, .single 0, 0⟩
/-- a wrapper in training mode whose BatchNorm sub-modules were frozen with `.eval()` -/
def frozenBn0 : State := ⟨true, true, false, true, ⟨false, none, true⟩, 0, 0, 0, false, .dict 0, 0⟩
/-- a SuperNet in training mode holding a Gumbel sample -/
def trainingG : State := ⟨true, true, true, true, ⟨false, some 0, true⟩, 1, 0, 0, false, .single 0, 0⟩

/-- before fe897bf: an export in the middle of training left every inner module in eval mode and the
hard (eval-mode) coefficients in place — `MPS.cost` read next was the hard cost -/
theorem pinned_export_not_observer :
    obsState (stepPinned mpsTrain training0 .exportNet).1 ≠ obsState training0 ∧
    (step mpsTrain (stepPinned mpsTrain training0 .exportNet).1 .cost).2 ≠ (step mpsTrain training0 .cost).2 := by
  decide

/-- before b3d8681: `summary()` of a SuperNet re-sampled — new Gumbel noise, different cost, RNG advanced -/
theorem pinned_summary_not_observer :
    (stepPinned snGumbel trainingG .summary).1.theta ≠ trainingG.theta ∧
    (stepPinned snGumbel trainingG .summary).1.rng ≠ trainingG.rng ∧
    (step snGumbel (stepPinned snGumbel trainingG .summary).1 .cost).2 ≠ (step snGumbel trainingG .cost).2 := by
  decide

/-- a frozen BatchNorm stays frozen across an export, and the metric `'b'` is the same whether or not
`'a'` was queried first -/
example : (step pitFrozenBn frozenBn0 .exportNet).1.bntrain = false ∧
    (step pitFrozenBn (step pitFrozenBn frozenBn0 .getCost).1 .getCostB).2 = (step pitFrozenBn frozenBn0 .getCostB).2 := by
  decide

/-- **a failing observer is an observer too**: an `export()` whose conversion raises leaves training
modes, sampled coefficients, parameters, buffers and specification as it found them (instance of
`observer_preserves_obs_state`; the restore sits in a `finally`) … -/
theorem raising_export_leaves_state (c : Cfg) (s : State) :
    obsStateExact (step c s .exportRaises).1 = obsStateExact s ∧ (step c s .exportRaises).2 = .raised :=
  ⟨step_observer_core c s .exportRaises rfl, rfl⟩

/-- … while before 46df6ea it left every module in eval mode with the eval-mode coefficients -/
theorem raising_export_without_finally_not_observer :
    obsState (stepNoFinally mpsTrain training0 .exportRaises).1 ≠ obsState training0 ∧
    (step mpsTrain (stepNoFinally mpsTrain training0 .exportRaises).1 .cost).2 ≠ (step mpsTrain training0 .cost).2 := by
  decide

/-- the repaired calls on the same witnesses -/
example : (step mpsTrain training0 .exportNet).1 = { training0 with rng := 1 } ∧
          (step snGumbel trainingG .summary).1 = trainingG := by decide

/-! ### the hypotheses are satisfiable -/
example : ∀ op ∈ [Op.exportNet, .summary, .cost, .getCost, .exportNoBn], op.isObserver = true := by decide
example : ∀ tr, sampleDraws mpsTrain tr = false := by decide
example : sampleDraws snGumbel false = false ∧ (snGumbel.dropout && false) = false := by decide

end PlinioVerif.C18
