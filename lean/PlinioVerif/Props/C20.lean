import PlinioVerif.Lemmas.Reassign
/-!
# C20 — precision refinement only promotes channels and never raises the cost

Property theorems only.  `reassign` / `reassignMatrix` model `_reassign_precisions`,
`refineLayer` the count-level search of `optimize_prec_assignment`, `optimizeLayer` their
composition for one layer (`Model/Reassign.lean`, tied to the code by the correspondence of
`harness/props/c20.py`).  All statements quantify over every number of precisions and channels,
every score matrix, every cost function.

Status of the property's clauses **on the model of the code as written**:

* reassignment, "each channel exactly one precision": **holds** for every request whose targets
  sum to the number of channels (`reassign_each_channel_exactly_one`);
* reassignment, "meets every count": **false** (`reassign_meets_counts_false`); proved under the
  decidable hypothesis `noOverlap` — no channel within the top-`target` of two precisions —
  (`reassign_meets_counts_partial`), where the result is exactly the top-`target` partition
  (`reassign_eq_topk_partial`);
* search, "only moves channels up / cost not higher": holds at count level for every cost function
  and every precision tuple in any order (`refinement_counts_only_move_up`,
  `refinement_applied_moves_up`, `refinement_cost_nonincreasing`); on the pinned tree it failed for
  non-ascending tuples (`pinned_…` regression witnesses for `(8,4,2)`);
* end to end "no channel lower than before": **false** even without overlap, because the
  reassignment is by score and ignores the current assignment
  (`promotion_false_without_overlap`, `promotion_false_with_0bit`); and when a count is missed the
  realised counts can cost more than the old ones (`cost_false_with_overlap`).
-/
namespace PlinioVerif.C20
open PlinioVerif.Reassign

/-! ## the reassignment step -/

/-- Shape: one entry per channel; the matrix has the shape of the scores. -/
theorem reassign_shape (best : List Nat) (scores : Mat) :
    (reassign best scores).length = nChannels scores ∧
    (reassignMatrix best scores).length = scores.length ∧
    ∀ row ∈ reassignMatrix best scores, row.length = nChannels scores := by
  refine ⟨length_reassign best scores, by simp [reassignMatrix, toBinary], ?_⟩
  intro row hrow
  simp only [reassignMatrix, toBinary, List.mem_map] at hrow
  obtain ⟨p, _, rfl⟩ := hrow
  simp [length_reassign]

/-- The returned matrix is binary — every input. -/
theorem reassign_binary (best : List Nat) (scores : Mat) :
    ∀ row ∈ reassignMatrix best scores, ∀ x ∈ row, x = 0 ∨ x = 1 := by
  intro row hrow x hx
  simp only [reassignMatrix, toBinary, List.mem_map] at hrow
  obtain ⟨p, _, rfl⟩ := hrow
  simp only [List.mem_map] at hx
  obtain ⟨y, _, rfl⟩ := hx
  split <;> simp

/-- Every assigned value is one of the `P` precision indices — every input. -/
theorem reassign_assigns_precision_indices (best : List Nat) (scores : Mat) :
    ∀ x ∈ reassign best scores, ∀ p, x = some p → p < scores.length :=
  valid_reassign best scores

/-- No channel gets two precisions: every column of the matrix sums to at most 1 — every input. -/
theorem reassign_each_channel_at_most_one (best : List Nat) (scores : Mat) (c : Nat) :
    colSum (reassignMatrix best scores) c ≤ 1 := by
  unfold reassignMatrix
  rw [colSum_toBinary]
  split
  · split <;> omega
  · omega

/-- **Each channel exactly one precision**: given a `P × C` matrix and `P` targets that sum to
`C`, no channel stays unassigned — with or without overlap of the top-`target` sets. -/
theorem reassign_each_channel_exactly_one (best : List Nat) (scores : Mat)
    (hwf : wf best scores = true) (c : Nat) (hc : c < nChannels scores) :
    colSum (reassignMatrix best scores) c = 1 := by
  have g := shape_of_wf hwf
  have hlen : (sortedOf scores).length = scores.length := by simp [sortedOf]
  have hv := valid_reassign best scores
  have hnf : NoneFree (reassign best scores) := by
    unfold reassign; rw [← hlen]; apply g.noneFree; rw [hlen]; exact hv
  unfold reassignMatrix
  rw [colSum_toBinary]
  have hc' : c < (reassign best scores).length := by rw [length_reassign]; exact hc
  cases h : (reassign best scores).getD c none with
  | none => exact absurd h (hnf c hc')
  | some q =>
    have : q < scores.length := by
      apply hv (some q) _ q rfl
      rw [List.getD_eq_getElem?_getD, List.getElem?_eq_getElem hc'] at h
      simp only [Option.getD_some] at h
      rw [← h]; exact List.getElem_mem hc'
    simp [this]

/-- the headline at full strength: "given target counts that sum to the number of channels,
the reassignment assigns each channel exactly one precision and meets every count" -/
def MeetsCountsStatement : Prop :=
  ∀ (best : List Nat) (scores : Mat), wf best scores = true → meets best (reassign best scores) = true

/-- **The headline is false for the code as written.**  Scores `[[0,3],[1,2]]`, targets `(1,1)`:
channel 1 is the top-1 of both precisions and both channels end at precision 1.
(Known finding `C20:reassign:top-k-overlap`.) -/
theorem reassign_meets_counts_false : ¬ MeetsCountsStatement := by
  intro h
  have := h [1, 1] [[0, 3], [1, 2]] (by decide)
  revert this
  decide

/-- the same witness, spelled out: two channels, counts `(0, 2)` instead of `(1, 1)` -/
theorem reassign_witness :
    reassign [1, 1] [[0, 3], [1, 2]] = [some 1, some 1] ∧ noOverlap [1, 1] [[0, 3], [1, 2]] = false := by
  decide

/-- **Under no overlap the result is the top-`target` partition**: a channel within the
top-`target` of precision `p` ends at `p`. -/
theorem reassign_eq_topk_partial (best : List Nat) (scores : Mat) (hwf : wf best scores = true)
    (hno : noOverlap best scores = true) (c p : Nat) (hp : p < scores.length)
    (hc : c ∈ top best (sortedOf scores) p) : (reassign best scores).getD c none = some p := by
  have g := good_of_wf hwf hno
  have hlen : (sortedOf scores).length = scores.length := by simp [sortedOf]
  unfold reassign
  rw [← hlen]
  exact g.reassignCore_eq_owner ⟨hlen ▸ hp, hc⟩

/-- **Meets every count, partial**: if no channel is within the top-`target` of two precisions,
every channel gets one precision and every precision exactly its target count. -/
theorem reassign_meets_counts_partial (best : List Nat) (scores : Mat) (hwf : wf best scores = true)
    (hno : noOverlap best scores = true) : meets best (reassign best scores) = true := by
  have g := good_of_wf hwf hno
  have hlen : (sortedOf scores).length = scores.length := by simp [sortedOf]
  unfold meets reassign
  rw [← hlen, Bool.and_eq_true, List.all_eq_true, List.all_eq_true]
  refine ⟨g.all_isSome, ?_⟩
  intro p hp
  rw [List.mem_range, g.lenB] at hp
  simp only [beq_iff_eq]
  exact g.countOf_reassignCore hp

/-- The same in terms of the returned matrix: row `p` sums to the target of `p`. -/
theorem reassign_row_sums_partial (best : List Nat) (scores : Mat) (hwf : wf best scores = true)
    (hno : noOverlap best scores = true) (p : Nat) (hp : p < scores.length) :
    rowSum (reassignMatrix best scores) p = best.getD p 0 := by
  have g := good_of_wf hwf hno
  have hlen : (sortedOf scores).length = scores.length := by simp [sortedOf]
  unfold reassignMatrix
  rw [rowSum_toBinary _ _ hp]
  unfold reassign
  rw [← hlen]
  exact g.countOf_reassignCore (hlen ▸ hp)

/-- Soundness of the finding's class predicate: a well-formed request on which a count is
missed always has a channel within the top-`target` of two precisions. -/
theorem reassign_counts_missed_implies_overlap (best : List Nat) (scores : Mat)
    (hwf : wf best scores = true) (hmiss : meets best (reassign best scores) = false) :
    noOverlap best scores = false := by
  cases hno : noOverlap best scores with
  | false => rfl
  | true => rw [reassign_meets_counts_partial best scores hwf hno] at hmiss; cases hmiss

/-- the hypotheses of the partial theorems are satisfiable by an input on which the
reassignment has to move channels: 3 precisions, 4 channels, arg-max counts `(2,1,1)`,
targets `(1,1,2)` -/
example :
    wf [1, 1, 2] [[9, 8, 1, 0], [2, 3, 10, 4], [5, 7, 6, 11]] = true ∧
    noOverlap [1, 1, 2] [[9, 8, 1, 0], [2, 3, 10, 4], [5, 7, 6, 11]] = true ∧
    currentOf [[9, 8, 1, 0], [2, 3, 10, 4], [5, 7, 6, 11]] = [0, 0, 1, 2] ∧
    reassign [1, 1, 2] [[9, 8, 1, 0], [2, 3, 10, 4], [5, 7, 6, 11]] = [some 0, some 2, some 1, some 2] := by
  decide

/-! ## the count-level search -/

section Search
variable {α : Type}

/-- **The search only moves channels up**: every count vector handed to the cost model, read in
ascending order of precision, arises from the layer's counts by moving channels to higher
precisions — same total, and for every threshold at least as many channels at or above it.
Any precision tuple in any order, any cost function, any sizes. -/
theorem refinement_counts_only_move_up [LT α] [DecidableLT α] (cost : List Nat → α)
    (precs w : List Nat) :
    ∀ u ∈ (refineLayer cost precs w).passed,
      MovesUp (gather (argsortAsc precs) w) (gather (argsortAsc precs) u) := by
  intro u hu
  rw [refineLayer_passed, List.mem_map] at hu
  obtain ⟨v, hv, rfl⟩ := hu
  have hup := proposals_movesUp _ _ (by simp [length_gather]) v hv
  rw [gather_scatter (argsortAsc_perm precs) v (by rw [hup.1, length_gather, (argsortAsc_perm precs).length_eq, List.length_range])]
  exact hup

/-- The 0-bit option is never a source and never a destination: if the smallest precision is
0, every evaluated vector keeps the number of pruned channels. -/
theorem refinement_keeps_zero_bit_count [LT α] [DecidableLT α] (cost : List Nat → α)
    (precs w : List Nat) (h0 : (gather (argsortAsc precs) precs).getD 0 0 = 0) :
    ∀ u ∈ (refineLayer cost precs w).passed,
      (gather (argsortAsc precs) u).getD 0 0 = (gather (argsortAsc precs) w).getD 0 0 := by
  intro u hu
  rw [refineLayer_passed, List.mem_map] at hu
  obtain ⟨v, hv, rfl⟩ := hu
  have hup := proposals_movesUp _ _ (by simp [length_gather]) v hv
  rw [gather_scatter (argsortAsc_perm precs) v (by rw [hup.1, length_gather, (argsortAsc_perm precs).length_eq, List.length_range])]
  exact proposals_keep_zero_bit _ _ h0 v hv

/-- **Cost not higher (best-so-far)**: the vector handed to the reassignment costs no more than
the layer's initial counts, and its cost is the recorded best cost — any cost function into any
preorder, any precision tuple in any order, any number of evaluated vectors. -/
theorem refinement_cost_nonincreasing [Preorder α] [DecidableLT α] (cost : List Nat → α)
    (precs w : List Nat) (hlen : w.length = precs.length) :
    cost (refineLayer cost precs w).applied ≤ cost w ∧
    (refineLayer cost precs w).best.cost = cost (refineLayer cost precs w).applied := by
  have hcons : (refineLayer cost precs w).best.cost = cost (refineLayer cost precs w).applied := by
    rw [refineLayer_applied, refineLayer_best]
    exact foldl_accept_consistent (cost ∘ scatter (argsortAsc precs)) _ ⟨cost w, _⟩
      (by simp only [Function.comp]; rw [scatter_gather (argsortAsc_perm precs) w hlen])
  refine ⟨?_, hcons⟩
  rw [← hcons, refineLayer_best]
  exact foldl_accept_cost_le (cost ∘ scatter (argsortAsc precs)) _ ⟨cost w, _⟩

/-- On a linear order the applied vector is the cheapest of everything evaluated. -/
theorem refinement_best_is_cheapest [LinearOrder α] (cost : List Nat → α) (precs w : List Nat)
    (hlen : w.length = precs.length) :
    ∀ u ∈ (refineLayer cost precs w).passed, cost (refineLayer cost precs w).applied ≤ cost u := by
  intro u hu
  rw [← (refinement_cost_nonincreasing cost precs w hlen).2]
  rw [refineLayer_passed, List.mem_map] at hu
  obtain ⟨v, hv, rfl⟩ := hu
  rw [refineLayer_best]
  exact foldl_accept_le_all (cost ∘ scatter (argsortAsc precs)) _ _ v hv

/-- **The applied vector is an upward move**: read in ascending order of precision, the vector
handed to the reassignment arises from the layer's counts by upward moves (or is the layer's
counts). -/
theorem refinement_applied_moves_up [Preorder α] [DecidableLT α] (cost : List Nat → α)
    (precs w : List Nat) :
    MovesUp (gather (argsortAsc precs) w)
      (gather (argsortAsc precs) (refineLayer cost precs w).applied) := by
  have hmem := foldl_accept_vec_mem (cost ∘ scatter (argsortAsc precs))
    (proposals (gather (argsortAsc precs) precs) (gather (argsortAsc precs) w))
    ⟨cost w, gather (argsortAsc precs) w⟩
  have hup : MovesUp (gather (argsortAsc precs) w) (refineLayer cost precs w).best.vec := by
    rw [refineLayer_best]
    rcases hmem with h | h
    · rw [h]; exact MovesUp.refl _
    · exact proposals_movesUp _ _ (by simp [length_gather]) _ h
  rw [refineLayer_applied, gather_scatter (argsortAsc_perm precs) _
    (by rw [hup.1, length_gather, (argsortAsc_perm precs).length_eq, List.length_range])]
  exact hup

/-- For an ascending precision tuple the coordinates are the quantizer's own. -/
theorem refinement_applied_moves_up_ascending [Preorder α] [DecidableLT α] (cost : List Nat → α)
    (precs w : List Nat) (hasc : precs.Pairwise (· < ·)) (hlen : w.length = precs.length) :
    MovesUp w (refineLayer cost precs w).applied := by
  have h := refinement_applied_moves_up cost precs w
  have hidx := argsortAsc_of_ascending precs hasc
  have hgw : gather (argsortAsc precs) w = w := by rw [hidx, ← hlen]; exact gather_range w
  rw [hgw] at h
  have hl : precs.length = (refineLayer cost precs w).applied.length := by
    rw [refineLayer_applied, length_scatter, (argsortAsc_perm precs).length_eq, List.length_range]
  rw [hidx, hl, gather_range] at h
  exact h

/-- the bit cost `Σ count · precision`, counts paired with the quantizer's precisions in their
own order (what `_compute_cost` does with whatever vector it receives) -/
def bitCost (precs : List Nat) (v : List Nat) : Nat :=
  ((List.range precs.length).map fun i => v.getD i 0 * precs.getD i 0).sum

/-- **Regression witness, pinned tree**: before the ordering repair the search handed its
ascending-order vector to a cost model that read it in the quantizer's order.  Precisions
`(8,4,2)`, all 8 channels at 2 bit: "all channels at the last precision" looked cheapest and was
un-sorted to "all channels at 8 bit" — bit cost 16 → 64.  The repaired loop leaves the layer
alone.  (Finding `C20:refine:precisions-not-ascending:cost-raised`.) -/
theorem pinned_refinement_cost_raised_unsorted :
    (refineLayerPinned (bitCost [8, 4, 2]) [8, 4, 2] [0, 0, 8]).applied = [8, 0, 0] ∧
    bitCost [8, 4, 2] [0, 0, 8] < bitCost [8, 4, 2] [8, 0, 0] ∧
    (refineLayer (bitCost [8, 4, 2]) [8, 4, 2] [0, 0, 8]).applied = [0, 0, 8] := by
  decide +kernel

/-- **Regression witness, pinned tree**: precisions `(8,4,2)`, all channels at 8 bit: nothing
can move, and the never-updated best (quantizer order) was permuted once more: all channels at
2 bit.  (Finding `C20:refine:precisions-not-ascending:demotes`.) -/
theorem pinned_refinement_moved_down_unsorted :
    (refineLayerPinned (bitCost [8, 4, 2]) [8, 4, 2] [8, 0, 0]).applied = [0, 0, 8] ∧
    (refineLayer (bitCost [8, 4, 2]) [8, 4, 2] [8, 0, 0]).applied = [8, 0, 0] := by
  decide +kernel

/-- tuples exist on which the search really changes the counts, in either order: with a cost
that charges every non-empty precision group a fixed overhead, `(3,4,1)` over `(2,4,8)` becomes
`(0,0,8)`, and `(1,4,3)` over `(8,4,2)` becomes `(8,0,0)` -/
example :
    (refineLayer (fun v => bitCost [2, 4, 8] v + 100 * (v.filter (· ≠ 0)).length) [2, 4, 8] [3, 4, 1]).applied
      = [0, 0, 8] ∧
    (refineLayer (fun v => bitCost [8, 4, 2] v + 100 * (v.filter (· ≠ 0)).length) [8, 4, 2] [1, 4, 3]).applied
      = [8, 0, 0] := by
  decide +kernel

/-- a cyclic order, where the sorting permutation is not its own inverse: for `(4,8,2)`
`argsortAsc = [2,0,1]`, its inverse is `[1,2,0]`.  Counts `(3,1,4)` (3 channels at 4 bit, 1 at 8,
4 at 2) with a cost that charges every non-empty group an overhead become "all at 8 bit" =
`(0,8,0)` in the quantizer's order; sorting a second time instead of un-sorting would hand over
`(8,0,0)` = all at 4 bit.  All theorems of this section hold for every order (`refineLayer`
un-sorts with `scatter`, the inverse permutation: `scatter_gather`, `gather_scatter`). -/
example :
    argsortAsc [4, 8, 2] = [2, 0, 1] ∧
    gather [2, 0, 1] [3, 1, 4] = [4, 3, 1] ∧
    (refineLayer (fun v => bitCost [4, 8, 2] v + 100 * (v.filter (· ≠ 0)).length) [4, 8, 2] [3, 1, 4]).best.vec
      = [0, 0, 8] ∧
    (refineLayer (fun v => bitCost [4, 8, 2] v + 100 * (v.filter (· ≠ 0)).length) [4, 8, 2] [3, 1, 4]).applied
      = [0, 8, 0] ∧
    gather [2, 0, 1] [0, 0, 8] = [8, 0, 0] := by
  decide +kernel

end Search

/-! ## one layer end to end (search, then reassignment by score) -/

/-- **Counts and cost, partial**: if no channel is within the top-`target` of two precisions for
the chosen counts, the layer ends with exactly the chosen per-precision counts, these arise from
the old counts by upward moves (ascending order of precision), and their cost is not higher than
that of the old counts — any cost function, any precision tuple in any order. -/
theorem optimize_layer_counts_and_cost_partial {α : Type} [Preorder α] [DecidableLT α]
    (cost : List Nat → α) (precs : List Nat) (scores : Mat)
    (hP : precs.length = scores.length)
    (hrows : scores.all (·.length == nChannels scores) = true)
    (hno : noOverlap (refineLayer cost precs
      (countsOf scores.length ((currentOf scores).map some))).applied scores = true) :
    let w := countsOf scores.length ((currentOf scores).map some)
    let chosen := (refineLayer cost precs w).applied
    countsOf scores.length (optimizeLayer cost precs scores) = chosen ∧
    MovesUp (gather (argsortAsc precs) w) (gather (argsortAsc precs) chosen) ∧
    cost chosen ≤ cost w := by
  intro w chosen
  have hwlen : w.length = precs.length := by simp [w, countsOf, hP]
  have hup := refinement_applied_moves_up cost precs w
  have hcost := (refinement_cost_nonincreasing cost precs w hwlen).1
  refine ⟨?_, hup, hcost⟩
  have hidxlen : (argsortAsc precs).length = precs.length := by
    rw [(argsortAsc_perm precs).length_eq, List.length_range]
  have hclen : chosen.length = scores.length := by
    show (refineLayer cost precs w).applied.length = _
    rw [refineLayer_applied, length_scatter, hidxlen, hP]
  -- gathering along a permutation keeps the sum
  have hsum_gather : ∀ x : List Nat, x.length = precs.length →
      (gather (argsortAsc precs) x).sum = x.sum := by
    intro x hx
    have hp : (gather (argsortAsc precs) x).Perm ((List.range precs.length).map (x.getD · 0)) :=
      (argsortAsc_perm precs).map _
    rw [hp.sum_nat, ← hx]
    exact sum_getD_range x
  -- the chosen counts are a well-formed request
  have hv : Valid scores.length ((currentOf scores).map some) := by
    intro x hx p hp
    simp only [currentOf, List.map_map, List.mem_map, List.mem_range, Function.comp] at hx
    obtain ⟨c, hc, rfl⟩ := hx
    cases hp
    have hne : col scores c ≠ [] := by
      intro h0
      have : scores = [] := by simpa [col] using h0
      simp [this, nChannels] at hc
    simpa [col] using argmaxIdx_lt _ hne
  have hsumw : w.sum = nChannels scores := by
    have := count_total hv
    have hnone : ((currentOf scores).map some).countP (· == none) = 0 := by
      rw [List.countP_eq_zero]; intro x hx; simp only [List.mem_map] at hx
      obtain ⟨y, _, rfl⟩ := hx; simp
    rw [hnone, Nat.zero_add] at this
    show ((List.range scores.length).map (countOf ((currentOf scores).map some))).sum = _
    rw [this]
    simp [currentOf]
  have hwf : wf chosen scores = true := by
    simp only [wf, Bool.and_eq_true, beq_iff_eq]
    refine ⟨⟨hclen, hrows⟩, ?_⟩
    rw [← hsum_gather chosen (by rw [hclen, hP]), hup.2.1, hsum_gather w hwlen, hsumw]
  have hmeets := reassign_meets_counts_partial chosen scores hwf hno
  simp only [meets, Bool.and_eq_true, List.all_eq_true, List.mem_range, beq_iff_eq] at hmeets
  show countsOf scores.length (reassign chosen scores) = chosen
  apply List.ext_getElem
  · simp [countsOf, hclen]
  · intro i h1 h2
    simp only [countsOf, List.getElem_map, List.getElem_range]
    have := hmeets.2 i h2
    rw [this, List.getD_eq_getElem?_getD, List.getElem?_eq_getElem h2, Option.getD_some]

/-- the hypotheses of `optimize_layer_counts_and_cost_partial` are satisfiable with a search
that changes the counts (`(2,1,1)` → `(1,1,2)` over `(2,4,8)`) -/
example :
    let cost : List Nat → Nat := fun v => if v = [1, 1, 2] then 0 else 1
    let scores : Mat := [[9, 8, 1, 0], [2, 3, 10, 4], [5, 7, 6, 11]]
    countsOf 3 ((currentOf scores).map some) = [2, 1, 1] ∧
    (refineLayer cost [2, 4, 8] [2, 1, 1]).applied = [1, 1, 2] ∧
    noOverlap [1, 1, 2] scores = true ∧
    optimizeLayer cost [2, 4, 8] scores = [some 0, some 2, some 1, some 2] := by
  decide

/-- the clause "no weight channel has a lower bit-width than before", for one layer of the
model: every channel's new precision index is at least its arg-max index (ascending tuple) -/
def PromotesOnly (scores : Mat) (after : Asg) : Prop :=
  ∀ c < nChannels scores, ∀ p, after.getD c none = some p → (currentOf scores).getD c 0 ≤ p

instance (scores : Mat) (after : Asg) : Decidable (PromotesOnly scores after) := by
  unfold PromotesOnly; infer_instance

/-- **"Only promotes" is false even without overlap** (code as written).  Precisions `(2,4,8)`,
three channels at `(8, 2, 2)` bit, the search moves one channel from 2 to 4 bit (an upward
move); the top-1 sets for `(1,1,1)` are disjoint, every count is met — and channel 0 goes from
8 to 4 bit because it has the best 4-bit score, while channel 1 takes its place at 8 bit.
The reassignment is by score and does not look at the current assignment. -/
theorem promotion_false_without_overlap :
    let cost : List Nat → Nat := fun v => if v = [1, 1, 1] then 0 else 1
    let scores : Mat := [[0, 100, 200], [10, 5, 4], [20, 50, 2]]
    currentOf scores = [2, 0, 0] ∧
    (refineLayer cost [2, 4, 8] [2, 0, 1]).applied = [1, 1, 1] ∧
    noOverlap [1, 1, 1] scores = true ∧
    optimizeLayer cost [2, 4, 8] scores = [some 1, some 2, some 0] ∧
    ¬ PromotesOnly scores (optimizeLayer cost [2, 4, 8] scores) := by
  decide

/-- **"Only promotes" is false with the 0-bit option even when the search changes nothing**
(known finding `C20:refine:demotes-with-0bit`).  Precisions `(0,8)`, channels at `(0, 8, 0)`
bit, constant cost: the counts stay `(2,1)`, but the 8-bit channel has a better 0-bit score than
one of the pruned ones and is pruned in its place. -/
theorem promotion_false_with_0bit :
    let cost : List Nat → Nat := fun _ => 0
    let scores : Mat := [[1, 2, 5], [0, 3, 4]]
    currentOf scores = [0, 1, 0] ∧
    (refineLayer cost [0, 8] [2, 1]).applied = [2, 1] ∧
    optimizeLayer cost [0, 8] scores = [some 0, some 0, some 1] ∧
    ¬ PromotesOnly scores (optimizeLayer cost [0, 8] scores) := by
  decide

/-- **"Cost not higher" is false for the layer when a count is missed** (known finding
`C20:refine:cost-raised:top-k-overlap`).  Precisions `(2,8)`, one channel each, a cost model under
which the search keeps the counts `(1,1)`: channel 1 is the top-1 of both precisions, the
reassignment puts both channels at 8 bit, and the realised counts `(0,2)` cost more than the
counts before. -/
theorem cost_false_with_overlap :
    let cost : List Nat → Nat := fun v => if v = [0, 2] then 1 else 0
    let scores : Mat := [[0, 3], [1, 2]]
    countsOf 2 ((currentOf scores).map some) = [1, 1] ∧
    (refineLayer cost [2, 8] [1, 1]).applied = [1, 1] ∧
    noOverlap [1, 1] scores = false ∧
    countsOf 2 (optimizeLayer cost [2, 8] scores) = [0, 2] ∧
    cost [1, 1] < cost (countsOf 2 (optimizeLayer cost [2, 8] scores)) := by
  decide

end PlinioVerif.C20
