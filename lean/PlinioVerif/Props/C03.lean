import PlinioVerif.Lemmas.SuperNet
/-!
# C03 — SuperNet export keeps exactly the arg-max branch of every choice block

Property theorems only.  `g0` is the traced SuperNet (SSA node list with choice nodes
`combine c outs`), `win c` the winner of combiner `c` (`best_layer_index` = arg-max α — which index
it is is the correspondence's business, the theorems hold for **every** winner assignment),
`exportGraph` the model of `export_graph` (tied to the code by `harness/props/c03.py`), `Env` the
abstract meaning of leaves and inputs.  All statements quantify over every program, every winner
assignment, every leaf semantics and every input.  A block used twice is two `combine` nodes with the
same `c`; nothing below distinguishes that case.
-/
namespace PlinioVerif.C03
open PlinioVerif.SuperNet

/-- "evaluated with hard (one-hot) selection": the combiner's forward `Σ θᵢ·yᵢ` with the one-hot
coefficients of the winners is the hard evaluation, in any module over any semiring. -/
theorem hard_selection_is_onehot_mix {R M : Type} [Semiring R] [AddCommMonoid M] [Module R M]
    (En : Env M) (win : String → Nat) (θ : String → List R) (g : Graph)
    (hθ : ∀ nd ∈ g, ∀ c, nd.op = .combine c →
      θ c = onehot nd.args.length (win c) ∧ win c < nd.args.length) :
    softEval En θ g = hardEval En win g :=
  softEval_onehot En win θ g hθ

/-- **C03, headline (node level)**: every node that survives export computes, on every input and
for every leaf semantics, what it computes in the SuperNet under hard selection — and it no longer
matters which selection `win'` is used to run the exported graph. -/
theorem export_eq_hardEval_nodes {V : Type} {g0 g : Graph} {win : String → Nat} (hwf : WF g0)
    (he : exportGraph win g0 = some g) (En : Env V) (win' : String → Nat) (i : Nat)
    (hl : (g.nd i).live = true) : valAt En win' g i = valAt En win g0 i :=
  (exportGraph_spec hwf he).sim En hwf.1 win' i hl

/-- **C03, headline**: the exported network's output equals the SuperNet's output under hard
selection, for all programs, all winner assignments, all inputs, abstract leaf semantics. -/
theorem export_eq_hardEval {V : Type} {g0 g : Graph} {win : String → Nat} (hwf : WF g0)
    (hout : (g0.nd (g0.length - 1)).op = .output)
    (he : exportGraph win g0 = some g) (En : Env V) (win' : String → Nat) :
    netOut En win' g = netOut En win g0 := by
  have sp := exportGraph_spec hwf he
  have hpos : g0.length - 1 < g0.length := by
    by_contra hc
    rw [nd_of_ge g0 _ (by omega)] at hout; cases hout
  unfold netOut
  rw [sp.len]
  exact sp.sim En hwf.1 win' _ (sp.outLive _ hpos hout)

/-- every choice block is replaced: no choice node is left in the exported graph -/
theorem export_has_no_choice_left {g0 g : Graph} {win : String → Nat} (hwf : WF g0)
    (he : exportGraph win g0 = some g) (i : Nat) : (g.nd i).isCombine = false :=
  (exportGraph_spec hwf he).plain i

/-- export never raises, whatever the branches contain or end in (functional tails, statements
whose result is unused, values with other users inside the branch, ops fx regards as impure):
the only failure left is a winner index that is not a branch. -/
theorem export_succeeds {g0 : Graph} {win : String → Nat} (hwf : WF g0) (hr : WinInRange win g0) :
    ∃ g, exportGraph win g0 = some g :=
  exportGraph_isSome hwf hr

/-- "all other branches are gone", one visit of the loop: the output node of a discarded branch —
any node that fed this combiner only and is neither a placeholder nor an output — is erased … -/
theorem export_drops_discarded_output {win : String → Nat} {g g' : Graph} {k : Nat} {c : String}
    {best o : Nat} (hs : SSA g) (hop : (g.nd k).op = .combine c)
    (hb : (g.nd k).args[win c]? = some best) (ho : o ∈ (g.nd k).args) (hne : o ≠ best)
    (hown : ∀ j, o ∈ (g.nd j).args → j = k) (hnin : isInput (g.nd o) = false)
    (hnout : (g.nd o).op ≠ .output) (he : exportCombiner win g k = some g') :
    (Graph.nd g' o).live = false :=
  exportCombiner_drops_discarded hs hop hb ho hne hown hnin hnout he

/-- … together with everything computed from a member of the discarded branches (statements whose
result is unused, impure ops included): the erased set is closed under users, … -/
theorem discarded_branch_closed_under_users {g : Graph} (hs : SSA g) (disc : List Nat) {a u : Nat}
    (ha : a ∈ (g.nd u).args) (hra : inRegion g disc a = true) : inRegion g disc u = true :=
  inRegion_user hs disc ha hra

/-- … while nothing that (still) reaches an output is ever a member: only dead ends are erased. -/
theorem discarded_branch_never_feeds_output {g : Graph} (hs : SSA g) (disc : List Nat) (i : Nat)
    (h : inRegion g disc i = true) : alive g i = false :=
  inRegion_not_alive hs disc i h

/-- what a visit has erased stays erased until the end of export -/
theorem export_erased_stays_erased {win : String → Nat} (t k : Nat) {g g' : Graph} {i : Nat}
    (he : exportLoop win t k g = some g') (hd : (g.nd i).live = false) :
    (Graph.nd g' i).live = false :=
  exportLoop_mono t k he hd

/-- everything the hard-selection output depends on is kept: outputs, and the arguments of kept
nodes, a combiner argument standing for its winner's output (`Keeps`).  Equivalently: export only
removes nodes the output of the selected architecture does not depend on. -/
theorem export_keeps_what_the_output_needs {g0 g : Graph} {win : String → Nat} (hwf : WF g0)
    (he : exportGraph win g0 = some g) (i : Nat) (hi : i < g0.length) (hk : Keeps win g0 i) :
    (g.nd i).live = true :=
  (exportGraph_spec hwf he).keeps_live i hk hi

/-- what a surviving node looks like: the original op, and every choice among its arguments
replaced by the (resolved) output of the winning branch. -/
theorem export_node_shape {g0 g : Graph} {win : String → Nat} (hwf : WF g0)
    (he : exportGraph win g0 = some g) (i : Nat) (hl : (g.nd i).live = true) :
    g.nd i = ⟨(g0.nd i).op, (g0.nd i).args.map (res win g0)⟩ :=
  (exportGraph_spec hwf he).node_eq i hl

/-- "the layers outside choice blocks are untouched": a surviving node none of whose arguments is
a choice node is literally the node of the SuperNet (same op, same target, same arguments). -/
theorem outside_untouched {g0 g : Graph} {win : String → Nat} (hwf : WF g0)
    (he : exportGraph win g0 = some g) (i : Nat) (hl : (g.nd i).live = true)
    (hargs : ∀ a ∈ (g0.nd i).args, (g0.nd a).isCombine = false) : g.nd i = g0.nd i := by
  rw [export_node_shape hwf he i hl]
  have : (g0.nd i).args.map (res win g0) = (g0.nd i).args := by
    conv_rhs => rw [← List.map_id (g0.nd i).args]
    apply List.map_congr_left
    intro a ha
    exact res_of_not_combine win g0 a (hargs a ha)
  rw [this]

/-- … and such a node is there whenever it is needed: a non-choice argument of a surviving node
survives, whatever the winners are. -/
theorem outside_kept {g0 g : Graph} {win : String → Nat} (hwf : WF g0)
    (he : exportGraph win g0 = some g) (a j : Nat) (hj : (g.nd j).live = true)
    (ha : a ∈ (g0.nd j).args) (hna : (g0.nd a).isCombine = false) : (g.nd a).live = true := by
  have sp := exportGraph_spec hwf he
  apply sp.closed j hj
  rw [sp.node_eq j hj]
  exact List.mem_map.2 ⟨a, ha, res_of_not_combine win g0 a hna⟩

/-! ### the hypotheses are satisfiable; a block used twice; the pinned rule -/

/-- a block of two branches used twice (two `combine` nodes of the same combiner), the second
branch a user block ending in a functional op, a fixed layer before, between and after -/
def twice : Graph := [
  Node.input 0,
  Node.leaf ⟨.module, "c0"⟩ [0],
  Node.leaf ⟨.module, "b.sn_branches.0"⟩ [1],
  Node.leaf ⟨.module, "b.sn_branches.1.conv"⟩ [1],
  Node.leaf ⟨.function, "relu"⟩ [3],
  Node.combine "b.sn_combiner" [2, 4],
  Node.leaf ⟨.module, "mid"⟩ [5],
  Node.leaf ⟨.module, "b.sn_branches.0"⟩ [6],
  Node.leaf ⟨.module, "b.sn_branches.1.conv"⟩ [6],
  Node.leaf ⟨.function, "relu"⟩ [8],
  Node.combine "b.sn_combiner" [7, 9],
  Node.leaf ⟨.module, "fc"⟩ [10],
  Node.output 11]

example : WF twice ∧ WinInRange (fun _ => 1) twice ∧ (twice.nd (twice.length - 1)).op = .output :=
  ⟨wfB_sound (by decide +kernel), winInRangeB_sound (by decide +kernel), by decide +kernel⟩

/-- on it the (positional) export keeps the functional-tail branch at both call sites … -/
example : exportGraph (fun _ => 1) twice = some [
    Node.input 0, Node.leaf ⟨.module, "c0"⟩ [0], Node.E,
    Node.leaf ⟨.module, "b.sn_branches.1.conv"⟩ [1], Node.leaf ⟨.function, "relu"⟩ [3], Node.E,
    Node.leaf ⟨.module, "mid"⟩ [4], Node.E,
    Node.leaf ⟨.module, "b.sn_branches.1.conv"⟩ [6], Node.leaf ⟨.function, "relu"⟩ [8], Node.E,
    Node.leaf ⟨.module, "fc"⟩ [9], Node.output 11] := by decide +kernel

/-- … while the rule of the pinned tree (branch recognised by a substring of the node target) does
not find the winner, whose output node is a function call, and raises
(`Tried to erase Node … but it still had users`). -/
theorem pinned_rule_raises_on_functional_tail : exportGraphPinned (fun _ => 1) twice = none := by
  decide +kernel

/-- eleven branches, the winner (1) ends in a functional op, branch 10 in a module -/
def eleven : Graph :=
  [Node.input 0] ++
  [Node.leaf ⟨.module, "b.sn_branches.0"⟩ [0],
   Node.leaf ⟨.module, "b.sn_branches.1.conv"⟩ [0], Node.leaf ⟨.function, "relu"⟩ [2]] ++
  (List.range 9).map (fun i => Node.leaf ⟨.module, "b.sn_branches." ++ toString (i + 2)⟩ [0]) ++
  [Node.combine "b.sn_combiner" [1, 3, 4, 5, 6, 7, 8, 9, 10, 11, 12], Node.output 13]

/-- the pinned rule takes `sn_branches.10` for `sn_branches.1`: it silently exports branch 10
where the arg-max is branch 1 (found by the C03 check on the reverted tree), the repaired rule
exports branch 1. -/
theorem pinned_rule_exports_wrong_branch :
    (exportGraphPinned (fun _ => 1) eleven).map moduleTargets = some ["b.sn_branches.10"] ∧
    (exportGraph (fun _ => 1) eleven).map moduleTargets = some ["b.sn_branches.1.conv"] := by
  decide +kernel

/-! ### statements whose result is unused, side users, impure ops -/

/-- stem, an in-place activation called as a statement (`self.act(h)`, result unused), then a block:
branch 0 = conv followed by an in-place statement (`y.clamp_(…)`), branch 1 = conv, an auxiliary
layer whose result is discarded, a random gate (`torch.bernoulli`, impure for fx) and a second conv -/
def statements : Graph := [
  Node.input 0,
  Node.leaf ⟨.module, "stem"⟩ [0],
  Node.leaf ⟨.module, "act"⟩ [1],
  Node.leaf ⟨.module, "b.sn_branches.0.conv"⟩ [1],
  Node.leaf ⟨.method, "clamp_"⟩ [3],
  Node.leaf ⟨.module, "b.sn_branches.1.c1"⟩ [1],
  Node.leaf ⟨.module, "b.sn_branches.1.aux"⟩ [5],
  Node.leaf ⟨.impureFunction, "torch.bernoulli"⟩ [5],
  Node.leaf ⟨.function, "mul"⟩ [5, 7],
  Node.leaf ⟨.module, "b.sn_branches.1.c2"⟩ [8],
  Node.combine "b.sn_combiner" [3, 9],
  Node.output 10]

/-- export keeps the statements outside the block and inside the winning branch, and erases the
discarded branch entirely — auxiliary layer, impure op and all — for either winner. -/
theorem statements_survive_and_discarded_branch_is_gone :
    (exportGraph (fun _ => 0) statements).map moduleTargets =
      some ["stem", "act", "b.sn_branches.0.conv"] ∧
    (exportGraph (fun _ => 0) statements).map (fun g => (g.nd 4).live) = some true ∧
    (exportGraph (fun _ => 1) statements).map moduleTargets =
      some ["stem", "act", "b.sn_branches.1.c1", "b.sn_branches.1.aux", "b.sn_branches.1.c2"] := by
  decide +kernel

/-- the rule before the fix (discarded outputs erased by hand, then fx dead-code elimination): with
branch 0 winning it drops both in-place statements and keeps a layer of the discarded branch alive
through the impure op; with branch 1 winning it raises, because the discarded output still has a
user (the in-place statement). -/
theorem dce_rule_drops_statements_keeps_impure_and_raises :
    (exportGraphDce (fun _ => 0) statements).map moduleTargets =
      some ["stem", "b.sn_branches.0.conv", "b.sn_branches.1.c1"] ∧
    (exportGraphDce (fun _ => 0) statements).map (fun g => (g.nd 4).live) = some false ∧
    exportGraphDce (fun _ => 1) statements = none := by
  decide +kernel

/-! ### "for every value of the selection coefficients": export reads the current alpha -/

/-- forward passes (which re-sample `theta_alpha`), hard/soft switches and temperature updates
never change which branches export selects: only a write of `alpha` can. -/
theorem export_ignores_sampling_history (st : HistSt) (ops : List HistOp)
    (h : ∀ op ∈ ops, op.isWrite = false) : exportWinners (runHist st ops) = exportWinners st := by
  unfold exportWinners
  rw [alphaOf_runHist ops st h]

/-- whatever happened before (any state `st` reached by any history) and whatever sampling or
option updates follow — in particular **no forward pass at all** — after `alpha` of combiner `c`
has been overwritten with `a`, export selects `argmax a` for `c`. -/
theorem export_follows_last_write (st : HistSt) (c : String) (a : List Rat) (ops : List HistOp)
    (hc : c ∈ st.map (·.1)) (h : ∀ op ∈ ops, op.isWrite = false) :
    exportWinners (runHist (histStep st (.setAlpha c a)) ops) c = argmax a := by
  rw [export_ignores_sampling_history _ ops h]
  unfold exportWinners winners
  rw [assoc_alphaOf_write st c a hc]

/-- export is a function of the current coefficients only: earlier calls of `export()` on the same
SuperNet leave no trace — what a later export selects is what it would select had they never
happened (no cache, no memo may survive a write of alpha). -/
theorem export_ignores_earlier_exports (st : HistSt) (ops : List HistOp) :
    exportWinners (runHist st ops) = exportWinners (runHist st (ops.filter fun op => !op.isExport)) := by
  rw [← runHist_filter_export]

/-- a hard-selection block evaluated at alpha = (1,0), then loaded with alpha = (0,1) and exported
without a forward pass in between -/
def loadThenExport : List HistOp :=
  [.setAlpha "b.sn_combiner" [1, 0], .forward false, .setAlpha "b.sn_combiner" [0, 1]]

/-- on it, export (arg-max of the current alpha) selects branch 1, while the rule "with hard
selection take the one-hot `theta_alpha` already holds" (seeded change c03_2) selects the stale
branch 0 of the last forward pass. -/
theorem stale_theta_rule_exports_wrong_branch :
    exportWinners (runHist [("b.sn_combiner", ⟨[1/2, 1/2], some 0, true, false⟩)] loadThenExport)
      "b.sn_combiner" = 1 ∧
    exportWinnersStale (runHist [("b.sn_combiner", ⟨[1/2, 1/2], some 0, true, false⟩)] loadThenExport)
      "b.sn_combiner" = 0 := by
  decide +kernel

end PlinioVerif.C03
