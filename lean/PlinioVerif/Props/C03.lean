import PlinioVerif.Lemmas.SuperNet
/-!
# C03 — SuperNet export keeps exactly the arg-max branch of every choice block

Property theorems only.  `g0` is the traced SuperNet (SSA node list with choice nodes
`combine c outs`), `win c` the winner of combiner `c` (`best_layer_index` = arg-max α — which index
it is is the correspondence's business, the theorems hold for **every** winner assignment),
`exportGraph` the model of `export_graph` (tied to the code by `harness/props/c03.py`), `Env` the
abstract meaning of leaves and inputs.  All statements quantify over every program, every winner
assignment, every leaf semantics and every input.  A block used twice is two `combine` nodes with the
same `c`; nothing below distinguishes that case.
-/
namespace PlinioVerif.C03
open PlinioVerif.SuperNet

/-- "evaluated with hard (one-hot) selection": the combiner's forward `Σ θᵢ·yᵢ` with the one-hot
coefficients of the winners is the hard evaluation, in any module over any semiring. -/
theorem hard_selection_is_onehot_mix {R M : Type} [Semiring R] [AddCommMonoid M] [Module R M]
    (En : Env M) (win : String → Nat) (θ : String → List R) (g : Graph)
    (hθ : ∀ nd ∈ g, ∀ c, nd.op = .combine c →
      θ c = onehot nd.args.length (win c) ∧ win c < nd.args.length) :
    softEval En θ g = hardEval En win g :=
  softEval_onehot En win θ g hθ

/-- **C03, headline (node level)**: every node that survives export computes, on every input and
for every leaf semantics, what it computes in the SuperNet under hard selection — and it no longer
matters which selection `win'` is used to run the exported graph. -/
theorem export_eq_hardEval_nodes {V : Type} {g0 g : Graph} {win : String → Nat} (hwf : WF g0)
    (he : exportGraph win g0 = some g) (En : Env V) (win' : String → Nat) (i : Nat)
    (hl : (g.nd i).live = true) : valAt En win' g i = valAt En win g0 i :=
  (exportGraph_spec hwf he).sim En hwf.1 win' i hl

/-- **C03, headline**: the exported network's output equals the SuperNet's output under hard
selection, for all programs, all winner assignments, all inputs, abstract leaf semantics. -/
theorem export_eq_hardEval {V : Type} {g0 g : Graph} {win : String → Nat} (hwf : WF g0)
    (hio : IOSane g0) (hout : (g0.nd (g0.length - 1)).op = .output)
    (he : exportGraph win g0 = some g) (En : Env V) (win' : String → Nat) :
    netOut En win' g = netOut En win g0 := by
  have sp := exportGraph_spec hwf he
  have hpos : g0.length - 1 < g0.length := by
    by_contra hc
    rw [nd_of_ge g0 _ (by omega)] at hout; cases hout
  unfold netOut
  rw [sp.len]
  exact sp.sim En hwf.1 win' _ (sp.output_live hwf.1 hio _ hpos hout)

/-- every choice block is replaced: no choice node is left in the exported graph -/
theorem export_has_no_choice_left {g0 g : Graph} {win : String → Nat} (hwf : WF g0)
    (he : exportGraph win g0 = some g) (i : Nat) : (g.nd i).isCombine = false :=
  (exportGraph_spec hwf he).plain i

/-- export does not raise on graphs traced from `SuperNetModule`s (winner index in range, branch
outputs feed their combiner only) — whatever the branches end in. -/
theorem export_succeeds {g0 : Graph} {win : String → Nat} (hwf : WF g0) (hd : Discipline win g0) :
    ∃ g, exportGraph win g0 = some g :=
  exportGraph_isSome hwf hd

/-- "all other branches are gone", general form: the (resolved) output node of every branch other
than the winner's is erased, for every combiner node (nested blocks included). -/
theorem export_drops_losers {g0 g : Graph} {win : String → Nat} (hwf : WF g0)
    (he : exportGraph win g0 = some g) (n : Nat) (hn : (g0.nd n).isCombine = true) (a0 : Nat)
    (ha0 : a0 ∈ (g0.nd n).args) (hne : res win g0 a0 ≠ res win g0 n) :
    (g.nd (res win g0 a0)).live = false :=
  (exportGraph_spec hwf he).lost n hn a0 ha0 hne

/-- "all other branches are gone" for flat blocks: every branch output other than the winner's is
erased. -/
theorem export_drops_losers_flat {g0 g : Graph} {win : String → Nat} (hwf : WF g0)
    (hd : Discipline win g0) (he : exportGraph win g0 = some g) (n : Nat) (c : String)
    (hop : (g0.nd n).op = .combine c) (o : Nat) (ho : o ∈ (g0.nd n).args)
    (hne : some o ≠ (g0.nd n).args[win c]?) : (g.nd o).live = false := by
  have hn := (isCombine_iff _).2 ⟨c, hop⟩
  obtain ⟨b, hb, hres⟩ := hd.res_combine hwf.1 hop
  have hro : res win g0 o = o := res_of_not_combine win g0 o (hd.flat n hn o ho)
  have := export_drops_losers hwf he n hn o ho (by rw [hro, hres]; intro h; exact hne (h ▸ hb.symm))
  rwa [hro] at this

/-- nothing dangles: every surviving node is a placeholder or (transitively) feeds the output —
a node whose only consumers were erased does not survive.  Needs `PureLeaves`: no function that fx
regards as impure in the graph (see `impure_op_keeps_discarded_branch` below). -/
theorem export_survivors_feed_output {g0 g : Graph} {win : String → Nat} (hwf : WF g0) (hio : IOSane g0)
    (hpure : PureLeaves g0) (he : exportGraph win g0 = some g) (i : Nat) (hl : (g.nd i).live = true) :
    (∃ k, (g.nd i).op = .input k) ∨ FeedsOutput g i :=
  (exportGraph_spec hwf he).feeds hwf.1 hio hpure i hl

/-- **exactly** the arg-max branches: a node other than a placeholder survives iff it is kept by the
rule "outputs are kept; the arguments of a kept node are kept, a combiner argument standing for
its winner's output" (`Keeps`) — a rule read off the SuperNet and the winners alone. -/
theorem export_keeps_exactly {g0 g : Graph} {win : String → Nat} (hwf : WF g0) (hio : IOSane g0)
    (hpure : PureLeaves g0) (he : exportGraph win g0 = some g) (i : Nat) (hi : i < g0.length)
    (hni : ∀ k, (g0.nd i).op ≠ .input k) : (g.nd i).live = true ↔ Keeps win g0 i := by
  have sp := exportGraph_spec hwf he
  constructor
  · intro hl
    rcases sp.feeds hwf.1 hio hpure i hl with ⟨k, hk⟩ | hf
    · rw [sp.node_eq i hl] at hk; exact absurd hk (hni k)
    · exact sp.feeds_keeps i hf
  · intro hk; exact sp.keeps_live hwf.1 hio i hk hi

/-- what a surviving node looks like: the original op, and every choice among its arguments
replaced by the (resolved) output of the winning branch. -/
theorem export_node_shape {g0 g : Graph} {win : String → Nat} (hwf : WF g0)
    (he : exportGraph win g0 = some g) (i : Nat) (hl : (g.nd i).live = true) :
    g.nd i = ⟨(g0.nd i).op, (g0.nd i).args.map (res win g0)⟩ :=
  (exportGraph_spec hwf he).node_eq i hl

/-- "the layers outside choice blocks are untouched": a surviving node none of whose arguments is
a choice node is literally the node of the SuperNet (same op, same target, same arguments). -/
theorem outside_untouched {g0 g : Graph} {win : String → Nat} (hwf : WF g0)
    (he : exportGraph win g0 = some g) (i : Nat) (hl : (g.nd i).live = true)
    (hargs : ∀ a ∈ (g0.nd i).args, (g0.nd a).isCombine = false) : g.nd i = g0.nd i := by
  rw [export_node_shape hwf he i hl]
  have : (g0.nd i).args.map (res win g0) = (g0.nd i).args := by
    conv_rhs => rw [← List.map_id (g0.nd i).args]
    apply List.map_congr_left
    intro a ha
    exact res_of_not_combine win g0 a (hargs a ha)
  rw [this]

/-- … and such a node is there whenever it is needed: a node that feeds the output of the SuperNet
through non-choice nodes only is kept, whatever the winners are. -/
theorem outside_kept {g0 g : Graph} {win : String → Nat} (hwf : WF g0)
    (he : exportGraph win g0 = some g) (a j : Nat) (hj : (g.nd j).live = true)
    (ha : a ∈ (g0.nd j).args) (hna : (g0.nd a).isCombine = false) : (g.nd a).live = true := by
  have sp := exportGraph_spec hwf he
  apply sp.closed j hj
  rw [sp.node_eq j hj]
  exact List.mem_map.2 ⟨a, ha, res_of_not_combine win g0 a hna⟩

/-! ### the hypotheses are satisfiable; a block used twice; the pinned rule -/

/-- a block of two branches used twice (two `combine` nodes of the same combiner), the second
branch a user block ending in a functional op, a fixed layer before, between and after -/
def twice : Graph := [
  Node.input 0,
  Node.leaf ⟨.module, "c0"⟩ [0],
  Node.leaf ⟨.module, "b.sn_branches.0"⟩ [1],
  Node.leaf ⟨.module, "b.sn_branches.1.conv"⟩ [1],
  Node.leaf ⟨.function, "relu"⟩ [3],
  Node.combine "b.sn_combiner" [2, 4],
  Node.leaf ⟨.module, "mid"⟩ [5],
  Node.leaf ⟨.module, "b.sn_branches.0"⟩ [6],
  Node.leaf ⟨.module, "b.sn_branches.1.conv"⟩ [6],
  Node.leaf ⟨.function, "relu"⟩ [8],
  Node.combine "b.sn_combiner" [7, 9],
  Node.leaf ⟨.module, "fc"⟩ [10],
  Node.output 11]

example : WF twice ∧ IOSane twice ∧ Discipline (fun _ => 1) twice ∧ PureLeaves twice ∧
    (twice.nd (twice.length - 1)).op = .output :=
  ⟨wfB_sound (by decide +kernel), ioSaneB_sound (by decide +kernel),
   disciplineB_sound (by decide +kernel), pureLeavesB_sound (by decide +kernel), by decide +kernel⟩

/-- on it the (positional) export keeps the functional-tail branch at both call sites … -/
example : exportGraph (fun _ => 1) twice = some [
    Node.input 0, Node.leaf ⟨.module, "c0"⟩ [0], Node.E,
    Node.leaf ⟨.module, "b.sn_branches.1.conv"⟩ [1], Node.leaf ⟨.function, "relu"⟩ [3], Node.E,
    Node.leaf ⟨.module, "mid"⟩ [4], Node.E,
    Node.leaf ⟨.module, "b.sn_branches.1.conv"⟩ [6], Node.leaf ⟨.function, "relu"⟩ [8], Node.E,
    Node.leaf ⟨.module, "fc"⟩ [9], Node.output 11] := by decide +kernel

/-- … while the rule of the pinned tree (branch recognised by a substring of the node target) does
not find the winner, whose output node is a function call, and raises
(`Tried to erase Node … but it still had users`). -/
theorem pinned_rule_raises_on_functional_tail : exportGraphPinned (fun _ => 1) twice = none := by
  decide +kernel

/-- eleven branches, the winner (1) ends in a functional op, branch 10 in a module -/
def eleven : Graph :=
  [Node.input 0] ++
  [Node.leaf ⟨.module, "b.sn_branches.0"⟩ [0],
   Node.leaf ⟨.module, "b.sn_branches.1.conv"⟩ [0], Node.leaf ⟨.function, "relu"⟩ [2]] ++
  (List.range 9).map (fun i => Node.leaf ⟨.module, "b.sn_branches." ++ toString (i + 2)⟩ [0]) ++
  [Node.combine "b.sn_combiner" [1, 3, 4, 5, 6, 7, 8, 9, 10, 11, 12], Node.output 13]

/-- the pinned rule takes `sn_branches.10` for `sn_branches.1`: it silently exports branch 10
where the arg-max is branch 1 (found by the C03 check on the reverted tree), the repaired rule
exports branch 1. -/
theorem pinned_rule_exports_wrong_branch :
    (exportGraphPinned (fun _ => 1) eleven).map moduleTargets = some ["b.sn_branches.10"] ∧
    (exportGraph (fun _ => 1) eleven).map moduleTargets = some ["b.sn_branches.1.conv"] := by
  decide +kernel

/-! ### impure ops: "all other branches are gone" needs `PureLeaves` -/

/-- a block whose second branch is conv → random gate (`torch.bernoulli`, impure for fx) → conv -/
def stochasticLoser : Graph := [
  Node.input 0,
  Node.leaf ⟨.module, "b.sn_branches.0"⟩ [0],
  Node.leaf ⟨.module, "b.sn_branches.1.c1"⟩ [0],
  Node.leaf ⟨.impureFunction, "torch.bernoulli"⟩ [2],
  Node.leaf ⟨.function, "mul"⟩ [2, 3],
  Node.leaf ⟨.module, "b.sn_branches.1.c2"⟩ [4],
  Node.combine "b.sn_combiner" [1, 5],
  Node.output 6]

/-- with branch 0 winning, the discarded branch is NOT gone: its output node is erased
(`export_drops_losers`), but dead-code elimination keeps the impure op and the layer feeding it —
`b.sn_branches.1.c1` stays in the exported network although nothing it computes reaches the output.
`export_survivors_feed_output` and `export_keeps_exactly` therefore carry `PureLeaves`; the output
is still the hard evaluation (`export_eq_hardEval` needs no such hypothesis). -/
theorem impure_op_keeps_discarded_branch :
    (exportGraph (fun _ => 0) stochasticLoser).map moduleTargets =
      some ["b.sn_branches.0", "b.sn_branches.1.c1"] ∧
    pureLeavesB stochasticLoser = false := by
  decide +kernel

/-! ### "for every value of the selection coefficients": export reads the current alpha -/

/-- forward passes (which re-sample `theta_alpha`), hard/soft switches and temperature updates
never change which branches export selects: only a write of `alpha` can. -/
theorem export_ignores_sampling_history (st : HistSt) (ops : List HistOp)
    (h : ∀ op ∈ ops, op.isWrite = false) : exportWinners (runHist st ops) = exportWinners st := by
  unfold exportWinners
  rw [alphaOf_runHist ops st h]

/-- whatever happened before (any state `st` reached by any history) and whatever sampling or
option updates follow — in particular **no forward pass at all** — after `alpha` of combiner `c`
has been overwritten with `a`, export selects `argmax a` for `c`. -/
theorem export_follows_last_write (st : HistSt) (c : String) (a : List Rat) (ops : List HistOp)
    (hc : c ∈ st.map (·.1)) (h : ∀ op ∈ ops, op.isWrite = false) :
    exportWinners (runHist (histStep st (.setAlpha c a)) ops) c = argmax a := by
  rw [export_ignores_sampling_history _ ops h]
  unfold exportWinners winners
  rw [assoc_alphaOf_write st c a hc]

/-- export is a function of the current coefficients only: earlier calls of `export()` on the same
SuperNet leave no trace — what a later export selects is what it would select had they never
happened (no cache, no memo may survive a write of alpha). -/
theorem export_ignores_earlier_exports (st : HistSt) (ops : List HistOp) :
    exportWinners (runHist st ops) = exportWinners (runHist st (ops.filter fun op => !op.isExport)) := by
  rw [← runHist_filter_export]

/-- a hard-selection block evaluated at alpha = (1,0), then loaded with alpha = (0,1) and exported
without a forward pass in between -/
def loadThenExport : List HistOp :=
  [.setAlpha "b.sn_combiner" [1, 0], .forward false, .setAlpha "b.sn_combiner" [0, 1]]

/-- on it, export (arg-max of the current alpha) selects branch 1, while the rule "with hard
selection take the one-hot `theta_alpha` already holds" (seeded change c03_2) selects the stale
branch 0 of the last forward pass. -/
theorem stale_theta_rule_exports_wrong_branch :
    exportWinners (runHist [("b.sn_combiner", ⟨[1/2, 1/2], some 0, true, false⟩)] loadThenExport)
      "b.sn_combiner" = 1 ∧
    exportWinnersStale (runHist [("b.sn_combiner", ⟨[1/2, 1/2], some 0, true, false⟩)] loadThenExport)
      "b.sn_combiner" = 0 := by
  decide +kernel

end PlinioVerif.C03
