import PlinioVerif.Lemmas.PIT.TimeLink
/-!
# C08 — no setting of the architectural parameters can search a layer out of existence

The statements are about the executable model `PlinioVerif.PIT` (tied to the masker classes and
`PITConv1d` by `harness/props/c08.py`) and hold for **every** rational parameter vector — zero,
negative and huge values included — every kernel size and every initial dilation.  The generic
versions hold over any linearly ordered field, i.e. for all real parameter values.
Not covered: `inf`/`NaN` parameters (outside "real values"), float32 rounding of the sums.
-/
namespace PlinioVerif.C08
open PlinioVerif.PIT

/-- every searchable layer keeps its keep-alive output feature, whatever `alpha` is -/
theorem keepalive_feature (C : ℕ) (hC : 0 < C) (α : ℕ → ℚ) :
    (featuresMask C α).getD (C - 1) false = true := by
  unfold featuresMask
  have : C - 1 < C := by omega
  simp only [List.getD_eq_getElem?_getD, List.getElem?_map, List.getElem?_range this, Option.map_some,
    Option.getD_some]
  rw [bin_iff]; unfold thetaAlpha ka
  rw [if_pos (by omega)]; norm_num

/-- hence at least one output feature survives: `out_features_opt ≥ 1` -/
theorem out_features_opt_pos (C : ℕ) (hC : 0 < C) (α : ℕ → ℚ) :
    1 ≤ countTrue (featuresMask C α) := by
  have h := keepalive_feature C hC α
  unfold countTrue
  apply List.length_pos_iff.mpr
  intro hnil
  have hmem : true ∈ (featuresMask C α) := by
    have hlen : C - 1 < (featuresMask C α).length := by unfold featuresMask; simp; omega
    rw [List.getD_eq_getElem?_getD, List.getElem?_eq_getElem hlen] at h
    simp only [Option.getD_some] at h
    exact h ▸ List.getElem_mem hlen
  have : true ∈ (featuresMask C α).filter id := List.mem_filter.mpr ⟨hmem, rfl⟩
  rw [hnil] at this; cases this

/-- the most recent tap survives every value of `beta` and `gamma` -/
theorem time_mask_last_tap (K : ℕ) (hK : 0 < K) (β γ : ℕ → ℚ) :
    (timeMask K β γ).getD (K - 1) false = true := by
  obtain ⟨a, t, ha, -, hm, -⟩ := timeMask_shape K hK β γ
  rw [hm]
  have : K - 1 < K := by omega
  simp only [List.getD_eq_getElem?_getD, List.getElem?_map, List.getElem?_range this, Option.map_some,
    Option.getD_some, decide_eq_true_eq]
  exact ⟨by omega, by simp⟩

/-- `kernel_size_opt` is between 1 and the seed's kernel size -/
theorem kernel_size_opt_bounds (K : ℕ) (hK : 0 < K) (β γ : ℕ → ℚ) :
    1 ≤ kernelSizeOpt K β γ ∧ kernelSizeOpt K β γ ≤ K := by
  obtain ⟨a, t, h⟩ := shape_exists K 1 hK β γ
  rw [h.kopt]
  have hs : 0 < 2 ^ t := Nat.pos_of_ne_zero (by positivity)
  refine ⟨Nat.le_add_left _ _, ?_⟩
  have : (K - 1 - a) / 2 ^ t ≤ K - 1 - a := Nat.div_le_self _ _
  have := h.a_lt
  omega

/-- `dilation_opt` is a power of two times the seed's dilation, hence at least one -/
theorem dilation_opt_pos (K d0 : ℕ) (hK : 0 < K) (hd : 0 < d0) (γ : ℕ → ℚ) :
    1 ≤ dilationOpt K d0 γ ∧ ∃ t, t < gammaLen K ∧ dilationOpt K d0 γ = 2 ^ t * d0 := by
  obtain ⟨a, t, h⟩ := shape_exists K d0 hK (fun _ => 1) γ
  have hs : 0 < 2 ^ t := Nat.pos_of_ne_zero (by positivity)
  refine ⟨?_, t, h.t_lt, h.dopt⟩
  rw [h.dopt]; exact Nat.mul_pos hs hd

/-- the receptive field of the exported layer never exceeds the seed's: the padding `export`
re-creates fits in the original one, so the exported layer runs on inputs of the original shape
and (stride 1, causal padding) returns outputs of the original length -/
theorem exported_receptive_field_le (K d0 : ℕ) (hK : 0 < K) (β γ : ℕ → ℚ) :
    padOpt K d0 β γ ≤ (K - 1) * d0 := by
  obtain ⟨a, t, h⟩ := shape_exists K d0 hK β γ
  unfold padOpt
  rw [h.kopt, h.dopt]
  have h1 : (K - 1 - a) / 2 ^ t * 2 ^ t ≤ K - 1 - a := Nat.div_mul_le_self _ _
  calc ((K - 1 - a) / 2 ^ t + 1 - 1) * (2 ^ t * d0)
      = ((K - 1 - a) / 2 ^ t * 2 ^ t) * d0 := by rw [Nat.add_sub_cancel, Nat.mul_assoc]
    _ ≤ (K - 1 - a) * d0 := Nat.mul_le_mul_right _ h1
    _ ≤ (K - 1) * d0 := Nat.mul_le_mul_right _ (by omega)

/-- output length of a stride-1 convolution with left padding `pad`: the re-created padding
keeps the length of the input -/
theorem exported_output_length (K d0 Lin : ℕ) (β γ : ℕ → ℚ) :
    Lin + padOpt K d0 β γ - (kernelSizeOpt K β γ - 1) * dilationOpt K d0 γ = Lin := by
  unfold padOpt; omega

/-- a frozen masker (features tied to the network's inputs/outputs) reports all-ones:
the layer keeps its full width -/
theorem frozen_full_width (C : ℕ) :
    (List.range C).map (fun _ => bin 1) = List.replicate C true := by
  have : bin 1 = true := by rw [bin_iff]; norm_num
  rw [this, List.map_const', List.length_range]

/-- generic form over any linearly ordered field (all real parameter values): the keep-alive
element of a features masker is above the binarisation threshold -/
theorem keepalive_feature_field {F : Type} [Field F] [LinearOrder F] [IsStrictOrderedRing F]
    (C : ℕ) (hC : 0 < C) (α : ℕ → F) : (1 : F) / 2 < PITTime.ka C α (C - 1) := by
  rw [PITTime.ka_last C hC]; norm_num

/-- generic form over any linearly ordered field: the last tap survives in both masks -/
theorem last_tap_alive_field {F : Type} [Field F] [LinearOrder F] [IsStrictOrderedRing F]
    (K L : ℕ) (hK : 0 < K) (hL : 0 < L) (β γ : ℕ → F) :
    (1 : F) / 2 < PITTime.thetaBeta K β (K - 1) ∧ (1 : F) / 2 < PITTime.thetaGamma K L γ (K - 1) :=
  PITTime.last_tap_alive K L hK hL β γ

/-! ### non-vacuity and regression witnesses -/

/-- all parameters driven to zero on a 6-tap kernel: one tap, dilation 4·d0 (d0 = 3), pad 0 -/
example : kernelSizeOpt 6 (fun _ => 0) (fun _ => 0) = 1 ∧ dilationOpt 6 3 (fun _ => 0) = 12 ∧
    padOpt 6 3 (fun _ => 0) (fun _ => 0) = 0 := by decide +kernel

/-- huge and negative values are as good as open masks -/
example : kernelSizeOpt 5 (ofList [-1000000000000, 3, -7, 1/3, 0]) (ofList [10^30, -2, 0]) = 5 := by
  decide +kernel

/-- pinned tree (comb anchored at tap 0): with `beta` pruned to the last tap and the dilation
mask at its coarsest setting a 4-tap kernel was searched out of existence (0 taps) -/
theorem pinned_kernel_can_vanish :
    countTrue (timeMaskPinned 4 (ofList [0, 0, 0, 1]) (ofList [0, 1])) = 0 := by decide +kernel

end PlinioVerif.C08
