import PlinioVerif.Lemmas.Checkpoint
import PlinioVerif.Gen.Fields
/-!
# C17 — a checkpointed search resumes to an observationally identical model

Property theorems only.  The model (`Model/Checkpoint.lean`) is a wrapper state over *classified* fields;
the classification of the PLiNIO classes is the generated table `Gen.Fields.table`, re-extracted from the
sources on every run and tied to the running objects by `harness/props/c17.py`.

Protocol **R** (the demanded reading, DESIGN §6): a wrapper constructed with the same arguments, the
configuration calls of the history re-applied, strict `load_state_dict`, one forward.  The literal
reading (nothing re-applied) is stated next to it, with the witness that shows why it fails for
by-design configuration (finding K7) and the witnesses that show each hypothesis is needed.
All statements quantify over **every** history (any number of training steps with arbitrary effect on
every trainable field, option changes, mode switches), every carrier `Sem` and every input.
-/
set_option linter.unusedSectionVars false
namespace PlinioVerif.C17
open PlinioVerif.Checkpoint
variable {F V X O : Type} [DecidableEq F]

/-- a freshly constructed wrapper has all its (non-late) keys -/
def Constructed (σ : Sig F) (s : MState F V) : Prop :=
  ∀ f, (σ.kind f).persisted = true → σ.late f = false → s.present f = true

/-- **C17, headline** — resume under protocol R is observationally identical: for every history `ops`
from a wrapper `init`, saving the `state_dict` of the reached state and loading it into a wrapper
`fresh` built with the same constructor arguments on which the history's configuration calls were
re-applied gives, after one forward on any input, the same outputs / cost / summary / export as the
original — provided every field an observer reads is persisted, recomputed on forward, configuration
or constructor constant (`Classified`, discharged for the extracted table by `gen_fields_classified`). -/
theorem resume_obs_eq (σ : Sig F) (sem : Sem F V X O) (hc : Classified σ) (hl : NoLate σ)
    (init fresh : MState F V) (hsame : SameCtor σ init fresh) (hcon : Constructed σ init)
    (ops : List (Op F V)) (x : X) :
    obs σ sem x (resumeR σ fresh ops (run σ init ops)) = obs σ sem x (run σ init ops) := by
  apply obs_eq_of_agree σ sem hc x
  have hfz := run_frozen σ ops (a := init) (b := fresh) ⟨hsame.frozen, hsame.training⟩
  have hpi : ∀ f, (σ.kind f).persisted = true → (run σ init ops).present f = true := fun f hp => by
    rw [run_present σ hl ops init f hp]; exact hcon f hp (hl f hp)
  have hpf : ∀ f, (σ.kind f).persisted = true → (run σ fresh (cfgOf ops)).present f = true := fun f hp => by
    rw [run_present σ hl _ fresh f hp, ← hsame.present f hp]; exact hcon f hp (hl f hp)
  refine ⟨hfz.training.symm, fun f hp => ?_, fun f _ hf => ?_⟩
  · exact load_persisted σ _ _ f hp (hpi f hp) (hpf f hp)
  · unfold resumeR
    rw [load_other σ _ _ f (frozen_not_persisted hf)]
    exact (hfz.val f hf).symm

/-- **protocol R in its minimal form** — options that are themselves persisted (the MPS softmax temperature
is a buffer) need not, and in the check are not, re-applied on the fresh wrapper: re-applying only the mode
and the option calls whose target lives outside the state_dict gives the same identical resume. (An
implementation that consults a *second*, non-persisted copy of such an option is thereby exposed.) -/
theorem resume_obs_eq_persisted_options_not_reapplied (σ : Sig F) (sem : Sem F V X O) (hc : Classified σ)
    (hl : NoLate σ) (init fresh : MState F V) (hsame : SameCtor σ init fresh) (hcon : Constructed σ init)
    (ops : List (Op F V)) (x : X) :
    obs σ sem x (resumeRmin σ fresh ops (run σ init ops)) = obs σ sem x (run σ init ops) := by
  apply obs_eq_of_agree σ sem hc x
  have hfz := run_frozen_min σ ops (a := init) (b := fresh) ⟨hsame.frozen, hsame.training⟩
  have hpi : ∀ f, (σ.kind f).persisted = true → (run σ init ops).present f = true := fun f hp => by
    rw [run_present σ hl ops init f hp]; exact hcon f hp (hl f hp)
  have hpf : ∀ f, (σ.kind f).persisted = true → (run σ fresh (cfgMin σ ops)).present f = true := fun f hp => by
    rw [run_present σ hl _ fresh f hp, ← hsame.present f hp]; exact hcon f hp (hl f hp)
  refine ⟨hfz.training.symm, fun f hp => ?_, fun f _ hf => ?_⟩
  · exact load_persisted σ _ _ f hp (hpi f hp) (hpf f hp)
  · unfold resumeRmin
    rw [load_other σ _ _ f (frozen_not_persisted hf)]
    exact (hfz.val f hf).symm

/-- **C17, keys** — strict loading reports no missing and no unexpected key, whatever the two
histories were: the key set of a wrapper is fixed by its constructor arguments. -/
theorem keys_match (σ : Sig F) (hl : NoLate σ) (init fresh : MState F V) (hsame : SameCtor σ init fresh)
    (ops ops' : List (Op F V)) (all : List F) :
    missingKeys σ all (save σ (run σ init ops)) (run σ fresh ops') = [] ∧
    unexpectedKeys σ all (save σ (run σ init ops)) (run σ fresh ops') = [] := by
  have key : ∀ f, isKey σ (run σ fresh ops') f = isKey σ (run σ init ops) f := fun f => by
    unfold isKey
    cases hp : (σ.kind f).persisted with
    | false => simp
    | true => simp [run_present σ hl _ _ f hp, hsame.present f hp]
  constructor
  · unfold missingKeys
    rw [List.filter_eq_nil_iff]
    intro f _
    rw [key f]
    unfold save isKey
    cases h : ((σ.kind f).persisted && (run σ init ops).present f) <;> simp [h]
  · unfold unexpectedKeys
    rw [List.filter_eq_nil_iff]
    intro f _
    rw [key f]
    unfold save isKey
    cases h : ((σ.kind f).persisted && (run σ init ops).present f) <;> simp [h]

/-- the key set itself is the same on the trained and on the fresh wrapper -/
theorem key_sets_equal (σ : Sig F) (hl : NoLate σ) (init fresh : MState F V) (hsame : SameCtor σ init fresh)
    (ops ops' : List (Op F V)) (f : F) :
    isKey σ (run σ init ops) f = isKey σ (run σ fresh ops') f := by
  unfold isKey
  cases hp : (σ.kind f).persisted with
  | false => simp
  | true => simp [run_present σ hl _ _ f hp, hsame.present f hp]

/-- **the key set does not depend on the call history** — observer calls (`summary()`, `str(model)`,
`export()`, `cost`, `get_cost`) are operations of the history alphabet (`Op.observe`) on either side: the
checkpointed wrapper may have been summarised / exported any number of times before `state_dict()`, the
fresh wrapper may have been observed before `load_state_dict` (`pre`); the resume is identical and
strict loading is clean all the same. -/
theorem resume_obs_eq_observed (σ : Sig F) (sem : Sem F V X O) (hc : Classified σ) (hl : NoLate σ)
    (init fresh : MState F V) (hsame : SameCtor σ init fresh) (hcon : Constructed σ init)
    (ops pre : List (Op F V)) (hpre : ∀ op ∈ pre, op.isObserve = true) (x : X) (all : List F) :
    obs σ sem x (resumeR σ (run σ fresh pre) ops (run σ init ops)) = obs σ sem x (run σ init ops) ∧
    missingKeys σ all (save σ (run σ init ops)) (run σ (run σ fresh pre) (cfgOf ops)) = [] ∧
    unexpectedKeys σ all (save σ (run σ init ops)) (run σ (run σ fresh pre) (cfgOf ops)) = [] :=
  have hs := sameCtor_observed σ hl hsame pre hpre
  ⟨resume_obs_eq σ sem hc hl init _ hs hcon ops x, keys_match σ hl init _ hs ops (cfgOf ops) all⟩

/-- the checkpoint of the resumed wrapper is the checkpoint that was loaded (saving right after a
resume loses nothing) -/
theorem save_resume_eq_save (σ : Sig F) (hl : NoLate σ) (init fresh : MState F V)
    (hsame : SameCtor σ init fresh) (hcon : Constructed σ init) (ops : List (Op F V)) :
    save σ (resumeR σ fresh ops (run σ init ops)) = save σ (run σ init ops) := by
  funext f
  have hpi : ∀ f, (σ.kind f).persisted = true → (run σ init ops).present f = true := fun f hp => by
    rw [run_present σ hl ops init f hp]; exact hcon f hp (hl f hp)
  have hpf : ∀ f, (σ.kind f).persisted = true → (run σ fresh (cfgOf ops)).present f = true := fun f hp => by
    rw [run_present σ hl _ fresh f hp, ← hsame.present f hp]; exact hcon f hp (hl f hp)
  cases hp : (σ.kind f).persisted with
  | false => simp [save, hp]
  | true =>
    have h1 := load_persisted σ (run σ init ops) (run σ fresh (cfgOf ops)) f hp (hpi f hp) (hpf f hp)
    have h2 : (resumeR σ fresh ops (run σ init ops)).present f = true := hpf f hp
    simp only [save, hp, h2, hpi f hp, Bool.and_self, if_true]
    exact congrArg some h1

/-- loading a wrapper's own checkpoint changes nothing -/
theorem load_own_checkpoint (σ : Sig F) (s : MState F V) : load σ (save σ s) s = s := by
  cases s with
  | mk val present training =>
    simp only [load, save, isKey, MState.mk.injEq, and_true]
    funext f
    cases h : ((σ.kind f).persisted && present f) <;> simp [h]

/-- training never writes configuration or constructor fields: after any history they hold what the
history's configuration calls alone put there (this is what lets protocol R re-apply *only* those) -/
theorem config_untouched_by_training (σ : Sig F) (s : MState F V) (ops : List (Op F V)) (f : F)
    (hf : (σ.kind f).frozen = true) :
    (run σ s ops).val f = (run σ s (cfgOf ops)).val f ∧ (run σ s ops).training = (run σ s (cfgOf ops)).training :=
  let h := run_frozen σ ops (a := s) (b := s) ⟨fun _ _ => rfl, rfl⟩
  ⟨h.val f hf, h.training⟩

/-- **literal reading, the part that holds** — without re-applying anything (only the mode in which
the caller observes), the resumed wrapper is still identical when the history left every configuration
field that an observer reads at its constructor default. -/
theorem resume_literal_obs_eq_partial (σ : Sig F) (sem : Sem F V X O) (hc : Classified σ) (hl : NoLate σ)
    (init fresh : MState F V) (hsame : SameCtor σ init fresh) (hcon : Constructed σ init)
    (ops : List (Op F V)) (x : X)
    (hdefault : ∀ f, σ.read f = true → σ.kind f = .config → (run σ init ops).val f = init.val f) :
    obs σ sem x (resumeL σ fresh (run σ init ops)) = obs σ sem x (run σ init ops) := by
  apply obs_eq_of_agree σ sem hc x
  have hpi : ∀ f, (σ.kind f).persisted = true → (run σ init ops).present f = true := fun f hp => by
    rw [run_present σ hl ops init f hp]; exact hcon f hp (hl f hp)
  have hfz := run_frozen σ ops (a := init) (b := init) ⟨fun _ _ => rfl, rfl⟩
  refine ⟨rfl, fun f hp => ?_, fun f hr hf => ?_⟩
  · refine load_persisted σ _ _ f hp (hpi f hp) ?_
    show fresh.present f = true
    rw [← hsame.present f hp]; exact hcon f hp (hl f hp)
  · unfold resumeL
    rw [load_other σ _ _ f (frozen_not_persisted hf)]
    show fresh.val f = (run σ init ops).val f
    rw [← hsame.frozen f hf]
    cases hk : σ.kind f with
    | config => exact (hdefault f hr hk).symm
    | ctor =>
      -- constructor constants are never written after construction
      have : ∀ (ops : List (Op F V)) (s : MState F V), (run σ s ops).val f = s.val f := by
        intro ops
        induction ops with
        | nil => intro s; rfl
        | cons op ops ih =>
          intro s
          show (run σ (step σ s op) ops).val f = s.val f
          rw [ih]
          cases op with
          | train u => simp [step, hf]
          | setOpt g v =>
            simp only [step]
            split
            · rename_i hs
              by_cases hfg : f = g
              · subst hfg; simp [hk, FClass.settable] at hs
              · simp [hfg]
            · rfl
          | mode b => rfl
          | observe => rfl
      exact (this ops init).symm
    | param => simp [hk, FClass.frozen] at hf
    | pbuf => simp [hk, FClass.frozen] at hf
    | recomputed => simp [hk, FClass.frozen] at hf
    | volatile => simp [hk, FClass.frozen] at hf

/-! ### witnesses: why each hypothesis is there -/

/-- one configuration field that the observers read (think `SuperNetCombiner._softmax_temperature`) -/
def cfgSig : Sig Unit := ⟨fun _ => .config, fun _ => true, fun _ => false⟩
/-- one unclassified field that the observers read (think "annealing counter kept in a Python float") -/
def volSig : Sig Unit := ⟨fun _ => .volatile, fun _ => true, fun _ => false⟩
/-- one buffer registered lazily by the first forward -/
def lateSig : Sig Unit := ⟨fun _ => .pbuf, fun _ => true, fun _ => true⟩
/-- observers that simply report the field -/
def idSem : Sem Unit Nat Unit (Option Nat) := ⟨fun _ _ _ _ => 0, fun _ _ _ _ old => old, fun v _ _ => v ()⟩
def st0 : MState Unit Nat := ⟨fun _ => 0, fun _ => true, false⟩
def stLate : MState Unit Nat := ⟨fun _ => 0, fun _ => false, false⟩

/-- **literal reading fails by design (finding K7)**: an option changed during the search lives outside
the `state_dict`; without re-applying it the resumed wrapper observes differently … -/
theorem literal_resume_differs :
    obs cfgSig idSem () (resumeL cfgSig st0 (run cfgSig st0 [.setOpt () 5]))
      ≠ obs cfgSig idSem () (run cfgSig st0 [.setOpt () 5]) := by decide

/-- … while protocol R on the very same history agrees (instance of `resume_obs_eq`). -/
example : obs cfgSig idSem () (resumeR cfgSig st0 [.setOpt () 5] (run cfgSig st0 [.setOpt () 5]))
      = obs cfgSig idSem () (run cfgSig st0 [.setOpt () 5]) := by decide

/-- one field that every forward recomputes and the observers read (think `SuperNetCombiner.theta_alpha`, a
plain tensor attribute: the sampled branch coefficients that weight the SuperNet cost) -/
def recSig : Sig Unit := ⟨fun _ => .recomputed, fun _ => true, fun _ => false⟩

/-- **why the statement says "after the usual forward pass"**: a recomputed-on-forward field is not in the
checkpoint; read *before* the forward it still holds the fresh wrapper's start-up value (SuperNet: cost and
ICV of the uniform architecture right after `load_state_dict`), and the forward puts it right — -/
theorem recomputed_field_stale_until_forward :
    view recSig (resumeR recSig st0 [.train fun _ _ => 7] (run recSig st0 [.train fun _ _ => 7])) ()
      ≠ view recSig (run recSig st0 [.train fun _ _ => 7]) () ∧
    obs recSig idSem () (resumeR recSig st0 [.train fun _ _ => 7] (run recSig st0 [.train fun _ _ => 7]))
      = obs recSig idSem () (run recSig st0 [.train fun _ _ => 7]) := by decide

/-- **`Classified` is necessary**: a field outside the `state_dict` that training changes and an observer
reads breaks the resume even under protocol R. -/
theorem unclassified_field_breaks_resume :
    obs volSig idSem () (resumeR volSig st0 [.train fun _ _ => 7] (run volSig st0 [.train fun _ _ => 7]))
      ≠ obs volSig idSem () (run volSig st0 [.train fun _ _ => 7]) := by decide

/-- **`NoLate` is necessary**: a buffer registered by the first forward is an unexpected key for a
freshly constructed wrapper. -/
theorem late_key_breaks_strict_load :
    unexpectedKeys lateSig [()] (save lateSig (run lateSig stLate [.train fun v => v])) stLate ≠ [] := by
  decide

/-- … and so does a buffer registered by the first `summary()` / `export()`: unexpected when only the
checkpointed wrapper was observed, missing when only the fresh one was -/
theorem late_key_depends_on_observer_history :
    unexpectedKeys lateSig [()] (save lateSig (run lateSig stLate [.observe])) stLate ≠ [] ∧
    missingKeys lateSig [()] (save lateSig stLate) (run lateSig stLate [.observe]) ≠ [] := by
  decide

/-! ### the extracted table satisfies the hypotheses -/

/-- every field of the extracted PLiNIO table that an observer path reads is a parameter, a persistent
buffer, recomputed on every forward, configuration, or a constructor constant -/
theorem gen_fields_classified : Classified (sigOf Gen.Fields.table) :=
  classified_of_table _ (by decide +kernel)

/-- no parameter / buffer of the extracted table is registered after construction -/
theorem gen_fields_no_late : NoLate (sigOf Gen.Fields.table) :=
  noLate_of_table _ (by decide +kernel)

/-- **C17 for the PLiNIO field table**: the headline with its classification hypotheses discharged. -/
theorem resume_obs_eq_plinio (sem : Sem Nat V X O) (init fresh : MState Nat V)
    (hsame : SameCtor (sigOf Gen.Fields.table) init fresh) (hcon : Constructed (sigOf Gen.Fields.table) init)
    (ops : List (Op Nat V)) (x : X) :
    obs (sigOf Gen.Fields.table) sem x (resumeR (sigOf Gen.Fields.table) fresh ops (run (sigOf Gen.Fields.table) init ops))
      = obs (sigOf Gen.Fields.table) sem x (run (sigOf Gen.Fields.table) init ops) :=
  resume_obs_eq _ sem gen_fields_classified gen_fields_no_late init fresh hsame hcon ops x

/-- … and strict loading is clean for it. -/
theorem keys_match_plinio (init fresh : MState Nat V) (hsame : SameCtor (sigOf Gen.Fields.table) init fresh)
    (ops ops' : List (Op Nat V)) (all : List Nat) :
    missingKeys (sigOf Gen.Fields.table) all (save (sigOf Gen.Fields.table) (run (sigOf Gen.Fields.table) init ops))
        (run (sigOf Gen.Fields.table) fresh ops') = [] ∧
    unexpectedKeys (sigOf Gen.Fields.table) all (save (sigOf Gen.Fields.table) (run (sigOf Gen.Fields.table) init ops))
        (run (sigOf Gen.Fields.table) fresh ops') = [] :=
  keys_match _ gen_fields_no_late init fresh hsame ops ops' all

/-! ### the hypotheses are satisfiable -/

example : Classified cfgSig := by intro f _; simp [cfgSig]
example : NoLate cfgSig := by intro f _; rfl
example : SameCtor cfgSig st0 st0 := ⟨fun _ _ => rfl, rfl, fun _ _ => rfl⟩
example : Constructed cfgSig st0 := fun _ _ _ => rfl
/-- two wrappers of the generated signature built alike -/
example : SameCtor (sigOf Gen.Fields.table) (⟨fun _ => 0, fun _ => true, true⟩ : MState Nat Nat)
    ⟨fun _ => 0, fun _ => true, true⟩ := ⟨fun _ _ => rfl, rfl, fun _ _ => rfl⟩

end PlinioVerif.C17
